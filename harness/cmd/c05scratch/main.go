package main

import (
	"bytes"
	"fmt"
	"time"

	"github.com/influxdata/telegraf/plugins/parsers/influx"
)

func try(b []byte, stream bool) string {
	done := make(chan string, 1)
	go func() {
		if stream {
			parser := influx.NewStreamParser(bytes.NewReader(b))
			for i := 0; i < 50; i++ {
				_, err := parser.Next()
				if err == influx.EOF {
					done <- "eof"
					return
				}
				if err != nil {
					done <- "err: " + err.Error()
					return
				}
			}
			done <- "many"
		} else {
			p := influx.Parser{}
			p.Init()
			_, err := p.Parse(b)
			done <- fmt.Sprint("parse: ", err)
		}
	}()
	select {
	case s := <-done:
		return s
	case <-time.After(500 * time.Millisecond):
		return "SPIN"
	}
}

func main() {
	ends := []string{"\\", "m\\", "m,t\\", "m,t=a\\", "m,t=a f\\", "m f=\"ab", "m f=\"ab\\", "m f=1\\", "m f=1 1\\", "m f=1 ", "m,", "m,t", "m,t=", "m f", "m f=", "m f=1i", "m f=1 12", "#", "# c\\", "m f=t", "m f=\"", "\\\\", "m\\\\", "m f=\"a\\\\"}
	for _, s := range ends {
		fmt.Printf("%q raw=%s withNL=%s\n", s, try([]byte(s), true), try([]byte(s+"\n"), true))
	}
}
