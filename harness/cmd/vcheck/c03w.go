package main

// C03, decoder stream ("wire"): RAW bodies written byte by byte by the generator (document-order permutations,
// duplicate members, escapes, odd numbers, every RFC 3339 form, every Influx field kind, nested AnyValues …) →
//   * the real exported parser (c03Run) → chunk sequence,
//   * the trusted conversion bytes → intermediate value (c03wire.go, the SAME third-party library) → the decoder MODEL
//     of lean/Qryn/Ingest/WireDecode.lean followed by the builder model → chunk sequence; compared as text,
//   * the ORACLE: the generator knows which streams/entries it wrote (it never looks at a decoder); c03Judge demands
//     one faithful row per entry under the entry's own stream.

import (
	"bytes"
	"encoding/base64"
	"encoding/hex"
	"encoding/json"
	"fmt"
	"math"
	"sort"
	"strconv"
	"strings"
	"time"

	"github.com/go-faster/jx"
	"github.com/go-logfmt/logfmt"
	"github.com/golang/snappy"
	"github.com/metrico/qryn/writer/utils/proto/logproto"
	"github.com/metrico/qryn/writer/utils/proto/prompb"
	otlpCommon "go.opentelemetry.io/proto/otlp/common/v1"
	otlpLogs "go.opentelemetry.io/proto/otlp/logs/v1"
	otlpRes "go.opentelemetry.io/proto/otlp/resource/v1"
	"google.golang.org/protobuf/proto"

	"verif/harness/h"
)

// c03wNow marks a timestamp the decoder takes from the wall clock
const c03wNow = math.MinInt64 + 7

type c03wStream struct {
	Labels  []c03Label    `json:"labels"` // as handed to onEntries (after the protocol's own label rule)
	Entries []c03ExpEntry `json:"entries"`
}

type c03wCase struct {
	Proto   string       `json:"proto"`
	Ttl     uint16       `json:"ttl_header"`
	BodyHex string       `json:"body_hex"`
	Body    string       `json:"body_text,omitempty"`
	Wire    bool         `json:"wire"`
	Reject  bool         `json:"reject"` // written ill-formed on purpose: Decode must return an error
	Streams []c03wStream `json:"streams"`
	Tags    []string     `json:"tags,omitempty"`

	body     []byte
	allowBad bool // this body may be given ill-formed parts (decided once per body, so that most bodies are well formed)
}

// bad: should an ill-formed variant be written here?
func (c *c03wCase) bad(rng *h.Rng, pct int) bool { return c.allowBad && rng.Chance(pct) }

func (c *c03wCase) tag(t string) { c.Tags = append(c.Tags, t) }

func (c *c03wCase) finish() *c03wCase {
	c.Wire = true
	c.BodyHex = hex.EncodeToString(c.body)
	if len(c.body) < 4000 && (c.Proto == "loki" || c.Proto == "ddlogs" || c.Proto == "ddseries" || c.Proto == "influx") {
		c.Body = string(c.body)
	}
	return c
}

// ---- writing JSON by hand ------------------------------------------------------------------------------------

// c03wJStr: a JSON string literal for s (valid UTF-8) with escapes chosen by rng: \uXXXX (either hex case),
// surrogate pairs, \/ , short and long forms of control characters
func c03wJStr(rng *h.Rng, s string) string {
	var sb strings.Builder
	sb.WriteByte('"')
	u4 := func(r rune) {
		if rng != nil && rng.Bool() {
			fmt.Fprintf(&sb, `\u%04X`, r)
		} else {
			fmt.Fprintf(&sb, `\u%04x`, r)
		}
	}
	for _, r := range s {
		switch {
		case r == '"' || r == '\\':
			sb.WriteByte('\\')
			sb.WriteRune(r)
		case r < 0x20:
			short := map[rune]string{'\n': `\n`, '\r': `\r`, '\t': `\t`, '\b': `\b`, '\f': `\f`}
			if e, ok := short[r]; ok && (rng == nil || rng.Bool()) {
				sb.WriteString(e)
			} else {
				u4(r)
			}
		case rng != nil && rng.Chance(12):
			if r < 0x10000 {
				u4(r)
			} else {
				r -= 0x10000
				u4(0xD800 + (r >> 10))
				u4(0xDC00 + (r & 0x3FF))
			}
		case r == '/' && rng != nil && rng.Bool():
			sb.WriteString(`\/`)
		default:
			sb.WriteRune(r)
		}
	}
	sb.WriteByte('"')
	return sb.String()
}

func c03wWS(rng *h.Rng) string {
	if rng == nil || !rng.Chance(8) {
		return ""
	}
	return h.Pick(rng, []string{" ", "\n", "\t", " \r\n "})
}

type c03wMember struct{ key, val string }

func c03wObj(rng *h.Rng, ms []c03wMember) string {
	parts := make([]string, len(ms))
	for i, m := range ms {
		parts[i] = c03wWS(rng) + c03wJStr(rng, m.key) + c03wWS(rng) + ":" + c03wWS(rng) + m.val
	}
	return "{" + strings.Join(parts, ",") + c03wWS(rng) + "}"
}

func c03wArr(rng *h.Rng, items []string) string {
	return "[" + c03wWS(rng) + strings.Join(items, ","+c03wWS(rng)) + "]"
}

func c03wShuffle[T any](rng *h.Rng, xs []T) {
	for i := len(xs) - 1; i > 0; i-- {
		j := rng.Intn(i + 1)
		xs[i], xs[j] = xs[j], xs[i]
	}
}

var c03wJunk = []string{`null`, `true`, `0`, `"x"`, `[1,{"a":[null,"}"]}]`, `{"streams":[{"stream":{"evil":"1"},"values":[["1","no"]]}]}`, `{"values":[["5","x"]],"ts":"7"}`, `[]`, `{}`, `-1.5e-7`}

// c03wNumText: a JSON number text; ok = jx's Float64 accepts it (then bits is its value)
func c03wNumText(rng *h.Rng) (text string, ok bool, bits uint64) {
	switch rng.Intn(4) {
	case 0:
		text = h.Pick(rng, []string{"0", "-0", "1", "-1", "1.5", "1e2", "1E+2", "1.5e-3", "2.5E-1", "0.000001", "0.0000001", "123456789012345678",
			"9007199254740993", "90071992547409935.5", "9223372036854775807", "9223372036854775808", "18446744073709551616", "-9223372036854775809",
			"1e308", "1.7976931348623157e308", "1e309", "-1e400", "4.9e-324", "1e-400", "0e0", "0.0", "100000000000000000000000000000000000000",
			"1.00000000000000000000000000000000000001", "12345678.12345678"})
	case 1:
		text = jnum(c03Float(rng))
	case 2:
		text = strconv.Itoa(rng.Intn(2000) - 1000)
	default:
		text = strconv.FormatFloat(float64(rng.Intn(200000)-100000)/1000, 'f', rng.Intn(7), 64)
	}
	v, err := jx.DecodeStr(text + " ").Float64() // the trusted library's own reading of the text
	if err != nil {
		return text, false, 0
	}
	return text, true, math.Float64bits(v)
}

// c03wIntText: the decimal spellings strconv.ParseInt accepts for v
func c03wIntText(rng *h.Rng, v int64) string {
	s := strconv.FormatInt(v, 10)
	switch rng.Intn(10) {
	case 0:
		if v >= 0 {
			return "+" + s
		}
	case 1:
		if v >= 0 {
			return strings.Repeat("0", 1+rng.Intn(3)) + s
		}
		return "-" + strings.Repeat("0", 1+rng.Intn(3)) + s[1:]
	}
	return s
}

// c03wRFC3339: a timestamp text time.Parse(time.RFC3339, ·) accepts and the instant it denotes, computed here from
// the calendar fields (no parser involved): every zone offset, 0–12 fractional digits (only the first nine count),
// '.' or ',' before the fraction, sometimes a one-digit hour.
func c03wRFC3339(rng *h.Rng) (string, int64) {
	sec := int64(1700000000) + int64(rng.Intn(3*86400))
	if rng.Chance(10) {
		sec = h.Pick(rng, []int64{0, 86399, 951782400 /*2000-02-29*/, 1709251199, 4102444800, 1699920000, 1700006399})
	}
	var off int64
	zone := "Z"
	if !rng.Chance(25) {
		hh, mm := rng.Intn(24), h.Pick(rng, []int{0, 0, 30, 45, 59, rng.Intn(60)})
		if rng.Chance(3) {
			hh, mm = 24, 0
		}
		if rng.Chance(3) {
			mm = 60
		}
		off = int64(hh*3600 + mm*60)
		sign := "+"
		if rng.Bool() {
			off, sign = -off, "-"
		}
		zone = fmt.Sprintf("%s%02d:%02d", sign, hh, mm)
	}
	lt := time.Unix(sec+off, 0).UTC()
	digits := rng.Intn(13)
	frac, ns := "", int64(0)
	if digits > 0 {
		all := fmt.Sprintf("%012d", rng.U64()%1000000000000)
		frac = all[:digits]
		nine := (frac + "000000000")[:9]
		ns, _ = strconv.ParseInt(nine, 10, 64)
		sep := "."
		if rng.Chance(10) {
			sep = ","
		}
		frac = sep + frac
	}
	hour := fmt.Sprintf("%02d", lt.Hour())
	if lt.Hour() < 10 && rng.Chance(10) {
		hour = strconv.Itoa(lt.Hour())
	}
	txt := fmt.Sprintf("%04d-%02d-%02dT%s:%02d:%02d%s%s", lt.Year(), int(lt.Month()), lt.Day(), hour, lt.Minute(), lt.Second(), frac, zone)
	return txt, sec*1000000000 + ns
}

var c03wBadTimes = []string{"2023-13-01T00:00:00Z", "2023-02-30T00:00:00Z", "2023-02-28T24:00:00Z", "2023-02-28T23:60:00Z", "2023-02-28T23:59:60Z",
	"2023-02-28t23:59:59Z", "2023-02-28T23:59:59z", "2023-02-28T23:59:59", "2023-02-28T23:59:59+25:00", "2023-02-28T23:59:59+0100", "23-02-28T23:59:59Z",
	"2023-2-28T23:59:59Z", "2023-02-28T23:59:59.Z", "2023-02-28 23:59:59Z", "-5", "1700000000000000000Z", "2023-02-28T23:59:59Zx", "12:00", "T", ""}

// ---- Loki JSON ----------------------------------------------------------------------------------------------

func c03wLabelText(rng *h.Rng, ls []c03Label) string {
	parts := make([]string, len(ls))
	for i, l := range ls {
		eq := h.Pick(rng, []string{"=", "=", " = ", "=\t"})
		parts[i] = l.K + eq + strconv.Quote(l.V)
		if rng.Chance(5) {
			parts[i] = "/*c*/" + parts[i]
		}
	}
	s := "{" + strings.Join(parts, h.Pick(rng, []string{",", ", ", " ,\n"})) + "}"
	if rng.Chance(10) {
		s = " " + s
	}
	if rng.Chance(10) {
		s += h.Pick(rng, []string{" ", " trailing", "}", ",x=\"y\"}"})
	}
	return s
}

// c03wLokiEntry writes one entry in the given layout; returns text, the entry, and whether it is well formed
func c03wLokiEntry(rng *h.Rng, entriesLayout bool, c *c03wCase) (string, c03ExpEntry, bool) {
	e := c03ExpEntry{}
	okAll := true
	line := c03Line(rng, false)
	if !entriesLayout {
		var items []string
		n := h.Pick(rng, []int{0, 1, 2, 2, 2, 2, 3, 3, 3, 4, 5})
		if n >= 1 {
			ts := c03TsNs(rng)
			switch rng.Intn(12) {
			case 0:
				ts = h.Pick(rng, []int64{0, -5, math.MaxInt64, math.MinInt64, 1})
			}
			e.Ts = ts
			items = append(items, c03wJStr(rng, c03wIntText(rng, ts)))
			if c.bad(rng, 15) {
				items[0] = h.Pick(rng, []string{`"9223372036854775808"`, `""`, `"1e3"`, `"12 "`, `1700000000000000000`, `null`, `"0x10"`, `"1_000"`})
				okAll = false
				c.tag("bad-ts")
			}
		}
		if n >= 2 {
			e.Line, e.Tp = line, 1
			items = append(items, c03wJStr(rng, line))
			if c.bad(rng, 10) {
				items[1] = h.Pick(rng, []string{`5`, `null`, `{"a":1}`})
				okAll = false
				c.tag("bad-line")
			}
		}
		if n >= 3 {
			switch rng.Intn(3) {
			case 0:
				txt, ok, bits := c03wNumText(rng)
				if c.bad(rng, 10) { // not JSON numbers at all: jx itself rejects them
					txt, ok = h.Pick(rng, []string{"01", "1.", ".5", "+1", "1e", "0x10", "-", "1.5.2", "00"}), false
					c.tag("not-a-json-number")
				}
				items = append(items, txt)
				if ok {
					e.Val, e.Tp = bits, 0
				} else {
					okAll = false
					c.tag("number-float64-rejects")
				}
				c.tag("third=number")
			default:
				items = append(items, h.Pick(rng, []string{`{"trace_id":"0242ac120002","n":1}`, `"meta"`, `null`, `true`, `[1,2]`, `{}`}))
				c.tag("third=not-a-number")
			}
		}
		for i := 3; i < n; i++ {
			items = append(items, h.Pick(rng, c03wJunk))
			c.tag("more-than-three-elements")
		}
		if n == 0 {
			c.tag("empty-value-array")
		}
		return c03wArr(rng, items), e, okAll
	}
	var ms []c03wMember
	nTs := h.Pick(rng, []int{0, 1, 1, 1, 1, 1, 1, 2, 3})
	for i := 0; i < nTs; i++ {
		key := h.Pick(rng, []string{"ts", "timestamp"})
		var txt string
		var ts int64
		switch rng.Intn(3) {
		case 0:
			ts = c03TsNs(rng)
			if rng.Chance(10) {
				ts = h.Pick(rng, []int64{0, math.MaxInt64, 7})
			}
			txt = c03wIntText(rng, ts)
			if strings.ContainsAny(txt, "-") {
				txt = strconv.FormatInt(ts, 10)
			}
			c.tag("ts=integer-string")
		default:
			txt, ts = c03wRFC3339(rng)
			c.tag("ts=rfc3339")
		}
		val := c03wJStr(rng, txt)
		if c.bad(rng, 15) {
			val = c03wJStr(rng, h.Pick(rng, c03wBadTimes))
			okAll = false
			c.tag("bad-time")
		} else if c.bad(rng, 3) {
			val = "1700000000000000000"
			okAll = false
			c.tag("bad-time")
		}
		ms = append(ms, c03wMember{key, val})
		_ = ts
		ms[len(ms)-1].key = key
		// remember what this member says; the LAST one in document order will count
		ms[len(ms)-1].val = val + "\x00" + strconv.FormatInt(ts, 10)
	}
	nLine := h.Pick(rng, []int{0, 1, 1, 1, 1, 1, 2})
	for i := 0; i < nLine; i++ {
		l := line
		if i > 0 {
			l = c03Line(rng, false)
		}
		ms = append(ms, c03wMember{"line", c03wJStr(rng, l) + "\x00" + l})
		if c.bad(rng, 10) {
			ms[len(ms)-1].val = "17\x00"
			okAll = false
			c.tag("bad-line")
		}
	}
	nVal := h.Pick(rng, []int{0, 0, 0, 1, 1, 2})
	for i := 0; i < nVal; i++ {
		txt, ok, bits := c03wNumText(rng)
		if c.bad(rng, 15) {
			txt, ok = h.Pick(rng, []string{`"1.5"`, `null`, `[1]`}), false
		}
		if !ok {
			okAll = false
			c.tag("bad-value")
		}
		ms = append(ms, c03wMember{"value", txt + "\x00" + strconv.FormatUint(bits, 10)})
	}
	if rng.Chance(20) {
		ms = append(ms, c03wMember{h.Pick(rng, []string{"extra", "Line", "TS", "values", "stream", ""}), h.Pick(rng, c03wJunk) + "\x00"})
	}
	c03wShuffle(rng, ms)
	if nTs > 1 || nLine > 1 || nVal > 1 {
		c.tag("entry-with-duplicate-members")
	}
	hasLine, hasVal := false, false
	for i := range ms {
		parts := strings.SplitN(ms[i].val, "\x00", 2)
		ms[i].val = parts[0]
		switch ms[i].key {
		case "ts", "timestamp":
			e.Ts, _ = strconv.ParseInt(parts[1], 10, 64)
		case "line":
			e.Line, hasLine = parts[1], true
		case "value":
			e.Val, _ = strconv.ParseUint(parts[1], 10, 64)
			hasVal = true
		}
	}
	switch {
	case hasLine && !hasVal:
		e.Tp = 1
	case hasVal && !hasLine:
		e.Tp = 2
	default:
		e.Tp = 0
	}
	return c03wObj(rng, ms), e, okAll
}

func c03wGenLoki(rng *h.Rng) *c03wCase {
	c := &c03wCase{Proto: "loki", allowBad: rng.Chance(15)}
	ok := true
	var topMembers []c03wMember
	nTop := h.Pick(rng, []int{1, 1, 1, 1, 1, 1, 2, 2, 0})
	if nTop != 1 {
		c.tag(fmt.Sprintf("streams-members=%d", nTop))
	}
	pool0, pool1 := newPool(rng, 0, 0), newPool(rng, 1, 1)
	type streamPlan struct {
		text string
		st   c03wStream
	}
	var perTop [][]streamPlan
	for t := 0; t < nTop; t++ {
		var plans []streamPlan
		for s := c03CountStreams(rng, 4); s > 0; s-- {
			// the members of one stream object, then shuffled: document order decides the concatenation order
			type src struct {
				m      c03wMember
				labels []c03Label
				ents   []c03ExpEntry
			}
			var srcs []src
			nLab := h.Pick(rng, []int{1, 1, 1, 1, 1, 1, 0, 2, 2, 3})
			for i := 0; i < nLab; i++ {
				if rng.Chance(65) {
					ls := pool0.pick(rng)
					for j := range ls { // JSON strings carry valid UTF-8 only
						ls[j].K, ls[j].V = strings.ToValidUTF8(ls[j].K, "?"), strings.ToValidUTF8(ls[j].V, "?")
					}
					if rng.Chance(10) && len(ls) > 0 { // a repeated key inside the `stream` object
						ls = append(ls, c03Label{ls[0].K, "again"})
						c.tag("stream-object-with-repeated-key")
					}
					ms := make([]c03wMember, len(ls))
					for j, l := range ls {
						ms[j] = c03wMember{l.K, c03wJStr(rng, l.V)}
					}
					val := c03wObj(rng, ms)
					if c.bad(rng, 10) {
						val = h.Pick(rng, []string{`{"a":5}`, `{"a":null}`, `"a=b"`, `null`, `[]`, `{"a":{"b":"c"}}`})
						ok = false
						c.tag("bad-stream-object")
					}
					srcs = append(srcs, src{m: c03wMember{"stream", val}, labels: ls})
				} else {
					ls := pool1.pick(rng)
					txt := c03wLabelText(rng, ls)
					if c.bad(rng, 15) {
						txt = h.Pick(rng, []string{"{}", "", "{a=\"b\",}", "a=\"b\"", "{a=b}", "{a=\"b\" c=\"d\"}", "{1a=\"b\"}", "{a=`b`}", "{a=\"\\q\"}", "{a=\"b\""})
						ok = false
						c.tag("bad-label-text")
					}
					val := c03wJStr(rng, txt) // strconv.Quote wrote \xNN for invalid bytes: the JSON string itself is valid UTF-8
					srcs = append(srcs, src{m: c03wMember{"labels", val}, labels: ls})
				}
			}
			nEnt := h.Pick(rng, []int{1, 1, 1, 1, 1, 1, 0, 2, 2, 3})
			for i := 0; i < nEnt; i++ {
				layout := rng.Chance(40)
				var items []string
				var ents []c03ExpEntry
				for k := c03Count(rng, 5); k > 0; k-- {
					txt, e, eok := c03wLokiEntry(rng, layout, c)
					items = append(items, txt)
					ents = append(ents, e)
					ok = ok && eok
				}
				key := "values"
				if layout {
					key = "entries"
				}
				val := c03wArr(rng, items)
				if c.bad(rng, 5) {
					val = h.Pick(rng, []string{`null`, `{}`, `"x"`, `[5]`, `[null]`})
					if layout {
						val = h.Pick(rng, []string{`null`, `{}`, `"x"`, `[5]`, `[[]]`})
					}
					ok = false
					c.tag("bad-entry-array")
				}
				srcs = append(srcs, src{m: c03wMember{key, val}, ents: ents})
			}
			for i := rng.Intn(3) - 1; i > 0; i-- {
				srcs = append(srcs, src{m: c03wMember{h.Pick(rng, []string{"unknown", "Stream", "value", "streams", "label", "metadata"}), h.Pick(rng, c03wJunk)}})
				c.tag("unknown-member")
			}
			c03wShuffle(rng, srcs)
			if nLab > 1 {
				c.tag("stream-with-several-label-sources")
			}
			if nEnt > 1 {
				c.tag("stream-with-several-entry-sources")
			}
			var st c03wStream
			var ms []c03wMember
			firstLabel, firstEnt := -1, -1
			for i, s := range srcs {
				ms = append(ms, s.m)
				if s.m.key == "stream" || s.m.key == "labels" {
					st.Labels = append(st.Labels, s.labels...)
					if firstLabel < 0 {
						firstLabel = i
					}
				}
				if s.m.key == "values" || s.m.key == "entries" {
					st.Entries = append(st.Entries, s.ents...)
					if firstEnt < 0 {
						firstEnt = i
					}
				}
			}
			if firstEnt >= 0 && firstLabel > firstEnt {
				c.tag("entries-before-labels")
			}
			st.Labels = c03Sanitize(st.Labels)
			plans = append(plans, streamPlan{c03wObj(rng, ms), st})
		}
		perTop = append(perTop, plans)
		var items []string
		for _, p := range plans {
			items = append(items, p.text)
		}
		val := c03wArr(rng, items)
		if c.bad(rng, 5) {
			val = h.Pick(rng, []string{`null`, `{}`, `"x"`, `[5]`})
			ok = false
			c.tag("bad-streams-array")
		}
		topMembers = append(topMembers, c03wMember{"streams", val + "\x00" + strconv.Itoa(t)})
	}
	for i := rng.Intn(3) - 1; i > 0; i-- {
		topMembers = append(topMembers, c03wMember{h.Pick(rng, []string{"other", "Streams", "stream", "values"}), h.Pick(rng, c03wJunk) + "\x00-1"})
	}
	c03wShuffle(rng, topMembers)
	for i := range topMembers {
		parts := strings.SplitN(topMembers[i].val, "\x00", 2)
		topMembers[i].val = parts[0]
		if t, _ := strconv.Atoi(parts[1]); t >= 0 {
			for _, p := range perTop[t] {
				c.Streams = append(c.Streams, p.st)
			}
		}
	}
	c.body = []byte(c03wWS(rng) + c03wObj(rng, topMembers) + c03wWS(rng))
	c.Reject = !ok
	return c.finish()
}

// ---- Datadog logs ---------------------------------------------------------------------------------------------

func c03wTagText(rng *h.Rng) string {
	var parts []string
	for i := rng.Intn(4); i > 0; i-- {
		parts = append(parts, h.Pick(rng, []string{"env:prod", "v:1.2", "team:a/b", "k:v:w", "é:ü", "a_b:c-d", "x:", ":y", "1a:b", "a.b:c\\d", "host:h1", "plain", "a:b c", "__ttl_days__:7"}))
	}
	return strings.Join(parts, h.Pick(rng, []string{",", ",", ", "}))
}

func c03wGenDDLogs(rng *h.Rng) *c03wCase {
	c := &c03wCase{Proto: "ddlogs", allowBad: rng.Chance(15)}
	ok := true
	var items []string
	for n := c03CountStreams(rng, 5); n > 0; n-- {
		var ms []c03wMember
		add := func(key string, max int, gen func() (string, string)) {
			k := h.Pick(rng, []int{0, 1, 1, 1, 2})
			if k > max {
				k = max
			}
			for i := 0; i < k; i++ {
				txt, meaning := gen()
				ms = append(ms, c03wMember{key, txt + "\x00" + meaning})
			}
			if k > 1 {
				c.tag("entry-with-duplicate-members")
			}
		}
		str := func(pool []string) func() (string, string) {
			return func() (string, string) {
				s := h.Pick(rng, pool)
				if rng.Chance(30) {
					s = c03Value(rng)
				}
				if c.bad(rng, 8) {
					ok = false
					c.tag("bad-string-member")
					return h.Pick(rng, []string{"5", "null", "[]", "{}"}), s
				}
				return c03wJStr(rng, s), s
			}
		}
		add("ddsource", 2, str([]string{"nginx", "", "go"}))
		add("ddtags", 2, func() (string, string) { s := c03wTagText(rng); return c03wJStr(rng, s), s })
		add("hostname", 2, str([]string{"h1", "h2", ""}))
		add("service", 2, str([]string{"api", "web", ""}))
		add("source_type", 2, str([]string{"st", ""}))
		add("message", 2, func() (string, string) { s := c03Line(rng, false); return c03wJStr(rng, s), s })
		add("timestamp", 2, func() (string, string) {
			ms := c03TsNs(rng) / 1000000
			if rng.Chance(10) {
				ms = h.Pick(rng, []int64{0, -1, 1, 1700000000999, math.MaxInt64, math.MinInt64 + 1})
			}
			txt := strconv.FormatInt(ms, 10)
			if c.bad(rng, 25) {
				ok = false
				c.tag("bad-timestamp")
				txt = h.Pick(rng, []string{"1700000000000.0", "1.7e12", `"1700000000000"`, "9223372036854775808", "null", "1700000000000.5"})
			}
			return txt, strconv.FormatInt(ms, 10)
		})
		if rng.Chance(30) {
			ms = append(ms, c03wMember{h.Pick(rng, []string{"status", "Message", "ddTags", "attributes", ""}), h.Pick(rng, c03wJunk) + "\x00"})
			c.tag("unknown-member")
		}
		c03wShuffle(rng, ms)
		f := map[string]string{}
		tags := ""
		var tagLabels []c03Label
		for i := range ms {
			parts := strings.SplitN(ms[i].val, "\x00", 2)
			ms[i].val = parts[0]
			if ms[i].key == "ddtags" {
				for _, m := range c03TagRe.FindAllStringSubmatch(parts[1], -1) {
					tagLabels = append(tagLabels, c03Label{m[1], m[2]})
				}
				tags += parts[1]
			} else {
				f[ms[i].key] = parts[1]
			}
		}
		ls := tagLabels
		for _, l := range []c03Label{{"ddsource", f["ddsource"]}, {"service", f["service"]}, {"hostname", f["hostname"]}, {"source_type", f["source_type"]}, {"type", "datadog"}} {
			if l.V != "" {
				ls = append(ls, l)
			}
		}
		e := c03ExpEntry{Line: f["message"], Tp: 1}
		tsMs, _ := strconv.ParseInt(f["timestamp"], 10, 64)
		if tsMs == 0 {
			e.Ts = c03wNow
			c.tag("entry-without-timestamp")
		} else {
			e.Ts = (tsMs/1000)*1000000000 + (tsMs%1000)*1000000 // time.Unix(ms/1000, ms%1000*1e6).UnixNano(), wrapping like int64
		}
		c.Streams = append(c.Streams, c03wStream{ls, []c03ExpEntry{e}})
		items = append(items, c03wObj(rng, ms))
	}
	body := c03wArr(rng, items)
	if c.bad(rng, 20) {
		if len(items) == 1 && rng.Bool() {
			body = items[0] // a single object instead of an array
			c.tag("single-object-body")
		} else {
			body = h.Pick(rng, []string{`{"logs":[]}`, `null`, `"x"`, `[5]`, `[null]`, `[[]]`})
		}
		ok = false
	}
	c.body = []byte(c03wWS(rng) + body)
	c.Reject = !ok
	return c.finish()
}

// ---- Datadog series -------------------------------------------------------------------------------------------

func c03wGenDDSeries(rng *h.Rng) *c03wCase {
	c := &c03wCase{Proto: "ddseries", allowBad: rng.Chance(15)}
	ok := true
	var top []c03wMember
	var perTop [][]c03wStream
	nTop := h.Pick(rng, []int{1, 1, 1, 1, 1, 2, 0})
	for t := 0; t < nTop; t++ {
		var items []string
		var sts []c03wStream
		for n := c03CountStreams(rng, 4); n > 0; n-- {
			type src struct {
				m      c03wMember
				labels []c03Label
				ents   []c03ExpEntry
			}
			var srcs []src
			for i := h.Pick(rng, []int{1, 1, 1, 1, 0, 2}); i > 0; i-- {
				name := h.Pick(rng, []string{"system.cpu", "m", "http_requests", "é", "1m", ""})
				val := c03wJStr(rng, name)
				if c.bad(rng, 12) {
					val = h.Pick(rng, []string{"5", "null", "[]", `{"a":"b"}`, "true"})
					ok = false
					c.tag("metric-not-a-string")
				}
				srcs = append(srcs, src{m: c03wMember{"metric", val}, labels: []c03Label{{"__name__", name}}})
			}
			for i := h.Pick(rng, []int{0, 1, 1, 2}); i > 0; i-- {
				var rs []string
				var ls []c03Label
				for r := 0; r < rng.Intn(4); r++ {
					var ms []c03wMember
					for k := rng.Intn(4); k > 0; k-- {
						key := h.Pick(rng, []string{"name", "type", "host", "a b", "name"})
						v := h.Pick(rng, []string{"h1", "host", "", "x y"})
						ms = append(ms, c03wMember{key, c03wJStr(rng, v)})
						ls = append(ls, c03Label{fmt.Sprintf("resource%d_%s", r+1, key), v})
						if c.bad(rng, 8) {
							ms[len(ms)-1].val = h.Pick(rng, []string{"5", "null", "{}"})
							ok = false
							c.tag("resource-value-not-a-string")
						}
					}
					rs = append(rs, c03wObj(rng, ms))
				}
				val := c03wArr(rng, rs)
				if c.bad(rng, 12) {
					val = h.Pick(rng, []string{"null", "{}", `"x"`, "[5]", "[null]"})
					ok = false
					c.tag("resources-not-an-array-of-objects")
				}
				srcs = append(srcs, src{m: c03wMember{"resources", val}, labels: ls})
			}
			for i := h.Pick(rng, []int{1, 1, 1, 1, 0, 2}); i > 0; i-- {
				var ps []string
				var es []c03ExpEntry
				for k := c03Count(rng, 5); k > 0; k-- {
					var ms []c03wMember
					e := c03ExpEntry{Ts: c03wNow, Tp: 2}
					for j := h.Pick(rng, []int{1, 1, 1, 1, 1, 0, 2}); j > 0; j-- {
						ts := c03TsNs(rng) / 1000000000
						if rng.Chance(8) {
							ts = h.Pick(rng, []int64{0, -1, 9223372036, 9223372037, math.MaxInt64})
						}
						txt := strconv.FormatInt(ts, 10)
						if c.bad(rng, 10) {
							txt = h.Pick(rng, []string{"1700000000.5", "1.7e9", `"1700000000"`, "null"})
							ok = false
							c.tag("bad-timestamp")
						}
						ms = append(ms, c03wMember{"timestamp", txt + "\x00" + strconv.FormatInt(ts*1000000000, 10)})
					}
					for j := h.Pick(rng, []int{1, 1, 1, 1, 1, 0, 2}); j > 0; j-- {
						txt, nok, bits := c03wNumText(rng)
						if c.bad(rng, 8) {
							txt, nok = h.Pick(rng, []string{`"1"`, "null", "[1]"}), false
						}
						if !nok {
							ok = false
							c.tag("bad-value")
						}
						ms = append(ms, c03wMember{"value", txt + "\x00" + strconv.FormatUint(bits, 10)})
					}
					if rng.Chance(15) {
						ms = append(ms, c03wMember{h.Pick(rng, []string{"extra", "Timestamp", "ts"}), h.Pick(rng, c03wJunk) + "\x00"})
					}
					c03wShuffle(rng, ms)
					for j := range ms {
						parts := strings.SplitN(ms[j].val, "\x00", 2)
						ms[j].val = parts[0]
						switch ms[j].key {
						case "timestamp":
							e.Ts, _ = strconv.ParseInt(parts[1], 10, 64)
						case "value":
							e.Val, _ = strconv.ParseUint(parts[1], 10, 64)
						}
					}
					if e.Ts == c03wNow {
						c.tag("point-without-timestamp")
					}
					val := c03wObj(rng, ms)
					if c.bad(rng, 5) {
						val = h.Pick(rng, []string{"[1700000000,1.5]", "null", "5"}) // the v1 array form of a point is not accepted
						ok = false
						c.tag("point-not-an-object")
					}
					ps = append(ps, val)
					es = append(es, e)
				}
				val := c03wArr(rng, ps)
				if c.bad(rng, 4) {
					val = h.Pick(rng, []string{"null", "{}"})
					ok = false
				}
				srcs = append(srcs, src{m: c03wMember{"points", val}, ents: es})
			}
			for _, extra := range []c03wMember{{"interval", "10"}, {"type", h.Pick(rng, []string{"3", `"gauge"`, "0"})}, {"unit", `"byte"`}, {"tags", `["env:prod","a:b"]`},
				{"source_type_name", `"x"`}, {"Metric", `"no"`}} {
				if rng.Chance(25) {
					srcs = append(srcs, src{m: extra})
					c.tag("member-" + extra.key)
				}
			}
			c03wShuffle(rng, srcs)
			var st c03wStream
			var ms []c03wMember
			for _, s := range srcs {
				ms = append(ms, s.m)
				if s.m.key == "metric" || s.m.key == "resources" {
					st.Labels = append(st.Labels, s.labels...)
				}
				if s.m.key == "points" {
					st.Entries = append(st.Entries, s.ents...)
				}
			}
			sts = append(sts, st)
			val := c03wObj(rng, ms)
			if c.bad(rng, 4) {
				val = h.Pick(rng, []string{"null", "[]", "5"})
				ok = false
			}
			items = append(items, val)
		}
		perTop = append(perTop, sts)
		val := c03wArr(rng, items)
		if c.bad(rng, 4) {
			val = h.Pick(rng, []string{"null", "{}", "5"})
			ok = false
		}
		top = append(top, c03wMember{"series", val + "\x00" + strconv.Itoa(t)})
	}
	for i := rng.Intn(3) - 1; i > 0; i-- {
		top = append(top, c03wMember{h.Pick(rng, []string{"other", "Series", "metric"}), h.Pick(rng, c03wJunk) + "\x00-1"})
	}
	c03wShuffle(rng, top)
	for i := range top {
		parts := strings.SplitN(top[i].val, "\x00", 2)
		top[i].val = parts[0]
		if t, _ := strconv.Atoi(parts[1]); t >= 0 {
			c.Streams = append(c.Streams, perTop[t]...)
		}
	}
	c.body = []byte(c03wObj(rng, top))
	c.Reject = !ok
	return c.finish()
}

// ---- Loki protobuf --------------------------------------------------------------------------------------------

func c03wGenLokiProto(rng *h.Rng) *c03wCase {
	c := &c03wCase{Proto: "lokiproto", allowBad: rng.Chance(15)}
	ok := true
	req := &logproto.PushRequest{}
	pool := newPool(rng, 1, 1)
	for n := c03CountStreams(rng, 4); n > 0; n-- {
		ls := pool.pick(rng)
		txt := c03wLabelText(rng, ls)
		good := true
		if c.bad(rng, 30) {
			txt = h.Pick(rng, []string{"{}", "", "{a=\"b\",}", "a=\"b\"", "{a=b}", "{a=\"b\" c=\"d\"}", "{a=\"\\q\"}", "{a=\"b\""})
			good = false
			c.tag("bad-label-text")
		}
		st := &logproto.StreamAdapter{Labels: txt}
		var es []c03ExpEntry
		for k := c03Count(rng, 5); k > 0; k-- {
			ts := c03TsNs(rng)
			e := &logproto.EntryAdapter{Line: c03Line(rng, false)}
			switch rng.Intn(10) {
			case 0:
				ts = 0 // no timestamp message at all
				c.tag("entry-without-timestamp-message")
			case 1:
				sec, nanos := int64(rng.Intn(1000000)-500000), int32(rng.Intn(2000000000)-1000000000)
				e.Timestamp = &logproto.Timestamp{Seconds: sec, Nanos: nanos}
				ts = sec*1000000000 + int64(nanos)
			default:
				e.Timestamp = &logproto.Timestamp{Seconds: ts / 1000000000, Nanos: int32(ts % 1000000000)}
			}
			st.Entries = append(st.Entries, e)
			es = append(es, c03ExpEntry{ts, e.Line, 0, 1})
		}
		req.Streams = append(req.Streams, st)
		if good {
			c.Streams = append(c.Streams, c03wStream{c03Sanitize(ls), es})
		} else {
			ok = false
		}
	}
	b, err := proto.Marshal(req)
	if err != nil {
		panic(err)
	}
	c.body, _ = snappy.Decode(nil, snappy.Encode(nil, b))
	c.Reject = !ok
	return c.finish()
}

// ---- remote write -----------------------------------------------------------------------------------------------

func c03wGenProm(rng *h.Rng) *c03wCase {
	c := &c03wCase{Proto: "prom"}
	req := &prompb.WriteRequest{}
	pool := newPool(rng, 0, 1)
	for n := c03CountStreams(rng, 4); n > 0; n-- {
		ls := pool.pick(rng)
		ts := &prompb.TimeSeries{}
		for i := range ls {
			ls[i].K, ls[i].V = strings.ToValidUTF8(ls[i].K, "?"), strings.ToValidUTF8(ls[i].V, "?")
			ts.Labels = append(ts.Labels, &prompb.Label{Name: ls[i].K, Value: ls[i].V})
		}
		var es []c03ExpEntry
		for k := c03Count(rng, 6); k > 0; k-- {
			ms := c03TsNs(rng) / 1000000
			v := c03Float(rng)
			ts.Samples = append(ts.Samples, &prompb.Sample{Timestamp: ms, Value: v})
			es = append(es, c03ExpEntry{ms * 1000000, "", math.Float64bits(v), 2})
		}
		req.Timeseries = append(req.Timeseries, ts)
		c.Streams = append(c.Streams, c03wStream{c03Sanitize(ls), es})
	}
	b, err := proto.Marshal(req)
	if err != nil {
		panic(err)
	}
	c.body = b
	return c.finish()
}

// ---- OTLP logs --------------------------------------------------------------------------------------------------

// c03wRenderAny: the harness' own rendering of an attribute value / body (strings as they are, numbers and booleans in
// decimal, bytes in base64, an array as the JSON array of its rendered elements, a key-value list as the JSON object
// of sanitised key → rendered value)
func c03wRenderAny(v *otlpCommon.AnyValue) string {
	switch x := v.GetValue().(type) {
	case *otlpCommon.AnyValue_StringValue:
		return x.StringValue
	case *otlpCommon.AnyValue_BoolValue:
		return strconv.FormatBool(x.BoolValue)
	case *otlpCommon.AnyValue_IntValue:
		return strconv.FormatInt(x.IntValue, 10)
	case *otlpCommon.AnyValue_DoubleValue:
		return strconv.FormatFloat(x.DoubleValue, 'f', -1, 64)
	case *otlpCommon.AnyValue_BytesValue:
		return base64.StdEncoding.EncodeToString(x.BytesValue)
	case *otlpCommon.AnyValue_ArrayValue:
		items := []string{}
		for _, it := range x.ArrayValue.GetValues() {
			items = append(items, c03wRenderAny(it))
		}
		b, _ := json.Marshal(items)
		return string(b)
	case *otlpCommon.AnyValue_KvlistValue:
		m := map[string]string{}
		for _, kv := range x.KvlistValue.GetValues() {
			m[c03OtlpKey(kv.GetKey())] = c03wRenderAny(kv.GetValue())
		}
		b, _ := json.Marshal(m)
		return string(b)
	}
	return ""
}

func c03wOtlpValue(rng *h.Rng, depth int) *otlpCommon.AnyValue {
	k := rng.Intn(10)
	if depth > 2 && k >= 7 {
		k = rng.Intn(7)
	}
	switch k {
	case 0, 1:
		s := h.Pick(rng, []string{"", "plain", "a<b>&c", "q\"uo\\te", "line\nbreak\ttab", "\u2028sep\u2029", "é日😀", "\x00\x01\x1f\x7f", "null"})
		if rng.Bool() {
			s = c03Value(rng)
		}
		return &otlpCommon.AnyValue{Value: &otlpCommon.AnyValue_StringValue{StringValue: s}}
	case 2:
		return &otlpCommon.AnyValue{Value: &otlpCommon.AnyValue_IntValue{IntValue: h.Pick(rng, []int64{0, -1, 7, math.MaxInt64, math.MinInt64, int64(rng.Intn(2000) - 1000)})}}
	case 3:
		return &otlpCommon.AnyValue{Value: &otlpCommon.AnyValue_BoolValue{BoolValue: rng.Bool()}}
	case 4:
		return &otlpCommon.AnyValue{Value: &otlpCommon.AnyValue_DoubleValue{DoubleValue: h.Pick(rng, []float64{0, -0.5, 1e21, 1e-7, 1.0 / 3, math.Inf(1), math.NaN(), 5e-324, 123456.789, c03Float(rng)})}}
	case 5:
		return &otlpCommon.AnyValue{Value: &otlpCommon.AnyValue_BytesValue{BytesValue: rng.Bytes(7)}}
	case 6:
		if rng.Bool() {
			return nil
		}
		return &otlpCommon.AnyValue{} // a value message with nothing set
	case 7, 8:
		arr := &otlpCommon.ArrayValue{}
		for i := rng.Intn(4); i > 0; i-- {
			v := c03wOtlpValue(rng, depth+1)
			if v == nil {
				v = &otlpCommon.AnyValue{}
			}
			arr.Values = append(arr.Values, v)
		}
		return &otlpCommon.AnyValue{Value: &otlpCommon.AnyValue_ArrayValue{ArrayValue: arr}}
	default:
		kv := &otlpCommon.KeyValueList{}
		for i := rng.Intn(4); i > 0; i-- {
			kv.Values = append(kv.Values, &otlpCommon.KeyValue{Key: h.Pick(rng, []string{"a", "a.b", "a_b", "1x", "", "é", "k<", "z", "a"}), Value: c03wOtlpValue(rng, depth+1)})
		}
		return &otlpCommon.AnyValue{Value: &otlpCommon.AnyValue_KvlistValue{KvlistValue: kv}}
	}
}

func c03wOtlpAttrs(rng *h.Rng, max int) []*otlpCommon.KeyValue {
	var out []*otlpCommon.KeyValue
	for i := rng.Intn(max + 1); i > 0; i-- {
		key := h.Pick(rng, []string{"service.name", "service_name", "host", "a.b", "a_b", "a-b", "1x", "", "level", "k8s.pod", "é", "__ttl_days__", "host"})
		out = append(out, &otlpCommon.KeyValue{Key: key, Value: c03wOtlpValue(rng, 0)})
	}
	return out
}

func c03wGenOtlp(rng *h.Rng) *c03wCase {
	c := &c03wCase{Proto: "otlp"}
	data := &otlpLogs.LogsData{}
	merge := func(m map[string]string, kvs []*otlpCommon.KeyValue) {
		for _, kv := range kvs {
			m[c03OtlpKey(kv.GetKey())] = c03wRenderAny(kv.GetValue())
		}
	}
	for nr := c03CountStreams(rng, 3); nr > 0; nr-- {
		rl := &otlpLogs.ResourceLogs{}
		var rattrs []*otlpCommon.KeyValue
		if rng.Chance(85) {
			rattrs = c03wOtlpAttrs(rng, 4)
			rl.Resource = &otlpRes.Resource{Attributes: rattrs}
		}
		for ns := rng.Intn(3); ns > 0; ns-- {
			sl := &otlpLogs.ScopeLogs{}
			var sattrs []*otlpCommon.KeyValue
			if rng.Chance(70) {
				sattrs = c03wOtlpAttrs(rng, 3)
				sl.Scope = &otlpCommon.InstrumentationScope{Name: "scope", Attributes: sattrs}
			}
			for nl := c03Count(rng, 4); nl > 0; nl-- {
				lattrs := c03wOtlpAttrs(rng, 4)
				rec := &otlpLogs.LogRecord{TimeUnixNano: uint64(c03TsNs(rng)), SeverityText: h.Pick(rng, []string{"", "", "info", "ERROR", "warn"}),
					SeverityNumber: otlpLogs.SeverityNumber(rng.Intn(25)), Attributes: lattrs}
				if rng.Chance(5) {
					rec.TimeUnixNano = h.Pick(rng, []uint64{0, math.MaxUint64, 1 << 63})
				}
				if !rng.Chance(8) {
					if rng.Chance(55) {
						rec.Body = &otlpCommon.AnyValue{Value: &otlpCommon.AnyValue_StringValue{StringValue: c03Line(rng, false)}}
					} else {
						rec.Body = c03wOtlpValue(rng, 0)
						c.tag("body-not-a-string")
					}
				}
				m := map[string]string{}
				merge(m, rattrs)
				sm := map[string]string{}
				merge(sm, sattrs)
				for k, v := range sm {
					m[k] = v
				}
				merge(m, lattrs)
				if rec.SeverityText != "" {
					m["level"] = rec.SeverityText
				}
				var ls []c03Label
				for k, v := range m {
					ls = append(ls, c03Label{k, v})
				}
				ls = c03SortLabels(ls)
				c.Streams = append(c.Streams, c03wStream{ls, []c03ExpEntry{{int64(rec.TimeUnixNano), c03wRenderAny(rec.Body), 0, 1}}})
				sl.LogRecords = append(sl.LogRecords, rec)
			}
			rl.ScopeLogs = append(rl.ScopeLogs, sl)
		}
		data.ResourceLogs = append(data.ResourceLogs, rl)
	}
	b, err := proto.Marshal(data)
	if err != nil {
		panic(err)
	}
	c.body = b
	return c.finish()
}

// ---- Influx line protocol ---------------------------------------------------------------------------------------

type c03wField struct {
	key  string
	text string // as written
	val  any    // int64, uint64, float64, bool, string
}

func c03wInfluxField(rng *h.Rng, key string) c03wField {
	escS := func(s string) string { return `"` + strings.NewReplacer(`\`, `\\`, `"`, `\"`).Replace(s) + `"` }
	switch rng.Intn(6) {
	case 0:
		v := h.Pick(rng, []int64{0, 1, -1, 5, 9007199254740993, -9007199254740993, math.MaxInt64, math.MinInt64, int64(rng.Intn(2000) - 1000)})
		return c03wField{key, strconv.FormatInt(v, 10) + "i", v}
	case 1:
		v := h.Pick(rng, []uint64{0, 5, 9007199254740993, 18446744073709551615, 9223372036854775808, 18446744073709550591, uint64(rng.Intn(1000))})
		return c03wField{key, strconv.FormatUint(v, 10) + "u", v}
	case 2:
		b := rng.Bool()
		t := h.Pick(rng, []string{"t", "T", "true", "True", "TRUE"})
		if !b {
			t = h.Pick(rng, []string{"f", "F", "false", "False", "FALSE"})
		}
		return c03wField{key, t, b}
	case 3:
		s := h.Pick(rng, []string{"", "plain", "two words", `q"uote`, `back\slash`, "a=b", "null", "é日", "x,y z=1", "tab\there"})
		if rng.Chance(30) {
			s = strings.ReplaceAll(c03Line(rng, true), "\n", " ")
		}
		return c03wField{key, escS(s), s}
	default:
		txt := h.Pick(rng, []string{"1", "-1", "1.5", "1e3", "-1.5E-7", "0", "1e21", "0.1", "1e-320", "12345678901234567890"})
		if rng.Bool() {
			txt = strconv.FormatFloat(c03Float(rng), 'g', -1, 64)
		}
		f, _ := strconv.ParseFloat(txt, 64)
		return c03wField{key, txt, f}
	}
}

func c03wGenInflux(rng *h.Rng) *c03wCase {
	c := &c03wCase{Proto: "influx"}
	escK := func(s string) string { return strings.NewReplacer(`,`, `\,`, ` `, `\ `, `=`, `\=`).Replace(s) }
	var sb strings.Builder
	pool := newPool(rng, 2, 0)
	for n := c03CountStreams(rng, 5); n > 0; n-- {
		if rng.Chance(10) {
			sb.WriteString(h.Pick(rng, []string{"\n", "# a comment line\n"}))
		}
		name := h.Pick(rng, []string{"cpu", "m", "my measurement", "a,b", "é", "1m", "x=y"})
		tags := pool.pick(rng)
		seenKey := map[string]bool{}
		var keep []c03Label
		for _, t := range tags { // the parser rejects empty tag keys/values; tags come back sorted and unique
			if t.K == "" || t.V == "" || seenKey[t.K] || strings.ContainsAny(t.K+t.V, "\n\\") {
				continue
			}
			seenKey[t.K] = true
			keep = append(keep, t)
		}
		tags = keep
		sb.WriteString(strings.NewReplacer(`,`, `\,`, ` `, `\ `).Replace(name))
		for _, t := range tags {
			sb.WriteString("," + escK(t.K) + "=" + escK(t.V))
		}
		sb.WriteString(" ")
		var fields []c03wField
		used := map[string]bool{}
		hasMsg := rng.Chance(45)
		if hasMsg {
			f := c03wInfluxField(rng, "message")
			if rng.Chance(70) {
				s := strings.ReplaceAll(c03Line(rng, true), "\n", " ")
				f = c03wField{"message", `"` + strings.NewReplacer(`\`, `\\`, `"`, `\"`).Replace(s) + `"`, s}
			} else {
				c.tag("message-not-a-string")
			}
			fields = append(fields, f)
			used["message"] = true
		}
		nf := h.Pick(rng, []int{0, 1, 1, 2, 3})
		if !hasMsg && nf == 0 {
			nf = 1
		}
		for i := 0; i < nf; i++ {
			k := h.Pick(rng, []string{"value", "usage_idle", "a b", "1x", "k=v", "é", "n", "f-1", "Message", "a,b"})
			if used[k] {
				continue
			}
			used[k] = true
			fields = append(fields, c03wInfluxField(rng, k))
		}
		c03wShuffle(rng, fields)
		for i, f := range fields {
			if i > 0 {
				sb.WriteString(",")
			}
			sb.WriteString(escK(f.key) + "=" + f.text)
		}
		ts := c03TsNs(rng)
		if rng.Chance(6) {
			ts = c03wNow
			c.tag("point-without-timestamp")
		} else {
			sb.WriteString(" " + strconv.FormatInt(ts, 10))
		}
		sb.WriteString(h.Pick(rng, []string{"\n", "\n", "\r\n"}))
		base := c03Sanitize(append([]c03Label{{"measurement", name}}, tags...))
		if hasMsg {
			// the line: the message alone, or logfmt with the message first and the others in SOME order (Go map): every order is offered
			var others []c03wField
			var msg c03wField
			for _, f := range fields {
				if f.key == "message" {
					msg = f
				} else {
					others = append(others, f)
				}
			}
			line := ""
			if s, isStr := msg.val.(string); isStr && len(others) == 0 {
				line = s
			} else {
				buf := &bytes.Buffer{}
				enc := logfmt.NewEncoder(buf)
				enc.EncodeKeyvals("message", msg.val)
				for _, f := range others {
					enc.EncodeKeyvals(f.key, f.val)
				}
				line = buf.String()
				if len(others) >= 2 {
					c.tag("log-line-with-several-extra-fields")
				}
			}
			c.Streams = append(c.Streams, c03wStream{base, []c03ExpEntry{{ts, line, 0, 1}}})
			continue
		}
		for _, f := range fields {
			var v float64
			switch x := f.val.(type) {
			case int64:
				v = float64(x)
			case uint64:
				v = float64(x)
			case float64:
				v = x
			default:
				continue
			}
			ls := append(append([]c03Label(nil), base...), c03Label{"__name__", c03SanRe.ReplaceAllString(f.key, "_")})
			c.Streams = append(c.Streams, c03wStream{ls, []c03ExpEntry{{ts, "", math.Float64bits(v), 2}}})
		}
	}
	c.body = []byte(sb.String())
	return c.finish()
}

// ---- fixed corpus: the witnesses of the defects fixed in this round, and the shapes the theorems talk about ------------

func c03wCorpus(protoName string) []*c03wCase {
	mk := func(body string, reject bool, sts ...c03wStream) *c03wCase {
		c := &c03wCase{Proto: protoName, body: []byte(body), Reject: reject, Streams: sts}
		c.tag("corpus")
		return c.finish()
	}
	l := func(kv ...string) []c03Label {
		var out []c03Label
		for i := 0; i+1 < len(kv); i += 2 {
			out = append(out, c03Label{kv[i], kv[i+1]})
		}
		return out
	}
	fb := func(f float64) uint64 { return math.Float64bits(f) }
	switch protoName {
	case "loki":
		return []*c03wCase{
			// values before stream; two label sources; two entry sources; duplicate top-level member
			mk(`{"streams":[{"values":[["1","a"]],"stream":{"x":"y"}},{"stream":{"p":"q"},"values":[["2","b"]],"stream":{"r":"s"},"values":[["3","c",1e2,"more"]]}],"streams":[{"labels":"{k=\"v\"}","entries":[{"ts":"5","timestamp":"2021-12-26T16:00:06.1234567899+01:30","line":"b","line":"c","value":1,"value":2}]}]}`, false,
				c03wStream{l("x", "y"), []c03ExpEntry{{1, "a", 0, 1}}},
				c03wStream{l("p", "q", "r", "s"), []c03ExpEntry{{2, "b", 0, 1}, {3, "c", fb(100), 0}}},
				c03wStream{l("k", "v"), []c03ExpEntry{{1640529006123456789, "c", fb(2), 0}}}),
			mk(`{"streams":[{"stream":{"x":"y"},"values":[[],["5"],["7","l",null],["8","l","s"]]}]}`, false,
				c03wStream{l("x", "y"), []c03ExpEntry{{0, "", 0, 0}, {5, "", 0, 0}, {7, "l", 0, 1}, {8, "l", 0, 1}}}),
			mk(`{"streams":[{"stream":{"x":"y"},"entries":[{"ts":"-5","line":"c"}]}]}`, true),
			mk(`{"streams":[{"stream":{"x":"y"},"values":[["-5","c"]]}]}`, false, c03wStream{l("x", "y"), []c03ExpEntry{{-5, "c", 0, 1}}}),
			mk(`{"streams":[{"labels":"{}","values":[["1","a"]]}]}`, true),
			mk(`[]`, true),
		}
	case "ddseries":
		return []*c03wCase{
			// a point without timestamp / without value takes the defaults, not the previous point's (fixed)
			mk(`{"series":[{"metric":"m","points":[{"timestamp":1,"value":5},{"value":7},{"timestamp":3}]}]}`, false,
				c03wStream{l("__name__", "m"), []c03ExpEntry{{1000000000, "", fb(5), 2}, {c03wNow, "", fb(7), 2}, {3000000000, "", 0, 2}}}),
			mk(`{"series":[{"metric":"m","metric":"n","type":3,"interval":10,"points":[{"timestamp":1,"value":5}],"resources":[{"name":"h","type":"host"},{"name":"i"}],"points":[{"value":6,"timestamp":2,"timestamp":4}]}]}`, false,
				c03wStream{l("__name__", "m", "__name__", "n", "resource1_name", "h", "resource1_type", "host", "resource2_name", "i"),
					[]c03ExpEntry{{1000000000, "", fb(5), 2}, {4000000000, "", fb(6), 2}}}),
			mk(`{"series":[{"metric":5,"points":[]}]}`, true),
		}
	case "ddlogs":
		return []*c03wCase{
			mk(`[{"ddsource":"a","ddsource":"b","ddtags":"env:prod","message":"m1","ddtags":"v:1","timestamp":1700000000001},{"message":"m2"}]`, false,
				c03wStream{l("env", "prod", "v", "1", "ddsource", "b", "type", "datadog"), []c03ExpEntry{{1700000000001000000, "m1", 0, 1}}},
				c03wStream{l("type", "datadog"), []c03ExpEntry{{c03wNow, "m2", 0, 1}}}),
			mk(`{"message":"x","timestamp":1700000000000}`, true),
		}
	case "influx":
		return []*c03wCase{
			// a point whose only field is a non-string message (fixed: was a fault)
			mk("m message=5i 1700000000000000000\n", false, c03wStream{l("measurement", "m"), []c03ExpEntry{{1700000000000000000, "message=5", 0, 1}}}),
			mk("m message=\"x y\",a\\ b=2i 1700000000000000000\n", false, c03wStream{l("measurement", "m"), []c03ExpEntry{{1700000000000000000, `message="x y" ab=2`, 0, 1}}}),
			mk("m,t=1 i=9007199254740993i,u=18446744073709551615u,b=true,s=\"x\" 1700000000000000000\n", false,
				c03wStream{l("measurement", "m", "t", "1", "__name__", "i"), []c03ExpEntry{{1700000000000000000, "", fb(9007199254740992), 2}}},
				c03wStream{l("measurement", "m", "t", "1", "__name__", "u"), []c03ExpEntry{{1700000000000000000, "", fb(18446744073709551616), 2}}}),
		}
	case "otlp":
		iv := func(i int64) *otlpCommon.AnyValue {
			return &otlpCommon.AnyValue{Value: &otlpCommon.AnyValue_IntValue{IntValue: i}}
		}
		sv := func(s string) *otlpCommon.AnyValue {
			return &otlpCommon.AnyValue{Value: &otlpCommon.AnyValue_StringValue{StringValue: s}}
		}
		kvl := &otlpCommon.AnyValue{Value: &otlpCommon.AnyValue_KvlistValue{KvlistValue: &otlpCommon.KeyValueList{Values: []*otlpCommon.KeyValue{
			{Key: "b.c", Value: sv("x<y")}, {Key: "a", Value: iv(1)}, {Key: "b_c", Value: sv("z")}}}}}
		data := &otlpLogs.LogsData{ResourceLogs: []*otlpLogs.ResourceLogs{{
			Resource: &otlpRes.Resource{Attributes: []*otlpCommon.KeyValue{{Key: "host", Value: sv("r")}, {Key: "level", Value: sv("res")}}},
			ScopeLogs: []*otlpLogs.ScopeLogs{{
				Scope: &otlpCommon.InstrumentationScope{Attributes: []*otlpCommon.KeyValue{{Key: "host", Value: sv("s")}}},
				LogRecords: []*otlpLogs.LogRecord{
					{TimeUnixNano: 5, Body: iv(42), Attributes: []*otlpCommon.KeyValue{{Key: "a.b", Value: sv("1")}, {Key: "a_b", Value: sv("2")}}},
					{TimeUnixNano: 6, Body: kvl, SeverityText: "warn"},
				}}}}}}
		b, _ := proto.Marshal(data)
		// a body that is not a string keeps its content (fixed: was an empty line)
		return []*c03wCase{mk(string(b), false,
			c03wStream{l("a_b", "2", "host", "s", "level", "res"), []c03ExpEntry{{5, "42", 0, 1}}},
			c03wStream{l("host", "s", "level", "warn"), []c03ExpEntry{{6, `{"a":"1","b_c":"z"}`, 0, 1}}})}
	}
	return nil
}

// ---- evaluation ---------------------------------------------------------------------------------------------------

type c03wOut struct {
	c        *c03wCase
	impl     string
	key      string
	what     string
	idsOp    string
	mkOp     func(table string) string
	libError bool
	skipped  string
	chunks   int
	rows     int
}

func c03wPermutations(xs []string) [][]string {
	if len(xs) <= 1 {
		return [][]string{append([]string(nil), xs...)}
	}
	var out [][]string
	for i := range xs {
		rest := append(append([]string(nil), xs[:i]...), xs[i+1:]...)
		for _, p := range c03wPermutations(rest) {
			out = append(out, append([]string{xs[i]}, p...))
		}
	}
	return out
}

// c03wEval: one raw body through the real parser, the oracle and (prepared here, run in batches) the decoder model
func c03wEval(c *c03wCase) c03wOut {
	o := c03wOut{c: c}
	t0 := time.Now().UnixNano()
	chunks, hang := c03Run(c.Proto, c.body, c.Ttl)
	t1 := time.Now().UnixNano()
	if dayOfNs(t0) != dayOfNs(t1) {
		o.skipped = "midnight"
		return o
	}
	// the wall clock: rows stamped by the decoder during the run are moved to t0, the value the model gets as `now`
	for ci := range chunks {
		for ri := range chunks[ci].Rows {
			if ts := chunks[ci].Rows[ri].Ts; ts >= t0-2000000000 && ts <= t1+1000000000 { // telegraf's clock may lag a little
				chunks[ci].Rows[ri].Ts = t0
			}
		}
	}
	exp := c03wExpected(c, t0)
	// Influx log lines with ≥ 2 extra fields: the order of the Go map iteration is read off the emitted line
	fieldOrder := map[int][]string{}
	if c.Proto == "influx" {
		implLines := map[string]bool{}
		for _, ch := range chunks {
			for _, r := range ch.Rows {
				implLines[r.Line] = true
			}
		}
		if ms, err := c03InfluxMetrics(c.body); err == nil {
			si := 0
			for mi, m := range ms {
				fl := m.FieldList()
				var msg any
				var others []string
				vals := map[string]any{}
				for _, f := range fl {
					vals[f.Key] = f.Value
					if f.Key == "message" {
						msg = f.Value
					} else {
						others = append(others, f.Key)
					}
				}
				if _, has := vals["message"]; !has {
					for _, f := range fl {
						switch f.Value.(type) {
						case int64, uint64, float64:
							si++
						}
					}
					continue
				}
				if len(others) >= 2 && len(others) <= 4 {
					for _, p := range c03wPermutations(others) {
						buf := &bytes.Buffer{}
						enc := logfmt.NewEncoder(buf)
						if enc.EncodeKeyvals("message", msg) != nil {
							break
						}
						bad := false
						for _, k := range p {
							if enc.EncodeKeyvals(k, vals[k]) != nil {
								bad = true
								break
							}
						}
						if !bad && implLines[buf.String()] {
							fieldOrder[mi] = append([]string{"message"}, p...)
							if si < len(exp) && len(exp[si].Entries) == 1 {
								exp[si].Entries[0].Line = buf.String()
							}
							break
						}
					}
				}
				si++
			}
		}
	}
	if !c.Reject {
		o.key, o.what = c03Judge(c.Proto, exp, chunks, hang)
	} else if hang {
		o.key, o.what = "C03/"+c.Proto+"/hang", "the parser did not close its response channel within 60 s"
	}
	o.impl = c03Show(chunks)
	if c.Proto == "influx" {
		o.impl = c03SortRows(o.impl)
	}
	o.chunks = len(chunks)
	for _, ch := range chunks {
		o.rows += len(ch.Rows)
	}
	iv, aux, err := c03WireIV(c.Proto, c.body, fieldOrder, t0)
	if err != nil {
		o.libError = true // the third-party library itself rejects the body: nothing for the decoder model to read
		return o
	}
	o.idsOp = fmt.Sprintf("c03wids %s %d %d %s %s", c.Proto, c.Ttl, t0, aux, iv)
	o.mkOp = func(table string) string {
		return fmt.Sprintf("c03w %s %d %d %s %s %s", c.Proto, c.Ttl, t0, table, aux, iv)
	}
	return o
}

func dayOfNs(ns int64) int64 { return ns / 1000000000 / 86400 }

func c03wExpected(c *c03wCase, now int64) []c03ExpStream {
	var out []c03ExpStream
	for _, s := range c.Streams {
		eff, ttl := c03Effective(c.Ttl, s.Labels)
		v := c03ValidUTF8(eff)
		es := make([]c03ExpEntry, len(s.Entries))
		for i, e := range s.Entries {
			if e.Ts == c03wNow {
				e.Ts = now
			}
			es[i] = e
		}
		out = append(out, c03ExpStream{v, ttl, es, fmt.Sprint(v) != fmt.Sprint(eff)})
	}
	return out
}

// c03wTable: fingerprint and label-document length of the label lists the MODEL asked about (answer of c03wids)
func c03wTable(ids string) (string, error) {
	if ids == "-" || ids == "error" {
		return "()", nil
	}
	seen := map[string]bool{}
	var items []string
	for _, one := range strings.Split(ids, ";") {
		var ls []c03Label
		if one != "@" {
			for _, kv := range strings.Split(one, "+") {
				p := strings.SplitN(kv, "=", 2)
				if len(p) != 2 {
					return "", fmt.Errorf("c03wids answered %q", ids)
				}
				ls = append(ls, c03Label{string(h.UnHex(p[0])), string(h.UnHex(p[1]))})
			}
		}
		enc := c03EncLen(ls) // the document is written in the order of the list
		sl := c03SortLabels(ls)
		key := tlabels(sl)
		if seen[key] {
			continue
		}
		seen[key] = true
		items = append(items, tl(key, tu(c03RealFingerprint(sl)), strconv.Itoa(enc)))
	}
	sort.Strings(items)
	return tl(items...), nil
}

type c03wBatch struct {
	stream string
	outs   []c03wOut
}

func (b *c03wBatch) flush(r *h.Result) error {
	var idx []int
	var ops []string
	for i, o := range b.outs {
		if o.idsOp != "" {
			idx = append(idx, i)
			ops = append(ops, o.idsOp)
		}
	}
	ids, err := h.Model(ops)
	if err != nil {
		return err
	}
	ops2 := make([]string, len(idx))
	for k, i := range idx {
		if ids[k] == "bad-op" {
			ops2[k] = b.outs[i].idsOp
			continue
		}
		table, err := c03wTable(ids[k])
		if err != nil {
			return err
		}
		ops2[k] = b.outs[i].mkOp(table)
	}
	ans, err := h.Model(ops2)
	if err != nil {
		return err
	}
	for k, i := range idx {
		m, o := ans[k], b.outs[i]
		if o.c.Proto == "influx" {
			m = c03SortRows(m)
		}
		if m != o.impl {
			op := ops2[k]
			if len(op) > 300 {
				op = op[:300] + "…"
			}
			im, mo := o.impl, m
			j := 0
			for j < len(im) && j < len(mo) && im[j] == mo[j] {
				j++
			}
			lo := j - 60
			if lo < 0 {
				lo = 0
			}
			cutAt := func(s string) string {
				hi := j + 120
				if hi > len(s) {
					hi = len(s)
				}
				if lo > len(s) {
					return ""
				}
				return fmt.Sprintf("@%d …%s", j, s[lo:hi])
			}
			r.Disagree(b.stream, op, cutAt(im), cutAt(mo), o.c)
		}
	}
	b.outs = nil
	return nil
}

func c03wOne(r *h.Result, b *c03wBatch, c *c03wCase) error {
	o := c03wEval(c)
	p := c.Proto + "-wire"
	if o.skipped != "" {
		r.Count(p + ":skipped-" + o.skipped)
		return nil
	}
	r.Case(p+":"+c.BodyHex[:min(16, len(c.BodyHex))]+fmt.Sprint(len(c.body)), len(c.Streams) >= 2 || c.Reject)
	r.Count(p + ":bodies")
	if c.Reject {
		r.Count(p + ":ill-formed-on-purpose")
		if o.impl == "error" {
			r.Count(p + ":ill-formed-rejected")
		}
	}
	if o.libError {
		r.Count(p + ":third-party-library-rejects-the-body")
	}
	if c.Ttl != 0 {
		r.Count(p + ":ttl-header")
	}
	seen := map[string]bool{}
	for _, t := range c.Tags {
		if !seen[t] {
			seen[t] = true
			r.Count(p + ":" + t)
		}
	}
	r.Count(fmt.Sprintf("%s:streams=%s", p, bucket(len(c.Streams), []int{0, 1, 2, 4, 8, 16})))
	r.Count(fmt.Sprintf("%s:rows=%s", p, bucket(o.rows, []int{0, 1, 10, 100})))
	if o.key != "" {
		r.Violate(o.key, o.what, c)
	}
	if o.idsOp != "" {
		b.outs = append(b.outs, o)
	}
	if len(b.outs) >= 200 {
		return b.flush(r)
	}
	return nil
}

func c03wGen(proto string, rng *h.Rng) *c03wCase {
	switch proto {
	case "loki":
		return c03wGenLoki(rng)
	case "lokiproto":
		return c03wGenLokiProto(rng)
	case "prom":
		return c03wGenProm(rng)
	case "influx":
		return c03wGenInflux(rng)
	case "ddlogs":
		return c03wGenDDLogs(rng)
	case "ddseries":
		return c03wGenDDSeries(rng)
	case "otlp":
		return c03wGenOtlp(rng)
	}
	panic("c03wGen: " + proto)
}

// c03wStreams: the decoder streams of all seven protocols
func c03wStreams(r *h.Result, rng *h.Rng, tier string) error {
	n := 150
	if tier != "quick" {
		n = 3000
	}
	for _, proto := range c03Protos {
		prng := rng.Fork()
		r.Stream(proto + "-wire: raw generated bytes (member order permuted, duplicate members, escapes, number spellings, RFC 3339 forms, field kinds, nested values, " +
			"ill-formed variants) → real parser vs decoder model over the library's intermediate value (c03w) → chunk sequence; oracle: the entries the generator wrote")
		b := &c03wBatch{stream: proto + "-wire"}
		for _, c := range c03wCorpus(proto) {
			if err := c03wOne(r, b, c); err != nil {
				return err
			}
		}
		k := n
		if proto == "prom" {
			k = n / 5 // the intermediate value IS the decoded document here; the main stream covers it
		}
		for i := 0; i < k; i++ {
			c := c03wGen(proto, prng)
			if prng.Chance(10) {
				c.Ttl = uint16(h.Pick(prng, []int{1, 7, 365}))
			}
			if err := c03wOne(r, b, c); err != nil {
				return err
			}
		}
		if err := b.flush(r); err != nil {
			return err
		}
	}
	return nil
}

// c03wReplay: a recorded decoder-stream case
func c03wReplay(r *h.Result, raw []byte) (bool, error) {
	var f struct {
		Replay c03wCase `json:"replay"`
	}
	if err := json.Unmarshal(raw, &f); err != nil || !f.Replay.Wire {
		return false, nil
	}
	c := &f.Replay
	body, err := hex.DecodeString(c.BodyHex)
	if err != nil {
		return true, err
	}
	c.body = body
	b := &c03wBatch{stream: c.Proto + "-wire"}
	if err := c03wOne(r, b, c); err != nil {
		return true, err
	}
	return true, b.flush(r)
}
