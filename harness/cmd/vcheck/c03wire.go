package main

// C03: the TRUSTED conversion bytes → intermediate value. For every protocol the body is handed to the SAME
// third-party library the decoder uses (jx, protobuf, telegraf's line-protocol parser) and the library's output is
// written as a canonical s-expression, generically, without looking at what the decoder will do with it
// (lean/Qryn/Ingest/Wire.lean describes the values; lean/Driver/C03W.lean reads the text).
// Also here: the values of the library FUNCTIONS the decoders call on strings of the body (text/scanner tokens +
// strconv.Unquote for label texts, the Datadog tag pattern), given to the model as a table.

import (
	"encoding/base64"
	"fmt"
	"io"
	"math"
	"strconv"
	"strings"
	"text/scanner"
	"time"

	"github.com/go-faster/jx"
	"github.com/go-logfmt/logfmt"
	"github.com/influxdata/telegraf"
	"github.com/influxdata/telegraf/plugins/parsers/influx"
	"github.com/metrico/qryn/writer/utils/proto/logproto"
	"github.com/metrico/qryn/writer/utils/proto/prompb"
	otlpCommon "go.opentelemetry.io/proto/otlp/common/v1"
	otlpLogs "go.opentelemetry.io/proto/otlp/logs/v1"
	"google.golang.org/protobuf/proto"
)

// c03JxTree: the JSON value at the decoder's position as jx presents it: members in document order with duplicates,
// strings decoded by Str(), numbers with their source text and what Float64() / Int64() return AT THIS POSITION
// (Capture rolls the decoder back). Every decoded string is also reported to strs.
func c03JxTree(d *jx.Decoder, strs *[]string) (string, error) {
	switch d.Next() {
	case jx.Null:
		if err := d.Null(); err != nil {
			return "", err
		}
		return "n", nil
	case jx.Bool:
		b, err := d.Bool()
		if err != nil {
			return "", err
		}
		if b {
			return "t", nil
		}
		return "f", nil
	case jx.Number:
		f64, i64 := "~", "~"
		if err := d.Capture(func(d *jx.Decoder) error {
			if v, err := d.Float64(); err == nil {
				f64 = tu(math.Float64bits(v))
			}
			return nil
		}); err != nil {
			return "", err
		}
		if err := d.Capture(func(d *jx.Decoder) error {
			if v, err := d.Int64(); err == nil {
				i64 = ti(v)
			}
			return nil
		}); err != nil {
			return "", err
		}
		n, err := d.Num()
		if err != nil {
			return "", err
		}
		return tl("N", th(string(n)), f64, i64), nil
	case jx.String:
		s, err := d.Str()
		if err != nil {
			return "", err
		}
		*strs = append(*strs, s)
		return tl("S", th(s)), nil
	case jx.Array:
		items := []string{"A"}
		err := d.Arr(func(d *jx.Decoder) error {
			t, err := c03JxTree(d, strs)
			items = append(items, t)
			return err
		})
		if err != nil {
			return "", err
		}
		return tl(items...), nil
	case jx.Object:
		items := []string{"O"}
		err := d.Obj(func(d *jx.Decoder, key string) error {
			t, err := c03JxTree(d, strs)
			items = append(items, tl(th(key), t))
			return err
		})
		if err != nil {
			return "", err
		}
		return tl(items...), nil
	}
	return "", fmt.Errorf("not a JSON value")
}

// c03ScanToks: the token stream text/scanner (default mode, as parseLabelsLokiFormat initialises it) makes of s,
// string tokens with what strconv.Unquote returns for them.
func c03ScanToks(s string) string {
	var sc scanner.Scanner
	sc.Init(strings.NewReader(s))
	sc.Error = func(*scanner.Scanner, string) {} // default: a message on stderr; no influence on the tokens
	var toks []string
	for i := 0; i < 100000; i++ {
		tok := sc.Scan()
		if tok == scanner.EOF {
			break
		}
		switch tok {
		case scanner.Ident:
			toks = append(toks, tl("I", th(sc.TokenText())))
		case scanner.String:
			if u, err := strconv.Unquote(sc.TokenText()); err == nil {
				toks = append(toks, tl("S", th(u)))
			} else {
				toks = append(toks, tl("S", "~"))
			}
		case scanner.Int, scanner.Float, scanner.Char, scanner.RawString, scanner.Comment:
			toks = append(toks, "X")
		default:
			toks = append(toks, tl("C", strconv.Itoa(int(tok))))
		}
	}
	return tl(toks...)
}

func c03AuxTable(strs []string, want func(string) bool, val func(string) string) string {
	seen := map[string]bool{}
	var rows []string
	for _, s := range strs {
		if seen[s] || !want(s) {
			continue
		}
		seen[s] = true
		rows = append(rows, tl(th(s), val(s)))
	}
	if len(rows) == 0 {
		return "-"
	}
	return tl(rows...)
}

func c03ScanAux(strs []string) string {
	return c03AuxTable(strs, func(s string) bool { return strings.Contains(s, "{") }, c03ScanToks)
}

func c03TagAux(strs []string) string {
	return c03AuxTable(strs, func(s string) bool { return strings.Contains(s, ":") }, func(s string) string {
		var ls []c03Label
		for _, m := range c03TagRe.FindAllStringSubmatch(s, -1) {
			ls = append(ls, c03Label{m[1], m[2]})
		}
		return tlabels(ls)
	})
}

func c03AnyTree(v *otlpCommon.AnyValue) string {
	switch x := v.GetValue().(type) {
	case *otlpCommon.AnyValue_StringValue:
		return tl("S", th(x.StringValue))
	case *otlpCommon.AnyValue_BoolValue:
		if x.BoolValue {
			return tl("B", "1")
		}
		return tl("B", "0")
	case *otlpCommon.AnyValue_IntValue:
		return tl("I", ti(x.IntValue))
	case *otlpCommon.AnyValue_DoubleValue:
		return tl("D", tu(math.Float64bits(x.DoubleValue)), th(strconv.FormatFloat(x.DoubleValue, 'f', -1, 64)))
	case *otlpCommon.AnyValue_BytesValue:
		return tl("Y", th(string(x.BytesValue)), th(base64.StdEncoding.EncodeToString(x.BytesValue)))
	case *otlpCommon.AnyValue_ArrayValue:
		items := []string{"A"}
		for _, it := range x.ArrayValue.GetValues() {
			items = append(items, c03AnyTree(it))
		}
		return tl(items...)
	case *otlpCommon.AnyValue_KvlistValue:
		items := []string{"K"}
		for _, kv := range x.KvlistValue.GetValues() {
			items = append(items, tl(th(kv.GetKey()), c03AnyTree(kv.GetValue())))
		}
		return tl(items...)
	}
	return "u"
}

func c03AttrsTree(kvs []*otlpCommon.KeyValue) string {
	var items []string
	for _, kv := range kvs {
		items = append(items, tl(th(kv.GetKey()), c03AnyTree(kv.GetValue())))
	}
	return tl(items...)
}

// c03InfluxMetrics: the metrics telegraf's stream parser yields for the body (the decoder appends "\n", see influxDec.Decode)
func c03InfluxMetrics(body []byte) ([]telegraf.Metric, error) {
	parser := influx.NewStreamParser(io.MultiReader(strings.NewReader(string(body)), strings.NewReader("\n")))
	parser.SetTimePrecision(time.Nanosecond)
	var out []telegraf.Metric
	for {
		m, err := parser.Next()
		if err == influx.EOF {
			return out, nil
		}
		if err != nil {
			return out, err
		}
		out = append(out, m)
	}
}

func c03FieldTree(f *telegraf.Field) string {
	kv := "~"
	if b, err := logfmt.MarshalKeyvals(f.Key, f.Value); err == nil {
		kv = th(string(b))
	}
	switch v := f.Value.(type) {
	case int64:
		return tl(th(f.Key), "I", ti(v), kv)
	case uint64:
		return tl(th(f.Key), "U", tu(v), kv)
	case float64:
		return tl(th(f.Key), "F", tu(math.Float64bits(v)), kv)
	case bool:
		if v {
			return tl(th(f.Key), "B", "1", kv)
		}
		return tl(th(f.Key), "B", "0", kv)
	case string:
		return tl(th(f.Key), "S", th(v), kv)
	}
	return tl(th(f.Key), "?", "0", kv)
}

// c03WireIV: intermediate value and auxiliary table of a body. fieldOrder (Influx only) may give, per metric index, the
// order in which the Go map of the fields was iterated when the decoder rendered a log line (a witness found by the caller).
// now: the value that stands for the wall clock in this evaluation (a point without timestamp gets telegraf's clock reading,
// which is replaced by it on both sides).
func c03WireIV(protoName string, body []byte, fieldOrder map[int][]string, now int64) (iv, aux string, err error) {
	aux = "-"
	switch protoName {
	case "loki", "ddlogs", "ddseries":
		var strs []string
		iv, err = c03JxTree(jx.DecodeBytes(body), &strs)
		if err != nil {
			return "", "", err
		}
		switch protoName {
		case "loki":
			aux = c03ScanAux(strs)
		case "ddlogs":
			aux = c03TagAux(strs)
		}
		return iv, aux, nil
	case "lokiproto":
		req := &logproto.PushRequest{}
		if err := proto.Unmarshal(body, req); err != nil {
			return "", "", err
		}
		var ss, strs []string
		for _, s := range req.GetStreams() {
			var es []string
			for _, e := range s.GetEntries() {
				es = append(es, tl(ti(e.GetTimestamp().GetSeconds()), ti(int64(e.GetTimestamp().GetNanos())), th(e.GetLine())))
			}
			ss = append(ss, tl(th(s.GetLabels()), tl(es...)))
			strs = append(strs, s.GetLabels())
		}
		return tl(ss...), c03AuxTable(strs, func(string) bool { return true }, c03ScanToks), nil
	case "prom":
		req := &prompb.WriteRequest{}
		if err := proto.Unmarshal(body, req); err != nil {
			return "", "", err
		}
		var ss []string
		for _, ts := range req.GetTimeseries() {
			var ls []c03Label
			for _, l := range ts.GetLabels() {
				ls = append(ls, c03Label{l.GetName(), l.GetValue()})
			}
			var es []string
			for _, s := range ts.GetSamples() {
				es = append(es, tl(ti(s.GetTimestamp()), tu(math.Float64bits(s.GetValue()))))
			}
			ss = append(ss, tl(tlabels(ls), tl(es...)))
		}
		return tl(ss...), aux, nil
	case "otlp":
		data := &otlpLogs.LogsData{}
		if err := proto.Unmarshal(body, data); err != nil {
			return "", "", err
		}
		var rs []string
		for _, r := range data.GetResourceLogs() {
			var scs []string
			for _, s := range r.GetScopeLogs() {
				var recs []string
				for _, l := range s.GetLogRecords() {
					recs = append(recs, tl(c03AttrsTree(l.GetAttributes()), th(l.GetSeverityText()), c03AnyTree(l.GetBody()), tu(l.GetTimeUnixNano())))
				}
				scs = append(scs, tl(c03AttrsTree(s.GetScope().GetAttributes()), tl(recs...)))
			}
			rs = append(rs, tl(c03AttrsTree(r.GetResource().GetAttributes()), tl(scs...)))
		}
		return tl(rs...), aux, nil
	case "influx":
		ms, err := c03InfluxMetrics(body)
		if err != nil {
			return "", "", err
		}
		var out []string
		for i, m := range ms {
			var tags []c03Label
			for _, t := range m.TagList() {
				tags = append(tags, c03Label{t.Key, t.Value})
			}
			fl := m.FieldList()
			if ord, ok := fieldOrder[i]; ok {
				byKey := map[string]*telegraf.Field{}
				for _, f := range fl {
					byKey[f.Key] = f
				}
				var re []*telegraf.Field
				for _, k := range ord {
					if f, ok := byKey[k]; ok {
						re = append(re, f)
						delete(byKey, k)
					}
				}
				if len(re) == len(fl) {
					fl = re
				}
			}
			var fs []string
			for _, f := range fl {
				fs = append(fs, c03FieldTree(f))
			}
			t := m.Time().UnixNano()
			if d := time.Now().UnixNano() - t; d > -5000000000 && d < 5000000000 {
				t = now
			}
			out = append(out, tl(th(m.Name()), tlabels(tags), tl(fs...), ti(t)))
		}
		return tl(out...), aux, nil
	}
	return "", "", fmt.Errorf("unknown protocol %q", protoName)
}
