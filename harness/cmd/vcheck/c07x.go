package main

// C07 ext: the SQL-side pipeline stages of a log query — `| json l="path"`, `| regexp "(?P<l>…)"`, `| drop`, filters after
// them — and the hand-over to the in-process engine (`| json`, `| logfmt`, `| line_format`).

import (
	"encoding/json"
	"fmt"
	"os"
	"regexp"
	"sort"
	"reflect"
	"strconv"
	"strings"
	"unsafe"

	"github.com/alecthomas/participle/v2"
	"github.com/alecthomas/participle/v2/lexer"
	"github.com/metrico/qryn/reader/logql/logql_parser"
	lt "github.com/metrico/qryn/reader/logql/logql_transpiler_v2"
	"github.com/metrico/qryn/reader/logql/logql_transpiler_v2/shared"
	sql "github.com/metrico/qryn/reader/utils/sql_select"
	"verif/harness/h"
	"verif/harness/sqldump"
)

// ---- generator

var c07xJSONKeys = []string{"a", "b", "level", "msg", "n", "app"}

func c07xGenJSONPath(r *h.Rng) string {
	var sb strings.Builder
	n := r.Range(1, 3)
	for i := 0; i < n; i++ {
		switch {
		case i == 0 && r.Chance(75), i > 0 && r.Chance(45):
			if i > 0 {
				sb.WriteString(".")
			}
			sb.WriteString(h.Pick(r, c07xJSONKeys))
		case r.Chance(40):
			sb.WriteString("[" + fmt.Sprint(r.Intn(3)) + "]")
		default:
			k := h.Pick(r, []string{"k y", "it's", "a\\b", "%", "a.b", "é", "", "x\"q", "0", "'", "1abc", "9", "0x1f", "7'", "a(b)", ")", "(", "\\'", "\\", "2\\", "x\ty"})
			if r.Chance(15) && !strings.Contains(k, "`") {
				sb.WriteString("[`" + k + "`]") // the raw-string form of a quoted field name
			} else {
				sb.WriteString("[" + strconv.Quote(k) + "]")
			}
		}
	}
	return sb.String()
}

func c07xGenRegexPiece(r *h.Rng, depth int) string {
	switch r.Intn(8) {
	case 0:
		return "\\d+"
	case 1:
		return "[a-z]+"
	case 2:
		return ".*"
	case 3:
		return h.Pick(r, []string{"=", " ", "x", "lvl", "a'b", ":", "\\.", ">"})
	case 4:
		if depth > 0 {
			return "(" + c07xGenRegexPiece(r, depth-1) + ")"
		}
		return "\\w+"
	case 5:
		if depth > 0 {
			return "(?P<" + h.Pick(r, []string{"x", "lvl", "a", "n1", "app"}) + ">" + c07xGenRegexPiece(r, depth-1) + c07xGenRegexPiece(r, depth-1) + ")"
		}
		return "[0-9]"
	default:
		return "(?P<" + h.Pick(r, []string{"x", "lvl", "a", "n1", "app", "level"}) + ">" + h.Pick(r, []string{"\\d+", "[a-z]+", "\\w+", ".", "[^ ]*"}) + ")"
	}
}

func c07xGenRegex(r *h.Rng) string {
	if r.Chance(8) {
		return h.Pick(r, []string{"abc", "\\d+", "(a)(b)"}) // no named group at all
	}
	var sb strings.Builder
	n := r.Range(1, 4)
	for i := 0; i < n; i++ {
		sb.WriteString(c07xGenRegexPiece(r, 2))
	}
	return sb.String()
}

func c07xGenChanger(r *h.Rng) string {
	switch r.Intn(3) {
	case 0:
		n := r.Range(1, 3)
		var ps []string
		for i := 0; i < n; i++ {
			lbl := h.Pick(r, []string{"x", "lvl", "a", "app", "level", "n1", "job"})
			ps = append(ps, lbl+"="+q(c07xGenJSONPath(r)))
		}
		return "| json " + strings.Join(ps, ", ")
	case 1:
		return "| regexp " + q(c07xGenRegex(r))
	default:
		n := r.Range(1, 3)
		var ps []string
		for i := 0; i < n; i++ {
			lbl := h.Pick(r, []string{"x", "lvl", "a", "app", "level", "job"})
			if r.Chance(35) {
				lbl += "=" + q(genStr(r))
			}
			ps = append(ps, lbl)
		}
		return "| drop " + strings.Join(ps, ", ")
	}
}

func c07xGenFilter(r *h.Rng) string {
	if r.Chance(45) {
		op := h.Pick(r, []string{"|=", "!=", "|~", "!~"})
		v := genStr(r)
		if op == "|~" || op == "!~" {
			v = genRegex(r)
		}
		return op + " " + q(v)
	}
	return "| " + genLabelCond(r, 1)
}

// c07xGenQuery: selector, 0–2 plain stages, then a mix of label-rewriting stages and filters; sometimes a stage only the
// in-process engine has, followed by anything
func c07xGenQuery(r *h.Rng, maxStages int) string {
	var sb strings.Builder
	sb.WriteString("{")
	n := r.Range(1, 2)
	for i := 0; i < n; i++ {
		if i > 0 {
			sb.WriteString(", ")
		}
		op := h.Pick(r, []string{"=", "=", "=", "!=", "=~"})
		v := r.Ident(4)
		if op == "=~" {
			v = genRegex(r)
		}
		sb.WriteString(h.Pick(r, lblNames) + op + q(v))
	}
	sb.WriteString("}")
	for i := r.Intn(3); i > 0; i-- {
		sb.WriteString(" " + c07xGenFilter(r))
	}
	m := r.Range(1, maxStages)
	for i := 0; i < m; i++ {
		if r.Chance(55) {
			sb.WriteString(" " + c07xGenChanger(r))
		} else {
			sb.WriteString(" " + c07xGenFilter(r))
		}
	}
	if r.Chance(15) {
		sb.WriteString(" " + h.Pick(r, []string{"| json", "| logfmt", "| line_format \"{{.a}}\"", "| label_format x=\"c\"", "| label_format lvl=level, x=\"{{.a}}\""}))
		for i := r.Intn(3); i > 0; i-- {
			if r.Chance(50) {
				sb.WriteString(" " + c07xGenChanger(r))
			} else {
				sb.WriteString(" " + c07xGenFilter(r))
			}
		}
	}
	return sb.String()
}

// ---- the pattern parser of planner_parser_regexp.go (its types are unexported): the same lexer rules and grammar,
// so that the group names and the pattern without `?P<name>` can be given to the model as the environment's answer;
// the text tie then compares what the real planner rendered with what the model renders from this answer.

var c07xRegexLexer = lexer.MustSimple([]lexer.SimpleRule{
	{"OBrackQ", "\\(\\?P<"},
	{"OBrack", "\\("},
	{"CBrack", "\\)"},
	{"CCBrack", ">"},
	{"Ident", "[a-zA-Z_][0-9a-zA-Z_]*"},
	{"Char", `\\.|.`},
})

type c07xRegexAST struct {
	RegexPart []c07xRegexPart `@@+`
}
type c07xRegexPart struct {
	SimplePart     string         `@(Char|CCBrack|Ident)+`
	NamedBrackPart *c07xBrackPart `| OBrackQ @@ CBrack`
	BrackPart      *c07xRegexAST  `| OBrack @@ CBrack`
}
type c07xBrackPart struct {
	Name string        `@Ident CCBrack`
	Tail *c07xRegexAST `@@?`
}

func (a *c07xRegexAST) text() string {
	var sb strings.Builder
	for i := range a.RegexPart {
		p := &a.RegexPart[i]
		switch {
		case p.SimplePart != "":
			sb.WriteString(p.SimplePart)
		case p.NamedBrackPart != nil:
			sb.WriteString("(" + p.NamedBrackPart.Tail.text() + ")")
		default:
			sb.WriteString("(" + p.BrackPart.text() + ")")
		}
	}
	return sb.String()
}
func (a *c07xRegexAST) names(init []string) []string {
	for i := range a.RegexPart {
		p := &a.RegexPart[i]
		if p.NamedBrackPart != nil {
			init = append(init, p.NamedBrackPart.Name)
			init = p.NamedBrackPart.Tail.names(init)
		} else if p.BrackPart != nil {
			init = append(init, "")
			init = p.BrackPart.names(init)
		}
	}
	return init
}

var c07xRegexParser = participle.MustBuild[c07xRegexAST](participle.Lexer(c07xRegexLexer))

// c07xParseRe: group names in order and the pattern ClickHouse is given; ok=false when the planner would not get that far
func c07xParseRe(re string) (names []string, text string, ok bool) {
	defer func() {
		if recover() != nil { // `(?P<x>)`: the real code dereferences a nil Tail
			ok = false
		}
	}()
	ast, err := c07xRegexParser.ParseString("", re)
	if err != nil {
		return nil, "", false
	}
	return ast.names(nil), ast.text(), true
}

// ---- serialisation of the REAL parsed AST for the model

func c07xSerJSONParams(p *logql_parser.Parser) (string, error) {
	var ps []string
	for _, pp := range p.ParserParams {
		label := ""
		if pp.Label != nil {
			label = pp.Label.Name
		}
		val, err := pp.Val.Unquote()
		if err != nil {
			return "", err
		}
		names, err := shared.JsonPathParamToArray(val)
		if err != nil {
			return "", err
		}
		typed, err := shared.JsonPathParamToTypedArray(val)
		if err != nil {
			return "", err
		}
		var parts []string
		for j, name := range names {
			if idx, isIdx := typed[j].(int); isIdx {
				parts = append(parts, fmt.Sprintf("i%d", idx+1))
			} else {
				parts = append(parts, "k"+hx(name))
			}
		}
		ps = append(ps, hx(label)+"="+joinOrDash(parts, "/"))
	}
	return strings.Join(ps, ","), nil
}

// c07xSerStage: one pipeline element; "I:<tag>" for the stages only the in-process engine has
func c07xSerStage(p *logql_parser.StrSelectorPipeline) (string, error) {
	switch {
	case p.LineFilter != nil, p.LabelFilter != nil:
		one := &logql_parser.LogQLScript{StrSelector: &logql_parser.StrSelector{
			StrSelCmds: []logql_parser.StrSelCmd{{Label: logql_parser.LabelName{Name: "a"}, Op: "=", Val: logql_parser.QuotedString{Str: `"b"`}}},
			Pipelines:  []logql_parser.StrSelectorPipeline{*p}}}
		s, err := serLogQuery(one)
		if err != nil {
			return "", err
		}
		return s[strings.LastIndex(s, " ")+1:], nil
	case p.Parser != nil && p.Parser.Fn == "json" && len(p.Parser.ParserParams) == 0:
		return "I:json", nil
	case p.Parser != nil && p.Parser.Fn == "logfmt":
		return "I:logfmt", nil
	case p.LineFormat != nil:
		return "I:line_format", nil
	case p.LabelFormat != nil:
		return "I:label_format", nil
	case p.Parser != nil && p.Parser.Fn == "json":
		s, err := c07xSerJSONParams(p.Parser)
		if err != nil {
			return "", err
		}
		return "J:" + s, nil
	case p.Parser != nil && p.Parser.Fn == "regexp":
		if len(p.Parser.ParserParams) == 0 {
			return "", fmt.Errorf("regexp without a pattern")
		}
		val, err := p.Parser.ParserParams[0].Val.Unquote()
		if err != nil {
			return "", err
		}
		names, text, ok := c07xParseRe(val)
		if !ok {
			return "", fmt.Errorf("pattern not accepted by the planner's pattern parser")
		}
		var ns []string
		for _, n := range names {
			ns = append(ns, hx(n))
		}
		nl := "~"
		if len(ns) > 0 {
			nl = strings.Join(ns, ",")
		}
		return "R:" + nl + ":" + hx(text), nil
	case p.Drop != nil:
		if len(p.Drop.Params) == 0 {
			return "", fmt.Errorf("drop without labels")
		}
		var ps []string
		for _, dp := range p.Drop.Params {
			v := ""
			if dp.Val != nil {
				var err error
				v, err = dp.Val.Unquote()
				if err != nil {
					return "", err
				}
			}
			ps = append(ps, hx(dp.Label.Name)+"="+hx(v))
		}
		return "D:" + strings.Join(ps, ","), nil
	}
	return "", fmt.Errorf("stage outside the fragment")
}

// c07xSer: "<matchers> <stages>"; everything after the first in-process-only stage is irrelevant to ClickHouse and goes as I:rest
func c07xSer(s *logql_parser.LogQLScript) (string, error) {
	if s.StrSelector == nil {
		return "", fmt.Errorf("not a log query")
	}
	var ms, st []string
	for _, c := range s.StrSelector.StrSelCmds {
		v, err := c.Val.Unquote()
		if err != nil {
			return "", err
		}
		ms = append(ms, hx(c.Label.Name)+":"+matchOps[c.Op]+":"+hx(v))
	}
	broken := false
	for i := range s.StrSelector.Pipelines {
		if broken {
			st = append(st, "I:rest")
			continue
		}
		x, err := c07xSerStage(&s.StrSelector.Pipelines[i])
		if err != nil {
			return "", err
		}
		st = append(st, x)
		broken = strings.HasPrefix(x, "I:")
	}
	if len(ms) == 0 {
		return "", fmt.Errorf("no matchers")
	}
	return strings.Join(ms, ";") + " " + joinOrDash(st, ";"), nil
}

// ---- the real path: logql_transpiler_v2.Plan (GetBreakpoint, breakScript, clickhouse_planner.Plan) → the ClickHouse
// request planner at the bottom of the processor chain → Process → String

func c07xFindGetter(p any) *shared.ClickhouseGetterPlanner {
	for depth := 0; depth < 64 && p != nil; depth++ {
		if g, ok := p.(*shared.ClickhouseGetterPlanner); ok {
			return g
		}
		v := reflect.ValueOf(p)
		for v.Kind() == reflect.Ptr || v.Kind() == reflect.Interface {
			if v.IsNil() {
				return nil
			}
			v = v.Elem()
		}
		if v.Kind() != reflect.Struct {
			return nil
		}
		f := v.FieldByName("Main")
		if !f.IsValid() || !f.CanInterface() {
			return nil
		}
		p = f.Interface()
	}
	return nil
}

type c07xImpl struct {
	sel    sql.ISelect
	text   string
	script *logql_parser.LogQLScript // a fresh parse (Plan cuts the one it is given)
	plan   any                       // the ClickHouse request planner object of the chain
	given  []*logql_parser.LabelFilter // per pipeline element of the script GIVEN to Plan its label filter (nil: another stage)
}

func c07xImplSQL(query string, c qctx) (*c07xImpl, error) {
	script, err := logql_parser.Parse(query)
	if err != nil {
		return nil, fmt.Errorf("parse: %w", err)
	}
	fresh, _ := logql_parser.Parse(query)
	res := &c07xImpl{script: fresh}
	if script.StrSelector != nil {
		for i := range script.StrSelector.Pipelines {
			res.given = append(res.given, script.StrSelector.Pipelines[i].LabelFilter)
		}
	}
	var perr error
	func() {
		defer func() {
			if e := recover(); e != nil {
				perr = fmt.Errorf("panic: %v", e)
			}
		}()
		chain, err := lt.Plan(script)
		if err != nil {
			perr = fmt.Errorf("plan: %w", err)
			return
		}
		if len(chain) != 1 {
			perr = fmt.Errorf("plan: chain of %d", len(chain))
			return
		}
		g := c07xFindGetter(chain[0])
		if g == nil {
			perr = fmt.Errorf("plan: no ClickHouse getter in the chain")
			return
		}
		res.plan = g.ClickhouseRequestPlanner
		sel, err := g.ClickhouseRequestPlanner.Process(c.planner())
		if err != nil {
			perr = fmt.Errorf("process: %w", err)
			return
		}
		res.sel = sel
		res.text, err = sel.String(sql.DefaultCtx())
		if err != nil {
			perr = fmt.Errorf("string: %w", err)
		}
	}()
	return res, perr
}

func c07xStageKinds(r *h.Result, stream string, s *logql_parser.LogQLScript) {
	for _, p := range s.StrSelector.Pipelines {
		switch {
		case p.LineFilter != nil:
			r.Count(stream + ":stage:line")
		case p.LabelFilter != nil:
			r.Count(stream + ":stage:label-filter")
		case p.Parser != nil && len(p.Parser.ParserParams) > 0 && p.Parser.Fn == "json":
			r.Count(stream + ":stage:json-params")
		case p.Parser != nil && p.Parser.Fn == "regexp":
			r.Count(stream + ":stage:regexp")
		case p.Drop != nil:
			r.Count(stream + ":stage:drop")
		default:
			r.Count(stream + ":stage:in-process-only")
		}
	}
}

// c07TextX: byte-equal SQL between the real path and LogQL.planScript
func c07TextX(r *h.Result, rng *h.Rng, n int, cov *c07gCov) error {
	r.Stream("textx: logql_parser.Parse → logql_transpiler_v2.Plan (GetBreakpoint, breakScript, clickhouse_planner.Plan) → the ClickHouse request planner of the chain → Process → String vs LogQL.planScript/Sql.renderSel (byte-equal SQL; json with parameters, regexp, drop, filters after them, hand-over)")
	var ops, impl, anOps, anImpl []string
	var cases, anCases []any
	for i := 0; i < n; i++ {
		query := c07xGenQuery(rng, 5)
		if i%2 == 1 {
			query = c07gQuery(rng, c07gGuided(c07gCfgX, cov)) // derived from the grammar (c07gram.go)
			r.Count("textx:from-grammar")
		}
		c := genCtx(rng)
		im, err := c07xImplSQL(query, c)
		if im != nil && im.script != nil {
			bp, _ := lt.GetBreakpoint(im.script)
			if form := c07gRefused(im.script, bp); form != "" {
				r.Count("textx:refused-form:" + form)
				if err == nil {
					r.Disagree("textx-refused", form, "planned: "+truncS(im.text, 200), "the planner refuses this form", map[string]any{"query": query})
				}
			}
		}
		if err != nil {
			r.Count("textx:impl-error")
			cls := err.Error()
			if j := strings.Index(cls, ":"); j > 0 {
				cls = cls[:j]
			}
			r.Count("textx:impl-error:" + cls)
			if os.Getenv("C07X_DEBUG") != "" {
				fmt.Fprintln(os.Stderr, "impl-error:", query, "=>", err)
			}
			if rng.Chance(30) {
				r.Sample(map[string]string{"stream": "textx", "query": query, "error": err.Error()})
			}
			continue
		}
		ser, err := c07xSer(im.script)
		if err != nil {
			r.Count("textx:outside-fragment")
			continue
		}
		ops = append(ops, "c07planx "+c.ser()+" "+ser)
		impl = append(impl, h.Hex([]byte(im.text)))
		cases = append(cases, map[string]any{"query": query, "ctx": c})
		// the push-down as the plan OBJECT has it: which pipeline elements' filters sit in SimpleLabelFilterPlanner wrappers
		if stages := ser[strings.Index(ser, " ")+1:]; stages != "-" {
			var sql []string
			for _, st := range strings.Split(stages, ";") {
				if strings.HasPrefix(st, "I:") {
					break
				}
				sql = append(sql, st)
			}
			if len(sql) > 0 {
				pushed := c07xPushedDown(im.plan)
				marks := make([]byte, len(sql))
				for j := range marks {
					marks[j] = '0'
					if j < len(im.given) && im.given[j] != nil && pushed[im.given[j]] {
						marks[j] = '1'
					}
				}
				anOps = append(anOps, "c07analyze "+strings.Join(sql, ";"))
				anImpl = append(anImpl, string(marks))
				anCases = append(anCases, map[string]any{"query": query})
			}
		}
		r.Case("textx:"+query+fmt.Sprint(c), true)
		c07xStageKinds(r, "textx", im.script)
		bp, _ := lt.GetBreakpoint(im.script)
		if bp >= 0 {
			r.Count("textx:handed-over")
		}
		if cov != nil {
			c07gObserve(im.script, bp, cov.add)
		}
		if i%67 == 0 {
			r.Sample(map[string]any{"stream": "textx", "query": query, "ctx": c, "sql": im.text})
		}
	}
	// analysis: the marks of the model's `simpleOps` = the filters the real plan object decides on the stored labels
	r.Stream("analysis: the label filters wrapped into SimpleLabelFilterPlanner objects in the plan logql_transpiler_v2.Plan built (object graph walked by reflection, filters identified by pointer) vs the marks of LogQL.simpleOps on the serialised pipeline")
	ans, err := h.Model(anOps)
	if err != nil {
		return err
	}
	for i := range anOps {
		got := ans[i]
		if j := strings.Index(got, " "); j > 0 {
			got = got[:j]
		}
		r.Case("analysis:"+anOps[i], strings.Contains(anImpl[i], "1"))
		if strings.Contains(anImpl[i], "1") {
			r.Count("analysis:some-filter-pushed-down")
		}
		if got != anImpl[i] {
			r.Disagree("analysis", anOps[i], anImpl[i], got, anCases[i])
		}
	}
	return r.Compare("textx", ops, impl, cases)
}

// c07xPushedDown: the `Expr` of every SimpleLabelFilterPlanner reachable from a planner object
func c07xPushedDown(root any) map[*logql_parser.LabelFilter]bool {
	res := map[*logql_parser.LabelFilter]bool{}
	seen := map[uintptr]bool{}
	var walk func(v reflect.Value, depth int)
	walk = func(v reflect.Value, depth int) {
		if depth > 200 || !v.IsValid() {
			return
		}
		switch v.Kind() {
		case reflect.Interface:
			if !v.IsNil() {
				walk(v.Elem(), depth+1)
			}
		case reflect.Ptr:
			if v.IsNil() || seen[v.Pointer()] {
				return
			}
			seen[v.Pointer()] = true
			if v.Type().Elem().Kind() == reflect.Struct && v.Type().Elem().Name() == "SimpleLabelFilterPlanner" {
				if f := v.Elem().FieldByName("Expr"); f.IsValid() && f.CanInterface() {
					if lf, ok := f.Interface().(*logql_parser.LabelFilter); ok && lf != nil {
						res[lf] = true
					}
				}
			}
			if v.Type().Elem().Kind() == reflect.Struct || v.Type().Elem().Kind() == reflect.Ptr || v.Type().Elem().Kind() == reflect.Interface {
				walk(v.Elem(), depth+1)
			}
		case reflect.Struct:
			if strings.HasPrefix(v.Type().PkgPath(), "github.com/metrico/qryn/reader/logql/logql_parser") {
				return // the syntax tree itself holds no planners
			}
			for i := 0; i < v.NumField(); i++ {
				f := v.Field(i)
				switch f.Kind() {
				case reflect.Interface, reflect.Ptr, reflect.Struct, reflect.Slice:
					if !f.CanInterface() {
						if !f.CanAddr() {
							continue
						}
						f = reflect.NewAt(f.Type(), unsafe.Pointer(f.UnsafeAddr())).Elem()
					}
					walk(f, depth+1)
				}
			}
		case reflect.Slice:
			for i := 0; i < v.Len(); i++ {
				walk(v.Index(i), depth+1)
			}
		}
	}
	walk(reflect.ValueOf(root), 0)
	return res
}

// ---------------------------------------------------------------- sem stream for the extended fragment

// c07xVocab: collectVocab for scripts with the new stages (label names and values worth planting)
func c07xVocab(s *logql_parser.LogQLScript) (vocab, []*logql_parser.Parser) {
	plain := &logql_parser.LogQLScript{StrSelector: &logql_parser.StrSelector{StrSelCmds: s.StrSelector.StrSelCmds}}
	var parsers []*logql_parser.Parser
	var extra []string
	for i := range s.StrSelector.Pipelines {
		p := s.StrSelector.Pipelines[i]
		switch {
		case p.LineFilter != nil, p.LabelFilter != nil:
			plain.StrSelector.Pipelines = append(plain.StrSelector.Pipelines, p)
		case p.Parser != nil:
			parsers = append(parsers, p.Parser)
			for _, pp := range p.Parser.ParserParams {
				if pp.Label != nil {
					extra = append(extra, pp.Label.Name)
				}
			}
		case p.Drop != nil:
			for _, dp := range p.Drop.Params {
				extra = append(extra, dp.Label.Name)
			}
		}
	}
	v := collectVocab(plain)
	v.labelNames = append(v.labelNames, extra...)
	for _, p := range s.StrSelector.Pipelines {
		if p.Drop != nil {
			for _, dp := range p.Drop.Params {
				if dp.Val != nil {
					if x, err := dp.Val.Unquote(); err == nil {
						v.labelVals = append(v.labelVals, x)
					}
				}
			}
		}
	}
	return v, parsers
}

type c07xPath struct {
	ser   string // k<hex>/i<n>
	parts []any  // string key or int (1-based) position
	label string // the label the parameter sets
}

func c07xPathsOf(parsers []*logql_parser.Parser) []c07xPath {
	var res []c07xPath
	for _, p := range parsers {
		if p.Fn != "json" {
			continue
		}
		for _, pp := range p.ParserParams {
			val, err := pp.Val.Unquote()
			if err != nil {
				continue
			}
			names, err1 := shared.JsonPathParamToArray(val)
			typed, err2 := shared.JsonPathParamToTypedArray(val)
			if err1 != nil || err2 != nil {
				continue
			}
			var cp c07xPath
			if pp.Label != nil {
				cp.label = pp.Label.Name
			}
			var ser []string
			for j, name := range names {
				if idx, isIdx := typed[j].(int); isIdx {
					cp.parts = append(cp.parts, idx+1)
					ser = append(ser, fmt.Sprintf("i%d", idx+1))
				} else {
					cp.parts = append(cp.parts, name)
					ser = append(ser, "k"+hx(name))
				}
			}
			cp.ser = joinOrDash(ser, "/")
			res = append(res, cp)
		}
	}
	return res
}

// c07xJSONField: what `if(JSONType(doc, path)=='String', JSONExtractString(doc, path), JSONExtractRaw(doc, path))` yields —
// the environment's JSON reader (here: encoding/json; keys address objects, positions from 1 address arrays; a missing
// element, or a line that is no JSON document, gives the empty string)
func c07xJSONField(doc string, parts []any) string {
	cur := json.RawMessage(doc)
	if !json.Valid(cur) {
		return ""
	}
	for _, p := range parts {
		switch k := p.(type) {
		case string:
			var obj map[string]json.RawMessage
			if json.Unmarshal(cur, &obj) != nil || obj == nil {
				return ""
			}
			next, ok := obj[k]
			if !ok {
				return ""
			}
			cur = next
		case int:
			var arr []json.RawMessage
			if json.Unmarshal(cur, &arr) != nil || k < 1 || k > len(arr) {
				return ""
			}
			cur = arr[k-1]
		}
	}
	var s string
	if json.Unmarshal(cur, &s) == nil && len(cur) > 0 && cur[0] == '"' {
		return s
	}
	return strings.TrimSpace(string(cur))
}

func c07xGenDocValue(r *h.Rng, vals []string, depth int) any {
	switch r.Intn(9) {
	case 0:
		return r.Intn(1000)
	case 1:
		return float64(r.Intn(1000)) + 0.5
	case 2:
		return r.Bool()
	case 3:
		return nil
	case 4:
		if depth > 0 {
			n := r.Range(0, 3)
			arr := make([]any, n)
			for i := range arr {
				arr[i] = c07xGenDocValue(r, vals, depth-1)
			}
			return arr
		}
	case 5, 6:
		if depth > 0 {
			return c07xGenDoc(r, vals, depth-1)
		}
	}
	return h.Pick(r, vals)
}

func c07xGenDoc(r *h.Rng, vals []string, depth int) map[string]any {
	doc := map[string]any{}
	for i := r.Range(1, 4); i > 0; i-- {
		k := h.Pick(r, c07xJSONKeys)
		if r.Chance(20) {
			k = h.Pick(r, []string{"k y", "it's", "a\\b", "%", "a.b", "é", "", "x\"q", "0", "'", "1abc", "9", "(", "\\"})
		}
		doc[k] = c07xGenDocValue(r, vals, depth)
	}
	return doc
}

// c07xPlant: set the element a path addresses (creating objects / arrays on the way)
func c07xPlant(root any, parts []any, val any) any {
	if len(parts) == 0 {
		return val
	}
	switch k := parts[0].(type) {
	case string:
		obj, ok := root.(map[string]any)
		if !ok {
			obj = map[string]any{}
		}
		obj[k] = c07xPlant(obj[k], parts[1:], val)
		return obj
	case int:
		arr, _ := root.([]any)
		for len(arr) < k {
			arr = append(arr, "pad")
		}
		arr[k-1] = c07xPlant(arr[k-1], parts[1:], val)
		return arr
	}
	return root
}

func c07xRegexSubject(r *h.Rng, re string) string {
	// a line the pattern has a chance to match: the pieces of the generator, instantiated
	rep := strings.NewReplacer("(?P<x>", "", "(?P<lvl>", "", "(?P<a>", "", "(?P<n1>", "", "(?P<app>", "", "(?P<level>", "", "(", "", ")", "",
		"\\d+", "42", "[a-z]+", "abc", ".*", "zz", "\\w+", "w1", "[0-9]", "7", "[^ ]*", "tok", "\\.", ".", ".", "q")
	s := rep.Replace(re)
	if r.Chance(40) {
		s = s + " " + s // two matches: the LAST one is what the SQL takes
	}
	if r.Chance(20) {
		s = "pre " + s
	}
	return s
}

// c07xGenDB: the databases of c07sem, with lines that are JSON documents (fields at the query's paths: strings, numbers,
// objects, missing), broken documents, plain text, and lines the query's patterns match once or several times
func c07xGenDB(r *h.Rng, c qctx, v vocab, paths []c07xPath, regexes []string) *lokiDB {
	db := genLokiDB(r, c, v)
	vals := append([]string{"b", "5", "5.5", "abc", "Hello", "", "it's", "a\\b", "info", "error"}, v.labelVals...)
	for i, smp := range db.smp {
		f := strings.Split(smp, ":")
		if len(f) != 4 || r.Chance(25) {
			continue
		}
		var line string
		switch k := r.Intn(10); {
		case k < 5:
			var doc any = c07xGenDoc(r, vals, 2)
			for _, p := range paths {
				if r.Chance(60) {
					doc = c07xPlant(doc, p.parts, c07xGenDocValue(r, vals, 1))
				}
			}
			b, _ := json.Marshal(doc)
			line = string(b)
			if r.Chance(8) {
				line = line[:len(line)/2] // truncated document
			}
		case k < 8 && len(regexes) > 0:
			line = c07xRegexSubject(r, h.Pick(r, regexes))
		case k == 8:
			line = h.Pick(r, []string{"not json", "{", "[1,2]", "\"str\"", "5", "null", "{\"a\":}"})
		default:
			continue
		}
		if len(v.needles) > 0 && r.Chance(30) {
			line += " " + strings.Join(v.needles, " ")
		}
		db.lines[line] = true
		f[2] = hx(line)
		db.smp[i] = strings.Join(f, ":")
	}
	return db
}

// c07xReCaps: per capture group the text it captured in the last match ("" when none): RE2 through Go's regexp
func c07xReCaps(rx *regexp.Regexp, line string) []string {
	res := make([]string, rx.NumSubexp())
	all := rx.FindAllStringSubmatch(line, -1)
	if len(all) == 0 {
		return res
	}
	last := all[len(all)-1]
	for g := 1; g <= rx.NumSubexp(); g++ {
		res[g-1] = last[g]
	}
	return res
}

func c07xClassify(s *logql_parser.LogQLScript) string {
	seen := map[string]bool{}
	for _, p := range s.StrSelector.Pipelines {
		switch {
		case p.LineFilter != nil:
			seen["line"] = true
		case p.LabelFilter != nil:
			seen["label"] = true
		case p.Parser != nil && p.Parser.Fn == "json" && len(p.Parser.ParserParams) > 0:
			seen["json"] = true
		case p.Parser != nil && p.Parser.Fn == "regexp":
			seen["regexp"] = true
		case p.Drop != nil:
			seen["drop"] = true
		default:
			seen["handover"] = true
		}
	}
	var ks []string
	for _, k := range []string{"line", "label", "json", "regexp", "drop", "handover"} {
		if seen[k] {
			ks = append(ks, k)
		}
	}
	return strings.Join(ks, ",")
}

// c07xCorpus: one parenthesised comparison per (position, class of the label it reads); three databases each
var c07xCorpus = []string{
	`{a="b"} | drop x | (x="1")`,
	`{a="b"} | drop x="1" | (x="1" or lvl="2")`,
	`{a="b"} | drop x | lvl!="2" and (x!="1")`,
	`{a="b"} | drop x | ((x="1"))`,
	`{a="b"} | drop x | (n1="")`,
	`{a="b"} | drop x | x="1"`,
	`{a="b"} | (x="1") | drop x`,
	`{a="b"} | json x="a" | (x="1")`,
	`{a="b"} | json n1="a" | (n1="1" or x="1")`,
	`{a="b"} | regexp "(?P<x>\\d+)" | (x="42")`,
	`{a="b"} | drop x | json x="a" | (x="1")`,
	`{a="b"} | json x="a" | drop x | (x="1")`,
	`{a="b"} | drop x | (x > 0)`,
	`{a="b"} | drop x | (x =~ "1")`,
}

// c07SemX: the statement the real path BUILT, dumped by reflection, evaluated by Sql.evalSelX on small databases against the
// direct reading LogQL.evalScript — the oracle of C07 on implementation output, for the SQL-side pipeline stages
func c07SemX(r *h.Result, rng *h.Rng, n int, cov *c07gCov, atoms map[string]int) error {
	r.Stream("semx: reflection dump of the sql_select tree built through logql_transpiler_v2.Plan → Sql.evalSelX (SELECT aliases visible) on generated databases (JSON / broken / plain / pattern-matching lines) vs LogQL.evalScript (oracle on implementation output); also renderSel(dump) = real text; regexp group count = names")
	var ops, renderOps, implText []string
	var cases []map[string]any
	var keys []string
	for i := 0; i < n; i++ {
		query := c07xGenQuery(rng, 4)
		if i%3 != 0 {
			query = c07gQuery(rng, c07gGuided(c07gCfgX, cov)) // derived from the grammar (c07gram.go)
			r.Count("semx:from-grammar")
		}
		if i < 3*len(c07xCorpus) {
			query = c07xCorpus[i/3] // small fixed shapes first: a failure on one of them is the readable replay
			r.Count("semx:corpus")
		}
		c := genCtx(rng)
		if c.Limit > 100 {
			c.Limit = int64(rng.Range(1, 4))
		}
		im, err := c07xImplSQL(query, c)
		if err != nil {
			continue
		}
		ser, err := c07xSer(im.script)
		if err != nil {
			continue
		}
		v, parsers := c07xVocab(im.script)
		v.never = map[string]bool{}
		for _, nm := range c07gNeverStored {
			v.never[nm] = true
		}
		paths := c07xPathsOf(parsers)
		// the SQL-side patterns: names and stripped text, as the planner computes them
		type rxInfo struct {
			text  string
			names []string
			rx    *regexp.Regexp
		}
		var rxs []rxInfo
		var rxTexts []string
		bp, _ := lt.GetBreakpoint(im.script)
		skip := false
		for j, p := range im.script.StrSelector.Pipelines {
			if bp >= 0 && j >= bp {
				break
			}
			if p.Parser != nil && p.Parser.Fn == "regexp" {
				val, _ := p.Parser.ParserParams[0].Val.Unquote()
				names, text, ok := c07xParseRe(val)
				if !ok {
					skip = true
					break
				}
				rx, err := regexp.Compile(text)
				if err != nil {
					skip = true
					break
				}
				if rx.NumSubexp() != len(names) {
					r.Violate("C07/regexp-group-count", fmt.Sprintf("| regexp %q: %d names for %d capture groups of %q: arrayFilter over arrays of different sizes", val, len(names), rx.NumSubexp(), text),
						map[string]any{"stream": "semx", "query": query})
					skip = true
					break
				}
				rxs = append(rxs, rxInfo{text, names, rx})
				rxTexts = append(rxTexts, val)
			}
		}
		if skip {
			r.Count("semx:pattern-skipped")
			continue
		}
		db := c07xGenDB(rng, c, v, paths, rxTexts)
		if cov != nil {
			c07gObserve(im.script, bp, cov.add)
			c07gAtoms(im.script, bp, func(k string) { atoms[k]++ })
			atoms["truth:measured"]++
			c07gTruth(im.script, bp, db.docs, func(k string) { atoms["truth:"+k]++ })
		}
		// oracle tables of the new stages; what they extract joins the label values the other tables range over
		var jf, rc []string
		for line := range db.lines {
			for _, p := range paths {
				val := c07xJSONField(line, p.parts)
				jf = append(jf, hx(line)+":"+p.ser+":"+hx(val))
				db.values[val] = true
			}
			for _, x := range rxs {
				caps := c07xReCaps(x.rx, line)
				var hs []string
				for _, cp := range caps {
					hs = append(hs, hx(cp))
					db.values[cp] = true
				}
				if len(hs) == 0 {
					hs = []string{"~"}
				}
				rc = append(rc, hx(x.text)+":"+hx(line)+":"+strings.Join(hs, ","))
			}
		}
		sort.Strings(jf)
		sort.Strings(rc)
		jf, rc = c07xUniq(jf), c07xUniq(rc)
		dump := hx(sqldump.Dump(im.sel))
		ops = append(ops, fmt.Sprintf("c07semx %s %s %s %s %s %s %s %s %s", c.ser(), ser, joinOrDash(db.gin, ";"), joinOrDash(db.ts, ";"), joinOrDash(db.smp, ";"),
			db.oracleTables(v), joinOrDash(jf, ";"), joinOrDash(rc, ";"), dump))
		renderOps = append(renderOps, "sqlrenderx "+dump)
		implText = append(implText, hx(im.text))
		cases = append(cases, map[string]any{"query": query, "ctx": c, "gin": db.gin, "ts": db.ts, "samples": db.smp, "sql": im.text})
		keys = append(keys, c07xClassify(im.script))
		c07xStageKinds(r, "semx", im.script)
	}
	rendered, err := h.Model(renderOps)
	if err != nil {
		return err
	}
	ans, err := h.Model(ops)
	if err != nil {
		return err
	}
	for i := range ops {
		if rendered[i] != implText[i] {
			r.Disagree("semx-render", "sqlrenderx", implText[i], rendered[i], cases[i])
		}
		a := ans[i]
		var implRes, modelRes string
		var rows int
		if j := strings.Index(a, " model:"); j > 0 && strings.HasPrefix(a, "impl:") && strings.Contains(a, " rows:") {
			fmt.Sscanf(a[strings.LastIndex(a, "rows:"):], "rows:%d", &rows)
			implRes = a[5:j]
			modelRes = a[j+7 : strings.LastIndex(a, " rows:")]
		} else {
			return fmt.Errorf("c07semx answered %q for %s", truncS(a, 200), cases[i]["query"])
		}
		r.Case("semx:"+ops[i], rows > 0)
		if rows > 0 {
			r.Count("semx:nonempty-result")
		} else {
			r.Count("semx:empty-result")
		}
		if modelRes != "ok" {
			r.Disagree("semx-model", truncS(ops[i], 60), "spec", modelRes, cases[i])
		}
		if implRes != "ok" {
			r.Violate("C07/sql-meaning-x/"+keys[i],
				fmt.Sprintf("the SQL built for %s returns rows different from the query's meaning: %s", cases[i]["query"], truncS(implRes, 300)),
				map[string]any{"stream": "semx", "case": cases[i], "difference": implRes, "op": ops[i]})
		}
		if i%41 == 0 {
			r.Sample(map[string]any{"stream": "semx", "query": cases[i]["query"], "ctx": cases[i]["ctx"], "rows_expected": rows, "samples_in_db": len(cases[i]["samples"].([]string))})
		}
	}
	return nil
}

func c07xUniq(xs []string) []string {
	var res []string
	for i, x := range xs {
		if i == 0 || x != xs[i-1] {
			res = append(res, x)
		}
	}
	return res
}
