package main

// C07 ext: the SQL-side pipeline stages of a log query — `| json l="path"`, `| regexp "(?P<l>…)"`, `| drop`, filters after
// them — and the hand-over to the in-process engine (`| json`, `| logfmt`, `| line_format`).

import (
	"fmt"
	"os"
	"reflect"
	"strconv"
	"strings"

	"github.com/alecthomas/participle/v2"
	"github.com/alecthomas/participle/v2/lexer"
	"github.com/metrico/qryn/reader/logql/logql_parser"
	lt "github.com/metrico/qryn/reader/logql/logql_transpiler_v2"
	"github.com/metrico/qryn/reader/logql/logql_transpiler_v2/shared"
	sql "github.com/metrico/qryn/reader/utils/sql_select"
	"verif/harness/h"
)

// ---- generator

var c07xJSONKeys = []string{"a", "b", "level", "msg", "n", "app"}

func c07xGenJSONPath(r *h.Rng) string {
	var sb strings.Builder
	n := r.Range(1, 3)
	for i := 0; i < n; i++ {
		switch {
		case i == 0 && r.Chance(75), i > 0 && r.Chance(45):
			if i > 0 {
				sb.WriteString(".")
			}
			sb.WriteString(h.Pick(r, c07xJSONKeys))
		case r.Chance(40):
			sb.WriteString("[" + fmt.Sprint(r.Intn(3)) + "]")
		default:
			k := h.Pick(r, []string{"k y", "it's", "a\\b", "%", "a.b", "é", "", "x\"q", "0", "'", "1abc", "9", "0x1f", "7'", "a(b)", ")", "(", "\\'", "\\", "2\\", "x\ty"})
			if r.Chance(15) && !strings.Contains(k, "`") {
				sb.WriteString("[`" + k + "`]") // the raw-string form of a quoted field name
			} else {
				sb.WriteString("[" + strconv.Quote(k) + "]")
			}
		}
	}
	return sb.String()
}

func c07xGenRegexPiece(r *h.Rng, depth int) string {
	switch r.Intn(8) {
	case 0:
		return "\\d+"
	case 1:
		return "[a-z]+"
	case 2:
		return ".*"
	case 3:
		return h.Pick(r, []string{"=", " ", "x", "lvl", "a'b", ":", "\\.", ">"})
	case 4:
		if depth > 0 {
			return "(" + c07xGenRegexPiece(r, depth-1) + ")"
		}
		return "\\w+"
	case 5:
		if depth > 0 {
			return "(?P<" + h.Pick(r, []string{"x", "lvl", "a", "n1", "app"}) + ">" + c07xGenRegexPiece(r, depth-1) + c07xGenRegexPiece(r, depth-1) + ")"
		}
		return "[0-9]"
	default:
		return "(?P<" + h.Pick(r, []string{"x", "lvl", "a", "n1", "app", "level"}) + ">" + h.Pick(r, []string{"\\d+", "[a-z]+", "\\w+", ".", "[^ ]*"}) + ")"
	}
}

func c07xGenRegex(r *h.Rng) string {
	if r.Chance(8) {
		return h.Pick(r, []string{"abc", "\\d+", "(a)(b)"}) // no named group at all
	}
	var sb strings.Builder
	n := r.Range(1, 4)
	for i := 0; i < n; i++ {
		sb.WriteString(c07xGenRegexPiece(r, 2))
	}
	return sb.String()
}

func c07xGenChanger(r *h.Rng) string {
	switch r.Intn(3) {
	case 0:
		n := r.Range(1, 3)
		var ps []string
		for i := 0; i < n; i++ {
			lbl := h.Pick(r, []string{"x", "lvl", "a", "app", "level", "n1", "job"})
			ps = append(ps, lbl+"="+q(c07xGenJSONPath(r)))
		}
		return "| json " + strings.Join(ps, ", ")
	case 1:
		return "| regexp " + q(c07xGenRegex(r))
	default:
		n := r.Range(1, 3)
		var ps []string
		for i := 0; i < n; i++ {
			lbl := h.Pick(r, []string{"x", "lvl", "a", "app", "level", "job"})
			if r.Chance(35) {
				lbl += "=" + q(genStr(r))
			}
			ps = append(ps, lbl)
		}
		return "| drop " + strings.Join(ps, ", ")
	}
}

func c07xGenFilter(r *h.Rng) string {
	if r.Chance(45) {
		op := h.Pick(r, []string{"|=", "!=", "|~", "!~"})
		v := genStr(r)
		if op == "|~" || op == "!~" {
			v = genRegex(r)
		}
		return op + " " + q(v)
	}
	return "| " + genLabelCond(r, 1)
}

// c07xGenQuery: selector, 0–2 plain stages, then a mix of label-rewriting stages and filters; sometimes a stage only the
// in-process engine has, followed by anything
func c07xGenQuery(r *h.Rng, maxStages int) string {
	var sb strings.Builder
	sb.WriteString("{")
	n := r.Range(1, 2)
	for i := 0; i < n; i++ {
		if i > 0 {
			sb.WriteString(", ")
		}
		op := h.Pick(r, []string{"=", "=", "=", "!=", "=~"})
		v := r.Ident(4)
		if op == "=~" {
			v = genRegex(r)
		}
		sb.WriteString(h.Pick(r, lblNames) + op + q(v))
	}
	sb.WriteString("}")
	for i := r.Intn(3); i > 0; i-- {
		sb.WriteString(" " + c07xGenFilter(r))
	}
	m := r.Range(1, maxStages)
	for i := 0; i < m; i++ {
		if r.Chance(55) {
			sb.WriteString(" " + c07xGenChanger(r))
		} else {
			sb.WriteString(" " + c07xGenFilter(r))
		}
	}
	if r.Chance(15) {
		sb.WriteString(" " + h.Pick(r, []string{"| json", "| logfmt", "| line_format \"{{.a}}\""}))
		for i := r.Intn(3); i > 0; i-- {
			if r.Chance(50) {
				sb.WriteString(" " + c07xGenChanger(r))
			} else {
				sb.WriteString(" " + c07xGenFilter(r))
			}
		}
	}
	return sb.String()
}

// ---- the pattern parser of planner_parser_regexp.go (its types are unexported): the same lexer rules and grammar,
// so that the group names and the pattern without `?P<name>` can be given to the model as the environment's answer;
// the text tie then compares what the real planner rendered with what the model renders from this answer.

var c07xRegexLexer = lexer.MustSimple([]lexer.SimpleRule{
	{"OBrackQ", "\\(\\?P<"},
	{"OBrack", "\\("},
	{"CBrack", "\\)"},
	{"CCBrack", ">"},
	{"Ident", "[a-zA-Z_][0-9a-zA-Z_]*"},
	{"Char", `\\.|.`},
})

type c07xRegexAST struct {
	RegexPart []c07xRegexPart `@@+`
}
type c07xRegexPart struct {
	SimplePart     string         `@(Char|CCBrack|Ident)+`
	NamedBrackPart *c07xBrackPart `| OBrackQ @@ CBrack`
	BrackPart      *c07xRegexAST  `| OBrack @@ CBrack`
}
type c07xBrackPart struct {
	Name string        `@Ident CCBrack`
	Tail *c07xRegexAST `@@?`
}

func (a *c07xRegexAST) text() string {
	var sb strings.Builder
	for i := range a.RegexPart {
		p := &a.RegexPart[i]
		switch {
		case p.SimplePart != "":
			sb.WriteString(p.SimplePart)
		case p.NamedBrackPart != nil:
			sb.WriteString("(" + p.NamedBrackPart.Tail.text() + ")")
		default:
			sb.WriteString("(" + p.BrackPart.text() + ")")
		}
	}
	return sb.String()
}
func (a *c07xRegexAST) names(init []string) []string {
	for i := range a.RegexPart {
		p := &a.RegexPart[i]
		if p.NamedBrackPart != nil {
			init = append(init, p.NamedBrackPart.Name)
			init = p.NamedBrackPart.Tail.names(init)
		} else if p.BrackPart != nil {
			init = append(init, "")
			init = p.BrackPart.names(init)
		}
	}
	return init
}

var c07xRegexParser = participle.MustBuild[c07xRegexAST](participle.Lexer(c07xRegexLexer))

// c07xParseRe: group names in order and the pattern ClickHouse is given; ok=false when the planner would not get that far
func c07xParseRe(re string) (names []string, text string, ok bool) {
	defer func() {
		if recover() != nil { // `(?P<x>)`: the real code dereferences a nil Tail
			ok = false
		}
	}()
	ast, err := c07xRegexParser.ParseString("", re)
	if err != nil {
		return nil, "", false
	}
	return ast.names(nil), ast.text(), true
}

// ---- serialisation of the REAL parsed AST for the model

func c07xSerJSONParams(p *logql_parser.Parser) (string, error) {
	var ps []string
	for _, pp := range p.ParserParams {
		label := ""
		if pp.Label != nil {
			label = pp.Label.Name
		}
		val, err := pp.Val.Unquote()
		if err != nil {
			return "", err
		}
		names, err := shared.JsonPathParamToArray(val)
		if err != nil {
			return "", err
		}
		typed, err := shared.JsonPathParamToTypedArray(val)
		if err != nil {
			return "", err
		}
		var parts []string
		for j, name := range names {
			if idx, isIdx := typed[j].(int); isIdx {
				parts = append(parts, fmt.Sprintf("i%d", idx+1))
			} else {
				parts = append(parts, "k"+hx(name))
			}
		}
		ps = append(ps, hx(label)+"="+joinOrDash(parts, "/"))
	}
	return strings.Join(ps, ","), nil
}

// c07xSerStage: one pipeline element; "I:<tag>" for the stages only the in-process engine has
func c07xSerStage(p *logql_parser.StrSelectorPipeline) (string, error) {
	switch {
	case p.LineFilter != nil, p.LabelFilter != nil:
		one := &logql_parser.LogQLScript{StrSelector: &logql_parser.StrSelector{
			StrSelCmds: []logql_parser.StrSelCmd{{Label: logql_parser.LabelName{Name: "a"}, Op: "=", Val: logql_parser.QuotedString{Str: `"b"`}}},
			Pipelines:  []logql_parser.StrSelectorPipeline{*p}}}
		s, err := serLogQuery(one)
		if err != nil {
			return "", err
		}
		return s[strings.LastIndex(s, " ")+1:], nil
	case p.Parser != nil && p.Parser.Fn == "json" && len(p.Parser.ParserParams) == 0:
		return "I:json", nil
	case p.Parser != nil && p.Parser.Fn == "logfmt":
		return "I:logfmt", nil
	case p.LineFormat != nil:
		return "I:line_format", nil
	case p.Parser != nil && p.Parser.Fn == "json":
		s, err := c07xSerJSONParams(p.Parser)
		if err != nil {
			return "", err
		}
		return "J:" + s, nil
	case p.Parser != nil && p.Parser.Fn == "regexp":
		if len(p.Parser.ParserParams) == 0 {
			return "", fmt.Errorf("regexp without a pattern")
		}
		val, err := p.Parser.ParserParams[0].Val.Unquote()
		if err != nil {
			return "", err
		}
		names, text, ok := c07xParseRe(val)
		if !ok {
			return "", fmt.Errorf("pattern not accepted by the planner's pattern parser")
		}
		var ns []string
		for _, n := range names {
			ns = append(ns, hx(n))
		}
		nl := "~"
		if len(ns) > 0 {
			nl = strings.Join(ns, ",")
		}
		return "R:" + nl + ":" + hx(text), nil
	case p.Drop != nil:
		if len(p.Drop.Params) == 0 {
			return "", fmt.Errorf("drop without labels")
		}
		var ps []string
		for _, dp := range p.Drop.Params {
			v := ""
			if dp.Val != nil {
				var err error
				v, err = dp.Val.Unquote()
				if err != nil {
					return "", err
				}
			}
			ps = append(ps, hx(dp.Label.Name)+"="+hx(v))
		}
		return "D:" + strings.Join(ps, ","), nil
	}
	return "", fmt.Errorf("stage outside the fragment")
}

// c07xSer: "<matchers> <stages>"; everything after the first in-process-only stage is irrelevant to ClickHouse and goes as I:rest
func c07xSer(s *logql_parser.LogQLScript) (string, error) {
	if s.StrSelector == nil {
		return "", fmt.Errorf("not a log query")
	}
	var ms, st []string
	for _, c := range s.StrSelector.StrSelCmds {
		v, err := c.Val.Unquote()
		if err != nil {
			return "", err
		}
		ms = append(ms, hx(c.Label.Name)+":"+matchOps[c.Op]+":"+hx(v))
	}
	broken := false
	for i := range s.StrSelector.Pipelines {
		if broken {
			st = append(st, "I:rest")
			continue
		}
		x, err := c07xSerStage(&s.StrSelector.Pipelines[i])
		if err != nil {
			return "", err
		}
		st = append(st, x)
		broken = strings.HasPrefix(x, "I:")
	}
	if len(ms) == 0 {
		return "", fmt.Errorf("no matchers")
	}
	return strings.Join(ms, ";") + " " + joinOrDash(st, ";"), nil
}

// ---- the real path: logql_transpiler_v2.Plan (GetBreakpoint, breakScript, clickhouse_planner.Plan) → the ClickHouse
// request planner at the bottom of the processor chain → Process → String

func c07xFindGetter(p any) *shared.ClickhouseGetterPlanner {
	for depth := 0; depth < 64 && p != nil; depth++ {
		if g, ok := p.(*shared.ClickhouseGetterPlanner); ok {
			return g
		}
		v := reflect.ValueOf(p)
		for v.Kind() == reflect.Ptr || v.Kind() == reflect.Interface {
			if v.IsNil() {
				return nil
			}
			v = v.Elem()
		}
		if v.Kind() != reflect.Struct {
			return nil
		}
		f := v.FieldByName("Main")
		if !f.IsValid() || !f.CanInterface() {
			return nil
		}
		p = f.Interface()
	}
	return nil
}

type c07xImpl struct {
	sel    sql.ISelect
	text   string
	script *logql_parser.LogQLScript // a fresh parse (Plan cuts the one it is given)
}

func c07xImplSQL(query string, c qctx) (*c07xImpl, error) {
	script, err := logql_parser.Parse(query)
	if err != nil {
		return nil, fmt.Errorf("parse: %w", err)
	}
	fresh, _ := logql_parser.Parse(query)
	res := &c07xImpl{script: fresh}
	var perr error
	func() {
		defer func() {
			if e := recover(); e != nil {
				perr = fmt.Errorf("panic: %v", e)
			}
		}()
		chain, err := lt.Plan(script)
		if err != nil {
			perr = fmt.Errorf("plan: %w", err)
			return
		}
		if len(chain) != 1 {
			perr = fmt.Errorf("plan: chain of %d", len(chain))
			return
		}
		g := c07xFindGetter(chain[0])
		if g == nil {
			perr = fmt.Errorf("plan: no ClickHouse getter in the chain")
			return
		}
		sel, err := g.ClickhouseRequestPlanner.Process(c.planner())
		if err != nil {
			perr = fmt.Errorf("process: %w", err)
			return
		}
		res.sel = sel
		res.text, err = sel.String(sql.DefaultCtx())
		if err != nil {
			perr = fmt.Errorf("string: %w", err)
		}
	}()
	return res, perr
}

func c07xStageKinds(r *h.Result, stream string, s *logql_parser.LogQLScript) {
	for _, p := range s.StrSelector.Pipelines {
		switch {
		case p.LineFilter != nil:
			r.Count(stream + ":stage:line")
		case p.LabelFilter != nil:
			r.Count(stream + ":stage:label-filter")
		case p.Parser != nil && len(p.Parser.ParserParams) > 0 && p.Parser.Fn == "json":
			r.Count(stream + ":stage:json-params")
		case p.Parser != nil && p.Parser.Fn == "regexp":
			r.Count(stream + ":stage:regexp")
		case p.Drop != nil:
			r.Count(stream + ":stage:drop")
		default:
			r.Count(stream + ":stage:in-process-only")
		}
	}
}

// c07TextX: byte-equal SQL between the real path and LogQL.planScript
func c07TextX(r *h.Result, rng *h.Rng, n int) error {
	r.Stream("textx: logql_parser.Parse → logql_transpiler_v2.Plan (GetBreakpoint, breakScript, clickhouse_planner.Plan) → the ClickHouse request planner of the chain → Process → String vs LogQL.planScript/Sql.renderSel (byte-equal SQL; json with parameters, regexp, drop, filters after them, hand-over)")
	var ops, impl []string
	var cases []any
	for i := 0; i < n; i++ {
		query := c07xGenQuery(rng, 5)
		c := genCtx(rng)
		im, err := c07xImplSQL(query, c)
		if err != nil {
			r.Count("textx:impl-error")
			cls := err.Error()
			if j := strings.Index(cls, ":"); j > 0 {
				cls = cls[:j]
			}
			r.Count("textx:impl-error:" + cls)
			if os.Getenv("C07X_DEBUG") != "" {
				fmt.Fprintln(os.Stderr, "impl-error:", query, "=>", err)
			}
			if rng.Chance(30) {
				r.Sample(map[string]string{"stream": "textx", "query": query, "error": err.Error()})
			}
			continue
		}
		ser, err := c07xSer(im.script)
		if err != nil {
			r.Count("textx:outside-fragment")
			continue
		}
		ops = append(ops, "c07planx "+c.ser()+" "+ser)
		impl = append(impl, h.Hex([]byte(im.text)))
		cases = append(cases, map[string]any{"query": query, "ctx": c})
		r.Case("textx:"+query+fmt.Sprint(c), true)
		c07xStageKinds(r, "textx", im.script)
		if bp, _ := lt.GetBreakpoint(im.script); bp >= 0 {
			r.Count("textx:handed-over")
		}
		if i%67 == 0 {
			r.Sample(map[string]any{"stream": "textx", "query": query, "ctx": c, "sql": im.text})
		}
	}
	return r.Compare("textx", ops, impl, cases)
}
