package main

import (
	"database/sql/driver"
	"encoding/json"
	"fmt"
	"sort"
	"strconv"
	"strings"
	"time"

	"github.com/metrico/qryn/reader/model"
	"github.com/prometheus/prometheus/model/labels"
	"github.com/prometheus/prometheus/storage"
	fakes "verif/harness/fakes17"
	"verif/harness/h"
)

// ---------------------------------------------------------------------------------------------------
// Stream 7: stepped and down-sampled sample queries, end to end. The real Select is called with select hints
// the way promql.Engine builds them for a range query (Step ≠ 0, Func, Range); it routes to
// TranspileLabelMatchers+processHints (raw samples: per-step argMax buckets for instant-vector functions, the
// range filter for range-vector functions with Step > Range) or to TranspileLabelMatchersDownsample
// (metrics_15s). The emitted SQL is executed by the reference interpreter over a generated database
// (samples_v3 and the metrics_15s rows its materialized view derives from them), the rows go back through the
// scripted driver into the real row loop. Compared with the Lean model (`c17step`, `c17down`) and judged by
// oracles written against the stored samples.

type c17StepCase struct {
	Stream   string          `json:"stream"`
	Start    int64           `json:"start"`
	End      int64           `json:"end"`
	Step     int64           `json:"step"`
	Range    int64           `json:"range"`
	Func     string          `json:"func"`
	Series   []c17E2ESeries  `json:"series"`
	Matchers []c17E2EMatcher `json:"matchers"`
	Got      string          `json:"got,omitempty"`
	Want     string          `json:"want,omitempty"`
}

// the two function tables of processHints / DownsampleHintsPlanner and supportedFunctions of promQueryable.go, as
// the oracle reads them (the Lean model takes them from Gen.PromStep, regenerated from the source)
var c17InstantFuncs = map[string]bool{
	"abs": true, "absent": true, "ceil": true, "exp": true, "floor": true, "ln": true, "log2": true, "log10": true,
	"round": true, "scalar": true, "sgn": true, "sort": true, "sqrt": true, "atan": true, "cos": true,
	"cosh": true, "sin": true, "sinh": true, "tan": true, "tanh": true, "deg": true, "rad": true,
}
var c17RangeFuncs = map[string]bool{
	"absent_over_time": true, "deriv": true, "idelta": true, "irate": true, "rate": true, "resets": true,
	"min_over_time": true, "max_over_time": true, "sum_over_time": true, "count_over_time": true,
	"stddev_over_time": true, "stdvar_over_time": true, "last_over_time": true, "present_over_time": true,
	"delta": true, "increase": true, "avg_over_time": true,
}
var c17Supported = map[string]bool{
	"avg_over_time": true, "min_over_time": true, "max_over_time": true, "sum_over_time": true, "count_over_time": true,
	"quantile_over_time": false, "stddev_over_time": false, "stdvar_over_time": false, "last_over_time": true,
	"present_over_time": true, "absent_over_time": true,
	"": true, "abs": true, "absent": true, "ceil": true, "exp": true, "floor": true, "ln": true, "log2": true, "log10": true,
	"round": true, "scalar": true, "sgn": true, "sort": true, "sqrt": true, "timestamp": true, "atan": true, "cos": true,
	"cosh": true, "sin": true, "sinh": true, "tan": true, "tanh": true, "deg": true, "rad": true,
	"sum": true, "min": true, "max": true, "group": true, "avg": true,
}

// c17UsesRaw mirrors CLokiQuerier.transpileLabelMatchers (used for classification and bucket counting only)
func c17UsesRaw(c *c17StepCase) bool {
	sup, ok := c17Supported[c.Func]
	return c.Start%15000 != 0 || c.Step < 15000 || (c.Range > 0 && c.Range < 15000) || !(sup || !ok)
}

func c17StepMode(c *c17StepCase) string {
	if !c17UsesRaw(c) {
		return "downsample"
	}
	switch {
	case c.Step == 0:
		return "raw"
	case (c17InstantFuncs[c.Func] || c.Func == "") && c.Range == 0 && 300000%c.Step == 0:
		// an instant selector and a step that divides the engine's lookback delta: every evaluation time is a bucket end
		return "bucket"
	case c17RangeFuncs[c.Func] && c.Range > 0 && c.Step > c.Range:
		return "rangefilter"
	}
	return "raw"
}

type c17Agg struct {
	b             int64 // bucket start, ms
	lastV         float64
	lastTs        int64
	min, max, sum float64
	count         int64
}

// c17Rows15 = what the materialized view metrics_15s_mv derives from the stored samples of one series
func c17Rows15(s c17E2ESeries) []c17Agg {
	by := map[int64]*c17Agg{}
	var order []int64
	for _, x := range s.Samples {
		b := x[0] / 15000 * 15000
		v := float64(x[1])
		a, ok := by[b]
		if !ok {
			a = &c17Agg{b: b, lastV: v, lastTs: x[0], min: v, max: v}
			by[b] = a
			order = append(order, b)
		}
		if x[0] > a.lastTs {
			a.lastTs, a.lastV = x[0], v
		}
		if v < a.min {
			a.min = v
		}
		if v > a.max {
			a.max = v
		}
		a.sum += v
		a.count++
	}
	sort.Slice(order, func(i, j int) bool { return order[i] < order[j] })
	res := make([]c17Agg, len(order))
	for i, b := range order {
		res[i] = *by[b]
	}
	return res
}

func c17BuildStepDB(c *c17StepCase) *fakes.DB {
	db := c17BuildDB(&c17E2ECase{Series: c.Series})
	db.Tables["metrics_15s"] = []fakes.Row{}
	for _, s := range c.Series {
		for _, a := range c17Rows15(s) {
			db.Tables["metrics_15s"] = append(db.Tables["metrics_15s"], fakes.Row{
				"fingerprint": fakes.Uint(s.Fp), "timestamp_ns": fakes.Int(a.b * 1000000), "type": fakes.Int(int64(s.Type)),
				"last": fakes.RawValue(fakes.ArgMaxState{Val: a.lastV, Ts: a.lastTs * 1000000}),
				"min":  fakes.Float(a.min), "max": fakes.Float(a.max), "sum": fakes.Float(a.sum), "count": fakes.Int(a.count)})
		}
	}
	return db
}

func c17FloorDiv(a, b int64) int64 {
	q := a / b
	if a%b != 0 && (a < 0) != (b < 0) {
		q--
	}
	return q
}

// c17StepWant: the samples the series should come back with, read off the stored samples (nil = series not returned)
func c17StepWant(c *c17StepCase, s c17E2ESeries) []model.Sample { return c17StepWantOpt(c, s, false) }

// firstExcl: the down-sampled scan as it was written (timestamp_ns > from) — used to classify a difference only
func c17StepWantOpt(c *c17StepCase, s c17E2ESeries, firstExcl bool) []model.Sample {
	sm := append([][2]int64(nil), s.Samples...)
	sort.SliceStable(sm, func(i, j int) bool { return sm[i][0] < sm[j][0] })
	var res []model.Sample
	switch c17StepMode(c) {
	case "raw", "rangefilter":
		for _, x := range sm {
			if x[0] < c.Start || x[0] > c.End {
				continue
			}
			if c17StepMode(c) == "rangefilter" {
				// the windows the engine evaluates are [Start + i·Step, Start + i·Step + Range]
				if (x[0]-c.Start)%c.Step > c.Range {
					continue
				}
			}
			res = append(res, model.Sample{TimestampMs: x[0], Value: float64(x[1])})
		}
	case "bucket":
		// bucket k = (Start + (k−1)·Step, Start + k·Step]: its last sample, with its own time
		last := int64(0)
		for _, x := range sm {
			if x[0] < c.Start || x[0] > c.End {
				continue
			}
			be := (x[0]-c.Start+c.Step-1)/c.Step*c.Step + c.Start
			if n := len(res); n > 0 && last == be {
				res[n-1] = model.Sample{TimestampMs: x[0], Value: float64(x[1])}
			} else {
				res = append(res, model.Sample{TimestampMs: x[0], Value: float64(x[1])})
			}
			last = be
		}
	case "downsample":
		filtered := c17RangeFuncs[c.Func] && c.Step > c.Range
		type grp struct {
			t    int64
			rows []c17Agg
		}
		var groups []grp
		for _, a := range c17Rows15(s) {
			if a.b < c.Start || a.b > c.End || (firstExcl && a.b == c.Start) { // inclusive window, like the raw scan
				continue
			}
			t := c17FloorDiv(a.b, c.Step)*c.Step - 1
			if filtered {
				if !(a.b%c.Step == 0 || a.b%c.Step > c.Step-c.Range) {
					continue
				}
				t = c17FloorDiv(a.b+c.Range, c.Step)*c.Step - 1
			}
			if n := len(groups); n > 0 && groups[n-1].t == t {
				groups[n-1].rows = append(groups[n-1].rows, a)
			} else {
				groups = append(groups, grp{t, []c17Agg{a}})
			}
		}
		for _, g := range groups {
			var v float64
			last := g.rows[0]
			mn, mx, sum, cnt := g.rows[0].min, g.rows[0].max, 0.0, int64(0)
			for _, a := range g.rows {
				if a.lastTs > last.lastTs {
					last = a
				}
				if a.min < mn {
					mn = a.min
				}
				if a.max > mx {
					mx = a.max
				}
				sum += a.sum
				cnt += a.count
			}
			switch c.Func {
			case "absent_over_time", "present_over_time":
				v = 1
			case "min_over_time":
				v = mn
			case "max_over_time":
				v = mx
			case "sum_over_time":
				v = sum
			case "count_over_time":
				v = float64(cnt)
			case "avg_over_time":
				v = sum / float64(cnt)
			default:
				v = last.lastV
			}
			if c.Func == "count_over_time" { // MapResult: one sample of value 1 per counted sample
				for i := int64(0); i < cnt; i++ {
					res = append(res, model.Sample{TimestampMs: g.t, Value: 1})
				}
				continue
			}
			res = append(res, model.Sample{TimestampMs: g.t, Value: v})
		}
	}
	return res
}

func c17StepSamplesStr(ss []model.Sample) string {
	p := make([]string, len(ss))
	for i, x := range ss {
		p[i] = strconv.FormatInt(x.TimestampMs, 10) + ":" + strconv.FormatFloat(x.Value, 'g', -1, 64)
	}
	return strings.Join(p, "|")
}

func c17StepResponder(db *fakes.DB, execErr *error, seen *[]string) func(qs string) ([]string, [][]driver.Value, error) {
	return func(qs string) ([]string, [][]driver.Value, error) {
		if strings.Contains(qs, "FROM settings") || strings.HasPrefix(strings.TrimSpace(qs), "SHOW TABLES") {
			return []string{"a", "b"}, nil, nil
		}
		if seen != nil {
			*seen = append(*seen, qs)
		}
		cols, rows, err := db.Exec(qs)
		if err != nil {
			*execErr = fmt.Errorf("%v in: %s", err, qs)
			return nil, nil, err
		}
		return cols, fakes.DriverRows(rows), nil
	}
}

func c17StepMatchers(c *c17StepCase) ([]*labels.Matcher, error) {
	var ms []*labels.Matcher
	for _, m := range c.Matchers {
		lm, err := labels.NewMatcher(c17MatchType(m.Type), m.Name, m.Value)
		if err != nil {
			return nil, fmt.Errorf("generator made an invalid matcher: %v", err)
		}
		ms = append(ms, lm)
	}
	return ms, nil
}

// c17RunStep runs one case; returns the model ops and the implementation's answers for the differential tie.
func c17RunStep(r *h.Result, sc *fakes.Script, q storage.Querier, c *c17StepCase) (ops, impl []string, err error) {
	db := c17BuildStepDB(c)
	var execErr error
	var seen []string
	sc.SetResponder(c17StepResponder(db, &execErr, &seen))
	ms, err := c17StepMatchers(c)
	if err != nil {
		return nil, nil, err
	}
	hints := &storage.SelectHints{Start: c.Start, End: c.End, Step: c.Step, Range: c.Range, Func: c.Func}
	got, err := c17Drain(q.Select(false, hints, ms...))
	if execErr != nil {
		return nil, nil, fmt.Errorf("reference interpreter: %v", execErr)
	}
	if err != nil {
		return nil, nil, fmt.Errorf("Select: %v", err)
	}
	mode := c17StepMode(c)
	c.Got, c.Want = "", ""
	byFp := map[uint64]c17E2ESeries{}
	for _, s := range c.Series {
		byFp[s.Fp] = s
	}
	gotBy := map[uint64]c17Series{}
	for _, g := range got {
		if _, dup := gotBy[g.Fp]; dup {
			r.Violate("C17/select-series-twice", fmt.Sprintf("series %d is handed out twice", g.Fp), *c)
		}
		gotBy[g.Fp] = g
		s, ok := byFp[g.Fp]
		if !ok {
			r.Violate("C17/select-series-extra", fmt.Sprintf("series %d is not stored", g.Fp), *c)
			continue
		}
		var ls labels.Labels
		for _, kv := range s.Labels {
			ls = append(ls, labels.Label{Name: kv[0], Value: kv[1]})
		}
		sort.Sort(ls)
		if !labels.Equal(g.Labels, ls) {
			r.Violate("C17/select-foreign-labels", fmt.Sprintf("series %d carries %v, stored %v", g.Fp, g.Labels, ls), *c)
		}
		// G1: a returned series satisfies every matcher (Prometheus' own reading) and has an admitted type
		all := true
		for _, m := range ms {
			if !m.Matches(ls.Get(m.Name)) {
				all = false
			}
		}
		switch {
		case s.Type != 2 && s.Type != 0:
			r.Violate("C17/select-foreign-type", fmt.Sprintf("series %v of type %d is selected", ls, s.Type), *c)
		case !all && c17IdxSel(s, ms, false) && !c17IdxSel(s, ms, true):
			r.Violate("C17/select-regex-not-anchored", fmt.Sprintf("[%s] series %v is selected although a regular-expression matcher does not match its whole label value", mode, ls), *c)
		case !all:
			r.Violate("C17/select-series-extra", fmt.Sprintf("[%s] series %v does not satisfy the matchers but is selected", mode, ls), *c)
		}
		// G2: time order; every sample comes from a stored sample of this series inside [Start, End]
		for i := 1; i < len(g.Samples); i++ {
			if g.Samples[i].TimestampMs < g.Samples[i-1].TimestampMs || (g.Samples[i].TimestampMs == g.Samples[i-1].TimestampMs && !(mode == "downsample" && c.Func == "count_over_time")) {
				r.Violate("C17/step-samples-not-ascending", fmt.Sprintf("[%s] series %v: %s", mode, ls, c17StepSamplesStr(g.Samples)), *c)
				break
			}
		}
		if mode == "bucket" || mode == "rangefilter" || mode == "raw" {
			for _, x := range g.Samples {
				found := false
				for _, st := range s.Samples {
					if st[0] < c.Start || st[0] > c.End || float64(st[1]) != x.Value {
						continue
					}
					if st[0] == x.TimestampMs { // with its own time, also on the per-step aggregation
						found = true
					}
				}
				if !found {
					r.Violate("C17/step-sample-not-stored", fmt.Sprintf("[%s] series %v: returned sample %d:%v is not a stored in-window sample of this series (time and value)", mode, ls, x.TimestampMs, x.Value), *c)
				}
			}
		}
	}
	// the series that must come back, with their samples
	var wantParts, gotParts []string
	for _, s := range c.Series {
		if s.Type != 2 && s.Type != 0 {
			continue
		}
		var ls labels.Labels
		for _, kv := range s.Labels {
			ls = append(ls, labels.Label{Name: kv[0], Value: kv[1]})
		}
		sort.Sort(ls)
		all := true
		absent := false
		for _, m := range ms {
			if !m.Matches(ls.Get(m.Name)) {
				all = false
			}
			if ls.Get(m.Name) == "" && !ls.Has(m.Name) {
				absent = true
			}
		}
		if !all {
			continue
		}
		want := c17StepWant(c, s)
		if len(want) == 0 {
			if g, ok := gotBy[s.Fp]; ok && len(g.Samples) > 0 {
				r.Violate("C17/step-samples-differ", fmt.Sprintf("[%s] series %v: got %s, expected none", mode, ls, c17StepSamplesStr(g.Samples)), *c)
			}
			continue
		}
		wantParts = append(wantParts, fmt.Sprintf("%d=%s", s.Fp, c17StepSamplesStr(want)))
		g, ok := gotBy[s.Fp]
		if !ok {
			switch {
			case absent && !c17IdxSel(s, ms, true):
				r.Violate("C17/select-matcher-on-absent-label", fmt.Sprintf("[%s] series %v satisfies every matcher (a matcher accepts the empty value of a label the series does not have) but is not selected", mode, ls), *c)
			case c17IdxSel(s, ms, true) && !c17IdxSel(s, ms, false):
				r.Violate("C17/select-regex-not-anchored", fmt.Sprintf("[%s] series %v satisfies every matcher but is not selected: a regular-expression matcher is applied as a search, not to the whole label value", mode, ls), *c)
			case mode == "rangefilter":
				r.Violate("C17/rangefilter-drops-needed-sample", fmt.Sprintf("[func=%q start=%d end=%d step=%d range=%d] series %v: the engine evaluates the windows [start+i·step, start+i·step+range]; every sample of them (%s) is filtered out", c.Func, c.Start, c.End, c.Step, c.Range, ls, c17StepSamplesStr(want)), *c)
			case mode == "downsample" && c17OnlyFirstBucket(c, s):
				r.Violate("C17/downsample-first-bucket-excluded", fmt.Sprintf("series %v has samples only in the first 15 s bucket of the window [start=%d, start+15s) and is not returned", ls, c.Start), *c)
			default:
				r.Violate("C17/select-series-missing", fmt.Sprintf("[%s] series %v satisfies every matcher and has samples in the window but is not selected", mode, ls), *c)
			}
			continue
		}
		gotParts = append(gotParts, fmt.Sprintf("%d=%s", s.Fp, c17StepSamplesStr(g.Samples)))
		if c17StepSamplesStr(g.Samples) != c17StepSamplesStr(want) {
			key := "C17/step-samples-differ"
			if mode == "downsample" {
				// is the difference the first bucket (timestamp_ns > from)?
				if c17StepSamplesStr(c17StepWantOpt(c, s, true)) == c17StepSamplesStr(g.Samples) {
					key = "C17/downsample-first-bucket-excluded"
				}
			}
			if mode == "rangefilter" {
				// a sample of an evaluation window [Start+i·Step, Start+i·Step+Range] that did not come back
				have := map[int64]bool{}
				for _, x := range g.Samples {
					have[x.TimestampMs] = true
				}
				for _, x := range want {
					if !have[x.TimestampMs] {
						key = "C17/rangefilter-drops-needed-sample"
					}
				}
			}
			c.Got, c.Want = c17StepSamplesStr(g.Samples), c17StepSamplesStr(want)
			r.Violate(key, fmt.Sprintf("[%s func=%q start=%d end=%d step=%d range=%d] series %v: got %s, the stored samples give %s", mode, c.Func, c.Start, c.End, c.Step, c.Range, ls, c.Got, c.Want), *c)
		}
	}
	// text tie: the whole sample query = WITH fp_sel (Prom.FpQuery.render) [, spls] raw scan (Prom.renderScan)
	// [range filter (Stepped.renderFilter)] [outer per-step aggregation (Stepped.renderBucket)]
	if mode != "downsample" {
		o, im, err := c17StepText(c, seen)
		if err != nil {
			return nil, nil, err
		}
		ops = append(ops, o...)
		impl = append(impl, im...)
	}
	if mode == "downsample" {
		o, im, err := c17DownTie(c, seen, ms, got)
		if err != nil {
			return nil, nil, err
		}
		ops = append(ops, o...)
		impl = append(impl, im...)
	}
	// differential tie with the Lean model: the rows of the raw scan (selected series, window) → model → series
	if mode != "downsample" {
		var rows []string
		sel := append([]c17E2ESeries(nil), c.Series...)
		sort.Slice(sel, func(i, j int) bool { return sel[i].Fp < sel[j].Fp })
		for _, s := range sel {
			if _, ok := gotBy[s.Fp]; !ok {
				continue
			}
			sm := append([][2]int64(nil), s.Samples...)
			sort.SliceStable(sm, func(i, j int) bool { return sm[i][0] < sm[j][0] })
			for _, x := range sm {
				if x[0] >= c.Start && x[0] <= c.End {
					rows = append(rows, fmt.Sprintf("%d:%d:%d", s.Fp, x[1], x[0]))
				}
			}
		}
		rs := "-"
		if len(rows) > 0 {
			rs = strings.Join(rows, ",")
		}
		fn := c.Func
		if fn == "" {
			fn = "-"
		}
		ops = append(ops, fmt.Sprintf("c17step %d %d %d %d %s %s", c.Start, c.End, c.Step, c.Range, fn, rs))
		var parts []string
		gs := append([]c17Series(nil), got...)
		sort.Slice(gs, func(i, j int) bool { return gs[i].Fp < gs[j].Fp })
		for _, g := range gs {
			p := make([]string, len(g.Samples))
			for i, x := range g.Samples {
				p[i] = fmt.Sprintf("%d:%d", x.TimestampMs, int64(x.Value))
			}
			parts = append(parts, fmt.Sprintf("%d=%s", g.Fp, strings.Join(p, "|")))
		}
		im := "-"
		if len(parts) > 0 {
			im = strings.Join(parts, ";")
		}
		impl = append(impl, im)
	}
	return ops, impl, nil
}

// c17Balanced returns the text inside the parenthesis opening at q[open] (string literals respected) and the rest.
func c17Balanced(q string, open int) (string, string, error) {
	depth := 0
	for k := open; k < len(q); k++ {
		switch q[k] {
		case '\'':
			for k++; k < len(q) && q[k] != '\''; k++ {
				if q[k] == '\\' {
					k++
				}
			}
		case '(':
			depth++
		case ')':
			depth--
			if depth == 0 {
				return q[open+1 : k], q[k+1:], nil
			}
		}
	}
	return "", "", fmt.Errorf("unbalanced parenthesis")
}

// c17StepText splits the sample query the real Select sent into its parts and asks the model for each of them.
func c17StepText(c *c17StepCase, seen []string) (ops, impl []string, err error) {
	text := ""
	for _, q := range seen {
		if strings.Contains(q, "samples_v3") {
			text = q
		}
	}
	if text == "" {
		return nil, nil, fmt.Errorf("no sample query seen")
	}
	const pre = "WITH fp_sel as ("
	if !strings.HasPrefix(text, pre) {
		return nil, nil, fmt.Errorf("sample query does not start with %q: %s", pre, text)
	}
	fp, rest, err := c17Balanced(text, len(pre)-1)
	if err != nil {
		return nil, nil, err
	}
	raw, outer := "", "-"
	if strings.HasPrefix(rest, ",spls as (") {
		var rest2 string
		raw, rest2, err = c17Balanced(rest, len(",spls as (")-1)
		if err != nil {
			return nil, nil, err
		}
		outer = h.Hex([]byte(c17Collapse(rest2)))
	} else {
		raw = rest
	}
	raw = c17Collapse(raw)
	const head = "SELECT samples.fingerprint as fingerprint, samples.value as value, intDiv(samples.timestamp_ns, 1000000) as timestamp_ms FROM samples_v3 as samples WHERE "
	const mid = " and (type IN (2,0)) and (samples.fingerprint IN (fp_sel))"
	const tail = " ORDER BY fingerprint asc, samples.timestamp_ns asc"
	scan, filter := "shape-not-recognised:"+raw, "-"
	if i := strings.Index(raw, mid); strings.HasPrefix(raw, head) && strings.HasSuffix(raw, tail) && i >= 0 {
		scan = h.Hex([]byte(raw[len(head):i]))
		if f := raw[i+len(mid) : len(raw)-len(tail)]; f != "" {
			filter = "shape-not-recognised:" + f
			if strings.HasPrefix(f, " and (") && strings.HasSuffix(f, ")") {
				filter = h.Hex([]byte(f[len(" and (") : len(f)-1]))
			}
		}
	}
	var cms []*labels.Matcher
	for _, m := range c.Matchers {
		lm, err := labels.NewMatcher(c17MatchType(m.Type), m.Name, m.Value)
		if err != nil {
			return nil, nil, fmt.Errorf("generator made an invalid matcher: %v", err)
		}
		cms = append(cms, lm)
	}
	mparts := []string{c17MatcherArgs(cms)}
	date := time.Unix(0, c.Start*1000000).UTC().Add(-30 * time.Minute).Format("2006-01-02")
	fn := c.Func
	if fn == "" {
		fn = "-"
	}
	ops = []string{
		fmt.Sprintf("c17fpsql time_series_gin %s 2 %s", h.Hex([]byte(date)), strings.Join(mparts, ",")),
		fmt.Sprintf("c17scan %d %d", c.Start*1000000, c.End*1000000),
		fmt.Sprintf("c17stepsql %d %d %d %d %s", c.Start, c.End, c.Step, c.Range, fn),
	}
	impl = []string{"text:" + h.Hex([]byte(c17Collapse(fp))), "text:" + scan, "text2:" + outer + " " + filter}
	return ops, impl, nil
}

// c17DownTie: the down-sampled query text vs Downsample.renderDown, and the series Select hands out vs
// Downsample.down + mapResult over the metrics_15s rows of the series the label index selects.
func c17DownTie(c *c17StepCase, seen []string, ms []*labels.Matcher, got []c17Series) (ops, impl []string, err error) {
	text := ""
	for _, q := range seen {
		if strings.Contains(q, "metrics_15s") {
			text = q
		}
	}
	const pre = "WITH fp_sel as ("
	if !strings.HasPrefix(text, pre) {
		return nil, nil, fmt.Errorf("down-sampled sample query does not start with %q: %s", pre, text)
	}
	_, rest, err := c17Balanced(text, len(pre)-1)
	if err != nil {
		return nil, nil, err
	}
	fn := c.Func
	if fn == "" {
		fn = "-"
	}
	ops = append(ops, fmt.Sprintf("c17downsql %d %d %d %d %s", c.Start, c.End, c.Step, c.Range, fn))
	impl = append(impl, "text:"+h.Hex([]byte(c17Collapse(rest))))
	var rows []string
	sel := append([]c17E2ESeries(nil), c.Series...)
	sort.Slice(sel, func(i, j int) bool { return sel[i].Fp < sel[j].Fp })
	for _, s := range sel {
		// the series the label index selects: those whose label set satisfies every matcher (select_matches_prometheus)
		if (s.Type != 2 && s.Type != 0) || !c17PromSel(s, ms) {
			continue
		}
		for _, a := range c17Rows15(s) {
			rows = append(rows, fmt.Sprintf("%d:%d:%d:%d:%d:%d:%d:%d", s.Fp, a.b, int64(a.lastV), a.lastTs, int64(a.min), int64(a.max), int64(a.sum), a.count))
		}
	}
	rs := "-"
	if len(rows) > 0 {
		rs = strings.Join(rows, ",")
	}
	ops = append(ops, fmt.Sprintf("c17down %d %d %d %d %s %s", c.Start, c.End, c.Step, c.Range, fn, rs))
	gs := append([]c17Series(nil), got...)
	sort.Slice(gs, func(i, j int) bool { return gs[i].Fp < gs[j].Fp })
	var parts []string
	for _, g := range gs {
		parts = append(parts, fmt.Sprintf("%d=%s", g.Fp, c17StepSamplesStr(g.Samples)))
	}
	im := "-"
	if len(parts) > 0 {
		im = strings.Join(parts, ";")
	}
	impl = append(impl, "down:"+im)
	return ops, impl, nil
}

// c17DownCanon turns the model's fp=ts:num/den|… into the float notation of the implementation side
func c17DownCanon(m string) string {
	if m == "-" || m == "unsupported" || m == "bad-op" {
		return m
	}
	ser := strings.Split(m, ";")
	for i, sr := range ser {
		eq := strings.IndexByte(sr, '=')
		if eq < 0 {
			continue
		}
		pts := strings.Split(sr[eq+1:], "|")
		for j, p := range pts {
			var ts, num, den int64
			if _, err := fmt.Sscanf(p, "%d:%d/%d", &ts, &num, &den); err == nil {
				pts[j] = strconv.FormatInt(ts, 10) + ":" + strconv.FormatFloat(float64(num)/float64(den), 'g', -1, 64)
			}
		}
		ser[i] = sr[:eq+1] + strings.Join(pts, "|")
	}
	return strings.Join(ser, ";")
}

// c17OnlyFirstBucket: every in-window sample of the series lies in [Start, Start+15s)
func c17OnlyFirstBucket(c *c17StepCase, s c17E2ESeries) bool {
	n := 0
	for _, x := range s.Samples {
		b := x[0] / 15000 * 15000
		if b >= c.Start && b <= c.End {
			n++
			if b != c.Start {
				return false
			}
		}
	}
	return n > 0
}

const c17B15 = int64(1700000010000) // a multiple of 15 s

var c17StepFuncs = []string{"", "", "", "abs", "timestamp", "rate", "rate", "increase", "count_over_time", "sum_over_time", "avg_over_time",
	"last_over_time", "min_over_time", "max_over_time", "present_over_time", "absent_over_time", "sum", "quantile_over_time", "changes", "irate", "delta", "stddev_over_time"}

func c17GenStep(rng *h.Rng) c17StepCase {
	base := c17GenE2E(rng) // label sets and matchers
	c := c17StepCase{Stream: "step", Matchers: base.Matchers, Func: h.Pick(rng, c17StepFuncs)}
	down := rng.Chance(40)
	if down {
		c.Start = c17B15 + int64(rng.Intn(4))*15000
		c.Step = h.Pick(rng, []int64{15000, 15000, 30000, 60000, 45000, 20000})
		c.End = c.Start + int64(rng.Range(1, 12))*15000 + int64(rng.Intn(2))*int64(rng.Intn(15000))
	} else {
		c.Start = c17B15 + int64(rng.Intn(3))*15000
		if rng.Chance(60) {
			c.Start += int64(rng.Intn(15000))
		}
		c.Step = h.Pick(rng, []int64{1, 3, 1000, 2000, 5000, 5000, 7000, 10000, 14999, 15000, 30000})
		c.End = c.Start + int64(rng.Range(0, 12))*c.Step + int64(rng.Intn(2))*int64(rng.Intn(int(c.Step)))
		if c.Step < 100 {
			c.End = c.Start + int64(rng.Range(0, 40))
		}
	}
	if c17RangeFuncs[c.Func] || c.Func == "quantile_over_time" || c.Func == "changes" {
		c.Range = h.Pick(rng, []int64{1000, 2000, 5000, 15000, 30000, 60000, 120000, c.Step, c.Step - 1, c.Step + 1})
		if c.Range <= 0 {
			c.Range = 1
		}
	}
	span := c.End - c.Start
	for i, s := range base.Series {
		s.Samples = nil
		ns := rng.Range(0, 12)
		val := int64(i*100 + 1)
		for j := 0; j < ns; j++ {
			var ts int64
			switch rng.Intn(10) {
			case 0:
				ts = c.Start
			case 1:
				ts = c.End
			case 2:
				ts = c.Start - int64(rng.Range(1, 20000))
			case 3:
				ts = c.End + int64(rng.Range(1, 20000))
			case 4: // on a step boundary, or next to one
				ts = c.Start + int64(rng.Intn(int(span/c.Step)+1))*c.Step + int64(rng.Intn(3)) - 1
			case 5: // in the first 15 s of the window
				ts = c.Start + int64(rng.Intn(15000))
			default:
				ts = c.Start + int64(rng.Intn(int(span)+1))
			}
			dup := false
			for _, x := range s.Samples {
				if x[0] == ts {
					dup = true
				}
			}
			if !dup && ts > 0 {
				s.Samples = append(s.Samples, [2]int64{ts, val})
				val += int64(rng.Range(1, 3))
			}
		}
		c.Series = append(c.Series, s)
	}
	return c
}

func c17StepStream(r *h.Result, rng *h.Rng, n int) error {
	r.Stream("step: real Select with range-query hints (Step ≠ 0, Func, Range) → TranspileLabelMatchers+processHints or TranspileLabelMatchersDownsample → SQL text → reference interpreter over samples_v3 / metrics_15s (derived as the materialized view does) → scripted driver → real row loop (+MapResult); vs Prom.Stepped.run / renderBucket / renderFilter (raw path) and Prom.Downsample.down / mapResult / renderDown (down-sampled path); oracles on the stored samples")
	sc := fakes.NewScript(nil)
	defer sc.Close()
	q, err := c17Querier(sc, "c17-step")
	if err != nil {
		return err
	}
	var ops, impl []string
	var cases []any
	for i := 0; i < n; i++ {
		c := c17GenStep(rng)
		o, im, err := c17RunStep(r, sc, q, &c)
		if err != nil {
			return err
		}
		ops = append(ops, o...)
		impl = append(impl, im...)
		for range o {
			cases = append(cases, c)
		}
		mode := c17StepMode(&c)
		b, _ := json.Marshal(c)
		nsamp := 0
		for _, s := range c.Series {
			nsamp += len(s.Samples)
		}
		r.Case("step:"+string(b), mode != "raw" && nsamp >= 3)
		r.Count("step:mode=" + mode)
		if i%131 == 0 {
			r.Sample(c)
		}
	}
	return c17StepCompare(r, ops, impl, cases)
}

// c17StepCompare: series answers are compared as they are, text answers ("text:"/"text2:" prefix on the implementation
// side) after collapsing blanks on the model side
func c17StepCompare(r *h.Result, ops, impl []string, cases []any) error {
	return c17StepCompareAs(r, "step", ops, impl, cases)
}

func c17StepCompareAs(r *h.Result, stream string, ops, impl []string, cases []any) error {
	model, err := h.Model(ops)
	if err != nil {
		return err
	}
	hexCollapse := func(x string) string {
		if x == "-" || x == "unsupported" || x == "bad-op" {
			return x
		}
		return h.Hex([]byte(c17Collapse(string(h.UnHex(x)))))
	}
	for i := range ops {
		m, im := model[i], impl[i]
		switch {
		case strings.HasPrefix(im, "text:"):
			im = strings.TrimPrefix(im, "text:")
			m = hexCollapse(m)
		case strings.HasPrefix(im, "down:"):
			im = strings.TrimPrefix(im, "down:")
			m = c17DownCanon(m)
		case strings.HasPrefix(im, "text2:"):
			im = strings.TrimPrefix(im, "text2:")
			f := strings.Fields(m)
			for j := range f {
				f[j] = hexCollapse(f[j])
			}
			m = strings.Join(f, " ")
		}
		if m != im {
			r.Disagree(stream, ops[i], im, m, cases[i])
		}
	}
	return nil
}

func init() {
	c17Streams = append(c17Streams, func(r *h.Result, rng *h.Rng, tier string) error {
		n := 700
		if tier != "quick" {
			n = 20000
		}
		r.Rule += "; step: label sets and matchers as in e2e; hints: 60% raw path (Start = multiple of 15 s plus 0..15 s, Step ∈ {1, 3, 1000, 2000, 5000, 7000, 10000, 14999, 15000, 30000} ms, End = Start + 0..12 steps + a fraction), 40% down-sampling path (Start a multiple of 15 s, Step ∈ {15, 20, 30, 45, 60} s), Func from instant-vector, range-vector, aggregation and unlisted functions, Range ∈ {1 s … 2 min, Step, Step ± 1}; 0..12 samples per series at Start, End, outside, on/next to step boundaries, in the first 15 s, anywhere; non-trivial = not the plain raw mode and ≥ 3 samples"
		return c17StepStream(r, rng, n)
	})
	c17ReplayMore["step"] = func(r *h.Result, raw json.RawMessage) error {
		var c c17StepCase
		if err := json.Unmarshal(raw, &c); err != nil {
			return err
		}
		sc := fakes.NewScript(nil)
		defer sc.Close()
		q, err := c17Querier(sc, "c17-step-replay")
		if err != nil {
			return err
		}
		r.Case("replay", true)
		o, im, err := c17RunStep(r, sc, q, &c)
		if err != nil {
			return err
		}
		return c17StepCompare(r, o, im, []any{c, c, c, c})
	}
}
