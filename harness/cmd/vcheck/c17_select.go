package main

import (
	"context"
	"database/sql/driver"
	"encoding/json"
	"fmt"
	"sort"
	"strconv"
	"strings"

	"github.com/metrico/qryn/reader/model"
	"github.com/metrico/qryn/reader/service"
	"github.com/prometheus/prometheus/model/labels"
	"github.com/prometheus/prometheus/storage"
	fakes "verif/harness/fakes17"
	"verif/harness/h"
)

// ---------------------------------------------------------------------------------------------------
// Stream 2: series assembly. Real code: CLokiQueriable.Querier(...).Select(...) over the scripted
// database/sql driver; the sample query is answered with generated rows (fingerprint, value, timestamp_ms),
// the label query with the stored label sets.

type c17Row struct {
	Fp  uint64
	Val int64
	Ts  int64
}

type c17AsmCase struct {
	Stream string                 `json:"stream"`
	Rows   string                 `json:"rows"`            // fp:val:ts,… in scan order
	Labels map[string]string      `json:"labels"`          // fp -> "k=v,k=v" as stored (unsorted); for reading only
	Pairs  map[string][][2]string `json:"pairs,omitempty"` // fp -> label pairs as stored (used by the replay)
	Impl   string                 `json:"impl,omitempty"`
}

func c17RowsStr(rows []c17Row) string {
	if len(rows) == 0 {
		return "-"
	}
	p := make([]string, len(rows))
	for i, r := range rows {
		p[i] = fmt.Sprintf("%d:%d:%d", r.Fp, r.Val, r.Ts)
	}
	return strings.Join(p, ",")
}

func c17ParseRows(s string) ([]c17Row, error) {
	if s == "-" || s == "" {
		return nil, nil
	}
	var res []c17Row
	for _, p := range strings.Split(s, ",") {
		f := strings.Split(p, ":")
		if len(f) != 3 {
			return nil, fmt.Errorf("bad row %q", p)
		}
		fp, e1 := strconv.ParseUint(f[0], 10, 64)
		v, e2 := strconv.ParseInt(f[1], 10, 64)
		t, e3 := strconv.ParseInt(f[2], 10, 64)
		if e1 != nil || e2 != nil || e3 != nil {
			return nil, fmt.Errorf("bad row %q", p)
		}
		res = append(res, c17Row{fp, v, t})
	}
	return res, nil
}

// c17Querier builds the real storage.Querier over a scripted database.
func c17Querier(sc *fakes.Script, name string) (storage.Querier, error) {
	ctx := context.Background()
	qa := &service.CLokiQueriable{ServiceData: model.ServiceData{Session: sc.Registry(name, "")}, Ctx: ctx}
	return qa.Querier(ctx, 0, 0)
}

type c17Series struct {
	Fp      uint64
	Labels  labels.Labels
	Samples []model.Sample
}

// c17Drain reads a SeriesSet through the public storage interfaces (Next/At, Labels, Iterator Next/At).
func c17Drain(ss storage.SeriesSet) (res []c17Series, err error) {
	defer func() {
		if e := recover(); e != nil {
			err = fmt.Errorf("panic: %v", e)
		}
	}()
	for ss.Next() {
		s := ss.At()
		out := c17Series{Labels: s.Labels()}
		if ms, ok := s.(*model.Series); ok {
			out.Fp = ms.Fp
		}
		it := s.Iterator()
		for it.Next() {
			t, v := it.At()
			out.Samples = append(out.Samples, model.Sample{TimestampMs: t, Value: v})
		}
		res = append(res, out)
	}
	return res, ss.Err()
}

func c17SeriesCanon(ss []c17Series) string {
	if len(ss) == 0 {
		return "-"
	}
	parts := make([]string, len(ss))
	for i, s := range ss {
		sm := make([]string, len(s.Samples))
		for j, x := range s.Samples {
			sm[j] = fmt.Sprintf("%d:%d", x.TimestampMs, int64(x.Value))
		}
		parts[i] = fmt.Sprintf("%d=%s", s.Fp, strings.Join(sm, "|"))
	}
	sort.Strings(parts) // Select re-orders the series by labels (sort.Slice): order is not part of the comparison
	return strings.Join(parts, ";")
}

// c17CanonModelSeries sorts the series; inside a series the samples of equal timestamp are put in value order
// (sort.Slice in ReshuffleSeries is not stable, the model's sort is).
func c17CanonModelSeries(s string) string {
	if s == "-" || s == "!" {
		return s
	}
	parts := strings.Split(s, ";")
	for i, p := range parts {
		eq := strings.IndexByte(p, '=')
		if eq < 0 {
			continue
		}
		sm := strings.Split(p[eq+1:], "|")
		tsOf := func(x string) string { return strings.SplitN(x, ":", 2)[0] }
		valOf := func(x string) int64 {
			f := strings.SplitN(x, ":", 2)
			if len(f) != 2 {
				return 0
			}
			v, _ := strconv.ParseInt(f[1], 10, 64)
			return v
		}
		for a := 0; a < len(sm); {
			b := a + 1
			for b < len(sm) && tsOf(sm[b]) == tsOf(sm[a]) {
				b++
			}
			run := sm[a:b]
			sort.Slice(run, func(x, y int) bool { return valOf(run[x]) < valOf(run[y]) })
			a = b
		}
		parts[i] = p[:eq+1] + strings.Join(sm, "|")
	}
	sort.Strings(parts)
	return strings.Join(parts, ";")
}

// c17KeysStr numbers the distinct label sets: fp:k,fp:k,…
func c17KeysStr(fps []uint64, lbls map[uint64][][2]string) string {
	if len(fps) == 0 {
		return "-"
	}
	ids := map[string]int{}
	var parts []string
	for _, fp := range fps {
		st := append([][2]string(nil), lbls[fp]...)
		sort.Slice(st, func(i, j int) bool { return st[i][0] < st[j][0] })
		k := c17LabelsKey(st)
		if _, ok := ids[k]; !ok {
			ids[k] = len(ids) + 1
		}
		parts = append(parts, fmt.Sprintf("%d:%d", fp, ids[k]))
	}
	return strings.Join(parts, ",")
}

// c17LabelsKey is the identity of a label set inside the harness (JSON of the pairs: unambiguous)
func c17LabelsKey(l [][2]string) string {
	b, _ := json.Marshal(l)
	return string(b)
}

func c17LabelsStr(l [][2]string) string {
	p := make([]string, len(l))
	for i, kv := range l {
		p[i] = kv[0] + "=" + kv[1]
	}
	return strings.Join(p, ",")
}

// c17OrderTie: the order tie of the last judged c17RunAssembly call: (driver op, what the real Select returned)
var c17OrderTie [2]string

func c17LabelSetArg(ls labels.Labels) string {
	if len(ls) == 0 {
		return "_"
	}
	p := make([]string, len(ls))
	for i, l := range ls {
		p[i] = h.Hex([]byte(l.Name)) + "=" + h.Hex([]byte(l.Value))
	}
	return strings.Join(p, ",")
}

// c17SeriesOrder: the SeriesSet level. Oracle (no model): the series come strictly ascending by Prometheus' own
// labels.Compare — sorted as storage.Querier.Select documents, no label set twice. Tie: the label sets in fingerprint order
// are handed to the model, which sorts them with its comparator (Read.SeriesOrder.sortSeries); the answer must be the order
// the real Select returned.
func c17SeriesOrder(r *h.Result, got []c17Series, rep any) [2]string {
	for i := 1; i < len(got); i++ {
		if labels.Compare(got[i-1].Labels, got[i].Labels) >= 0 {
			r.Violate("C17/seriesset-not-sorted", fmt.Sprintf("series %d %v comes before series %d %v: not ascending by labels.Compare", got[i-1].Fp, got[i-1].Labels, got[i].Fp, got[i].Labels), rep)
			break
		}
	}
	if len(got) == 0 {
		return [2]string{}
	}
	in := append([]c17Series(nil), got...)
	sort.SliceStable(in, func(i, j int) bool { return in[i].Fp < in[j].Fp })
	var a, b []string
	for _, s := range in {
		a = append(a, c17LabelSetArg(s.Labels))
	}
	for _, s := range got {
		b = append(b, c17LabelSetArg(s.Labels))
	}
	return [2]string{"c17order " + strings.Join(a, ";"), strings.Join(b, ";")}
}

// c17RunAssembly runs the real Select over rows/labels and judges the assembly part of the property.
func c17RunAssembly(r *h.Result, sc *fakes.Script, q storage.Querier, rows []c17Row, lbls map[uint64][][2]string, judge bool) (string, error) {
	sc.SetResponder(func(qs string) ([]string, [][]driver.Value, error) {
		switch {
		case strings.Contains(qs, "JSONExtractKeysAndValues"):
			var out [][]driver.Value
			fps := make([]uint64, 0, len(lbls))
			for fp := range lbls {
				fps = append(fps, fp)
			}
			sort.Slice(fps, func(i, j int) bool { return fps[i] < fps[j] })
			planned := c17InList(qs, "fingerprint IN (")
			lo, hi := c17DateBound(qs, "(date) >= ('"), c17DateBound(qs, "(date) <= ('")
			for _, fp := range fps {
				if !planned[strconv.FormatUint(fp, 10)] {
					continue // only planned fingerprints are fetched
				}
				// time_series holds a row of the series on the UTC days of its samples only (C04): the request must
				// admit one of them
				onDay := false
				for _, rw := range rows {
					if d := c17DateOfMs(rw.Ts); rw.Fp == fp && lo != "" && hi != "" && lo <= d && d <= hi {
						onDay = true
					}
				}
				if !onDay {
					continue
				}
				var l [][]interface{}
				for _, kv := range lbls[fp] {
					l = append(l, []interface{}{kv[0], kv[1]})
				}
				out = append(out, []driver.Value{fp, l})
			}
			return []string{"fingerprint", "labels"}, out, nil
		case strings.Contains(qs, "samples_v3"):
			out := make([][]driver.Value, len(rows))
			for i, rw := range rows {
				out[i] = []driver.Value{rw.Fp, float64(rw.Val), rw.Ts}
			}
			return []string{"fingerprint", "value", "timestamp_ms"}, out, nil
		}
		return []string{"a", "b"}, nil, nil
	})
	hints := &storage.SelectHints{Start: -1 << 40, End: 1 << 40}
	got, err := c17Drain(q.Select(false, hints, labels.MustNewMatcher(labels.MatchEqual, "__name__", "m")))
	if err != nil {
		return "err:" + err.Error(), nil
	}
	canon := c17SeriesCanon(got)
	if !judge {
		return canon, nil
	}
	c17OrderTie = c17SeriesOrder(r, got, c17AsmCase{Stream: "assemble", Rows: c17RowsStr(rows)})
	lstr := map[string]string{}
	for fp, l := range lbls {
		lstr[strconv.FormatUint(fp, 10)] = c17LabelsStr(l)
	}
	pstr := map[string][][2]string{}
	for fp, l := range lbls {
		pstr[strconv.FormatUint(fp, 10)] = l
	}
	rep := c17AsmCase{Stream: "assemble", Rows: c17RowsStr(rows), Labels: lstr, Pairs: pstr}
	// oracle: each label set once; under it exactly the rows of the fingerprints carrying it (for one fingerprint:
	// in their order of arrival; merged fingerprints: ascending by timestamp); the series' own labels
	keyOf := func(fp uint64) string {
		st := append([][2]string(nil), lbls[fp]...)
		sort.Slice(st, func(i, j int) bool { return st[i][0] < st[j][0] })
		return c17LabelsKey(st)
	}
	type grp struct {
		fps     []uint64
		samples []model.Sample
	}
	want := map[string]*grp{}
	var order []string
	for _, rw := range rows {
		k := keyOf(rw.Fp)
		g, ok := want[k]
		if !ok {
			g = &grp{}
			want[k] = g
			order = append(order, k)
		}
		known := false
		for _, f := range g.fps {
			if f == rw.Fp {
				known = true
			}
		}
		if !known {
			g.fps = append(g.fps, rw.Fp)
		}
		g.samples = append(g.samples, model.Sample{TimestampMs: rw.Ts, Value: float64(rw.Val)})
	}
	bag := func(x []model.Sample) string {
		y := append([]model.Sample(nil), x...)
		sort.Slice(y, func(i, j int) bool {
			if y[i].TimestampMs != y[j].TimestampMs {
				return y[i].TimestampMs < y[j].TimestampMs
			}
			return y[i].Value < y[j].Value
		})
		return fmt.Sprint(y)
	}
	seen := map[string]int{}
	for _, s := range got {
		var st [][2]string
		for _, l := range s.Labels {
			st = append(st, [2]string{l.Name, l.Value})
		}
		k := c17LabelsKey(st)
		seen[k]++
		if seen[k] == 2 {
			r.Violate("C17/assembly-labelset-twice", fmt.Sprintf("label set {%s} is handed to the engine as %d series", k, 2), rep)
			continue
		}
		g, ok := want[k]
		if !ok {
			if _, has := lbls[s.Fp]; has {
				r.Violate("C17/assembly-foreign-labels", fmt.Sprintf("series %d carries labels {%s}, stored {%s}", s.Fp, k, keyOf(s.Fp)), rep)
			} else {
				r.Violate("C17/assembly-foreign-series", fmt.Sprintf("series %d {%s} has no row", s.Fp, k), rep)
			}
			continue
		}
		if keyOf(s.Fp) != k {
			r.Violate("C17/assembly-foreign-labels", fmt.Sprintf("series %d carries labels {%s}, stored {%s}", s.Fp, k, keyOf(s.Fp)), rep)
		}
		switch {
		case len(g.fps) == 1 && fmt.Sprint(g.samples) != fmt.Sprint(s.Samples):
			r.Violate("C17/assembly-samples-differ", fmt.Sprintf("series %d holds %v, its rows are %v", s.Fp, s.Samples, g.samples), rep)
		case len(g.fps) > 1 && bag(g.samples) != bag(s.Samples):
			r.Violate("C17/assembly-merged-samples-differ", fmt.Sprintf("label set {%s} (fingerprints %v) holds %v, the rows are %v", k, g.fps, s.Samples, g.samples), rep)
		case len(g.fps) > 1:
			for i := 1; i < len(s.Samples); i++ {
				if s.Samples[i].TimestampMs < s.Samples[i-1].TimestampMs {
					r.Violate("C17/assembly-merged-not-ascending", fmt.Sprintf("label set {%s}: merged samples %v are not ascending", k, s.Samples), rep)
					break
				}
			}
		}
	}
	for _, k := range order {
		if seen[k] == 0 {
			// is it the 'name=value' joined by blanks key of ReshuffleSeries that made two label sets one?
			blank := func(key string) string {
				var st [][2]string
				_ = json.Unmarshal([]byte(key), &st)
				p := make([]string, len(st))
				for i, kv := range st {
					p[i] = kv[0] + "=" + kv[1]
				}
				return strings.Join(p, " ")
			}
			collides := false
			for _, k2 := range order {
				if k2 != k && blank(k2) == blank(k) {
					collides = true
				}
			}
			if collides {
				r.Violate("C17/assembly-distinct-labelsets-merged", fmt.Sprintf("label set %s has rows but no series: another label set renders to the same 'name=value name=value' text and took its samples", k), rep)
			} else {
				r.Violate("C17/assembly-series-lost", fmt.Sprintf("label set %s has rows but no series", k), rep)
			}
		}
	}
	return canon, nil
}

// c17InList returns the members of the first "<prefix>a,b,c)" list of a query text.
func c17InList(q, prefix string) map[string]bool {
	res := map[string]bool{}
	i := strings.Index(q, prefix)
	if i < 0 {
		return res
	}
	rest := q[i+len(prefix):]
	j := strings.IndexByte(rest, ')')
	if j < 0 {
		return res
	}
	for _, x := range strings.Split(rest[:j], ",") {
		res[strings.TrimSpace(x)] = true
	}
	return res
}

func c17GenLabels(rng *h.Rng, fp uint64) [][2]string {
	// distinct label sets per fingerprint (the fingerprint is a function of the label set): an "id" label
	l := [][2]string{{"__name__", "m"}, {"id", strconv.FormatUint(fp, 10)}}
	for i, n := 0, rng.Intn(4); i < n; i++ {
		k := rng.Ident(3)
		dup := false
		for _, kv := range l {
			if kv[0] == k {
				dup = true
			}
		}
		if !dup {
			l = append(l, [2]string{k, rng.Ident(4)})
		}
	}
	// stored order is arbitrary
	for i := len(l) - 1; i > 0; i-- {
		j := rng.Intn(i + 1)
		l[i], l[j] = l[j], l[i]
	}
	return l
}

func c17Assembly(r *h.Result, rng *h.Rng, n int) error {
	r.Stream("assemble: real CLokiQuerier.Select (via CLokiQueriable.Querier) over the scripted database/sql driver returning generated sample rows vs Read.Assembly.assemble; oracle: one series per fingerprint, each row once in its own series in order, own labels")
	sc := fakes.NewScript(nil)
	defer sc.Close()
	q, err := c17Querier(sc, "c17-assemble")
	if err != nil {
		return err
	}
	var ops, impl []string
	var cases []any
	for i := 0; i < n; i++ {
		nfp := rng.Range(0, 6)
		if rng.Chance(10) {
			nfp = rng.Range(7, 20)
		}
		fpset := map[uint64]bool{}
		var fps []uint64
		for len(fps) < nfp {
			var fp uint64
			switch rng.Intn(3) {
			case 0:
				fp = uint64(rng.Intn(10))
			case 1:
				fp = uint64(rng.Intn(1000))
			default:
				fp = rng.U64()
			}
			if !fpset[fp] {
				fpset[fp] = true
				fps = append(fps, fp)
			}
		}
		sort.Slice(fps, func(a, b int) bool { return fps[a] < fps[b] }) // ORDER BY fingerprint
		lbls := map[uint64][][2]string{}
		var rows []c17Row
		unsortedTs := rng.Chance(10)
		val := int64(0)
		dupSets := len(fps) >= 2 && rng.Chance(15)
		collide := len(fps) >= 2 && !dupSets && rng.Chance(12)
		for i, fp := range fps {
			lbls[fp] = c17GenLabels(rng, fp)
			if dupSets && i > 0 && rng.Chance(50) {
				// the same label set stored under another fingerprint (stored order may differ)
				src := lbls[fps[rng.Intn(i)]]
				cp := append([][2]string(nil), src...)
				for a := len(cp) - 1; a > 0; a-- {
					b := rng.Intn(a + 1)
					cp[a], cp[b] = cp[b], cp[a]
				}
				lbls[fp] = cp
			}
			if collide && i > 0 && rng.Chance(60) {
				// a different label set whose 'name=value' pairs joined by blanks read the same as an earlier one's:
				// {a="b c=d"} against {a="b", c="d"} (also with quotes and backslashes in the value)
				tail := h.Pick(rng, []string{"d", "d\"e", "d\\", "", "x y"})
				if i%2 == 1 {
					lbls[fps[i-1]] = [][2]string{{"__name__", "m"}, {"a", "b c=" + tail}}
					lbls[fp] = [][2]string{{"c", tail}, {"__name__", "m"}, {"a", "b"}}
				}
			}
			ns := rng.Range(1, 8)
			ts := int64(rng.Range(-3, 50))
			for k := 0; k < ns; k++ {
				rows = append(rows, c17Row{fp, val, ts})
				val++
				if unsortedTs {
					ts += int64(rng.Range(-5, 5))
				} else {
					ts += int64(rng.Range(0, 3))
				}
			}
		}
		out, err := c17RunAssembly(r, sc, q, rows, lbls, true)
		if err != nil {
			return err
		}
		rs := c17RowsStr(rows)
		ops = append(ops, "c17select "+rs+" "+c17KeysStr(fps, lbls))
		impl = append(impl, out)
		if dupSets {
			r.Count("assemble:label-set-under-two-fingerprints")
		}
		if collide {
			r.Count("assemble:distinct-label-sets-with-the-same-blank-joined-text")
		}
		pstr := map[string][][2]string{}
		for fp, l := range lbls {
			pstr[strconv.FormatUint(fp, 10)] = l
		}
		lstr := map[string]string{}
		for fp, l := range lbls {
			lstr[strconv.FormatUint(fp, 10)] = c17LabelsStr(l)
		}
		cases = append(cases, c17AsmCase{Stream: "assemble", Rows: rs, Labels: lstr, Pairs: pstr})
		if c17OrderTie[0] != "" {
			ops, impl = append(ops, c17OrderTie[0]), append(impl, c17OrderTie[1])
			cases = append(cases, c17AsmCase{Stream: "assemble", Rows: rs, Labels: lstr, Pairs: pstr})
		}
		r.Case("assemble:"+rs, len(fps) >= 2)
		switch {
		case len(fps) == 0:
			r.Count("assemble:no-rows")
		case len(fps) == 1:
			r.Count("assemble:one-series")
		default:
			r.Count("assemble:several-series")
		}
		if unsortedTs {
			r.Count("assemble:timestamps-unsorted-inside-series")
		}
		if i%211 == 0 {
			r.Sample(c17AsmCase{Stream: "assemble", Rows: rs, Labels: lstr, Impl: out})
		}
	}
	model, err := h.Model(ops)
	if err != nil {
		return err
	}
	for i := range ops {
		if strings.HasPrefix(ops[i], "c17order ") {
			if model[i] != impl[i] { // the order itself is what is compared
				r.Disagree("assemble", ops[i], impl[i], model[i], cases[i])
			}
			continue
		}
		if m := c17CanonModelSeries(model[i]); m != c17CanonModelSeries(impl[i]) {
			r.Disagree("assemble", ops[i], impl[i], m, cases[i])
		}
	}
	return nil
}

func init() {
	c17Streams = append(c17Streams, func(r *h.Result, rng *h.Rng, tier string) error {
		n := 400
		if tier != "quick" {
			n = 10000
		}
		r.Rule += "; assemble: 0..6 (10%: 7..20) fingerprints in ascending order (small, <1000, or full 64-bit), 1..7 rows each, timestamps ascending with repeats (10% of cases unsorted inside a series), label sets distinct per fingerprint and stored in arbitrary order, 15 %: a label set stored under two fingerprints, 12 %: two different label sets whose name=value pairs joined by blanks read the same ({a=\"b c=d\"} vs {a=\"b\", c=\"d\"}); non-trivial = ≥ 2 series"
		return c17Assembly(r, rng, n)
	})
	c17ReplayMore["assemble"] = func(r *h.Result, raw json.RawMessage) error {
		var c c17AsmCase
		if err := json.Unmarshal(raw, &c); err != nil {
			return err
		}
		rows, err := c17ParseRows(c.Rows)
		if err != nil {
			return err
		}
		lbls := map[uint64][][2]string{}
		for k, v := range c.Pairs {
			fp, _ := strconv.ParseUint(k, 10, 64)
			lbls[fp] = v
		}
		for k, v := range c.Labels {
			fp, _ := strconv.ParseUint(k, 10, 64)
			if _, ok := lbls[fp]; ok {
				continue
			}
			for _, kv := range strings.Split(v, ",") {
				if i := strings.IndexByte(kv, '='); i >= 0 {
					lbls[fp] = append(lbls[fp], [2]string{kv[:i], kv[i+1:]})
				}
			}
		}
		sc := fakes.NewScript(nil)
		defer sc.Close()
		q, err := c17Querier(sc, "c17-assemble-replay")
		if err != nil {
			return err
		}
		out, err := c17RunAssembly(r, sc, q, rows, lbls, true)
		if err != nil {
			return err
		}
		r.Case("replay", true)
		var fps []uint64
		seenFp := map[uint64]bool{}
		for _, rw := range rows {
			if !seenFp[rw.Fp] {
				seenFp[rw.Fp] = true
				fps = append(fps, rw.Fp)
			}
		}
		op := "c17select " + c.Rows + " " + c17KeysStr(fps, lbls)
		m, err := h.Model([]string{op})
		if err != nil {
			return err
		}
		if c17CanonModelSeries(m[0]) != c17CanonModelSeries(out) {
			r.Disagree("assemble", op, out, c17CanonModelSeries(m[0]), c)
		}
		return nil
	}
}
