package main

import (
	"fmt"
	"sort"
	"strconv"
	"strings"
	"time"

	"verif/harness/h"
)

// ---------------------------------------------------------------------------------------------------
// Days: `time_series` / `time_series_gin` are partitioned by `date`; the writer registers a series on every UTC
// day it has samples and on no other day (C04). The generated databases follow that: a series has its rows
// exactly on the UTC days of its samples (c17SeriesDays). Windows that cross 1..3 UTC midnights (also ones that
// start / end in the first 30 minutes of a day) with series that report only on the first / a middle / the last
// day exercise the labels request of CLokiQuerier.Select (labelsGetter.getFetchRequest): its statement is tied
// byte for byte to Prom.LabelsFetch.fetch … .render (c17lblfetchsql), its answer over the stored rows to
// Fetch.eval (c17lblfetcheval); the oracles (label set of every series = the stored one of its fingerprint,
// non-empty; no two stored label sets merged) do not use the model.

const c17DayMs = int64(86400000)
const c17Midnight = int64(1700006400000) // 2023-11-15T00:00:00Z, the first midnight after c17Base

func c17DateOfMs(ms int64) string { return time.UnixMilli(ms).UTC().Format("2006-01-02") }

func c17DayNumber(date string) int64 {
	t, err := time.Parse("2006-01-02", date)
	if err != nil {
		return -1
	}
	return t.Unix() / 86400
}

// c17SeriesDays: the dates under which a series is registered: the UTC days of its samples (a series without
// samples: the base day, as the single-day generators always had it)
func c17SeriesDays(s c17E2ESeries) []string {
	set := map[string]bool{}
	for _, sm := range s.Samples {
		set[c17DateOfMs(sm[0])] = true
	}
	if len(set) == 0 {
		return []string{c17Day}
	}
	res := make([]string, 0, len(set))
	for d := range set {
		res = append(res, d)
	}
	sort.Strings(res)
	return res
}

// c17DayEdge: a time of day (ms) at which the date bounds change their answer
func c17DayEdge(rng *h.Rng) int64 {
	switch rng.Intn(9) {
	case 0:
		return 0
	case 1:
		return 30*60000 - 1
	case 2:
		return 30 * 60000
	case 3:
		return int64(rng.Range(1, 29)) * 60000 // inside the first half hour
	case 4:
		return 30*60000 + int64(rng.Range(1, 90))*1000
	case 5:
		return c17DayMs - 1
	case 6:
		return c17DayMs - int64(rng.Range(1, 180))*60000 + int64(rng.Intn(1000)) // the evening
	default:
		return int64(rng.Range(0, 86399))*1000 + int64(rng.Intn(1000))
	}
}

// c17MultiDay re-times a generated e2e case: the window crosses 1..3 UTC midnights, every series reports on the
// first / a middle / the last day only, on the first and the last, or on all of them.
func c17MultiDay(rng *h.Rng, c *c17E2ECase) {
	k := int64(rng.Range(1, 3))
	day0 := c17Midnight - c17DayMs // 2023-11-14T00:00Z
	c.Start = day0 + c17DayEdge(rng)
	c.End = day0 + k*c17DayMs + c17DayEdge(rng)
	for i := range c.Series {
		s := &c.Series[i]
		var days []int64
		switch rng.Intn(6) {
		case 0, 1:
			days = []int64{0}
		case 2:
			days = []int64{k}
		case 3:
			days = []int64{int64(rng.Range(0, int(k)))}
		case 4:
			days = []int64{0, k}
		default:
			for d := int64(0); d <= k; d++ {
				days = append(days, d)
			}
		}
		n := len(s.Samples)
		if n == 0 && rng.Chance(70) {
			n = rng.Range(1, 3)
		}
		s.Samples = nil
		val := int64(i * 100)
		seen := map[int64]bool{}
		add := func(ts int64) {
			if !seen[ts] {
				seen[ts] = true
				s.Samples = append(s.Samples, [2]int64{ts, val})
				val++
			}
		}
		for j := 0; j < n; j++ {
			d := days[rng.Intn(len(days))]
			lo, hi := day0+d*c17DayMs, day0+(d+1)*c17DayMs-1
			if rng.Chance(85) { // inside the window (when the day has a part in it)
				if lo < c.Start {
					lo = c.Start
				}
				if hi > c.End {
					hi = c.End
				}
			}
			if lo > hi {
				continue
			}
			switch rng.Intn(6) {
			case 0:
				add(lo)
			case 1:
				add(hi)
			default:
				add(lo + int64(rng.Intn(int(hi-lo)+1)))
			}
		}
		if rng.Chance(10) {
			add(c.Start - 1) // outside the window: registers the series on that day all the same
		}
		if rng.Chance(10) {
			add(c.End + 1)
		}
	}
}

// ---- the labels request: ties

type c17LblFetchTie struct {
	ops, impl []string
	cases     []any
}

var c17LblFetch c17LblFetchTie

// c17LblFetchRecord: the labels statement the real labelsGetter sent for the window of the hints (fingerprints
// re-ordered ascending: Go iterates a map) and the fingerprints of the rows the reference interpreter returned for it,
// against the model's statement and its meaning over the stored (day, fingerprint) rows.
func c17LblFetchRecord(stmt string, start, end int64, series []c17E2ESeries, returned []uint64, c any) {
	const pre = "fingerprint IN ("
	i := strings.Index(stmt, pre)
	if i < 0 {
		return
	}
	rest := stmt[i+len(pre):]
	j := strings.IndexByte(rest, ')')
	if j < 0 {
		return
	}
	var fps []uint64
	for _, x := range strings.Split(rest[:j], ",") {
		v, err := strconv.ParseUint(strings.TrimSpace(x), 10, 64)
		if err != nil {
			return
		}
		fps = append(fps, v)
	}
	sort.Slice(fps, func(a, b int) bool { return fps[a] < fps[b] })
	fs := make([]string, len(fps))
	for k, v := range fps {
		fs[k] = strconv.FormatUint(v, 10)
	}
	canon := strings.TrimSpace(stmt[:i+len(pre)] + strings.Join(fs, ",") + rest[j:]) // the statement without a WITH clause starts with a blank
	fpArg := strings.Join(fs, ",")
	if fpArg == "" {
		fpArg = "-"
	}
	c17LblFetch.ops = append(c17LblFetch.ops, fmt.Sprintf("c17lblfetchsql 0 %d %d %s", start, end, fpArg))
	c17LblFetch.impl = append(c17LblFetch.impl, h.Hex([]byte(canon)))
	c17LblFetch.cases = append(c17LblFetch.cases, c)
	// the rows of time_series in table order (c17BuildDB: series by series, days ascending)
	var rows []string
	for _, s := range series {
		for _, d := range c17SeriesDays(s) {
			rows = append(rows, fmt.Sprintf("%d:%d", c17DayNumber(d), s.Fp))
		}
	}
	rowArg := strings.Join(rows, ",")
	if rowArg == "" {
		rowArg = "_"
	}
	lower := time.UnixMilli(start).UTC().Add(-30 * time.Minute)
	upper := time.UnixMilli(end).UTC()
	out := make([]string, len(returned))
	for k, v := range returned {
		out[k] = strconv.FormatUint(v, 10)
	}
	outArg := strings.Join(out, ",")
	if outArg == "" {
		outArg = "-"
	}
	c17LblFetch.ops = append(c17LblFetch.ops, fmt.Sprintf("c17lblfetcheval %d %d %s %s", start, end, fpArg, rowArg))
	c17LblFetch.impl = append(c17LblFetch.impl, fmt.Sprintf("%d %d %s", c17DayNumber(lower.Format("2006-01-02")), c17DayNumber(upper.Format("2006-01-02")), outArg))
	c17LblFetch.cases = append(c17LblFetch.cases, c)
}

func c17LblFetchFlush(r *h.Result, stream string) error {
	t := c17LblFetch
	c17LblFetch = c17LblFetchTie{}
	if len(t.ops) == 0 {
		return nil
	}
	r.CountN(stream+":labels-request ties", len(t.ops))
	return r.Compare(stream+"-labelsfetch", t.ops, t.impl, t.cases)
}

// ---- engine-range over a midnight

// c17GenEngineRangeDays: a query_range whose range crosses a UTC midnight (15 %: two) and ends at 00:30 or later,
// over series that stopped before the (last) midnight, started after it, or report all through.
func c17GenEngineRangeDays(rng *h.Rng) c17RngCase {
	c := c17RngCase{Stream: "engine-range"}
	c.Step = h.Pick(rng, []int64{5000, 10000, 14000, 7000})
	back := int64(0)
	if rng.Chance(15) {
		back = c17DayMs
		c.Step = h.Pick(rng, []int64{10000, 14000})
	}
	switch rng.Intn(3) {
	case 0: // starts in the first half hour of the day before
		c.Start = c17Midnight - c17DayMs - back + int64(rng.Range(0, 119))*15000
		c.Step = h.Pick(rng, []int64{10000, 14000})
	default:
		c.Start = c17Midnight - back - int64(rng.Range(1, 80))*15000
	}
	c.End = c17Midnight + int64(rng.Range(29*60, 45*60))*1000
	if rng.Chance(15) {
		c.End = c17Midnight + int64(rng.Range(0, 29*60))*1000
	}
	names := []string{"m", "m", "up"}
	nser := rng.Range(2, 4)
	fp := uint64(rng.Range(1, 50))
	for i := 0; i < nser; i++ {
		s := c17E2ESeries{Fp: fp, Type: 2, Labels: [][2]string{{"__name__", h.Pick(rng, names)}, {"instance", "i" + strconv.Itoa(i)}}}
		fp += uint64(rng.Range(1, 1000))
		if rng.Chance(50) {
			s.Labels = append(s.Labels, [2]string{"job", h.Pick(rng, c17Vals["job"])})
		}
		lo, hi := c.Start-310000, c.End+20000
		switch rng.Intn(5) {
		case 0, 1: // stopped before the last midnight
			hi = c17Midnight - int64(rng.Range(1, 600))*1000
			if rng.Chance(20) {
				hi = c17Midnight - 1
			}
		case 2: // started after it
			lo = c17Midnight + int64(rng.Range(0, 600))*1000
		}
		gap := int64(rng.Range(20, 120)) * 1000
		if hi-lo > 6*3600000 {
			gap = int64(rng.Range(200, 900)) * 1000
		}
		val := int64(rng.Intn(50))
		for ts := lo; ts <= hi; ts += gap + int64(rng.Intn(2000)) {
			s.Samples = append(s.Samples, [2]int64{ts, val})
			val += int64(rng.Range(0, 5))
		}
		c.Series = append(c.Series, s)
	}
	sel := h.Pick(rng, []string{"m", "m", "up", `{__name__=~"m|up"}`, `m{instance=~"i[12]"}`})
	switch rng.Intn(6) {
	case 0, 1:
		c.Query = sel
	case 2:
		c.Query = "count_over_time(" + sel + "[1m])"
	case 3:
		c.Query = "sum by (instance) (" + sel + ")"
	case 4:
		c.Query = "max_over_time(" + sel + "[30s])"
	default:
		c.Query = "count(" + sel + ")"
	}
	return c
}

// c17DateBound: the date literal that follows prefix in a statement ("" = not found)
func c17DateBound(q, prefix string) string {
	i := strings.Index(q, prefix)
	if i < 0 || len(q) < i+len(prefix)+10 {
		return ""
	}
	return q[i+len(prefix) : i+len(prefix)+10]
}
