package main

import (
	"fmt"

	"github.com/metrico/qryn/reader/logql/logql_parser"
	"github.com/metrico/qryn/reader/logql/logql_transpiler_v2/clickhouse_planner"
	sql "github.com/metrico/qryn/reader/utils/sql_select"
	"verif/harness/h"
)

func init() { props["C07"] = c07 }

func sqlDefaultCtx() *sql.Ctx { return sql.DefaultCtx() }

// implLogSQL: real parser → real planner → Process → String
func implLogSQL(query string, c qctx) (string, *logql_parser.LogQLScript, error) {
	script, err := logql_parser.Parse(query)
	if err != nil {
		return "", nil, fmt.Errorf("parse: %w", err)
	}
	p, err := clickhouse_planner.Plan(script, true)
	if err != nil {
		return "", script, fmt.Errorf("plan: %w", err)
	}
	sel, err := p.Process(c.planner())
	if err != nil {
		return "", script, fmt.Errorf("process: %w", err)
	}
	s, err := sel.String(sql.DefaultCtx())
	if err != nil {
		return "", script, fmt.Errorf("string: %w", err)
	}
	return s, script, nil
}

// c07Text: the text tie — byte-equal SQL between the real planner and LogQL.planLog
func c07Text(r *h.Result, rng *h.Rng, n int) error { return c07TextCov(r, rng, n, nil) }

func c07TextCov(r *h.Result, rng *h.Rng, n int, cov *c07gCov) error {
	r.Stream("text: logql_parser.Parse → clickhouse_planner.Plan → Process → String vs LogQL.planLog/Sql.renderSel (byte-equal SQL)")
	var ops, impl []string
	var cases []any
	for i := 0; i < n; i++ {
		query := genLogQuery(rng, 4, 4)
		if i%2 == 1 {
			query = c07gQuery(rng, c07gGuided(c07gCfgPlain, cov)) // derived from the grammar (c07gram.go)
		}
		c := genCtx(rng)
		sqlText, script, err := implLogSQL(query, c)
		if err != nil {
			r.Count("text:impl-error")
			if script == nil {
				r.Count("text:parse-error")
				r.Sample(map[string]string{"stream": "text", "query": query, "error": err.Error()})
			}
			continue
		}
		ser, err := serLogQuery(script)
		if err != nil {
			r.Count("text:outside-fragment")
			continue
		}
		ops = append(ops, "c07plan "+c.ser()+" "+ser)
		impl = append(impl, h.Hex([]byte(sqlText)))
		cases = append(cases, map[string]any{"query": query, "ctx": c})
		nst := len(script.StrSelector.Pipelines)
		if cov != nil {
			c07gObserve(script, -1, cov.add)
		}
		r.Case("text:"+query+fmt.Sprint(c), nst > 0 || len(script.StrSelector.StrSelCmds) > 1)
		r.Count(fmt.Sprintf("text:matchers=%d", len(script.StrSelector.StrSelCmds)))
		r.Count(fmt.Sprintf("text:stages=%d", nst))
		for _, p := range script.StrSelector.Pipelines {
			if p.LineFilter != nil {
				r.Count("text:stage:line" + p.LineFilter.Fn)
			} else {
				r.Count("text:stage:label-filter")
			}
		}
		if i%53 == 0 {
			r.Sample(map[string]any{"stream": "text", "query": query, "ctx": c, "sql": sqlText})
		}
	}
	return r.Compare("text", ops, impl, cases)
}

func c07(r *h.Result, rng *h.Rng, tier string, replay string) error {
	n := 400
	if tier != "quick" {
		n = 10000
	}
	r.Rule = "text: grammar-directed log queries (1–4 matchers, 0–4 stages: line filters |= != |~ !~, label filters with and/or/parentheses, string and numeric comparisons; hostile strings) × random planner contexts (windows, limits 0/1/100/5000, direction, type, cluster); non-trivial = more than one matcher or at least one stage; distinct by (query, context). sem: queries of ≤3 matchers/≤3 stages × contexts × databases of 1–6 streams (labels drawn from the query's vocabulary, index rows on day−1/day/day+1 with gaps, ≤8 samples per stream at the window edges, mixed types); non-trivial = the expected result is non-empty. Every second query of text/sem/textx and two of three of semx are DERIVED FROM THE GRAMMAR (c07gram.go: the participle rules of logql_parser walked by reflection; parenthesis depth 0–3 drawn per filter, and/or/juxtaposed chains, quoted and ticked strings, every operator; label of a comparison drawn by class — stored, dropped, extracted only, stored and extracted, absent — ; pipelines starting with none / drop / parser / both; databases steered so that every comparison is true of some streams and false of others); keys gram:* = productions × position × depth measured on the real AST, an emitted-production obligation"
	covPlain, plainAtoms := &c07gCov{}, map[string]int{}
	if err := c07TextCov(r, rng.Fork(), n, covPlain); err != nil {
		return err
	}
	m := 300
	if tier != "quick" {
		m = 5000
	}
	if err := c07SemCov(r, rng.Fork(), m, covPlain, plainAtoms); err != nil {
		return err
	}
	if err := c07gVerdict(r, "plain", covPlain, plainAtoms, []string{"stored"}, c07gPlainStructs); err != nil {
		return err
	}
	nx := 700
	if tier != "quick" {
		nx = 10000
	}
	covX, atomsX := &c07gCov{}, map[string]int{}
	if err := c07TextX(r, rng.Fork(), nx, covX); err != nil {
		return err
	}
	mx := 700
	if tier != "quick" {
		mx = 6000
	}
	if err := c07SemX(r, rng.Fork(), mx, covX, atomsX); err != nil {
		return err
	}
	// the obligation on the generators: every production the model classifies as modelled / handed over, in every context;
	// the comparisons by label class are counted on the SEMANTIC stream alone (the oracle has to have seen them)
	return c07gVerdict(r, "x", covX, atomsX, c07gPositions, nil)
}
