package main

// C09, stream `engines-metric`: a metric query answered by ClickHouse alone and by the in-process engine over ClickHouse's
// log rows must give the same response.
//
// Whole query `agg by (…) (fn({sel} filters [| unwrap l] [d]) cmp) cmp`. ClickHouse alone: the statement the real
// clickhouse_planner builds for it (byte-equal to the C08 model plan, checked here for the very case) is evaluated by the
// reference interpreter (`Sql.evalSelA`); its matrix goes through the REAL matrix post-processors
// (`logql_transpiler_v2.MatrixPostProcessors`: ZeroEater, FixPeriod). In process: the log rows the reference interpreter
// returns for the statement of `{sel} filters` (hand-over form: ORDER BY timestamp, no LIMIT) are fed to the REAL
// `internal_planner.Plan` of `agg by (…) (fn({sel} [| unwrap l] [d]) cmp) cmp` — unwrap, by/without, the range aggregation,
// the comparison, the vector aggregation in process — followed by the same real post-processors. Oracle: the two responses
// are equal series by series (label set), point by point (timestamp, value up to float rounding).

import (
	"context"
	"fmt"
	"math"
	"sort"
	"strconv"
	"strings"
	"time"

	"github.com/metrico/qryn/reader/logql/logql_parser"
	lt "github.com/metrico/qryn/reader/logql/logql_transpiler_v2"
	"github.com/metrico/qryn/reader/logql/logql_transpiler_v2/internal_planner"
	"github.com/metrico/qryn/reader/logql/logql_transpiler_v2/shared"
	"verif/harness/h"
)

type c9MetCase struct {
	Whole  string `json:"whole"`
	InProc string `json:"in_process"`
	Req    mctx   `json:"request"`
	W      mctx   `json:"window_the_planners_see"`
	Dur    int64  `json:"range_ns"`
	DB     semDB  `json:"db"`
	Kind   string `json:"kind"`
}

// c9MatrixUpstream: a matrix handed to the post-processors as the ClickHouse getter's ScanMatrix would
type c9MatrixUpstream struct{ c9Upstream }

func (u *c9MatrixUpstream) IsMatrix() bool { return true }

func c9MetGen(r *h.Rng) *c9MetCase {
	streams := genSemStreams(r)
	{
		// the writer derives the fingerprint from the label set (C04 `fp_perm`): two streams never share one
		// (`SeriesStoreOk.fpOfLabels`); the generator of C08 may draw the same labels twice
		seen := map[string]bool{}
		var uniq []semStream
		for _, st := range streams {
			k := semDoc(st.Labels)
			if !seen[k] {
				seen[k] = true
				uniq = append(uniq, st)
			}
		}
		streams = uniq
	}
	selFull := genSemSelector(r, streams, false)
	matchers := selFull[:strings.Index(selFull, "}")+1]
	grouping := func() string {
		n := r.Range(1, 2)
		var ls []string
		for i := 0; i < n; i++ {
			ls = append(ls, h.Pick(r, []string{"a", "app", "job", "x", "level"}))
		}
		return h.Pick(r, []string{"by", "without"}) + " (" + strings.Join(ls, ",") + ")"
	}
	cmp := func() string {
		if !r.Chance(25) {
			return ""
		}
		return " " + h.Pick(r, []string{"==", "!=", ">", ">=", "<", "<="}) + " " + h.Pick(r, []string{"0", "1", "2", "0.5", "3", "2.5", "10"})
	}
	dur := h.Pick(r, []string{"1s", "2s", "5s", "7s", "15s", "30s", "1m", "1500ms", "1500us", "2500us"})
	unwrap := r.Chance(55)
	var fn, uw, rgrp string
	kind := ""
	if unwrap {
		fn = h.Pick(r, unwrapFns)
		uw = " | unwrap " + h.Pick(r, []string{"x", "x", "a", "_entry"})
		if r.Chance(40) {
			rgrp = " " + grouping()
		}
		kind = "unwrap:" + fn
	} else {
		fn = h.Pick(r, lraFns)
		kind = "range:" + fn
	}
	rcmp := cmp()
	build := func(sel string) string {
		s := fn + "(" + sel + uw + " [" + dur + "])" + rgrp + rcmp
		return s
	}
	whole, inproc := build(selFull), build(matchers)
	if r.Chance(50) {
		agg := h.Pick(r, aggFns)
		g := grouping()
		acmp := cmp()
		pos := r.Bool()
		ungrouped := r.Chance(30) // `sum(rate(…))`: one series with the empty label set (C08 `vector_agg_ungrouped`)
		wrap := func(inner string) string {
			if ungrouped {
				return agg + " (" + inner + ")" + acmp
			}
			if pos {
				return agg + " " + g + " (" + inner + ")" + acmp
			}
			return agg + " (" + inner + ") " + g + acmp
		}
		whole, inproc = wrap(whole), wrap(inproc)
		kind += ",agg:" + agg
		if ungrouped {
			kind += ",agg-ungrouped"
		} else {
			kind += ",agg-grouped"
		}
	}
	if rcmp != "" {
		kind += ",cmp"
	}
	if rgrp != "" {
		kind += ",range-grouping"
	}
	c := &c9MetCase{Whole: whole, InProc: inproc, Kind: kind}
	script, err := logql_parser.Parse(whole)
	if err != nil {
		return nil
	}
	d := scriptDuration(script)
	c.Dur = d
	req := genMCtx(r, d)
	req.Limit, req.Cluster = 0, false
	req.Type = uint8(r.Intn(2))
	nb := int64(r.Range(1, 4))
	req.To = req.From + nb*d + int64(r.Intn(3))*d/2
	switch r.Intn(6) {
	case 0:
		req.Step = d * int64(r.Range(2, 3)) // step above the range: StepFix on the ClickHouse side
	case 1:
		req.Step = d
	default:
		req.Step = d / int64(r.Range(1, 3))
		if req.Step <= 0 {
			req.Step = d
		}
	}
	c.Req = req
	c.W = req
	c.W.From = req.From / d * d
	c.W.To = req.To/d*d + d
	c.DB = genSemDB(r, streams, c.W, d)
	return c
}

type c9Point struct {
	ts  int64
	val float64
}

// c9MetSeries: canonical text of c9Canon → label set ↦ points
func c9MetSeries(canon string) (map[string][]c9Point, string) {
	res := map[string][]c9Point{}
	if canon == "-" {
		return res, ""
	}
	if strings.HasPrefix(canon, "ERR") || canon == "HANG" || canon == "CRASH" {
		return nil, canon
	}
	for _, g := range strings.Split(canon, "|") {
		lbl := ""
		var pts []c9Point
		for _, it := range strings.Split(g, ",") {
			f := strings.Split(it, ":")
			if len(f) != 4 {
				return nil, "unparsable item " + it
			}
			ts, _ := strconv.ParseInt(f[0], 10, 64)
			v := math.NaN()
			if f[3] != "nan" {
				bits, _ := strconv.ParseUint(f[3], 10, 64)
				v = math.Float64frombits(bits)
			}
			lbl = f[1]
			pts = append(pts, c9Point{ts, v})
		}
		if _, dup := res[lbl]; dup {
			return nil, "two series with the label set " + lbl
		}
		sort.Slice(pts, func(i, j int) bool { return pts[i].ts < pts[j].ts })
		res[lbl] = pts
	}
	return res, ""
}

func c9MetDiff(a, b map[string][]c9Point) string {
	for l, pa := range a {
		pb, ok := b[l]
		if !ok {
			return "series-only-in-process:" + l
		}
		if len(pa) != len(pb) {
			return fmt.Sprintf("points-differ:%s:%d-vs-%d", l, len(pa), len(pb))
		}
		for i := range pa {
			if pa[i].ts != pb[i].ts {
				return fmt.Sprintf("timestamps-differ:%s:%d-vs-%d", l, pa[i].ts, pb[i].ts)
			}
			x, y := pa[i].val, pb[i].val
			if !(x == y || math.Abs(x-y) <= 1e-9*math.Max(math.Abs(x), math.Abs(y))) {
				return fmt.Sprintf("values-differ:%s:@%d:%v-vs-%v", l, pa[i].ts, x, y)
			}
		}
	}
	for l := range b {
		if _, ok := a[l]; !ok {
			return "series-only-in-clickhouse:" + l
		}
	}
	return ""
}

// c9RunPost (child side): Mode "internal-post" = internal_planner.Plan + the real matrix post-processors over log rows;
// Mode "post" = the real matrix post-processors over a matrix
func c9RunPost(c c9Case) (res c9Out) {
	res.Internal = -1
	script, err := logql_parser.Parse(c.Query)
	if err != nil {
		res.Skip = "parse: " + err.Error()
		return
	}
	var top shared.RequestProcessor
	func() {
		defer func() {
			if e := recover(); e != nil {
				err = fmt.Errorf("panic: %v", e)
			}
		}()
		if c.Mode == "post" {
			top = &c9MatrixUpstream{c9Upstream{c.Batches}}
		} else {
			top, err = internal_planner.Plan(script, &c9Upstream{c.Batches})
			if err != nil {
				return
			}
		}
		top, err = lt.MatrixPostProcessors(script, top)
	}()
	if err != nil {
		res.Skip = "plan: " + err.Error()
		return
	}
	ctx, cancel := context.WithCancel(context.Background())
	defer cancel()
	pc := &shared.PlannerContext{From: time.Unix(0, c.From), To: time.Unix(0, c.To), Limit: c.Limit, Ctx: ctx,
		CancelCtx: func() {}, Step: time.Duration(c.Step), OrderASC: c.Asc}
	ch, err := top.Process(pc, nil)
	if err != nil {
		res.Skip = "process: " + err.Error()
		return
	}
	var out [][]shared.LogEntry
	timeout := time.After(30 * time.Second)
loop:
	for {
		select {
		case b, ok := <-ch:
			if !ok {
				break loop
			}
			out = append(out, b)
		case <-timeout:
			res.Canon = "HANG"
			return
		}
	}
	res.Canon, res.Fps = c9Canon(out)
	return
}

func c9MetKey(kind, diff string) string {
	ks := strings.Split(kind, ",")
	what := strings.SplitN(diff, ":", 2)[0]
	return "C09/engines-metric/" + ks[0] + "/" + what
}

func c9EnginesMetric(r *h.Result, rng *h.Rng, n int, fixed []*c9MetCase) error {
	r.Stream("engines-metric: whole metric query in ClickHouse (real statement = C08 model plan byte for byte, Sql.evalSelA) → real matrix post-processors, vs the selector's log rows (real statement, Sql.evalSelX) → REAL internal_planner (unwrap, by/without, range aggregation, comparison, vector aggregation) → the same post-processors")
	var cases []*c9MetCase
	cases = append(cases, fixed...)
	if n >= 300 {
		// directed cases: every class a cross-engine theorem covers (Read.engineClass) gets cases whatever the random draw
		want := func(pred func(c *c9MetCase) bool) {
			got := 0
			for try := 0; try < 4000 && got < 3; try++ {
				if c := c9MetGen(rng); c != nil && c.Req.Step <= c.Dur && pred(c) {
					cases = append(cases, c)
					got++
				}
			}
		}
		for _, fn := range unwrapFns {
			fn := fn
			want(func(c *c9MetCase) bool { return c.Kind == "unwrap:"+fn })
			want(func(c *c9MetCase) bool { return c.Kind == "unwrap:"+fn+",range-grouping" })
		}
		for _, fn := range aggFns {
			fn := fn
			want(func(c *c9MetCase) bool { return strings.Contains(c.Kind, ",agg:"+fn+",agg-ungrouped") })
			want(func(c *c9MetCase) bool { return strings.Contains(c.Kind, ",agg:"+fn+",agg-grouped") })
		}
	}
	for i := 0; i < n; i++ {
		if c := c9MetGen(rng); c != nil {
			cases = append(cases, c)
		}
	}
	var ops, textOps, impl, classOps []string
	var kept []*c9MetCase
	for _, c := range cases {
		script, err := logql_parser.Parse(c.Whole)
		if err != nil {
			r.Count("engines-metric:skip:parse")
			continue
		}
		ser, err := serMetric(script)
		if err != nil {
			r.Count("engines-metric:skip:outside-the-C08-fragment")
			continue
		}
		sqlText, err := implMetricSQL(script, c.W)
		if err != nil {
			r.Count("engines-metric:skip:clickhouse-plan-error")
			continue
		}
		ops = append(ops, "c09matrix "+c.W.ser()+" "+ser+" "+c.DB.ser())
		textOps = append(textOps, "c08plan "+c.W.ser()+" "+ser)
		classOps = append(classOps, "c09class "+c.W.ser()+" "+ser)
		impl = append(impl, h.Hex([]byte(sqlText)))
		kept = append(kept, c)
	}
	if err := r.Compare("engines-metric-text", textOps, impl, nil); err != nil {
		return err
	}
	ans, err := h.Model(ops)
	if err != nil {
		return err
	}
	// the class of every case, by the theorems' own predicates (Read.engineClass)
	classes, err := h.Model(classOps)
	if err != nil {
		return err
	}
	var runs []c9Case
	var owners []*c9MetCase
	var ownerClass []string
	var dbg [][2]string
	for i, c := range kept {
		a := ans[i]
		j := strings.Index(a, " rows ")
		if !strings.HasPrefix(a, "matrix ") || j < 0 {
			return fmt.Errorf("c09matrix answered %.200q for %s", a, c.Whole)
		}
		mtx, logRows := a[7:j], a[j+1:]
		rows, err := c9EngParseRows(logRows)
		if err != nil {
			return err
		}
		if strings.Contains(mtx, "null:") || strings.Contains(mtx, "?") {
			r.Count("engines-metric:skip:stream-without-series-row")
			continue
		}
		// the matrix as ScanMatrix hands it over: ordered by series, then time
		var flat []c9Entry
		fpIds := map[string]uint64{} // the reference interpreter's stand-in for cityHash64 is not confined to 64 bits
		if mtx != "-" {
			for _, s := range strings.Split(mtx, ";") {
				f := strings.Split(s, ":")
				if len(f) != 4 {
					return fmt.Errorf("c09matrix: row %q", s)
				}
				fp, ok := fpIds[f[0]]
				if !ok {
					fp = uint64(len(fpIds) + 1)
					fpIds[f[0]] = fp
				}
				ts, _ := strconv.ParseInt(f[2], 10, 64)
				nd := strings.Split(f[3], "/")
				num, _ := strconv.ParseFloat(nd[0], 64)
				den, _ := strconv.ParseFloat(nd[1], 64)
				lbls := map[string]string{}
				if f[1] != "-" {
					for _, kv := range strings.Split(f[1], "&") {
						p := strings.Split(kv, "=")
						lbls[string(h.UnHex(p[0]))] = string(h.UnHex(p[1]))
					}
				}
				flat = append(flat, c9Entry{Ts: ts, Fp: fp, Labels: lbls, Val: num / den})
			}
		}
		flat = append(flat, c9Entry{Err: "eof"})
		runs = append(runs, c9Case{Query: c.InProc, Mode: "internal-post", From: c.Req.From, To: c.Req.To, Step: c.Req.Step, Asc: c.Req.Asc, Batches: c9EngBatches(rng, rows)})
		runs = append(runs, c9Case{Query: c.Whole, Mode: "post", From: c.Req.From, To: c.Req.To, Step: c.Req.Step, Asc: c.Req.Asc, Batches: [][]c9Entry{flat}})
		owners = append(owners, c)
		ownerClass = append(ownerClass, classes[i])
		dbg = append(dbg, [2]string{mtx, logRows})
	}
	outs, err := c9RunChild(runs)
	if err != nil {
		return err
	}
	if len(outs) != len(runs) {
		return fmt.Errorf("engines-metric: child answered %d of %d cases", len(outs), len(runs))
	}
	classSeen, classNonEmpty := map[string]int{}, map[string]int{}
	for i, c := range owners {
		ip, ch := outs[2*i], outs[2*i+1]
		if ip.Skip != "" || ch.Skip != "" {
			r.Count("engines-metric:skip:" + strings.SplitN(ip.Skip+ch.Skip, ":", 2)[0])
			continue
		}
		a, ea := c9MetSeries(ip.Canon)
		b, eb := c9MetSeries(ch.Canon)
		r.Case("engines-metric:"+c.Whole+fmt.Sprint(c.Req, i), len(b) > 0)
		for _, k := range strings.Split(c.Kind, ",") {
			r.Count("engines-metric:" + k)
		}
		if c.Req.Step > c.Dur {
			r.Count("engines-metric:step>range")
		}
		r.Count("engines-metric:class:" + ownerClass[i])
		if len(b) > 0 {
			r.Count("engines-metric:class-nonempty:" + ownerClass[i])
		}
		classSeen[ownerClass[i]]++
		if len(b) > 0 {
			classNonEmpty[strings.Join(strings.Split(ownerClass[i], ":")[:2], ":")]++
		}
		if len(b) > 0 {
			r.Count("engines-metric:nonempty-result")
		} else {
			r.Count("engines-metric:empty-result")
		}
		diff := ""
		switch {
		case ea != "":
			diff = "in-process-failed:" + ea
		case eb != "":
			diff = "post-processing-of-the-clickhouse-matrix-failed:" + eb
		default:
			diff = c9MetDiff(a, b)
		}
		if diff != "" {
			key := c9MetKey(c.Kind, diff)
			if c.Req.Step > c.Dur {
				key = "C09/engines-metric/step-above-range"
			}
			if strings.HasPrefix(ownerClass[i], "proved") {
				r.Count("engines-metric:proved-class-differs:" + ownerClass[i])
			}
			r.Violate(key,
				fmt.Sprintf("the engines disagree on %s (range %d ns, step %d ns, window [%d, %d)): %s — in process over ClickHouse's log rows: %.300s; ClickHouse alone: %.300s",
					c.Whole, c.Dur, c.Req.Step, c.Req.From, c.Req.To, diff, ip.Canon, ch.Canon),
				map[string]any{"stream": "engines-metric", "metric": c, "clickhouse_matrix": dbg[i][0], "clickhouse_log_rows": dbg[i][1]})
		}
		if i%29 == 0 {
			r.Sample(map[string]any{"stream": "engines-metric", "query": c.Whole, "in_process": c.InProc, "range_ns": c.Dur, "step_ns": c.Req.Step, "class": ownerClass[i]})
		}
	}
	if n >= 300 {
		// fail closed: every class a cross-engine theorem covers must have cases, and cases with a non-empty result
		var need []string
		need = append(need, "proved:rangeAgg", "proved:rangeAgg:cmp", "finding:step-above-range")
		for _, fn := range unwrapFns {
			need = append(need, "proved:unwrapAgg:"+fn, "proved:byWithout:"+fn)
		}
		for _, fn := range aggFns {
			need = append(need, "proved-stage:vectorAgg:"+fn, "proved-stage:vectorAgg:"+fn+":ungrouped")
		}
		for _, k := range need {
			if classSeen[k] == 0 {
				return fmt.Errorf("engines-metric: no case of the class %s (a class a theorem of C09 covers got no case: generator or class predicate changed)", k)
			}
		}
		for _, k := range []string{"proved:rangeAgg", "proved:unwrapAgg", "proved:byWithout", "proved-stage:vectorAgg"} {
			if classNonEmpty[k] == 0 {
				return fmt.Errorf("engines-metric: no case with a non-empty result in the class %s", k)
			}
		}
	}
	return nil
}
