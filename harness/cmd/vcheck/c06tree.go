package main

// C06, text level: the span TEXT goes through the libraries the code uses — jx (writer) and fastjson (reader) — and
// the parsed trees (members in document order, duplicates kept) are what the Lean model starts from
// (Span.docOfTrees / absField). The trees are produced here by a walk that only calls the libraries' accessors.
//
//   TREE = z | t | f | n<hexraw>[:<f64 bits>] | s<hex> | a <n> TREE*n | o <n> ( <hexkey> TREE )*n
//   TEXT = <serial> <len> <tailhex> ( ! | TREE ) ( = | ! | TREE )        writer's tree, reader's tree
//   c06zipj|c06zipjrt|c06zipjview a|n <bodyOk> <ntexts> TEXT*
//   c06trace <tidhex> <start> <end> <npush> ( Z a|n <bodyOk> <n> TEXT* | O TRACES )*

import (
	"bufio"
	"bytes"
	"encoding/base64"
	"encoding/hex"
	"encoding/json"
	"fmt"
	"math"
	"sort"
	"strconv"
	"strings"
	"unicode/utf8"

	"github.com/go-faster/jx"
	runmarshal "github.com/metrico/qryn/reader/utils/unmarshal"
	"github.com/metrico/qryn/writer/utils/unmarshal"
	"github.com/valyala/fastjson"
	"github.com/valyala/fastjson/fastfloat"
	v11 "go.opentelemetry.io/proto/otlp/common/v1"
	trace "go.opentelemetry.io/proto/otlp/trace/v1"
	"google.golang.org/protobuf/proto"
	"verif/harness/h"
)

// ---------------------------------------------------------------- trees

// c06Node: a parsed JSON value (for the oracle's own reading); built from either library.
type c06Node struct {
	Kind byte // z t f n s a o
	Raw  string
	Str  string
	Arr  []*c06Node
	Keys []string
	Vals []*c06Node
}

func (n *c06Node) tokens(out []string) []string {
	switch n.Kind {
	case 'z', 't', 'f':
		return append(out, string(n.Kind))
	case 'n':
		return append(out, "n"+c06hex(n.Raw))
	case 's':
		return append(out, "s"+c06hex(n.Str))
	case 'a':
		out = append(out, "a", strconv.Itoa(len(n.Arr)))
		for _, c := range n.Arr {
			out = c.tokens(out)
		}
		return out
	default:
		out = append(out, "o", strconv.Itoa(len(n.Keys)))
		for i, k := range n.Keys {
			out = append(out, c06hex(k))
			out = n.Vals[i].tokens(out)
		}
		return out
	}
}

func (n *c06Node) depth() int {
	d := 0
	for _, c := range n.Arr {
		if x := c.depth(); x > d {
			d = x
		}
	}
	for _, c := range n.Vals {
		if x := c.depth(); x > d {
			d = x
		}
	}
	return d + 1
}

func (n *c06Node) first(key string) *c06Node {
	if n == nil || n.Kind != 'o' {
		return nil
	}
	for i, k := range n.Keys {
		if k == key {
			return n.Vals[i]
		}
	}
	return nil
}

func (n *c06Node) count(key string) int {
	c := 0
	if n != nil && n.Kind == 'o' {
		for _, k := range n.Keys {
			if k == key {
				c++
			}
		}
	}
	return c
}

func c06JxVal(d *jx.Decoder) (*c06Node, error) {
	switch d.Next() {
	case jx.String:
		s, err := d.StrBytes()
		if err != nil {
			return nil, err
		}
		return &c06Node{Kind: 's', Str: string(s)}, nil
	case jx.Number:
		n, err := d.Num()
		if err != nil {
			return nil, err
		}
		return &c06Node{Kind: 'n', Raw: string(n)}, nil
	case jx.Null:
		return &c06Node{Kind: 'z'}, d.Null()
	case jx.Bool:
		b, err := d.Bool()
		if b {
			return &c06Node{Kind: 't'}, err
		}
		return &c06Node{Kind: 'f'}, err
	case jx.Array:
		n := &c06Node{Kind: 'a'}
		err := d.Arr(func(d *jx.Decoder) error {
			c, err := c06JxVal(d)
			n.Arr = append(n.Arr, c)
			return err
		})
		return n, err
	case jx.Object:
		n := &c06Node{Kind: 'o'}
		err := d.Obj(func(d *jx.Decoder, key string) error {
			c, err := c06JxVal(d)
			n.Keys = append(n.Keys, key)
			n.Vals = append(n.Vals, c)
			return err
		})
		return n, err
	}
	return nil, fmt.Errorf("jx: no value")
}

// c06JxText: the first JSON value jx reads in text, and what follows it.
func c06JxText(text []byte) (n *c06Node, tail []byte) {
	d := jx.DecodeBytes(text)
	v, err := d.Raw()
	if err != nil {
		return nil, nil
	}
	used := len(v)
	v = append([]byte{}, v...)
	n, err = c06JxVal(jx.DecodeBytes(v))
	if err != nil {
		return nil, nil
	}
	return n, text[used:]
}

func c06FjVal(v *fastjson.Value) *c06Node {
	switch v.Type() {
	case fastjson.TypeNull:
		return &c06Node{Kind: 'z'}
	case fastjson.TypeTrue:
		return &c06Node{Kind: 't'}
	case fastjson.TypeFalse:
		return &c06Node{Kind: 'f'}
	case fastjson.TypeNumber:
		return &c06Node{Kind: 'n', Raw: string(v.MarshalTo(nil))}
	case fastjson.TypeString:
		return &c06Node{Kind: 's', Str: string(v.GetStringBytes())}
	case fastjson.TypeArray:
		n := &c06Node{Kind: 'a'}
		for _, c := range v.GetArray() {
			n.Arr = append(n.Arr, c06FjVal(c))
		}
		return n
	default:
		n := &c06Node{Kind: 'o'}
		v.GetObject().Visit(func(k []byte, c *fastjson.Value) {
			n.Keys = append(n.Keys, string(k))
			n.Vals = append(n.Vals, c06FjVal(c))
		})
		return n
	}
}

func c06FjText(text []byte) *c06Node {
	var p fastjson.Parser
	v, err := p.Parse(string(text))
	if err != nil {
		return nil
	}
	return c06FjVal(v)
}

// ---------------------------------------------------------------- text generator

type c06TText struct {
	Text   []byte
	Serial int
	W, R   *c06Node
	Tail   []byte
	// what the generator put in on purpose (classification of expected findings)
	Dup       bool // a member name the two sides consult occurs twice (top level, or serviceName in an endpoint)
	Surrogate bool // a lone \uD800..\uDFFF escape somewhere in a consulted string
	Deep      bool // nesting beyond what the reader's parser accepts
	Bad       bool // the writer must refuse the text
	Garbage   bool // something other than white space follows the object
}

func (t *c06TText) tokens() []string {
	out := []string{strconv.Itoa(t.Serial), strconv.Itoa(len(t.Text)), h.Hex(t.Tail)}
	if t.W == nil {
		out = append(out, "!")
	} else {
		out = t.W.tokens(out)
	}
	switch {
	case t.R == nil:
		out = append(out, "!")
	case t.W != nil && strings.Join(t.W.tokens(nil), " ") == strings.Join(t.R.tokens(nil), " "):
		out = append(out, "=")
	default:
		out = t.R.tokens(out)
	}
	return out
}

var c06NastyStrings = []string{"", "x", "svc", "a b", "ünï ✓", "q\"uo\\te", "tab\there", "nl\nx", "\x00nul", "😀", "0", "-1", "1700000000000000", "true", "null",
	"\xff", "a\xc3", "\xe2\x82", "name", "service.name", "0000000000000000", "café"}

// jsonStr: a JSON string literal for s in a random spelling (plain, \u escapes, escaped solidus). Raw invalid UTF-8 bytes
// are written as they are (both parsers let them through).
func c06JSONStr(rng *h.Rng, s string) string {
	var b strings.Builder
	b.WriteByte('"')
	for i := 0; i < len(s); {
		c := s[i]
		r, sz := utf8.DecodeRuneInString(s[i:])
		switch {
		case c == '"' || c == '\\':
			b.WriteByte('\\')
			b.WriteByte(c)
			i++
		case c < 0x20:
			switch {
			case c == '\n' && rng.Bool():
				b.WriteString(`\n`)
			case c == '\t' && rng.Bool():
				b.WriteString(`\t`)
			default:
				fmt.Fprintf(&b, `\u%04x`, c)
			}
			i++
		case r == utf8.RuneError && sz == 1:
			b.WriteByte(c)
			i++
		case rng.Chance(15) && r < 0x10000:
			if rng.Bool() {
				fmt.Fprintf(&b, `\u%04x`, r)
			} else {
				fmt.Fprintf(&b, `\u%04X`, r)
			}
			i += sz
		case rng.Chance(15) && r >= 0x10000:
			r1, r2 := (r-0x10000)>>10+0xd800, (r-0x10000)&0x3ff+0xdc00
			fmt.Fprintf(&b, `\u%04x\u%04x`, r1, r2)
			i += sz
		case c == '/' && rng.Chance(30):
			b.WriteString(`\/`)
			i++
		default:
			b.WriteString(s[i : i+sz])
			i += sz
		}
	}
	b.WriteByte('"')
	return b.String()
}

// c06JSONKey: a member name spelled without optional escapes (fastjson's Get looks raw names up first: a duplicated
// name with one occurrence spelled with escapes is found out of document order — outside the model, see notes/C06.md)
func c06JSONKey(k string) string {
	var b strings.Builder
	b.WriteByte('"')
	for i := 0; i < len(k); i++ {
		c := k[i]
		switch {
		case c == '"' || c == '\\':
			b.WriteByte('\\')
			b.WriteByte(c)
		case c < 0x20:
			fmt.Fprintf(&b, `\u%04x`, c)
		default:
			b.WriteByte(c)
		}
	}
	b.WriteByte('"')
	return b.String()
}

func c06TStr(rng *h.Rng) string {
	if rng.Chance(65) {
		return h.Pick(rng, c06NastyStrings)
	}
	return rng.Ident(1 + rng.Intn(9))
}

// any JSON value, nesting ≤ depth, duplicate keys at every level
func c06TAny(rng *h.Rng, depth int) string {
	k := rng.Intn(100)
	switch {
	case k < 25:
		return c06JSONStr(rng, c06TStr(rng))
	case k < 45:
		return h.Pick(rng, []string{"0", "-0", "1", "-17", "1.5", "1e3", "2E-2", "1700000000000000", "9223372036854775807", "9223372036854775808", "18446744073709551616", "0.0", "-1.25e+10"})
	case k < 55:
		return h.Pick(rng, []string{"true", "false", "null"})
	case k < 78 && depth > 0:
		n := rng.Intn(4)
		var es []string
		for i := 0; i < n; i++ {
			es = append(es, c06TAny(rng, depth-1))
		}
		return "[" + strings.Join(es, c06Sep(rng)) + "]"
	case depth > 0:
		n := rng.Intn(4)
		var ms []string
		keys := []string{"a", "b", "a", "k.x", "", "name", "serviceName", "timestamp", "value"}
		for i := 0; i < n; i++ {
			ms = append(ms, c06JSONKey(h.Pick(rng, keys))+":"+c06TAny(rng, depth-1))
		}
		return "{" + strings.Join(ms, c06Sep(rng)) + "}"
	}
	return "7"
}

func c06Sep(rng *h.Rng) string {
	return h.Pick(rng, []string{",", ",", ",", " , ", ",\t", ", "})
}

func c06THexID(rng *h.Rng, want int) string {
	n := want
	switch rng.Intn(8) {
	case 0:
		n = 1 + rng.Intn(40)
	case 1:
		n = want / 2
	case 2:
		n = want + 1 + rng.Intn(4)
	}
	s := c06GenHex(rng, n)
	switch rng.Intn(30) {
	case 0:
		s = strings.Repeat("0", n)
	case 1:
		s = strings.Repeat("f", n)
	case 2:
		s = strings.Repeat("F", n)
	}
	return s
}

func c06TTime(rng *h.Rng) (raw string, bad bool) {
	v := int64(0)
	switch rng.Intn(5) {
	case 0:
		v = int64(rng.Intn(1000))
	case 1:
		v = 1700000000000000 + int64(rng.Intn(1e9))
	case 2:
		v = int64(rng.U64())
	case 3:
		v = -int64(rng.Intn(1e6))
	default:
		v = h.Pick(rng, []int64{math.MaxInt64, math.MinInt64, 0, 9223372036854775, 9223372036854776})
	}
	switch k := rng.Intn(100); {
	case k < 40:
		return strconv.FormatInt(v, 10), false
	case k < 75:
		return c06JSONStr(rng, strconv.FormatInt(v, 10)), false
	case k < 80:
		return `"+` + strconv.FormatInt(int64(rng.Intn(1e9)), 10) + `"`, false
	case k < 84:
		return `"00` + strconv.Itoa(rng.Intn(1000)) + `"`, false
	case k < 86:
		return "-0", false
	case k < 91:
		return c06JSONStr(rng, h.Pick(rng, []string{"", " 5", "5 ", "1_000", "0x10", "1.5", "1e3", "9223372036854775808", "+", "-", "١٢"})), true
	case k < 96:
		return h.Pick(rng, []string{"1.0", "1e3", "1E2", "0.5", "9223372036854775808", "-9223372036854775809", "123456789012345678901234567890", "-1.5"}), true
	default:
		return h.Pick(rng, []string{"null", "true", "[1]", "{}"}), true
	}
}

func c06TEndpoint(rng *h.Rng, t *c06TText, wild bool) string {
	if wild && rng.Chance(5) {
		t.Bad = true
		return h.Pick(rng, []string{"null", `"ep"`, "5", "[]", "true"})
	}
	var ms []string
	nsvc := 0
	if rng.Chance(70) {
		nsvc = 1
		if rng.Chance(12) {
			nsvc = 2 + rng.Intn(2)
			t.Dup = true
		}
	}
	for i := 0; i < nsvc; i++ {
		if wild && rng.Chance(6) {
			t.Bad = true
			ms = append(ms, `"serviceName":`+h.Pick(rng, []string{"null", "7", "{}", `["a"]`, "false"}))
		} else {
			s := c06TStr(rng)
			if rng.Chance(4) {
				s = "lone"
				ms = append(ms, `"serviceName":"lo\ud800ne"`)
				t.Surrogate = true
				continue
			}
			ms = append(ms, `"serviceName":`+c06JSONStr(rng, s))
		}
	}
	for _, a := range []string{"ipv4", "ipv6"} {
		if rng.Chance(35) {
			switch rng.Intn(6) {
			case 0:
				ms = append(ms, `"`+a+`":167772161`)
			case 1:
				ms = append(ms, `"`+a+`":"::1"`, `"`+a+`":"10.1.1.1"`)
			default:
				ms = append(ms, `"`+a+`":`+c06JSONStr(rng, "10.0.0."+strconv.Itoa(rng.Intn(255))))
			}
		}
	}
	if rng.Chance(45) {
		ms = append(ms, `"port":`+h.Pick(rng, []string{"0", "80", "65535", `"80"`, "8080", "-1", "80.0", "8e1", "-0", "9223372036854775807", "9223372036854775808", "null", "1234567890123456789", "12345678901234567890"}))
		if rng.Chance(10) {
			ms = append(ms, `"port":443`)
		}
	}
	if rng.Chance(15) {
		ms = append(ms, `"zone":`+c06TAny(rng, 3))
	}
	for i := len(ms) - 1; i > 0; i-- {
		j := rng.Intn(i + 1)
		ms[i], ms[j] = ms[j], ms[i]
	}
	return "{" + strings.Join(ms, c06Sep(rng)) + "}"
}

// c06GenTText: one span text. wild: ill-formed members may occur. big: a tag value ≥ 64 KiB.
func c06GenTText(rng *h.Rng, serial int, wild, big bool, tid string) *c06TText {
	t := &c06TText{Serial: serial}
	type mem struct{ k, v string }
	var ms []mem
	add := func(k, v string) { ms = append(ms, mem{k, v}) }
	str := func(s string) string {
		if wild && rng.Chance(3) {
			t.Surrogate = true
			return `"` + h.Pick(rng, []string{`\ud800`, `a\udfffb`, `\ud800A`, `\ud83d`}) + `"`
		}
		return c06JSONStr(rng, s)
	}
	if !wild || rng.Chance(96) {
		if tid != "" {
			add("traceId", `"`+tid+`"`)
		} else {
			add("traceId", `"`+c06THexID(rng, 32)+`"`)
		}
	}
	if !wild || rng.Chance(96) {
		add("id", `"`+c06THexID(rng, 16)+`"`)
	}
	if rng.Chance(60) {
		add("parentId", `"`+c06THexID(rng, 16)+`"`)
	}
	if wild && rng.Chance(8) {
		t.Bad = true
		k := h.Pick(rng, []string{"traceId", "id", "parentId"})
		add(k, h.Pick(rng, []string{`""`, `"xyz"`, `"12g4"`, "12", "null", `" 1"`, `"1g"`}))
	}
	if rng.Chance(85) {
		raw, bad := c06TTime(rng)
		if bad && !wild {
			raw, bad = "1700000000000000", false
		}
		add("timestamp", raw)
		t.Bad = t.Bad || bad
	}
	if rng.Chance(80) {
		raw, bad := c06TTime(rng)
		if bad && !wild {
			raw, bad = `"250"`, false
		}
		add("duration", raw)
		t.Bad = t.Bad || bad
	}
	if rng.Chance(85) {
		if wild && rng.Chance(4) {
			add("name", h.Pick(rng, []string{"null", "5", "{}", "[]"}))
			t.Bad = true
		} else {
			add("name", str(c06TStr(rng)))
		}
	}
	if rng.Chance(50) {
		add("kind", h.Pick(rng, []string{`"CLIENT"`, `"SERVER"`, `"PRODUCER"`, `"CONSUMER"`, `"client"`, `""`, `"X"`, "3", "null", `"CLIENT"`}))
	}
	for _, ep := range []string{"localEndpoint", "remoteEndpoint"} {
		if rng.Chance(65) {
			add(ep, c06TEndpoint(rng, t, wild))
		}
	}
	if rng.Chance(75) {
		if wild && rng.Chance(4) {
			add("tags", h.Pick(rng, []string{"null", "[]", `"t"`, "1"}))
			t.Bad = true
		} else {
			n := rng.Intn(6)
			var tm []string
			keys := append(append([]string{}, c06PlainKeys...), "name", "service.name", "local_endpoint_service_name")
			for i := 0; i < n; i++ {
				k := h.Pick(rng, keys)
				if rng.Chance(80) {
					tm = append(tm, c06JSONStr(rng, k)+":"+str(c06TStr(rng)))
				} else {
					tm = append(tm, c06JSONStr(rng, k)+":"+c06TAny(rng, 4))
				}
			}
			if big {
				tm = append(tm, `"big":"`+strings.Repeat("y", 64*1024+rng.Intn(2000))+`"`)
			}
			add("tags", "{"+strings.Join(tm, c06Sep(rng))+"}")
		}
	}
	if rng.Chance(30) {
		switch rng.Intn(4) {
		case 0:
			add("annotations", c06TAny(rng, 3))
		default:
			n := rng.Intn(4)
			var as []string
			for i := 0; i < n; i++ {
				ts := h.Pick(rng, []string{"1700000000000001", "0", "5", `"7"`, "1.5", "18446744073709551", "18446744073709552", "18446744073709551615", "-3", "null", "007"})
				switch rng.Intn(6) {
				case 0:
					as = append(as, c06TAny(rng, 2))
				case 1:
					as = append(as, `{"value":`+c06JSONStr(rng, c06TStr(rng))+`}`)
				case 2:
					as = append(as, `{"timestamp":`+ts+`}`)
				default:
					as = append(as, `{"timestamp":`+ts+`,"value":`+h.Pick(rng, []string{c06JSONStr(rng, c06TStr(rng)), "5", "null"})+`}`)
				}
			}
			add("annotations", "["+strings.Join(as, c06Sep(rng))+"]")
		}
	}
	for _, k := range []string{"debug", "shared", "zz", "", "ünï"} {
		if rng.Chance(15) {
			add(k, c06TAny(rng, 4))
		}
	}
	// duplicates of members the two sides consult
	if rng.Chance(10) && len(ms) > 0 {
		k := h.Pick(rng, []string{"name", "parentId", "tags", "localEndpoint", "remoteEndpoint", "kind", "timestamp", "id", "traceId", "duration", "annotations"})
		var v string
		switch k {
		case "name":
			v = c06JSONStr(rng, c06TStr(rng))
		case "parentId", "id":
			v = `"` + c06THexID(rng, 16) + `"`
		case "traceId":
			v = `"` + c06THexID(rng, 32) + `"`
		case "tags":
			v = `{"dup":"1"}`
		case "localEndpoint", "remoteEndpoint":
			v = `{"serviceName":"dupsvc"}`
		case "kind":
			v = `"SERVER"`
		case "annotations":
			v = `[{"timestamp":9,"value":"dup"}]`
		default:
			v = strconv.Itoa(rng.Intn(100000))
		}
		n := 0
		for _, m := range ms {
			if m.k == k {
				n++
			}
		}
		add(k, v)
		if n > 0 {
			t.Dup = true
		}
	}
	for i := len(ms) - 1; i > 0; i-- {
		j := rng.Intn(i + 1)
		ms[i], ms[j] = ms[j], ms[i]
	}
	var parts []string
	for _, m := range ms {
		key := c06JSONKey(m.k)
		dup := 0
		for _, o := range ms {
			if o.k == m.k {
				dup++
			}
		}
		if dup == 1 && rng.Chance(10) {
			// an escaped spelling of the member name (unique names only: fastjson looks raw names up first)
			key = c06JSONStr(rng, m.k)
			if rng.Bool() && m.k != "" && m.k[0] < 0x80 {
				key = fmt.Sprintf(`"\u%04x%s`, m.k[0], c06JSONKey(m.k[1:])[1:])
			}
		}
		parts = append(parts, key+h.Pick(rng, []string{":", ":", ": ", " : "})+m.v)
	}
	lead, trail := "", ""
	if rng.Chance(10) {
		lead = h.Pick(rng, []string{" ", "\t", "  "})
	}
	if rng.Chance(10) {
		trail = h.Pick(rng, []string{" ", "\t", " \t "})
	}
	t.Text = []byte(lead + "{" + h.Pick(rng, []string{"", "", " "}) + strings.Join(parts, c06Sep(rng)) + "}" + trail)
	return t
}

// ---------------------------------------------------------------- body framing through the libraries

// c06SplitBody: the texts the two Decode methods hand to decodeSpan, obtained with the same library calls.
func c06SplitBody(nd bool, body []byte) (texts [][]byte, ok bool) {
	if nd {
		sc := bufio.NewScanner(bytes.NewReader(body))
		sc.Buffer(make([]byte, 0, 64*1024), math.MaxInt)
		sc.Split(bufio.ScanLines)
		for sc.Scan() {
			texts = append(texts, append([]byte{}, sc.Bytes()...))
		}
		return texts, sc.Err() == nil
	}
	dec := jx.Decode(bytes.NewReader(body), 64*1024)
	err := dec.Arr(func(d *jx.Decoder) error {
		raw, err := dec.Raw()
		if err != nil {
			return err
		}
		texts = append(texts, append([]byte{}, raw...))
		return nil
	})
	return texts, err == nil
}

// ---------------------------------------------------------------- the oracle's own reading of a span tree

type c06Ref struct {
	Tid, Sid, Pid []byte
	Name, Svc     string
	Tags          [][2]string // name?, endpoint service names, string tags, service.name — in document order (writer's tag rows)
	RTags         [][2]string // string tags of the tags member (reader's attributes before the endpoint attributes)
	Dup           bool
}

func c06RefOf(n *c06Node) *c06Ref {
	r := &c06Ref{}
	if n == nil || n.Kind != 'o' {
		return r
	}
	for _, k := range []string{"traceId", "id", "parentId", "name", "tags", "localEndpoint", "remoteEndpoint", "timestamp", "duration"} {
		if n.count(k) > 1 {
			r.Dup = true
		}
	}
	s := func(x *c06Node) string {
		if x != nil && x.Kind == 's' {
			return x.Str
		}
		return ""
	}
	r.Tid = c06PadHex(s(n.first("traceId")), 32)
	r.Sid = c06PadHex(s(n.first("id")), 16)
	if p := n.first("parentId"); p != nil {
		r.Pid = c06PadHex(s(p), 16)
	}
	r.Name = s(n.first("name"))
	local, remote := "", ""
	for i, k := range n.Keys {
		v := n.Vals[i]
		switch k {
		case "name":
			r.Tags = append(r.Tags, [2]string{"name", s(v)})
		case "localEndpoint", "remoteEndpoint":
			if v.count("serviceName") > 1 {
				r.Dup = true
			}
			pfx := "local_endpoint_"
			if k == "remoteEndpoint" {
				pfx = "remote_endpoint_"
			}
			for j, ek := range v.Keys {
				if ek == "serviceName" {
					r.Tags = append(r.Tags, [2]string{pfx + "service_name", s(v.Vals[j])})
				}
			}
			if k == "localEndpoint" {
				local = s(v.first("serviceName"))
			} else {
				remote = s(v.first("serviceName"))
			}
		case "tags":
			if v.Kind == 'o' {
				for j, tk := range v.Keys {
					if v.Vals[j].Kind == 's' {
						r.Tags = append(r.Tags, [2]string{tk, v.Vals[j].Str})
					}
				}
			}
		}
	}
	if tg := n.first("tags"); tg != nil && tg.Kind == 'o' {
		for j, tk := range tg.Keys {
			if tg.Vals[j].Kind == 's' {
				r.RTags = append(r.RTags, [2]string{tk, tg.Vals[j].Str})
			}
		}
	}
	r.Svc = local
	if r.Svc == "" {
		r.Svc = remote
	}
	r.Tags = append(r.Tags, [2]string{"service.name", r.Svc})
	return r
}

// c06RefAccept: is the span object well-formed by the Zipkin v2 rules the writer enforces (ids hex and present,
// integer times as number or string, name a string, endpoints objects with string service names, tags an object)
func c06RefAccept(n *c06Node) bool {
	if n == nil || n.Kind != 'o' {
		return false
	}
	hexOK := func(v *c06Node, want int) bool {
		return v.Kind == 's' && len(v.Str) > 0 && c06PadHex(v.Str, want) != nil
	}
	timeOK := func(v *c06Node) bool {
		switch v.Kind {
		case 's':
			_, err := strconv.ParseInt(v.Str, 10, 64)
			return err == nil
		case 'n':
			r := strings.TrimPrefix(v.Raw, "-")
			if r == "" || (len(r) > 1 && r[0] == '0') || strings.Trim(r, "0123456789") != "" {
				return false
			}
			_, err := strconv.ParseInt(v.Raw, 10, 64)
			return err == nil
		}
		return false
	}
	for i, k := range n.Keys {
		v := n.Vals[i]
		switch k {
		case "traceId":
			if !hexOK(v, 32) {
				return false
			}
		case "id", "parentId":
			if !hexOK(v, 16) {
				return false
			}
		case "timestamp", "duration":
			if !timeOK(v) {
				return false
			}
		case "name":
			if v.Kind != 's' {
				return false
			}
		case "localEndpoint", "remoteEndpoint":
			if v.Kind != 'o' {
				return false
			}
			for j, ek := range v.Keys {
				if ek == "serviceName" && v.Vals[j].Kind != 's' {
					return false
				}
			}
		case "tags":
			if v.Kind != 'o' {
				return false
			}
		}
	}
	return n.count("traceId") > 0 && n.count("id") > 0
}

// ---------------------------------------------------------------- JSON view

func c06IsNaN(bits uint64) bool { return bits>>52&0x7ff == 0x7ff && bits&(1<<52-1) != 0 }

// c06JSONView: canonical text of SpanToJSONSpan(span) (see Driver.C06.rJSpan) and its json.Marshal.
func c06JSONView(sp *trace.Span) (canon string, js string) {
	defer func() {
		if p := recover(); p != nil {
			canon, js = "FAULT", fmt.Sprint(p)
		}
	}()
	j := runmarshal.SpanToJSONSpan(sp)
	b, err := json.Marshal(j)
	if err != nil {
		return "MARSHAL:" + err.Error(), ""
	}
	var attrs []string
	for i, a := range j.Attributes {
		v := a.Value.StringValue
		var src *v11.AnyValue
		if i < len(sp.Attributes) {
			src = sp.Attributes[i].GetValue()
		}
		switch src.GetValue().(type) {
		case *v11.AnyValue_StringValue, *v11.AnyValue_BoolValue, *v11.AnyValue_IntValue, *v11.AnyValue_BytesValue:
			attrs = append(attrs, c06hex(a.Key)+",x"+c06hex(v))
		case *v11.AnyValue_DoubleValue:
			f, err := strconv.ParseFloat(v, 64)
			switch {
			case err != nil:
				attrs = append(attrs, c06hex(a.Key)+",g?"+v)
			case c06IsNaN(math.Float64bits(f)):
				attrs = append(attrs, c06hex(a.Key)+",gNaN")
			default:
				attrs = append(attrs, c06hex(a.Key)+",g"+strconv.FormatUint(math.Float64bits(f), 10))
			}
		default:
			switch {
			case v == "":
				// json.Marshal refused the value (NaN/Inf inside) and its error is dropped
				attrs = append(attrs, c06hex(a.Key)+",x-")
			case !json.Valid([]byte(v)):
				attrs = append(attrs, c06hex(a.Key)+",j?"+v)
			default:
				attrs = append(attrs, c06hex(a.Key)+",j")
			}
		}
	}
	sort.Strings(attrs)
	var events []string
	for _, e := range j.Events {
		events = append(events, strconv.FormatUint(e.TimeUnixNano, 10)+","+c06hex(e.Name))
	}
	code, msg := 0, ""
	if j.Status != nil {
		code, msg = int(j.Status.Code), j.Status.Message
	}
	tid := j.TraceId
	if j.TraceID != j.TraceId {
		tid = "MISMATCH" + j.TraceID + "/" + j.TraceId
	}
	sid := j.SpanId
	if j.SpanID != j.SpanId {
		sid = "MISMATCH" + j.SpanID + "/" + j.SpanId
	}
	return strings.Join([]string{"J", c06hex(tid), c06hex(sid), c06hex(j.Name), strconv.FormatUint(j.StartTimeUnixNano, 10),
		strconv.FormatUint(j.EndTimeUnixNano, 10), c06hex(j.ParentSpanId), c06hex(j.ServiceName), strings.Join(attrs, ";"),
		strings.Join(events, ";"), strconv.Itoa(code), c06hex(msg)}, ":"), string(b)
}

func c06ViewsText(res *c06ReadResult) string {
	if res == nil {
		return "crashed"
	}
	end := strings.SplitN(res.Canon, "|", 2)[0]
	return strings.Join(append([]string{end}, res.Views...), "|")
}

// the oracle on the JSON view of a stored span: no fault, a JSON document, hex ids of the row, parent omitted iff
// empty or all zeros, one attribute per attribute of the span
func c06OracleView(r *h.Result, what string, rows []c06Row, res *c06ReadResult, replay map[string]any) {
	if res == nil || len(res.Views) != len(res.Spans) {
		return
	}
	for i, v := range res.Views {
		if i >= len(rows) {
			break
		}
		row := rows[i]
		if v == "FAULT" || strings.HasPrefix(v, "MARSHAL:") {
			r.Violate("C06/json-view-fault", fmt.Sprintf("%s span %d: the JSON view of a stored span faults: %s", what, i, res.JSON[i]), replay)
			continue
		}
		var doc map[string]any
		if err := json.Unmarshal([]byte(res.JSON[i]), &doc); err != nil {
			r.Violate("C06/json-view-not-json", fmt.Sprintf("%s span %d: the JSON view is not a JSON document: %v", what, i, err), replay)
			continue
		}
		if doc["traceId"] != hex.EncodeToString(row.Tid) || doc["traceID"] != hex.EncodeToString(row.Tid) ||
			doc["spanId"] != hex.EncodeToString(row.Sid) || doc["spanID"] != hex.EncodeToString(row.Sid) {
			r.Violate("C06/json-view-ids", fmt.Sprintf("%s span %d: JSON view ids %v/%v, stored %x/%x", what, i, doc["traceId"], doc["spanId"], row.Tid, row.Sid), replay)
		}
		sp := c06SpanOf(res.Spans[i])
		if sp == nil {
			continue
		}
		zero := len(sp.ParentSpanId) == 0 || bytes.Equal(sp.ParentSpanId, make([]byte, 8))
		p, has := doc["parentSpanId"]
		if zero == has || (has && p != hex.EncodeToString(sp.ParentSpanId)) {
			r.Violate("C06/json-view-parent", fmt.Sprintf("%s span %d: parent %x shown as %v (present %v)", what, i, sp.ParentSpanId, p, has), replay)
		}
		as, _ := doc["attributes"].([]any)
		if len(as) != len(sp.Attributes) {
			r.Violate("C06/json-view-attr-count", fmt.Sprintf("%s span %d: %d attributes shown, the span has %d", what, i, len(as), len(sp.Attributes)), replay)
			continue
		}
		for k, a := range as {
			am, _ := a.(map[string]any)
			vm, _ := am["value"].(map[string]any)
			sv, _ := vm["stringValue"].(string)
			kv := sp.Attributes[k]
			want, check := "", true
			switch x := kv.GetValue().GetValue().(type) {
			case *v11.AnyValue_StringValue:
				// json.Marshal replaces invalid UTF-8; compare valid strings only
				want, check = x.StringValue, utf8.ValidString(x.StringValue)
			case *v11.AnyValue_IntValue:
				want = strconv.FormatInt(x.IntValue, 10)
			case *v11.AnyValue_BoolValue:
				want = strconv.FormatBool(x.BoolValue)
			case *v11.AnyValue_BytesValue:
				want = base64.StdEncoding.EncodeToString(x.BytesValue)
			default:
				check = false
			}
			if am["key"] != kv.Key && utf8.ValidString(kv.Key) {
				r.Violate("C06/json-view-attr-key", fmt.Sprintf("%s span %d: attribute %d shown as %v, is %q", what, i, k, am["key"], kv.Key), replay)
			}
			if check && sv != want {
				r.Violate("C06/json-view-attr-value", fmt.Sprintf("%s span %d: attribute %q shown as %q, is %q", what, i, kv.Key, sv, want), replay)
			}
		}
	}
}

// ---------------------------------------------------------------- streams

type c06TCase struct {
	texts []*c06TText
	nd    bool
	body  []byte
	ok    bool // framing intact
	op    string
	w     *c06Written
	name  func([]byte) string
}

func (c *c06TCase) replay(what string) map[string]any {
	fr := "array"
	if c.nd {
		fr = "ndjson"
	}
	return map[string]any{"stream": "zipkin-tree", "framing": fr, "what": what, "body_hex": hex.EncodeToString(c06TruncB(c.body, 300000)), "body": c06Trunc(string(c.body), 3000)}
}

func c06TruncB(b []byte, n int) []byte {
	if len(b) > n {
		return b[:n]
	}
	return b
}

func c06TOp(op string, nd bool, ok bool, texts []*c06TText) string {
	f, o := "a", "0"
	if nd {
		f = "n"
	}
	if ok {
		o = "1"
	}
	out := []string{op, f, o, strconv.Itoa(len(texts))}
	for _, t := range texts {
		out = append(out, t.tokens()...)
	}
	return strings.Join(out, " ")
}

// c06MakeTCase: a body in one framing → the texts the library hands over → trees → real writer.
func c06MakeTCase(nd bool, body []byte, gen []*c06TText, serial *int) *c06TCase {
	c := &c06TCase{nd: nd, body: body}
	raws, ok := c06SplitBody(nd, body)
	c.ok = ok
	bySerial := map[string]int{}
	for i, raw := range raws {
		t := &c06TText{Text: raw}
		if i < len(gen) && bytes.Equal(bytes.TrimSpace(gen[i].Text), bytes.TrimSpace(raw)) {
			g := gen[i]
			t.Dup, t.Surrogate, t.Deep, t.Bad, t.Garbage = g.Dup, g.Surrogate, g.Deep, g.Bad, g.Garbage
		}
		if n, ok := bySerial[string(raw)]; ok {
			t.Serial = n
		} else {
			*serial++
			t.Serial = *serial
			bySerial[string(raw)] = t.Serial
		}
		t.W, t.Tail = c06JxText(raw)
		t.R = c06FjText(raw)
		c.texts = append(c.texts, t)
	}
	parser := unmarshal.UnmarshalZipkinJSONV2
	if nd {
		parser = unmarshal.UnmarshalZipkinNDJSONV2
	}
	c.w = c06Write(parser, body)
	c.name = func(p []byte) string {
		if len(p) == 0 {
			return "E"
		}
		if n, ok := bySerial[string(p)]; ok {
			return "Z" + strconv.Itoa(n)
		}
		return "X" + hex.EncodeToString(c06TruncB(p, 64))
	}
	c.op = c06TOp("c06zipj", nd, ok, c.texts)
	return c
}

func c06TBody(nd bool, texts []*c06TText, rng *h.Rng) []byte {
	var parts [][]byte
	for _, t := range texts {
		parts = append(parts, t.Text)
	}
	if nd {
		sep := "\n"
		if rng.Chance(15) {
			sep = "\r\n"
		}
		b := bytes.Join(parts, []byte(sep))
		if rng.Chance(30) && len(parts) > 0 {
			b = append(b, sep...)
		}
		return b
	}
	return []byte("[" + string(bytes.Join(parts, []byte(c06Sep(rng)))) + "]")
}

// the class of an expected (listed) finding a text belongs to and the oracle keys that class explains; a mismatch
// under any other key, or on a text of no class, is a violation in its own right
func c06TClass(t *c06TText, key string) string {
	in := func(keys ...string) bool {
		for _, k := range keys {
			if k == key {
				return true
			}
		}
		return false
	}
	switch {
	case t.R == nil && t.W != nil && t.W.depth() > 300:
		if in("C06/zipkin-read-incomplete", "") {
			return "C06/zipkin-nesting-over-300-unreadable"
		}
	case t.W != nil && c06RefOf(t.W).Dup:
		// the writer keeps the last occurrence (and a tag row for each), the reader looks the first one up
		if in("C06/zipkin-row-name", "C06/zipkin-row-parent", "C06/zipkin-row-service-name", "C06/zipkin-tag-rows", "C06/zipkin-read-name", "C06/zipkin-read-parent",
			"C06/zipkin-read-service-name", "C06/zipkin-read-attributes", "") {
			return "C06/zipkin-duplicate-member"
		}
	case t.W != nil && t.R != nil && strings.Join(t.W.tokens(nil), " ") != strings.Join(t.R.tokens(nil), " "):
		if in("C06/zipkin-row-name", "C06/zipkin-row-service-name", "C06/zipkin-tag-rows", "C06/zipkin-read-name",
			"C06/zipkin-read-service-name", "C06/zipkin-read-attributes", "") {
			return "C06/zipkin-parsers-disagree-on-string"
		}
	}
	return ""
}

func c06OracleTree(r *h.Result, c *c06TCase, rd *c06ReadResult) {
	w := c.w
	fr := "array"
	if c.nd {
		fr = "ndjson"
	}
	V := func(t *c06TText, key, what string) {
		if t != nil {
			if cl := c06TClass(t, key); cl != "" {
				key = cl
			}
		}
		r.Violate(key, what, c.replay(what))
	}
	for _, n := range w.Notes {
		V(nil, "C06/zipkin-columns", "Zipkin: "+n)
	}
	// acceptance: by the oracle's own reading of the writer's rule on the writer's tree
	mustReject := !c.ok
	for _, t := range c.texts {
		if t.W == nil || t.W.Kind != 'o' || len(bytes.TrimSpace(t.Tail)) > 0 {
			mustReject = true
		}
	}
	if mustReject {
		if !w.Rej {
			V(nil, "C06/zipkin-bad-text-stored", fmt.Sprintf("%s: a body with a text that is not one JSON object (or with broken framing) produced storable rows", fr))
		}
		return
	}
	// the members themselves, by the oracle's own reading of the Zipkin rules on the tree the OTHER library parsed
	wellFormed := true
	for _, t := range c.texts {
		src := t.R
		if src == nil {
			src = t.W
		}
		if !c06RefAccept(src) {
			wellFormed = false
		}
	}
	if !wellFormed {
		if !w.Rej {
			V(nil, "C06/zipkin-bad-span-stored", fmt.Sprintf("%s: a body with an ill-formed span (missing/empty/non-hex id, ill-typed member) produced storable rows", fr))
		}
		return
	}
	if w.Rej {
		V(nil, "C06/zipkin-accepted-request-rejected", fmt.Sprintf("%s: a body of well-formed span objects is refused: %s", fr, w.Err))
		return
	}
	if len(w.Rows) != len(c.texts) {
		V(nil, "C06/zipkin-row-count", fmt.Sprintf("%s: %d span texts produced %d trace rows", fr, len(c.texts), len(w.Rows)))
		return
	}
	ti := 0
	for i, t := range c.texts {
		row := w.Rows[i]
		if !bytes.Equal(row.Payload, t.Text) {
			V(t, "C06/zipkin-payload", fmt.Sprintf("%s span %d: the stored payload is not the span text", fr, i))
		}
		if row.Ptype != 1 {
			V(t, "C06/zipkin-row-payload-type", fmt.Sprintf("%s span %d: payload_type %d", fr, i, row.Ptype))
		}
		// the columns against the oracle's reading of the READER's tree (what the text says, read by the other library)
		src := t.R
		if src == nil {
			src = t.W
		}
		ref := c06RefOf(src)
		switch {
		case !bytes.Equal(row.Tid, ref.Tid) && !ref.Dup:
			V(t, "C06/zipkin-row-trace-id", fmt.Sprintf("%s span %d: trace_id %x, the text says %x", fr, i, row.Tid, ref.Tid))
		case !bytes.Equal(row.Sid, ref.Sid) && !ref.Dup:
			V(t, "C06/zipkin-row-span-id", fmt.Sprintf("%s span %d: span_id %x, the text says %x", fr, i, row.Sid, ref.Sid))
		case !bytes.Equal(row.Pid, ref.Pid):
			V(t, "C06/zipkin-row-parent", fmt.Sprintf("%s span %d: parent_id %x, the text says %x", fr, i, row.Pid, ref.Pid))
		case row.Name != ref.Name:
			V(t, "C06/zipkin-row-name", fmt.Sprintf("%s span %d: name %q, the text says %q", fr, i, row.Name, ref.Name))
		case row.Svc != ref.Svc:
			V(t, "C06/zipkin-row-service-name", fmt.Sprintf("%s span %d: service_name %q, the text says %q", fr, i, row.Svc, ref.Svc))
		}
		// tag rows: exactly the flattening of the text, in order, with the span's ids and times
		want := ref.Tags
		if ti+len(want) > len(w.Tags) {
			V(t, "C06/zipkin-tag-missing", fmt.Sprintf("%s span %d: %d attributes, %d tag rows left", fr, i, len(want), len(w.Tags)-ti))
			return
		}
		for j, kv := range want {
			g := w.Tags[ti+j]
			if g.Key != kv[0] || g.Val != kv[1] {
				V(t, "C06/zipkin-tag-rows", fmt.Sprintf("%s span %d: tag row %d is %q=%q, the text gives %q=%q", fr, i, j, g.Key, g.Val, kv[0], kv[1]))
				break
			}
			if !bytes.Equal(g.Tid, row.Tid) || !bytes.Equal(g.Sid, row.Sid) || g.Ts != row.Ts || g.Dur != row.Dur || g.Date != row.Ts/1000000000 {
				V(t, "C06/zipkin-tag-ids-times", fmt.Sprintf("%s span %d: tag row %q carries other ids/times than its span", fr, i, g.Key))
				break
			}
		}
		ti += len(want)
	}
	if ti != len(w.Tags) {
		V(nil, "C06/zipkin-tag-unexpected", fmt.Sprintf("%s: %d tag rows, the texts give %d", fr, len(w.Tags), ti))
	}
	// read-back: the returned span against the stored columns (no model, no generator knowledge)
	if rd == nil {
		V(nil, "C06/read-crash", "the reader process died while decoding the rows of a Zipkin request")
		return
	}
	if !strings.HasPrefix(rd.Canon, "done") || len(rd.Spans) != len(c.texts) {
		var bad *c06TText
		if len(rd.Spans) < len(c.texts) {
			bad = c.texts[len(rd.Spans)]
		}
		V(bad, "C06/zipkin-read-incomplete", fmt.Sprintf("%s: %d stored spans, the reader returned %d (%s)", fr, len(c.texts), len(rd.Spans), strings.SplitN(rd.Canon, "|", 2)[0]))
		return
	}
	for i, t := range c.texts {
		row := w.Rows[i]
		got := c06SpanOf(rd.Spans[i])
		if got == nil {
			V(t, "C06/zipkin-read-nil", fmt.Sprintf("%s span %d read back as nil", fr, i))
			continue
		}
		switch {
		case !bytes.Equal(got.TraceId, row.Tid) || !bytes.Equal(got.SpanId, row.Sid):
			V(t, "C06/zipkin-read-ids", fmt.Sprintf("%s span %d read back with ids %x/%x, stored %x/%x", fr, i, got.TraceId, got.SpanId, row.Tid, row.Sid))
		case !bytes.Equal(got.ParentSpanId, row.Pid):
			V(t, "C06/zipkin-read-parent", fmt.Sprintf("%s span %d is stored with parent %x and read back with parent %x", fr, i, row.Pid, got.ParentSpanId))
		case got.Name != row.Name:
			V(t, "C06/zipkin-read-name", fmt.Sprintf("%s span %d is stored with name %q and read back with name %q", fr, i, row.Name, got.Name))
		case got.StartTimeUnixNano != uint64(row.Ts) || got.EndTimeUnixNano != uint64(row.Ts+row.Dur):
			V(t, "C06/zipkin-read-times", fmt.Sprintf("%s span %d read back %d..%d, stored %d+%d", fr, i, got.StartTimeUnixNano, got.EndTimeUnixNano, row.Ts, row.Dur))
		case rd.Svcs[i] != row.Svc:
			V(t, "C06/zipkin-read-service-name", fmt.Sprintf("%s span %d is stored under service %q and read back under %q", fr, i, row.Svc, rd.Svcs[i]))
		}
		// events: the annotations of the text with a non-zero integer timestamp, in microseconds × 1000 (uint64)
		if an := t.W.first("annotations"); t.W.count("annotations") <= 1 {
			var want []string
			if an != nil && an.Kind == 'a' {
				for _, e := range an.Arr {
					ts := e.first("timestamp")
					if ts == nil || ts.Kind != 'n' || e.count("timestamp") > 1 || e.count("value") > 1 {
						continue
					}
					u, err := strconv.ParseUint(ts.Raw, 10, 64)
					if err != nil || u*1000 == 0 {
						continue
					}
					val := ""
					if v := e.first("value"); v != nil && v.Kind == 's' {
						val = v.Str
					}
					want = append(want, strconv.FormatUint(u*1000, 10)+","+c06hex(val))
				}
			}
			var have []string
			for _, e := range got.Events {
				have = append(have, strconv.FormatUint(e.GetTimeUnixNano(), 10)+","+c06hex(e.GetName()))
			}
			if strings.Join(want, ";") != strings.Join(have, ";") {
				V(t, "C06/zipkin-read-events", fmt.Sprintf("%s span %d: annotations %v read back as events %v", fr, i, want, have))
			}
		}
		// attributes: the string tags of the text (as the WRITER's library reads it) lead the attribute list, service.name ends it
		ref := c06RefOf(t.W)
		ok := len(got.Attributes) >= len(ref.RTags)+1
		for j := 0; ok && j < len(ref.RTags); j++ {
			a := got.Attributes[j]
			ok = a.Key == ref.RTags[j][0] && a.Value.GetStringValue() == ref.RTags[j][1]
		}
		if ok {
			last := got.Attributes[len(got.Attributes)-1]
			ok = last.Key == "service.name" && last.Value.GetStringValue() == rd.Svcs[i]
		}
		if !ok {
			V(t, "C06/zipkin-read-attributes", fmt.Sprintf("%s span %d: the attributes read back do not start with the string tags of the text and end with service.name", fr, i))
		}
	}
}

func c06RunTree(r *h.Result, rng *h.Rng, n int, tier string) error {
	r.Stream("zipkin-tree-write: span TEXTS (duplicate members at every level, escapes, raw non-UTF-8, numeric strings, nested values to depth 4, ≥ 64 KiB, trailing data, both framings) → jx tree of each text (library walk) → Span.writeZipkinJ ∘ docOfTrees vs the real parsers' columns")
	r.Stream("zipkin-tree-read: the stored rows → real Query/OutputQuery/parseZipkinJSON vs Span.readRows on the fastjson tree of the same text")
	r.Stream("zipkin-tree-view: the returned spans → real SpanToJSONSpan vs Span.jsonView")
	serial := 0
	var cases []*c06TCase
	var wops, wimpl []string
	add := func(c *c06TCase) {
		cases = append(cases, c)
		wops = append(wops, c.op)
		wimpl = append(wimpl, c06WrittenText(c.w, false, c.name))
		fr := "array"
		if c.nd {
			fr = "ndjson"
		}
		r.Case("ztree:"+c.op, len(c.texts) >= 1)
		r.Count("ztree:" + fr)
		if c.w.Rej {
			r.Count("ztree:refused")
		} else {
			r.Count("ztree:stored")
		}
		for _, t := range c.texts {
			if cl := c06TClass(t, ""); cl != "" {
				r.Count("ztree:class=" + cl)
			}
			if len(t.Text) >= 64*1024 {
				r.Count("ztree:text>=64KiB")
			}
			if t.W != nil {
				r.Count(fmt.Sprintf("ztree:depth=%d", min(t.W.depth(), 8)))
			}
		}
	}
	// fixed corpus: the cases of the fixes and of the listed findings
	base := `"traceId":"1","id":"2"`
	corpus := []struct {
		nd   bool
		body string
	}{
		{true, `{` + base + `} xyz`},
		{true, `{` + base + `}{"traceId":"3","id":"4"}`},
		{true, `{` + base + `} ` + "\r\n" + ` {` + base + `,"name":"b"}` + "\n"},
		{true, `{` + base + `}` + "\n\n" + `{` + base + `}`},
		{true, ``},
		{true, `null`},
		{true, `[{` + base + `}]`},
		{true, `{` + base + `,"x":01}`},
		{true, `{` + base + `,"x":tru}`},
		{true, `{` + base + `,"name":"a"`},
		{false, `[{` + base + `,"name":"a","name":"b"}]`},
		{false, `[{` + base + `,"parentId":"1","parentId":"2"}]`},
		{false, `[{` + base + `,"tags":{"a":"1"},"tags":{"b":"2"}}]`},
		{false, `[{` + base + `,"localEndpoint":{"serviceName":"a","serviceName":"b"}}]`},
		{false, `[{` + base + `,"name":"a\ud800b"}]`},
		{false, `[{` + base + `,"x":` + strings.Repeat("[", 299) + strings.Repeat("]", 299) + `}]`},
		{false, `[{` + base + `,"x":` + strings.Repeat("[", 300) + strings.Repeat("]", 300) + `}]`},
		{false, `[{` + base + `,"parentId":"0000000000000000"}]`},
		{false, `[ {` + base + `} , {"traceId":"3","id":"4"} ]`},
		{false, `[{` + base + `},]`},
		{false, `[{` + base + `}] trailing`},
		{false, `[{` + base + `}`},
		{false, `[]`},
		{false, `[null]`},
		{false, `[{"traceId":"ffffffffffffffffffffffffffffffff","id":"ffffffffffffffff","parentId":"ffffffffffffffff","timestamp":"9223372036854775807","duration":-9223372036854775808}]`},
		{false, "[{" + base + ",\"name\":\"a\xffb\",\"tags\":{\"k\xfe\":\"v\xc3\"}}]"},
		{false, `[{` + base + `,"annotations":[{"timestamp":1700000000000001,"value":"ws"},{"timestamp":0,"value":"z"},{"timestamp":18446744073709552,"value":"wrap"}]}]`},
		{false, `[{` + base + `,"name":"esc"}]`},
	}
	for _, cc := range corpus {
		add(c06MakeTCase(cc.nd, []byte(cc.body), nil, &serial))
	}
	for i := 0; i < n; i++ {
		wild := i%4 == 1
		k := rng.Intn(5)
		if i%9 == 0 {
			k = 1 + rng.Intn(2)
		}
		var texts []*c06TText
		for j := 0; j < k; j++ {
			texts = append(texts, c06GenTText(rng, 0, wild && rng.Chance(50), i%9 == 0 && j == 0, ""))
		}
		for _, nd := range []bool{false, true} {
			body := c06TBody(nd, texts, rng)
			if nd && wild && rng.Chance(25) && len(texts) > 0 {
				// something after the object on a line
				body = append(append([]byte{}, body...), h.Pick(rng, []string{" x", "{}", " 1", ",", " \t"})...)
			}
			if !nd && wild && rng.Chance(10) {
				body = body[:len(body)-1]
			}
			add(c06MakeTCase(nd, body, texts, &serial))
		}
	}
	anyCases := make([]any, len(cases))
	for i, c := range cases {
		anyCases[i] = map[string]string{"body_hex": hex.EncodeToString(c06TruncB(c.body, 4000))}
	}
	if err := r.Compare("zipkin-tree-write", wops, wimpl, anyCases); err != nil {
		return err
	}
	var jobs []c06ReadJob
	var jobCase []int
	var rops, vops []string
	for i, c := range cases {
		if !c.w.Rej {
			jobs = append(jobs, c06ReadJob{Rows: c.w.Rows, Sort: false, View: true})
			jobCase = append(jobCase, i)
			rops = append(rops, c06TOp("c06zipjrt", c.nd, c.ok, c.texts))
			vops = append(vops, c06TOp("c06zipjview", c.nd, c.ok, c.texts))
		}
	}
	results, err := c06ReadChunks(jobs)
	if err != nil {
		return err
	}
	rimpl := make([]string, len(jobs))
	vimpl := make([]string, len(jobs))
	rd := map[int]*c06ReadResult{}
	for j, res := range results {
		if res == nil {
			rimpl[j] = "crashed"
		} else {
			rimpl[j] = res.Canon
		}
		vimpl[j] = c06ViewsText(res)
		rd[jobCase[j]] = res
		r.Case("ztree-read:"+rops[j], len(jobs[j].Rows) > 0)
	}
	if err := r.Compare("zipkin-tree-read", rops, rimpl, nil); err != nil {
		return err
	}
	if err := r.Compare("zipkin-tree-view", vops, vimpl, nil); err != nil {
		return err
	}
	for i, c := range cases {
		var res *c06ReadResult
		if !c.w.Rej {
			res = rd[i]
			if res == nil {
				r.Violate("C06/read-crash", "the reader process died while decoding the rows of a Zipkin request", c.replay("reader crash"))
				continue
			}
		}
		c06OracleTree(r, c, res)
		if res != nil {
			c06OracleView(r, "zipkin", c.w.Rows, res, c.replay("json view"))
		}
	}
	return nil
}

// ---------------------------------------------------------------- JSON view of OTLP spans (incl. valueless attributes)

func c06RunOtlpView(r *h.Result, rng *h.Rng, n int) error {
	r.Stream("otlp-view: stored OTLP spans (attribute trees to depth 4, attributes without a value) → Query/OutputQuery → real SpanToJSONSpan vs Span.jsonView ∘ readRows ∘ writeOTLP")
	var ops, impl []string
	var jobs []c06ReadJob
	var cs []*c06OtlpCase
	for i := 0; i < n; i++ {
		td := c06GenTraces(rng, 3, 4, false)
		// deeper trees and attributes without a value
		for _, rs := range td.ResourceSpans {
			for _, sc := range rs.ScopeSpans {
				for _, s := range sc.Spans {
					if rng.Chance(40) {
						s.Attributes = append(s.Attributes, &v11.KeyValue{Key: h.Pick(rng, []string{"deep", "a", "arr"}), Value: c06GenVal(rng, 4)})
					}
					if rng.Chance(25) {
						s.Attributes = append(s.Attributes, &v11.KeyValue{Key: h.Pick(rng, []string{"novalue", "a", "http.method"})})
					}
				}
			}
		}
		body, err := proto.Marshal(td)
		if err != nil {
			return err
		}
		// the decoded form of the body is what the writer sees (a nil element of a list comes back as an empty value)
		td2 := &trace.TracesData{}
		if err := proto.Unmarshal(body, td2); err != nil {
			return err
		}
		toks := strings.Join(c06TracesTokens(td2), " ")
		c := &c06OtlpCase{td: td2, body: body, op: "c06otlpview " + toks}
		c.w = c06Write(unmarshal.UnmarshalOTLPV2, body)
		if !c06OtlpAccepted(c06FlatSpans(td2)) {
			if !c.w.Rej {
				r.Violate("C06/otlp-bad-ids-stored", "OTLP request with a service-name attribute without a value produced storable rows", c.replay("accepted"))
			}
			r.Count("otlp-view:refused-valueless-service-name")
			continue
		}
		if c.w.Rej {
			r.Violate("C06/otlp-accepted-request-rejected", "OTLP request whose spans all have 16/8-byte ids is rejected: "+c.w.Err, c.replay("rejected"))
			continue
		}
		cs = append(cs, c)
		ops = append(ops, c.op)
		jobs = append(jobs, c06ReadJob{Rows: c.w.Rows, Sort: true, View: true})
		r.Case("otlp-view:"+toks, len(c.w.Rows) > 0)
	}
	results, err := c06ReadChunks(jobs)
	if err != nil {
		return err
	}
	for j, res := range results {
		impl = append(impl, c06ViewsText(res))
		if res == nil {
			r.Violate("C06/read-crash", "the reader process died while decoding the rows of an OTLP request", cs[j].replay("reader crash"))
			continue
		}
		c06OracleView(r, "otlp", cs[j].w.Rows, res, cs[j].replay("json view"))
	}
	return r.Compare("otlp-view", ops, impl, nil)
}

// ---------------------------------------------------------------- mixed traces: several pushes, both payload types, one trace

func c06RunMixed(r *h.Result, rng *h.Rng, n int) error {
	r.Stream("mixed-trace: several pushes (OTLP, Zipkin array, Zipkin NDJSON) with spans of one trace among others → all stored rows as the table; the trace-by-id statement (checked: unhex(id), bounds, ORDER BY timestamp_ns, LIMIT 2000) is answered from the table by the harness → real Query/OutputQuery vs Span.readTrace over the model's own rows")
	var ops, impl []string
	var jobs []c06ReadJob
	type exp struct {
		n    int
		sids map[string]int
		tid  []byte
		rep  map[string]any
	}
	var exps []exp
	serial := 0
	for i := 0; i < n; i++ {
		tid := c06GenID(rng, 16, false)
		tidHex := hex.EncodeToString(tid)
		np := 2 + rng.Intn(3)
		var toks []string
		var table []c06Row
		var bodies []string
		for p := 0; p < np; p++ {
			switch rng.Intn(3) {
			case 0:
				td := c06GenTraces(rng, 2, 3, false)
				for _, rs := range td.ResourceSpans {
					for _, sc := range rs.ScopeSpans {
						for _, s := range sc.Spans {
							if rng.Chance(65) {
								s.TraceId = tid
							}
							if rng.Chance(30) {
								s.StartTimeUnixNano = 1700000000000000000 + uint64(rng.Intn(4))*1000000000
							}
						}
					}
				}
				body, _ := proto.Marshal(td)
				w := c06Write(unmarshal.UnmarshalOTLPV2, body)
				toks = append(toks, "O")
				toks = append(toks, c06TracesTokens(td)...)
				if !w.Rej {
					table = append(table, w.Rows...)
				}
				bodies = append(bodies, "otlp:"+hex.EncodeToString(body))
			default:
				nd := rng.Bool()
				k := 1 + rng.Intn(3)
				var texts []*c06TText
				for j := 0; j < k; j++ {
					t := ""
					if rng.Chance(65) {
						t = tidHex
						if rng.Chance(30) {
							t = strings.ToUpper(t)
						}
					}
					texts = append(texts, c06GenTText(rng, 0, false, false, t))
				}
				body := c06TBody(nd, texts, rng)
				c := c06MakeTCase(nd, body, texts, &serial)
				toks = append(toks, "Z")
				toks = append(toks, strings.Fields(strings.TrimPrefix(c.op, "c06zipj "))...)
				if !c.w.Rej {
					table = append(table, c.w.Rows...)
				}
				bodies = append(bodies, "zipkin:"+string(c06TruncB(body, 2000)))
			}
		}
		var start, end int64
		if rng.Chance(30) {
			start = 1700000001000000000
		}
		if rng.Chance(30) {
			end = 1700000003000000000
		}
		// the harness plays ClickHouse for the one statement of the trace read (text checked in c06ReadRows)
		var sel []c06Row
		for _, row := range table {
			if bytes.Equal(row.Tid, tid) && (start == 0 || row.Ts >= start) && (end == 0 || row.Ts < end) {
				sel = append(sel, row)
			}
		}
		sort.SliceStable(sel, func(a, b int) bool { return sel[a].Ts < sel[b].Ts })
		if len(sel) > 2000 {
			sel = sel[:2000]
		}
		sids := map[string]int{}
		for _, row := range sel {
			sids[string(row.Sid)]++
		}
		jobs = append(jobs, c06ReadJob{Rows: sel, Sort: true, Tid: tidHex, Start: start, End: end})
		ops = append(ops, fmt.Sprintf("c06trace %s %d %d %d %s", tidHex, start, end, np, strings.Join(toks, " ")))
		exps = append(exps, exp{len(sel), sids, tid, map[string]any{"stream": "mixed-trace", "trace_id": tidHex, "start": start, "end": end, "pushes": bodies}})
		r.Case("mixed:"+ops[len(ops)-1], len(sel) >= 2)
		r.Count(fmt.Sprintf("mixed:spans-of-trace=%d", min(len(sel), 6)))
	}
	results, err := c06ReadChunks(jobs)
	if err != nil {
		return err
	}
	for j, res := range results {
		if res == nil {
			impl = append(impl, "crashed")
			r.Violate("C06/read-crash", "the reader process died while reading a trace", exps[j].rep)
			continue
		}
		impl = append(impl, res.Canon)
		if res.Err != "" {
			r.Violate("C06/read-query", "trace read: "+res.Err, exps[j].rep)
		}
		e := exps[j]
		// a trace made of accepted spans of both kinds reads back whole: one span per stored span, all of that trace
		cls := false
		for _, row := range jobs[j].Rows {
			if row.Ptype == 1 && c06FjText(row.Payload) == nil {
				cls = true
			}
		}
		if (len(res.Spans) != e.n || !strings.HasPrefix(res.Canon, "done")) && !cls {
			r.Violate("C06/trace-read-incomplete", fmt.Sprintf("trace %x: %d stored spans in the window, %d read back (%s)", e.tid, e.n, len(res.Spans), strings.SplitN(res.Canon, "|", 2)[0]), e.rep)
			continue
		}
		got := map[string]int{}
		for _, b := range res.Spans {
			sp := c06SpanOf(b)
			if sp == nil {
				r.Violate("C06/trace-read-nil", fmt.Sprintf("trace %x: a stored span read back as nil", e.tid), e.rep)
				continue
			}
			if !bytes.Equal(sp.TraceId, e.tid) {
				r.Violate("C06/trace-read-foreign-span", fmt.Sprintf("trace %x: span of trace %x returned", e.tid, sp.TraceId), e.rep)
			}
			got[string(sp.SpanId)]++
		}
		if !cls {
			for k, c := range e.sids {
				if got[k] != c {
					r.Violate("C06/trace-read-span-set", fmt.Sprintf("trace %x: span %x stored %d times, read back %d times", e.tid, k, c, got[k]), e.rep)
					break
				}
			}
		}
	}
	return r.Compare("mixed-trace", ops, impl, nil)
}

// ---------------------------------------------------------------- library primitives of the tree level

func c06RunPrims2(r *h.Result, rng *h.Rng, n int) error {
	r.Stream("prims2: jx Decoder.Int64, fastfloat ParseInt64BestEffort / ParseUint64BestEffort, bufio.ScanLines (unbounded buffer), base64.StdEncoding.DecodeString vs Span.jxInt64 / fjInt64 / fjUint64 / scanLines / B64.decodeOk")
	var ops, impl []string
	nums := []string{"0", "-0", "1", "-1", "01", "-01", "00", "1.0", "1e3", "1E3", "-", "+1", "9223372036854775807", "9223372036854775808", "-9223372036854775808",
		"-9223372036854775809", "18446744073709551615", "18446744073709551616", "123456789012345678", "1234567890123456789", "12345678901234567890",
		"-123456789012345678", "-1234567890123456789", "0.5", "1-2", "1+2", "inf", "nan", "", "١", "0000000000000000000", "0000000000000000001", "-0000000000000000001"}
	for i := 0; i < n; i++ {
		var s string
		if i < len(nums) {
			s = nums[i]
		} else {
			b := make([]byte, rng.Intn(24))
			for j := range b {
				b[j] = "0123456789-+.eE"[h.Pick(rng, []int{0, 1, 2, 3, 4, 5, 6, 7, 8, 9, 9, 9, 0, 0, 10, 11, 12, 13, 14})]
			}
			if rng.Chance(50) && len(b) > 0 && b[0] == '0' {
				b[0] = '1'
			}
			s = string(b)
		}
		// jx reads a number token up to a delimiter: give it one
		if len(s) > 0 && (s[0] == '-' || s[0] >= '0' && s[0] <= '9') && strings.Trim(s, "0123456789-+.eE") == "" {
			v, err := jx.DecodeStr(s + " ").Int64()
			ops = append(ops, "c06jxint "+c06hex(s))
			if err != nil {
				impl = append(impl, "rej")
			} else {
				impl = append(impl, strconv.FormatInt(v, 10))
			}
			r.Case("jxint:"+s, err == nil)
		}
		ops = append(ops, "c06fjint "+c06hex(s))
		impl = append(impl, strconv.FormatInt(fastfloat.ParseInt64BestEffort(s), 10))
		ops = append(ops, "c06fjuint "+c06hex(s))
		impl = append(impl, strconv.FormatUint(fastfloat.ParseUint64BestEffort(s), 10))
		r.Case("fjint:"+s, fastfloat.ParseInt64BestEffort(s) != 0)
	}
	bodies := []string{"", "\n", "a", "a\n", "a\nb", "a\r\nb\r\n", "a\n\nb", "a\r", "a\r\r\n", "\r\n", "\r", "a\rb\n", "\n\n", strings.Repeat("x", 70000) + "\n" + strings.Repeat("y", 66000)}
	for i := 0; i < n/4; i++ {
		var s string
		if i < len(bodies) {
			s = bodies[i]
		} else {
			b := make([]byte, rng.Intn(30))
			for j := range b {
				b[j] = "ab\n\r{} "[rng.Intn(7)]
			}
			s = string(b)
		}
		sc := bufio.NewScanner(strings.NewReader(s))
		sc.Buffer(make([]byte, 0, 64*1024), math.MaxInt)
		sc.Split(bufio.ScanLines)
		var lines []string
		for sc.Scan() {
			lines = append(lines, h.Hex(sc.Bytes()))
		}
		ops = append(ops, "c06scan "+c06hex(s))
		impl = append(impl, strings.Join(lines, ","))
		r.Case("scan:"+c06Trunc(s, 40), len(lines) > 1)
	}
	b64s := []string{"", "AA==", "AAA=", "AAAA", "BmnnjReqJcwSMLIHoMytSg==", "NywoCfe0bLc=", "A", "AA", "AAA", "AA=A", "A===", "!!!!", "AAAA\n", "AA\r\n==", "AAAAA", "AAAA====", "/+/+", "-_-_"}
	for i := 0; i < n/4; i++ {
		var s string
		if i < len(b64s) {
			s = b64s[i]
		} else if rng.Bool() {
			s = base64.StdEncoding.EncodeToString(rng.Bytes(1 + rng.Intn(20)))
		} else {
			b := make([]byte, rng.Intn(12))
			for j := range b {
				b[j] = "ABCabc019+/=\n"[rng.Intn(13)]
			}
			s = string(b)
		}
		v, err := base64.StdEncoding.DecodeString(s)
		ops = append(ops, "c06b64 "+c06hex(s))
		if err != nil {
			impl = append(impl, "rej")
		} else {
			impl = append(impl, h.Hex(v))
		}
		r.Case("b64:"+s, err == nil)
	}
	return r.Compare("prims2", ops, impl, nil)
}

// ---------------------------------------------------------------- legacy OTLP/JSON payloads (parseOTLPJson)

func c06AnyTokens(v any, out []string) []string {
	switch x := v.(type) {
	case nil:
		return append(out, "z")
	case bool:
		if x {
			return append(out, "t")
		}
		return append(out, "f")
	case float64:
		return append(out, "n"+c06hex(strconv.FormatFloat(x, 'g', -1, 64))+":"+strconv.FormatUint(math.Float64bits(x), 10))
	case string:
		return append(out, "s"+c06hex(x))
	case []any:
		out = append(out, "a", strconv.Itoa(len(x)))
		for _, e := range x {
			out = c06AnyTokens(e, out)
		}
		return out
	case map[string]any:
		keys := make([]string, 0, len(x))
		for k := range x {
			keys = append(keys, k)
		}
		sort.Strings(keys)
		out = append(out, "o", strconv.Itoa(len(keys)))
		for _, k := range keys {
			out = append(out, c06hex(k))
			out = c06AnyTokens(x[k], out)
		}
		return out
	}
	return append(out, "z")
}

// strings that strconv.ParseFloat is asked about (values of doubleValue members), with the float64 it answers
func c06FloatTab(v any, tab map[string]uint64) {
	switch x := v.(type) {
	case []any:
		for _, e := range x {
			c06FloatTab(e, tab)
		}
	case map[string]any:
		for k, e := range x {
			if s, ok := e.(string); ok && k == "doubleValue" {
				f, _ := strconv.ParseFloat(s, 64)
				tab[s] = math.Float64bits(f)
			}
			c06FloatTab(e, tab)
		}
	}
}

// c06OJsonTokens: the two json.Unmarshal calls of parseOTLPJson on the text, as tokens
func c06OJsonTokens(text string, tab map[string]uint64) []string {
	raw := map[string]any{}
	if err := json.Unmarshal([]byte(text), &raw); err != nil {
		return []string{"!", "0", "-", "0", "0", "N"}
	}
	c06FloatTab(raw, tab)
	out := c06AnyTokens(raw, nil)
	sp := &trace.Span{}
	_ = json.Unmarshal([]byte(text), sp)
	out = append(out, strconv.Itoa(len(sp.Attributes)))
	for _, kv := range sp.Attributes {
		b := "0"
		if kv != nil && kv.Value != nil {
			b = "1"
		}
		out = append(out, c06hex(kv.GetKey()), b)
	}
	out = append(out, c06hex(sp.Name), strconv.Itoa(int(sp.Kind)), strconv.Itoa(len(sp.Events)))
	for _, e := range sp.Events {
		out = append(out, strconv.FormatUint(e.GetTimeUnixNano(), 10), c06hex(e.GetName()))
	}
	if sp.Status == nil {
		out = append(out, "N")
	} else {
		out = append(out, "T", strconv.Itoa(int(sp.Status.Code)), c06hex(sp.Status.Message))
	}
	return out
}

func c06GenOJson(rng *h.Rng, wild bool) string {
	var ms []string
	id := func(n int) string {
		switch k := rng.Intn(100); {
		case k < 70:
			return c06JSONKey(base64.StdEncoding.EncodeToString(c06GenID(rng, n, false)))
		case k < 80 && wild:
			return h.Pick(rng, []string{`"!!"`, `"AAA"`, "12", "true", `"BmnnjReqJcwSMLIHoMytS"`, `["x"]`})
		case k < 90:
			return "null"
		}
		return `""`
	}
	for _, k := range []string{"traceId", "spanId", "parentSpanId"} {
		if rng.Chance(85) {
			ms = append(ms, `"`+k+`":`+id(map[string]int{"traceId": 16, "spanId": 8, "parentSpanId": 8}[k]))
		}
	}
	tm := func() string {
		switch k := rng.Intn(100); {
		case k < 60:
			return `"` + strconv.FormatUint(1700000000000000000+uint64(rng.Intn(1e9)), 10) + `"`
		case k < 70:
			return strconv.FormatUint(1700000000000000000+uint64(rng.Intn(1e9)), 10)
		case k < 80:
			return h.Pick(rng, []string{`""`, `"abc"`, `"9223372036854775808"`, `"-9223372036854775809"`, `"-5"`, `"+7"`, `" 1"`, `"18446744073709551615"`, "null", "true"})
		}
		return `"` + strconv.Itoa(rng.Intn(1000)) + `"`
	}
	for _, k := range []string{"startTimeUnixNano", "endTimeUnixNano"} {
		if rng.Chance(85) {
			ms = append(ms, `"`+k+`":`+tm())
		}
	}
	if rng.Chance(85) {
		ms = append(ms, `"name":`+c06JSONKey(c06Str(rng)))
	}
	if rng.Chance(60) {
		ms = append(ms, `"kind":`+strconv.Itoa(rng.Intn(6)))
	}
	val := func() string {
		switch k := rng.Intn(100); {
		case k < 40:
			return `{"stringValue":` + c06JSONKey(c06Str(rng)) + `}`
		case k < 50:
			return `{"intValue":"` + strconv.FormatInt(int64(rng.U64()), 10) + `"}`
		case k < 56:
			return `{"intValue":` + strconv.Itoa(rng.Intn(1000)-500) + `}`
		case k < 62:
			return `{"boolValue":` + h.Pick(rng, []string{"true", "false"}) + `}`
		case k < 70:
			return `{"doubleValue":` + h.Pick(rng, []string{"1.5", "0", "-2.5e-7", "1e22", "123456.789", `"2.5"`, `"NaN"`, `"abc"`, `"1e400"`, "true"}) + `}`
		case k < 76:
			return `{"arrayValue":{"values":[{"stringValue":"x"}]}}`
		case k < 80:
			return `{"kvlistValue":{"values":[{"key":"k","value":{"intValue":"1"}}]}}`
		case k < 84:
			return `{}`
		case k < 88:
			return `{"stringValue":"s","intValue":"7"}`
		case k < 91:
			return `{"stringValue":null,"boolValue":null}`
		case k < 94 && wild:
			return h.Pick(rng, []string{`{"stringValue":5}`, `{"boolValue":"yes"}`, `"v"`, `null`, `[]`})
		}
		return `{"stringValue":""}`
	}
	if rng.Chance(90) {
		n := rng.Intn(6)
		var as []string
		for i := 0; i < n; i++ {
			key := h.Pick(rng, c06PlainKeys)
			if rng.Chance(45) {
				key = h.Pick(rng, c06SvcKeys)
			}
			switch k := rng.Intn(100); {
			case k < 88 || !wild:
				as = append(as, `{"key":`+c06JSONKey(key)+`,"value":`+val()+`}`)
			case k < 92:
				as = append(as, `{"key":`+c06JSONKey(key)+`}`)
			case k < 95:
				as = append(as, `{"key":7,"value":`+val()+`}`)
			case k < 97:
				as = append(as, `{"value":`+val()+`}`)
			default:
				as = append(as, h.Pick(rng, []string{"5", `"a"`, "null", "[]"}))
			}
		}
		ms = append(ms, `"attributes":[`+strings.Join(as, ",")+`]`)
	}
	if rng.Chance(40) {
		n := 1 + rng.Intn(3)
		var es []string
		for i := 0; i < n; i++ {
			switch rng.Intn(5) {
			case 0:
				es = append(es, `{"name":`+c06JSONKey(c06Str(rng))+`}`)
			case 1:
				es = append(es, `{"timeUnixNano":17,"name":"num"}`)
			default:
				es = append(es, `{"timeUnixNano":"`+strconv.FormatUint(1700000000000000000+uint64(rng.Intn(1e9)), 10)+`","name":`+c06JSONKey(c06Str(rng))+`,"droppedAttributesCount":0}`)
			}
		}
		ms = append(ms, `"events":[`+strings.Join(es, ",")+`]`)
	}
	if rng.Chance(50) {
		ms = append(ms, `"status":{"code":`+strconv.Itoa(rng.Intn(3))+h.Pick(rng, []string{"", `,"message":"m"`})+`}`)
	}
	for i := len(ms) - 1; i > 0; i-- {
		j := rng.Intn(i + 1)
		ms[i], ms[j] = ms[j], ms[i]
	}
	return "{" + strings.Join(ms, ",") + "}"
}

func c06RunOJson(r *h.Result, rng *h.Rng, n int) error {
	r.Stream("otlpjson-read: stored rows of the OTLP payload type whose payload is a JSON text (older JSON writer; also ill-typed documents) → OutputQuery/parseOTLP/parseOTLPJson vs Span.parseOTLPJson on the two json.Unmarshal results of the same text; a recovered panic ends the stream")
	tid, sid := bytes.Repeat([]byte{0xab}, 16), bytes.Repeat([]byte{0xcd}, 8)
	var ops, impl []string
	var jobs []c06ReadJob
	test := `{"traceId":"BmnnjReqJcwSMLIHoMytSg==","spanId":"NywoCfe0bLc=","name":"test_span","kind":1,"startTimeUnixNano":"1734436231582466048","endTimeUnixNano":"1734436231683010560","attributes":[{"key":"testId","value":{"stringValue":"__TEST__"}},{"key":"service.name","value":{"stringValue":"testSvc"}}],"droppedAttributesCount":0,"events":[{"timeUnixNano":"1734436231681999872","name":"test event","droppedAttributesCount":0}],"droppedEventsCount":0,"droppedLinksCount":0,"status":{"code":1}}`
	for i := 0; i < n; i++ {
		k := 1 + rng.Intn(2)
		var rows []c06Row
		tab := map[string]uint64{}
		var rowToks []string
		for j := 0; j < k; j++ {
			text := c06GenOJson(rng, i%3 == 1)
			if i == 0 {
				text = test
			}
			rows = append(rows, c06Row{Tid: tid, Sid: sid, Ts: 5, Dur: 4, Ptype: 2, Payload: []byte(text)})
			rowToks = append(rowToks, "2", h.Hex(tid), h.Hex(sid), "5", "4", "J")
			rowToks = append(rowToks, c06OJsonTokens(text, tab)...)
		}
		keys := make([]string, 0, len(tab))
		for s := range tab {
			keys = append(keys, s)
		}
		sort.Strings(keys)
		op := []string{"c06readrowsf", strconv.Itoa(len(keys))}
		for _, s := range keys {
			op = append(op, c06hex(s), strconv.FormatUint(tab[s], 10))
		}
		op = append(op, strconv.Itoa(k))
		op = append(op, rowToks...)
		ops = append(ops, strings.Join(op, " "))
		jobs = append(jobs, c06ReadJob{Rows: rows, Sort: true})
	}
	results, err := c06ReadChunks(jobs)
	if err != nil {
		return err
	}
	for j, res := range results {
		if res == nil {
			impl = append(impl, "crashed")
			r.Violate("C06/read-crash", "the reader process died on a stored JSON payload", map[string]any{"stream": "otlpjson-read", "payload": string(jobs[j].Rows[0].Payload)})
			continue
		}
		impl = append(impl, res.Canon)
		r.Case("ojson:"+ops[j], strings.HasPrefix(res.Canon, "done"))
		r.Count("ojson:" + strings.SplitN(res.Canon, "|", 2)[0])
	}
	return r.Compare("otlpjson-read", ops, impl, nil)
}
