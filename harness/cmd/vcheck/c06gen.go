package main

// C06: generators and the line-protocol serialisation of span documents (see lean/Driver/C06.lean).
//
// OTLP   c06otlp|c06otlprt <nres> ( KVS <nscopes> ( <nspans> SPAN* )* )*
//        KVS  = <n> ( <hexkey> VAL )*n
//        VAL  = s <hex> | b 0|1 | i <int> | d <ieee bits> | y <hex> | u | N (nil pointer) | a <n> VAL*n | m <n> ( <hexkey> VAL )*n
//        SPAN = <tid> <sid> <pid> <name> <kind> <start> <end> ( N | T <code> <hexmsg> ) KVS <nevents> ( <time> <hexname> )*
// Zipkin c06zip|c06ziprt a|n <nspans> ( <serial> <rawlen> <nfields> FIELD* )*
//        FIELD = T J | I J | P J | N J | K J | t Z | u Z | L E | R E | G ( ~ | <n> ( <hexkey> J )*n ) | A ( ~ | <n> ( <micros> <hexvalue> )*n ) | O
//        J = ~ (not a string) | <hex> ;  Z = n<int> | s<hex> | x ;  E = ~ | e (a | x | s<hex>) (~|<hex>) (~|<hex>) <port>

import (
	"encoding/json"
	"fmt"
	"math"
	"strconv"
	"strings"

	v11 "go.opentelemetry.io/proto/otlp/common/v1"
	res "go.opentelemetry.io/proto/otlp/resource/v1"
	trace "go.opentelemetry.io/proto/otlp/trace/v1"
	"verif/harness/h"
)

func c06hex(s string) string { return h.Hex([]byte(s)) }

// ---------------------------------------------------------------- OTLP: proto → tokens

func c06ValTokens(v *v11.AnyValue, out []string) []string {
	if v == nil {
		// no AnyValue at all (a KeyValue decoded without its value field)
		return append(out, "N")
	}
	switch x := v.Value.(type) {
	case *v11.AnyValue_StringValue:
		return append(out, "s", c06hex(x.StringValue))
	case *v11.AnyValue_BoolValue:
		if x.BoolValue {
			return append(out, "b", "1")
		}
		return append(out, "b", "0")
	case *v11.AnyValue_IntValue:
		return append(out, "i", strconv.FormatInt(x.IntValue, 10))
	case *v11.AnyValue_DoubleValue:
		return append(out, "d", strconv.FormatUint(math.Float64bits(x.DoubleValue), 10))
	case *v11.AnyValue_BytesValue:
		return append(out, "y", h.Hex(x.BytesValue))
	case *v11.AnyValue_ArrayValue:
		vs := x.ArrayValue.GetValues()
		out = append(out, "a", strconv.Itoa(len(vs)))
		for _, e := range vs {
			out = c06ValTokens(e, out)
		}
		return out
	case *v11.AnyValue_KvlistValue:
		kvs := x.KvlistValue.GetValues()
		out = append(out, "m", strconv.Itoa(len(kvs)))
		for _, kv := range kvs {
			out = append(out, c06hex(kv.Key))
			out = c06ValTokens(kv.Value, out)
		}
		return out
	}
	return append(out, "u")
}

func c06KVTokens(kv *v11.KeyValue) []string {
	return c06ValTokens(kv.Value, []string{c06hex(kv.Key)})
}

func c06KVsTokens(kvs []*v11.KeyValue, out []string) []string {
	out = append(out, strconv.Itoa(len(kvs)))
	for _, kv := range kvs {
		out = append(out, c06KVTokens(kv)...)
	}
	return out
}

func c06SpanTokens(s *trace.Span, out []string) []string {
	out = append(out, h.Hex(s.TraceId), h.Hex(s.SpanId), h.Hex(s.ParentSpanId), c06hex(s.Name), strconv.Itoa(int(s.Kind)),
		strconv.FormatUint(s.StartTimeUnixNano, 10), strconv.FormatUint(s.EndTimeUnixNano, 10))
	if s.Status == nil {
		out = append(out, "N")
	} else {
		out = append(out, "T", strconv.Itoa(int(s.Status.Code)), c06hex(s.Status.Message))
	}
	out = c06KVsTokens(s.Attributes, out)
	out = append(out, strconv.Itoa(len(s.Events)))
	for _, e := range s.Events {
		out = append(out, strconv.FormatUint(e.GetTimeUnixNano(), 10), c06hex(e.GetName()))
	}
	return out
}

func c06TracesTokens(td *trace.TracesData) []string {
	out := []string{strconv.Itoa(len(td.ResourceSpans))}
	for _, rs := range td.ResourceSpans {
		out = c06KVsTokens(rs.Resource.GetAttributes(), out)
		out = append(out, strconv.Itoa(len(rs.ScopeSpans)))
		for _, sc := range rs.ScopeSpans {
			out = append(out, strconv.Itoa(len(sc.Spans)))
			for _, s := range sc.Spans {
				out = c06SpanTokens(s, out)
			}
		}
	}
	return out
}

// ---------------------------------------------------------------- OTLP generator

var c06SvcKeys = []string{"service.name", "peer.service", "faas.name", "k8s.deployment.name", "process.executable.name", "remoteService.name"}
var c06PlainKeys = []string{"http.method", "http.url", "db.statement", "a", "b", "a.b", "name", "service", "net.peer.ip", "k", "x.y.z", "", "0", "arr", "ünï"}
var c06Strings = []string{"", "x", "frontend", "checkout", "db", "GET", "/api/v1?q='1'", "a b", "ünïcødé ✓", "\\n\"", "0", "true", "OTLPResourceNoServiceName", "S", "P", "name"}

func c06Str(rng *h.Rng) string {
	if rng.Chance(70) {
		return h.Pick(rng, c06Strings)
	}
	return rng.Ident(8)
}

var c06Doubles = []float64{0, 1, -1, 0.5, 0.0078125, 0.0000005, 0.0000015, 0.0000025, 1e22, 1.5e300, 123456.7890125, -2.5e-7, 5e-324, math.MaxFloat64, math.Inf(1), math.Inf(-1), math.NaN(), 2.675, 1.0000005, 9.9999995, math.Copysign(0, -1)}

func c06GenVal(rng *h.Rng, depth int) *v11.AnyValue {
	k := rng.Intn(100)
	switch {
	case k < 40:
		return &v11.AnyValue{Value: &v11.AnyValue_StringValue{StringValue: c06Str(rng)}}
	case k < 48:
		return &v11.AnyValue{Value: &v11.AnyValue_BoolValue{BoolValue: rng.Bool()}}
	case k < 60:
		var i int64
		switch rng.Intn(4) {
		case 0:
			i = int64(rng.Intn(1000)) - 500
		case 1:
			i = math.MaxInt64
		case 2:
			i = math.MinInt64
		default:
			i = int64(rng.U64())
		}
		return &v11.AnyValue{Value: &v11.AnyValue_IntValue{IntValue: i}}
	case k < 72:
		var d float64
		if rng.Chance(60) {
			d = h.Pick(rng, c06Doubles)
		} else if rng.Bool() {
			d = math.Float64frombits(rng.U64())
		} else {
			d = float64(int64(rng.U64()%2000000)-1000000) / float64([]int{1, 8, 64, 1000, 1 << 20, 3}[rng.Intn(6)])
		}
		return &v11.AnyValue{Value: &v11.AnyValue_DoubleValue{DoubleValue: d}}
	case k < 76:
		return &v11.AnyValue{Value: &v11.AnyValue_BytesValue{BytesValue: rng.Bytes(6)}}
	case k < 79:
		return &v11.AnyValue{}
	case k < 90 && depth > 0:
		n := rng.Intn(4)
		vs := make([]*v11.AnyValue, n)
		for i := range vs {
			vs[i] = c06GenVal(rng, depth-1)
		}
		return &v11.AnyValue{Value: &v11.AnyValue_ArrayValue{ArrayValue: &v11.ArrayValue{Values: vs}}}
	case depth > 0:
		return &v11.AnyValue{Value: &v11.AnyValue_KvlistValue{KvlistValue: &v11.KeyValueList{Values: c06GenKVs(rng, rng.Intn(4), depth-1, false)}}}
	}
	return &v11.AnyValue{Value: &v11.AnyValue_StringValue{StringValue: c06Str(rng)}}
}

func c06GenKVs(rng *h.Rng, n int, depth int, top bool) []*v11.KeyValue {
	kvs := make([]*v11.KeyValue, 0, n)
	for i := 0; i < n; i++ {
		var key string
		switch {
		case top && rng.Chance(35):
			key = h.Pick(rng, c06SvcKeys)
		case rng.Chance(75):
			key = h.Pick(rng, c06PlainKeys)
		default:
			key = rng.Ident(5)
		}
		var val *v11.AnyValue
		if rng.Chance(3) {
			// a KeyValue without a value
			kvs = append(kvs, &v11.KeyValue{Key: key})
			continue
		}
		if top && rng.Chance(25) && key != "" && strings.Contains(key, ".name") || key == "peer.service" && rng.Chance(70) {
			// service-name attributes are mostly strings, sometimes empty
			val = &v11.AnyValue{Value: &v11.AnyValue_StringValue{StringValue: c06Str(rng)}}
		} else {
			val = c06GenVal(rng, depth)
		}
		kvs = append(kvs, &v11.KeyValue{Key: key, Value: val})
	}
	return kvs
}

func c06GenID(rng *h.Rng, want int, wild bool) []byte {
	n := want
	if wild {
		switch rng.Intn(4) {
		case 0:
			n = 0
		case 1:
			n = rng.Intn(21)
		case 2:
			n = want - 1 + 2*rng.Intn(2)
		}
	}
	b := make([]byte, n)
	for i := range b {
		b[i] = byte(rng.Intn(256))
	}
	if rng.Chance(5) {
		for i := range b {
			b[i] = 0
		}
	}
	return b
}

// c06GenTraces: ≤ maxRes resources, each ≤ 2 scopes and ≤ maxSpans spans; attribute trees of depth ≤ 4.
// wildIDs: ids of any length (otherwise 16/8 bytes).
func c06GenTraces(rng *h.Rng, maxRes, maxSpans int, wildIDs bool) *trace.TracesData {
	td := &trace.TracesData{}
	nres := rng.Intn(maxRes + 1)
	if rng.Chance(70) && nres == 0 {
		nres = 1
	}
	for r := 0; r < nres; r++ {
		rs := &trace.ResourceSpans{Resource: &res.Resource{Attributes: c06GenKVs(rng, rng.Intn(5), 4, true)}}
		left := rng.Intn(maxSpans + 1)
		nsc := 1 + rng.Intn(2)
		for s := 0; s < nsc; s++ {
			sc := &trace.ScopeSpans{Scope: &v11.InstrumentationScope{Name: "lib", Version: "1"}}
			k := left
			if s < nsc-1 {
				k = rng.Intn(left + 1)
			}
			left -= k
			for j := 0; j < k; j++ {
				sp := &trace.Span{
					TraceId: c06GenID(rng, 16, wildIDs && rng.Chance(40)),
					SpanId:  c06GenID(rng, 8, wildIDs && rng.Chance(40)),
					Name:    c06Str(rng),
					Kind:    trace.Span_SpanKind(rng.Intn(6)),
				}
				switch rng.Intn(5) {
				case 0:
				case 1:
					sp.ParentSpanId = rng.Bytes(12)
				default:
					sp.ParentSpanId = c06GenID(rng, 8, false)
				}
				switch rng.Intn(6) {
				case 0:
					sp.StartTimeUnixNano, sp.EndTimeUnixNano = rng.U64(), rng.U64()
				case 1:
					sp.StartTimeUnixNano = 1700000000000000000 + uint64(rng.Intn(1e9))
					sp.EndTimeUnixNano = sp.StartTimeUnixNano - uint64(rng.Intn(1000))
				case 2:
					sp.StartTimeUnixNano, sp.EndTimeUnixNano = 0, 0
				default:
					sp.StartTimeUnixNano = 1700000000000000000 + uint64(rng.Intn(1e9))
					sp.EndTimeUnixNano = sp.StartTimeUnixNano + uint64(rng.Intn(5e9))
				}
				sp.Attributes = c06GenKVs(rng, rng.Intn(6), 4, true)
				if rng.Chance(40) {
					sp.Status = &trace.Status{Code: trace.Status_StatusCode(rng.Intn(3)), Message: c06Str(rng)}
				}
				if rng.Chance(25) {
					sp.Events = []*trace.Span_Event{{TimeUnixNano: rng.U64(), Name: c06Str(rng), Attributes: c06GenKVs(rng, rng.Intn(2), 1, false)}}
				}
				if rng.Chance(15) {
					sp.Links = []*trace.Span_Link{{TraceId: c06GenID(rng, 16, false), SpanId: c06GenID(rng, 8, false)}}
					sp.TraceState = "k=v"
					sp.DroppedAttributesCount = uint32(rng.Intn(3))
				}
				sc.Spans = append(sc.Spans, sp)
			}
			rs.ScopeSpans = append(rs.ScopeSpans, sc)
		}
		td.ResourceSpans = append(td.ResourceSpans, rs)
	}
	return td
}

// ---------------------------------------------------------------- Zipkin generator

type c06ZField struct {
	Key string   `json:"key"`
	Raw string   `json:"raw"` // JSON text of the member's value
	Tok []string `json:"-"`   // model tokens
}

// what the oracle expects of an accepted span, computed here from the generator's choices (not from the model)
type c06ZExpect struct {
	Reject   bool
	TraceHex string // hex digits as pushed
	IDHex    string
	HasTrace bool
	HasID    bool
	Parent   string // hex digits as pushed ("" = none)
	Name     string
	TsMicro  int64
	DurMicro int64
	Local    string
	Remote   string
	HasLocal bool // localEndpoint.serviceName present (string)
	HasRem   bool
	HasName  bool
	Tags     [][2]string // string-valued tags in document order
	Kind     string
}

type c06ZSpan struct {
	Fields []c06ZField
	Text   string
	Serial int
	Exp    c06ZExpect
}

func c06JSON(s string) string {
	b, _ := json.Marshal(s)
	return string(b)
}

var c06HexDigits = "0123456789abcdefABCDEF"

func c06GenHex(rng *h.Rng, n int) string {
	b := make([]byte, n)
	for i := range b {
		if rng.Chance(85) {
			b[i] = c06HexDigits[rng.Intn(16)]
		} else {
			b[i] = c06HexDigits[rng.Intn(22)]
		}
	}
	return string(b)
}

// id member: returns raw JSON, token, the hex string (if a string), and whether the writer must reject it.
// sizes: any length 1..maxLen; wild: also empty, not a string, non-hex characters.
func c06GenIDMember(rng *h.Rng, want int, maxLen int, sizes, wild bool) (raw, tok, hexs string, bad bool) {
	if wild && rng.Chance(4) {
		return h.Pick(rng, []string{"12", "null", "true", "[]", "{}"}), "~", "", true
	}
	n := want
	if sizes {
		switch rng.Intn(5) {
		case 0:
			n = 1 + rng.Intn(maxLen)
		case 1:
			n = want / 2
		case 2:
			n = want - 1 + rng.Intn(3)
		}
	}
	if wild && rng.Chance(3) {
		n = 0
	}
	s := c06GenHex(rng, n)
	if wild && rng.Chance(5) && n > 0 {
		b := []byte(s)
		b[rng.Intn(n)] = h.Pick(rng, []byte{'g', 'G', ' ', 'x', '-', 0xc3})
		s = strings.ToValidUTF8(string(b), "z")
	}
	// the writer's rule: empty → reject; else pad/cut to `want` digits, all of which must be hex
	if len(s) == 0 {
		bad = true
	} else {
		t := s
		if len(t) > want {
			t = t[:want]
		}
		for i := 0; i < len(t); i++ {
			if !strings.ContainsRune(c06HexDigits, rune(t[i])) {
				bad = true
			}
		}
	}
	return c06JSON(s), c06hex(s), s, bad
}

// time member (timestamp / duration, microseconds)
func c06GenTime(rng *h.Rng) (raw, tok string, micros int64, bad bool) {
	var v int64
	switch rng.Intn(6) {
	case 0:
		v = int64(rng.Intn(1000))
	case 1:
		v = 1700000000000000 + int64(rng.Intn(1e9))
	case 2:
		v = int64(rng.U64()) // wraps when multiplied by 1000
	case 3:
		v = -int64(rng.Intn(1e6))
	case 4:
		v = h.Pick(rng, []int64{math.MaxInt64, math.MinInt64, 0, 9223372036854775, 9223372036854776, -9223372036854776})
	default:
		v = int64(rng.Intn(1e12))
	}
	switch k := rng.Intn(100); {
	case k < 45:
		return strconv.FormatInt(v, 10), "n" + strconv.FormatInt(v, 10), v, false
	case k < 80:
		s := strconv.FormatInt(v, 10)
		return c06JSON(s), "s" + c06hex(s), v, false
	case k < 84:
		if v < 0 {
			v = -(v + 1)
		}
		s := "+" + strconv.FormatInt(v, 10)
		return c06JSON(s), "s" + c06hex(s), v, false
	case k < 88:
		s := "000" + strconv.FormatInt(int64(rng.Intn(1000)), 10)
		m, _ := strconv.ParseInt(s, 10, 64)
		return c06JSON(s), "s" + c06hex(s), m, false
	case k < 93:
		s := h.Pick(rng, []string{"", " 5", "5 ", "1_000", "0x10", "1.5", "1e3", "9223372036854775808", "-9223372036854775809", "+", "-", "--1", "١٢"})
		return c06JSON(s), "s" + c06hex(s), 0, true
	case k < 96:
		// integer number outside int64
		s := h.Pick(rng, []string{"9223372036854775808", "-9223372036854775809", "123456789012345678901234567890"})
		return s, "n" + s, 0, true
	default:
		return h.Pick(rng, []string{"1.5", "1e3", "null", "true", "[1]", "{}", "12.0"}), "x", 0, true
	}
}

func c06GenEndpoint(rng *h.Rng) (raw string, tok []string, svc string, hasSvc bool, bad bool, attrs [][2]string, port int64) {
	if rng.Chance(4) {
		return h.Pick(rng, []string{"null", "\"ep\"", "5", "[]"}), []string{"~"}, "", false, true, nil, 0
	}
	var members []string
	sn := "a"
	switch k := rng.Intn(100); {
	case k < 65:
		svc = c06Str(rng)
		hasSvc = true
		sn = "s" + c06hex(svc)
		members = append(members, `"serviceName":`+c06JSON(svc))
	case k < 70:
		sn = "x"
		bad = true
		members = append(members, `"serviceName":`+h.Pick(rng, []string{"null", "7", "{}", "[\"a\"]"}))
	}
	v4, v6 := "~", "~"
	if rng.Chance(40) {
		if rng.Chance(85) {
			ip := "10.0.0." + strconv.Itoa(rng.Intn(255))
			v4 = c06hex(ip)
			members = append(members, `"ipv4":`+c06JSON(ip))
			attrs = append(attrs, [2]string{"ipv4", ip})
		} else {
			members = append(members, `"ipv4":167772161`)
		}
	}
	if rng.Chance(20) {
		ip := "::1"
		v6 = c06hex(ip)
		members = append(members, `"ipv6":`+c06JSON(ip))
		attrs = append(attrs, [2]string{"ipv6", ip})
	}
	if rng.Chance(40) {
		switch rng.Intn(5) {
		case 0:
			members = append(members, `"port":0`)
		case 1:
			members = append(members, `"port":"80"`)
		default:
			port = int64(1 + rng.Intn(65535))
			members = append(members, `"port":`+strconv.FormatInt(port, 10))
		}
	}
	if rng.Chance(10) {
		members = append(members, `"zone":{"a":[1,2]}`)
	}
	for i := len(members) - 1; i > 0; i-- {
		j := rng.Intn(i + 1)
		members[i], members[j] = members[j], members[i]
	}
	return "{" + strings.Join(members, ",") + "}", []string{"e", sn, v4, v6, strconv.FormatInt(port, 10)}, svc, hasSvc, bad, attrs, port
}

type c06ZEndpointExp struct {
	Attrs [][2]string
	Port  int64
	Svc   string
	Has   bool
}

// c06GenZSpan: one Zipkin span with unique member names in a random order.
// wild: ill-typed / ill-sized members may occur; maxHex: longest id in hex digits.
func c06GenZSpan(rng *h.Rng, serial int, wild bool, maxHex int) (*c06ZSpan, map[string]c06ZEndpointExp) {
	sp := &c06ZSpan{Serial: serial}
	eps := map[string]c06ZEndpointExp{}
	add := func(key, raw string, tok ...string) {
		sp.Fields = append(sp.Fields, c06ZField{Key: key, Raw: raw, Tok: tok})
	}
	e := &sp.Exp
	if !wild || rng.Chance(97) {
		raw, tok, hx, bad := c06GenIDMember(rng, 32, maxHex, rng.Chance(40), wild)
		add("traceId", raw, "T", tok)
		e.TraceHex, e.HasTrace = hx, tok != "~"
		e.Reject = e.Reject || bad
	}
	if !wild || rng.Chance(97) {
		raw, tok, hx, bad := c06GenIDMember(rng, 16, maxHex, rng.Chance(40), wild)
		add("id", raw, "I", tok)
		e.IDHex, e.HasID = hx, tok != "~"
		e.Reject = e.Reject || bad
	}
	if rng.Chance(60) {
		raw, tok, hx, bad := c06GenIDMember(rng, 16, maxHex, rng.Chance(50), wild)
		add("parentId", raw, "P", tok)
		e.Parent = hx
		e.Reject = e.Reject || bad
	}
	if rng.Chance(85) {
		raw, tok, v, bad := c06GenTime(rng)
		if bad && !wild {
			raw, tok, v, bad = "1700000000000000", "n1700000000000000", 1700000000000000, false
		}
		add("timestamp", raw, "t", tok)
		e.TsMicro = v
		e.Reject = e.Reject || bad
	}
	if rng.Chance(80) {
		raw, tok, v, bad := c06GenTime(rng)
		if bad && !wild {
			raw, tok, v, bad = "\"250\"", "s"+c06hex("250"), 250, false
		}
		add("duration", raw, "u", tok)
		e.DurMicro = v
		e.Reject = e.Reject || bad
	}
	if rng.Chance(85) {
		if wild && rng.Chance(4) {
			add("name", h.Pick(rng, []string{"null", "5", "{}"}), "N", "~")
			e.Reject = true
		} else {
			s := c06Str(rng)
			add("name", c06JSON(s), "N", c06hex(s))
			e.Name, e.HasName = s, true
		}
	}
	if rng.Chance(50) {
		k := h.Pick(rng, []string{"CLIENT", "SERVER", "PRODUCER", "CONSUMER", "client", "", "X"})
		if rng.Chance(10) {
			add("kind", "3", "K", "~")
		} else {
			add("kind", c06JSON(k), "K", c06hex(k))
			e.Kind = k
		}
	}
	for _, ep := range []string{"localEndpoint", "remoteEndpoint"} {
		if !rng.Chance(65) {
			continue
		}
		raw, tok, svc, has, bad, attrs, port := c06GenEndpoint(rng)
		if bad && !wild {
			raw, tok, svc, has, bad, attrs, port = `{"serviceName":"svc"}`, []string{"e", "s" + c06hex("svc"), "~", "~", "0"}, "svc", true, false, nil, 0
		}
		t := "L"
		if ep == "remoteEndpoint" {
			t = "R"
			e.Remote, e.HasRem = svc, has
		} else {
			e.Local, e.HasLocal = svc, has
		}
		add(ep, raw, append([]string{t}, tok...)...)
		e.Reject = e.Reject || bad
		eps[ep] = c06ZEndpointExp{Attrs: attrs, Port: port, Svc: svc, Has: has}
	}
	if rng.Chance(75) {
		if wild && rng.Chance(4) {
			add("tags", h.Pick(rng, []string{"null", "[]", "\"t\""}), "G", "~")
			e.Reject = true
		} else {
			n := rng.Intn(5)
			var ms []string
			tok := []string{"G", strconv.Itoa(n)}
			for i := 0; i < n; i++ {
				k := h.Pick(rng, c06PlainKeys)
				if rng.Chance(30) {
					k = h.Pick(rng, c06SvcKeys)
				}
				if rng.Chance(85) {
					v := c06Str(rng)
					ms = append(ms, c06JSON(k)+":"+c06JSON(v))
					tok = append(tok, c06hex(k), c06hex(v))
					e.Tags = append(e.Tags, [2]string{k, v})
				} else {
					ms = append(ms, c06JSON(k)+":"+h.Pick(rng, []string{"1", "true", "null", "{\"a\":\"b\"}", "[\"x\"]", "1.5"}))
					tok = append(tok, c06hex(k), "~")
				}
			}
			add("tags", "{"+strings.Join(ms, ",")+"}", tok...)
		}
	}
	for _, k := range []string{"annotations", "debug", "shared", "zz"} {
		if rng.Chance(20) {
			raw := h.Pick(rng, []string{"[{\"timestamp\":1700000000000001,\"value\":\"ws\"}]", "true", "null", "{\"traceId\":\"ff\",\"name\":[\"n\"]}", "\"s\"",
				"[{\"timestamp\":0,\"value\":\"zero\"},{\"value\":\"nots\"},{\"timestamp\":18446744073709551,\"value\":\"big\"},7,{\"timestamp\":\"5\",\"value\":5}]"})
			switch {
			case k != "annotations":
				add(k, raw, "O")
			case strings.HasPrefix(raw, "[{\"timestamp\":17"):
				add(k, raw, "A", "1", "1700000000000001", c06hex("ws"))
			case strings.HasPrefix(raw, "[{\"timestamp\":0"):
				add(k, raw, "A", "5", "0", c06hex("zero"), "0", c06hex("nots"), "18446744073709551", c06hex("big"), "0", "-", "0", "-")
			default:
				add(k, raw, "A", "~")
			}
		}
	}
	// any member order
	for i := len(sp.Fields) - 1; i > 0; i-- {
		j := rng.Intn(i + 1)
		sp.Fields[i], sp.Fields[j] = sp.Fields[j], sp.Fields[i]
	}
	var ms []string
	sep := ","
	if rng.Chance(20) {
		sep = " , "
	}
	for _, f := range sp.Fields {
		ms = append(ms, c06JSON(f.Key)+":"+f.Raw)
	}
	sp.Text = "{" + strings.Join(ms, sep) + "}"
	return sp, eps
}

func (s *c06ZSpan) tokens() []string {
	out := []string{strconv.Itoa(s.Serial), strconv.Itoa(len(s.Text)), strconv.Itoa(len(s.Fields))}
	for _, f := range s.Fields {
		out = append(out, f.Tok...)
	}
	return out
}

func c06ZipOp(op string, nd bool, spans []*c06ZSpan) string {
	f := "a"
	if nd {
		f = "n"
	}
	out := []string{op, f, strconv.Itoa(len(spans))}
	for _, s := range spans {
		out = append(out, s.tokens()...)
	}
	return strings.Join(out, " ")
}

func c06ZipBody(nd bool, spans []*c06ZSpan) []byte {
	var texts []string
	for _, s := range spans {
		texts = append(texts, s.Text)
	}
	if nd {
		return []byte(strings.Join(texts, "\n"))
	}
	return []byte("[" + strings.Join(texts, ",") + "]")
}

var _ = fmt.Sprint
