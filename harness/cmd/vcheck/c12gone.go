package main

// C12 stream "gone": the client goes away after k chunks, for EVERY read endpoint, with a goroutine census per request.
//
// The HTTP exploration of c12.go aborts after n response BYTES over a real connection (where net/http buffers 4 KiB
// and the handler notices — if ever — several writes later). This stream puts the stop point exactly where the
// transition system of ReadSide/PipelineH.lean has it: at a chunk boundary of the handler's copy loop. The request is
// served by the real router (`router.ServeHTTP`) inside the child process with a ResponseWriter that counts the
// handler's Write calls and, at the (k+1)-th call,
//   * cancels the request context (what net/http does when the peer has closed the connection), and
//   * with `write_err`, makes this and every later Write fail with EPIPE (without: the bytes vanish, as they do in
//     the kernel's socket buffer until the RST comes back).
// k = -1: the context is cancelled before the handler starts; k = 0, 1, 2: before the first / second / third chunk;
// k = 50: deep in the body. Result sets are large enough (200 rows) for the producers to have chunks pending at each
// of these points; one script in three also fails midway (FailAt) so that "database fails" and "client gone" meet.
// The websocket tail is driven through a real connection (it hijacks): the client reads k messages and then drops
// the TCP connection or sends a close frame.
//
// Oracle (same as the exploration): the child stays alive, the handler returns within the deadline, and the census —
// goroutines with a qryn frame, open result sets — is back at its pre-request state.

import (
	"bytes"
	"context"
	"fmt"
	"net/http"
	"net/url"
	"os"
	"sort"
	"strings"
	"sync"
	"sync/atomic"
	"syscall"
	"time"

	"github.com/gorilla/websocket"
	fakes "verif/harness/fakes12"
	"verif/harness/h"
)

type goneWriter struct {
	mtx     sync.Mutex
	hdr     http.Header
	status  int
	k       int
	werr    bool
	cancel  context.CancelFunc
	writes  int64
	bytes   int64
	gone    bool
	head    bytes.Buffer
	errsOut int64
}

func (g *goneWriter) Header() http.Header { return g.hdr }
func (g *goneWriter) WriteHeader(s int) {
	g.mtx.Lock()
	if g.status == 0 {
		g.status = s
	}
	g.mtx.Unlock()
}
func (g *goneWriter) Write(p []byte) (int, error) {
	g.mtx.Lock()
	defer g.mtx.Unlock()
	if g.status == 0 {
		g.status = 200
	}
	n := int(atomic.AddInt64(&g.writes, 1))
	if !g.gone && g.k >= 0 && n > g.k {
		g.gone = true
		g.cancel()
	}
	if g.gone {
		if g.werr {
			atomic.AddInt64(&g.errsOut, 1)
			return 0, syscall.EPIPE
		}
		return len(p), nil
	}
	atomic.AddInt64(&g.bytes, int64(len(p)))
	if g.head.Len() < 160 {
		g.head.Write(p)
	}
	return len(p), nil
}

// settle: every goroutine the request started must terminate, every result set must be closed (the clock starts when
// no handler frame is left); shared by the gone and tail kinds
func (c *c12Child) settleCensus(before map[string]string, db *fakes.ReaderDB, o *c12Outcome, settle time.Duration) {
	t0 := time.Now()
	tHandler := time.Now()
	for {
		now := c12Census()
		var leaked []string
		handlerRunning := false
		for id, top := range now {
			if _, ok := before[id]; !ok && !c.known[id] {
				leaked = append(leaked, top)
				if strings.HasPrefix(top, "reader/controller.") {
					handlerRunning = true
				}
			}
		}
		open := db.OpenRows()
		if len(leaked) == 0 && open == 0 {
			break
		}
		if handlerRunning && time.Since(t0) < 8*c.deadline {
			tHandler = time.Now()
			o.AfterAbortMs = time.Since(t0).Milliseconds()
			time.Sleep(5 * time.Millisecond)
			continue
		}
		if time.Since(tHandler) > settle {
			sort.Strings(leaked)
			o.Leaked, o.OpenRows = leaked, open
			for id := range now {
				c.known[id] = true
			}
			break
		}
		time.Sleep(2 * time.Millisecond)
	}
	o.SettleMs = time.Since(t0).Milliseconds()
	o.Queries = len(db.Log())
}

func (c *c12Child) runGone(cs *c12Case) c12Outcome {
	db, hd := c.db, c.srv.Config.Handler
	if cs.Cluster {
		db, hd = c.dbCl, c.srvCl.Config.Handler
	}
	db.ResetLog()
	db.SetScript(c12Script(cs))
	c.errlog.take()
	before := c12Census()
	o := c12Outcome{ID: cs.ID}
	ctx, cancel := context.WithCancel(context.Background())
	defer cancel()
	req, err := http.NewRequest(cs.Method, "http://qryn.test"+cs.Path, bytes.NewReader(cs.Body))
	if err != nil {
		o.Outcome = "bad-request-line"
		return o
	}
	req.RequestURI = cs.Path
	for k, v := range cs.Header {
		req.Header.Set(k, v)
	}
	req = req.WithContext(ctx)
	w := &goneWriter{hdr: http.Header{}, k: cs.GoneAfter, werr: cs.WriteErr, cancel: cancel}
	if cs.GoneAfter < 0 {
		w.gone = true
		cancel()
	}
	done := make(chan string, 1)
	go func() {
		defer func() {
			if r := recover(); r != nil {
				done <- fmt.Sprint(r) // net/http would log "http: panic serving" and drop the connection
				return
			}
			done <- ""
		}()
		hd.ServeHTTP(w, req)
	}()
	start, last, lastN := time.Now(), time.Now(), int64(0)
wait:
	for {
		select {
		case p := <-done:
			o.HandlerPanic = p
			cancel() // net/http cancels the request context when the handler has returned
			break wait
		case <-time.After(20 * time.Millisecond):
			if n := atomic.LoadInt64(&w.writes); n != lastN {
				last, lastN = time.Now(), n
			}
			if time.Since(last) > c.deadline || time.Since(start) > 8*c.deadline {
				o.Outcome = "hang"
				o.Dump = fmt.Sprintf("%d chunks so far; ", lastN) + qrynDump()
				o.Queries = len(db.Log())
				return o
			}
		}
	}
	w.mtx.Lock()
	o.Status, o.BodyBytes, o.BodyHead, o.Chunks = w.status, int(w.bytes), w.head.String(), int(w.writes)
	gone := w.gone
	w.mtx.Unlock()
	if len(o.BodyHead) > 160 {
		o.BodyHead = o.BodyHead[:160]
	}
	o.Outcome = "answered"
	if gone {
		o.Outcome = "aborted-by-client"
	}
	if time.Since(start) > c.deadline {
		o.Slow = true
	}
	c.settleCensus(before, db, &o, c.settle)
	return o
}

// runTail: the websocket tail over a real connection; the client reads k messages, then goes away
func (c *c12Child) runTail(cs *c12Case) c12Outcome {
	db, srv := c.db, c.srv
	if cs.Cluster {
		db, srv = c.dbCl, c.srvCl
	}
	db.ResetLog()
	db.SetScript(c12Script(cs))
	c.errlog.take()
	before := c12Census()
	o := c12Outcome{ID: cs.ID}
	u := "ws://" + srv.Listener.Addr().String() + cs.Path
	d := websocket.Dialer{HandshakeTimeout: c12Slow * 3 * time.Second}
	con, resp, err := d.Dial(u, nil)
	if resp != nil {
		o.Status = resp.StatusCode
	}
	if err != nil {
		// refused before the upgrade (bad query, …): still a request whose goroutines must be gone
		o.Outcome = "answered"
		c.settleCensus(before, db, &o, c12Slow*2500*time.Millisecond)
		return o
	}
	got := 0
	t0 := time.Now()
	for got < cs.GoneAfter {
		if cs.GoneAfter >= 1000 && time.Since(t0) > c12Slow*2500*time.Millisecond {
			break
		}
		con.SetReadDeadline(time.Now().Add(c12Slow * 4 * time.Second))
		_, msg, err := con.ReadMessage()
		if err != nil {
			break
		}
		if got == 0 {
			o.BodyHead = string(msg)
			if len(o.BodyHead) > 160 {
				o.BodyHead = o.BodyHead[:160]
			}
		}
		o.BodyBytes += len(msg)
		got++
	}
	o.Chunks = got
	if cs.GoneAfter >= 1000 && got >= cs.GoneAfter && o.BodyBytes < got {
		// thousands of EMPTY messages within the read deadline: the handler is spinning on a closed result channel
		o.Outcome = "flood"
		o.Dump = fmt.Sprintf("%d websocket messages with %d payload bytes in total received in %d ms", got, o.BodyBytes, time.Since(t0).Milliseconds())
		con.UnderlyingConn().Close()
		c.settleCensus(before, db, &o, c12Slow*3500*time.Millisecond)
		return o
	}
	if cs.WriteErr {
		con.UnderlyingConn().Close() // the peer vanishes: the server's next writes fail
	} else {
		con.WriteControl(websocket.CloseMessage, websocket.FormatCloseMessage(websocket.CloseNormalClosure, ""), time.Now().Add(time.Second))
		time.Sleep(20 * time.Millisecond)
		con.Close()
	}
	o.Outcome = "aborted-by-client"
	// the tail's loops look at their tickers once a second: the settling window is wider here
	c.settleCensus(before, db, &o, c12Slow*3500*time.Millisecond)
	return o
}

// ---- parent side

var c12GoneKs = []int{-1, 0, 1, 2, 50}

// c12GoneBases: per endpoint, `per` well-formed requests that reach the database and stream an answer. Candidates come
// from the endpoint's generator (grammar-generated query, normal window and step); each is first run to the end
// (probe: the client never goes away) and the ones answered 200 with the most chunks are kept.
func c12GoneBases(rng *h.Rng, tier string, per int) (map[string][]*c12Case, error) {
	var probes []*c12Case
	for _, ep := range c12Endpoints {
		er := rng.Fork()
		n := 0
		for try := 0; try < 400 && n < 6*per; try++ {
			c := &c12Case{Endpoint: ep.name, Abort: -1}
			ep.gen(er, c)
			if strings.Contains(c.Class, "q=mutated") || strings.Contains(c.Class, "q=random") {
				continue
			}
			bad := false
			for _, f := range strings.Fields(c.Class) {
				if (strings.HasPrefix(f, "win=") || strings.HasPrefix(f, "time=")) && f != "win=normal" && f != "time=normal" {
					bad = true
				}
				if strings.HasPrefix(f, "step=") && f != "step=normal" && f != "step=absent" {
					bad = true
				}
			}
			if bad {
				continue
			}
			c.ID = 900000 + len(probes)
			c.Kind, c.GoneAfter = "gone", 1<<30
			c.Answers = []c12Answer{{Shape: "auto", N: 200, Seed: er.U64()}}
			c.Class = "gone probe"
			probes = append(probes, c)
			n++
		}
	}
	js, err := c12RunCases(probes, tier, 4)
	if err != nil {
		return nil, err
	}
	type scored struct {
		c     *c12Case
		score int
	}
	by := map[string][]scored{}
	for _, j := range js {
		if j.o == nil {
			continue
		}
		sc := j.o.Chunks
		if j.o.Status/100 == 2 {
			sc += 1000
		}
		if j.o.Queries > 0 {
			sc += 10000
		}
		by[j.cs.Endpoint] = append(by[j.cs.Endpoint], scored{j.cs, sc})
	}
	res := map[string][]*c12Case{}
	for ep, xs := range by {
		sort.SliceStable(xs, func(a, b int) bool { return xs[a].score > xs[b].score })
		for i := 0; i < per && i < len(xs); i++ {
			res[ep] = append(res[ep], xs[i].c)
		}
	}
	return res, nil
}

func c12GoneCases(rng *h.Rng, tier string, firstID int) ([]*c12Case, error) {
	per := 1
	if tier != "quick" {
		per = 6
	}
	bases, err := c12GoneBases(rng.Fork(), tier, per)
	if err != nil {
		return nil, err
	}
	var cases []*c12Case
	for _, ep := range c12Endpoints {
		er := rng.Fork()
		for _, base := range bases[ep.name] {
			for _, k := range c12GoneKs {
				for _, werr := range []bool{false, true} {
					c := *base
					c.ID = firstID + len(cases)
					c.Kind, c.GoneAfter, c.WriteErr = "gone", k, werr
					a := c12Answer{Shape: "auto", N: 200, Seed: er.U64()}
					db := "rows"
					switch er.Intn(3) {
					case 0:
						a.FailAt, db = 1+er.Intn(200), "mid-stream-error"
					}
					c.Answers = []c12Answer{a}
					c.Cluster = er.Chance(15)
					c.Class = fmt.Sprintf("gone k=%d werr=%v db=%s", k, werr, db)
					cases = append(cases, &c)
				}
			}
		}
	}
	// the websocket tail: k messages (0, 1, 2), dropped connection / close frame
	tails := []string{`{a="b"}`, `{a="b"} | json`, `{a="b"} |= "x" | logfmt | line_format "{{.a}}"`}
	nt := 1
	if tier != "quick" {
		nt = len(tails)
	}
	for _, q := range tails[:nt] {
		for _, k := range []int{0, 1, 2} {
			for _, werr := range []bool{false, true} {
				if tier == "quick" && k == 2 && !werr {
					continue
				}
				a := c12Answer{Shape: "logs", N: 30, Seed: rng.U64()}
				c := &c12Case{ID: firstID + len(cases), Kind: "tail", Endpoint: "loki/tail", Method: "GET", Abort: -1,
					Path: "/loki/api/v1/tail?query=" + url.QueryEscape(q), Query: q, GoneAfter: k, WriteErr: werr,
					Answers: []c12Answer{a}, From: (c12Base - 300) * 1e9, To: c12Base * 1e9,
					Class: fmt.Sprintf("gone k=%d werr=%v db=rows", k, werr)}
				cases = append(cases, c)
			}
		}
	}
	// the tail's goroutine has no recover and runs the planner chain's Process once per tick: grammar-generated queries
	// (log and metric forms) through it; the client stays for two messages (≥ one tick), then leaves
	ne := 6
	if tier != "quick" {
		ne = 90
	}
	tr := rng.Fork()
	for i := 0; i < ne; i++ {
		q, qc := c12QueryText(tr, c12LogQL)
		a := c12Answer{Shape: "auto", N: tr.Intn(40), Seed: tr.U64()}
		if tr.Chance(20) {
			a.FailAt = 1 + tr.Intn(10)
		}
		if tr.Chance(10) {
			a.QueryErr = true
		}
		cases = append(cases, &c12Case{ID: firstID + len(cases), Kind: "tail", Endpoint: "loki/tail", Method: "GET", Abort: -1,
			Path: "/loki/api/v1/tail?query=" + url.QueryEscape(q), Query: q, GoneAfter: 2, WriteErr: tr.Bool(),
			Answers: []c12Answer{a}, From: (c12Base - 300) * 1e9, To: c12Base * 1e9, Class: "gone tail-explore q=" + qc})
	}
	// a query the tail cannot serve (a metric query: the planner refuses step 0): the service side ends at once;
	// the handler must end too instead of sending messages for ever
	for _, q := range []string{`rate({a="b"}[1m])`, `count_over_time({a="b"} | json [5m])`} {
		cases = append(cases, &c12Case{ID: firstID + len(cases), Kind: "tail", Endpoint: "loki/tail", Method: "GET", Abort: -1,
			Path: "/loki/api/v1/tail?query=" + url.QueryEscape(q), Query: q, GoneAfter: 3000, WriteErr: true,
			Answers: []c12Answer{{Shape: "auto", N: 3, Seed: 5}}, From: (c12Base - 300) * 1e9, To: c12Base * 1e9, Class: "gone tail-unsupported-query"})
	}
	// a tail request that is refused before the upgrade
	cases = append(cases, &c12Case{ID: firstID + len(cases), Kind: "tail", Endpoint: "loki/tail", Method: "GET", Abort: -1,
		Path: "/loki/api/v1/tail?query=" + url.QueryEscape(`{a=`), Query: `{a=`, Answers: []c12Answer{{Shape: "logs", N: 1, Seed: 1}}, Class: "gone refused"})
	return cases, nil
}

// c12Gone runs the stream and judges it with the exploration's oracle
func c12Gone(r *h.Result, rng *h.Rng, tier string) error {
	r.Stream("gone: for each of the read endpoints (27 generators + the websocket tail) the client goes away after k ∈ {before the handler, 0, 1, 2, 50} chunks of the handler's copy loop — request context cancelled at that Write call, with and without the Writes failing from then on — over 200-row result sets, one in three failing midway; real routers in child processes; oracle = child alive, handler returns within the deadline, goroutine census and open result sets back to the pre-request state")
	cases, err := c12GoneCases(rng, tier, 1000000)
	if err != nil {
		return err
	}
	W := 4
	if tier != "quick" {
		W = 6
	}
	js, err := c12RunCases(cases, tier, W)
	if err != nil {
		return err
	}
	for _, j := range js {
		nontrivial := j.o != nil && j.o.Queries > 0
		r.Case("gone "+j.cs.Endpoint+" "+j.cs.Class, nontrivial)
		r.Count("gone:endpoint:" + j.cs.Endpoint)
		if j.o != nil {
			switch {
			case j.o.Chunks == 0:
				r.Count("gone:chunks-seen:0")
			case j.o.Chunks <= 3:
				r.Count("gone:chunks-seen:1-3")
			case j.o.Chunks <= 50:
				r.Count("gone:chunks-seen:4-50")
			default:
				r.Count("gone:chunks-seen:>50")
			}
			if j.o.Outcome == "aborted-by-client" && j.o.Chunks > j.cs.GoneAfter && j.cs.GoneAfter >= 0 {
				r.Count("gone:stop-point-reached")
			}
		}
		c12Judge(r, j, tier, true)
		if j.o != nil && os.Getenv("C12_GONE_DEBUG") != "" {
			fmt.Fprintf(os.Stderr, "GONE %-28s %-40s status=%d %s chunks=%d queries=%d settle=%dms after=%dms leaked=%v\n", j.cs.Endpoint, j.cs.Class, j.o.Status, j.o.Outcome, j.o.Chunks, j.o.Queries, j.o.SettleMs, j.o.AfterAbortMs, j.o.Leaked)
		}
		if j.o != nil && (j.cs.ID%97 == 0 || j.cs.Kind == "tail") {
			r.Sample(map[string]any{"stream": "gone", "endpoint": j.cs.Endpoint, "request": j.cs.Method + " " + c12Short(j.cs.Path), "class": j.cs.Class,
				"status": j.o.Status, "outcome": j.o.Outcome, "chunks": j.o.Chunks, "queries": j.o.Queries, "settle_ms": j.o.SettleMs})
		}
	}
	return nil
}
