package main

// C10 `jsonparser` stream: the object the planner builds for `| json label="path", …` (sqlJsonParser, found in the
// real plan by reflection) renders, by its own String method, exactly the text of the model `LogQL.jsonParserText`
// over the labels and path parts the harness put into the query — identifier parts, [N] positions (1-based in
// SQL) and quoted field names of arbitrary bytes, many of them beginning with a digit. The model's text is proved
// well formed for its leaves (`json_params_closed`); a part the code copies verbatim is a disagreement here.

import (
	"fmt"
	"reflect"
	"strconv"
	"strings"
	"unsafe"

	"github.com/metrico/qryn/reader/logql/logql_parser"
	"github.com/metrico/qryn/reader/logql/logql_transpiler_v2/clickhouse_planner"
	sql "github.com/metrico/qryn/reader/utils/sql_select"
	"verif/harness/h"
)

// c10FindObjects: every *T with type name `name` reachable from root that implements sql.SQLObject
func c10FindObjects(root any, name string) []sql.SQLObject {
	var res []sql.SQLObject
	seen := map[uintptr]bool{}
	var walk func(v reflect.Value, depth int)
	acc := func(v reflect.Value) reflect.Value {
		if v.CanInterface() {
			return v
		}
		if v.CanAddr() {
			return reflect.NewAt(v.Type(), unsafe.Pointer(v.UnsafeAddr())).Elem()
		}
		return v
	}
	walk = func(v reflect.Value, depth int) {
		if depth > 100 || !v.IsValid() {
			return
		}
		switch v.Kind() {
		case reflect.Ptr:
			if v.IsNil() || seen[v.Pointer()] {
				return
			}
			seen[v.Pointer()] = true
			if v.Elem().Kind() == reflect.Struct && v.Elem().Type().Name() == name && v.CanInterface() {
				if o, ok := v.Interface().(sql.SQLObject); ok {
					res = append(res, o)
				}
			}
			walk(v.Elem(), depth+1)
		case reflect.Interface:
			if !v.IsNil() {
				walk(v.Elem(), depth+1)
			}
		case reflect.Struct:
			if !v.CanAddr() {
				c := reflect.New(v.Type()).Elem()
				c.Set(v)
				v = c
			}
			for i := 0; i < v.NumField(); i++ {
				walk(acc(v.Field(i)), depth+1)
			}
		case reflect.Slice, reflect.Array:
			for i := 0; i < v.Len(); i++ {
				walk(acc(v.Index(i)), depth+1)
			}
		case reflect.Map:
			for _, k := range v.MapKeys() {
				walk(v.MapIndex(k), depth+1)
			}
		}
	}
	walk(reflect.ValueOf(root), 0)
	return res
}

type c10JPart struct {
	text string // as written in the path
	want string // the part the planner must embed as a literal
}

func c10GenPart(rng *h.Rng, first bool) c10JPart {
	switch rng.Intn(10) {
	case 0, 1:
		id := h.Pick(rng, []string{"a", "b_1", "Zz", "_x", "k9"})
		if first {
			return c10JPart{id, id}
		}
		return c10JPart{"." + id, id}
	case 2:
		n := rng.Intn(1000)
		return c10JPart{"[" + strconv.Itoa(n) + "]", "#" + strconv.Itoa(n+1)} // an index: the integer n+1 (NewIntVal)
	}
	// a quoted field name
	var s string
	switch rng.Intn(6) {
	case 0:
		s = h.Pick(rng, c10LeadDigits) + c10Mid(rng, clFull)
	case 1:
		s = h.Pick(rng, []string{"0", "9lives", "1", "0') == 'String', 1, 2) as labels, (SELECT 1) as x --", "7'", "00", "3.5", "1e3", "0x1F"})
	case 2:
		s = h.Pick(rng, c10Leads) + c10Mid(rng, clFull)
	default:
		s = c10Mid(rng, clFull)
	}
	return c10JPart{"[" + jq(s) + "]", c10JSONCoerce(s)}
}

func c10JsonParser(r *h.Result, rng *h.Rng, n int) error {
	r.Stream("jsonparser: sqlJsonParser.String of the real plan of `| json l=\"path\", …` (object found by reflection) vs the model LogQL.jsonParserText over the generated labels and path parts")
	var ops, impl []string
	var cases []any
	for i := 0; i < n; i++ {
		np := rng.Range(1, 3)
		var params, labels, paths []string
		for j := 0; j < np; j++ {
			lbl := h.Pick(rng, []string{"x", "lbl", "_a", "y9"}) + strconv.Itoa(j)
			k := rng.Range(1, 4)
			var text string
			var parts []string
			for q := 0; q < k; q++ {
				p := c10GenPart(rng, q == 0)
				text += p.text
				if strings.HasPrefix(p.text, "[") && !strings.HasPrefix(p.text, "[\"") && strings.HasPrefix(p.want, "#") {
					parts = append(parts, p.want)
				} else {
					parts = append(parts, h.Hex([]byte(p.want)))
				}
			}
			params = append(params, lbl+"="+jq(text))
			labels = append(labels, h.Hex([]byte(lbl)))
			paths = append(paths, strings.Join(parts, ","))
		}
		query := `{a="b"} | json ` + strings.Join(params, ", ")
		key := "jsonparser:" + h.Hex([]byte(query))
		script, err := logql_parser.Parse(query)
		if err != nil {
			r.Case(key, false)
			r.Count("jsonparser:parser-refused")
			continue
		}
		var text string
		func() {
			defer func() {
				if e := recover(); e != nil {
					err = fmt.Errorf("panic: %v", e)
				}
			}()
			pl, e := clickhouse_planner.Plan(script, true)
			if e != nil {
				err = e
				return
			}
			sel, e := pl.Process(c10PlannerCtx(false, true))
			if e != nil {
				err = e
				return
			}
			objs := c10FindObjects(sel, "sqlJsonParser")
			if len(objs) != 1 {
				err = fmt.Errorf("%d sqlJsonParser objects in the plan", len(objs))
				return
			}
			text, err = objs[0].String(sql.DefaultCtx())
		}()
		if err != nil {
			r.Case(key, false)
			r.Count("jsonparser:planner-refused")
			if strings.Contains(err.Error(), "sqlJsonParser objects") {
				return fmt.Errorf("jsonparser: %v for %q", err, query)
			}
			continue
		}
		r.Case(key, true)
		r.Count("jsonparser:compared")
		ops = append(ops, fmt.Sprintf("c10json %s %s", strings.Join(labels, ","), strings.Join(paths, ";")))
		impl = append(impl, h.Hex([]byte(text)))
		cases = append(cases, map[string]string{"stream": "jsonparser", "query": query, "impl_sql": text})
		if i%200 == 0 {
			r.Sample(map[string]string{"stream": "jsonparser", "query": query, "impl_sql": text})
		}
	}
	if len(ops) == 0 {
		return fmt.Errorf("jsonparser: no case reached the comparison")
	}
	return r.Compare("jsonparser", ops, impl, cases)
}
