package main

import (
	"context"
	"fmt"
	"regexp"
	"strconv"
	"strings"
	"time"

	"github.com/metrico/qryn/reader/logql/logql_parser"
	"github.com/metrico/qryn/reader/logql/logql_transpiler_v2/clickhouse_planner"
	"github.com/metrico/qryn/reader/logql/logql_transpiler_v2/shared"
	profparser "github.com/metrico/qryn/reader/prof/parser"
	proftr "github.com/metrico/qryn/reader/prof/transpiler"
	promtr "github.com/metrico/qryn/reader/promql/transpiler"
	traceql_parser "github.com/metrico/qryn/reader/traceql/parser"
	"github.com/metrico/qryn/reader/traceql/transpiler/clickhouse_transpiler"
	sql "github.com/metrico/qryn/reader/utils/sql_select"
	"github.com/prometheus/prometheus/model/labels"
	"github.com/prometheus/prometheus/storage"
	"verif/harness/h"
	"verif/harness/sqldump"
)

// The `model-*` streams tie the planner MODELS that the all_scans_confined_* theorems of Props/C13.lean are about to the
// real planners: for generated requests the model's statement (rendered by Sql.renderSel) must equal the real statement's
// text byte for byte; the driver also reports the verdict of the confinement predicate on the model's own plan (true by
// the theorem) and whether the classification `lokiCfg` of the tables the real context names satisfies the theorem's
// hypotheses. For metric queries the REAL plan's dump is additionally judged with exactly the slack the theorem states.

type c13mCase struct {
	Stream string `json:"stream"`
	Kind   string `json:"kind"`
	Query  string `json:"query"`
	Ctx    any    `json:"ctx"`
	SQL    string `json:"sql,omitempty"`
	Err    string `json:"error,omitempty"`
}

// c13Judge compares one model answer "<hex text> <fields…>" with the real text and checks the verdict fields (all "true")
func c13Judge(r *h.Result, stream, op, ans, realText string, c c13mCase, verdictFrom int) (fields []string) {
	fields = strings.Fields(ans)
	want := h.Hex([]byte(realText))
	if len(fields) == 0 || fields[0] != want {
		got := ans
		if len(fields) > 0 {
			got = fields[0]
		}
		r.Disagree(stream, op, want, got, c)
		return fields
	}
	for i := verdictFrom; i < len(fields); i++ {
		if fields[i] != "true" {
			r.Disagree(stream, op+" [verdict field "+strconv.Itoa(i)+"]", "true", fields[i], c)
		}
	}
	return fields
}

// c13Tight collects real statements to be judged by confinedDeep with exactly the window/slack a theorem states
type c13Tight struct {
	ops   []string
	keys  []string
	what  []string
	cases []any
}

func (t *c13Tight) add(key string, from, to, slack int64, need bool, tp int, sel sql.ISelect, what string, c any) {
	t.ops = append(t.ops, fmt.Sprintf("c13confined %d %d %d %d %d %s", from, to, slack, b2i(need), tp, hx(sqldump.Dump(sel))))
	t.keys = append(t.keys, key)
	t.what = append(t.what, what)
	t.cases = append(t.cases, c)
}

func (t *c13Tight) judge(r *h.Result) error {
	ans, err := h.Model(t.ops)
	if err != nil {
		return err
	}
	for i, a := range ans {
		r.Count("tight:" + t.keys[i])
		if strings.HasPrefix(a, "true") {
			continue
		}
		r.Violate("C13/unconfined/"+t.keys[i], "the real statement for "+t.what[i]+" has a scan outside the window the theorem states: "+a,
			map[string]any{"stream": "model", "case": t.cases[i], "verdict": a})
	}
	return nil
}

func c13Window(rng *h.Rng, from, to int64) (int64, int64) {
	if rng.Chance(25) {
		day := (from / 86400e9) * 86400e9
		switch rng.Intn(4) {
		case 0:
			return day - 600e9, day + 600e9
		case 1:
			return day + 60e9, day + 1200e9
		case 2:
			return day + 1799e9 + int64(rng.Intn(3))*1e9 - 1e9, day + 7200e9
		default:
			return day - 3600e9, day + int64(rng.Intn(1800))*1e9 + 1
		}
	}
	return from, to
}

// ---- model-metric
func c13ModelMetric(r *h.Result, rng *h.Rng, n int) error {
	r.Stream("model-metric: logql_parser.Parse → clickhouse_planner.Plan(script, true) → Process → String vs LogQL.planMetric/renderSel (byte-equal); the real plan's reflection dump judged by confinedDeep with exactly the slack of all_scans_confined_metric (0, or 15 s − 1 ns when the metrics_15s shortcut is taken)")
	type mc struct {
		c     c13mCase
		text  string
		dump  string
		from  int64
		to    int64
		short bool
	}
	var ops []string
	var cs []mc
	for i := 0; i < n; i++ {
		query := genMetricQuery(rng, mgen{extraFns: true, ms: true})
		script, err := logql_parser.Parse(query)
		if err != nil {
			r.Count("model-metric:parse-error")
			continue
		}
		ser, err := serMetric(script)
		if err != nil {
			r.Count("model-metric:outside-fragment")
			continue
		}
		c := genMCtx(rng, scriptDuration(script))
		c.From, c.To = c13Window(rng, c.From, c.To)
		if rng.Chance(30) {
			// windows as FixPeriodPlanner hands them over: aligned to the range
			d := scriptDuration(script)
			if d > 0 {
				c.From, c.To = c.From/d*d, c.To/d*d+d
			}
		}
		if c.Type == 0 {
			c.Type = 1
		}
		var sel sql.ISelect
		var text string
		func() {
			defer func() {
				if p := recover(); p != nil {
					err = fmt.Errorf("panic: %v", p)
				}
			}()
			var p shared.SQLRequestPlanner
			p, err = clickhouse_planner.Plan(script, true)
			if err != nil {
				return
			}
			sel, err = p.Process(c.planner())
			if err != nil {
				return
			}
			text, err = sel.String(sql.DefaultCtx())
		}()
		if err != nil {
			r.Count("model-metric:impl-error")
			continue
		}
		ops = append(ops, "c13metric "+c.ser()+" "+ser)
		cs = append(cs, mc{c13mCase{"model-metric", "metric", query, c, text, ""}, text, sqldump.Dump(sel), c.From, c.To,
			clickhouse_planner.AnalyzeMetrics15sShortcut(script)})
		r.Case("model-metric:"+query+fmt.Sprint(c), true)
	}
	ans, err := h.Model(ops)
	if err != nil {
		return err
	}
	var ops2 []string
	var idx []int
	for i, a := range ans {
		f := c13Judge(r, "model-metric", ops[i], a, cs[i].text, cs[i].c, 3)
		if len(f) < 5 {
			continue
		}
		if cs[i].short {
			r.Count("model-metric:metrics_15s-shortcut")
			if f[1] != "14999999999" {
				r.Disagree("model-metric", ops[i]+" [slack]", "14999999999", f[1], cs[i].c)
			}
		} else {
			r.Count("model-metric:samples")
			if f[1] != "0" {
				r.Disagree("model-metric", ops[i]+" [slack]", "0", f[1], cs[i].c)
			}
		}
		ops2 = append(ops2, fmt.Sprintf("c13confined %d %d %s 1 %s %s", cs[i].from, cs[i].to, f[1], f[2], hx(cs[i].dump)))
		idx = append(idx, i)
	}
	ans2, err := h.Model(ops2)
	if err != nil {
		return err
	}
	for k, a := range ans2 {
		i := idx[k]
		if strings.HasPrefix(a, "true") {
			continue
		}
		var bad []string
		for _, f := range strings.Fields(a)[1:] {
			if strings.HasSuffix(f, "=false") {
				bad = append(bad, strings.TrimSuffix(f, "=false"))
			}
		}
		scan := "samples"
		if cs[i].short {
			scan = "metrics_15s"
		}
		_ = bad
		r.Violate("C13/unconfined/logql-metric-tight/"+scan,
			fmt.Sprintf("metric statement for %s window [%d,%d) has a scan outside the window widened by the slack the theorem allows: %s", cs[i].c.Query, cs[i].from, cs[i].to, a),
			map[string]any{"stream": "model-metric", "query": cs[i].c.Query, "ctx": cs[i].c.Ctx, "verdict": a, "sql": cs[i].text})
	}
	return nil
}

// ---- model-traceql
func c13ModelTrace(r *h.Result, rng *h.Rng, n int) error {
	r.Stream("model-traceql: clickhouse_transpiler.Plan / PlanTagsV2 / PlanValuesV2 → Process → String vs TraceQL.plan / planTags / planValues (byte-equal, errors as ERR) + confinedDeep of the model's plan + hypotheses of all_scans_confined_traceql* under lokiCfg")
	var ops, impl []string
	var cases []c13mCase
	var tight c13Tight
	run := func(kind, query string, c tqctx, key string) {
		var text string
		var real sql.ISelect
		var script *traceql_parser.TraceQLScript
		var err error
		func() {
			defer func() {
				if rec := recover(); rec != nil {
					err = fmt.Errorf("panic: %v", rec)
				}
			}()
			script, err = traceql_parser.Parse(query)
			if err != nil {
				script = nil
				return
			}
			var p interface {
				Process(*shared.PlannerContext) (sql.ISelect, error)
			}
			switch kind {
			case "plan":
				p, err = clickhouse_transpiler.Plan(script)
			case "tags":
				p, err = clickhouse_transpiler.PlanTagsV2(script)
			default:
				p, err = clickhouse_transpiler.PlanValuesV2(script, key)
			}
			if err != nil {
				return
			}
			sel, e := p.Process(c.planner())
			if e != nil {
				err = e
				return
			}
			real = sel
			text, err = sel.String(sql.DefaultCtx())
		}()
		if script == nil {
			r.Count("model-traceql:parse-error")
			return
		}
		if err != nil && strings.HasPrefix(err.Error(), "panic:") {
			r.Count("model-traceql:impl-panic")
			return
		}
		ser, serr := serTraceQL(script)
		if serr != nil {
			r.Count("model-traceql:outside-fragment")
			return
		}
		switch kind {
		case "plan":
			ops = append(ops, "c13trace "+c.ser()+" "+ser)
		case "tags":
			ops = append(ops, "c13tags "+c.ser()+" "+ser)
		default:
			ops = append(ops, "c13tvalues "+c.ser()+" "+hx(c.planner().TracesKVDistTable)+" "+h.Hex([]byte(key))+" "+ser)
		}
		e := ""
		if err != nil {
			e = err.Error()
			text = ""
			r.Count("model-traceql:" + kind + "-error")
		} else {
			r.Count("model-traceql:" + kind + "-ok")
			r.Count(fmt.Sprintf("model-traceql:selectors=%d", countSelectors(script)))
			tight.add("traceql-"+kind, c.From, c.To, 0, false, 0, real, query, map[string]any{"kind": kind, "query": query, "ctx": c, "sql": text})
		}
		impl = append(impl, text)
		cases = append(cases, c13mCase{"model-traceql", kind, query, c, text, e})
		r.Case("model-traceql:"+kind+query+fmt.Sprint(c), err == nil)
	}
	for i := 0; i < n; i++ {
		c := genTqCtx(rng)
		c.From, c.To = c13Window(rng, c.From, c.To)
		switch {
		case i%3 == 0:
			q := tqSelector(rng, 2)
			run("tags", q, c, "")
			run("values", q, c, h.Pick(rng, []string{"a", "http.status", "k'ey", "", "name"}))
		case i%17 == 1:
			run("plan", "{}", c, "")
		default:
			run("plan", genTraceQL(rng, 5, 3, 0), c, "")
		}
	}
	ans, err := h.Model(ops)
	if err != nil {
		return err
	}
	for i, a := range ans {
		if cases[i].Err != "" {
			if a != "ERR" {
				r.Disagree("model-traceql", ops[i], "ERR", a, cases[i])
			}
			continue
		}
		c13Judge(r, "model-traceql", ops[i], a, impl[i], cases[i], 1)
	}
	return tight.judge(r)
}

// ---- model-series: the Loki series and label-values planners
func c13ModelSeries(r *h.Result, rng *h.Rng, n int) error {
	r.Stream("model-series: clickhouse_planner.NewSeriesPlanner / NewValuesPlanner over PlanFingerprints(script) → Process → String vs LogQL.planSeries / planValues (byte-equal) + confined of the model's plan + hypotheses under lokiCfg")
	var ops, impl []string
	var cases []c13mCase
	var tight c13Tight
	for i := 0; i < n; i++ {
		query := genLogQuery(rng, 3, 3)
		script, err := logql_parser.Parse(query)
		if err != nil {
			continue
		}
		ser, err := serLogQuery(script)
		if err != nil {
			r.Count("model-series:outside-fragment")
			continue
		}
		c := genCtx(rng)
		c.From, c.To = c13Window(rng, c.From, c.To)
		tp := int(c.Type)
		if tp == 0 {
			tp = 1
		}
		text := func(p shared.SQLRequestPlanner) (string, error) {
			sel, err := p.Process(c.planner())
			if err != nil {
				return "", err
			}
			t, err := sel.String(sql.DefaultCtx())
			if err == nil {
				tight.add("logql-series-values", c.From, c.To, 0, true, tp, sel, query, map[string]any{"query": query, "ctx": c, "sql": t})
			}
			return t, err
		}
		fpP, err := clickhouse_planner.PlanFingerprints(script)
		if err != nil {
			r.Count("model-series:fingerprints-error")
			continue
		}
		if t, err := text(clickhouse_planner.NewSeriesPlanner(fpP)); err == nil {
			ops = append(ops, "c13series "+c.ser()+" "+ser)
			impl = append(impl, t)
			cases = append(cases, c13mCase{"model-series", "series", query, c, t, ""})
			r.Case("model-series:series:"+query+fmt.Sprint(c), true)
			r.Count("model-series:series")
		} else {
			r.Count("model-series:series-error")
		}
		key := h.Pick(rng, []string{"job", "a", "x'y", ""})
		fpP, _ = clickhouse_planner.PlanFingerprints(script)
		if t, err := text(clickhouse_planner.NewValuesPlanner(fpP, key)); err == nil {
			ops = append(ops, "c13values "+c.ser()+" "+h.Hex([]byte(key))+" "+ser)
			impl = append(impl, t)
			cases = append(cases, c13mCase{"model-series", "values", query, c, t, ""})
			r.Case("model-series:values:"+query+fmt.Sprint(c), true)
			r.Count("model-series:values")
		}
		if i%4 == 0 {
			if t, err := text(clickhouse_planner.NewValuesPlanner(nil, key)); err == nil {
				ops = append(ops, "c13values "+c.ser()+" "+h.Hex([]byte(key))+" NOSEL -")
				impl = append(impl, t)
				cases = append(cases, c13mCase{"model-series", "values-noselector", key, c, t, ""})
				r.Case("model-series:values-nosel:"+key+fmt.Sprint(c), true)
				r.Count("model-series:values-noselector")
			}
		}
	}
	ans, err := h.Model(ops)
	if err != nil {
		return err
	}
	for i, a := range ans {
		c13Judge(r, "model-series", ops[i], a, impl[i], cases[i], 1)
	}
	return tight.judge(r)
}

// ---- model-prom: the two statements of the Prometheus remote-read path
var c13PromFns = []string{"", "abs", "ceil", "timestamp", "rate", "irate", "increase", "delta", "deriv", "sum_over_time", "avg_over_time",
	"min_over_time", "max_over_time", "count_over_time", "last_over_time", "present_over_time", "absent_over_time", "stddev_over_time",
	"quantile_over_time", "sum", "topk", "histogram_quantile", "changes", "resets", "idelta", "stdvar_over_time", "sort", "rad", "absent"}

func c13ModelProm(r *h.Result, rng *h.Rng, n int) error {
	r.Stream("model-prom: transpiler.TranspileLabelMatchers / GetLabelMatchersDownsampleRequest → String vs Prom.transpileRaw / transpileDown (byte-equal; every hint function, step 0/</=/> range) + confined of the model's plan + hypotheses under lokiCfg")
	var ops, impl []string
	var cases []c13mCase
	var tight c13Tight
	mt := map[labels.MatchType]string{labels.MatchEqual: "eq", labels.MatchNotEqual: "neq", labels.MatchRegexp: "re", labels.MatchNotRegexp: "nre"}
	for i := 0; i < n; i++ {
		c := genCtx(rng)
		c.From, c.To = c13Window(rng, c.From, c.To)
		c.Type = 2
		c.From, c.To = c.From/1e6*1e6, c.To/1e6*1e6
		if rng.Chance(50) {
			c.Limit = 0
		}
		hints := &storage.SelectHints{Start: c.From / 1e6, End: c.To / 1e6}
		switch rng.Intn(4) {
		case 0:
		case 1:
			hints.Step, hints.Range = 15000, int64(h.Pick(rng, []int{0, 5000, 15000, 60000}))
		case 2:
			hints.Step, hints.Range = 60000, int64(h.Pick(rng, []int{0, 30000, 60000, 300000}))
		default:
			hints.Step, hints.Range = int64(rng.Range(1, 100000)), int64(rng.Intn(100000))
		}
		hints.Func = h.Pick(rng, c13PromFns)
		var ms []*labels.Matcher
		var raw, down []string
		req := ""
		for k, nm := 0, rng.Range(1, 4); k < nm; k++ {
			t := h.Pick(rng, []labels.MatchType{labels.MatchEqual, labels.MatchNotEqual, labels.MatchRegexp, labels.MatchNotRegexp})
			name, val := h.Pick(rng, c17Names), h.Pick(rng, c17Regex)
			lm, err := labels.NewMatcher(t, name, val)
			if err != nil {
				return fmt.Errorf("model-prom: generator made an invalid matcher: %v", err)
			}
			ms = append(ms, lm)
			// what fingerprintsQuery asks the label index: a matcher that accepts the empty value inverted, its bit not
			// required (fix of C17/select-matcher-on-absent-label); the model takes the asked matchers and the bits
			if lm.Matches("") {
				t = map[labels.MatchType]labels.MatchType{labels.MatchEqual: labels.MatchNotEqual, labels.MatchNotEqual: labels.MatchEqual,
					labels.MatchRegexp: labels.MatchNotRegexp, labels.MatchNotRegexp: labels.MatchRegexp}[t]
				req += "0"
			} else {
				req += "1"
			}
			anch := val
			if t == labels.MatchRegexp || t == labels.MatchNotRegexp {
				anch = "^(?:" + val + ")$"
			}
			raw = append(raw, hx(name)+":"+mt[t]+":"+hx(anch))
			down = append(down, hx(name)+":"+mt[t]+":"+hx(anch)) // anchored on the down-sampling path too (fix 25cc5fb)
		}
		p := c.planner()
		hs := fmt.Sprintf("%s %d %d %d %d %s", hx(p.Metrics15sTableName), hints.Start, hints.End, hints.Step, hints.Range, hx(hints.Func))
		if res, err := promtr.TranspileLabelMatchers(hints, c.planner(), ms...); err == nil {
			if t, err := res.Query.String(sql.DefaultCtx()); err == nil {
				ops = append(ops, "c13prom raw "+c.ser()+" "+hs+" "+strings.Join(raw, ";")+" "+req)
				impl = append(impl, t)
				cases = append(cases, c13mCase{"model-prom", "raw", fmt.Sprintf("hints=%+v matchers=%v", *hints, ms), c, t, ""})
				r.Case(fmt.Sprintf("model-prom:raw:%+v:%v:%v", *hints, ms, c), true)
				r.Count("model-prom:raw:fn=" + hints.Func)
				tight.add("prom-raw", c.From, c.To, 0, true, 2, res.Query, fmt.Sprintf("hints=%+v", *hints), map[string]any{"hints": *hints, "ctx": c, "sql": t})
				c13PromCovers(r, "raw", t, c.From, c.To, map[string]any{"hints": *hints, "ctx": c, "sql": t})
			}
		} else {
			r.Count("model-prom:raw-error")
		}
		if sel, err := promtr.GetLabelMatchersDownsampleRequest(hints, c.planner(), ms...); err == nil {
			if t, err := sel.String(sql.DefaultCtx()); err == nil {
				ops = append(ops, "c13prom down "+c.ser()+" "+hs+" "+strings.Join(down, ";")+" "+req)
				impl = append(impl, t)
				cases = append(cases, c13mCase{"model-prom", "downsample", fmt.Sprintf("hints=%+v matchers=%v", *hints, ms), c, t, ""})
				r.Case(fmt.Sprintf("model-prom:down:%+v:%v:%v", *hints, ms, c), true)
				r.Count("model-prom:down")
				tight.add("prom-downsample", c.From, c.To, 0, true, 2, sel, fmt.Sprintf("hints=%+v", *hints), map[string]any{"hints": *hints, "ctx": c, "sql": t})
				c13PromCovers(r, "downsample", t, c.From, c.To, map[string]any{"hints": *hints, "ctx": c, "sql": t})
			}
		} else {
			r.Count("model-prom:down-error")
		}
	}
	ans, err := h.Model(ops)
	if err != nil {
		return err
	}
	for i, a := range ans {
		c13Judge(r, "model-prom", ops[i], a, impl[i], cases[i], 1)
	}
	return tight.judge(r)
}

// c13PromCovers: "never miss data inside the window" for the Prometheus select, whose window [hints.Start, hints.End] includes both
// ends (the engine evaluates AT hints.End): every comparison of the samples scan on samples.timestamp_ns must admit both ends.
// Judged on the real statement's text, no model.
var c13PromBound = regexp.MustCompile(`\(samples\.timestamp_ns\) (>=|<=|>|<) \((-?\d+)\)`)

func c13PromCovers(r *h.Result, kind, text string, from, to int64, c any) {
	ms := c13PromBound.FindAllStringSubmatch(text, -1)
	if len(ms) < 2 {
		r.Violate("C13/window-cut/prom-"+kind+"/bounds-not-found", "the samples scan of the Prometheus statement shows no two timestamp bounds", c)
		return
	}
	for _, m := range ms {
		v, _ := strconv.ParseInt(m[2], 10, 64)
		cut, at := false, int64(0)
		switch m[1] {
		case ">=":
			cut, at = v > from, from
		case ">":
			cut, at = v >= from, from
		case "<=":
			cut, at = v < to, to
		case "<":
			cut, at = v <= to, to
		}
		if cut {
			r.Violate("C13/window-cut/prom-"+kind, fmt.Sprintf("Prometheus select over [%d, %d] (both ends included): the samples scan asks `samples.timestamp_ns %s %d` — a sample stamped %d, inside the window, is not read", from, to, m[1], v, at),
				map[string]any{"stream": "model-prom", "case": c, "missed_timestamp_ns": at})
		}
	}
	r.Count("prom-covers:" + kind)
}

// ---- model-prof: the Pyroscope selector query with the dates rendered from the context
func c13ModelProf(r *h.Result, rng *h.Rng, n int) error {
	r.Stream("model-prof: (&transpiler.StreamSelectorPlanner{Selectors}).Process(ctx) → String (blanks collapsed) vs Prof.profSelector(table, From, To, selectors).render: the date bounds are computed by the model from the nanosecond window; process zone varied")
	zones := []*time.Location{time.UTC, time.FixedZone("W", -8*3600), time.FixedZone("E", 14*3600)}
	saved := time.Local
	defer func() { time.Local = saved }()
	var ops, impl []string
	var cases []any
	var tight c13Tight
	for i := 0; i < n; i++ {
		z := zones[i%3]
		time.Local = z
		c := genCtx(rng)
		from, to := c13Window(rng, c.From, c.To)
		var sels []profparser.Selector
		var parts []string
		for k, ns := 0, rng.Intn(5); k < ns; k++ {
			name := h.Pick(rng, c17Names)
			if rng.Chance(40) {
				name = h.Pick(rng, c17Pseudo)
			}
			op := h.Pick(rng, []string{"=", "!=", "=~", "!~"})
			val := h.Pick(rng, c17Regex)
			sels = append(sels, profparser.Selector{Name: name, Op: op, Val: profparser.Str{Str: strconv.Quote(val)}})
			parts = append(parts, c17SelectorArg(c17E2EMatcher{Type: op, Name: hx(name), Value: hx(val)}))
		}
		ctx := shared.PlannerContext{From: time.Unix(0, from).In(z), To: time.Unix(0, to).In(z), Ctx: context.Background(), ProfilesSeriesGinTable: "profiles_series_gin"}
		q, err := (&proftr.StreamSelectorPlanner{Selectors: sels}).Process(&ctx)
		if err != nil {
			r.Count("model-prof:impl-error")
			continue
		}
		text, err := q.String(&sql.Ctx{Params: map[string]sql.SQLObject{}})
		if err != nil {
			continue
		}
		pl := "-"
		if len(parts) > 0 {
			pl = strings.Join(parts, ",")
		}
		ops = append(ops, fmt.Sprintf("c13prof %s %d %d %s", hx("profiles_series_gin"), from, to, pl))
		impl = append(impl, h.Hex([]byte(c17Collapse(text))))
		cases = append(cases, map[string]any{"stream": "model-prof", "from": from, "to": to, "zone": z.String(), "selectors": parts, "sql": text})
		r.Case(fmt.Sprintf("model-prof:%d:%d:%v:%s", from, to, parts, z), true)
		r.Count("model-prof:zone:" + z.String())
		tight.add("prof-selector", from, to, 0, false, 0, q, fmt.Sprint(parts), map[string]any{"from": from, "to": to, "zone": z.String(), "selectors": parts, "sql": text})
	}
	if err := r.Compare("model-prof", ops, impl, cases); err != nil {
		return err
	}
	return tight.judge(r)
}

func c13Models(r *h.Result, rng *h.Rng, tier string) error {
	n := 150
	if tier != "quick" {
		n = 4000
	}
	if err := c13ModelMetric(r, rng.Fork(), n); err != nil {
		return err
	}
	if err := c13ModelTrace(r, rng.Fork(), n); err != nil {
		return err
	}
	if err := c13ModelSeries(r, rng.Fork(), n); err != nil {
		return err
	}
	if err := c13ModelProm(r, rng.Fork(), n); err != nil {
		return err
	}
	if err := c13ModelProf(r, rng.Fork(), n); err != nil {
		return err
	}
	if err := c13ModelTempo(r, rng.Fork(), n); err != nil {
		return err
	}
	if err := c13JudgeTempo(r, rng.Fork(), n); err != nil {
		return err
	}
	if err := c13ModelTempoLegacy(r, rng.Fork(), n); err != nil {
		return err
	}
	if err := c13HTTPTempo(r, rng.Fork(), n); err != nil {
		return err
	}
	if err := c13ModelProfPlans(r, rng.Fork(), n); err != nil {
		return err
	}
	tails, ticks := 5, 3
	if tier != "quick" {
		tails, ticks = 15, 5
	}
	return c13ModelTail(r, rng.Fork(), tails, ticks)
}
