package main

// C14 extension: the planner objects' own fields as state.
//   reexec-traceql    one REAL TraceQL plan processed once per context, the contexts evolving as the portions of a
//                     complex search do (RandomFilter{Max,I}, CachedTraceIds growing, From advancing) or as plain
//                     re-execution; every execution vs (a) a FRESH translation for that context (oracle) and (b) the
//                     model's state machine `TraceQL.runsT` (byte-equal). Dirty variant: garbage is written by
//                     reflection into the fields the theorems allow to hold anything before executions 2..k.
//   reexec-dirty-logql one REAL LogQL plan (every stage kind, metric functions, by/without with and without the
//                     time-series join, drop, line_format, unwrap, parsers) processed 2–5× with advancing contexts,
//                     the memo pointers and LineFormat accumulators set to garbage before executions 2..k; every
//                     execution vs a fresh translation for that context.
//   reexec-model-metric one REAL metric plan of the C08 fragment processed 2–5× vs `LogQL.runsMetric` (byte-equal).
//   retranslate-api   the SAME query text translated k ≥ 2 times in one process through the API entry point
//                     (logql_transpiler_v2.Transpile → ClickHouse part → Process), other translations in between:
//                     statement and chain shape of the k-th translation vs the first.

import (
	"context"
	"database/sql/driver"
	"encoding/json"
	"fmt"
	"os"
	"reflect"
	"strings"
	"text/template"
	"text/template/parse"
	"time"
	"unsafe"

	"github.com/metrico/qryn/reader/logql/logql_parser"
	logql_transpiler_v2 "github.com/metrico/qryn/reader/logql/logql_transpiler_v2"
	"github.com/metrico/qryn/reader/logql/logql_transpiler_v2/clickhouse_planner"
	"github.com/metrico/qryn/reader/logql/logql_transpiler_v2/shared"
	traceql_parser "github.com/metrico/qryn/reader/traceql/parser"
	traceql_transpiler "github.com/metrico/qryn/reader/traceql/transpiler"
	"github.com/metrico/qryn/reader/traceql/transpiler/clickhouse_transpiler"
	sql "github.com/metrico/qryn/reader/utils/sql_select"
	"verif/harness/fakes12"
	"verif/harness/h"
)

// ---------------------------------------------------------------------------------------------------------------
// reflection: every struct reachable from a plan object, and writing garbage into its fields

func c14Walk(v reflect.Value, seen map[uintptr]bool, visit func(ptr reflect.Value), depth int) {
	if depth > 40 || !v.IsValid() {
		return
	}
	switch v.Kind() {
	case reflect.Interface:
		if !v.IsNil() {
			c14Walk(v.Elem(), seen, visit, depth+1)
		}
	case reflect.Ptr:
		if v.IsNil() {
			return
		}
		if v.Elem().Kind() == reflect.Struct {
			p := v.Pointer()
			if seen[p] {
				return
			}
			seen[p] = true
			visit(v)
		}
		c14Walk(v.Elem(), seen, visit, depth+1)
	case reflect.Struct:
		if !v.CanAddr() {
			c := reflect.New(v.Type()).Elem()
			c.Set(v)
			v = c
		}
		for i := 0; i < v.NumField(); i++ {
			f := v.Field(i)
			if f.Kind() == reflect.Func || f.Kind() == reflect.Chan || f.Kind() == reflect.Map {
				continue
			}
			if f.CanAddr() {
				f = reflect.NewAt(f.Type(), unsafe.Pointer(f.UnsafeAddr())).Elem()
			}
			c14Walk(f, seen, visit, depth+1)
		}
	case reflect.Slice:
		for i := 0; i < v.Len(); i++ {
			c14Walk(v.Index(i), seen, visit, depth+1)
		}
	}
}

// c14Set writes val into the (possibly unexported) field `name` of the struct ptr points to
func c14Set(ptr reflect.Value, name string, val any) bool {
	f := ptr.Elem().FieldByName(name)
	if !f.IsValid() {
		return false
	}
	f = reflect.NewAt(f.Type(), unsafe.Pointer(f.UnsafeAddr())).Elem()
	nv := reflect.ValueOf(val)
	if !nv.Type().AssignableTo(f.Type()) {
		return false
	}
	f.Set(nv)
	return true
}

func c14GarbageWith() *sql.With {
	return sql.NewWith(sql.NewSelect().Select(sql.NewRawObject("GARBAGE")).From(sql.NewRawObject("garbage_table")), "garbage")
}

func c14GarbageCond() sql.SQLCondition {
	return sql.Eq(sql.NewRawObject("GARBAGE"), sql.NewIntVal(1))
}

// c14Dirty: garbage into every field of the classification table (`Qryn.C14.selfWriteClass`) that the theorems
// allow to hold anything at the start of a Process: the memo pointers behind cacheResetPlanner.Caches (class memo,
// reset at entry), LineFormatPlanner.formatStr/args, AttrConditionPlanner.sqlConds/where/alias,
// AggregatorPlanner.fCmpVal (class scratch: assigned before read). NOT touched: AttrConditionPlanner.isAliased (class
// flag: reset on every return path, read before assigned — the theorems need it reset at entry),
// MainFinalizerPlanner.Alias (a configuration field with a default), LabelFormatPlanner.formatters (a memo of
// immutable configuration, never constructed by this build). Returns how many fields were written.
func c14Dirty(plan any, r *h.Result) int {
	n := 0
	miss := func(t, f string) { r.Count("dirty:field-missing:" + t + "." + f) }
	c14Walk(reflect.ValueOf(plan), map[uintptr]bool{}, func(ptr reflect.Value) {
		switch ptr.Type().String() {
		case "*clickhouse_planner.cacheResetPlanner":
			f := ptr.Elem().FieldByName("Caches")
			if !f.IsValid() || f.Kind() != reflect.Slice {
				miss("cacheResetPlanner", "Caches")
				return
			}
			for i := 0; i < f.Len(); i++ {
				pp, ok := f.Index(i).Interface().(**sql.With)
				if !ok || pp == nil {
					miss("cacheResetPlanner", "Caches[i]")
					continue
				}
				*pp = c14GarbageWith()
				n++
			}
		case "*clickhouse_planner.LineFormatPlanner":
			if c14Set(ptr, "formatStr", "GARBAGE {0} {1}") {
				n++
			} else {
				miss("LineFormatPlanner", "formatStr")
			}
			if c14Set(ptr, "args", []sql.SQLObject{sql.NewRawObject("GARBAGE"), sql.NewRawObject("MORE")}) {
				n++
			} else {
				miss("LineFormatPlanner", "args")
			}
		case "*clickhouse_transpiler.AttrConditionPlanner":
			for _, f := range []string{"sqlConds", "where"} {
				if c14Set(ptr, f, []sql.SQLCondition{c14GarbageCond(), c14GarbageCond()}) {
					n++
				} else {
					miss("AttrConditionPlanner", f)
				}
			}
			if c14Set(ptr, "alias", "garbage") {
				n++
			} else {
				miss("AttrConditionPlanner", "alias")
			}
		case "*clickhouse_transpiler.AggregatorPlanner":
			if c14Set(ptr, "fCmpVal", float64(424242)) {
				n++
			} else {
				miss("AggregatorPlanner", "fCmpVal")
			}
		}
	}, 0)
	return n
}

// c14ChainShape: the types of the planner objects of a chain, in walk order
func c14ChainShape(chain any) string {
	var ts []string
	c14Walk(reflect.ValueOf(chain), map[uintptr]bool{}, func(ptr reflect.Value) {
		t := ptr.Type().String()
		if strings.Contains(t, "planner") || strings.Contains(t, "Planner") || strings.Contains(t, "transpiler") {
			ts = append(ts, t)
		}
	}, 0)
	return strings.Join(ts, ">")
}

func c14Text(p shared.SQLRequestPlanner, c *shared.PlannerContext) (s string) {
	defer func() {
		if e := recover(); e != nil {
			s = fmt.Sprintf("PANIC:%v", e)
		}
	}()
	if c.Ctx == nil {
		c.Ctx = context.Background()
	}
	sel, err := p.Process(c)
	if err != nil {
		return "ERR"
	}
	t, err := sel.String(sql.DefaultCtx())
	if err != nil {
		return "ERR"
	}
	return t
}

func c14Hex(s string) string {
	if s == "ERR" || strings.HasPrefix(s, "PANIC:") {
		return s
	}
	return hx(s)
}

// ---------------------------------------------------------------------------------------------------------------
// reexec-traceql

type c14TqCase struct {
	Stream string  `json:"stream"`
	Query  string  `json:"query"`
	Ctxs   []tqctx `json:"contexts"`
	Dirty  bool    `json:"dirty"`
	Kind   string  `json:"kind"` // "" / "plan": Plan (search; compared with the state-machine model too); "eval": PlanEval (complexity evaluation); "tags" / "values": PlanTagsV2 / PlanValuesV2 — oracle only
}

// contexts of the portions of one complex search, as ComplexRequestProcessor.Process sets them
func c14PortionCtxs(r *h.Rng) []tqctx {
	base := genTqCtx(r)
	base.RndMax, base.RndI, base.Cached = 0, 0, nil
	if base.Limit == 0 {
		base.Limit = 20
	}
	portions := r.Range(2, 5)
	var out []tqctx
	var cached []string
	from := base.From
	findNothing := r.Chance(25)
	for i := 0; i < portions; i++ {
		c := base
		c.RndMax, c.RndI = portions, i
		c.Cached = append([]string(nil), cached...)
		c.From = from
		out = append(out, c)
		if !findNothing && r.Chance(65) {
			for j := r.Range(1, 3); j > 0; j-- {
				cached = append(cached, fmt.Sprintf("%032x", r.U64()))
			}
			if r.Chance(30) && base.To-from > 2 {
				from += int64(r.Intn(int((base.To-from)/2 + 1)))
			}
		}
	}
	return out
}

func c14TailTqCtxs(r *h.Rng) []tqctx {
	c := genTqCtx(r)
	c.RndMax, c.RndI, c.Cached = 0, 0, nil
	out := []tqctx{c}
	for i, k := 1, r.Range(2, 4); i < k; i++ {
		p := out[i-1]
		d := int64(r.Range(1, 5)) * 1e9
		if r.Chance(10) {
			d = 86400e9
		}
		p.From += d
		p.To += d
		out = append(out, p)
	}
	return out
}

func c14MixedTqCtxs(r *h.Rng) []tqctx {
	var out []tqctx
	for i, k := 0, r.Range(2, 5); i < k; i++ {
		c := genTqCtx(r)
		switch r.Intn(3) {
		case 0:
			c.RndMax, c.RndI, c.Cached = 0, 0, nil
		case 1:
			c.RndMax = r.Range(2, 5)
			c.RndI = r.Intn(c.RndMax)
			c.Cached = nil
		default:
			c.RndMax = r.Range(2, 5)
			c.RndI = r.Intn(c.RndMax)
			c.Cached = nil
			for j := r.Range(1, 3); j > 0; j-- {
				c.Cached = append(c.Cached, fmt.Sprintf("%032x", r.U64()))
			}
		}
		out = append(out, c)
	}
	return out
}

func c14GenTqCase(r *h.Rng) c14TqCase {
	q := genTraceQL(r, 3, 2, 0)
	if r.Chance(8) && !strings.HasPrefix(q, "{}") {
		// a term the planner rejects at Process time: the failed execution must leave nothing behind
		q = strings.Replace(q, "}", h.Pick(r, []string{` && foo="x"}`, ` || .c=1h}`, ` && duration>"x"}`}), 1)
	}
	cs := c14TqCase{Stream: "reexec-traceql", Query: q, Dirty: r.Chance(40), Kind: "plan"}
	if r.Chance(20) {
		cs.Kind = h.Pick(r, []string{"eval", "eval", "tags", "values"})
		if cs.Kind != "eval" {
			cs.Query = tqSelector(r, 2) // the tags/values planners refuse chains
		}
	}
	switch r.Intn(10) {
	case 0, 1, 2, 3, 4:
		cs.Ctxs = c14PortionCtxs(r)
	case 5, 6:
		cs.Ctxs = c14TailTqCtxs(r)
	default:
		cs.Ctxs = c14MixedTqCtxs(r)
	}
	return cs
}

// Plan panics on a script ending in an operator (nil Tail): an error for this purpose
func c14PlanTq(script *traceql_parser.TraceQLScript, kind string) (p shared.SQLRequestPlanner, err error) {
	defer func() {
		if e := recover(); e != nil {
			err = fmt.Errorf("panic: %v", e)
		}
	}()
	switch kind {
	case "eval":
		return clickhouse_transpiler.PlanEval(script)
	case "tags":
		return clickhouse_transpiler.PlanTagsV2(script)
	case "values":
		return clickhouse_transpiler.PlanValuesV2(script, "k")
	}
	return clickhouse_transpiler.Plan(script)
}

// c14RunTq: runs one case on the real code, applies the oracle, returns the model op and the implementation's answer
func c14RunTq(r *h.Result, cs c14TqCase) (op, impl string, ok bool) {
	script, err := traceql_parser.Parse(cs.Query)
	if err != nil {
		r.Count("reexec-traceql:parse-error")
		return "", "", false
	}
	var texts []string
	p, perr := c14PlanTq(script, cs.Kind)
	for i, c := range cs.Ctxs {
		if perr != nil {
			texts = append(texts, "ERR")
			continue
		}
		if cs.Dirty && i > 0 {
			r.CountN("reexec-traceql:dirty-fields-written", c14Dirty(p, r))
		}
		t := c14Text(p, c.planner())
		texts = append(texts, c14Hex(t))
		// oracle: a fresh translation of the same text for the same context
		fresh := "ERR"
		if s2, err := traceql_parser.Parse(cs.Query); err == nil {
			if p2, err := c14PlanTq(s2, cs.Kind); err == nil {
				fresh = c14Text(p2, c.planner())
			}
		}
		if fresh != t {
			kind := "statement"
			if t == "ERR" || fresh == "ERR" {
				kind = "error"
			}
			if strings.HasPrefix(t, "PANIC:") {
				kind = "panic"
			}
			variant := "reexec"
			if cs.Dirty {
				variant = "dirty-reexec"
			}
			r.Violate("C14/"+variant+"/traceql/"+kind, fmt.Sprintf("execution %d of one TraceQL plan for %s (portion filter max=%d i=%d, %d cached trace ids) differs from a fresh translation for the same context", i+1, cs.Query, c.RndMax, c.RndI, len(c.Cached)),
				map[string]any{"stream": cs.Stream, "query": cs.Query, "contexts": cs.Ctxs, "dirty": cs.Dirty, "execution": i + 1, "reexecuted": t, "fresh": fresh})
			break
		}
	}
	for len(texts) < len(cs.Ctxs) {
		texts = append(texts, "-")
	}
	portion := "none"
	for _, c := range cs.Ctxs {
		if c.RndMax != 0 && len(c.Cached) > 0 {
			portion = "filter+cached"
		} else if c.RndMax != 0 && portion == "none" {
			portion = "filter"
		}
	}
	r.Count("reexec-traceql:portions:" + portion)
	r.Count(fmt.Sprintf("reexec-traceql:executions=%d", len(cs.Ctxs)))
	r.Count(fmt.Sprintf("reexec-traceql:selectors=%d", countSelectors(script)))
	if cs.Dirty {
		r.Count("reexec-traceql:dirty")
	}
	if strings.Contains(strings.Join(texts, ","), "ERR") {
		r.Count("reexec-traceql:with-error-execution")
	}
	if cs.Kind != "" && cs.Kind != "plan" {
		r.Count("reexec-traceql:planner:" + cs.Kind)
		return "", "", false
	}
	r.Count("reexec-traceql:planner:plan")
	ser, err := serTraceQL(script)
	if err != nil {
		r.Count("reexec-traceql:outside-model-fragment")
		return "", "", false
	}
	var sers []string
	for _, c := range cs.Ctxs {
		sers = append(sers, c.ser())
	}
	return fmt.Sprintf("c14runt %d %d %s %s", b2i(cs.Dirty), len(cs.Ctxs), strings.Join(sers, " "), ser), strings.Join(texts, ","), true
}

func c14TraceQL(r *h.Result, rng *h.Rng, n int) error {
	r.Stream("reexec-traceql: one real clickhouse_transpiler plan (80 % Plan; 20 % PlanEval / PlanTagsV2 / PlanValuesV2, oracle only) processed once per context — contexts as the portions of a complex search (RandomFilter, CachedTraceIds growing, From advancing), plain re-execution, mixed; incl. queries whose Process fails; 40 %: garbage written by reflection into sqlConds/where/alias/fCmpVal before executions 2..k — every execution vs a fresh translation (oracle) and vs TraceQL.runsT (state machine, byte-equal)")
	var ops, impl []string
	var cases []any
	for i := 0; i < n; i++ {
		cs := c14GenTqCase(rng)
		op, im, ok := c14RunTq(r, cs)
		r.Case("reexec-traceql:"+cs.Query+fmt.Sprint(cs.Ctxs, cs.Dirty), len(cs.Ctxs) >= 2)
		if i%41 == 0 {
			r.Sample(cs)
		}
		if ok {
			ops, impl, cases = append(ops, op), append(impl, im), append(cases, cs)
		}
	}
	return r.Compare("reexec-traceql", ops, impl, cases)
}

// ---------------------------------------------------------------------------------------------------------------
// reexec-dirty-logql

type c14LogCase struct {
	Stream string `json:"stream"`
	Query  string `json:"query"`
	Ctxs   []mctx `json:"contexts"`
	Dirty  bool   `json:"dirty"`
}

var c14WideLogQL = []string{
	`{a="b"} | line_format "{{.a}} x {{.c}}" |= "q"`, `{a="b"} | json | line_format "{{.x}}"`,
	`{a="b"} | drop x`, `{a="b"} | json | drop x, y="z"`, `{a="b"} | logfmt | drop a`,
	`rate({a="b"} | drop x [1m])`, `sum by (a) (rate({a="b"} | drop x [1m]))`,
	`sum by (a) (rate({a="b"} [1m]))`, `sum without (a) (count_over_time({a="b"} |= "e" [30s]))`,
	`sum by (a) (count_over_time({a="b"} | c="d" [5m]))`, `sum by (x) (rate({a="b"} | json [1m]))`,
	`sum by (x) (sum_over_time({a="b"} | json | unwrap x [1m]) by (x, y))`, `sum_over_time({a="b"} | unwrap x [10s]) by (a)`,
	`sum without (a) (rate({a="b"} | unwrap x [10s]))`, `rate({a="b"} | line_format "{{.a}}" [1m])`,
	`sum by (a) (rate({a="b"} | line_format "{{.a}}" [1m]))`, `count_over_time({a="b"} | regexp "(?P<x>[0-9]+)" | x > 3 [1m])`,
	`topk(3, sum by (a) (rate({a="b"} |= "x" [7s])))`, `sum by (a) (bytes_over_time({a="b"} | c=~"d.*" [20s])) > 1`,
	`avg_over_time({a="b"} | c="d" | unwrap _entry [1m]) by (a)`, `quantile_over_time(0.9, {a="b"} | unwrap x [1m]) by (a)`,
	`{a="b"} | c="d" | json | line_format "{{.a}}" | e="f"`,
}

func c14AdvanceM(r *h.Rng, c mctx, n int) []mctx {
	out := []mctx{c}
	for i := 1; i < n; i++ {
		p := out[i-1]
		d := int64(r.Range(1, 5)) * 1e9
		if r.Chance(15) {
			d = 86400e9
		}
		p.From += d
		p.To += d
		out = append(out, p)
	}
	return out
}

func c14GenLogCase(r *h.Rng) c14LogCase {
	var q string
	switch r.Intn(10) {
	case 0, 1, 2:
		q = h.Pick(r, c14WideLogQL)
	case 3, 4:
		q = h.Pick(r, c13LogQL)
	case 5, 6, 7:
		q = genMetricQuery(r, mgen{})
	default:
		q = genLogQuery(r, 3, 3)
	}
	d := int64(60e9)
	if s, err := logql_parser.Parse(q); err == nil {
		if sd := scriptDuration(s); sd > 0 {
			d = sd
		}
	}
	c := genMCtx(r, d)
	return c14LogCase{Stream: "reexec-dirty-logql", Query: q, Ctxs: c14AdvanceM(r, c, r.Range(2, 5)), Dirty: r.Chance(70)}
}

func c14RunLog(r *h.Result, cs c14LogCase) {
	script, err := logql_parser.Parse(cs.Query)
	if err != nil {
		r.Count("reexec-dirty-logql:parse-error")
		return
	}
	p, err := clickhouse_planner.Plan(script, true)
	if err != nil {
		r.Count("reexec-dirty-logql:plan-error")
		return
	}
	kinds := map[string]bool{}
	c14Walk(reflect.ValueOf(p), map[uintptr]bool{}, func(ptr reflect.Value) {
		t := ptr.Type().String()
		for _, k := range []string{"ByWithoutPlanner", "LabelsJoinPlanner", "LineFormatPlanner", "PlannerDrop", "UnwrapPlanner", "ParserPlanner", "Metrics15ShortcutPlanner", "TopKPlanner", "QuantilePlanner"} {
			if strings.HasSuffix(t, "."+k) {
				kinds[k] = true
			}
		}
		if strings.HasSuffix(t, ".ByWithoutPlanner") {
			if ptr.Elem().FieldByName("UseTimeSeriesTable").Bool() {
				kinds["ByWithoutPlanner:ts-join"] = true
			} else {
				kinds["ByWithoutPlanner:simple"] = true
			}
		}
	}, 0)
	for k := range kinds {
		r.Count("reexec-dirty-logql:has:" + k)
	}
	for i, c := range cs.Ctxs {
		if cs.Dirty && i > 0 {
			r.CountN("reexec-dirty-logql:dirty-fields-written", c14Dirty(p, r))
		}
		t := c14Text(p, c.planner())
		fresh := "ERR"
		if s2, err := logql_parser.Parse(cs.Query); err == nil {
			if p2, err := clickhouse_planner.Plan(s2, true); err == nil {
				fresh = c14Text(p2, c.planner())
			}
		}
		if t == "ERR" {
			r.Count("reexec-dirty-logql:process-error")
		}
		if fresh != t {
			variant := "reexec"
			if cs.Dirty {
				variant = "dirty-reexec"
			}
			kind := "statement"
			if t == "ERR" || fresh == "ERR" {
				kind = "error"
			}
			if strings.HasPrefix(t, "PANIC:") {
				kind = "panic"
			}
			r.Violate("C14/"+variant+"/logql/"+kind, fmt.Sprintf("execution %d of one LogQL plan for %s differs from a fresh translation for the same context", i+1, cs.Query),
				map[string]any{"stream": cs.Stream, "query": cs.Query, "contexts": cs.Ctxs, "dirty": cs.Dirty, "execution": i + 1, "reexecuted": t, "fresh": fresh})
			return
		}
	}
	r.Count(fmt.Sprintf("reexec-dirty-logql:executions=%d", len(cs.Ctxs)))
	if cs.Dirty {
		r.Count("reexec-dirty-logql:dirty")
	}
}

func c14DirtyLogQL(r *h.Result, rng *h.Rng, n int) {
	r.Stream("reexec-dirty-logql: one real clickhouse_planner plan (every stage kind; metric functions; by/without with and without the time-series join; drop; line_format; unwrap; parsers) processed 2–5× with advancing contexts; 70 %: the memo pointers fpCache/labelsCache (through cacheResetPlanner.Caches) and LineFormatPlanner.formatStr/args set to garbage by reflection before executions 2..k; every execution vs a fresh translation for that context")
	for i := 0; i < n; i++ {
		cs := c14GenLogCase(rng)
		c14RunLog(r, cs)
		r.Case("reexec-dirty-logql:"+cs.Query+fmt.Sprint(cs.Ctxs, cs.Dirty), true)
		if i%53 == 0 {
			r.Sample(cs)
		}
	}
}

// ---------------------------------------------------------------------------------------------------------------
// reexec-model-metric

type c14MetricCase struct {
	Stream string `json:"stream"`
	Query  string `json:"query"`
	Ctxs   []mctx `json:"contexts"`
}

func c14RunMetric(r *h.Result, cs c14MetricCase) (op, impl string, ok bool) {
	script, err := logql_parser.Parse(cs.Query)
	if err != nil {
		return "", "", false
	}
	ser, err := serMetric(script)
	if err != nil {
		r.Count("reexec-model-metric:outside-model-fragment")
		return "", "", false
	}
	p, err := clickhouse_planner.Plan(script, true)
	if err != nil {
		r.Count("reexec-model-metric:plan-error")
		return "", "", false
	}
	var texts, sers []string
	for _, c := range cs.Ctxs {
		t := c14Text(p, c.planner())
		if t == "ERR" {
			r.Count("reexec-model-metric:impl-error")
			return "", "", false
		}
		texts = append(texts, c14Hex(t))
		sers = append(sers, c.ser())
	}
	r.Count("reexec-model-metric:shape:" + metricShape(script))
	r.Count(fmt.Sprintf("reexec-model-metric:executions=%d", len(cs.Ctxs)))
	return fmt.Sprintf("c14runm %d %s %s", len(cs.Ctxs), strings.Join(sers, " "), ser), strings.Join(texts, ","), true
}

func c14MetricModel(r *h.Result, rng *h.Rng, n int) error {
	r.Stream("reexec-model-metric: one real clickhouse_planner plan of a metric query of the C08 fragment (range functions, unwrap, by/without with and without the time-series join, topk, comparison, metrics_15s shortcut) processed 2–5× with advancing contexts vs LogQL.runsMetric (stateful model: fpCache, labelsCache, ctx.Id counter), byte-equal")
	var ops, impl []string
	var cases []any
	for i := 0; i < n; i++ {
		q := genMetricQuery(rng, mgen{})
		d := int64(60e9)
		if s, err := logql_parser.Parse(q); err == nil {
			if sd := scriptDuration(s); sd > 0 {
				d = sd
			}
		}
		cs := c14MetricCase{Stream: "reexec-model-metric", Query: q, Ctxs: c14AdvanceM(rng, genMCtx(rng, d), rng.Range(2, 5))}
		op, im, ok := c14RunMetric(r, cs)
		if !ok {
			continue
		}
		r.Case("reexec-model-metric:"+q+fmt.Sprint(cs.Ctxs), true)
		if i%47 == 0 {
			r.Sample(cs)
		}
		ops, impl, cases = append(ops, op), append(impl, im), append(cases, cs)
	}
	return r.Compare("reexec-model-metric", ops, impl, cases)
}

// ---------------------------------------------------------------------------------------------------------------
// retranslate-api

type c14ApiCase struct {
	Stream  string   `json:"stream"`
	Query   string   `json:"query"`
	Others  []string `json:"others"`
	K       int      `json:"k"`
	From    int64    `json:"from"`
	To      int64    `json:"to"`
	Cluster bool     `json:"cluster"`
}

// queries with stages written BEFORE a stage that runs in-process (json without parameters, logfmt, line_format):
// the API splits such a script, the part before the split goes to ClickHouse
func c14GenApiQuery(r *h.Rng) string {
	sel := `{` + h.Pick(r, []string{`a="b"`, `a="b", c=~"d.*"`, `job!="x"`}) + `}`
	pre := ""
	for i, n := 0, r.Range(0, 3); i < n; i++ {
		pre += " " + h.Pick(r, []string{`|= "x"`, `!= "y"`, `|~ "e.+"`, `| c="d"`, `| c=~"d.*" and e!="f"`, `| regexp "(?P<x>[0-9]+)"`, `| json y="z.w"`, `| drop q`})
	}
	brk := h.Pick(r, []string{`| json`, `| logfmt`, `| line_format "{{.a}} {{.c}}"`, `| json`, ``})
	post := ""
	for i, n := 0, r.Range(0, 2); i < n; i++ {
		post += " " + h.Pick(r, []string{`| lvl="e"`, `|= "z"`, `| x > 3`, `| line_format "{{.lvl}}"`, `| label_format u=lvl`, `| drop lvl`})
	}
	s := sel + pre + " " + brk + post
	switch r.Intn(6) {
	case 0:
		return fmt.Sprintf(`rate(%s [%s])`, s, h.Pick(r, []string{"1m", "5s", "30s"}))
	case 1:
		return fmt.Sprintf(`sum by (%s) (count_over_time(%s [%s]))`, h.Pick(r, []string{"a", "lvl", "a, lvl"}), s, h.Pick(r, []string{"1m", "15s"}))
	case 2:
		if brk != "" && !strings.Contains(brk, "line_format") {
			return fmt.Sprintf(`sum_over_time(%s | unwrap x [1m]) by (a)`, s)
		}
	}
	return s
}

func c14RunApi(r *h.Result, cs c14ApiCase) {
	render := func(q string) (text, shape string, err error) {
		defer func() {
			if e := recover(); e != nil {
				err = fmt.Errorf("panic: %v", e)
			}
		}()
		chain, err := logql_transpiler_v2.Transpile(q)
		if err != nil {
			return "", "", err
		}
		shape = c14ChainShape(chain)
		g := findGetter(reflect.ValueOf(chain), 0)
		if g == nil {
			return "", shape, nil
		}
		c := pctx(cs.From, cs.To, cs.Cluster, 1, 100)
		return c14Text(g.ClickhouseRequestPlanner, c), shape, nil
	}
	t0, s0, err0 := render(cs.Query)
	if err0 != nil {
		r.Count("retranslate-api:first-translation-error")
	} else {
		r.Count("retranslate-api:translated")
		if strings.Contains(s0, "internal_planner") {
			r.Count("retranslate-api:with-in-process-stages")
		}
	}
	for j := 1; j < cs.K; j++ {
		if j-1 < len(cs.Others) {
			render(cs.Others[j-1])
		}
		t, s, err := render(cs.Query)
		if (err == nil) != (err0 == nil) || t != t0 || s != s0 {
			what := "statement"
			if s != s0 {
				what = "chain"
			}
			if (err == nil) != (err0 == nil) {
				what = "error"
			}
			r.Violate("C14/nondeterministic/logql-api/"+what, fmt.Sprintf("translation %d of %s in one process (logql_transpiler_v2.Transpile) differs from the first one with the same parameters", j+1, cs.Query),
				map[string]any{"stream": cs.Stream, "query": cs.Query, "others": cs.Others, "k": cs.K, "from": cs.From, "to": cs.To, "cluster": cs.Cluster,
					"translation": j + 1, "first": t0, "later": t, "first_chain": s0, "later_chain": s, "first_error": fmt.Sprint(err0), "later_error": fmt.Sprint(err)})
			return
		}
	}
}

func c14Retranslate(r *h.Result, rng *h.Rng, n int) {
	r.Stream("retranslate-api: the same LogQL text translated 2–4 times in one process through logql_transpiler_v2.Transpile (the API entry point: parse, split at the first in-process stage, plan), other queries translated in between; queries with line/label filters, parsers, drop BEFORE `| json` / `| logfmt` / `| line_format`, also inside metric functions: ClickHouse statement and the types of the whole processor chain of the k-th translation vs the first")
	for i := 0; i < n; i++ {
		base := int64(1700000000+rng.Intn(1000000)) * 1e9
		cs := c14ApiCase{Stream: "retranslate-api", Query: c14GenApiQuery(rng), K: rng.Range(2, 4), From: base, To: base + 300e9, Cluster: rng.Chance(25)}
		if rng.Chance(20) {
			cs.Query = h.Pick(rng, c13LogQL)
		}
		for j := 1; j < cs.K; j++ {
			cs.Others = append(cs.Others, c14GenApiQuery(rng))
		}
		c14RunApi(r, cs)
		r.Case(fmt.Sprintf("retranslate-api:%s:%d:%v", cs.Query, cs.K, cs.Others), true)
		if i%59 == 0 {
			r.Sample(cs)
		}
	}
}

// ---------------------------------------------------------------------------------------------------------------
// replay

func c14Replay(r *h.Result, path string) error {
	raw, err := os.ReadFile(path)
	if err != nil {
		return err
	}
	var top struct {
		Replay        json.RawMessage `json:"replay"`
		Disagreements []struct {
			Case json.RawMessage `json:"case"`
		} `json:"disagreements"`
	}
	if err := json.Unmarshal(raw, &top); err != nil {
		return err
	}
	var objs []json.RawMessage
	if len(top.Replay) > 0 {
		objs = append(objs, top.Replay)
	}
	for _, d := range top.Disagreements {
		if len(d.Case) > 0 {
			objs = append(objs, d.Case)
		}
	}
	if len(objs) == 0 {
		objs = append(objs, raw)
	}
	for _, o := range objs {
		var hd struct {
			Stream string `json:"stream"`
		}
		if err := json.Unmarshal(o, &hd); err != nil {
			return err
		}
		switch hd.Stream {
		case "reexec-traceql":
			var cs c14TqCase
			if err := json.Unmarshal(o, &cs); err != nil {
				return err
			}
			op, im, ok := c14RunTq(r, cs)
			r.Case("replay:"+cs.Query, true)
			if ok {
				if err := r.Compare("reexec-traceql", []string{op}, []string{im}, []any{cs}); err != nil {
					return err
				}
			}
		case "reexec-dirty-logql":
			var cs c14LogCase
			if err := json.Unmarshal(o, &cs); err != nil {
				return err
			}
			c14RunLog(r, cs)
			r.Case("replay:"+cs.Query, true)
		case "reexec-model-metric":
			var cs c14MetricCase
			if err := json.Unmarshal(o, &cs); err != nil {
				return err
			}
			op, im, ok := c14RunMetric(r, cs)
			r.Case("replay:"+cs.Query, true)
			if ok {
				if err := r.Compare("reexec-model-metric", []string{op}, []string{im}, []any{cs}); err != nil {
					return err
				}
			}
		case "retranslate-api":
			var cs c14ApiCase
			if err := json.Unmarshal(o, &cs); err != nil {
				return err
			}
			c14RunApi(r, cs)
			r.Case("replay:"+cs.Query, true)
		case "portions-real":
			var cs c14LoopCase
			if err := json.Unmarshal(o, &cs); err != nil {
				return err
			}
			c14RunLoop(r, cs)
			r.Case("replay:"+cs.Query, true)
		case "heap-model":
			var cs c14HeapCase
			if err := json.Unmarshal(o, &cs); err != nil {
				return err
			}
			op, im, err := c14HeapRun(cs)
			if err != nil {
				return err
			}
			f := strings.Fields(op)
			for k := range f {
				f[k] = c14HeapNormalise(f[k])
			}
			op = strings.Join(f, " ")
			r.Case("replay:heap-model", true)
			if err := r.Compare("heap-model", []string{op}, []string{im}, []any{cs}); err != nil {
				return err
			}
		case "history-cross":
			var cs c14hCase
			if err := json.Unmarshal(o, &cs); err != nil {
				return err
			}
			if err := c14hReplay(r, cs); err != nil {
				return err
			}
		case "fmt-model":
			var cs c14FmtCase
			if err := json.Unmarshal(o, &cs); err != nil {
				return err
			}
			op, im := c14RunFmt(r, cs)
			r.Case("replay:"+cs.Template, true)
			if err := r.Compare("fmt-model", []string{op}, []string{im}, []any{cs}); err != nil {
				return err
			}
		default:
			return fmt.Errorf("replay: stream %q cannot be replayed (streams with a replay: reexec-traceql, reexec-dirty-logql, reexec-model-metric, retranslate-api, fmt-model, portions-real, history-cross, heap-model)", hd.Stream)
		}
	}
	return nil
}

var _ = time.Now

// ---------------------------------------------------------------------------------------------------------------
// fmt-model: LineFormatPlanner.ProcessTpl on one object vs LogQL.processTpl

type c14FmtCase struct {
	Stream   string `json:"stream"`
	Template string `json:"template"`
	K        int    `json:"k"`
	Dirty    bool   `json:"dirty"`
}

// the leaves LineFormatPlanner.visitNodes reaches (lists and actions are descended), serialised for the model
func c14TplLeaves(tpl string) (ser string, names []string) {
	t, err := template.New("t").Parse(tpl)
	if err != nil {
		return "ERR", nil
	}
	var toks []string
	var walk func(n parse.Node)
	walk = func(n parse.Node) {
		if n == nil || reflect.ValueOf(n).IsNil() {
			return
		}
		switch x := n.(type) {
		case *parse.ListNode:
			for _, c := range x.Nodes {
				walk(c)
			}
		case *parse.ActionNode:
			for _, cmd := range x.Pipe.Cmds {
				for _, a := range cmd.Args {
					walk(a)
				}
			}
		case *parse.TextNode:
			toks = append(toks, "T:"+h.Hex(x.Text))
		case *parse.FieldNode:
			toks = append(toks, "F:"+hx(x.Ident[0]))
			names = append(names, x.Ident[0])
		}
	}
	walk(t.Root)
	if len(toks) == 0 {
		return "-", nil
	}
	return strings.Join(toks, ";"), names
}

func c14GenTemplate(r *h.Rng) string {
	var sb strings.Builder
	for i, n := 0, r.Range(0, 5); i < n; i++ {
		switch r.Intn(9) {
		case 0, 1, 2:
			sb.WriteString(h.Pick(r, []string{"x", " ", "a b", "'", "\\", "{", "}", "{0}", "é", "\"", "lvl=", "%s", "\n", "{ {"}))
		case 3, 4, 5:
			sb.WriteString("{{." + h.Pick(r, []string{"a", "b", "lvl", "x_y", "A1"}) + "}}")
		case 6:
			sb.WriteString(h.Pick(r, []string{"{{ .a }}", "{{.a.b}}", "{{.a | lower}}", "{{.}}", "{{if .a}}y{{end}}", "{{lower .a}}", "{{\"s\"}}", "{{/* c */}}"}))
		case 7:
			sb.WriteString("{{." + r.Ident(6) + "}}")
		default:
			if r.Chance(15) {
				sb.WriteString(h.Pick(r, []string{"{{.a", "{{end}}", "{{.a b c", "{{nofunc .a}}"}))
			} else {
				sb.WriteString(string(r.Bytes(4)))
			}
		}
	}
	return sb.String()
}

func c14RunFmt(r *h.Result, cs c14FmtCase) (op, impl string) {
	ser, names := c14TplLeaves(cs.Template)
	p := &clickhouse_planner.LineFormatPlanner{Template: cs.Template}
	ptr := reflect.ValueOf(p)
	var outs []string
	for i := 0; i < cs.K; i++ {
		if cs.Dirty && i > 0 {
			c14Set(ptr, "formatStr", "GARBAGE")
			c14Set(ptr, "args", []sql.SQLObject{sql.NewRawObject("G"), sql.NewRawObject("M")})
		}
		var err error
		func() {
			defer func() {
				if e := recover(); e != nil {
					err = fmt.Errorf("panic: %v", e)
				}
			}()
			err = p.ProcessTpl(pctx(1700000000e9, 1700000300e9, false, 1, 0))
		}()
		if err != nil {
			outs = append(outs, "ERR")
			continue
		}
		f := reflect.NewAt(ptr.Elem().FieldByName("formatStr").Type(), unsafe.Pointer(ptr.Elem().FieldByName("formatStr").UnsafeAddr())).Elem().String()
		av := ptr.Elem().FieldByName("args")
		av = reflect.NewAt(av.Type(), unsafe.Pointer(av.UnsafeAddr())).Elem()
		args, _ := av.Interface().([]sql.SQLObject)
		var as []string
		for j, a := range args {
			text, err := a.String(sql.DefaultCtx())
			want := ""
			if j < len(names) {
				q, _ := sql.NewStringVal(names[j]).String(sql.DefaultCtx())
				want = "labels[" + q + "]"
			}
			if err != nil || text != want || j >= len(names) {
				as = append(as, "MISMATCH:"+hx(text))
			} else {
				as = append(as, hx(names[j]))
			}
		}
		a := "-"
		if len(as) > 0 {
			a = strings.Join(as, ".")
		}
		outs = append(outs, c14HexOrDash(f)+":"+a)
	}
	if ser == "ERR" {
		r.Count("fmt-model:template-parse-error")
	} else {
		r.Count(fmt.Sprintf("fmt-model:fields=%d", len(names)))
	}
	return fmt.Sprintf("c14fmt %d %d %s", b2i(cs.Dirty), cs.K, ser), strings.Join(outs, ",")
}

func c14HexOrDash(s string) string {
	if s == "" {
		return "-"
	}
	return hx(s)
}

func c14FmtModel(r *h.Result, rng *h.Rng, n int) error {
	r.Stream("fmt-model: one real LineFormatPlanner object, ProcessTpl ×2–4 (50 %: formatStr/args set to garbage by reflection before calls 2..k), the fields read back by reflection vs LogQL.processTpl on the leaves the template parser yields (text/template is shared); templates with text, fields, pipelines, control actions, parse errors")
	var ops, impl []string
	var cases []any
	for i := 0; i < n; i++ {
		cs := c14FmtCase{Stream: "fmt-model", Template: c14GenTemplate(rng), K: rng.Range(2, 4), Dirty: rng.Bool()}
		op, im := c14RunFmt(r, cs)
		r.Case("fmt-model:"+cs.Template+fmt.Sprint(cs.K, cs.Dirty), true)
		ops, impl, cases = append(ops, op), append(impl, im), append(cases, cs)
	}
	return r.Compare("fmt-model", ops, impl, cases)
}

// ---------------------------------------------------------------------------------------------------------------
// portions-real: the REAL search loop (TraceQLComplexityEvaluator → ComplexRequestProcessor) over a scripted database

type c14LoopCase struct {
	Stream     string `json:"stream"`
	Query      string `json:"query"`
	Ctx        tqctx  `json:"ctx"`
	Complexity int64  `json:"complexity"`
	Found      []int  `json:"found"` // traces the database returns for the i-th portion statement
	Seed       uint64 `json:"seed"`  // trace ids / start times of the scripted rows
}

var c14LoopDB *fakes12.ReaderDB

func c14RunLoop(r *h.Result, cs c14LoopCase) {
	if c14LoopDB == nil {
		c14LoopDB = fakes12.NewReaderDB()
	}
	db := c14LoopDB
	script, err := traceql_parser.Parse(cs.Query)
	if err != nil {
		r.Count("portions-real:parse-error")
		return
	}
	var proc shared.TraceRequestProcessor
	func() {
		defer func() {
			if e := recover(); e != nil {
				err = fmt.Errorf("panic: %v", e)
			}
		}()
		proc, err = traceql_transpiler.Plan(script)
	}()
	if err != nil {
		r.Count("portions-real:plan-error")
		return
	}
	ctx := cs.Ctx.planner()
	ctx.Ctx = context.Background()
	ctx.CHDb = db.Session()
	rows := h.NewRng(cs.Seed)
	nq := 0
	bad := false
	db.ResetLog()
	db.SetScript(fakes12.Script{Match: func(q string) (fakes12.Answer, bool) {
		nq++
		if nq == 1 { // the complexity evaluation statement
			return fakes12.Rows([]string{"c"}, []driver.Value{cs.Complexity}), true
		}
		i := nq - 2 // portion number
		// what the loop has put into the context for this portion
		snap := *ctx
		snap.CachedTraceIds = append([]string(nil), ctx.CachedTraceIds...)
		fresh := "ERR"
		if s2, err := traceql_parser.Parse(cs.Query); err == nil {
			if p2, err := c14PlanTq(s2, "plan"); err == nil {
				fresh = c14Text(p2, &snap)
			}
		}
		if fresh != q && !bad {
			bad = true
			r.Violate("C14/reexec/traceql-search-loop", fmt.Sprintf("the statement the real search loop sends for portion %d of %s (portion filter max=%d i=%d, %d cached trace ids) differs from a fresh translation for the same context", i+1, cs.Query, snap.RandomFilter.Max, snap.RandomFilter.I, len(snap.CachedTraceIds)),
				map[string]any{"stream": cs.Stream, "query": cs.Query, "ctx": cs.Ctx, "complexity": cs.Complexity, "found": cs.Found, "seed": cs.Seed,
					"portion": i + 1, "sent": q, "fresh": fresh})
		}
		if snap.RandomFilter.Max != 0 && len(snap.CachedTraceIds) > 0 {
			r.Count("portions-real:portion-with-cached-ids")
		} else if snap.RandomFilter.Max != 0 {
			r.Count("portions-real:portion-without-cached-ids")
		} else {
			r.Count("portions-real:simple-request")
		}
		n := 0
		if i < len(cs.Found) {
			n = cs.Found[i]
		}
		a := fakes12.Rows([]string{"trace_id", "span_id", "duration", "timestamp_ns", "start_time_unix_nano", "duration_ms", "root_service_name", "root_trace_name"})
		for j := 0; j < n; j++ {
			start := cs.Ctx.From + int64(rows.Intn(int((cs.Ctx.To-cs.Ctx.From)%1000000000+1)))
			a.Rows = append(a.Rows, []driver.Value{fmt.Sprintf("%032x", rows.U64()), []string{fmt.Sprintf("%016x", rows.U64())}, []int64{5}, []int64{start}, start, 1.5, "svc", "op"})
		}
		return a, true
	}})
	var perr error
	func() {
		defer func() {
			if e := recover(); e != nil {
				perr = fmt.Errorf("panic: %v", e)
			}
		}()
		ch, err := proc.Process(ctx)
		if err != nil {
			perr = err
			return
		}
		for range ch {
		}
	}()
	if perr != nil {
		r.Count("portions-real:process-error")
	}
	r.Count(fmt.Sprintf("portions-real:statements=%d", nq-1))
}

func c14Loop(r *h.Result, rng *h.Rng, n int) {
	r.Stream("portions-real: traceql_transpiler.Plan(script).Process over a scripted database: the real complexity evaluation and the real ComplexRequestProcessor loop (1–5 portions, the scripted rows decide which portions find traces, limit 1–3 so that From advances) — every statement the loop sends vs a fresh translation for the context the loop had set at that moment")
	for i := 0; i < n; i++ {
		c := genTqCtx(rng)
		c.RndMax, c.RndI, c.Cached = 0, 0, nil
		c.Limit = int64(rng.Range(1, 3))
		cs := c14LoopCase{Stream: "portions-real", Query: genTraceQL(rng, 3, 2, 0), Ctx: c, Seed: rng.U64()}
		portions := rng.Range(1, 5)
		cs.Complexity = int64(portions)*10000000 - int64(rng.Intn(9999999))
		if rng.Chance(15) {
			cs.Complexity = int64(rng.Intn(10000000)) // a simple request
		}
		for j := 0; j < portions; j++ {
			k := 0
			if rng.Chance(60) {
				k = rng.Range(1, 3)
			}
			cs.Found = append(cs.Found, k)
		}
		c14RunLoop(r, cs)
		r.Case(fmt.Sprintf("portions-real:%s:%v:%d:%v", cs.Query, cs.Ctx, cs.Complexity, cs.Found), portions >= 2)
		if i%43 == 0 {
			r.Sample(cs)
		}
	}
}
