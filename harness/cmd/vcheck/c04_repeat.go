package main

// C04 stream "repeat": requests in which a decoder hands the SAME label buffer to onEntries more than once — a remote-write
// series that straddles the 1000-point flush (one series with more than 1000 samples; the 334th of many 3-sample series)
// and an Influx line with several numeric fields — with labels onEntries filters (`__ttl_days__`) placed first, in the
// middle and last. Oracle only, on the rows the real parsers emit: every sample of one submitted series carries ONE
// fingerprint, that fingerprint is the one of the stored document (real fingerprintLabels of the decoded document), the
// stored document has no label twice and does not contain the TTL label. (Seeded C04-6: an in-place filter of the TTL label
// rewrote the caller's buffer, later calls fingerprinted a list with a duplicated label.)

import (
	"bytes"
	"context"
	"fmt"
	"math"
	"strconv"
	"strings"
	"time"

	"github.com/metrico/qryn/writer/utils/unmarshal"

	"verif/harness/h"
)

type c04RepeatCase struct {
	Kind   string      `json:"kind"` // prom-long | prom-many | influx-fields
	Labels [][2]string `json:"labels_hex"`
	N      int         `json:"n"` // samples of the long series / number of 3-sample series / numeric fields
}

func c04RepeatBody(c c04RepeatCase) ([]byte, unmarshal.ParsingFunction, context.Context) {
	var ls []c04Lbl
	for _, p := range c.Labels {
		ls = append(ls, c04Lbl{string(h.UnHex(p[0])), string(h.UnHex(p[1]))})
	}
	ctx := context.WithValue(context.WithValue(context.Background(), "META", ""), "TTL_DAYS", uint16(0))
	ts0 := int64(1704189600000)
	series := func(extra []c04Lbl, n int, t0 int64) []byte {
		var s []byte
		for _, l := range append(append([]c04Lbl{}, ls...), extra...) {
			var lb []byte
			lb = c04PbBytes(lb, 1, []byte(l.N))
			lb = c04PbBytes(lb, 2, []byte(l.V))
			s = c04PbBytes(s, 1, lb)
		}
		for i := 0; i < n; i++ {
			var smp []byte
			smp = c04PbFixed64(smp, 1, math.Float64bits(float64(i)))
			smp = c04PbVar(smp, 2, uint64(t0+int64(i)))
			s = c04PbBytes(s, 2, smp)
		}
		return s
	}
	switch c.Kind {
	case "prom-long":
		return c04PbBytes(nil, 1, series(nil, c.N, ts0)), unmarshal.UnmarshallMetricsWriteProtoV2, ctx
	case "prom-many":
		var b []byte
		for k := 0; k < c.N; k++ {
			b = c04PbBytes(b, 1, series([]c04Lbl{{"k", "s" + strconv.Itoa(k)}}, 3, ts0+int64(k)*10))
		}
		return b, unmarshal.UnmarshallMetricsWriteProtoV2, ctx
	default: // influx-fields
		var sb strings.Builder
		sb.WriteString("m")
		for _, l := range ls {
			sb.WriteString("," + c04InfluxEsc.Replace(l.N) + "=" + c04InfluxEsc.Replace(l.V))
		}
		sb.WriteString(" ")
		for i := 0; i < c.N; i++ {
			if i > 0 {
				sb.WriteString(",")
			}
			sb.WriteString("f" + strconv.Itoa(i) + "=" + strconv.Itoa(i) + ".5")
		}
		sb.WriteString(" " + strconv.FormatInt(ts0*1e6, 10) + "\n")
		return []byte(sb.String()), unmarshal.UnmarshalInfluxDBLogsV2, context.WithValue(ctx, "precision", time.Nanosecond)
	}
}

func c04RepeatStream(r *h.Result, rng *h.Rng, n int, only *c04RepeatCase) error {
	r.Stream("repeat: remote-write series straddling the 1000-point flush (one long series; many 3-sample series) and Influx lines with several numeric fields — the decoder hands one label buffer to onEntries repeatedly — with `__ttl_days__` first / in the middle / last; oracle on the rows of the real parsers: one fingerprint per submitted series, = real fingerprintLabels of the decoded stored document, no label twice, no TTL label in the document")
	var cases []c04RepeatCase
	if only != nil {
		cases = []c04RepeatCase{*only}
	} else {
		for i := 0; i < n; i++ {
			base := []c04Lbl{{"__name__", "m" + strconv.Itoa(i)}, {"a", c04CleanValue(rng)}, {"b", c04CleanValue(rng)}}
			ttl := c04Lbl{"__ttl_days__", h.Pick(rng, []string{"7", "30", "x"})}
			pos := i % 4 // 0: no TTL label, 1: first, 2: middle, 3: last
			var ls []c04Lbl
			switch pos {
			case 0:
				ls = base
			case 1:
				ls = append([]c04Lbl{ttl}, base...)
			case 2:
				ls = append(append([]c04Lbl{base[0], ttl}, base[1:]...))
			default:
				ls = append(append([]c04Lbl{}, base...), ttl)
			}
			kind := []string{"prom-long", "prom-many", "influx-fields"}[(i/4)%3]
			c := c04RepeatCase{Kind: kind, Labels: c04LabelsJSON(ls)}
			switch kind {
			case "prom-long":
				c.N = h.Pick(rng, []int{1001, 1500, 2001, 2500})
			case "prom-many":
				c.N = h.Pick(rng, []int{334, 400, 700})
			default:
				c.N = 2 + rng.Intn(3)
				// the line protocol cannot carry every value: keep to what the Influx form of the pipeline stream accepts
				for k := range ls {
					if !c04InfluxOK(ls[k].V) || ls[k].V == "" {
						ls[k].V = "v" + strconv.Itoa(k)
					}
				}
				// no __name__ tag: the decoder derives the metric name from the field
				var keep []c04Lbl
				for _, l := range ls {
					if l.N != "__name__" {
						keep = append(keep, l)
					}
				}
				ls = keep
				c.Labels = c04LabelsJSON(ls)
			}
			cases = append(cases, c)
		}
	}
	for _, c := range cases {
		body, fn, ctx := c04RepeatBody(c)
		c04Setup()
		out := c04Collect(fn(ctx, bytes.NewReader(body), newC04Cache()))
		r.Case("repeat:"+c.Kind+":"+strconv.Itoa(c.N)+":"+fmt.Sprint(len(c.Labels)), true)
		r.Count("repeat:" + c.Kind)
		rp := map[string]any{"stream": "repeat", "case": c}
		if out.Err != "" {
			r.Violate("C04/valid-request-rejected/"+c.Kind, "a well-formed push was rejected: "+out.Err, rp)
			continue
		}
		docs := map[uint64]string{}
		for _, s := range out.Series {
			docs[s.Fp] = s.Doc
			got, err := c04DecodeDoc([]byte(s.Doc))
			if err != nil {
				r.Violate("C04/label-document-not-json", fmt.Sprintf("%s: stored document %q: %v", c.Kind, s.Doc, err), rp)
				continue
			}
			seen := map[string]bool{}
			for _, l := range got {
				if seen[l.N] {
					r.Violate("C04/label-document-repeats-a-label", fmt.Sprintf("%s: stored document %q names the label %q twice", c.Kind, s.Doc, l.N), rp)
				}
				seen[l.N] = true
				if l.N == "__ttl_days__" {
					r.Violate("C04/label-document-carries-ttl-label", fmt.Sprintf("%s: stored document %q", c.Kind, s.Doc), rp)
				}
			}
			if fp := c04RealFingerprintLabels(c04SortedPairs(got)); fp != s.Fp {
				r.Violate("C04/fingerprint-not-of-stored-document", fmt.Sprintf("%s: the series row has fingerprint %d and document %q, whose fingerprint (unmarshal.fingerprintLabels) is %d", c.Kind, s.Fp, s.Doc, fp), rp)
			}
		}
		// one fingerprint per submitted series: prom-long = 1 series; prom-many = N series (label k); influx = one per field
		want := 1
		if c.Kind == "prom-many" || c.Kind == "influx-fields" {
			want = c.N
		}
		fps := map[uint64]int{}
		for _, s := range out.Samples {
			fps[s.Fp]++
			if _, ok := docs[s.Fp]; !ok {
				r.Violate("C04/sample-without-series-row", fmt.Sprintf("%s: a sample carries fingerprint %d for which the request (fresh cache) emitted no series row", c.Kind, s.Fp), rp)
				break
			}
		}
		if len(fps) != want {
			r.Violate("C04/series-split-over-fingerprints", fmt.Sprintf("%s: %d submitted series, samples under %d fingerprints (%v)", c.Kind, want, len(fps), fps), rp)
		}
	}
	return nil
}
