package main

import (
	"encoding/json"
	"fmt"
	"strings"
	"time"

	"github.com/metrico/qryn/reader/logql/logql_transpiler_v2/shared"
	traceql_parser "github.com/metrico/qryn/reader/traceql/parser"
	"verif/harness/h"
)

// ---- grammar-directed generator of TraceQL scripts (text form, parsed by the real parser)

var tqAttrLabels = []string{".a", ".b", ".http.status", ".x-y_z", "span.a", "span.b", "span.http.method", "resource.a",
	"resource.service.name", "resource.k8s-pod", "name", "name"}
var tqOddLabels = []string{"foo", "spanx", "span.", "resource.", "status", "span.duration", "resource.name", ".name", ".duration"}

func tqLabel(r *h.Rng) string {
	switch {
	case r.Chance(18):
		return "duration"
	case r.Chance(1):
		return h.Pick(r, tqOddLabels)
	}
	return h.Pick(r, tqAttrLabels)
}

func tqString(r *h.Rng) string {
	switch r.Intn(8) {
	case 0:
		return h.Pick(r, []string{"", "'", "\\", "a'b", "it's", "';--", "/*", "\n", "\x00", "é", " ", "1", "1.5", "x\\y", "`"})
	case 1:
		n := r.Range(1, 5)
		var sb strings.Builder
		for i := 0; i < n; i++ {
			sb.WriteString(h.Pick(r, []string{"'", "\\", "a", "b", ".", "*", "(", ")", " ", "-", "\t", "é", "\"", "0"}))
		}
		return sb.String()
	}
	return h.Pick(r, []string{"x", "y", "GET", "POST", "svc", "frontend", "200", "500", "a b"})
}

func tqQuote(r *h.Rng, s string) string {
	if r.Chance(20) && !strings.ContainsAny(s, "`\\") {
		return "`" + s + "`"
	}
	if r.Chance(2) {
		return h.Pick(r, []string{`"\d+"`, "`a\\`b`", "`a\\d`", `"é"`, `"a\/b"`})
	}
	b, _ := json.Marshal(s)
	return string(b)
}

func tqNumber(r *h.Rng, allowNeg bool) string {
	s := ""
	if allowNeg && r.Chance(15) {
		s = "-"
	}
	switch r.Intn(6) {
	case 0:
		s += h.Pick(r, []string{"0", "1", "007", "10", "100", "999999999"})
	default:
		s += fmt.Sprint(r.Intn(1000))
	}
	if r.Chance(35) {
		s += "."
		if !r.Chance(10) {
			s += h.Pick(r, []string{"0", "5", "25", "50", "125", "001", "999999", "500000"})
		}
	}
	return s
}

var tqUnits = []string{"ns", "us", "ms", "s", "m", "h"}

func tqDuration(r *h.Rng) string {
	s := h.Pick(r, []string{"0", "1", "2", "10", "15", "100", "250", "999"})
	if r.Chance(6) {
		// up to and beyond the int64 overflow of the larger units, around 2^53 ns
		s = h.Pick(r, []string{"2562047", "2562048", "153722867", "153722868", "9223372036", "9223372037", "9007199254740993", "2502", "150120", "9223372036854775807", "9223372036854775808", "18446744073709551616"})
	}
	if r.Chance(25) {
		s += "." + h.Pick(r, []string{"5", "25", "001", "75", "0", "50"})
	}
	if r.Chance(1) {
		return s + "d"
	}
	return s + h.Pick(r, tqUnits)
}

func tqTerm(r *h.Rng) string {
	lbl := tqLabel(r)
	sp := h.Pick(r, []string{"", " "})
	if lbl == "duration" && !r.Chance(2) {
		return lbl + sp + h.Pick(r, []string{"=", "!=", "<", "<=", ">", ">=", ">", ">="}) + sp + tqDuration(r)
	}
	switch r.Intn(10) {
	case 0, 1, 2:
		op := h.Pick(r, []string{"=", "!=", "<", "<=", ">", ">=", "=", ">"})
		if r.Chance(1) {
			op = h.Pick(r, []string{"=~", "!~"})
		}
		return lbl + sp + op + sp + tqNumber(r, true)
	case 3:
		if r.Chance(5) {
			return lbl + sp + h.Pick(r, []string{"=", ">"}) + sp + tqDuration(r)
		}
		fallthrough
	default:
		op := h.Pick(r, []string{"=", "=", "!=", "=~", "!~"})
		if r.Chance(1) {
			op = h.Pick(r, []string{"<", ">="})
		}
		v := tqString(r)
		if op == "=~" || op == "!~" {
			v = h.Pick(r, []string{"a.*", "^x", "(?i)get", "GET|POST", "[0-9]+", "a'b", "\\d+", "5.."})
		}
		return lbl + sp + op + sp + tqQuote(r, v)
	}
}

// tqAttrExp: nested and/or with parentheses; terms are re-used from the pool so that the de-duplication is exercised
func tqAttrExp(r *h.Rng, depth int, pool *[]string) string {
	head := ""
	if depth > 0 && r.Chance(25) {
		head = "(" + tqAttrExp(r, depth-1, pool) + ")"
	} else if len(*pool) > 0 && r.Chance(30) {
		head = h.Pick(r, *pool)
	} else {
		head = tqTerm(r)
		*pool = append(*pool, head)
	}
	if depth > 0 && r.Chance(55) {
		op := h.Pick(r, []string{" && ", " || ", "&&", "||"})
		if r.Chance(2) {
			op = " " // two expressions without an operator: participle accepts it
		}
		return head + op + tqAttrExp(r, depth-1, pool)
	}
	return head
}

func tqAgg(r *h.Rng) string {
	fn := h.Pick(r, []string{"count", "avg", "min", "max", "sum"})
	attr := ""
	if fn != "count" || r.Chance(15) {
		attr = h.Pick(r, []string{"duration", "duration", ".a", "span.b", "resource.a", ".http.status", "span.resource.x", "name", "foo", ""})
	}
	cmp := h.Pick(r, []string{"=", "!=", "<", "<=", ">", ">="})
	num := tqNumber(r, true)
	unit := ""
	if attr == "duration" && !r.Chance(3) {
		num = h.Pick(r, []string{"0", "1", "2", "15", "100", "1.5", "0.25", "-1", "2562047.5", "2562048", "9007199254740993", "0.000000001", "1.123456789012"})
		unit = h.Pick(r, tqUnits)
		if r.Chance(2) {
			unit = "d"
		}
	} else if r.Chance(2) {
		unit = h.Pick(r, tqUnits)
	}
	return fmt.Sprintf(" | %s(%s) %s %s%s", fn, attr, cmp, num, unit)
}

func tqSelector(r *h.Rng, depth int) string {
	if r.Chance(3) {
		if r.Chance(30) {
			return "{}" + tqAgg(r)
		}
		return "{}"
	}
	var pool []string
	s := "{" + h.Pick(r, []string{"", " "}) + tqAttrExp(r, depth, &pool) + "}"
	if r.Chance(30) {
		s += tqAgg(r)
	}
	return s
}

// genTraceQL: a chain of at most maxSel selectors; bigTerms > 0 forces a selector with that many distinct terms
func genTraceQL(r *h.Rng, maxSel, depth, bigTerms int) string {
	if bigTerms > 0 {
		var parts []string
		for i := 0; i < bigTerms; i++ {
			parts = append(parts, fmt.Sprintf(".k%d = %d", i, i))
		}
		var sb strings.Builder
		for i, p := range parts {
			if i > 0 {
				sb.WriteString(h.Pick(r, []string{" && ", " || "}))
			}
			sb.WriteString(p)
		}
		return "{" + sb.String() + "}"
	}
	n := 1
	if r.Chance(45) {
		n = r.Range(2, maxSel)
	}
	var sb strings.Builder
	for i := 0; i < n; i++ {
		if i > 0 {
			op := h.Pick(r, []string{" && ", " || "})
			if r.Chance(1) {
				op = " "
			}
			sb.WriteString(op)
		}
		sb.WriteString(tqSelector(r, depth))
	}
	if r.Chance(1) {
		sb.WriteString(h.Pick(r, []string{" &&", " ||"}))
	}
	return sb.String()
}

// ---- serialisation of the REAL parsed AST for the model's line protocol

var tqOps = map[string]string{"=": "eq", "!=": "neq", "<": "lt", "<=": "le", ">": "gt", ">=": "ge", "=~": "re", "!~": "nre"}
var tqBool = map[string]string{"&&": "and", "||": "or", "": "none"}

type tqLimits struct{ intDigits, fracDigits int }

// serNum: "<neg> <int digits> <dot> <frac digits>" from the literal text as the parser captured it
func serNum(s string, lim tqLimits) ([]string, error) {
	neg := "0"
	if strings.HasPrefix(s, "-") {
		neg, s = "1", s[1:]
	}
	ip, fp, dot := strings.Cut(s, ".")
	if ip == "" || strings.Trim(ip, "0123456789") != "" || strings.Trim(fp, "0123456789") != "" {
		return nil, fmt.Errorf("unexpected number text %q", s)
	}
	if len(strings.TrimLeft(ip, "0")) > lim.intDigits || len(fp) > lim.fracDigits {
		return nil, fmt.Errorf("number outside the exactly-rendered range")
	}
	d := "0"
	if dot {
		d = "1"
	}
	if fp == "" {
		fp = "-"
	}
	return []string{neg, ip, d, fp}, nil
}

func splitUnit(s string) (string, string) {
	i := len(s)
	for i > 0 && (s[i-1] < '0' || s[i-1] > '9') && s[i-1] != '.' {
		i--
	}
	return s[:i], s[i:]
}

func serTerm(t *traceql_parser.AttrSelector) ([]string, error) {
	op, ok := tqOps[t.Op]
	if !ok {
		return nil, fmt.Errorf("op %q", t.Op)
	}
	res := []string{hx(t.Label), op}
	switch {
	case t.Val.TimeVal != "":
		num, unit := splitUnit(t.Val.TimeVal)
		n, err := serNum(num, tqLimits{20, 12}) // Units.goParseDuration models the overflow checks and the fraction up to 13 digits
		if err != nil {
			return nil, err
		}
		res = append(append(append(res, "D"), n...), unit)
	case t.Val.FVal != "":
		n, err := serNum(t.Val.FVal, tqLimits{9, 6})
		if err != nil {
			return nil, err
		}
		res = append(append(res, "N"), n...)
	case t.Val.StrVal != nil:
		unq := "!"
		if u, err := t.Val.StrVal.Unquote(); err == nil {
			unq = hx(u)
		}
		res = append(res, "S", hx(t.Val.StrVal.Str), unq)
	default:
		return nil, fmt.Errorf("empty value")
	}
	return res, nil
}

func serAttrExp(e *traceql_parser.AttrSelectorExp) ([]string, error) {
	var head []string
	var err error
	tag := ""
	switch {
	case e.ComplexHead != nil:
		tag = "P"
		head, err = serAttrExp(e.ComplexHead)
	case e.Head != nil:
		tag = "L"
		head, err = serTerm(e.Head)
	default:
		return nil, fmt.Errorf("expression without head")
	}
	if err != nil {
		return nil, err
	}
	if e.Tail == nil {
		return append([]string{tag}, head...), nil
	}
	op, ok := tqBool[e.AndOr]
	if !ok {
		return nil, fmt.Errorf("andor %q", e.AndOr)
	}
	tail, err := serAttrExp(e.Tail)
	if err != nil {
		return nil, err
	}
	return append(append(append([]string{tag + "O"}, head...), op), tail...), nil
}

// serTraceQL returns the comma-separated token list, or an error when the script is outside the modelled fragment
func serTraceQL(s *traceql_parser.TraceQLScript) (string, error) {
	var toks []string
	for cur := s; cur != nil; cur = cur.Tail {
		toks = append(toks, "SEL")
		if cur.Head.AttrSelector == nil {
			toks = append(toks, "NOATTR")
		} else {
			e, err := serAttrExp(cur.Head.AttrSelector)
			if err != nil {
				return "", err
			}
			toks = append(toks, e...)
		}
		if a := cur.Head.Aggregator; a == nil {
			toks = append(toks, "NOAGG")
		} else {
			lim := tqLimits{9, 6}
			if a.Attr == "duration" {
				lim = tqLimits{20, 12}
			}
			n, err := serNum(a.Num, lim)
			if err != nil {
				return "", err
			}
			attr, unit := "-", "-"
			if a.Attr != "" {
				attr = hx(a.Attr)
			}
			if a.Measurement != "" {
				unit = a.Measurement
			}
			cmp, ok := tqOps[a.Cmp]
			if !ok {
				return "", fmt.Errorf("cmp %q", a.Cmp)
			}
			toks = append(append(append(toks, "AGG", a.Fn, attr, cmp), n...), unit)
		}
		op, ok := tqBool[cur.AndOr]
		if !ok {
			return "", fmt.Errorf("andor %q", cur.AndOr)
		}
		toks = append(toks, op)
	}
	return strings.Join(toks, ","), nil
}

// ---- planner contexts
type tqctx struct {
	From, To int64
	Zone     int // seconds east of UTC: the zone of ctx.From / ctx.To and of the process (time.Local); the date bounds must not depend on it
	Limit    int64
	Cluster  bool
	RndMax   int
	RndI     int
	Cached   []string
}

func genTqCtx(r *h.Rng) tqctx {
	base := int64(1700000000) + int64(r.Intn(400))*86400 + int64(r.Intn(86400))
	from := base*1e9 + int64(r.Intn(3))*int64(r.Intn(1e9))
	span := []int64{1, 1e9, 60e9, 3600e9, 86400e9 * 3}[r.Intn(5)]
	c := tqctx{From: from, To: from + span, Limit: []int64{0, 1, 20, 100}[r.Intn(4)], Cluster: r.Chance(25)}
	if r.Chance(30) {
		c.Zone = h.Pick(r, []int{3600, -3600, 5*3600 + 1800, -8 * 3600, 14 * 3600, -12 * 3600})
	}
	if r.Chance(15) {
		// around midnight UTC: a date bound rendered in the zone of ctx.From / ctx.To or in time.Local would differ
		c.From = (base - base%86400 + int64(h.Pick(r, []int{0, 1, 86399, 43200}))) * 1e9
		c.To = c.From + span
	}
	if r.Chance(12) {
		c.RndMax = r.Range(2, 5)
		c.RndI = r.Intn(c.RndMax)
		for i := r.Intn(3); i > 0; i-- {
			c.Cached = append(c.Cached, fmt.Sprintf("%032x", r.U64()))
		}
	}
	return c
}

func (c tqctx) planner() *shared.PlannerContext {
	zone := time.FixedZone("z", c.Zone)
	time.Local = zone // the process zone varies too (vcheck runs one property per process, single goroutine here)
	return &shared.PlannerContext{
		From: time.Unix(0, c.From).In(zone), To: time.Unix(0, c.To).In(zone), Limit: c.Limit, IsCluster: c.Cluster,
		TracesAttrsTable: "tempo_traces_attrs_gin", TracesAttrsDistTable: "tempo_traces_attrs_gin_dist",
		TracesTable: "tempo_traces", TracesDistTable: "tempo_traces_dist", TracesKVDistTable: "tempo_traces_kv_dist",
		VersionInfo:  map[string]int64{},
		RandomFilter: shared.RandomFilter{Max: c.RndMax, I: c.RndI}, CachedTraceIds: c.Cached,
	}
}

func (c tqctx) ser() string {
	p := c.planner()
	cached := "-"
	if len(c.Cached) > 0 {
		var hs []string
		for _, t := range c.Cached {
			hs = append(hs, hx(t))
		}
		cached = strings.Join(hs, ",")
	}
	return fmt.Sprintf("%d %d %d %d %d %s %s %s %s %d %d %s", c.From, c.To, c.Zone, c.Limit, b2i(c.Cluster),
		hx(p.TracesAttrsTable), hx(p.TracesAttrsDistTable), hx(p.TracesTable), hx(p.TracesDistTable), c.RndMax, c.RndI, cached)
}
