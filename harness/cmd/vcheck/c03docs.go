package main

// C03: the decoded documents of the seven ingest protocols, their serialisation to real bytes, an independent
// decoding of those bytes (encoding/json, the protobuf structs, a small line-protocol reader), the model line,
// and the rows the property demands (the oracle's expectation).

import (
	"bytes"
	"encoding/json"
	"fmt"
	"math"
	"regexp"
	"sort"
	"strconv"
	"strings"
	"time"

	"github.com/go-logfmt/logfmt"
	"github.com/golang/snappy"
	"github.com/metrico/qryn/writer/utils/proto/logproto"
	"github.com/metrico/qryn/writer/utils/proto/prompb"
	otlpCommon "go.opentelemetry.io/proto/otlp/common/v1"
	otlpLogs "go.opentelemetry.io/proto/otlp/logs/v1"
	otlpRes "go.opentelemetry.io/proto/otlp/resource/v1"
	"google.golang.org/protobuf/proto"

	"verif/harness/h"
)

func mathBits(f float64) uint64 { return math.Float64bits(f) }

// ---- decoded documents ------------------------------------------------------------------------------------

type rLokiEntry struct {
	Ts   int64
	Line *string
	Val  *float64
	// serialisation hints (not part of the decoded document)
	rfc   bool   // RFC 3339 timestamp (entries layout)
	zone  int    // zone offset in minutes for the RFC 3339 form
	third int    // values layout without Val: 0 nothing, 2 an object (Loki's structured metadata), 3 a string
	tsKey string // entries layout: "ts" or "timestamp"
}
type rLokiStream struct {
	Labels  []c03Label
	Entries []rLokiEntry
	layout  int // bit 0: labels as `labels` text instead of the `stream` object; bit 1: `entries` objects instead of `values` arrays
}
type rProtoEntry struct {
	Sec   int64
	Nanos int32
	Line  string
}
type rProtoStream struct {
	Labels  []c03Label
	Entries []rProtoEntry
}
type rPromSample struct {
	TsMs int64
	Val  float64
}
type rPromSeries struct {
	Labels  []c03Label
	Samples []rPromSample
}
type rInfluxField struct {
	K    string
	Kind byte // 'f' float, 'i' integer, 'u' unsigned, 's' string, 'b' bool
	F    float64
	I    int64
	U    uint64
	S    string
	B    bool
}
type rInfluxPoint struct {
	Name   string
	Tags   []c03Label
	Fields []rInfluxField
	Ts     int64
}
type rDDLog struct {
	DDTags                                         string
	Source, Service, Hostname, SourceType, Message string
	TsMs                                           int64
}
type rDDPoint struct {
	Ts  int64
	Val float64
}
type rDDSeries struct {
	Metric    *string
	Resources [][]c03Label
	Points    []rDDPoint
}
type rOtlpRec struct {
	Attrs []*otlpCommon.KeyValue
	Sev   string
	Body  *otlpCommon.AnyValue
	Ts    uint64
}
type rOtlpScope struct {
	HasScope bool
	Attrs    []*otlpCommon.KeyValue
	Recs     []rOtlpRec
}
type rOtlpRes struct {
	HasRes bool
	Attrs  []*otlpCommon.KeyValue
	Scopes []rOtlpScope
}

type c03Doc struct {
	Proto    string
	Loki     []rLokiStream
	Proto2   []rProtoStream
	Prom     []rPromSeries
	Influx   []rInfluxPoint
	DDLogs   []rDDLog
	DDSeries []rDDSeries
	Otlp     []rOtlpRes
}

// ---- what the property demands -----------------------------------------------------------------------------

type c03ExpEntry struct {
	Ts   int64
	Line string
	Val  uint64
	Tp   uint8
}
type c03ExpStream struct {
	Labels   []c03Label // the label set that identifies the stream (after the protocol's label rule)
	Ttl      uint16
	Entries  []c03ExpEntry
	Repaired bool // the label list was not valid UTF-8 before validUTF8Labels
}

var c03SanRe = regexp.MustCompile("(^[^a-zA-Z_]|[^a-zA-Z0-9_])") // harness' own copy of the sanitiser
var c03KeyRe = regexp.MustCompile(`[^a-zA-Z0-9_]`)
var c03TagRe = regexp.MustCompile(`([\p{L}][\p{L}_0-9\-.\\/]*):([\p{L}_0-9\-.\\/:]+)(,|$)`)

func c03Sanitize(ls []c03Label) []c03Label {
	out := make([]c03Label, len(ls))
	for i, l := range ls {
		v := l.V
		if len(v) > 100 {
			v = v[:100] + "..."
		}
		out[i] = c03Label{c03SanRe.ReplaceAllString(l.K, "_"), v}
	}
	return out
}

// c03Effective: the TTL rule of onEntries (the `__ttl_days__` label is an instruction, not part of the identity,
// unless the request carries a TTL header).
func c03Effective(ctxTtl uint16, ls []c03Label) ([]c03Label, uint16) {
	if ctxTtl != 0 {
		return ls, ctxTtl
	}
	var out []c03Label
	ttl := uint16(0)
	for _, l := range ls {
		if l.K == "__ttl_days__" {
			if v, err := strconv.ParseInt(l.V, 10, 16); err == nil {
				ttl = uint16(v)
			}
			continue
		}
		out = append(out, l)
	}
	return out, ttl
}

// c03ValidUTF8: the rule of validUTF8Labels — invalid UTF-8 in a label name or value (raw bytes, or a rune cut by the
// 100-byte truncation) is replaced, one U+FFFD per run of invalid bytes, before the identity is taken.
func c03ValidUTF8(ls []c03Label) []c03Label {
	out := make([]c03Label, len(ls))
	for i, l := range ls {
		out[i] = c03Label{strings.ToValidUTF8(l.K, "\uFFFD"), strings.ToValidUTF8(l.V, "\uFFFD")}
	}
	return out
}

func c03OtlpKey(k string) string {
	s := c03KeyRe.ReplaceAllString(k, "_")
	if len(s) == 0 || (s[0] >= '0' && s[0] <= '9') {
		s = "_" + s
	}
	return s
}

func c03OtlpAttrs(kvs []*otlpCommon.KeyValue) []c03Label {
	var out []c03Label
	for _, kv := range kvs {
		v := ""
		if kv.Value != nil {
			v = c03wRenderAny(kv.Value) // the harness' own rendering (c03w.go)
		}
		out = append(out, c03Label{kv.Key, v})
	}
	return out
}

func c03MapSet(m []c03Label, k, v string) []c03Label {
	for i := range m {
		if m[i].K == k {
			m[i].V = v
			return m
		}
	}
	return append(m, c03Label{k, v})
}

func c03InfluxLine(fs []rInfluxField) string {
	var msg string
	var others []rInfluxField
	for _, f := range fs {
		if f.K == "message" {
			msg = f.S
		} else {
			others = append(others, f)
		}
	}
	if len(others) == 0 {
		return msg
	}
	buf := &bytes.Buffer{}
	enc := logfmt.NewEncoder(buf)
	enc.EncodeKeyvals("message", msg)
	for _, f := range others {
		enc.EncodeKeyvals(f.K, f.any())
	}
	return buf.String()
}

func (f rInfluxField) any() any {
	switch f.Kind {
	case 'f':
		return f.F
	case 'i':
		return f.I
	case 'u':
		return f.U
	case 'b':
		return f.B
	}
	return f.S
}

func (f rInfluxField) numeric() (float64, bool) {
	switch f.Kind {
	case 'f':
		return f.F, true
	case 'i':
		return float64(f.I), true
	case 'u':
		return float64(f.U), true
	}
	return 0, false
}

func (p rInfluxPoint) isLog() bool {
	for _, f := range p.Fields {
		if f.K == "message" {
			return true
		}
	}
	return false
}

// expected: the streams and entries the body submits, per the property, derived from the decoded document only.
func (d *c03Doc) expected(ctxTtl uint16) []c03ExpStream {
	var out []c03ExpStream
	add := func(ls []c03Label, es []c03ExpEntry) {
		eff, ttl := c03Effective(ctxTtl, ls)
		v := c03ValidUTF8(eff)
		out = append(out, c03ExpStream{v, ttl, es, fmt.Sprint(v) != fmt.Sprint(eff)})
	}
	switch d.Proto {
	case "loki":
		for _, s := range d.Loki {
			var es []c03ExpEntry
			for _, e := range s.Entries {
				x := c03ExpEntry{Ts: e.Ts}
				if e.Line != nil {
					x.Line = *e.Line
					x.Tp |= 1
				}
				if e.Val != nil {
					x.Val = mathBits(*e.Val)
					x.Tp |= 2
				}
				if x.Tp == 3 {
					x.Tp = 0 // "both": the reader includes type 0 in log and in metric queries
				}
				es = append(es, x)
			}
			add(c03Sanitize(s.Labels), es)
		}
	case "lokiproto":
		for _, s := range d.Proto2 {
			var es []c03ExpEntry
			for _, e := range s.Entries {
				es = append(es, c03ExpEntry{e.Sec*1000000000 + int64(e.Nanos), e.Line, 0, 1})
			}
			add(c03Sanitize(s.Labels), es)
		}
	case "prom":
		for _, s := range d.Prom {
			var es []c03ExpEntry
			for _, e := range s.Samples {
				es = append(es, c03ExpEntry{e.TsMs * 1000000, "", mathBits(e.Val), 2})
			}
			add(c03Sanitize(s.Labels), es)
		}
	case "influx":
		for _, p := range d.Influx {
			base := c03Sanitize(append([]c03Label{{"measurement", p.Name}}, p.Tags...))
			if p.isLog() {
				add(base, []c03ExpEntry{{p.Ts, c03InfluxLine(p.Fields), 0, 1}})
				continue
			}
			for _, f := range p.Fields {
				if v, ok := f.numeric(); ok {
					ls := append(append([]c03Label(nil), base...), c03Label{"__name__", c03SanRe.ReplaceAllString(f.K, "_")})
					add(ls, []c03ExpEntry{{p.Ts, "", mathBits(v), 2}})
				}
			}
		}
	case "ddlogs":
		for _, e := range d.DDLogs {
			var ls []c03Label
			for _, m := range c03TagRe.FindAllStringSubmatch(e.DDTags, -1) {
				ls = append(ls, c03Label{m[1], m[2]})
			}
			for _, l := range []c03Label{{"ddsource", e.Source}, {"service", e.Service}, {"hostname", e.Hostname}, {"source_type", e.SourceType}, {"type", "datadog"}} {
				if l.V != "" {
					ls = append(ls, l)
				}
			}
			add(ls, []c03ExpEntry{{e.TsMs * 1000000, e.Message, 0, 1}})
		}
	case "ddseries":
		for _, s := range d.DDSeries {
			var ls []c03Label
			if s.Metric != nil {
				ls = append(ls, c03Label{"__name__", *s.Metric})
			}
			for i, r := range s.Resources {
				for _, kv := range r {
					ls = append(ls, c03Label{fmt.Sprintf("resource%d_%s", i+1, kv.K), kv.V})
				}
			}
			var es []c03ExpEntry
			for _, p := range s.Points {
				es = append(es, c03ExpEntry{p.Ts * 1000000000, "", mathBits(p.Val), 2})
			}
			add(ls, es)
		}
	case "otlp":
		for _, r := range d.Otlp {
			var rm []c03Label
			for _, kv := range c03OtlpAttrs(r.Attrs) {
				rm = c03MapSet(rm, c03OtlpKey(kv.K), kv.V)
			}
			for _, s := range r.Scopes {
				var sm []c03Label
				for _, kv := range c03OtlpAttrs(s.Attrs) {
					sm = c03MapSet(sm, c03OtlpKey(kv.K), kv.V)
				}
				for _, rec := range s.Recs {
					m := append([]c03Label(nil), rm...)
					for _, kv := range sm {
						m = c03MapSet(m, kv.K, kv.V)
					}
					for _, kv := range c03OtlpAttrs(rec.Attrs) {
						m = c03MapSet(m, c03OtlpKey(kv.K), kv.V)
					}
					if rec.Sev != "" {
						m = c03MapSet(m, "level", rec.Sev)
					}
					add(m, []c03ExpEntry{{int64(rec.Ts), c03wRenderAny(rec.Body), 0, 1}})
				}
			}
		}
	}
	return out
}

// ---- serialisation to real bytes ---------------------------------------------------------------------------

func jstr(s string) string { b, _ := json.Marshal(s); return string(b) }

func jnum(f float64) string {
	if f == 0 && math.Signbit(f) {
		return "-0"
	}
	return strconv.FormatFloat(f, 'g', -1, 64)
}

// jobj writes a JSON object with its members in an order chosen by rng (nil: as given)
func jobj(rng *h.Rng, members []string) string {
	ms := append([]string(nil), members...)
	if rng != nil {
		for i := len(ms) - 1; i > 0; i-- {
			j := rng.Intn(i + 1)
			ms[i], ms[j] = ms[j], ms[i]
		}
	}
	return "{" + strings.Join(ms, ",") + "}"
}

func lokiLabelText(ls []c03Label, rng *h.Rng) string {
	parts := make([]string, len(ls))
	for i, l := range ls {
		parts[i] = l.K + "=" + strconv.Quote(l.V)
	}
	sep := ","
	if rng != nil && rng.Bool() {
		sep = ", "
	}
	return "{" + strings.Join(parts, sep) + "}"
}

func (d *c03Doc) bytes(rng *h.Rng) ([]byte, error) {
	switch d.Proto {
	case "loki":
		var streams []string
		for _, s := range d.Loki {
			var members []string
			if s.layout&1 == 0 {
				var kv []string
				for _, l := range s.Labels {
					kv = append(kv, jstr(l.K)+":"+jstr(l.V))
				}
				members = append(members, `"stream":{`+strings.Join(kv, ",")+"}")
			} else {
				members = append(members, `"labels":`+jstr(lokiLabelText(s.Labels, rng)))
			}
			var es []string
			for _, e := range s.Entries {
				if s.layout&2 == 0 {
					el := []string{jstr(strconv.FormatInt(e.Ts, 10))}
					if e.Line != nil {
						el = append(el, jstr(*e.Line))
						if e.Val != nil {
							el = append(el, jnum(*e.Val))
						} else if e.third == 2 {
							el = append(el, `{"trace_id":"0242ac120002","n":1}`)
						} else if e.third == 3 {
							el = append(el, `"meta"`)
						}
					}
					es = append(es, "["+strings.Join(el, ",")+"]")
				} else {
					var ts string
					if e.rfc {
						ts = time.Unix(0, e.Ts).In(time.FixedZone("", e.zone*60)).Format(time.RFC3339Nano)
					} else {
						ts = strconv.FormatInt(e.Ts, 10)
					}
					key := e.tsKey
					if key == "" {
						key = "ts"
					}
					ms := []string{jstr(key) + ":" + jstr(ts)}
					if e.Line != nil {
						ms = append(ms, `"line":`+jstr(*e.Line))
					}
					if e.Val != nil {
						ms = append(ms, `"value":`+jnum(*e.Val))
					}
					if rng != nil && rng.Chance(10) {
						ms = append(ms, `"extra":[1,{"a":null}]`)
					}
					es = append(es, jobj(rng, ms))
				}
			}
			if s.layout&2 == 0 {
				members = append(members, `"values":[`+strings.Join(es, ",")+"]")
			} else {
				members = append(members, `"entries":[`+strings.Join(es, ",")+"]")
			}
			if rng != nil && rng.Chance(10) {
				members = append(members, `"unknown":{"x":[1,2]}`)
			}
			streams = append(streams, jobj(rng, members))
		}
		top := []string{`"streams":[` + strings.Join(streams, ",") + "]"}
		if rng != nil && rng.Chance(10) {
			top = append(top, `"other":true`)
		}
		return []byte(jobj(rng, top)), nil
	case "lokiproto":
		req := &logproto.PushRequest{}
		for _, s := range d.Proto2 {
			st := &logproto.StreamAdapter{Labels: lokiLabelText(s.Labels, rng)}
			for _, e := range s.Entries {
				st.Entries = append(st.Entries, &logproto.EntryAdapter{Timestamp: &logproto.Timestamp{Seconds: e.Sec, Nanos: e.Nanos}, Line: e.Line})
			}
			req.Streams = append(req.Streams, st)
		}
		b, err := proto.Marshal(req)
		if err != nil {
			return nil, err
		}
		// the push route snappy-decodes the body before the parser sees it (controller middleware)
		return snappy.Decode(nil, snappy.Encode(nil, b))
	case "prom":
		req := &prompb.WriteRequest{}
		for _, s := range d.Prom {
			ts := &prompb.TimeSeries{}
			for _, l := range s.Labels {
				ts.Labels = append(ts.Labels, &prompb.Label{Name: l.K, Value: l.V})
			}
			for _, e := range s.Samples {
				ts.Samples = append(ts.Samples, &prompb.Sample{Timestamp: e.TsMs, Value: e.Val})
			}
			req.Timeseries = append(req.Timeseries, ts)
		}
		b, err := proto.Marshal(req)
		if err != nil {
			return nil, err
		}
		return snappy.Decode(nil, snappy.Encode(nil, b))
	case "influx":
		var sb strings.Builder
		esc := func(s string) string {
			return strings.NewReplacer(`,`, `\,`, ` `, `\ `, `=`, `\=`).Replace(s)
		}
		for _, p := range d.Influx {
			sb.WriteString(strings.NewReplacer(`,`, `\,`, ` `, `\ `).Replace(p.Name))
			for _, t := range p.Tags {
				sb.WriteString("," + esc(t.K) + "=" + esc(t.V))
			}
			sb.WriteString(" ")
			for i, f := range p.Fields {
				if i > 0 {
					sb.WriteString(",")
				}
				sb.WriteString(esc(f.K) + "=")
				switch f.Kind {
				case 'f':
					sb.WriteString(strconv.FormatFloat(f.F, 'g', -1, 64))
				case 'i':
					sb.WriteString(strconv.FormatInt(f.I, 10) + "i")
				case 'u':
					sb.WriteString(strconv.FormatUint(f.U, 10) + "u")
				case 'b':
					sb.WriteString(strconv.FormatBool(f.B))
				default:
					sb.WriteString(`"` + strings.NewReplacer(`\`, `\\`, `"`, `\"`).Replace(f.S) + `"`)
				}
			}
			sb.WriteString(" " + strconv.FormatInt(p.Ts, 10) + "\n")
		}
		return []byte(sb.String()), nil
	case "ddlogs":
		var es []string
		for _, e := range d.DDLogs {
			var ms []string
			opt := func(k, v string) {
				if v != "" {
					ms = append(ms, jstr(k)+":"+jstr(v))
				}
			}
			opt("ddsource", e.Source)
			opt("ddtags", e.DDTags)
			opt("hostname", e.Hostname)
			opt("service", e.Service)
			opt("source_type", e.SourceType)
			ms = append(ms, `"message":`+jstr(e.Message))
			ms = append(ms, `"timestamp":`+strconv.FormatInt(e.TsMs, 10))
			if rng != nil && rng.Chance(10) {
				ms = append(ms, `"status":"info"`)
			}
			es = append(es, jobj(rng, ms))
		}
		return []byte("[" + strings.Join(es, ",") + "]"), nil
	case "ddseries":
		var ss []string
		for _, s := range d.DDSeries {
			var ms []string
			if s.Metric != nil {
				ms = append(ms, `"metric":`+jstr(*s.Metric))
			}
			if s.Resources != nil {
				var rs []string
				for _, r := range s.Resources {
					var kv []string
					for _, l := range r {
						kv = append(kv, jstr(l.K)+":"+jstr(l.V))
					}
					rs = append(rs, "{"+strings.Join(kv, ",")+"}")
				}
				ms = append(ms, `"resources":[`+strings.Join(rs, ",")+"]")
			}
			var ps []string
			for _, p := range s.Points {
				ps = append(ps, jobj(rng, []string{`"timestamp":` + strconv.FormatInt(p.Ts, 10), `"value":` + jnum(p.Val)}))
			}
			ms = append(ms, `"points":[`+strings.Join(ps, ",")+"]")
			if rng != nil && rng.Chance(20) {
				ms = append(ms, `"type":3`, `"unit":"byte"`)
			}
			ss = append(ss, jobj(rng, ms))
		}
		return []byte(`{"series":[` + strings.Join(ss, ",") + `]}`), nil
	case "otlp":
		data := &otlpLogs.LogsData{}
		for _, r := range d.Otlp {
			rl := &otlpLogs.ResourceLogs{}
			if r.HasRes {
				rl.Resource = &otlpRes.Resource{Attributes: r.Attrs}
			}
			for _, s := range r.Scopes {
				sl := &otlpLogs.ScopeLogs{}
				if s.HasScope {
					sl.Scope = &otlpCommon.InstrumentationScope{Name: "scope", Attributes: s.Attrs}
				}
				for _, rec := range s.Recs {
					sl.LogRecords = append(sl.LogRecords, &otlpLogs.LogRecord{TimeUnixNano: rec.Ts, SeverityText: rec.Sev, Body: rec.Body, Attributes: rec.Attrs})
				}
				rl.ScopeLogs = append(rl.ScopeLogs, sl)
			}
			data.ResourceLogs = append(data.ResourceLogs, rl)
		}
		return proto.Marshal(data)
	}
	return nil, fmt.Errorf("unknown protocol %q", d.Proto)
}

// ---- independent decoding of the bytes (the oracle never looks at the generator's document) -----------------

func parseLokiLabelText(s string) ([]c03Label, error) {
	s = strings.TrimSpace(s)
	if !strings.HasPrefix(s, "{") || !strings.HasSuffix(s, "}") {
		return nil, fmt.Errorf("label text %q", s)
	}
	s = s[1 : len(s)-1]
	var out []c03Label
	for {
		s = strings.TrimSpace(s)
		if s == "" {
			return out, nil
		}
		i := strings.IndexByte(s, '=')
		if i < 0 {
			return nil, fmt.Errorf("label text: no '='")
		}
		name := strings.TrimSpace(s[:i])
		s = strings.TrimSpace(s[i+1:])
		q, err := strconv.QuotedPrefix(s)
		if err != nil {
			return nil, err
		}
		v, err := strconv.Unquote(q)
		if err != nil {
			return nil, err
		}
		out = append(out, c03Label{name, v})
		s = strings.TrimSpace(s[len(q):])
		if strings.HasPrefix(s, ",") {
			s = s[1:]
		}
	}
}

// orderedObject decodes a JSON object keeping member order (encoding/json token stream).
func orderedObject(raw json.RawMessage) ([]string, []json.RawMessage, error) {
	dec := json.NewDecoder(bytes.NewReader(raw))
	tok, err := dec.Token()
	if err != nil {
		return nil, nil, err
	}
	if tok != json.Delim('{') {
		return nil, nil, fmt.Errorf("not an object")
	}
	var ks []string
	var vs []json.RawMessage
	for dec.More() {
		kt, err := dec.Token()
		if err != nil {
			return nil, nil, err
		}
		var v json.RawMessage
		if err := dec.Decode(&v); err != nil {
			return nil, nil, err
		}
		ks = append(ks, kt.(string))
		vs = append(vs, v)
	}
	return ks, vs, nil
}

func c03Decode(protoName string, body []byte) (*c03Doc, error) {
	d := &c03Doc{Proto: protoName}
	switch protoName {
	case "loki":
		var top struct {
			Streams []json.RawMessage `json:"streams"`
		}
		if err := json.Unmarshal(body, &top); err != nil {
			return nil, err
		}
		for _, raw := range top.Streams {
			ks, vs, err := orderedObject(raw)
			if err != nil {
				return nil, err
			}
			var s rLokiStream
			for i, k := range ks {
				switch k {
				case "stream":
					lk, lv, err := orderedObject(vs[i])
					if err != nil {
						return nil, err
					}
					for j := range lk {
						var v string
						if err := json.Unmarshal(lv[j], &v); err != nil {
							return nil, err
						}
						s.Labels = append(s.Labels, c03Label{lk[j], v})
					}
				case "labels":
					var txt string
					if err := json.Unmarshal(vs[i], &txt); err != nil {
						return nil, err
					}
					ls, err := parseLokiLabelText(txt)
					if err != nil {
						return nil, err
					}
					s.Labels = append(s.Labels, ls...)
				case "values":
					var arrs [][]json.RawMessage
					if err := json.Unmarshal(vs[i], &arrs); err != nil {
						return nil, err
					}
					for _, a := range arrs {
						var e rLokiEntry
						if len(a) > 0 {
							var ts string
							if err := json.Unmarshal(a[0], &ts); err != nil {
								return nil, err
							}
							n, err := strconv.ParseInt(ts, 10, 64)
							if err != nil {
								return nil, err
							}
							e.Ts = n
						}
						if len(a) > 1 {
							var l string
							if err := json.Unmarshal(a[1], &l); err != nil {
								return nil, err
							}
							e.Line = &l
						}
						if len(a) > 2 {
							var f float64
							if json.Unmarshal(a[2], &f) == nil && len(a[2]) > 0 && a[2][0] != 'n' {
								e.Val = &f
							}
						}
						s.Entries = append(s.Entries, e)
					}
				case "entries":
					var objs []map[string]json.RawMessage
					if err := json.Unmarshal(vs[i], &objs); err != nil {
						return nil, err
					}
					for _, o := range objs {
						var e rLokiEntry
						for _, key := range []string{"ts", "timestamp"} {
							if raw, ok := o[key]; ok {
								var ts string
								if err := json.Unmarshal(raw, &ts); err != nil {
									return nil, err
								}
								if strings.ContainsAny(ts, ":TZ") {
									t, err := time.Parse(time.RFC3339Nano, ts)
									if err != nil {
										return nil, err
									}
									e.Ts = t.UnixNano()
								} else {
									n, err := strconv.ParseInt(ts, 10, 64)
									if err != nil {
										return nil, err
									}
									e.Ts = n
								}
							}
						}
						if raw, ok := o["line"]; ok {
							var l string
							if err := json.Unmarshal(raw, &l); err != nil {
								return nil, err
							}
							e.Line = &l
						}
						if raw, ok := o["value"]; ok {
							var f float64
							if err := json.Unmarshal(raw, &f); err != nil {
								return nil, err
							}
							e.Val = &f
						}
						s.Entries = append(s.Entries, e)
					}
				}
			}
			d.Loki = append(d.Loki, s)
		}
	case "lokiproto":
		req := &logproto.PushRequest{}
		if err := proto.Unmarshal(body, req); err != nil {
			return nil, err
		}
		for _, st := range req.Streams {
			ls, err := parseLokiLabelText(st.Labels)
			if err != nil {
				return nil, err
			}
			s := rProtoStream{Labels: ls}
			for _, e := range st.Entries {
				s.Entries = append(s.Entries, rProtoEntry{e.GetTimestamp().GetSeconds(), e.GetTimestamp().GetNanos(), e.Line})
			}
			d.Proto2 = append(d.Proto2, s)
		}
	case "prom":
		req := &prompb.WriteRequest{}
		if err := proto.Unmarshal(body, req); err != nil {
			return nil, err
		}
		for _, ts := range req.Timeseries {
			var s rPromSeries
			for _, l := range ts.Labels {
				s.Labels = append(s.Labels, c03Label{l.Name, l.Value})
			}
			for _, e := range ts.Samples {
				s.Samples = append(s.Samples, rPromSample{e.Timestamp, e.Value})
			}
			d.Prom = append(d.Prom, s)
		}
	case "influx":
		for _, line := range strings.Split(string(body), "\n") {
			if strings.TrimSpace(line) == "" {
				continue
			}
			p, err := parseInfluxLine(line)
			if err != nil {
				return nil, err
			}
			d.Influx = append(d.Influx, p)
		}
	case "ddlogs":
		var es []struct {
			DDSource   string `json:"ddsource"`
			DDTags     string `json:"ddtags"`
			Hostname   string `json:"hostname"`
			Message    string `json:"message"`
			Service    string `json:"service"`
			Timestamp  int64  `json:"timestamp"`
			SourceType string `json:"source_type"`
		}
		if err := json.Unmarshal(body, &es); err != nil {
			return nil, err
		}
		for _, e := range es {
			d.DDLogs = append(d.DDLogs, rDDLog{e.DDTags, e.DDSource, e.Service, e.Hostname, e.SourceType, e.Message, e.Timestamp})
		}
	case "ddseries":
		var top struct {
			Series []json.RawMessage `json:"series"`
		}
		if err := json.Unmarshal(body, &top); err != nil {
			return nil, err
		}
		for _, raw := range top.Series {
			var s struct {
				Metric    *string           `json:"metric"`
				Resources []json.RawMessage `json:"resources"`
				Points    []struct {
					Timestamp int64   `json:"timestamp"`
					Value     float64 `json:"value"`
				} `json:"points"`
			}
			if err := json.Unmarshal(raw, &s); err != nil {
				return nil, err
			}
			r := rDDSeries{Metric: s.Metric}
			for _, rr := range s.Resources {
				ks, vs, err := orderedObject(rr)
				if err != nil {
					return nil, err
				}
				var kv []c03Label
				for i := range ks {
					var v string
					json.Unmarshal(vs[i], &v)
					kv = append(kv, c03Label{ks[i], v})
				}
				r.Resources = append(r.Resources, kv)
			}
			for _, p := range s.Points {
				r.Points = append(r.Points, rDDPoint{p.Timestamp, p.Value})
			}
			d.DDSeries = append(d.DDSeries, r)
		}
	case "otlp":
		data := &otlpLogs.LogsData{}
		if err := proto.Unmarshal(body, data); err != nil {
			return nil, err
		}
		for _, rl := range data.ResourceLogs {
			r := rOtlpRes{HasRes: rl.Resource != nil, Attrs: rl.GetResource().GetAttributes()}
			for _, sl := range rl.ScopeLogs {
				s := rOtlpScope{HasScope: sl.Scope != nil, Attrs: sl.GetScope().GetAttributes()}
				for _, rec := range sl.LogRecords {
					s.Recs = append(s.Recs, rOtlpRec{rec.Attributes, rec.SeverityText, rec.Body, rec.TimeUnixNano})
				}
				r.Scopes = append(r.Scopes, s)
			}
			d.Otlp = append(d.Otlp, r)
		}
	default:
		return nil, fmt.Errorf("unknown protocol %q", protoName)
	}
	return d, nil
}

// parseInfluxLine: a small reader for the subset of the line protocol the generator writes
// (backslash escapes in names/keys/tag values, quoted string fields, i/u suffixes, booleans, nanosecond timestamp).
func parseInfluxLine(line string) (rInfluxPoint, error) {
	var p rInfluxPoint
	// split into measurement+tags, fields, timestamp on unescaped, unquoted spaces
	var parts []string
	cur := strings.Builder{}
	inq := false
	for i := 0; i < len(line); i++ {
		c := line[i]
		if c == '\\' && i+1 < len(line) {
			cur.WriteByte(c)
			cur.WriteByte(line[i+1])
			i++
			continue
		}
		if c == '"' && len(parts) == 1 {
			inq = !inq
		}
		if c == ' ' && !inq {
			parts = append(parts, cur.String())
			cur.Reset()
			continue
		}
		cur.WriteByte(c)
	}
	parts = append(parts, cur.String())
	if len(parts) != 3 {
		return p, fmt.Errorf("influx line: %d parts: %q", len(parts), line)
	}
	splitUnesc := func(s string, sep byte, quoted bool) []string {
		var out []string
		cur := strings.Builder{}
		inq := false
		for i := 0; i < len(s); i++ {
			c := s[i]
			if c == '\\' && i+1 < len(s) {
				cur.WriteByte(c)
				cur.WriteByte(s[i+1])
				i++
				continue
			}
			if quoted && c == '"' {
				inq = !inq
			}
			if c == sep && !inq {
				out = append(out, cur.String())
				cur.Reset()
				continue
			}
			cur.WriteByte(c)
		}
		return append(out, cur.String())
	}
	unesc := func(s string) string {
		return strings.NewReplacer(`\,`, `,`, `\ `, ` `, `\=`, `=`).Replace(s)
	}
	mt := splitUnesc(parts[0], ',', false)
	p.Name = unesc(mt[0])
	for _, t := range mt[1:] {
		kv := splitUnesc(t, '=', false)
		if len(kv) != 2 {
			return p, fmt.Errorf("influx tag %q", t)
		}
		p.Tags = append(p.Tags, c03Label{unesc(kv[0]), unesc(kv[1])})
	}
	// the parser returns tags sorted by key; the order is irrelevant for the label *set*
	for _, f := range splitUnesc(parts[1], ',', true) {
		i := -1
		for j := 0; j < len(f); j++ {
			if f[j] == '\\' {
				j++
				continue
			}
			if f[j] == '=' {
				i = j
				break
			}
		}
		if i < 0 {
			return p, fmt.Errorf("influx field %q", f)
		}
		k, v := unesc(f[:i]), f[i+1:]
		fld := rInfluxField{K: k}
		switch {
		case strings.HasPrefix(v, `"`):
			fld.Kind = 's'
			fld.S = strings.NewReplacer(`\"`, `"`, `\\`, `\`).Replace(v[1 : len(v)-1])
		case v == "true" || v == "false":
			fld.Kind = 'b'
			fld.B = v == "true"
		case strings.HasSuffix(v, "i"):
			fld.Kind = 'i'
			n, err := strconv.ParseInt(v[:len(v)-1], 10, 64)
			if err != nil {
				return p, err
			}
			fld.I = n
		case strings.HasSuffix(v, "u"):
			fld.Kind = 'u'
			n, err := strconv.ParseUint(v[:len(v)-1], 10, 64)
			if err != nil {
				return p, err
			}
			fld.U = n
		default:
			fld.Kind = 'f'
			n, err := strconv.ParseFloat(v, 64)
			if err != nil {
				return p, err
			}
			fld.F = n
		}
		p.Fields = append(p.Fields, fld)
	}
	ts, err := strconv.ParseInt(parts[2], 10, 64)
	if err != nil {
		return p, err
	}
	p.Ts = ts
	return p, nil
}

// ---- the model line (decoded document as a nested list; hex atoms, `-` = empty, `~` = absent) ---------------

func tl(items ...string) string { return "(" + strings.Join(items, ",") + ")" }
func th(s string) string        { return h.Hex([]byte(s)) }
func ti(n int64) string         { return strconv.FormatInt(n, 10) }
func tu(n uint64) string        { return strconv.FormatUint(n, 10) }

func tlabels(ls []c03Label) string {
	parts := make([]string, len(ls))
	for i, l := range ls {
		parts[i] = tl(th(l.K), th(l.V))
	}
	return tl(parts...)
}

func (d *c03Doc) tree() string {
	var items []string
	switch d.Proto {
	case "loki":
		for _, s := range d.Loki {
			var es []string
			for _, e := range s.Entries {
				line, val := "~", "~"
				if e.Line != nil {
					line = th(*e.Line)
				}
				if e.Val != nil {
					val = tu(mathBits(*e.Val))
				}
				es = append(es, tl(ti(e.Ts), line, val))
			}
			items = append(items, tl(tlabels(s.Labels), tl(es...)))
		}
	case "lokiproto":
		for _, s := range d.Proto2 {
			var es []string
			for _, e := range s.Entries {
				es = append(es, tl(ti(e.Sec), ti(int64(e.Nanos)), th(e.Line)))
			}
			items = append(items, tl(tlabels(s.Labels), tl(es...)))
		}
	case "prom":
		for _, s := range d.Prom {
			var es []string
			for _, e := range s.Samples {
				es = append(es, tl(ti(e.TsMs), tu(mathBits(e.Val))))
			}
			items = append(items, tl(tlabels(s.Labels), tl(es...)))
		}
	case "influx":
		for _, p := range d.Influx {
			if p.isLog() {
				items = append(items, tl(th(p.Name), tlabels(p.Tags), ti(p.Ts), "L", th(c03InfluxLine(p.Fields))))
				continue
			}
			var fs []string
			for _, f := range p.Fields {
				v := "~"
				if x, ok := f.numeric(); ok {
					v = tu(mathBits(x))
				}
				fs = append(fs, tl(th(f.K), v))
			}
			items = append(items, tl(th(p.Name), tlabels(p.Tags), ti(p.Ts), "M", tl(fs...)))
		}
	case "ddlogs":
		for _, e := range d.DDLogs {
			var tags []c03Label
			for _, m := range c03TagRe.FindAllStringSubmatch(e.DDTags, -1) {
				tags = append(tags, c03Label{m[1], m[2]})
			}
			items = append(items, tl(tlabels(tags), th(e.Source), th(e.Service), th(e.Hostname), th(e.SourceType), th(e.Message), ti(e.TsMs)))
		}
	case "ddseries":
		for _, s := range d.DDSeries {
			metric := "~"
			if s.Metric != nil {
				metric = th(*s.Metric)
			}
			var rs, ps []string
			for _, r := range s.Resources {
				rs = append(rs, tlabels(r))
			}
			for _, p := range s.Points {
				ps = append(ps, tl(ti(p.Ts), tu(mathBits(p.Val))))
			}
			items = append(items, tl(metric, tl(rs...), tl(ps...)))
		}
	case "otlp":
		for _, r := range d.Otlp {
			var ss []string
			for _, s := range r.Scopes {
				var recs []string
				for _, rec := range s.Recs {
					recs = append(recs, tl(tlabels(c03OtlpAttrs(rec.Attrs)), th(rec.Sev), th(c03wRenderAny(rec.Body)), tu(rec.Ts)))
				}
				ss = append(ss, tl(tlabels(c03OtlpAttrs(s.Attrs)), tl(recs...)))
			}
			items = append(items, tl(tlabels(c03OtlpAttrs(r.Attrs)), tl(ss...)))
		}
	}
	return tl(items...)
}

// c03Table: the values of the model's abstract functions (fingerprint, length of the label document) on the
// label sets of this document, keyed by the sorted label set.
func c03Table(exp []c03ExpStream) string {
	seen := map[string]bool{}
	var items []string
	for _, s := range exp {
		sl := c03SortLabels(s.Labels)
		key := tlabels(sl)
		if seen[key] {
			continue
		}
		seen[key] = true
		items = append(items, tl(key, tu(c03RealFingerprint(sl)), strconv.Itoa(c03EncLen(sl))))
	}
	sort.Strings(items)
	return tl(items...)
}
