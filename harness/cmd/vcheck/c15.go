package main

// C15 — query responses are always one well-formed document of the documented shape.
//
// Streams (all run the real qryn code in-process):
//   enc      QueryRangeService.QueryRange / QueryInstant / Tail fed with arbitrary batches of shared.LogEntry through a
//            LogQL planner plugin (fakes.RegisterBatchCase): chunks vs Encode.streamsChunks/matrixChunks/vectorChunks/
//            tailFrame, decoded document vs the model's expected document, and the Go oracle.
//   sql      the same service over a scripted database/sql driver and the real planner chain ({a="b"} log query; batches of
//            100 rows arise in ClickhouseGetterPlanner.Scan): A29 witness; matrix/vector queries end to end (oracle only).
//   labels   QueryLabelsService.Labels/Values (GenericLabelReq) and Series over scripted rows.
//   tempo    TempoController.Tags/Values (model) and TagsV2/ValuesV2/Search/SearchTraceQL/Trace (oracle only) with a scripted
//            ITempoService through httptest.
//   prom     PromQueryRangeController.QueryInstant/QueryRange on constant expressions: scalar writer (model), vector and
//            matrix writers (oracle only).
//   str      jsoniter Stream.WriteString and encoding/json.Marshal vs Json.escJ / Json.escStd; the model parser reads the
//            implementation's text back.
//   parser   Json.parseDoc vs encoding/json.Valid and the byte-exact Go reader on generated and mutated texts.
//   sizes    (c15_sizes.go) every encoder on result sets of the size classes around the batching constants of the source
//            (Gen.C15Batch) and, in the search and thorough tiers, of every size 0..450.

import (
	"bytes"
	"context"
	"database/sql/driver"
	"encoding/json"
	"fmt"
	"io"
	"math"
	"math/big"
	"net/http"
	"net/http/httptest"
	"net/url"
	"os"
	"strconv"
	"strings"
	"sync"
	"time"
	"unicode/utf8"

	"github.com/gorilla/mux"
	jsoniter "github.com/json-iterator/go"
	controllerv1 "github.com/metrico/qryn/reader/controller"
	apirouterv1 "github.com/metrico/qryn/reader/router"
	"github.com/metrico/qryn/reader/logql/logql_transpiler_v2/shared"
	"github.com/metrico/qryn/reader/model"
	"github.com/metrico/qryn/reader/service"
	"github.com/metrico/qryn/reader/utils/logger"
	"github.com/prometheus/prometheus/promql"
	api_v1 "github.com/prometheus/prometheus/web/api/v1"
	commonv1 "go.opentelemetry.io/proto/otlp/common/v1"
	tracev1 "go.opentelemetry.io/proto/otlp/trace/v1"

	"verif/harness/fakes"
	"verif/harness/h"
)

func init() { props["C15"] = c15 }

// ---------------------------------------------------------------------------------------------------------------
// entries and their protocol encoding

type c15KV struct{ K, V []byte }

type c15Entry struct {
	Kind   byte // 'n' row, 'e' io.EOF marker, 'f' failure
	Fp     uint64
	Labels []c15KV // distinct keys; order = order given to the model
	Ts     int64
	Msg    []byte
	Val    float64
}

func fmtVal(v float64) string { return strconv.FormatFloat(v, 'f', -1, 64) }

func (e *c15Entry) word() string {
	lb := "-"
	if len(e.Labels) > 0 {
		ps := make([]string, len(e.Labels))
		for i, kv := range e.Labels {
			ps[i] = h.Hex(kv.K) + "=" + h.Hex(kv.V)
		}
		lb = strings.Join(ps, ";")
	}
	return fmt.Sprintf("%c:%d:%d:%s:%s:%s", e.Kind, e.Fp, e.Ts, h.Hex(e.Msg), h.Hex([]byte(fmtVal(e.Val))), lb)
}

func c15Words(batches [][]c15Entry) string {
	var ws []string
	for i, b := range batches {
		if i > 0 {
			ws = append(ws, "B")
		}
		for k := range b {
			ws = append(ws, b[k].word())
		}
	}
	return strings.Join(ws, " ")
}

var errC15 = fmt.Errorf("scripted failure")

func (e *c15Entry) logEntry() shared.LogEntry {
	le := shared.LogEntry{TimestampNS: e.Ts, Fingerprint: e.Fp, Message: string(e.Msg), Value: e.Val}
	switch e.Kind {
	case 'e':
		le.Err = io.EOF
	case 'f':
		le.Err = errC15
	}
	if e.Kind == 'n' {
		le.Labels = map[string]string{}
		for _, kv := range e.Labels {
			le.Labels[string(kv.K)] = string(kv.V)
		}
	}
	return le
}

// rows the encoder is supposed to render: streams/tail skip markers; matrix/vector stop a batch at a marker
func c15Rows(kind string, batches [][]c15Entry) (rows []*c15Entry, failed bool) {
	for bi := range batches {
		for k := range batches[bi] {
			e := &batches[bi][k]
			if e.Kind == 'e' {
				if kind == "matrix" || kind == "vector" {
					break
				}
				continue
			}
			if e.Kind == 'f' {
				return rows, true
			}
			rows = append(rows, e)
		}
	}
	return rows, false
}

func c15Groups(rows []*c15Entry) [][]*c15Entry {
	var gs [][]*c15Entry
	for _, e := range rows {
		if n := len(gs); n > 0 && gs[n-1][0].Fp == e.Fp {
			gs[n-1] = append(gs[n-1], e)
		} else {
			gs = append(gs, []*c15Entry{e})
		}
	}
	return gs
}

// ---------------------------------------------------------------------------------------------------------------
// generators

var c15Floats = []float64{0, 1, -1, 2, 10, 100, 1e6, 123456789, 0.5, 0.1, 1.5, 1e-9, 1e-7, 5e-324, 1e21, 1e22, 9007199254740993,
	9.223372036854775807e18, 1.7976931348623157e308, math.NaN(), math.Inf(1), math.Inf(-1), math.Copysign(0, -1), 3.141592653589793, 1e-300, 100.10}

func c15Float(rng *h.Rng) float64 {
	switch rng.Intn(4) {
	case 0:
		return h.Pick(rng, c15Floats)
	case 1:
		return float64(rng.Range(-1000, 100000))
	case 2:
		return float64(rng.Range(-100000, 100000)) / float64([]int{2, 4, 8, 10, 100, 1000}[rng.Intn(6)])
	default:
		return math.Float64frombits(rng.U64())
	}
}

var c15Hot = [][]byte{[]byte("\""), []byte("\\"), {0}, {1}, {0x1f}, {0x7f}, {0x80}, {0xff}, {0xc3, 0xa9}, {0xe2, 0x80, 0xa8}, {0xe2, 0x80, 0xa9},
	{0xed, 0xa0, 0x80}, {0xf0, 0x9f, 0x98, 0x80}, {0xc0, 0xaf}, {0xe2, 0x80}, []byte("\n"), []byte("\t"), []byte("\r"), []byte("\b"), []byte("\f"),
	[]byte("<"), []byte(">"), []byte("&"), []byte("/"), []byte("\\u0041"), []byte("\\x01"), []byte("{"), []byte("}"), []byte("["), []byte("]"),
	[]byte(","), []byte(":"), []byte(" "), []byte("a"), []byte("é"), {0xf4, 0x90, 0x80, 0x80}, {0xef, 0xbf, 0xbd}}

// strings over all bytes: JSON metacharacters, control bytes, invalid and boundary UTF-8 over-represented
func c15Bytes(rng *h.Rng, maxParts int) []byte {
	n := rng.Intn(maxParts + 1)
	var b []byte
	for i := 0; i < n; i++ {
		switch rng.Intn(5) {
		case 0:
			b = append(b, byte(rng.Intn(256)))
		case 1, 2:
			b = append(b, h.Pick(rng, c15Hot)...)
		default:
			b = append(b, byte('a'+rng.Intn(26)))
		}
	}
	return b
}

func c15Labels(rng *h.Rng) []c15KV {
	n := rng.Intn(4)
	var ls []c15KV
	seen := map[string]bool{}
	for i := 0; i < n; i++ {
		var k []byte
		if rng.Chance(60) {
			k = []byte(rng.Ident(5))
		} else {
			k = c15Bytes(rng, 4)
		}
		if seen[string(k)] {
			continue
		}
		seen[string(k)] = true
		ls = append(ls, c15KV{k, c15Bytes(rng, 6)})
	}
	return ls
}

type c15Set struct {
	Rows   []c15Entry // in delivery order
	Contig bool
}

func c15Ts(rng *h.Rng, kind string) int64 {
	switch kind {
	case "matrix":
		// millisecond-aligned, as FixPeriodPlanner produces (from = whole seconds, step = milliseconds)
		switch rng.Intn(4) {
		case 0:
			return int64(rng.Intn(3)) * 1000000
		case 1:
			return (1700000000000 + int64(rng.Intn(100000))) * 1000000
		default:
			return int64(rng.U64()%4000000000000) * 1000000
		}
	default:
		switch rng.Intn(6) {
		case 0:
			return int64(rng.Intn(3))
		case 1:
			return -int64(rng.Intn(2000000000))
		case 2:
			return math.MaxInt64 - int64(rng.Intn(2))
		case 3:
			return math.MinInt64 + int64(rng.Intn(2))
		default:
			return 1700000000000000000 + int64(rng.U64()%100000000000)
		}
	}
}

// <= 8 series x <= 12 rows; first fingerprint 0 in a third of the sets; series contiguous unless told otherwise
func c15GenSet(rng *h.Rng, kind string) c15Set {
	ns := rng.Intn(9)
	var set c15Set
	set.Contig = true
	used := map[uint64]bool{}
	var series [][]c15Entry
	for s := 0; s < ns; s++ {
		var fp uint64
		switch {
		case s == 0 && rng.Chance(34):
			fp = 0
		case rng.Chance(30):
			fp = uint64(rng.Intn(4))
		case rng.Chance(10):
			fp = math.MaxUint64 - uint64(rng.Intn(2))
		default:
			fp = rng.U64()
		}
		if used[fp] {
			continue
		}
		used[fp] = true
		lbls := c15Labels(rng)
		nr := 1 + rng.Intn(12)
		var rows []c15Entry
		for i := 0; i < nr; i++ {
			rows = append(rows, c15Entry{Kind: 'n', Fp: fp, Labels: lbls, Ts: c15Ts(rng, kind), Msg: c15Bytes(rng, 8), Val: c15Float(rng)})
		}
		series = append(series, rows)
	}
	for _, s := range series {
		set.Rows = append(set.Rows, s...)
	}
	if len(series) >= 2 && rng.Chance(8) {
		// not what ORDER BY delivers: one series split around another
		a := series[0]
		if len(a) >= 2 {
			set.Contig = false
			set.Rows = nil
			set.Rows = append(set.Rows, a[:1]...)
			set.Rows = append(set.Rows, series[1]...)
			set.Rows = append(set.Rows, a[1:]...)
			for _, s := range series[2:] {
				set.Rows = append(set.Rows, s...)
			}
		}
	}
	return set
}

// three batchings of one result set
func c15Batchings(rng *h.Rng, set c15Set, kind string, withFail bool) [][][]c15Entry {
	eof := c15Entry{Kind: 'e'}
	rows := set.Rows
	var out [][][]c15Entry
	// (a) what the ClickHouse getter delivers for < 100 rows: one batch, EOF marker last
	a := append(append([]c15Entry{}, rows...), eof)
	out = append(out, [][]c15Entry{a})
	// (b) random cuts (inside series too), empty batches, the marker alone in the last batch or absent
	var b [][]c15Entry
	cur := []c15Entry{}
	for _, e := range rows {
		if rng.Chance(25) {
			b = append(b, cur)
			cur = []c15Entry{}
			if rng.Chance(20) {
				b = append(b, []c15Entry{})
			}
		}
		cur = append(cur, e)
	}
	b = append(b, cur)
	if rng.Bool() {
		b = append(b, []c15Entry{eof})
	}
	if rng.Chance(30) {
		b = append([][]c15Entry{{}}, b...)
	}
	out = append(out, b)
	// (c) one entry per batch; markers at batch ends in the middle of the stream; sometimes a marker followed by rows
	var c [][]c15Entry
	for _, e := range rows {
		bt := []c15Entry{e}
		if rng.Chance(15) {
			bt = append(bt, eof)
			if rng.Chance(25) {
				bt = append(bt, c15Entry{Kind: 'n', Fp: e.Fp, Labels: e.Labels, Ts: c15Ts(rng, kind), Msg: []byte("after-marker"), Val: 1})
			}
		}
		c = append(c, bt)
		if rng.Chance(15) {
			c = append(c, []c15Entry{})
		}
	}
	if len(c) == 0 {
		c = [][]c15Entry{{}}
	}
	out = append(out, c)
	if withFail {
		// an error entry somewhere in batching (b)
		bi := rng.Intn(len(out[1]))
		pos := rng.Intn(len(out[1][bi]) + 1)
		nb := append([]c15Entry{}, out[1][bi][:pos]...)
		nb = append(nb, c15Entry{Kind: 'f'})
		nb = append(nb, out[1][bi][pos:]...)
		out[1][bi] = nb
	}
	return out
}

// ---------------------------------------------------------------------------------------------------------------
// running the real service

type c15Env struct {
	reg  *fakes.RowScriptRegistry
	qr   *service.QueryRangeService
	lbl  *service.QueryLabelsService
	mtx  sync.Mutex
	rows [][]driver.Value // answer of the next data query
	cols []string
}

func newC15Env() *c15Env {
	env := &c15Env{reg: fakes.NewRowScriptRegistry("")}
	env.reg.Script.SetResponder(func(q string) ([]string, [][]driver.Value, error) {
		if c, r, ok := fakes.AnswerVersionQueries(q); ok {
			return c, r, nil
		}
		env.mtx.Lock()
		defer env.mtx.Unlock()
		return env.cols, env.rows, nil
	})
	env.qr = service.NewQueryRangeService(&model.ServiceData{Session: env.reg})
	env.lbl = service.NewQueryLabelsService(&model.ServiceData{Session: env.reg})
	return env
}

func (env *c15Env) setRows(cols []string, rows [][]driver.Value) {
	env.mtx.Lock()
	env.cols, env.rows = cols, rows
	env.mtx.Unlock()
}

func c15Collect(ch chan model.QueryRangeOutput) []string {
	var chunks []string
	done := make(chan struct{})
	go func() {
		for c := range ch {
			chunks = append(chunks, c.Str)
		}
		close(done)
	}()
	select {
	case <-done:
	case <-time.After(20 * time.Second):
		return append(chunks, "<<hang>>")
	}
	return chunks
}

func (env *c15Env) runBatches(kind string, batches [][]c15Entry) ([]string, error) {
	bc := &fakes.BatchCase{Matrix: kind != "streams" && kind != "tail"}
	for _, b := range batches {
		lb := make([]shared.LogEntry, len(b))
		for i := range b {
			lb[i] = b[i].logEntry()
		}
		bc.Batches = append(bc.Batches, lb)
	}
	q, release := fakes.RegisterBatchCase(bc)
	defer release()
	ctx := context.Background()
	switch kind {
	case "streams", "matrix":
		ch, err := env.qr.QueryRange(ctx, q, 0, 10e9, 1000, 100, true)
		if err != nil {
			return nil, err
		}
		return c15Collect(ch), nil
	case "vector":
		ch, err := env.qr.QueryInstant(ctx, q, 10e9, 1000, 100)
		if err != nil {
			return nil, err
		}
		return c15Collect(ch), nil
	case "tail":
		w, err := env.qr.Tail(ctx, q)
		if err != nil {
			return nil, err
		}
		var frame string
		select {
		case m, ok := <-w.GetRes():
			if ok {
				frame = m.Str
			}
		case <-time.After(10 * time.Second):
			frame = "<<hang>>"
		}
		w.Close()
		go func() {
			for range w.GetRes() {
			}
		}()
		return []string{frame}, nil
	}
	return nil, fmt.Errorf("unknown kind %s", kind)
}

func c15HexChunks(cs []string) string {
	ps := make([]string, len(cs))
	for i, c := range cs {
		ps[i] = h.Hex([]byte(c))
	}
	return strings.Join(ps, ",")
}

// ---------------------------------------------------------------------------------------------------------------
// oracle helpers

func c15LabelsMatch(obj *jv, want []c15KV) bool {
	if obj == nil || obj.kind != '{' || len(obj.keys) != len(want) {
		return false
	}
	m := map[string]string{}
	for i, k := range obj.keys {
		if obj.vals[i].kind != '$' {
			return false
		}
		if _, dup := m[string(k)]; dup {
			return false
		}
		m[string(k)] = string(obj.vals[i].s)
	}
	for _, kv := range want {
		if v, ok := m[string(kv.K)]; !ok || v != string(kv.V) {
			return false
		}
	}
	return true
}

func c15KeysAre(v *jv, keys ...string) bool {
	if v == nil || v.kind != '{' || len(v.keys) != len(keys) {
		return false
	}
	for i, k := range keys {
		if string(v.keys[i]) != k {
			return false
		}
	}
	return true
}

// value string <-> float64
func c15ValMatches(s []byte, v float64) bool {
	switch {
	case math.IsNaN(v):
		return string(s) == "NaN"
	case math.IsInf(v, 1):
		return string(s) == "+Inf"
	case math.IsInf(v, -1):
		return string(s) == "-Inf"
	}
	p, err := strconv.ParseFloat(string(s), 64)
	return err == nil && math.Float64bits(p) == math.Float64bits(v)
}

// decimal token == num/den exactly
func c15NumIs(tok []byte, num, den int64) bool {
	r, ok := new(big.Rat).SetString(string(tok))
	if !ok {
		return false
	}
	return r.Cmp(big.NewRat(num, den)) == 0
}

type c15Verdict struct {
	key  string // "" = fine
	what string
}

func c15Bad(kind, class, format string, a ...any) c15Verdict {
	return c15Verdict{"C15/" + kind + "/" + class, fmt.Sprintf(format, a...)}
}

// judges the concatenated response of streams/matrix/tail against the rows
func c15JudgeSeries(kind string, body []byte, rows []*c15Entry) (c15Verdict, *jv) {
	if !json.Valid(body) {
		return c15Bad(kind, "not-json", "response is not valid JSON (encoding/json): %.300q", body), nil
	}
	doc, ok := jdoc(body)
	if !ok {
		return c15Bad(kind, "not-json", "response rejected by the byte-exact reader: %.300q", body), nil
	}
	var result *jv
	if kind == "tail" {
		if !c15KeysAre(doc, "streams") {
			return c15Bad(kind, "shape", "top-level keys"), doc
		}
		result = doc.get("streams")
	} else {
		if !c15KeysAre(doc, "status", "data") || string(doc.get("status").s) != "success" || !c15KeysAre(doc.get("data"), "resultType", "result") ||
			string(doc.get("data").get("resultType").s) != kind {
			return c15Bad(kind, "shape", "envelope is not {status:success,data:{resultType:%s,result:[…]}}", kind), doc
		}
		result = doc.get("data").get("result")
	}
	if result == nil || result.kind != '[' {
		return c15Bad(kind, "shape", "result is not an array"), doc
	}
	groups := c15Groups(rows)
	if len(result.arr) != len(groups) {
		return c15Bad(kind, "series-objects", "%d series objects for %d series runs", len(result.arr), len(groups)), doc
	}
	lk := "stream"
	if kind == "matrix" {
		lk = "metric"
	}
	for i, g := range groups {
		o := result.arr[i]
		if !c15KeysAre(o, lk, "values") {
			return c15Bad(kind, "shape", "series object %d keys", i), doc
		}
		if !c15LabelsMatch(o.get(lk), g[0].Labels) {
			return c15Bad(kind, "labels", "labels of series object %d differ from the row's labels", i), doc
		}
		vs := o.get("values")
		if vs.kind != '[' || len(vs.arr) != len(g) {
			return c15Bad(kind, "rows", "series object %d has %d values for %d rows", i, len(vs.arr), len(g)), doc
		}
		for k, e := range g {
			p := vs.arr[k]
			if p.kind != '[' || len(p.arr) != 2 {
				return c15Bad(kind, "shape", "value %d/%d is not a pair", i, k), doc
			}
			if kind == "matrix" {
				if p.arr[0].kind != '#' || !c15NumIs(p.arr[0].s, e.Ts, 1000000000) {
					return c15Bad(kind, "timestamp", "time %s rendered as %s", big.NewRat(e.Ts, 1000000000).FloatString(9), p.arr[0].s), doc
				}
				if p.arr[1].kind != '$' || !c15ValMatches(p.arr[1].s, e.Val) {
					return c15Bad(kind, "value", "value %v rendered as %q", e.Val, p.arr[1].s), doc
				}
			} else {
				if p.arr[0].kind != '$' || string(p.arr[0].s) != strconv.FormatInt(e.Ts, 10) {
					return c15Bad(kind, "timestamp", "timestamp %d rendered as %q", e.Ts, p.arr[0].s), doc
				}
				if p.arr[1].kind != '$' || !bytes.Equal(p.arr[1].s, e.Msg) {
					return c15Bad(kind, "line", "line %q decoded as %q", e.Msg, p.arr[1].s), doc
				}
			}
		}
	}
	// second opinion on the lines with encoding/json (invalid UTF-8 arrives as U+FFFD there)
	if kind == "streams" {
		var d struct {
			Data struct {
				Result []struct {
					Values [][]string `json:"values"`
				} `json:"result"`
			} `json:"data"`
		}
		if err := json.Unmarshal(body, &d); err != nil {
			return c15Bad(kind, "not-json", "encoding/json: %v", err), doc
		}
		for i, g := range groups {
			for k, e := range g {
				if d.Data.Result[i].Values[k][1] != string(goSanitize(e.Msg)) {
					return c15Bad(kind, "line", "encoding/json decodes line %q as %q", e.Msg, d.Data.Result[i].Values[k][1]), doc
				}
			}
		}
	}
	return c15Verdict{}, doc
}

// expected vector content, computed independently: per fingerprint the first row with the greatest timestamp
func c15Latest(rows []*c15Entry) (order []uint64, m map[uint64]*c15Entry) {
	m = map[uint64]*c15Entry{}
	for _, e := range rows {
		old, ok := m[e.Fp]
		if !ok {
			order = append(order, e.Fp)
			m[e.Fp] = e
		} else if old.Ts < e.Ts {
			m[e.Fp] = e
		}
	}
	return
}

// judges a vector response; returns the order in which the fingerprints were visited
func c15JudgeVector(body []byte, rows []*c15Entry) (c15Verdict, *jv, []uint64) {
	kind := "vector"
	if !json.Valid(body) {
		return c15Bad(kind, "not-json", "response is not valid JSON: %.300q", body), nil, nil
	}
	doc, ok := jdoc(body)
	if !ok {
		return c15Bad(kind, "not-json", "response rejected by the byte-exact reader"), nil, nil
	}
	if !c15KeysAre(doc, "status", "data") || !c15KeysAre(doc.get("data"), "resultType", "result") || string(doc.get("data").get("resultType").s) != kind {
		return c15Bad(kind, "shape", "envelope"), doc, nil
	}
	result := doc.get("data").get("result")
	fps, m := c15Latest(rows)
	if result.kind != '[' || len(result.arr) != len(fps) {
		return c15Bad(kind, "series-objects", "%d objects for %d series", len(result.arr), len(fps)), doc, nil
	}
	usedFp := map[uint64]bool{}
	var visit []uint64
	for i, o := range result.arr {
		if !c15KeysAre(o, "metric", "value") || o.get("value").kind != '[' || len(o.get("value").arr) != 2 {
			return c15Bad(kind, "shape", "object %d", i), doc, nil
		}
		found := false
		for _, fp := range fps {
			e := m[fp]
			if usedFp[fp] || !c15LabelsMatch(o.get("metric"), e.Labels) {
				continue
			}
			p := o.get("value").arr
			if p[0].kind == '#' && string(p[0].s) == strconv.FormatInt(e.Ts/1000000000, 10) && p[1].kind == '$' && c15ValMatches(p[1].s, e.Val) {
				usedFp[fp] = true
				visit = append(visit, fp)
				found = true
				break
			}
		}
		if !found {
			return c15Bad(kind, "rows", "object %d is not the latest row of any series", i), doc, nil
		}
	}
	return c15Verdict{}, doc, visit
}

// label order used by the k-th series object, copied onto the rows of the k-th run (the model takes map order as input)
func c15ApplyLabelOrder(kind string, doc *jv, batches [][]c15Entry) [][]c15Entry {
	if doc == nil {
		return batches
	}
	var result *jv
	if kind == "tail" {
		result = doc.get("streams")
	} else if d := doc.get("data"); d != nil {
		result = d.get("result")
	}
	if result == nil || result.kind != '[' {
		return batches
	}
	out := make([][]c15Entry, len(batches))
	for i := range batches {
		out[i] = append([]c15Entry{}, batches[i]...)
	}
	rows, _ := c15Rows(kind, out)
	lk := "stream"
	if kind == "matrix" || kind == "vector" {
		lk = "metric"
	}
	reorder := func(e *c15Entry, obj *jv) {
		if obj == nil || obj.kind != '{' || len(obj.keys) != len(e.Labels) {
			return
		}
		var nl []c15KV
		for _, k := range obj.keys {
			for _, kv := range e.Labels {
				if bytes.Equal(kv.K, k) {
					nl = append(nl, kv)
				}
			}
		}
		if len(nl) == len(e.Labels) {
			e.Labels = nl
		}
	}
	if kind == "vector" {
		return out // handled by the caller (objects are matched to fingerprints first)
	}
	groups := c15Groups(rows)
	if len(groups) != len(result.arr) {
		return out
	}
	for i, g := range groups {
		for _, e := range g {
			reorder(e, result.arr[i].get(lk))
		}
	}
	return out
}

// ---------------------------------------------------------------------------------------------------------------
// stream enc

type c15Replay struct {
	Stream  string `json:"stream"`
	Kind    string `json:"kind"`
	Batches string `json:"batches,omitempty"` // protocol words
	Body    string `json:"body_hex,omitempty"`
	Note    string `json:"note,omitempty"`
	Rows    any    `json:"rows,omitempty"`
	Cuts    []int  `json:"cuts,omitempty"` // batch sizes of a TraceQL search case
}

type c15Pending struct {
	stream string
	ops    []string
	impl   []string
	cases  []any
}

func (p *c15Pending) add(op, impl string, c any) {
	p.ops = append(p.ops, op)
	p.impl = append(p.impl, impl)
	p.cases = append(p.cases, c)
}

func c15EncCase(r *h.Result, env *c15Env, pend *c15Pending, kind string, batches [][]c15Entry, contig bool) error {
	chunks, err := env.runBatches(kind, batches)
	if err != nil {
		return err
	}
	body := []byte(strings.Join(chunks, ""))
	rows, failed := c15Rows(kind, batches)
	words := c15Words(batches)
	rep := c15Replay{Stream: "enc", Kind: kind, Batches: words, Body: h.Hex(body)}
	nt := len(c15Groups(rows)) >= 2 || (len(rows) > 0 && rows[0].Fp == 0)
	r.Case(kind+":"+words, nt)
	r.Count("enc:" + kind)
	if len(rows) > 0 && rows[0].Fp == 0 {
		r.Count("enc:first-fingerprint-0")
	}
	if len(rows) == 0 {
		r.Count("enc:no-rows")
	}
	if len(batches) > 1 {
		r.Count("enc:multi-batch")
	}
	if failed {
		// error path: the property speaks about result rows; only the model comparison applies
		r.Count("enc:error-entry")
		if kind == "vector" {
			pend.add("c15vector - "+words, c15HexChunks(chunks), rep)
		} else if kind != "tail" {
			pend.add("c15"+kind+" "+words, c15HexChunks(chunks), rep)
		}
		return nil
	}
	if kind == "vector" {
		v, doc, visit := c15JudgeVector(body, rows)
		if v.key != "" {
			r.Violate(v.key, v.what, rep)
		}
		ord := "-"
		ob := batches
		if doc != nil && visit != nil {
			ps := make([]string, len(visit))
			for i, fp := range visit {
				ps[i] = strconv.FormatUint(fp, 10)
			}
			if len(ps) > 0 {
				ord = strings.Join(ps, ",")
			}
			// label order of each object onto the rows of that fingerprint
			ob = make([][]c15Entry, len(batches))
			for i := range batches {
				ob[i] = append([]c15Entry{}, batches[i]...)
			}
			res := doc.get("data").get("result")
			for i, fp := range visit {
				obj := res.arr[i].get("metric")
				for bi := range ob {
					for k := range ob[bi] {
						e := &ob[bi][k]
						if e.Kind == 'n' && e.Fp == fp && len(obj.keys) == len(e.Labels) {
							var nl []c15KV
							for _, key := range obj.keys {
								for _, kv := range e.Labels {
									if bytes.Equal(kv.K, key) {
										nl = append(nl, kv)
									}
								}
							}
							if len(nl) == len(e.Labels) {
								e.Labels = nl
							}
						}
					}
				}
			}
		}
		w2 := c15Words(ob)
		pend.add("c15vector "+ord+" "+w2, c15HexChunks(chunks), rep)
		if doc != nil {
			pend.add("c15vectordoc "+ord+" "+w2, jdump(doc), rep)
		}
		return nil
	}
	v, doc := c15JudgeSeries(kind, body, rows)
	if v.key != "" {
		r.Violate(v.key, v.what, rep)
	}
	_ = contig
	ob := c15ApplyLabelOrder(kind, doc, batches)
	w2 := c15Words(ob)
	if kind == "tail" {
		pend.add("c15tail "+w2, h.Hex(body), rep)
	} else {
		pend.add("c15"+kind+" "+w2, c15HexChunks(chunks), rep)
	}
	if doc != nil {
		pend.add("c15"+kind+"doc "+w2, jdump(doc), rep)
		// the model parser reads the implementation's bytes as the same document
		pend.add("c15doc "+h.Hex(body), jdump(doc), rep)
	}
	return nil
}

func c15Enc(r *h.Result, rng *h.Rng, env *c15Env, nSets int, nTail int) error {
	r.Stream("enc: QueryRangeService.QueryRange/QueryInstant/Tail fed through a LogQL planner plugin with arbitrary batches of shared.LogEntry; chunks vs Encode.*Chunks, decoded document vs expected document; oracle: encoding/json.Valid + byte-exact decode equals the rows grouped per run of equal fingerprint")
	pend := &c15Pending{stream: "enc"}
	for i := 0; i < nSets; i++ {
		for _, kind := range []string{"streams", "matrix", "vector"} {
			set := c15GenSet(rng, kind)
			withFail := rng.Chance(6)
			if withFail {
				// the response of a failed query cannot be parsed to learn the map iteration order: at most one label
				for k := range set.Rows {
					if len(set.Rows[k].Labels) > 1 {
						set.Rows[k].Labels = set.Rows[k].Labels[:1]
					}
				}
			}
			bs := c15Batchings(rng, set, kind, withFail)
			for _, b := range bs {
				if err := c15EncCase(r, env, pend, kind, b, set.Contig); err != nil {
					return err
				}
			}
			if i%67 == 0 && kind == "streams" {
				r.Sample(map[string]any{"stream": "enc", "kind": kind, "batches": c15Words(bs[1])})
			}
		}
	}
	// Tail: one frame per tick of a one-second ticker; run the cases concurrently
	type tailCase struct {
		batches [][]c15Entry
		contig  bool
	}
	var tcs []tailCase
	for i := 0; i < nTail; i++ {
		set := c15GenSet(rng, "tail")
		bs := c15Batchings(rng, set, "tail", false)
		tcs = append(tcs, tailCase{bs[1+i%2], set.Contig})
	}
	var wg sync.WaitGroup
	var pmtx sync.Mutex
	var firstErr error
	sem := make(chan struct{}, 64)
	for i := range tcs {
		wg.Add(1)
		sem <- struct{}{}
		go func(tc tailCase) {
			defer wg.Done()
			defer func() { <-sem }()
			lp := &c15Pending{stream: "enc"}
			lr := h.NewResult("C15", "", 0)
			err := c15EncCase(lr, env, lp, "tail", tc.batches, tc.contig)
			pmtx.Lock()
			defer pmtx.Unlock()
			if err != nil && firstErr == nil {
				firstErr = err
			}
			pend.ops = append(pend.ops, lp.ops...)
			pend.impl = append(pend.impl, lp.impl...)
			pend.cases = append(pend.cases, lp.cases...)
			r.Evaluations += lr.Evaluations
			for k, v := range lr.Nontrivial {
				r.Nontrivial[k] += v
			}
			for k, v := range lr.Distribution {
				r.Distribution[k] += v
			}
			for _, v := range lr.Violations {
				r.Violate(v.Key, v.What, v.Replay)
			}
		}(tcs[i])
	}
	wg.Wait()
	if firstErr != nil {
		return firstErr
	}
	return r.Compare(pend.stream, pend.ops, pend.impl, pend.cases)
}

// ---------------------------------------------------------------------------------------------------------------
// stream sql: the real planner chain over the scripted driver

func c15SQLRows(rows []c15Entry) [][]driver.Value {
	var out [][]driver.Value
	for _, e := range rows {
		m := map[string]string{}
		for _, kv := range e.Labels {
			m[string(kv.K)] = string(kv.V)
		}
		out = append(out, []driver.Value{e.Fp, m, string(e.Msg), e.Ts})
	}
	return out
}

func c15SQL(r *h.Result, rng *h.Rng, env *c15Env, n int) error {
	r.Stream("sql: QueryRangeService.QueryRange(`{a=\"b\"}`) over a scripted database/sql driver through the real planner chain (batches of 100 rows made by ClickhouseGetterPlanner.Scan), row counts around the batch size; every fourth case also through the mux routes /loki/api/v1/query_range and /loki/api/v1/labels with httptest; matrix and instant queries end to end (oracle: JSON validity and envelope)")
	pend := &c15Pending{stream: "sql"}
	ctx := context.Background()
	router := mux.NewRouter()
	apirouterv1.RouteQueryRangeApis(router, env.reg)
	apirouterv1.RouteSelectLabels(router, env.reg)
	for i := 0; i < n; i++ {
		set := c15GenSet(rng, "streams")
		rows := set.Rows
		// stretch one series so that the getter's 100-row batch boundary falls inside a series / exactly at the end
		if len(rows) > 0 && i%2 == 0 {
			target := []int{100, 101, 99, 200, 150, 250}[rng.Intn(6)]
			e := rows[len(rows)-1]
			for len(rows) < target {
				e2 := e
				e2.Ts = e.Ts + int64(len(rows))
				e2.Msg = c15Bytes(rng, 3)
				rows = append(rows, e2)
			}
		}
		if i == 0 {
			// the A29 witness: fingerprint 0 first
			rows = []c15Entry{{Kind: 'n', Fp: 0, Labels: []c15KV{{[]byte("a"), []byte("b")}}, Ts: 1, Msg: []byte("l0")},
				{Kind: 'n', Fp: 0, Labels: []c15KV{{[]byte("a"), []byte("b")}}, Ts: 2, Msg: []byte("l1")},
				{Kind: 'n', Fp: 5, Labels: []c15KV{{[]byte("a"), []byte("c")}}, Ts: 3, Msg: []byte("l2")}}
		}
		env.setRows([]string{"fingerprint", "labels", "string", "timestamp_ns"}, c15SQLRows(rows))
		ch, err := env.qr.QueryRange(ctx, `{a="b"}`, 0, 10e9, 1000, 1000, true)
		if err != nil {
			return err
		}
		chunks := c15Collect(ch)
		body := []byte(strings.Join(chunks, ""))
		batches := [][]c15Entry{append(append([]c15Entry{}, rows...), c15Entry{Kind: 'e'})}
		prow, _ := c15Rows("streams", batches)
		rep := c15Replay{Stream: "sql", Kind: "streams", Batches: c15Words(batches), Body: h.Hex(body)}
		r.Case("sql:"+rep.Batches, len(rows) >= 100 || (len(rows) > 0 && rows[0].Fp == 0))
		r.Count("sql:streams")
		if len(rows) >= 100 {
			r.Count("sql:crosses-batch-of-100")
		}
		if len(rows) > 0 && rows[0].Fp == 0 {
			r.Count("sql:first-fingerprint-0")
		}
		v, doc := c15JudgeSeries("streams", body, prow)
		if v.key != "" {
			r.Violate(v.key, v.what, rep)
		}
		ob := c15ApplyLabelOrder("streams", doc, batches)
		pend.add("c15streams "+c15Words(ob), c15HexChunks(chunks), rep)
		if i%4 == 0 {
			// the same rows through the HTTP route (controller loop writing the chunks to the ResponseWriter)
			w := httptest.NewRecorder()
			router.ServeHTTP(w, httptest.NewRequest("GET", "/loki/api/v1/query_range?start=0&end=10000000000&limit=1000&direction=forward&query="+url.QueryEscape(`{a="b"}`), nil))
			r.Case("sql-http:"+rep.Batches, len(rows) >= 100)
			r.Count("sql:http-route")
			if v, _ := c15JudgeSeries("streams", w.Body.Bytes(), prow); v.key != "" || w.Code != 200 {
				r.Violate(v.key+"/http", fmt.Sprintf("status %d: %s", w.Code, v.what), c15Replay{Stream: "sql", Kind: "streams-http", Batches: rep.Batches, Body: h.Hex(w.Body.Bytes())})
			}
			var lrows [][]byte
			var drows [][]driver.Value
			for k := 0; k < len(rows) && k < 5; k++ {
				lrows = append(lrows, rows[k].Msg)
				drows = append(drows, []driver.Value{string(rows[k].Msg)})
			}
			env.setRows([]string{"key"}, drows)
			w = httptest.NewRecorder()
			router.ServeHTTP(w, httptest.NewRequest("GET", "/loki/api/v1/labels", nil))
			r.Case("labels-http:"+c15HexWords(lrows), len(lrows) >= 2)
			if v := c15JudgeStrings("labels", w.Body.Bytes(), []string{"status", "data"}, lrows); v.key != "" || w.Code != 200 {
				r.Violate(v.key+"/http", fmt.Sprintf("status %d: %s", w.Code, v.what), c15Replay{Stream: "sql", Kind: "labels-http", Rows: c15HexWords(lrows), Body: h.Hex(w.Body.Bytes())})
			}
		}
	}
	// matrix / instant end to end: the planner's post-processors (zero eater, fixed period) sit between the rows and the
	// writer, so only the document is judged
	for i := 0; i < n/4+1; i++ {
		set := c15GenSet(rng, "matrix")
		var rows [][]driver.Value
		for _, e := range set.Rows {
			m := map[string]string{}
			for _, kv := range e.Labels {
				m[string(kv.K)] = string(kv.V)
			}
			v := e.Val
			if math.IsNaN(v) || math.IsInf(v, 0) {
				v = 1
			}
			rows = append(rows, []driver.Value{e.Fp, m, v, int64(rng.Intn(10)) * 1000000000})
		}
		env.setRows([]string{"fingerprint", "labels", "value", "timestamp_ns"}, rows)
		for _, inst := range []bool{false, true} {
			var ch chan model.QueryRangeOutput
			var err error
			kind := "matrix"
			if inst {
				kind = "vector"
				ch, err = env.qr.QueryInstant(ctx, `rate({a="b"}[1s])`, 10e9, 1000, 100)
			} else {
				ch, err = env.qr.QueryRange(ctx, `rate({a="b"}[1s])`, 0, 10e9, 1000, 100, true)
			}
			if err != nil {
				return err
			}
			body := []byte(strings.Join(c15Collect(ch), ""))
			rep := c15Replay{Stream: "sql", Kind: kind + "-e2e", Body: h.Hex(body)}
			r.Case("sqlm:"+h.Hex(body), len(rows) > 0)
			r.Count("sql:" + kind + "-e2e")
			doc, ok := jdoc(body)
			if !json.Valid(body) || !ok {
				r.Violate("C15/"+kind+"-e2e/not-json", fmt.Sprintf("end-to-end %s response is not JSON: %.300q", kind, body), rep)
				continue
			}
			if !c15KeysAre(doc, "status", "data") || string(doc.get("data").get("resultType").s) != kind {
				r.Violate("C15/"+kind+"-e2e/shape", "envelope", rep)
			}
		}
	}
	return r.Compare(pend.stream, pend.ops, pend.impl, pend.cases)
}

// ---------------------------------------------------------------------------------------------------------------
// stream labels

func c15CollectStr(ch chan string) []string {
	var out []string
	for s := range ch {
		out = append(out, s)
	}
	return out
}

// a stored label document as a correct writer builds it
func c15GoodDoc(ls []c15KV) []byte {
	var sb bytes.Buffer
	sb.WriteByte('{')
	for i, kv := range ls {
		if i > 0 {
			sb.WriteByte(',')
		}
		k, _ := json.Marshal(string(kv.K))
		v, _ := json.Marshal(string(kv.V))
		sb.Write(k)
		sb.WriteByte(':')
		sb.Write(v)
	}
	sb.WriteByte('}')
	return sb.Bytes()
}

// … and as the pinned writer builds it (strconv.Quote: Go syntax, not JSON, for control bytes / DEL / invalid UTF-8)
func c15QuotedDoc(ls []c15KV) []byte {
	var sb bytes.Buffer
	sb.WriteByte('{')
	for i, kv := range ls {
		if i > 0 {
			sb.WriteByte(',')
		}
		sb.WriteString(strconv.Quote(string(kv.K)) + ":" + strconv.Quote(string(kv.V)))
	}
	sb.WriteByte('}')
	return sb.Bytes()
}

func c15HexWords(rows [][]byte) string {
	ps := make([]string, len(rows))
	for i, r := range rows {
		ps[i] = h.Hex(r)
	}
	return strings.Join(ps, " ")
}

func c15JudgeStrings(kind string, body []byte, envelope []string, rows [][]byte) c15Verdict {
	if !json.Valid(body) {
		return c15Bad(kind, "not-json", "response is not valid JSON: %.300q", body)
	}
	doc, ok := jdoc(body)
	if !ok {
		return c15Bad(kind, "not-json", "rejected by the byte-exact reader")
	}
	var arr *jv
	if len(envelope) == 2 {
		if !c15KeysAre(doc, envelope...) || string(doc.get(envelope[0]).s) != "success" {
			return c15Bad(kind, "shape", "envelope")
		}
		arr = doc.get(envelope[1])
	} else {
		if !c15KeysAre(doc, envelope...) {
			return c15Bad(kind, "shape", "envelope")
		}
		arr = doc.get(envelope[0])
	}
	if arr == nil || arr.kind != '[' {
		return c15Bad(kind, "shape", "no element array")
	}
	if len(arr.arr) != len(rows) {
		return c15Bad(kind, "rows", "%d elements for %d rows", len(arr.arr), len(rows))
	}
	for i, row := range rows {
		if arr.arr[i].kind != '$' || !bytes.Equal(arr.arr[i].s, goSanitize(row)) {
			return c15Bad(kind, "string", "row %q decoded as %q", row, arr.arr[i].s)
		}
	}
	return c15Verdict{}
}

func c15LabelsStream(r *h.Result, rng *h.Rng, env *c15Env, n int) error {
	r.Stream("labels: QueryLabelsService.Labels/Values (GenericLabelReq) and Series over scripted rows; chunks vs Encode.labelsChunks/seriesChunks; oracle: decode equals the rows (invalid UTF-8 as U+FFFD); Series rows are label documents built correctly or (15%) the way the pinned writer builds them")
	pend := &c15Pending{stream: "labels"}
	ctx := context.Background()
	for i := 0; i < n; i++ {
		nr := rng.Intn(9)
		var rows [][]byte
		for k := 0; k < nr; k++ {
			rows = append(rows, c15Bytes(rng, 8))
		}
		var drows [][]driver.Value
		for _, row := range rows {
			drows = append(drows, []driver.Value{string(row)})
		}
		env.setRows([]string{"key"}, drows)
		var ch chan string
		var err error
		if i%2 == 0 {
			ch, err = env.lbl.Labels(ctx, 0, 10000, 1)
		} else {
			ch, err = env.lbl.Values(ctx, "job", nil, 0, 10000, 1)
		}
		if err != nil {
			return err
		}
		chunks := c15CollectStr(ch)
		body := []byte(strings.Join(chunks, ""))
		rep := c15Replay{Stream: "labels", Kind: "labels", Rows: c15HexWords(rows), Body: h.Hex(body)}
		r.Case("labels:"+c15HexWords(rows), len(rows) >= 2)
		r.Count("labels:labels")
		if v := c15JudgeStrings("labels", body, []string{"status", "data"}, rows); v.key != "" {
			r.Violate(v.key, v.what, rep)
		}
		op := "c15labels"
		if len(rows) > 0 {
			op += " " + c15HexWords(rows)
		}
		pend.add(op, c15HexChunks(chunks), rep)
	}
	for i := 0; i < n; i++ {
		nr := rng.Intn(7)
		var rows [][]byte
		allJSON := true
		for k := 0; k < nr; k++ {
			ls := c15Labels(rng)
			var d []byte
			if rng.Chance(15) {
				d = c15QuotedDoc(ls)
			} else {
				d = c15GoodDoc(ls)
			}
			if !json.Valid(d) {
				allJSON = false
			}
			rows = append(rows, d)
		}
		var drows [][]driver.Value
		for _, row := range rows {
			drows = append(drows, []driver.Value{string(row)})
		}
		env.setRows([]string{"labels"}, drows)
		ch, err := env.lbl.Series(ctx, []string{`{a="b"}`}, 0, 10000, 1)
		if err != nil {
			return err
		}
		chunks := c15CollectStr(ch)
		body := []byte(strings.Join(chunks, ""))
		rep := c15Replay{Stream: "labels", Kind: "series", Rows: c15HexWords(rows), Body: h.Hex(body)}
		r.Case("series:"+c15HexWords(rows), len(rows) >= 2)
		r.Count("labels:series")
		op := "c15series"
		if len(rows) > 0 {
			op += " " + c15HexWords(rows)
		}
		pend.add(op, c15HexChunks(chunks), rep)
		doc, ok := jdoc(body)
		if !allJSON {
			r.Count("labels:series-with-non-json-stored-document")
			if !json.Valid(body) {
				r.Violate("C15/series/stored-document-not-json", fmt.Sprintf("Series passes a stored label document that is not JSON through verbatim; the response is not JSON: %.200q", body), rep)
			}
			continue
		}
		if !json.Valid(body) || !ok {
			r.Violate("C15/series/not-json", fmt.Sprintf("Series response is not JSON although every stored document is: %.300q", body), rep)
			continue
		}
		data := doc.get("data")
		if !c15KeysAre(doc, "status", "data") || data.kind != '[' || len(data.arr) != len(rows) {
			r.Violate("C15/series/rows", "envelope or element count", rep)
			continue
		}
		for k, row := range rows {
			want, _ := jdoc(row)
			if jdump(want) != jdump(data.arr[k]) {
				r.Violate("C15/series/document", fmt.Sprintf("stored document %q arrives as %s", row, jdump(data.arr[k])), rep)
			}
		}
		pend.add("c15doc "+h.Hex(body), jdump(doc), rep)
	}
	return r.Compare(pend.stream, pend.ops, pend.impl, pend.cases)
}

// ---------------------------------------------------------------------------------------------------------------
// stream tempo

func c15Tempo(r *h.Result, rng *h.Rng, n int) error {
	r.Stream("tempo: TempoController.Tags/Values with a scripted ITempoService through httptest vs Encode.tagsChunks/tagValuesChunks; TagsV2/ValuesV2/Search/SearchTraceQL (batches incl. empty)/Trace judged by the oracle only")
	pend := &c15Pending{stream: "tempo"}
	for i := 0; i < n; i++ {
		nr := rng.Intn(8)
		var rows [][]byte
		var strs []string
		for k := 0; k < nr; k++ {
			b := c15Bytes(rng, 8)
			rows = append(rows, b)
			strs = append(strs, string(b))
		}
		ctrl := &controllerv1.TempoController{Service: &fakes.ScriptedTempo{Strings: strs}}
		for _, which := range []string{"tags", "tagvalues"} {
			w := httptest.NewRecorder()
			key := "tagNames"
			if which == "tags" {
				ctrl.Tags(w, httptest.NewRequest("GET", "/api/search/tags", nil))
			} else {
				key = "tagValues"
				ctrl.Values(w, httptest.NewRequest("GET", "/api/search/tag/x/values", nil))
			}
			body := w.Body.Bytes()
			rep := c15Replay{Stream: "tempo", Kind: which, Rows: c15HexWords(rows), Body: h.Hex(body)}
			r.Case(which+":"+c15HexWords(rows), len(rows) >= 2)
			r.Count("tempo:" + which)
			if v := c15JudgeStrings(which, body, []string{key}, rows); v.key != "" {
				r.Violate(v.key, v.what, rep)
			}
			op := "c15" + which
			if len(rows) > 0 {
				op += " " + c15HexWords(rows)
			}
			// the controller writes to the ResponseWriter; compare the concatenation
			pend.add(op, "concat:"+h.Hex(body), rep)
		}
		// V2 endpoints, search and trace: stdlib marshalling inside hand-written envelopes
		for _, which := range []string{"tagsv2", "valuesv2"} {
			w := httptest.NewRecorder()
			if which == "tagsv2" {
				ctrl.TagsV2(w, httptest.NewRequest("GET", "/api/v2/search/tags", nil))
			} else {
				ctrl.ValuesV2(w, httptest.NewRequest("GET", "/api/v2/search/tag/x/values", nil))
			}
			r.Case(which+":"+c15HexWords(rows), false)
			r.Count("tempo:" + which)
			if !json.Valid(w.Body.Bytes()) {
				r.Violate("C15/"+which+"/not-json", fmt.Sprintf("%.300q", w.Body.Bytes()), c15Replay{Stream: "tempo", Kind: which, Rows: c15HexWords(rows)})
			}
		}
		var traces []*model.TraceResponse
		var tb [][]model.TraceInfo
		nt := rng.Intn(5)
		total := 0
		for k := 0; k < nt; k++ {
			traces = append(traces, &model.TraceResponse{TraceID: string(c15Bytes(rng, 4)), RootServiceName: string(c15Bytes(rng, 4)), RootTraceName: string(c15Bytes(rng, 4)),
				StartTimeUnixNano: int64(rng.U64()), DurationMs: int64(rng.Intn(1000))})
			var batch []model.TraceInfo
			for j := rng.Intn(3); j > 0; j-- {
				batch = append(batch, model.TraceInfo{TraceID: string(c15Bytes(rng, 4)), RootServiceName: string(c15Bytes(rng, 4)), DurationMs: c15FiniteFloat(rng)})
				total++
			}
			tb = append(tb, batch)
		}
		var spans []*model.SpanResponse
		for k := rng.Intn(4); k > 0; k-- {
			spans = append(spans, &model.SpanResponse{ServiceName: "s", Span: &tracev1.Span{TraceId: c15Bytes(rng, 3), SpanId: c15Bytes(rng, 3), Name: string(c15Bytes(rng, 5)),
				Attributes: []*commonv1.KeyValue{{Key: string(c15Bytes(rng, 3)), Value: &commonv1.AnyValue{Value: &commonv1.AnyValue_StringValue{StringValue: string(c15Bytes(rng, 5))}}}}}})
		}
		ctrl2 := &controllerv1.TempoController{Service: &fakes.ScriptedTempo{Traces: traces, TraceBatches: tb, Spans: spans}}
		for _, which := range []string{"search", "searchql", "trace"} {
			w := httptest.NewRecorder()
			want := 0
			key := "traces"
			switch which {
			case "search":
				ctrl2.Search(w, httptest.NewRequest("GET", "/api/search?tags=a%3Db", nil))
				want = len(traces)
			case "searchql":
				ctrl2.Search(w, httptest.NewRequest("GET", "/api/search?q="+url.QueryEscape("{}"), nil))
				want = total
			case "trace":
				req := httptest.NewRequest("GET", "/api/traces/00", nil)
				req = muxVars(req, map[string]string{"traceId": "00"})
				ctrl2.Trace(w, req)
				want = len(spans)
				key = ""
			}
			body := w.Body.Bytes()
			rep := c15Replay{Stream: "tempo", Kind: which, Body: h.Hex(body)}
			r.Case(which+":"+h.Hex(body), want >= 2)
			r.Count("tempo:" + which)
			doc, ok := jdoc(body)
			if !json.Valid(body) || !ok {
				r.Violate("C15/"+which+"/not-json", fmt.Sprintf("%.300q", body), rep)
				continue
			}
			var arr *jv
			if key != "" {
				arr = doc.get(key)
			} else if rs := doc.get("resourceSpans"); rs != nil && rs.kind == '[' && len(rs.arr) == 1 {
				if ils := rs.arr[0].get("instrumentationLibrarySpans"); ils != nil && ils.kind == '[' && len(ils.arr) == 1 {
					arr = ils.arr[0].get("spans")
				}
			}
			if arr == nil || arr.kind != '[' || len(arr.arr) != want {
				r.Violate("C15/"+which+"/rows", fmt.Sprintf("expected %d elements: %.300q", want, body), rep)
			}
		}
	}
	// Tags/Values: compare concatenations
	ans, err := h.Model(pend.ops)
	if err != nil {
		return err
	}
	for i := range pend.ops {
		want := strings.TrimPrefix(pend.impl[i], "concat:")
		if got := c15ConcatModel(ans[i]); got != want {
			r.Disagree("tempo", pend.ops[i], want, got, pend.cases[i])
		}
	}
	return nil
}

func c15FiniteFloat(rng *h.Rng) float64 {
	for {
		v := c15Float(rng)
		if !math.IsNaN(v) && !math.IsInf(v, 0) {
			return v
		}
	}
}

// ---------------------------------------------------------------------------------------------------------------
// stream prom

func c15Prom(r *h.Result, rng *h.Rng, n int) error {
	r.Stream("prom: PromQueryRangeController.QueryInstant/QueryRange on constant PromQL expressions (no storage access): scalar writer vs Encode.scalarChunks; vector and matrix writers judged by the oracle (value string parses back to the same float64)")
	pend := &c15Pending{stream: "prom"}
	reg := fakes.NewRowScriptRegistry("")
	eng := promql.NewEngine(promql.EngineOpts{MaxSamples: 10000000, Timeout: 30 * time.Second})
	pc := &controllerv1.PromQueryRangeController{Api: &api_v1.API{QueryEngine: eng},
		Storage: &service.CLokiQueriable{ServiceData: model.ServiceData{Session: reg}}}
	lit := func(v float64) string {
		switch {
		case math.IsNaN(v):
			return "NaN"
		case math.IsInf(v, 1):
			return "Inf"
		case math.IsInf(v, -1):
			return "-Inf"
		}
		return strconv.FormatFloat(v, 'g', -1, 64)
	}
	for i := 0; i < n; i++ {
		v := c15Float(rng)
		if math.IsNaN(v) {
			v = math.NaN() // one NaN (payload bits are not part of the property)
		}
		sec := int64(1700000000 + rng.Intn(100000))
		if rng.Chance(20) {
			sec = int64(rng.Intn(3))
		}
		// scalar
		w := httptest.NewRecorder()
		pc.QueryInstant(w, httptest.NewRequest("GET", fmt.Sprintf("/api/v1/query?time=%d&query=%s", sec, url.QueryEscape(lit(v))), nil))
		body := w.Body.Bytes()
		rep := c15Replay{Stream: "prom", Kind: "scalar", Note: fmt.Sprintf("query=%s time=%d", lit(v), sec), Body: h.Hex(body)}
		r.Case("scalar:"+lit(v), v != math.Trunc(v) || math.Abs(v) < 1e-6 || math.Abs(v) >= 1e21)
		r.Count("prom:scalar")
		doc, ok := jdoc(body)
		if !json.Valid(body) || !ok {
			r.Violate("C15/scalar/not-json", fmt.Sprintf("%.300q", body), rep)
		} else if doc.get("data") == nil || doc.get("data").get("result") == nil || doc.get("data").get("resultType") == nil {
			r.Violate("C15/scalar/shape", fmt.Sprintf("%.300q", body), rep)
		} else {
			res := doc.get("data").get("result")
			if string(doc.get("data").get("resultType").s) != "scalar" || res.kind != '[' || len(res.arr) != 2 {
				r.Violate("C15/scalar/shape", fmt.Sprintf("%.300q", body), rep)
			} else {
				if !c15NumIs(res.arr[0].s, sec, 1) {
					r.Violate("C15/scalar/timestamp", fmt.Sprintf("time %d rendered as %s", sec, res.arr[0].s), rep)
				}
				if res.arr[1].kind != '$' || !c15ValMatches(res.arr[1].s, v) {
					r.Violate("C15/scalar/value", fmt.Sprintf("scalar %s rendered as %q", lit(v), res.arr[1].s), rep)
				}
			}
		}
		pend.add(fmt.Sprintf("c15scalar %d %s", sec*1000, h.Hex([]byte(fmtVal(v)))), "concat:"+h.Hex(body), rep)
		// vector with a label, matrix of a constant
		lv := strings.ReplaceAll(string(goSanitize(c15Bytes(rng, 5))), "$", "")
		q := fmt.Sprintf(`label_replace(vector(%s), "foo", %s, "", "")`, lit(v), strconv.Quote(lv))
		// evaluation time: whole seconds, or RFC 3339 with a millisecond part (1..99 ms included: a timestamp writer that
		// does not pad the fraction shows only there — seeded C15-7)
		tsMs, tparam := sec*1000, strconv.FormatInt(sec, 10)
		if i%3 == 1 && sec > 1000 {
			tsMs = sec*1000 + int64(h.Pick(rng, []int{7, 50, 99, 100, 250, 999}))
			tparam = url.QueryEscape(time.UnixMilli(tsMs).UTC().Format("2006-01-02T15:04:05.000Z07:00"))
			r.Count("prom:vector-fractional-time")
		}
		w = httptest.NewRecorder()
		pc.QueryInstant(w, httptest.NewRequest("GET", fmt.Sprintf("/api/v1/query?time=%s&query=%s", tparam, url.QueryEscape(q)), nil))
		body = w.Body.Bytes()
		rep = c15Replay{Stream: "prom", Kind: "promvector", Note: q + " time=" + tparam, Body: h.Hex(body)}
		r.Case("promvector:"+q, true)
		r.Count("prom:vector")
		doc, ok = jdoc(body)
		if !json.Valid(body) || !ok {
			r.Violate("C15/promvector/not-json", fmt.Sprintf("%.300q", body), rep)
		} else if w.Code == 200 && doc.get("data") != nil {
			res := doc.get("data").get("result")
			good := res != nil && res.kind == '[' && len(res.arr) == 1 && c15KeysAre(res.arr[0], "metric", "value")
			if good {
				o := res.arr[0]
				want := []c15KV{{[]byte("foo"), []byte(lv)}}
				if lv == "" {
					want = nil
				}
				good = c15LabelsMatch(o.get("metric"), want) && len(o.get("value").arr) == 2 && c15NumIs(o.get("value").arr[0].s, tsMs, 1000) &&
					c15ValMatches(o.get("value").arr[1].s, v)
			}
			if !good {
				r.Violate("C15/promvector/content", fmt.Sprintf("%s => %.300q", q, body), rep)
			}
		}
		w = httptest.NewRecorder()
		stepMs, endOff := int64(15000), "45"
		if i%3 == 2 {
			stepMs, endOff = int64(h.Pick(rng, []int{50, 7, 99, 250})), "1"
			r.Count("prom:matrix-subsecond-step")
		}
		pc.QueryRange(w, httptest.NewRequest("GET", fmt.Sprintf("/api/v1/query_range?start=%d&end=%d&step=%s&query=%s", sec, sec+map[string]int64{"45": 45, "1": 1}[endOff],
			strconv.FormatFloat(float64(stepMs)/1000, 'f', -1, 64), url.QueryEscape(lit(v))), nil))
		body = w.Body.Bytes()
		rep = c15Replay{Stream: "prom", Kind: "prommatrix", Note: lit(v), Body: h.Hex(body)}
		r.Case("prommatrix:"+lit(v)+":"+strconv.FormatInt(sec, 10), true)
		r.Count("prom:matrix")
		doc, ok = jdoc(body)
		if !json.Valid(body) || !ok {
			r.Violate("C15/prommatrix/not-json", fmt.Sprintf("%.300q", body), rep)
		} else if w.Code == 200 && doc.get("data") != nil {
			res := doc.get("data").get("result")
			good := res != nil && res.kind == '[' && len(res.arr) == 1 && c15KeysAre(res.arr[0], "metric", "values")
			if good {
				var first *big.Rat
				for k, p := range res.arr[0].get("values").arr {
					if len(p.arr) != 2 || p.arr[0].kind != '#' || !c15ValMatches(p.arr[1].s, v) {
						good = false
						continue
					}
					// the points of a constant are exactly one step apart: the k-th timestamp is the first + k·step
					t, ok := new(big.Rat).SetString(string(p.arr[0].s))
					if !ok {
						good = false
					} else if first == nil {
						first = t
					} else if new(big.Rat).Sub(t, first).Cmp(big.NewRat(int64(k)*stepMs, 1000)) != 0 {
						good = false
					}
				}
			}
			if !good {
				r.Violate("C15/prommatrix/content", fmt.Sprintf("%s => %.300q", lit(v), body), rep)
			}
		}
	}
	ans, err := h.Model(pend.ops)
	if err != nil {
		return err
	}
	for i := range pend.ops {
		want := strings.TrimPrefix(pend.impl[i], "concat:")
		if got := c15ConcatModel(ans[i]); got != want {
			r.Disagree("prom", pend.ops[i], want, got, pend.cases[i])
		}
	}
	return nil
}

// ---------------------------------------------------------------------------------------------------------------
// stream str + parser

func c15Strings(r *h.Result, rng *h.Rng, n int) error {
	r.Stream("str: jsoniter ConfigFastest Stream.WriteString and encoding/json.Marshal on byte strings (all 256 bytes singly, then adversarial strings) vs Json.escJ / Json.escStd; the model parser reads the implementation's text back to the original bytes (jsoniter) / the U+FFFD-sanitised bytes (encoding/json)")
	var ops, impl []string
	add := func(s []byte) {
		st := jsoniter.ConfigFastest.BorrowStream(nil)
		st.WriteString(string(s))
		j := append([]byte{}, st.Buffer()...)
		jsoniter.ConfigFastest.ReturnStream(st)
		m, _ := json.Marshal(string(s))
		special := false
		for _, c := range s {
			if c < 0x20 || c == '"' || c == '\\' || c >= 0x80 || c == '<' || c == '>' || c == '&' {
				special = true
			}
		}
		r.Case("str:"+h.Hex(s), special)
		if utf8Valid(s) {
			r.Count("str:valid-utf8")
		} else {
			r.Count("str:invalid-utf8")
		}
		ops = append(ops, "c15escj "+h.Hex(s), "c15escstd "+h.Hex(s), "c15parse "+h.Hex(j), "c15parse "+h.Hex(m), "c15sanitize "+h.Hex(s))
		impl = append(impl, h.Hex(j[1:len(j)-1]), h.Hex(m[1:len(m)-1]), "$"+h.Hex(s)+"|-", "$"+h.Hex(goSanitize(s))+"|-", h.Hex(goSanitize(s)))
		// oracle without the model: encoding/json reads both texts back
		var a, b string
		if json.Unmarshal(j, &a) != nil || a != string(goSanitize(s)) {
			r.Violate("C15/str/jsoniter", fmt.Sprintf("WriteString(%q) = %q does not decode to the input", s, j), map[string]string{"stream": "str", "input_hex": h.Hex(s)})
		}
		if json.Unmarshal(m, &b) != nil || b != string(goSanitize(s)) {
			r.Violate("C15/str/encoding-json", fmt.Sprintf("Marshal(%q) = %q does not decode to the input", s, m), map[string]string{"stream": "str", "input_hex": h.Hex(s)})
		}
	}
	for c := 0; c < 256; c++ {
		add([]byte{byte(c)})
	}
	for _, hb := range c15Hot {
		add(hb)
	}
	for i := 0; i < n; i++ {
		add(c15Bytes(rng, 14))
	}
	return r.Compare("str", ops, impl, nil)
}

func utf8Valid(s []byte) bool { return utf8.Valid(s) }

func muxVars(r *http.Request, vars map[string]string) *http.Request { return mux.SetURLVars(r, vars) }

// concatenation of a model chunk-list answer, in the protocol's hex form
func c15ConcatModel(ans string) string {
	var sb strings.Builder
	for _, c := range strings.Split(ans, ",") {
		if c != "-" {
			sb.WriteString(c)
		}
	}
	if sb.Len() == 0 {
		return "-"
	}
	return sb.String()
}

var c15Atoms = []string{"null", "true", "false", "0", "-0", "1", "-12", "1.5", "0.000001", "1e5", "1E+5", "1e-9", "123456789012345678901234567890", "\"\"", "\"a\"",
	"\"\\u00e9\"", "\"\\ud83d\\ude00\"", "\"\\ud800\"", "\"\\udc00x\"", "\"\\ud800\\ud800\\udc00\"", "\"\\n\\t\\\"\\\\\\/\\b\\f\\r\"", "\"\x7f\"", "\"\xff\"", "\"é\"", "[]", "{}", "[ ]", "{ }"}
var c15BadAtoms = []string{"01", "-", "1.", ".5", "1e", "1e+", "+1", "tru", "nul", "\"a", "\"\\x01\"", "\"\\u12\"", "\"\x01\"", "\"\t\"", "'a'", "NaN", "[1,]", "[,1]", "{\"a\"}", "{\"a\":}",
	"{a:1}", "{\"a\":1,}", "[1 2]", "", "]", "}", "\"\\ud800\\u\"", "--1", "1-2", "1e5.5", "0x10", "1_000"}

var c15Mut = []byte("\"\\,:[]{}0-e. x\x00\xff")

func c15GenJSON(rng *h.Rng, depth int) string {
	if depth <= 0 || rng.Chance(40) {
		if rng.Chance(6) {
			return h.Pick(rng, c15BadAtoms)
		}
		if rng.Chance(30) {
			m, _ := json.Marshal(string(goSanitize(c15Bytes(rng, 5))))
			return string(m)
		}
		return h.Pick(rng, c15Atoms)
	}
	ws := func() string { return h.Pick(rng, []string{"", "", "", " ", "\n", "\t ", "\r\n"}) }
	n := rng.Intn(4)
	var sb strings.Builder
	if rng.Bool() {
		sb.WriteString("[" + ws())
		for i := 0; i < n; i++ {
			if i > 0 {
				sb.WriteString(ws() + "," + ws())
			}
			sb.WriteString(c15GenJSON(rng, depth-1))
		}
		sb.WriteString(ws() + "]")
	} else {
		sb.WriteString("{" + ws())
		for i := 0; i < n; i++ {
			if i > 0 {
				sb.WriteString(ws() + "," + ws())
			}
			k, _ := json.Marshal(string(goSanitize(c15Bytes(rng, 3))))
			sb.WriteString(string(k) + ws() + ":" + ws() + c15GenJSON(rng, depth-1))
		}
		sb.WriteString(ws() + "}")
	}
	return sb.String()
}

func c15Parser(r *h.Result, rng *h.Rng, n int) error {
	r.Stream("parser: Json.parseDoc vs encoding/json.Valid and the byte-exact Go reader on generated JSON texts (nesting <= 4, whitespace, escapes, surrogates, raw bytes >= 0x80) and on byte-level mutations of them (delete/insert/replace)")
	var ops, impl []string
	add := func(t []byte) {
		want := "none"
		valid := json.Valid(t)
		doc, ok := jdoc(t)
		if ok {
			want = jdump(doc)
		}
		if ok != valid {
			// the two Go readers must agree before either is used as a reference
			r.Disagree("parser", "go-readers "+h.Hex(t), fmt.Sprint(valid), fmt.Sprint(ok), nil)
		}
		r.Case("parser:"+h.Hex(t), valid)
		if valid {
			r.Count("parser:valid")
		} else {
			r.Count("parser:invalid")
		}
		ops = append(ops, "c15doc "+h.Hex(t))
		impl = append(impl, want)
	}
	for _, a := range c15Atoms {
		add([]byte(a))
		add([]byte(" " + a + "\n"))
	}
	for _, a := range c15BadAtoms {
		add([]byte(a))
	}
	for i := 0; i < n; i++ {
		t := []byte(c15GenJSON(rng, 4))
		add(t)
		if len(t) > 0 {
			m := append([]byte{}, t...)
			pos := rng.Intn(len(m))
			switch rng.Intn(3) {
			case 0:
				m = append(m[:pos], m[pos+1:]...)
			case 1:
				m[pos] = c15Mut[rng.Intn(len(c15Mut))]
			default:
				m = append(m[:pos], append([]byte{c15Mut[rng.Intn(len(c15Mut))]}, m[pos:]...)...)
			}
			add(m)
		}
	}
	return r.Compare("parser", ops, impl, nil)
}

// ---------------------------------------------------------------------------------------------------------------

func c15(r *h.Result, rng *h.Rng, tier string, replay string) error {
	logger.Logger.SetOutput(io.Discard)
	// the services print query texts and version checks to stdout
	stdout := os.Stdout
	if devnull, err := os.OpenFile(os.DevNull, os.O_WRONLY, 0); err == nil {
		os.Stdout = devnull
		defer func() { os.Stdout = stdout; devnull.Close() }()
	}
	nSets, nTail, nSQL, nLbl, nTempo, nProm, nStr, nParse := 400, 24, 40, 300, 200, 150, 1500, 1500
	switch tier {
	case "thorough":
		nSets, nTail, nSQL, nLbl, nTempo, nProm, nStr, nParse = 4000, 200, 600, 6000, 4000, 3000, 40000, 40000
	case "search":
		nSets, nTail, nSQL, nLbl, nTempo, nProm, nStr, nParse = 3000, 64, 200, 2000, 1000, 1000, 10000, 10000
	}
	r.Rule = "enc: result sets of <= 8 series x <= 12 rows (first fingerprint 0 in 1/3 of the sets, fingerprints 0..3, 2^64-1, random; 8% non-contiguous), " +
		"3 batchings each (one batch + EOF marker; random cuts with empty batches; one entry per batch with markers inside), 6% with an error entry; " +
		"labels/lines over all bytes (JSON metacharacters, control bytes, DEL, invalid and boundary UTF-8, U+2028/9); floats: integers, dyadic, extreme " +
		"magnitudes, subnormal, NaN/Inf, random bit patterns; timestamps: 0..2, negative, int64 extremes, realistic ns (matrix: millisecond-aligned); " +
		"non-trivial = at least two series runs or first fingerprint 0; distinct by case text. " +
		"sizes: every encoder on result sets of the size classes 0..3, c-1, c, c+1, 2c-1, 2c, 2c+1, 3c, 3c+1 around every batching constant c regenerated " +
		"from the source (Gen.C15Batch: 10, 100, 2000, 3000 on the pinned tree) and 1000, 1001; in the search and thorough tiers every size 0..450; " +
		"short distinct rows with escaping-relevant bytes at the batch edges; batchings as Scan cuts them, one batch, c+1 with an empty batch, random; " +
		"non-trivial = at least two rows; distinct by kind, size and row hash"
	if replay != "" {
		return c15Replayer(r, replay)
	}
	env := newC15Env()
	steps := []func() error{
		func() error { return c15Strings(r, rng.Fork(), nStr) },
		func() error { return c15Parser(r, rng.Fork(), nParse) },
		func() error { return c15Enc(r, rng.Fork(), env, nSets, nTail) },
		func() error { return c15SQL(r, rng.Fork(), env, nSQL) },
		func() error { return c15LabelsStream(r, rng.Fork(), env, nLbl) },
		func() error { return c15Tempo(r, rng.Fork(), nTempo) },
		func() error { return c15Prom(r, rng.Fork(), nProm) },
		func() error { return c15SizesStream(r, rng.Fork(), env, tier) },
	}
	for i, s := range steps {
		t0 := time.Now()
		if err := s(); err != nil {
			return err
		}
		r.Notes = append(r.Notes, fmt.Sprintf("stream %d took %.1fs", i, time.Since(t0).Seconds()))
	}
	return nil
}

// replay of an enc/sql case from a replay file written by ./check
func c15Replayer(r *h.Result, path string) error {
	b, err := os.ReadFile(path)
	if err != nil {
		return err
	}
	var f struct {
		Replay c15Replay `json:"replay"`
	}
	if err := json.Unmarshal(b, &f); err != nil {
		return err
	}
	rep := f.Replay
	r.Stream("replay of " + path)
	if rep.Stream == "sizes" {
		return c15ReplayList(r, rep)
	}
	if rep.Batches == "" && rep.Stream != "enc" && rep.Stream != "sql" {
		r.Notes = append(r.Notes, "replay files of this stream carry the request and the response (body_hex); re-run the tier with the recorded seed to regenerate")
		return nil
	}
	batches, err := c15ParseWords(rep.Batches)
	if err != nil {
		return err
	}
	env := newC15Env()
	pend := &c15Pending{stream: "enc"}
	kind := rep.Kind
	if rep.Stream == "sql" {
		kind = "streams"
	}
	if err := c15EncCase(r, env, pend, kind, batches, true); err != nil {
		return err
	}
	return r.Compare(pend.stream, pend.ops, pend.impl, pend.cases)
}

func c15ParseWords(s string) ([][]c15Entry, error) {
	batches := [][]c15Entry{{}}
	for _, w := range strings.Fields(s) {
		if w == "B" {
			batches = append(batches, []c15Entry{})
			continue
		}
		p := strings.Split(w, ":")
		if len(p) != 6 || len(p[0]) != 1 {
			return nil, fmt.Errorf("bad entry word %q", w)
		}
		fp, err1 := strconv.ParseUint(p[1], 10, 64)
		ts, err2 := strconv.ParseInt(p[2], 10, 64)
		if err1 != nil || err2 != nil {
			return nil, fmt.Errorf("bad entry word %q", w)
		}
		e := c15Entry{Kind: p[0][0], Fp: fp, Ts: ts, Msg: h.UnHex(p[3])}
		vs := string(h.UnHex(p[4]))
		switch vs {
		case "NaN":
			e.Val = math.NaN()
		case "+Inf":
			e.Val = math.Inf(1)
		case "-Inf":
			e.Val = math.Inf(-1)
		default:
			e.Val, _ = strconv.ParseFloat(vs, 64)
		}
		if p[5] != "-" {
			for _, kv := range strings.Split(p[5], ";") {
				q := strings.Split(kv, "=")
				if len(q) != 2 {
					return nil, fmt.Errorf("bad labels in %q", w)
				}
				e.Labels = append(e.Labels, c15KV{h.UnHex(q[0]), h.UnHex(q[1])})
			}
		}
		batches[len(batches)-1] = append(batches[len(batches)-1], e)
	}
	return batches, nil
}
