package main

import (
	"fmt"
	"reflect"
	"strings"
	"unsafe"

	sql "github.com/metrico/qryn/reader/utils/sql_select"
)

// Serialisation of the object tree the REAL planner returned (sql_select objects and the planner's own
// node types, read through reflection) into the token form the driver parses into a Sql.Sel. Raw SQL
// text of the shape f(a, b) is given the call structure the semantics need; the driver re-renders the
// tree and requires the bytes of the real String() — so a wrong reading here cannot go unnoticed.

type astSer struct{ toks []string }

func (a *astSer) add(t ...string) { a.toks = append(a.toks, t...) }

// field returns an addressable, interface-able view of an unexported struct field
func field(v reflect.Value, name string) reflect.Value {
	if v.Kind() == reflect.Ptr || v.Kind() == reflect.Interface {
		v = v.Elem()
	}
	if v.Kind() == reflect.Ptr {
		v = v.Elem()
	}
	if !v.CanAddr() {
		c := reflect.New(v.Type()).Elem()
		c.Set(v)
		v = c
	}
	f := v.FieldByName(name)
	if !f.IsValid() {
		panic("no field " + name + " in " + v.Type().String())
	}
	return reflect.NewAt(f.Type(), unsafe.Pointer(f.UnsafeAddr())).Elem()
}

func isNil(v reflect.Value) bool {
	switch v.Kind() {
	case reflect.Ptr, reflect.Interface, reflect.Slice, reflect.Map:
		return v.IsNil()
	}
	return false
}

// splitTop splits s at sep outside parentheses
func splitTop(s, sep string) []string {
	var res []string
	depth, start := 0, 0
	for i := 0; i < len(s); i++ {
		switch s[i] {
		case '(':
			depth++
		case ')':
			depth--
		}
		if depth == 0 && strings.HasPrefix(s[i:], sep) {
			res = append(res, s[start:i])
			start = i + len(sep)
			i += len(sep) - 1
		}
	}
	return append(res, s[start:])
}

// row-level functions the model writes as tight calls (`callT`); the rendering of a one-argument call is the same
var rowFns = map[string]bool{"isNotNull": true, "toFloat64OrNull": true, "toFloat64OrZero": true}

func (a *astSer) raw(s string) { a.rawIn(s, true) }

// raw text: integers, `distinct x`, and `fn(a, b)` with balanced parentheses become structure
func (a *astSer) rawIn(s string, rowLevel bool) {
	if s != "" && strings.Trim(s, "0123456789") == "" && len(s) < 10 && (s == "0" || s[0] != '0') {
		a.add("i", s)
		return
	}
	if strings.HasPrefix(s, "distinct ") {
		a.add("d")
		a.rawIn(s[len("distinct "):], false)
		return
	}
	if strings.HasSuffix(s, ")") {
		depth, open := 0, -1
		for i := len(s) - 1; i >= 0; i-- {
			if s[i] == ')' {
				depth++
			} else if s[i] == '(' {
				depth--
				if depth == 0 {
					open = i
					break
				}
			}
		}
		if open >= 0 {
			fn, inner := s[:open], s[open+1:len(s)-1]
			okFn := true
			for _, c := range fn {
				if !(c == '_' || c == '(' || c == ')' || c >= '0' && c <= '9' || c >= 'a' && c <= 'z' || c >= 'A' && c <= 'Z') {
					okFn = false
				}
			}
			// `unhex('<id>')` of the portion filter stays raw text: the model gives it no structure either (a computed column of the index)
			if okFn && fn != "unhex" && inner != "" && strings.Count(fn, "(") == strings.Count(fn, ")") {
				args := splitTop(inner, ", ")
				tight := rowLevel && rowFns[fn] && len(args) == 1
				if tight {
					a.add("t", hx(fn), "1")
				} else {
					a.add("f", hx(fn), fmt.Sprint(len(args)))
				}
				for _, x := range args {
					a.rawIn(x, tight)
				}
				return
			}
		}
	}
	a.add("r", hx(s))
}

func (a *astSer) opt(v reflect.Value) error {
	if isNil(v) {
		a.add("0")
		return nil
	}
	a.add("1")
	return a.expr(v)
}

func (a *astSer) exprs(v reflect.Value) error {
	a.add(fmt.Sprint(v.Len()))
	for i := 0; i < v.Len(); i++ {
		if err := a.expr(v.Index(i)); err != nil {
			return err
		}
	}
	return nil
}

func (a *astSer) expr(v reflect.Value) error {
	for v.Kind() == reflect.Interface {
		v = v.Elem()
	}
	tn := v.Type().String()
	switch tn {
	case "*sql.RawObject":
		a.raw(field(v, "val").String())
	case "*sql.StringVal":
		a.add("s", hx(field(v, "val").String()))
	case "*sql.IntVal":
		a.add("i", fmt.Sprint(field(v, "val").Int()))
	case "*sql.FloatVal":
		a.add("n", hx(fmt.Sprintf("%f", field(v, "val").Float())))
	case "*sql.Col":
		a.add("c", hx(field(v, "alias").String()))
		return a.expr(field(v, "expr"))
	case "*sql.WithRef":
		a.add("w", hx(field(field(v, "ref"), "alias").String()))
	case "*sql.LogicalOp":
		a.add("l", hx(field(v, "fn").String()))
		return a.exprs(field(v, "clauses"))
	case "*sql.In":
		a.add("in")
		if err := a.expr(field(v, "leftSide")); err != nil {
			return err
		}
		return a.exprs(field(v, "rightSide"))
	case "*sql.OrderBy":
		dir := "desc"
		if field(v, "direction").Int() == sql.ORDER_BY_DIRECTION_ASC {
			dir = "asc"
		}
		a.add("o", dir)
		return a.expr(field(v, "col"))
	case "*clickhouse_transpiler.bitAnd":
		a.add("t", hx("bitAnd"), "2")
		if err := a.expr(field(v, "left")); err != nil {
			return err
		}
		return a.expr(field(v, "right"))
	case "*clickhouse_transpiler.groupBitOr":
		bs := field(v, "left")
		for bs.Kind() == reflect.Interface {
			bs = bs.Elem()
		}
		if bs.Type().String() != "*clickhouse_transpiler.bitSet" {
			return fmt.Errorf("groupBitOr over %s", bs.Type())
		}
		a.add("b", hx(field(v, "alias").String()))
		return a.exprs(field(bs, "terms"))
	case "*clickhouse_transpiler.matchRe", "clickhouse_transpiler.matchRe":
		a.add("t", hx("match"), "2")
		if err := a.expr(field(v, "field")); err != nil {
			return err
		}
		a.add("s", hx(field(v, "re").String()))
	case "*clickhouse_transpiler.sqlAttrValue":
		a.add("ai", hx(field(v, "attr").String()))
	case "*clickhouse_transpiler.union":
		sels := field(v, "selects")
		a.add("u", hx("UNION ALL"), fmt.Sprint(sels.Len()))
		for i := 0; i < sels.Len(); i++ {
			if err := a.sel(sels.Index(i)); err != nil {
				return err
			}
		}
	case "*sql.Select":
		return fmt.Errorf("select used as an expression")
	default:
		return fmt.Errorf("unknown SQL object %s", tn)
	}
	return nil
}

func (a *astSer) sel(v reflect.Value) error {
	for v.Kind() == reflect.Interface {
		v = v.Elem()
	}
	if v.Type().String() != "*sql.Select" {
		return fmt.Errorf("not a select: %s", v.Type())
	}
	withs := field(v, "withs")
	a.add("S", fmt.Sprint(withs.Len()))
	for i := 0; i < withs.Len(); i++ {
		w := withs.Index(i)
		a.add(hx(field(w, "alias").String()))
		if err := a.sel(field(w, "query")); err != nil {
			return err
		}
	}
	if field(v, "distinct").Bool() {
		a.add("1")
	} else {
		a.add("0")
	}
	if err := a.exprs(field(v, "columns")); err != nil {
		return err
	}
	// FROM, with an ARRAY JOIN folded into the source as the model does
	joins := field(v, "joins")
	from := field(v, "from")
	var other []reflect.Value
	var array *reflect.Value
	for i := 0; i < joins.Len(); i++ {
		j := joins.Index(i)
		if strings.ToLower(field(j, "tp").String()) == "array" {
			jj := j
			array = &jj
		} else {
			other = append(other, j)
		}
	}
	switch {
	case isNil(from):
		a.add("0")
	case array != nil:
		a.add("1", "aj")
		if err := a.expr(from); err != nil {
			return err
		}
		if err := a.expr(field(*array, "table")); err != nil {
			return err
		}
	default:
		a.add("1")
		if err := a.expr(from); err != nil {
			return err
		}
	}
	a.add(fmt.Sprint(len(other)))
	for _, j := range other {
		tbl := field(j, "table")
		for tbl.Kind() == reflect.Interface {
			tbl = tbl.Elem()
		}
		if tbl.Type().String() != "*sql.WithRef" {
			return fmt.Errorf("join with %s", tbl.Type())
		}
		a.add(hx(field(j, "tp").String()), hx(field(field(tbl, "ref"), "alias").String()))
		if err := a.expr(field(j, "on")); err != nil {
			return err
		}
	}
	if err := a.opt(field(v, "preWhere")); err != nil {
		return err
	}
	if err := a.opt(field(v, "where")); err != nil {
		return err
	}
	if err := a.exprs(field(v, "groupBy")); err != nil {
		return err
	}
	if err := a.opt(field(v, "having")); err != nil {
		return err
	}
	if err := a.exprs(field(v, "orderBy")); err != nil {
		return err
	}
	if !isNil(field(v, "offset")) || !isNil(field(v, "settings")) {
		return fmt.Errorf("offset/settings not modelled")
	}
	return a.opt(field(v, "limit"))
}

// serRealSelect: token form of a real select
func serRealSelect(s sql.ISelect) (res string, err error) {
	defer func() {
		if r := recover(); r != nil {
			err = fmt.Errorf("reflection: %v", r)
		}
	}()
	a := &astSer{}
	if err := a.sel(reflect.ValueOf(s)); err != nil {
		return "", err
	}
	return strings.Join(a.toks, ","), nil
}

// indexGroupedOf finds the sub-select that decides which traces are returned in the real statement
func indexGroupedOf(s sql.ISelect) sql.ISelect {
	for _, w := range s.GetWith() {
		if w.GetAlias() == "index_grouped" {
			return w.GetQuery()
		}
	}
	return nil
}
