package main

// C03 — log and metric ingest decodes every entry to exactly one faithful row.
// Correspondence: documents → real bytes → the exported parsers of writer/utils/unmarshal → chunk sequence,
// compared with the Lean model (Body.run) through the driver. Oracle: independent decoding of the same bytes
// (c03Decode) → the rows the property demands → multiset comparison with what the parser emitted.

import (
	"crypto/sha256"
	"encoding/hex"
	"encoding/json"
	"fmt"
	"math"
	"os"
	"sort"
	"strings"

	"verif/harness/h"
)

func init() { props["C03"] = c03 }

func mathFromBits(b uint64) float64 { return math.Float64frombits(b) }

var c03Protos = []string{"loki", "lokiproto", "prom", "influx", "ddlogs", "ddseries", "otlp"}

type c03Replay struct {
	Proto   string `json:"proto"`
	Ttl     uint16 `json:"ttl_header"`
	BodyHex string `json:"body_hex"`
	Body    string `json:"body_text,omitempty"`
}

func c03RowKey(fp uint64, e c03ExpEntry) string {
	return fmt.Sprintf("%d|%d|%s|%d|%d", fp, e.Ts, hexs(e.Line), e.Val, e.Tp)
}

// c03Judge: the oracle. Returns "" or the normalised identity of the failure and a description.
func c03Judge(proto string, exp []c03ExpStream, chunks []c03Chunk, hang bool) (string, string) {
	if hang {
		return "C03/" + proto + "/hang", "the parser did not close its response channel within 60 s"
	}
	var rows []c03Row
	for _, c := range chunks {
		if c.Err != "" {
			if strings.HasPrefix(c.Err, "panic:") {
				return "C03/" + proto + "/well-formed-body-faults", "a well-formed body made the parser fault: " + c.Err
			}
			return "C03/" + proto + "/well-formed-body-rejected", "a well-formed body was rejected: " + c.Err
		}
		if c.NilFields {
			return "C03/" + proto + "/nil-request", "a response without samples/series request"
		}
		if c.NonRect != "" {
			return "C03/" + proto + "/non-rectangular-chunk", "a chunk whose columns differ in length: " + c.NonRect
		}
		if len(c.Rows) > 0 && c.SplSize <= 0 {
			return "C03/" + proto + "/rows-with-zero-size", fmt.Sprintf("a chunk with %d sample rows reports size %d", len(c.Rows), c.SplSize)
		}
		if len(c.Series) > 0 && c.TsSize <= 0 {
			return "C03/" + proto + "/series-with-zero-size", fmt.Sprintf("a chunk with %d series rows reports size %d", len(c.Series), c.TsSize)
		}
		rows = append(rows, c.Rows...)
	}
	want := map[string]int{}
	total := 0
	type loose struct {
		fp uint64
		tp uint8
	}
	byContent := map[string][]loose{} // ts|line|val → where it was expected
	for _, s := range exp {
		fp := c03RealFingerprint(s.Labels)
		for _, e := range s.Entries {
			want[c03RowKey(fp, e)]++
			total++
			k := fmt.Sprintf("%d|%s|%d", e.Ts, hexs(e.Line), e.Val)
			byContent[k] = append(byContent[k], loose{fp, e.Tp})
		}
	}
	for _, r := range rows {
		k := c03RowKey(r.Fp, c03ExpEntry{r.Ts, r.Line, r.Val, r.Tp})
		if want[k] > 0 {
			want[k]--
			continue
		}
		// a row nobody submitted (in this multiplicity): classify
		ck := fmt.Sprintf("%d|%s|%d", r.Ts, hexs(r.Line), r.Val)
		desc := fmt.Sprintf("row fp=%d ts=%d line=%.40q value_bits=%d type=%d", r.Fp, r.Ts, r.Line, r.Val, r.Tp)
		if ls, ok := byContent[ck]; ok {
			sameFp, sameTp := false, false
			for _, l := range ls {
				if l.fp == r.Fp {
					sameFp = true
				}
				if l.tp == r.Tp {
					sameTp = true
				}
			}
			switch {
			case sameFp && sameTp:
				return "C03/" + proto + "/entry-duplicated", desc + " was emitted more often than it was submitted"
			case !sameFp:
				return "C03/" + proto + "/entry-attributed-to-another-stream", desc + " carries a fingerprint that is not its stream's"
			default:
				return "C03/" + proto + "/entry-with-wrong-type", desc + " carries a type that is not its entry's"
			}
		}
		return "C03/" + proto + "/row-not-submitted", desc + " corresponds to no submitted entry (timestamp, line or value altered)"
	}
	if len(rows) != total {
		for k, n := range want {
			if n > 0 {
				return "C03/" + proto + "/entry-lost", fmt.Sprintf("%d submitted entries, %d rows; e.g. no row for fp|ts|line|value|type = %.200s", total, len(rows), k)
			}
		}
	}
	return "", ""
}

type c03Out struct {
	op, impl  string
	key, what string
	chunks    int
	rows      int
	streams   int
	body      []byte
	model     bool
	repaired  int
}

// c03Eval: one document through parser, independent decoder, oracle; prepares the model operation.
func c03Eval(proto string, body []byte, ttl uint16) (c03Out, error) {
	var o c03Out
	o.body = body
	chunks, hang := c03Run(proto, body, ttl)
	dec, err := c03Decode(proto, body)
	if err != nil {
		return o, fmt.Errorf("independent decoder rejects a generated %s body: %v", proto, err)
	}
	exp := dec.expected(ttl)
	o.key, o.what = c03Judge(proto, exp, chunks, hang)
	o.op = fmt.Sprintf("c03 %s %d 0 %s %s", proto, ttl, c03Table(exp), dec.tree())
	o.impl = c03Show(chunks)
	if proto == "influx" {
		o.impl = c03SortRows(o.impl)
	}
	o.chunks = len(chunks)
	o.streams = len(exp)
	for _, s := range exp {
		if s.Repaired {
			o.repaired++
		}
	}
	for _, c := range chunks {
		o.rows += len(c.Rows)
	}
	return o, nil
}

// c03SortRows: Influx fields come out of a Go map; rows of one chunk are compared as a multiset.
func c03SortRows(ans string) string {
	chunks := strings.Split(ans, "|")
	for i, c := range chunks {
		parts := strings.Split(c, "/")
		if len(parts) >= 3 && parts[2] != "-" {
			rows := strings.Split(parts[2], ",")
			sort.Strings(rows)
			parts[2] = strings.Join(rows, ",")
		}
		chunks[i] = strings.Join(parts, "/")
	}
	return strings.Join(chunks, "|")
}

func c03ReplayObj(proto string, body []byte, ttl uint16) c03Replay {
	rp := c03Replay{Proto: proto, Ttl: ttl, BodyHex: hex.EncodeToString(body)}
	if proto == "loki" || proto == "ddlogs" || proto == "ddseries" || proto == "influx" {
		if len(body) < 4000 {
			rp.Body = string(body)
		}
	}
	return rp
}

type c03Batch struct {
	stream string
	ops    []string
	impl   []string
	cases  []any
}

func (b *c03Batch) flush(r *h.Result) error {
	if len(b.ops) == 0 {
		return nil
	}
	model, err := h.Model(b.ops)
	if err != nil {
		return err
	}
	for i := range b.ops {
		m := model[i]
		if strings.HasPrefix(b.ops[i], "c03 influx ") {
			m = c03SortRows(m)
		}
		if m != b.impl[i] {
			op, im, mo := b.ops[i], b.impl[i], m
			if len(op) > 300 {
				op = op[:300] + "…"
			}
			// point at the first difference
			j := 0
			for j < len(im) && j < len(mo) && im[j] == mo[j] {
				j++
			}
			lo := j - 60
			if lo < 0 {
				lo = 0
			}
			cutAt := func(s string) string {
				hi := j + 120
				if hi > len(s) {
					hi = len(s)
				}
				if lo > len(s) {
					return ""
				}
				return fmt.Sprintf("@%d …%s", j, s[lo:hi])
			}
			r.Disagree(b.stream, op, cutAt(im), cutAt(mo), b.cases[i])
		}
	}
	b.ops, b.impl, b.cases = nil, nil, nil
	return nil
}

func c03One(r *h.Result, b *c03Batch, proto string, d *c03Doc, rng *h.Rng, ttl uint16, tag string) error {
	body, err := d.bytes(rng)
	if err != nil {
		return err
	}
	o, err := c03Eval(proto, body, ttl)
	if err != nil {
		return err
	}
	sum := sha256.Sum256(body)
	r.Case(proto+":"+hex.EncodeToString(sum[:8]), o.streams >= 2 || o.chunks >= 2)
	r.Count(proto + ":docs")
	r.Count(fmt.Sprintf("%s:chunks=%s", proto, bucket(o.chunks, []int{1, 2, 3, 5, 10})))
	r.Count(fmt.Sprintf("%s:streams=%s", proto, bucket(o.streams, []int{0, 1, 2, 4, 8, 16})))
	r.Count(fmt.Sprintf("%s:rows=%s", proto, bucket(o.rows, []int{0, 1, 10, 100, 1000, 10000})))
	if ttl != 0 {
		r.Count(proto + ":ttl-header")
	}
	if o.repaired > 0 {
		r.Count(proto + ":docs-with-invalid-utf8-labels-repaired")
	}
	if tag != "" {
		r.Count(proto + ":" + tag)
	}
	if o.key != "" {
		// shrink while the same failure class persists
		small := c03Shrink(d, func(c *c03Doc) bool {
			bb, err := c.bytes(nil)
			if err != nil {
				return false
			}
			oo, err := c03Eval(proto, bb, ttl)
			return err == nil && oo.key == o.key
		})
		sb, _ := small.bytes(nil)
		so, err := c03Eval(proto, sb, ttl)
		if err == nil && so.key == o.key {
			r.Violate(o.key, so.what, c03ReplayObj(proto, sb, ttl))
		} else {
			r.Violate(o.key, o.what, c03ReplayObj(proto, body, ttl))
		}
	}
	b.ops = append(b.ops, o.op)
	b.impl = append(b.impl, o.impl)
	if len(body) < 3000 {
		b.cases = append(b.cases, c03ReplayObj(proto, body, ttl))
	} else {
		b.cases = append(b.cases, map[string]any{"proto": proto, "ttl_header": ttl, "body_bytes": len(body), "kind": tag})
	}
	if len(b.ops) >= 200 || len(body) > 100000 {
		return b.flush(r)
	}
	return nil
}

func bucket(n int, edges []int) string {
	for i, e := range edges {
		if n <= e {
			if i == 0 || edges[i-1]+1 == e {
				return fmt.Sprint(e)
			}
			return fmt.Sprintf("%d-%d", edges[i-1]+1, e)
		}
	}
	return fmt.Sprintf(">%d", edges[len(edges)-1])
}

func c03(r *h.Result, rng *h.Rng, tier string, replay string) error {
	if os.Getenv("C03_PROBE") != "" {
		return c03Probe()
	}
	c03Setup()
	r.Rule = "per protocol: documents of 0–6 streams × 0–30 entries (thorough: 5000 documents per protocol, up to 12 × 300, every 100th up to 3 × 3000), label sets drawn from a per-document pool " +
		"(shared identities, names needing sanitising, values around the 100-byte cut, __ttl_days__ labels, 10% with a TTL header), " +
		"timestamps on three days incl. midnight ±1 ns, empty streams; JSON with shuffled member order, both Loki layouts, integer and RFC 3339 " +
		"timestamps, optional third element; plus per protocol documents crossing 1 MiB (Loki: byte count exactly at the threshold and one above) " +
		"and, for remote write, the 1000-point limit before/on/after series boundaries; non-trivial = ≥ 2 streams or ≥ 2 chunks; distinct by body hash. " +
		"Decoder streams (<proto>-wire, 150 bodies per protocol, thorough 3000): RAW bytes written by the generator — members of every JSON object shuffled, " +
		"0–3 label sources (`stream` objects, `labels` texts) and 0–3 entry sources (`values`, `entries`) per Loki stream object, repeated `streams`/`series`/`ts`/`line`/`value`/" +
		"`metric`/`points`/`ddtags`/… members, \\uXXXX (surrogate pairs) and short escapes in keys and values, number spellings (exponents, > 2^63, 1e309, -0, 38 digits), " +
		"timestamps as decimal strings (+, leading zeros, int64 bounds) or RFC 3339 with every offset up to ±24:60, 0–12 fractional digits, ',' or '.', one-digit hours, " +
		"value arrays of 0–5 elements with non-number third elements, Datadog bodies as array or single object, points without timestamp/value, Influx fields of all five kinds " +
		"(message of every kind, escaped keys, ints beyond 2^53, uint64 max), OTLP bodies/attributes of every AnyValue kind nested 3 deep with colliding sanitised keys; " +
		"15% of the bodies carry one or more ill-formed parts on purpose (wrong JSON kinds, bad times, `{}` label text, non-JSON numbers); " +
		"the intermediate value is produced by the same third-party library on the same bytes (c03wire.go)"
	if replay != "" {
		raw, err := os.ReadFile(replay)
		if err != nil {
			return err
		}
		if done, err := c03wReplay(r, raw); done {
			return err
		}
		var f struct {
			Replay c03Replay `json:"replay"`
		}
		if err := json.Unmarshal(raw, &f); err != nil {
			return err
		}
		if f.Replay.Proto == "" {
			return fmt.Errorf("replay file carries no C03 case")
		}
		body, err := hex.DecodeString(f.Replay.BodyHex)
		if err != nil {
			return err
		}
		o, err := c03Eval(f.Replay.Proto, body, f.Replay.Ttl)
		if err != nil {
			return err
		}
		r.Case("replay", true)
		if o.key != "" {
			r.Violate(o.key, o.what, f.Replay)
		}
		b := &c03Batch{stream: f.Replay.Proto, ops: []string{o.op}, impl: []string{o.impl}, cases: []any{f.Replay}}
		return b.flush(r)
	}
	n, maxS, maxE := 200, 6, 30
	bigRounds := 1
	switch tier {
	case "thorough", "search":
		n, maxS, maxE = 5000, 12, 300
		bigRounds = 6
	}
	for _, proto := range c03Protos {
		prng := rng.Fork()
		r.Stream(proto + ": generated document → real bytes → unmarshal." + map[string]string{
			"loki": "DecodePushRequestStringV2", "lokiproto": "UnmarshalProtoV2 (after snappy)", "prom": "UnmarshallMetricsWriteProtoV2 (after snappy)",
			"influx": "UnmarshalInfluxDBLogsV2", "ddlogs": "UnmarshallDatadogV2JSONV2", "ddseries": "UnmarshallDatadogMetricsV2JSONV2",
			"otlp": "UnmarshalOTLPLogsV2"}[proto] + " → chunk sequence (rows, series rows, sizes) vs Ingest.Body.run; oracle: independent decoding of the bytes")
		b := &c03Batch{stream: proto}
		// fixed corpus: the shapes of the candidate defects
		for _, d := range c03Corpus(proto) {
			if err := c03One(r, b, proto, d, nil, 0, "corpus"); err != nil {
				return err
			}
		}
		for i := 0; i < n; i++ {
			ms, me := maxS, maxE
			if (tier != "quick" && i%100 == 0) || (tier == "quick" && i%40 == 0) {
				// streams with more entries than any per-stream threshold (1000 points) in every tier: a decoder that
				// hands over part of a stream before it has seen all of its members shows only here (seeded C03-3)
				ms, me = 3, 3000
			}
			d := c03Gen(proto, prng, ms, me)
			ttl := uint16(0)
			if prng.Chance(10) {
				ttl = uint16(h.Pick(prng, []int{1, 7, 365}))
			}
			if err := c03One(r, b, proto, d, prng, ttl, ""); err != nil {
				return err
			}
		}
		for k := 0; k < bigRounds; k++ {
			if err := c03One(r, b, proto, c03GenBig(proto, prng, 0), prng, 0, "crosses-1MiB"); err != nil {
				return err
			}
			if proto == "loki" || proto == "lokiproto" {
				for _, exact := range []int{1048576, 1048577} {
					if err := c03One(r, b, proto, c03GenBig(proto, prng, exact), prng, 0, fmt.Sprintf("bytes=%d", exact)); err != nil {
						return err
					}
				}
			}
		}
		if proto == "prom" {
			// the point limit at series boundaries: totals 999/1000/1001 split over two series, 1 × 1000, 1 × 1001, 1 × 2000
			for _, split := range [][]int{{999}, {1000}, {1001}, {2000}, {2001}, {600, 399}, {600, 400}, {600, 401}, {1, 999, 1}, {1000, 1000}, {999, 2, 999}, {0, 1000, 0, 1}} {
				d := &c03Doc{Proto: "prom"}
				for si, cnt := range split {
					s := rPromSeries{Labels: []c03Label{{"__name__", fmt.Sprintf("m%d", si%2)}, {"i", fmt.Sprint(si)}}}
					for j := 0; j < cnt; j++ {
						s.Samples = append(s.Samples, rPromSample{1700000000000 + int64(j), float64(si*10000 + j)})
					}
					d.Prom = append(d.Prom, s)
				}
				if err := c03One(r, b, proto, d, prng, 0, "point-limit-boundary"); err != nil {
					return err
				}
			}
		}
		if err := b.flush(r); err != nil {
			return err
		}
	}
	if err := c03wStreams(r, rng.Fork(), tier); err != nil {
		return err
	}
	r.Sample(map[string]any{"stream": "loki", "body": `{"streams":[{"stream":{"a":"b"},"values":[]},{"stream":{"c":"d"},"values":[["1700000000000000000","x",1.5]]}]}`,
		"rows": "one row: fingerprint of {c=d}, ts 1700000000000000000, line x, value 1.5, type 0 (both)"})
	return nil
}

// c03Corpus: the witnesses of the candidate defects A1–A3 and of the Influx unsigned-field drop
func c03Corpus(proto string) []*c03Doc {
	s := func(x string) *string { return &x }
	f := func(x float64) *float64 { return &x }
	switch proto {
	case "loki":
		return []*c03Doc{
			{Proto: "loki", Loki: []rLokiStream{{Labels: []c03Label{{"a", "b"}}}, {Labels: []c03Label{{"c", "d"}}, Entries: []rLokiEntry{{Ts: 1700000000000000000, Line: s("x")}}}}},
			{Proto: "loki", Loki: []rLokiStream{{Labels: []c03Label{{"1a-b", "b"}, {"__ttl_days__", "7"}}, Entries: []rLokiEntry{{Ts: 1700000000000000000, Line: s("x"), Val: f(1.5)}, {Ts: 1700000000000000001, Line: s("y"), third: 2}}}}},
			{Proto: "loki", Loki: nil},
		}
	case "lokiproto":
		return []*c03Doc{{Proto: "lokiproto", Proto2: []rProtoStream{{Labels: []c03Label{{"a", "b"}}}, {Labels: []c03Label{{"c", "d"}}, Entries: []rProtoEntry{{1700000000, 5, "x"}}}}}}
	case "prom":
		var big rPromSeries
		big.Labels = []c03Label{{"__name__", "up"}}
		for i := 0; i < 1001; i++ {
			big.Samples = append(big.Samples, rPromSample{1700000000000 + int64(i), float64(i)})
		}
		return []*c03Doc{{Proto: "prom", Prom: []rPromSeries{big}}, {Proto: "prom", Prom: []rPromSeries{{Labels: []c03Label{{"__name__", "none"}}}}}}
	case "influx":
		return []*c03Doc{{Proto: "influx", Influx: []rInfluxPoint{
			{Name: "cpu", Tags: []c03Label{{"host", "h1"}, {"b", "z"}}, Ts: 1700000000000000000, Fields: []rInfluxField{{K: "u", Kind: 'u', U: 5}, {K: "f", Kind: 'f', F: 1.5}, {K: "s", Kind: 's', S: "str"}}},
			{Name: "log", Ts: 1700000000000000000, Fields: []rInfluxField{{K: "message", Kind: 's', S: "hello w"}, {K: "n", Kind: 'i', I: 3}}}}}}
	case "ddlogs":
		return []*c03Doc{{Proto: "ddlogs", DDLogs: []rDDLog{{SourceType: "st", Message: "m1", TsMs: 1700000000000}, {Message: "m2", TsMs: 1700000000001, DDTags: "env:prod,v:1.2"}}}}
	case "ddseries":
		return []*c03Doc{{Proto: "ddseries", DDSeries: []rDDSeries{{Metric: s("m")}, {Metric: s("n"), Resources: [][]c03Label{{{"host", "h"}}}, Points: []rDDPoint{{1700000000, 2.5}}}}}}
	case "otlp":
		return []*c03Doc{{Proto: "otlp", Otlp: []rOtlpRes{{HasRes: false, Scopes: []rOtlpScope{{HasScope: false, Recs: []rOtlpRec{{Ts: 5, Sev: "info"}}}}}}}}
	}
	return nil
}

func c03Probe() error {
	for _, proto := range c03Protos {
		for _, d := range c03Corpus(proto) {
			b, err := d.bytes(nil)
			if err != nil {
				return err
			}
			o, err := c03Eval(proto, b, 0)
			if err != nil {
				return err
			}
			ans, err := h.Model([]string{o.op})
			if err != nil {
				return err
			}
			fmt.Printf("== %s %d bytes, oracle %q %s\n   impl  %.300s\n   model %.300s\n", proto, len(b), o.key, o.what, o.impl, ans[0])
		}
	}
	return nil
}
