package main

// C05 — headers and query parameters of the ingest routes.
//
// params-ctx   (in process): the real `WithOverallContextMiddleware` on generated values of X-Ttl-Days and
//              X-Async-Insert; what it stores under "TTL_DAYS" / "async" is compared with the model
//              (`IngestParams.ttlDays`, `asyncMode`; driver ops c05ttl, c05async). Oracle: the step returns, the stored
//              values have the types the context chains say (uint16, int) and lie in the range `header_params_total`
//              states.
// params-head  (child process, real handlers): every handler constructor × Content-Type values around its parser
//              keys × `?precision=` / `?from=&name=&until=` values × hostile X-Ttl-Days / X-Async-Insert / X-CH-DSN /
//              X-Scope-Meta values; the model (`IngestParams.headOf`, driver op c05head) says "rejected with status s"
//              or "parser k selected"; in the second case the request carries a body that is valid for parser k and the
//              route's success status is expected. Liveness / allocation / rectangularity oracles as for every stream.

import (
	"context"
	"fmt"
	"net/http"
	"net/http/httptest"
	"net/url"
	"strings"

	controllerv1 "github.com/metrico/qryn/writer/controller"

	"verif/harness/h"
)

var c05HostileHeaderValues = []string{"", "0", "1", "2", "7", "007", "30", "65535", "65536", "99999", "4294967296",
	"18446744073709551616", "99999999999999999999999999", "-1", "+1", " 5", "5 ", "1_0", "0x10", "1e3", "1.5", "abc", "true",
	"٣", "１", "\t7", "7\t", "00000000000000000000000000000000000000001", "١٢٣"}

func c05HeaderValue(rng *h.Rng) string {
	switch {
	case rng.Chance(35):
		// a decimal number around the uint16 range
		return fmt.Sprint(h.Pick(rng, []int{0, 1, 9, 10, 255, 256, 65534, 65535, 65536, 70000}) + rng.Intn(3) - 1 + rng.Intn(2)*rng.Intn(60000))
	case rng.Chance(70):
		return h.Pick(rng, c05HostileHeaderValues)
	}
	// printable ASCII noise (net/http refuses control bytes in header values before any handler runs)
	n := rng.Intn(12)
	b := make([]byte, n)
	for i := range b {
		b[i] = byte(33 + rng.Intn(94))
	}
	return string(b)
}

func c05ParamsCtx(r *h.Result, rng *h.Rng, n int) error {
	r.Stream("params-ctx: the real WithOverallContextMiddleware on generated X-Ttl-Days / X-Async-Insert values vs IngestParams.ttlDays / asyncMode")
	pc := controllerv1.WithOverallContextMiddleware(&controllerv1.PusherCtx{Parser: map[string]controllerv1.Requester{}})
	if len(pc.PreRequest) != 1 {
		return fmt.Errorf("WithOverallContextMiddleware registered %d pre-request steps", len(pc.PreRequest))
	}
	step := pc.PreRequest[0]
	var ops, impl, keys []string
	for i := 0; i < n; i++ {
		ttl, async := c05HeaderValue(rng), c05HeaderValue(rng)
		if i < len(c05HostileHeaderValues) {
			ttl, async = c05HostileHeaderValues[i], c05HostileHeaderValues[i]
		}
		req := httptest.NewRequest("POST", "/loki/api/v1/push", strings.NewReader("{}"))
		req.Header.Set("X-Ttl-Days", ttl)
		req.Header.Set("X-Async-Insert", async)
		req.Header.Set("X-CH-DSN", c05HeaderValue(rng))
		req.Header.Set("X-Scope-Meta", c05HeaderValue(rng))
		var got string
		func() {
			defer func() {
				if p := recover(); p != nil {
					got = fmt.Sprintf("panic: %v", p)
				}
			}()
			if err := step(httptest.NewRecorder(), req); err != nil {
				got = "error: " + err.Error()
				return
			}
			got = c05CtxValues(req.Context())
		}()
		if strings.HasPrefix(got, "panic") || strings.HasPrefix(got, "error") || strings.HasPrefix(got, "bad") {
			r.Violate("C05/header-parse/overall-middleware", fmt.Sprintf("X-Ttl-Days=%q X-Async-Insert=%q: %s", ttl, async, got),
				map[string]any{"stream": "params-ctx", "ttl": ttl, "async": async, "impl": got})
		}
		ops = append(ops, "c05ttl "+h.Hex([]byte(ttl)), "c05async "+h.Hex([]byte(async)))
		parts := strings.SplitN(got, " ", 2)
		if len(parts) != 2 {
			parts = []string{got, got}
		}
		impl = append(impl, parts[0], parts[1])
		keys = append(keys, fmt.Sprintf("ttl=%q", ttl), fmt.Sprintf("async=%q", async))
		r.Case("params-ctx:"+ttl+"|"+async, ttl != "" || async != "")
		r.Count("params-ctx:ttl-stored-" + c05Bucket(parts[0]))
	}
	model, err := h.Model(ops)
	if err != nil {
		return err
	}
	for i := range ops {
		if model[i] != impl[i] {
			r.Disagree("params-ctx", ops[i]+" ("+keys[i]+")", impl[i], model[i], map[string]any{"value": keys[i]})
		}
	}
	return nil
}

func c05Bucket(v string) string {
	switch {
	case v == "0":
		return "0"
	case len(v) <= 2:
		return "small"
	default:
		return "large"
	}
}

// "<TTL_DAYS> <async>" as stored, with the dynamic types checked
func c05CtxValues(ctx context.Context) string {
	t, ok1 := ctx.Value("TTL_DAYS").(uint16)
	a, ok2 := ctx.Value("async").(int)
	_, ok3 := ctx.Value("DSN").(string)
	_, ok4 := ctx.Value("META").(string)
	if !ok1 || !ok2 || !ok3 || !ok4 {
		return fmt.Sprintf("bad-types TTL_DAYS=%T async=%T DSN=%T META=%T", ctx.Value("TTL_DAYS"), ctx.Value("async"), ctx.Value("DSN"), ctx.Value("META"))
	}
	if a < 1 || a > 3 {
		return fmt.Sprintf("bad-range async=%d", a)
	}
	return fmt.Sprintf("%d %d", t, a)
}

// ---- params-head

type c05Handler struct {
	name   string // handler constructor
	path   string
	ok     int                                            // status of a successful push
	bodyOf func(rng *h.Rng, key string) ([]byte, string) // a valid body for the parser selected by `key`, and a query string it needs
}

// a valid body of the route as the decoder wants it (c05GenStructured sometimes wraps the body in gzip)
func c05PlainValid(rng *h.Rng, route int) c05Case {
	for {
		vc := c05GenStructured(rng, route, false)
		if vc.Req.Headers["Content-Encoding"] == "" {
			return vc
		}
	}
}

func c05StructBody(route int) func(rng *h.Rng, key string) ([]byte, string) {
	return func(rng *h.Rng, key string) ([]byte, string) {
		vc := c05PlainValid(rng, route)
		q := ""
		if i := strings.Index(vc.Req.Path, "?"); i >= 0 {
			q = vc.Req.Path[i+1:]
		}
		return vc.Req.Body, q
	}
}

func c05Handlers() []c05Handler {
	return []c05Handler{
		{"PushStreamV2", "/loki/api/v1/push", 204, func(rng *h.Rng, key string) ([]byte, string) {
			if key == "application/x-protobuf" {
				return c05PlainValid(rng, c05RLokiProto).Req.Body, ""
			}
			return c05PlainValid(rng, c05RLokiJson).Req.Body, ""
		}},
		{"PushInfluxV2", "/influx/api/v2/write", 204, c05StructBody(c05RInflux)},
		{"OTLPLogsV2", "/v1/logs", 204, c05StructBody(c05ROtlpLogs)},
		{"WriteStreamV2", "/api/v1/prom/remote/write", 204, c05StructBody(c05RPromWrite)},
		{"TargetDocV2", "/idx/_doc", 200, c05StructBody(c05RElasticDoc)},
		{"TargetBulkV2", "/_bulk", 200, c05StructBody(c05RElasticBulk)},
		{"PushV2", "/tempo/spans", 202, func(rng *h.Rng, key string) ([]byte, string) {
			if key == "ndjson" {
				return c05PlainValid(rng, c05RZipkinNd).Req.Body, ""
			}
			return c05PlainValid(rng, c05RZipkinJson).Req.Body, ""
		}},
		{"OTLPPushV2", "/v1/traces", 200, c05StructBody(c05ROtlpTraces)},
		{"PushProfileV2", "/ingest", 200, func(rng *h.Rng, key string) ([]byte, string) {
			for k := 0; k < 200; k++ {
				vc := c05PlainValid(rng, c05RProfile)
				if strings.HasPrefix(vc.Req.Headers["Content-Type"], key) {
					return vc.Req.Body, ""
				}
			}
			return nil, ""
		}},
		{"PushDatadogV2", "/api/v2/logs", 202, func(rng *h.Rng, key string) ([]byte, string) { return []byte(c05DatadogBases["datadog-logs"]), "" }},
		{"PushDatadogMetricsV2", "/api/v2/series", 202, func(rng *h.Rng, key string) ([]byte, string) {
			return []byte(c05DatadogBases["datadog-series"]), ""
		}},
		{"PushCfDatadogV2", "/cf/v1/insert", 202, func(rng *h.Rng, key string) ([]byte, string) { return []byte(c05DatadogBases["datadog-cf"]), "" }},
	}
}

var c05ContentTypes = []string{"", "*", "*/*", "application/json", "application/json; charset=utf-8", "application/jsonx", "application",
	"application/x-protobuf", "application/x-protobuf; proto=x", "application/x-protobuffer", "Application/X-Protobuf", "ndjson", "ndjsonx",
	"application/x-ndjson", "nd", "multipart/form-data", "multipart/form-data; boundary=xyz", "multipart/form", "binary/octet-stream",
	"binary/octet-streamx", "application/octet-stream", "text/plain", " application/json", "*ndjson", "\"", "a/b;c=d"}

var c05PrecisionValues = []string{"", "ns", "us", "ms", "s", "NS", "n", "m", "sec", "1", "ns ", " ns", "µs", "h"}

func (c *c05Run) paramsHeadStream(rng *h.Rng, n int, batchSize int) error {
	c.r.Stream("params-head: every ingest handler × Content-Type / ?precision= / ?from=&name=&until= / hostile X-* header values through the real handlers in the child vs IngestParams.headOf (status), liveness + allocation + rectangularity oracles")
	hs := c05Handlers()
	type pcase struct {
		hd         c05Handler
		ct         string
		ce         string
		prec       string
		from, name string
		until      string
		hasQ       [4]bool
	}
	var cases []pcase
	var ops []string
	mk := func(hd c05Handler, i int) pcase {
		pc := pcase{hd: hd, ct: h.Pick(rng, c05ContentTypes)}
		if rng.Chance(8) {
			pc.ce = h.Pick(rng, []string{"deflate", "br", "identity", "GZIP", "zstd"})
		}
		if hd.name == "PushInfluxV2" {
			pc.prec = h.Pick(rng, c05PrecisionValues)
		} else if rng.Chance(10) {
			pc.prec = h.Pick(rng, c05PrecisionValues) // a parameter the route does not read
		}
		if hd.name == "PushProfileV2" {
			pc.from, pc.until, pc.name = "1700000000", "1700000010", "app"
			switch rng.Intn(6) {
			case 0:
				pc.from = ""
			case 1:
				pc.name = ""
			case 2:
				pc.until = ""
			case 3:
				pc.from, pc.until = "", ""
			}
		}
		return pc
	}
	for i := 0; i < n; i++ {
		hd := hs[i%len(hs)]
		pc := mk(hd, i)
		if i < len(hs)*len(c05ContentTypes) {
			// the first rounds walk every handler × every content type
			pc.ct = c05ContentTypes[(i/len(hs))%len(c05ContentTypes)]
			pc.ce = ""
		}
		cases = append(cases, pc)
		// HTTP strips optional white space around a header value (net/textproto): the handler sees the trimmed text
		seenCT := strings.Trim(pc.ct, " \t")
		ops = append(ops, fmt.Sprintf("c05head %s %d %s %s %s %s %s", hd.name, c05B2i(pc.ce == ""), h.Hex([]byte(seenCT)), h.Hex([]byte(pc.prec)),
			h.Hex([]byte(pc.from)), h.Hex([]byte(pc.name)), h.Hex([]byte(pc.until))))
	}
	model, err := h.Model(ops)
	if err != nil {
		return err
	}
	for i, pc := range cases {
		want := ""
		key := ""
		switch {
		case strings.HasPrefix(model[i], "reject "):
			want = "s" + strings.TrimPrefix(model[i], "reject ")
		case strings.HasPrefix(model[i], "parser "):
			key = string(h.UnHex(strings.TrimPrefix(model[i], "parser ")))
			want = fmt.Sprintf("s%d", pc.hd.ok)
		default:
			return fmt.Errorf("driver does not know c05head: %q for %q", model[i], ops[i])
		}
		var body []byte
		extraQ := ""
		if key != "" {
			body, extraQ = pc.hd.bodyOf(rng, key)
			if body == nil {
				continue
			}
		} else {
			body, _ = pc.hd.bodyOf(rng, "*")
		}
		q := url.Values{}
		if extraQ != "" && pc.hd.name != "PushInfluxV2" && pc.hd.name != "PushProfileV2" {
			if v, err := url.ParseQuery(extraQ); err == nil {
				q = v
			}
		}
		if pc.prec != "" || pc.hd.name == "PushInfluxV2" {
			q.Set("precision", pc.prec)
		}
		if pc.hd.name == "PushProfileV2" {
			q.Set("from", pc.from)
			q.Set("name", pc.name)
			q.Set("until", pc.until)
		}
		path := pc.hd.path
		if len(q) > 0 {
			path += "?" + q.Encode()
		}
		hdr := map[string]string{"X-Ttl-Days": c05HeaderValue(rng), "X-Async-Insert": c05HeaderValue(rng), "X-Scope-Meta": c05HeaderValue(rng)}
		if pc.ct != "" {
			hdr["Content-Type"] = pc.ct
		}
		if pc.ce != "" {
			hdr["Content-Encoding"] = pc.ce
		}
		rq := c05Request{"POST", path, hdr, body}
		shape := "ct=" + pc.ct
		if pc.ce != "" {
			shape += "+ce=" + pc.ce
		}
		out, err := c.send("params-head", pc.hd.name, shape, rq, model[i])
		if err != nil {
			return err
		}
		c.r.Case(fmt.Sprintf("params-head:%s:%s:%s:%s", pc.hd.name, pc.ct, pc.prec, out), pc.ct != "" || pc.prec != "")
		c.r.Count("params-head:" + strings.SplitN(model[i], " ", 2)[0])
		if out != want {
			c.r.Disagree("params-head", fmt.Sprintf("%s Content-Type=%q Content-Encoding=%q precision=%q from=%q name=%q until=%q", pc.hd.name, pc.ct, pc.ce, pc.prec, pc.from, pc.name, pc.until),
				out, want+" ("+model[i]+")", map[string]any{"handler": pc.hd.name, "request": c05Q(rq)})
		}
		if i%53 == 0 {
			c.r.Sample(map[string]any{"stream": "params-head", "handler": pc.hd.name, "content_type": pc.ct, "precision": pc.prec, "model": model[i], "impl": out})
		}
		if (i+1)%batchSize == 0 {
			if err := c.postBatch(); err != nil {
				return err
			}
		}
	}
	return c.postBatch()
}

var _ = http.StatusOK
