package main

import (
	"fmt"
	"math"
	"regexp"
	"sort"
	"strconv"
	"strings"
	"time"

	"github.com/metrico/qryn/reader/logql/logql_parser"
	"github.com/metrico/qryn/reader/logql/logql_transpiler_v2/clickhouse_planner"
	"verif/harness/h"
)

// The stage oracle reads the REAL SQL text: it cuts the statement into its WITH sub-queries, finds the SELECT of
// every matrix stage by its source alias, and evaluates the stage's own expressions (bucket column, value column,
// label filter, HAVING) with a small interpreter on random groups of rows, against the definition of the function
// written in the query. It does not use the model.

// ---- cutting the statement
type cte struct{ alias, body string }

func matchParen(s string, i int) int { // s[i] == '(' → index of its ')'
	depth, inStr := 0, false
	for j := i; j < len(s); j++ {
		c := s[j]
		if inStr {
			if c == '\\' {
				j++
			} else if c == '\'' {
				inStr = false
			}
			continue
		}
		switch c {
		case '\'':
			inStr = true
		case '(':
			depth++
		case ')':
			depth--
			if depth == 0 {
				return j
			}
		}
	}
	return -1
}

var cteHead = regexp.MustCompile(`^,?([A-Za-z_][A-Za-z0-9_]*) as \(`)

func splitCTEs(sql string) ([]cte, string, error) {
	if !strings.HasPrefix(sql, "WITH ") {
		return nil, sql, nil
	}
	rest := sql[5:]
	var res []cte
	for {
		m := cteHead.FindStringSubmatch(rest)
		if m == nil {
			return res, rest, nil
		}
		open := len(m[0]) - 1
		end := matchParen(rest, open)
		if end < 0 {
			return nil, "", fmt.Errorf("unbalanced WITH entry %s", m[1])
		}
		res = append(res, cte{m[1], rest[open+1 : end]})
		rest = rest[end+1:]
	}
}

// c08SplitTop splits s at top-level occurrences of sep (outside parentheses and string literals)
func c08SplitTop(s, sep string) []string {
	var res []string
	depth, inStr, start := 0, false, 0
	for i := 0; i < len(s); i++ {
		c := s[i]
		if inStr {
			if c == '\\' {
				i++
			} else if c == '\'' {
				inStr = false
			}
			continue
		}
		switch c {
		case '\'':
			inStr = true
		case '(', '[':
			depth++
		case ')', ']':
			depth--
		default:
			if depth == 0 && strings.HasPrefix(s[i:], sep) {
				res = append(res, s[start:i])
				start = i + len(sep)
				i += len(sep) - 1
			}
		}
	}
	return append(res, s[start:])
}

type selectParts struct {
	cols    map[string]string // alias (or bare name) → expression text
	from    string
	prew    string
	where   string
	groupBy []string
	having  string
}

var clauseKw = []string{" FROM ", " PREWHERE ", " WHERE ", " GROUP BY ", " HAVING ", " ORDER BY ", " LIMIT "}

func parseSelect(body string) (selectParts, error) {
	p := selectParts{cols: map[string]string{}}
	if !strings.HasPrefix(body, " SELECT ") {
		return p, fmt.Errorf("not a SELECT: %.40s", body)
	}
	rest := body[len(" SELECT "):]
	// positions of the top-level clause keywords, in order
	cut := map[string]string{}
	cur := "cols"
	for {
		best, bestKw := -1, ""
		for _, kw := range clauseKw {
			parts := c08SplitTop(rest, kw)
			if len(parts) > 1 && (best < 0 || len(parts[0]) < best) {
				best, bestKw = len(parts[0]), kw
			}
		}
		if best < 0 {
			cut[cur] = rest
			break
		}
		cut[cur] = rest[:best]
		rest = rest[best+len(bestKw):]
		cur = strings.TrimSpace(bestKw)
	}
	for _, c := range c08SplitTop(cut["cols"], ", ") {
		c = strings.TrimSpace(c)
		if i := strings.LastIndex(c, " as "); i >= 0 && !strings.Contains(c[i+4:], ")") {
			p.cols[c[i+4:]] = c[:i]
		} else {
			p.cols[c] = c
		}
	}
	p.from, p.prew, p.where, p.having = cut["FROM"], cut["PREWHERE"], cut["WHERE"], strings.TrimSpace(cut["HAVING"])
	if g, ok := cut["GROUP BY"]; ok {
		for _, k := range strings.Split(g, ", ") {
			p.groupBy = append(p.groupBy, strings.TrimSpace(k))
		}
	}
	return p, nil
}

// ---- a small interpreter for the stage expressions
type srow map[string]any // float64, string, map[string]string

type exprParser struct {
	s string
	i int
}

func (p *exprParser) ws() {
	for p.i < len(p.s) && p.s[p.i] == ' ' {
		p.i++
	}
}

type node struct {
	kind string // num, str, id, call, bin
	text string
	num  float64
	args []*node
}

func (p *exprParser) parseExpr() (*node, error) {
	l, err := p.parseTerm()
	if err != nil {
		return nil, err
	}
	for {
		p.ws()
		if p.i < len(p.s) && (p.s[p.i] == '/' || p.s[p.i] == '*' || p.s[p.i] == '+' || p.s[p.i] == '-') {
			op := string(p.s[p.i])
			p.i++
			r, err := p.parseTerm()
			if err != nil {
				return nil, err
			}
			l = &node{kind: "bin", text: op, args: []*node{l, r}}
			continue
		}
		return l, nil
	}
}

func (p *exprParser) parseTerm() (*node, error) {
	p.ws()
	if p.i >= len(p.s) {
		return nil, fmt.Errorf("unexpected end")
	}
	c := p.s[p.i]
	switch {
	case c >= '0' && c <= '9':
		j := p.i
		for j < len(p.s) && (p.s[j] >= '0' && p.s[j] <= '9' || p.s[j] == '.') {
			j++
		}
		f, err := strconv.ParseFloat(p.s[p.i:j], 64)
		p.i = j
		return &node{kind: "num", num: f}, err
	case c == '\'':
		j := p.i + 1
		for j < len(p.s) && p.s[j] != '\'' {
			j++
		}
		n := &node{kind: "str", text: p.s[p.i+1 : j]}
		p.i = j + 1
		return n, nil
	case c == '(':
		p.i++
		n, err := p.parseExpr()
		if err != nil {
			return nil, err
		}
		p.ws()
		if p.i >= len(p.s) || p.s[p.i] != ')' {
			return nil, fmt.Errorf("missing )")
		}
		p.i++
		return n, nil
	default:
		j := p.i
		for j < len(p.s) && (p.s[j] == '_' || p.s[j] == '.' || p.s[j] >= 'a' && p.s[j] <= 'z' || p.s[j] >= 'A' && p.s[j] <= 'Z' || p.s[j] >= '0' && p.s[j] <= '9') {
			j++
		}
		if j == p.i {
			return nil, fmt.Errorf("unexpected %q", p.s[p.i:])
		}
		name := p.s[p.i:j]
		p.i = j
		if p.i < len(p.s) && p.s[p.i] == '(' {
			p.i++
			n := &node{kind: "call", text: name}
			p.ws()
			if p.i < len(p.s) && p.s[p.i] == ')' {
				p.i++
				return n, nil
			}
			for {
				a, err := p.parseExpr()
				if err != nil {
					return nil, err
				}
				n.args = append(n.args, a)
				p.ws()
				if p.i < len(p.s) && p.s[p.i] == ',' {
					p.i++
					continue
				}
				if p.i < len(p.s) && p.s[p.i] == ')' {
					p.i++
					return n, nil
				}
				return nil, fmt.Errorf("bad argument list of %s", name)
			}
		}
		if p.i < len(p.s) && p.s[p.i] == '[' { // map['key']
			k := strings.Index(p.s[p.i:], "]")
			key := strings.Trim(p.s[p.i+1:p.i+k], "'")
			p.i += k + 1
			return &node{kind: "index", text: name, args: []*node{{kind: "str", text: key}}}, nil
		}
		return &node{kind: "id", text: name}, nil
	}
}

func parseValueExpr(s string) (*node, error) {
	p := &exprParser{s: s}
	n, err := p.parseExpr()
	if err != nil {
		return nil, err
	}
	p.ws()
	if p.i != len(p.s) {
		return nil, fmt.Errorf("trailing %q", p.s[p.i:])
	}
	return n, nil
}

func toF(v any) (float64, bool) {
	switch x := v.(type) {
	case float64:
		return x, true
	case int:
		return float64(x), true
	}
	return 0, false
}

var aggFnNames = map[string]bool{"COUNT": true, "count": true, "sum": true, "min": true, "max": true, "avg": true, "any": true,
	"argMin": true, "argMax": true, "countMerge": true, "varPop": true, "stddevPop": true}

// evalNode: aggregates range over grp, other expressions are evaluated on row
func evalNode(n *node, row srow, grp []srow) (any, error) {
	switch n.kind {
	case "num":
		return n.num, nil
	case "str":
		return n.text, nil
	case "id":
		v, ok := row[n.text]
		if !ok {
			return nil, fmt.Errorf("unknown column %s", n.text)
		}
		return v, nil
	case "index":
		m, ok := row[n.text].(map[string]string)
		if !ok {
			return nil, fmt.Errorf("%s is not a map", n.text)
		}
		return m[n.args[0].text], nil
	case "bin":
		a, err := evalNode(n.args[0], row, grp)
		if err != nil {
			return nil, err
		}
		b, err := evalNode(n.args[1], row, grp)
		if err != nil {
			return nil, err
		}
		x, ok1 := toF(a)
		y, ok2 := toF(b)
		if !ok1 || !ok2 {
			return nil, fmt.Errorf("arithmetic on non-numbers")
		}
		switch n.text {
		case "/":
			return x / y, nil
		case "+":
			return x + y, nil
		case "-":
			return x - y, nil
		}
		return x * y, nil
	case "call":
		if aggFnNames[n.text] {
			var vals []any
			var keys []float64
			for _, r := range grp {
				if len(n.args) > 0 {
					v, err := evalNode(n.args[0], r, nil)
					if err != nil {
						return nil, err
					}
					vals = append(vals, v)
				}
				if len(n.args) > 1 {
					k, err := evalNode(n.args[1], r, nil)
					if err != nil {
						return nil, err
					}
					kf, _ := toF(k)
					keys = append(keys, kf)
				}
			}
			fl := func() []float64 {
				var fs []float64
				for _, v := range vals {
					f, _ := toF(v)
					fs = append(fs, f)
				}
				return fs
			}
			switch n.text {
			case "COUNT", "count":
				return float64(len(grp)), nil
			case "sum", "countMerge":
				s := 0.0
				for _, f := range fl() {
					s += f
				}
				return s, nil
			case "avg":
				s := 0.0
				for _, f := range fl() {
					s += f
				}
				return s / float64(len(grp)), nil
			case "min":
				m := math.Inf(1)
				for _, f := range fl() {
					m = math.Min(m, f)
				}
				return m, nil
			case "max":
				m := math.Inf(-1)
				for _, f := range fl() {
					m = math.Max(m, f)
				}
				return m, nil
			case "varPop", "stddevPop":
				fs := fl()
				m := 0.0
				for _, f := range fs {
					m += f
				}
				m /= float64(len(fs))
				v := 0.0
				for _, f := range fs {
					v += (f - m) * (f - m)
				}
				v /= float64(len(fs))
				if n.text == "stddevPop" {
					return math.Sqrt(v), nil
				}
				return v, nil
			case "any":
				return vals[0], nil
			case "argMin", "argMax":
				best := 0
				for i := range keys {
					if n.text == "argMin" && keys[i] < keys[best] || n.text == "argMax" && keys[i] > keys[best] {
						best = i
					}
				}
				return vals[best], nil
			}
		}
		var args []any
		for _, a := range n.args {
			v, err := evalNode(a, row, grp)
			if err != nil {
				return nil, err
			}
			args = append(args, v)
		}
		switch n.text {
		case "toFloat64":
			f, ok := toF(args[0])
			if !ok {
				return nil, fmt.Errorf("toFloat64 of a non-number")
			}
			return f, nil
		case "toFloat64OrZero":
			s, _ := args[0].(string)
			f, err := strconv.ParseFloat(s, 64)
			if err != nil {
				return 0.0, nil
			}
			return f, nil
		case "length":
			s, ok := args[0].(string)
			if !ok {
				return nil, fmt.Errorf("length of a non-string")
			}
			return float64(len(s)), nil
		case "intDiv":
			x, _ := toF(args[0])
			y, _ := toF(args[1])
			return float64(int64(x) / int64(y)), nil
		}
		return nil, fmt.Errorf("function %s is outside the oracle's interpreter", n.text)
	}
	return nil, fmt.Errorf("node %s", n.kind)
}

func evalText(expr string, row srow, grp []srow) (float64, error) {
	n, err := parseValueExpr(expr)
	if err != nil {
		return 0, fmt.Errorf("%q: %w", expr, err)
	}
	if row == nil && len(grp) > 0 {
		row = grp[0]
	}
	v, err := evalNode(n, row, grp)
	if err != nil {
		return 0, fmt.Errorf("%q: %w", expr, err)
	}
	f, ok := toF(v)
	if !ok {
		return 0, fmt.Errorf("%q is not a number", expr)
	}
	return f, nil
}

func near(a, b float64) bool {
	return a == b || math.Abs(a-b) <= 1e-9*math.Max(1, math.Max(math.Abs(a), math.Abs(b)))
}

var mapFilterRe = regexp.MustCompile(`^mapFilter\(\(k,v\) -> k (IN|NOT IN) \((.*?)\), (.*)\)$`)

// ---- definitions (what the written function means), in floats
func defRange(fn string, secs float64, lines []string) float64 {
	bytes := 0.0
	for _, l := range lines {
		bytes += float64(len(l))
	}
	switch fn {
	case "rate":
		return float64(len(lines)) / secs
	case "count_over_time":
		return float64(len(lines))
	case "bytes_rate":
		return bytes / secs
	case "bytes_over_time":
		return bytes
	}
	return math.NaN()
}

func defUnwrap(fn string, secs float64, ts, vs []float64) float64 {
	sum, mn, mx, first, last := 0.0, math.Inf(1), math.Inf(-1), 0, 0
	for i, v := range vs {
		sum += v
		mn, mx = math.Min(mn, v), math.Max(mx, v)
		if ts[i] < ts[first] {
			first = i
		}
		if ts[i] > ts[last] {
			last = i
		}
	}
	switch fn {
	case "rate":
		return sum / secs
	case "sum_over_time":
		return sum
	case "avg_over_time":
		return sum / float64(len(vs))
	case "min_over_time":
		return mn
	case "max_over_time":
		return mx
	case "first_over_time":
		return vs[first]
	case "last_over_time":
		return vs[last]
	case "stdvar_over_time":
		return defVariance(vs)
	case "stddev_over_time":
		return math.Sqrt(defVariance(vs))
	}
	return math.NaN()
}

func defAgg(fn string, vs []float64) float64 {
	sum, mn, mx := 0.0, math.Inf(1), math.Inf(-1)
	for _, v := range vs {
		sum += v
		mn, mx = math.Min(mn, v), math.Max(mx, v)
	}
	switch fn {
	case "sum":
		return sum
	case "avg":
		return sum / float64(len(vs))
	case "min":
		return mn
	case "max":
		return mx
	case "count":
		return float64(len(vs))
	case "stdvar":
		return defVariance(vs)
	case "stddev":
		return math.Sqrt(defVariance(vs))
	}
	return math.NaN()
}

// population variance: mean of the squared deviations from the mean (two-pass, as the definition reads)
func defVariance(vs []float64) float64 {
	mean := 0.0
	for _, v := range vs {
		mean += v / float64(len(vs))
	}
	acc := 0.0
	for _, v := range vs {
		acc += (v - mean) * (v - mean) / float64(len(vs))
	}
	return acc
}

func defCmp(op string, x, y float64) bool {
	switch op {
	case "==":
		return x == y
	case "!=":
		return x != y
	case ">":
		return x > y
	case ">=":
		return x >= y
	case "<":
		return x < y
	case "<=":
		return x <= y
	}
	return false
}

var havingRe = regexp.MustCompile(`\(\(value\) (==|!=|>=|<=|>|<) \(([0-9.]+)\)\)`)

func sameSet(a, b []string) bool {
	x, y := append([]string{}, a...), append([]string{}, b...)
	sort.Strings(x)
	sort.Strings(y)
	return strings.Join(x, "\x00") == strings.Join(y, "\x00")
}

// c08Stage: the oracle over the real SQL text
func c08Stage(r *h.Result, rng *h.Rng, n int, g mgen) error {
	r.Stream("stage-oracle: the real SQL text is cut into its WITH sub-queries; bucket column, value column, label filter, GROUP BY keys, HAVING and window literals of every matrix stage are interpreted on random groups and compared with the definition of the function written in the query (no model involved)")
	for i := 0; i < n; i++ {
		query := genMetricQuery(rng, g)
		script, err := logql_parser.Parse(query)
		if err != nil {
			continue
		}
		if _, err := serMetric(script); err != nil {
			continue
		}
		c := genMCtx(rng, scriptDuration(script))
		if err := stageCase(r, rng, query, script, c); err != nil {
			return err
		}
	}
	return nil
}

// stageCase: the stage oracle on one (query, context)
func stageCase(r *h.Result, rng *h.Rng, query string, script *logql_parser.LogQLScript, c mctx) error {
	{
		d := scriptDuration(script)
		sqlText, err := implMetricSQL(script, c)
		if err != nil {
			return nil // reported by the text stream
		}
		ctes, final, err := splitCTEs(sqlText)
		if err != nil {
			return err
		}
		ctes = append(ctes, cte{"", final})
		ra := rangeOf(script)
		secs := float64(time.Duration(d).Milliseconds()) / 1000
		trueSecs := float64(d) / 1e9
		unwrapped := false
		if np := len(ra.StrSel.Pipelines); np > 0 && ra.StrSel.Pipelines[np-1].Unwrap != nil {
			unwrapped = true
		}
		shortcut := clickhouse_planner.AnalyzeMetrics15sShortcut(script)
		rep := func(extra map[string]any) map[string]any {
			m := map[string]any{"query": query, "ctx": c, "sql": sqlText}
			for k, v := range extra {
				m[k] = v
			}
			return m
		}
		var agg *logql_parser.AggOperator
		if script.AggOperator != nil {
			agg = script.AggOperator
		}
		if script.TopK != nil && script.TopK.AggOperator != nil {
			agg = script.TopK.AggOperator
		}
		var cmps []*logql_parser.Comparison
		if ra.Comparison != nil {
			cmps = append(cmps, ra.Comparison)
		}
		if agg != nil && agg.Comparison != nil {
			cmps = append(cmps, agg.Comparison)
		}
		if script.TopK != nil && script.TopK.Comparison != nil {
			cmps = append(cmps, script.TopK.Comparison)
		}
		seenRange, seenAgg, seenCmp, seenGroupings := false, false, 0, 0
		wantGroupings := 0
		if unwrapped && (ra.ByOrWithoutPrefix != nil || ra.ByOrWithoutSuffix != nil) {
			wantGroupings++
		}
		if agg != nil { // also without grouping clause: `by ()`
			wantGroupings++
		}
		for _, ct := range ctes {
			sp, err := parseSelect(ct.body)
			if err != nil {
				return fmt.Errorf("stage oracle: %w in %s", err, sqlText)
			}
			checkBucket := func(src string, width int64, what string) {
				e, ok := sp.cols["timestamp_ns"]
				if !ok {
					r.Violate("C08/stage-without-bucket-column", what+" has no timestamp_ns column", rep(nil))
					return
				}
				for k := 0; k < 4; k++ {
					ts := int64(rng.Intn(1<<31)) * int64(1+rng.Intn(1<<20)) // below 2^53: exact in the interpreter's floats
					got, err := evalText(e, srow{src: float64(ts)}, nil)
					want := float64(ts / width * width)
					if err != nil || got != want {
						r.Violate("C08/bucket-start-wrong:"+what, fmt.Sprintf("%s: `%s` gives %v for ts=%d, the window of width %d containing it starts at %v (%v)", what, e, got, ts, width, want, err),
							rep(map[string]any{"expr": e, "ts": ts, "width": width}))
						return
					}
				}
			}
			switch {
			case strings.HasPrefix(sp.from, "agg_a as time_series"):
				seenRange = true
				checkBucket("time_series.timestamp_ns", d, "range stage")
				if !sameSet(sp.groupBy, []string{"fingerprint", "timestamp_ns"}) {
					r.Violate("C08/range-stage-group-by", fmt.Sprintf("range stage groups by %v", sp.groupBy), rep(nil))
				}
				var lines []string
				var grp []srow
				for k, m := 0, rng.Range(1, 6); k < m; k++ {
					l := strings.Repeat("x", rng.Intn(9))
					lines = append(lines, l)
					grp = append(grp, srow{"_string": l, "fingerprint": 1.0})
				}
				got, err := evalText(sp.cols["value"], nil, grp)
				want := defRange(ra.Fn, trueSecs, lines)
				if err != nil || !near(got, want) {
					r.Violate("C08/range-value-differs:"+ra.Fn, fmt.Sprintf("%s over lines %q: the SQL value `%s` gives %v, the definition %v (%v)", ra.Fn, lines, sp.cols["value"], got, want, err),
						rep(map[string]any{"expr": sp.cols["value"], "lines": lines, "got": got, "want": want}))
				}
			case strings.Contains(sp.from, " as samples") && strings.Contains(sp.cols["value"], "countMerge"):
				seenRange = true
				if !shortcut {
					r.Violate("C08/shortcut-taken-unexpectedly", "metrics_15s is read although AnalyzeMetrics15sShortcut says no", rep(nil))
				}
				checkBucket("samples.timestamp_ns", d, "metrics_15s stage")
				if d%15e9 != 0 {
					r.Violate("C08/shortcut-range-not-multiple-of-slot", fmt.Sprintf("metrics_15s slots of 15s are bucketed into windows of %d ns: a slot can straddle two windows", d), rep(nil))
				}
				var grp []srow
				total := 0.0
				for k, m := 0, rng.Range(1, 5); k < m; k++ {
					cnt := float64(rng.Range(1, 9))
					total += cnt
					grp = append(grp, srow{"count": cnt})
				}
				got, err := evalText(sp.cols["value"], nil, grp)
				want := total
				if ra.Fn == "rate" {
					want = total / trueSecs
				}
				if err != nil || !near(got, want) {
					r.Violate("C08/range-value-differs:"+ra.Fn+"(metrics_15s)", fmt.Sprintf("SQL value `%s` gives %v for slot counts summing to %v, the definition %v (%v)", sp.cols["value"], got, total, want, err), rep(nil))
				}
				lo, hi := fmt.Sprint(c.From/15e9*15e9), fmt.Sprint(c.To/15e9*15e9)
				if !strings.Contains(sp.where, "((samples.timestamp_ns) >= ("+lo+"))") || !strings.Contains(sp.where, "((samples.timestamp_ns) < ("+hi+"))") {
					r.Violate("C08/shortcut-window", "the metrics_15s scan is not confined to the whole 15s slots of the window: "+sp.where, rep(nil))
				}
			case strings.HasPrefix(sp.from, "unwrap_1"):
				seenRange = true
				checkBucket("timestamp_ns", d, "unwrap range stage")
				if !sameSet(sp.groupBy, []string{"fingerprint", "timestamp_ns"}) {
					r.Violate("C08/range-stage-group-by", fmt.Sprintf("unwrap range stage groups by %v", sp.groupBy), rep(nil))
				}
				if isIn(ra.Fn, unwrapFns) || isIn(ra.Fn, unwrapFnsExtra) {
					var grp []srow
					var ts, vs []float64
					for k, m := 0, rng.Range(1, 6); k < m; k++ {
						t, v := float64(1000+7*k+rng.Intn(5)), float64(rng.Intn(21)-10)/2
						ts, vs = append(ts, t), append(vs, v)
						grp = append(grp, srow{"unwrap_1.value": v, "unwrap_1.timestamp_ns": t})
					}
					rng.Intn(2)
					got, err := evalText(sp.cols["value"], nil, grp)
					want := defUnwrap(ra.Fn, trueSecs, ts, vs)
					if err != nil || !near(got, want) {
						r.Violate("C08/range-value-differs:unwrap:"+ra.Fn, fmt.Sprintf("%s over (ts, value) %v %v: the SQL value `%s` gives %v, the definition %v (%v)", ra.Fn, ts, vs, sp.cols["value"], got, want, err),
							rep(map[string]any{"expr": sp.cols["value"], "ts": ts, "values": vs, "got": got, "want": want}))
					}
				}
			case strings.HasPrefix(sp.from, "lra_main"):
				seenAgg = true
				if agg == nil {
					r.Violate("C08/agg-stage-unexpected", "an aggregation stage is planned that the query does not write", rep(nil))
					break
				}
				if !sameSet(sp.groupBy, []string{"fingerprint", "timestamp_ns"}) {
					r.Violate("C08/agg-stage-group-by", fmt.Sprintf("aggregation stage groups by %v", sp.groupBy), rep(nil))
				}
				if isIn(agg.Fn, aggFns) || isIn(agg.Fn, aggFnsExtra) {
					var grp []srow
					var vs []float64
					for k, m := 0, rng.Range(1, 6); k < m; k++ {
						v := float64(rng.Intn(21)-10) / 2
						vs = append(vs, v)
						grp = append(grp, srow{"lra_main.value": v})
					}
					got, err := evalText(sp.cols["value"], nil, grp)
					want := defAgg(agg.Fn, vs)
					if err != nil || !near(got, want) {
						r.Violate("C08/agg-value-differs:"+agg.Fn, fmt.Sprintf("%s over %v: the SQL value `%s` gives %v, the definition %v (%v)", agg.Fn, vs, sp.cols["value"], got, want, err),
							rep(map[string]any{"expr": sp.cols["value"], "values": vs, "got": got, "want": want}))
					}
				}
			case strings.HasPrefix(sp.from, "pre_step_fix"):
				if c.Step <= d {
					r.Violate("C08/step-fix-unexpected", "the rows are re-bucketed although the step is not larger than the range", rep(nil))
				}
				checkBucket("pre_step_fix.timestamp_ns", c.Step, "step stage")
				var grp []srow
				var ts, vs []float64
				for k, m := 0, rng.Range(1, 5); k < m; k++ {
					t, v := float64(100*k+rng.Intn(50)), float64(rng.Intn(9))
					ts, vs = append(ts, t), append(vs, v)
					grp = append(grp, srow{"pre_step_fix.value": v, "pre_step_fix.timestamp_ns": t})
				}
				got, err := evalText(sp.cols["value"], nil, grp)
				want := defUnwrap("first_over_time", 1, ts, vs)
				if err != nil || got != want {
					r.Violate("C08/step-value-differs", fmt.Sprintf("step bucket over (ts, value) %v %v: SQL `%s` gives %v, the earliest range bucket has %v (%v)", ts, vs, sp.cols["value"], got, want, err), rep(nil))
				}
			}
			// top/bottom-k: the slice is sorted best-first and cut at k
			if sl, ok := sp.cols["slice"]; ok {
				t := script.TopK
				if t == nil {
					r.Violate("C08/topk-unexpected", "a top-k stage is planned that the query does not write", rep(nil))
				} else {
					k, _ := strconv.Atoi(t.Param)
					desc := strings.Contains(sl, "arraySort(x -> (-x.1, x.2")
					asc := strings.Contains(sl, "arraySort(groupArray(")
					if !strings.HasPrefix(sl, "arraySlice(arraySort(") || !strings.HasSuffix(sl, fmt.Sprintf("), 1, %d)", k)) ||
						!strings.Contains(sl, "groupArray((par_a.value, par_a.fingerprint") || desc == asc || desc != (t.Fn == "topk") ||
						!sameSet(sp.groupBy, []string{"timestamp_ns"}) {
						r.Violate("C08/topk-slice-differs", fmt.Sprintf("%s(%s, …): the slice `%s` grouped by %v is not the %d best by value (ties by fingerprint) per timestamp", t.Fn, t.Param, sl, sp.groupBy, k), rep(nil))
					}
				}
			}
			// by / without: the labels column filtered, the fingerprint recomputed from that filtered column
			if lab, ok := sp.cols["labels"]; ok && strings.HasPrefix(lab, "mapFilter(") {
				m := mapFilterRe.FindStringSubmatch(lab)
				if m == nil && strings.HasPrefix(lab, "mapFilter((k,v) -> 0, ") {
					m = []string{lab, "IN", "", ""} // by (): no label is kept
				}
				hashCol := sp.cols["new_fingerprint"]
				if hashCol == "" {
					hashCol = sp.cols["fingerprint"]
				}
				if m == nil {
					r.Violate("C08/grouping-filter-shape", "the grouping's label filter is not k [NOT] IN (…): "+lab, rep(nil))
				} else {
					seenGroupings++
					var g *logql_parser.ByOrWithout
					// which grouping this is: the one on the range aggregation comes first in the WITH list
					if unwrapped && (ra.ByOrWithoutPrefix != nil || ra.ByOrWithoutSuffix != nil) && seenGroupings == 1 {
						g = ra.ByOrWithoutSuffix
						if g == nil {
							g = ra.ByOrWithoutPrefix
						}
					} else if agg != nil {
						g = agg.ByOrWithoutSuffix
						if g == nil {
							g = agg.ByOrWithoutPrefix
						}
						if g == nil {
							g = &logql_parser.ByOrWithout{Fn: "by"}
						}
					}
					if g == nil {
						r.Violate("C08/grouping-unexpected", "a grouping stage is planned that the query does not write", rep(nil))
					} else {
						listed := map[string]bool{}
						for _, q := range strings.Split(m[2], ",") {
							if q != "" {
								listed[strings.Trim(q, "'")] = true
							}
						}
						for _, name := range []string{"a", "app", "job", "level", "x_1", "_y", "Host", "z9", "x", "other"} {
							kept := listed[name] == (m[1] == "IN")
							want := isIn(name, g.LabelNames()) == (strings.ToLower(g.Fn) == "by")
							if kept != want {
								r.Violate("C08/grouping-keeps-wrong-labels", fmt.Sprintf("%s: label %q kept=%v by the SQL filter `%s`, the grouping says %v", g.String(), name, kept, lab, want), rep(nil))
								break
							}
						}
						if hashCol != "cityHash64(labels)" {
							r.Violate("C08/grouping-fingerprint-not-from-kept-labels", "the grouped series identity is `"+hashCol+"`, not cityHash64 of the filtered labels column", rep(nil))
						}
					}
				}
			}
			// comparisons
			for _, m := range havingRe.FindAllStringSubmatch(sp.having, -1) {
				if seenCmp >= len(cmps) {
					r.Violate("C08/comparison-unexpected", "more comparisons planned than written", rep(nil))
					break
				}
				want := cmps[seenCmp]
				seenCmp++
				lit, _ := strconv.ParseFloat(m[2], 64)
				wv, _ := strconv.ParseFloat(want.Val, 64)
				for _, x := range []float64{wv - 1, wv, wv + 1, wv + 0.5} {
					if defCmp(m[1], x, lit) != defCmp(want.Fn, x, wv) {
						r.Violate("C08/comparison-differs", fmt.Sprintf("written `%s %s`, the SQL tests `value %s %s`: they differ at value %v", want.Fn, want.Val, m[1], m[2], x), rep(nil))
						break
					}
				}
			}
			// the samples scan is confined to the window
			if strings.Contains(sp.from, " as samples") && sp.prew != "" {
				lo, hi := fmt.Sprint(c.From), fmt.Sprint(c.To)
				if !strings.Contains(sp.prew, "((samples.timestamp_ns) >= ("+lo+"))") || !strings.Contains(sp.prew, "((samples.timestamp_ns) < ("+hi+"))") {
					r.Violate("C08/samples-window", "the samples scan is not confined to [from, to): "+sp.prew, rep(nil))
				}
			}
		}
		if !seenRange {
			r.Violate("C08/range-stage-missing", "no SELECT of the statement computes the range function", rep(nil))
		}
		if (agg != nil) != seenAgg {
			r.Violate("C08/agg-stage-missing", "the vector aggregation written in the query has no SELECT", rep(nil))
		}
		if seenCmp != len(cmps) {
			r.Violate("C08/comparison-missing", fmt.Sprintf("%d comparisons written, %d HAVING tests planned", len(cmps), seenCmp), rep(nil))
		}
		if seenGroupings != wantGroupings {
			r.Violate("C08/grouping-missing", fmt.Sprintf("%d groupings written (that LogQL admits), %d label filters planned", wantGroupings, seenGroupings), rep(nil))
		}
		if secs != trueSecs {
			r.Count("stage:sub-millisecond-range")
		}
		r.Case("stage:"+query+fmt.Sprint(c), true)
	}
	return nil
}
