package main

// C02 — every INSERT block is rectangular and made only of whole submitted rows.
// Streams:
//   svc    same step-by-step runs as C01 (own seed), compared with the model including decoded blocks
//   prom   the real remote-write decoder (unmarshal.UnmarshallMetricsWriteProtoV2) vs PromDecoder.decode:
//          array lengths of the samples request it accumulates
// Oracle (no model): per block — the INSERT statement lists the Input columns in order, equal row count in
// every column, and the rows are exactly the rows of the requests resolved by that block, each row's
// fields taken from one submitted row; per parser response — all per-row arrays have equal length.

import (
	"bytes"
	"context"
	"fmt"
	"sort"
	"strings"
	"sync"
	"time"
	"unsafe"

	"github.com/metrico/qryn/writer/model"
	"github.com/metrico/qryn/writer/utils/numbercache"
	"github.com/metrico/qryn/writer/utils/proto/prompb"
	"github.com/metrico/qryn/writer/utils/unmarshal"
	"google.golang.org/protobuf/proto"
	"verif/harness/h"
)

func init() { props["C02"] = c02 }

func insertColsOf(body string) []string {
	i := strings.Index(body, "(")
	j := strings.LastIndex(body, ")")
	if i < 0 || j < i {
		return nil
	}
	var cols []string
	for _, c := range strings.Split(body[i+1:j], ",") {
		cols = append(cols, strings.Trim(strings.TrimSpace(c), "`"))
	}
	return cols
}

func rowKey(vals []uint64) string {
	var sb strings.Builder
	for _, v := range vals {
		fmt.Fprintf(&sb, "%d,", v)
	}
	return sb.String()
}

func judgeC02(r *h.Result, sc *scenario, res *scenResult) {
	// a malformed request (non-rectangular arrays, wrong payload type) is outside the property's premise
	// (C02.parser_rect): from the first one on, blocks of this run are only compared with the model
	firstBadStep := 1 << 30
	for _, id := range sortedKeys(res.reqs) {
		if res.reqs[id].nrows(sc.Kind) < 0 && res.reqs[id].step < firstBadStep {
			firstBadStep = res.reqs[id].step
		}
	}
	for i, ev := range res.events {
		if ev.Kind != "insert" {
			continue
		}
		b := ev.Blk
		// the requests this block resolves: the completions reported right after it
		var ids []int
		for j := i + 1; j < len(res.events) && res.events[j].Kind == "resolved" && res.events[j].Step == ev.Step; j++ {
			ids = append(ids, res.events[j].ID)
		}
		if ev.Step >= firstBadStep {
			r.Count("svc:block-after-malformed-request")
			continue
		}
		r.Count("svc:block-checked")
		replay := map[string]any{"stream": "svc", "scenario": sc, "impl": res.implOut}
		if ic := insertColsOf(b.Body); strings.Join(ic, ",") != strings.Join(b.Cols, ",") {
			r.Violate("C02/insert-columns-mismatch", fmt.Sprintf("%s service: INSERT lists (%s) but the Input columns are (%s)", sc.Kind,
				strings.Join(ic, ","), strings.Join(b.Cols, ",")), replay)
		}
		var want []string
		for c := range oracleCols[sc.Kind] {
			want = append(want, c)
		}
		have := append([]string{}, b.Cols...)
		sort.Strings(want)
		sort.Strings(have)
		if strings.Join(want, ",") != strings.Join(have, ",") {
			r.Violate("C02/column-set", fmt.Sprintf("%s service: block has columns %v, the table needs %v", sc.Kind, have, want), replay)
			continue
		}
		rows := b.rows()
		rect := true
		for _, n := range rows {
			if n != rows[0] {
				rect = false
			}
		}
		if !rect {
			r.Violate("C02/non-rectangular-block", fmt.Sprintf("%s service: block with per-column row counts %v (columns %v)", sc.Kind, rows, b.Cols), replay)
			continue
		}
		// rows of the block vs rows of the resolved requests (multiset of whole rows, fields by column)
		got := map[string]int{}
		for k := 0; k < rows[0]; k++ {
			vals := make([]uint64, len(b.Cols))
			for ci, c := range b.Cols {
				vals[ci] = b.Data[c][k]
			}
			got[rowKey(vals)]++
		}
		exp := map[string]int{}
		nexp := 0
		for _, id := range ids {
			req := res.reqs[id]
			n := req.nrows(sc.Kind)
			for k := 0; k < n; k++ {
				vals := make([]uint64, len(b.Cols))
				for ci, c := range b.Cols {
					vals[ci] = req.colCells(sc.Kind, c)[k]
				}
				exp[rowKey(vals)]++
				nexp++
			}
		}
		bad := nexp != rows[0]
		for k, n := range exp {
			if got[k] != n {
				bad = true
			}
		}
		if bad {
			r.Violate("C02/block-rows-differ-from-resolved-requests",
				fmt.Sprintf("%s service: block of %d rows resolves requests %v which submitted %d rows; the multisets of whole rows differ (foreign, mixed, duplicated or missing row)",
					sc.Kind, rows[0], ids, nexp), replay)
		}
	}
}

var fpCacheOnce sync.Once
var sharedFPCache *numbercache.Cache[uint64]

func fpCache() *numbercache.Cache[uint64] {
	fpCacheOnce.Do(func() {
		node := &model.DataDatabasesMap{}
		node.Node = "n1"
		sharedFPCache = numbercache.NewCache[uint64](time.Hour, func(val uint64) []byte {
			return unsafe.Slice((*byte)(unsafe.Pointer(&val)), 8)
		}, map[string]*model.DataDatabasesMap{"n1": node})
	})
	return sharedFPCache
}

func c02Prom(r *h.Result, rng *h.Rng, n int) error {
	r.Stream("prom: unmarshal.UnmarshallMetricsWriteProtoV2 on marshalled prompb.WriteRequest (series lengths around the 1000-point flush limit) vs PromDecoder.decode: total samples, total type entries")
	c0102Setup()
	cfgOnce.Do(initWriterConfig)
	var ops, impl []string
	var cases []any
	serial := 0
	for i := 0; i < n; i++ {
		var lens []int
		switch {
		case i == 0:
			lens = []int{1001} // A1 witness
		case i == 1:
			lens = []int{999, 1, 1}
		case i == 2:
			lens = []int{2500}
		default:
			k := 1 + rng.Intn(4)
			for j := 0; j < k; j++ {
				lens = append(lens, h.Pick(rng, []int{0, 1, 2, 10, 499, 500, 501, 999, 1000, 1001, 1999, 2000, 2001, 1 + rng.Intn(3000)}))
			}
		}
		req := &prompb.WriteRequest{}
		total := 0
		for _, l := range lens {
			serial++
			ts := &prompb.TimeSeries{Labels: []*prompb.Label{{Name: "__name__", Value: fmt.Sprintf("m%d", serial)}}}
			for k := 0; k < l; k++ {
				ts.Samples = append(ts.Samples, &prompb.Sample{Timestamp: int64(1700000000000 + k), Value: float64(k)})
			}
			req.Timeseries = append(req.Timeseries, ts)
			total += l
		}
		body, err := proto.Marshal(req)
		if err != nil {
			return err
		}
		out := unmarshal.UnmarshallMetricsWriteProtoV2(context.Background(), bytes.NewReader(body), fpCache().DB("n1"))
		sumRows, sumTypes := 0, 0
		perr := ""
		var shapes []string
		for resp := range out {
			if resp.Error != nil {
				perr = resp.Error.Error()
				continue
			}
			if spl, ok := resp.SamplesRequest.(*model.TimeSamplesData); ok && spl != nil {
				sumRows += len(spl.MTimestampNS)
				sumTypes += len(spl.MType)
				shape := []int{len(spl.MTimestampNS), len(spl.MFingerprint), len(spl.MMessage), len(spl.MValue), len(spl.MType)}
				shapes = append(shapes, fmt.Sprint(shape))
				for _, x := range shape {
					if x != shape[0] {
						r.Violate("C02/parser-nonrect-prom",
							fmt.Sprintf("remote-write decoder: series lengths %v give a samples request with array lengths [ts fp msg value type] = %v", lens, shape),
							map[string]any{"stream": "prom", "series_lengths": lens})
						break
					}
				}
			}
			if ts, ok := resp.TimeSeriesRequest.(*model.TimeSeriesData); ok && ts != nil {
				shape := []int{len(ts.MDate), len(ts.MLabels), len(ts.MFingerprint), len(ts.MType)}
				for _, x := range shape {
					if x != shape[0] {
						r.Violate("C02/parser-nonrect-prom-series", fmt.Sprintf("remote-write decoder: series request with array lengths %v", shape),
							map[string]any{"stream": "prom", "series_lengths": lens})
						break
					}
				}
			}
		}
		ls := make([]string, len(lens))
		for k, l := range lens {
			ls[k] = fmt.Sprint(l)
		}
		ops = append(ops, fmt.Sprintf("c02promsum 1000 1 0 %s", strings.Join(ls, ",")))
		if perr != "" {
			impl = append(impl, "error")
		} else {
			impl = append(impl, fmt.Sprintf("%d %d", sumRows, sumTypes))
		}
		cases = append(cases, map[string]any{"series_lengths": lens, "request_shapes": shapes})
		cross := false
		acc := 0
		for _, l := range lens {
			if acc%1000+l > 1000 || (acc%1000+l == 1000 && l < 1000) {
				cross = true
			}
			acc += l
		}
		r.Case(fmt.Sprintf("prom:%v", lens), cross)
		if cross {
			r.Count("prom:crosses-flush-limit")
		} else {
			r.Count("prom:below-flush-limit")
		}
		if i < 3 {
			r.Sample(map[string]any{"stream": "prom", "series_lengths": lens, "request_shapes": shapes})
		}
	}
	// the model answers "rows types calls": compare the first two numbers
	modelOut, err := h.Model(ops)
	if err != nil {
		return err
	}
	for i := range ops {
		f := strings.Fields(modelOut[i])
		m := modelOut[i]
		if len(f) == 3 {
			m = f[0] + " " + f[1]
		}
		if m != impl[i] {
			r.Disagree("prom", ops[i], impl[i], m, cases[i])
		}
	}
	return nil
}

func c02(r *h.Result, rng *h.Rng, tier string, replay string) error {
	var rep *scenario
	if replay != "" {
		if handled, err := c02Handoff(r, rng.Fork(), tier, replay); handled {
			return err
		}
		rep = loadReplayScenario(replay)
		if doc := loadReplayDoc(replay); rep != nil && doc != nil && doc["stream"] == "inflight" {
			return c02Inflight(r, rng.Fork(), 0, rep)
		}
		if rep == nil {
			if doc := loadReplayDoc(replay); doc != nil && doc["stream"] == "lock-probe" {
				return c02ReplayProbe(r, rng.Fork(), doc, "C02/")
			}
		}
	}
	nScen, maxOps, connFail, nProm := 300, 40, 12, 60
	if tier == "thorough" || tier == "search" {
		nScen, maxOps, connFail, nProm = 2400, 120, 100, 1500
	}
	r.Rule = "svc: as C01 (own seed): op sequences over the six tables with requests of 0–50 rows (thorough: also 10⁴), 12 % of the sequences may contain non-rectangular or wrongly typed requests (compared with the model only); non-trivial = at least one request and one Do; distinct by implementation event log. prom: 1–4 series with lengths drawn around the flush limit {0,1,2,10,499..501,999..1001,1999..2001,random ≤3000}; non-trivial = a flush happens inside a series. inflight: 2–5 flushes of one sub-service, each INSERT held in flight while 0, 1, 2, as many as / one / three more than the batch in flight further requests of 1–3 rows are issued (every other scenario: part of them while the flusher is held in OnBeforeInsert); consecutive INSERT outcomes differ in 85 % of the steps; non-trivial = a request issued during an INSERT and at least 2 blocks"
	r.Stream("svc: the six real insert services driven step by step vs Batcher.Multi.run; every decoded block (per-column values) is compared and judged")
	if err := runSvcStream(r, rng.Fork(), nScen, maxOps, connFail, tier != "quick", rep, judgeC02); err != nil {
		return err
	}
	if rep != nil {
		return nil
	}
	if err := c02Prom(r, rng.Fork(), nProm); err != nil {
		return err
	}
	nFlight := 120
	if tier != "quick" {
		nFlight = 1500
	}
	if err := c02Inflight(r, rng.Fork(), nFlight, nil); err != nil {
		return err
	}
	rounds, iters := 12, 120
	if tier != "quick" {
		rounds, iters = 96, 300
	}
	if err := c02LockProbe(r, rng.Fork(), rounds, iters, "C02/"); err != nil {
		return err
	}
	r.Rule += ". handoff-step / handoff-handler (c02handoff.go): Loki JSON and Zipkin bodies of 1.2–2.6 MiB parsed size (1–2 crossings of the chunk threshold, 1–4 further streams/spans after the last one); non-trivial = at least 3 responses and a retry (step) / a failed INSERT and an acknowledged push (handler)"
	_, err := c02Handoff(r, rng.Fork(), tier, "")
	return err
}
