package main

import (
	"context"
	"fmt"
	"regexp"
	"strconv"
	"strings"
	"time"

	"github.com/metrico/qryn/reader/logql/logql_transpiler_v2/shared"
	"github.com/metrico/qryn/reader/prof"
	profparser "github.com/metrico/qryn/reader/prof/parser"
	profshared "github.com/metrico/qryn/reader/prof/shared"
	v1 "github.com/metrico/qryn/reader/prof/types/v1"
	sql "github.com/metrico/qryn/reader/utils/sql_select"
	"github.com/metrico/qryn/reader/utils/tables"
	"verif/harness/h"
)

// model-prof-plans: the Pyroscope read statements (merge profiles, merge stack traces, select series, series, label names /
// values) built by the real prof.Plan* entry points vs the `Sel` terms of Prof/Planners.lean, byte for byte; the real
// statement's reflection dump is judged by `confinedDeep` for the request window (slack 0).

type c13pSel struct {
	Name string `json:"name"`
	Op   string `json:"op"`
	Val  string `json:"val"`
}

// c13pSer writes a selector list in the driver's notation `eq|ne|re|nre:<hex name>:<hex value>[:e]` (C17's convention,
// c17SelectorArg): `:e` = Go's regexp finds the anchored pattern of a =~ / !~ selector in the empty string — the answer
// the planner's acceptsEmpty gets; the regular-expression engine stays outside the model
func c13pSer(sels []c13pSel) string {
	if len(sels) == 0 {
		return "-"
	}
	var ps []string
	for _, s := range sels {
		a := c17OpName(s.Op) + ":" + hx(s.Name) + ":" + hx(s.Val)
		if s.Op == "=~" || s.Op == "!~" {
			if re, err := regexp.Compile("^(?:" + s.Val + ")$"); err == nil && re.MatchString("") {
				a += ":e"
			}
		}
		ps = append(ps, a)
	}
	return strings.Join(ps, ",")
}

func c13pHexList(xs []string) string {
	if len(xs) == 0 {
		return "-"
	}
	var ps []string
	for _, x := range xs {
		ps = append(ps, hx(x))
	}
	return strings.Join(ps, ",")
}

func c13ModelProfPlans(r *h.Result, rng *h.Rng, n int) error {
	r.Stream("model-prof-plans: prof.PlanMergeProfiles / PlanMergeTraces / PlanSelectSeries / PlanSeries / PlanLabelNames / PlanLabelValues → String vs renderSel of Prof.mergeProfiles / mergeTraces / selectSeries∘getLabels / filterLabels∘(allTimeSeries | timeSeriesSelect) / labelsNoSel — the fp sub-select of each is Prof.selectorSel of Prof.plan gre (kvRequired mask, optional OR filter; the accept-empty answer of Go's regexp travels as `:e`) — (byte-equal) + confined of the model's plan + hypotheses under lokiCfg + the real dump judged for the request window; process zone varied")
	zones := []*time.Location{time.UTC, time.FixedZone("W", -8*3600), time.FixedZone("E", 14*3600)}
	saved := time.Local
	defer func() { time.Local = saved }()
	var ops, impl []string
	var cases []any
	var tight c13Tight
	typeIds := []string{"process_cpu:cpu:nanoseconds:cpu:nanoseconds", "memory:alloc_objects:count:space:bytes", "it's:s'ample:u:p:q"}
	for i := 0; i < n; i++ {
		z := zones[i%3]
		time.Local = z
		cluster := rng.Chance(40)
		gc := genCtx(rng)
		from, to := c13Window(rng, gc.From, gc.To)
		db := fakeDB(cluster)
		pc := tables.PopulateTableNames(&shared.PlannerContext{}, db)
		var sels []c13pSel
		var psels []profparser.Selector
		for k, ns := 0, rng.Intn(4); k < ns; k++ {
			name := h.Pick(rng, c17Names)
			if rng.Chance(40) {
				name = h.Pick(rng, c17Pseudo)
			}
			s := c13pSel{name, h.Pick(rng, []string{"=", "!=", "=~", "!~"}), h.Pick(rng, c17Regex)}
			sels = append(sels, s)
			psels = append(psels, profparser.Selector{Name: s.Name, Op: s.Op, Val: profparser.Str{Str: strconv.Quote(s.Val)}})
		}
		script := &profparser.Script{Selectors: psels}
		tidS := h.Pick(rng, typeIds)
		tid, _ := profshared.ParseTypeId(tidS)
		withType := append(append([]c13pSel{}, sels...), c13pSel{"__name__", "=", tid.Tp}, c13pSel{"__period_type__", "=", tid.PeriodType},
			c13pSel{"__period_unit__", "=", tid.PeriodUnit}, c13pSel{"__sample_type__", "=", tid.SampleType}, c13pSel{"__sample_unit__", "=", tid.SampleUnit})
		tu := tid.SampleType + ":" + tid.SampleUnit
		f, t := time.Unix(0, from).In(z), time.Unix(0, to).In(z)
		ctxS := fmt.Sprintf("%d %d 0 %s %s %s %s %s", from, to, hx(pc.ProfilesSeriesGinTable), hx(pc.ProfilesSeriesGinDistTable), hx(pc.ProfilesSeriesTable),
			hx(pc.ProfilesSeriesDistTable), hx(pc.ProfilesDistTable))
		var sel sql.ISelect
		var err error
		var op, kind string
		bg := context.Background()
		switch i % 10 {
		case 0:
			kind = "merge-profiles"
			sel, err = prof.PlanMergeProfiles(bg, script, &tid, f, t, db)
			op = fmt.Sprintf("c13profplan mergeprofiles %s %s %s", ctxS, c13pSer(sels), c13pSer(withType))
		case 1:
			kind = "merge-traces"
			sel, err = prof.PlanMergeTraces(bg, script, &tid, f, t, db)
			op = fmt.Sprintf("c13profplan mergetraces %s %s %s %s", ctxS, hx(tu), c13pSer(withType), c13pSer(withType))
		case 2:
			kind = "select-series"
			var gb []string
			for k, ng := 0, rng.Intn(3); k < ng; k++ {
				gb = append(gb, h.Pick(rng, []string{"job", "env", "a'b", "pod"}))
			}
			avg := rng.Bool()
			agg := v1.TimeSeriesAggregationType_TIME_SERIES_AGGREGATION_TYPE_SUM
			if avg {
				agg = v1.TimeSeriesAggregationType_TIME_SERIES_AGGREGATION_TYPE_AVERAGE
			}
			step := int64(h.Pick(rng, []int{1, 15, 60, 3600}))
			sel, err = prof.PlanSelectSeries(bg, script, &tid, gb, agg, step, f, t, db)
			op = fmt.Sprintf("c13profplan selectseries %s %s %d %d %s %s %s", ctxS, hx(tu), b2i(avg), step, c13pHexList(gb), c13pSer(sels), c13pSer(withType))
		case 3:
			kind = "series"
			var ls []string
			for k, nl := 0, rng.Intn(3); k < nl; k++ {
				ls = append(ls, h.Pick(rng, []string{"job", "env", "a'b"}))
			}
			sel, err = prof.PlanSeries(bg, []*profparser.Script{script}, ls, f, t, db)
			sl := c13pSer(sels)
			if len(sels) == 0 {
				sl = "NOSEL"
			}
			op = fmt.Sprintf("c13profplan series %s %s %s", ctxS, c13pHexList(ls), sl)
		case 6, 7:
			// LabelNames / LabelValues with one or two selector sets: fp = the union of their selector statements
			kind = "labels-union"
			scripts := []*profparser.Script{script}
			sers := []string{c13pSer(sels)}
			if rng.Bool() {
				s2 := c13pSel{h.Pick(rng, c17Names), h.Pick(rng, []string{"=", "=~"}), h.Pick(rng, c17Regex)}
				scripts = append(scripts, &profparser.Script{Selectors: []profparser.Selector{{Name: s2.Name, Op: s2.Op, Val: profparser.Str{Str: strconv.Quote(s2.Val)}}}})
				sers = append(sers, c13pSer([]c13pSel{s2}))
			}
			if i%10 == 6 {
				sel, err = prof.PlanLabelNames(bg, scripts, f, t, db)
				op = fmt.Sprintf("c13profplan labelsunion %s %s NONE %s", ctxS, hx("key"), strings.Join(sers, "|"))
			} else {
				l := h.Pick(rng, []string{"job", "a'b", ""})
				sel, err = prof.PlanLabelValues(bg, scripts, l, f, t, db)
				op = fmt.Sprintf("c13profplan labelsunion %s %s %s %s", ctxS, hx("val"), hx(l), strings.Join(sers, "|"))
			}
		case 8:
			kind = "series-union"
			var ls []string
			for k, nl := 0, rng.Intn(3); k < nl; k++ {
				ls = append(ls, h.Pick(rng, []string{"job", "env", "a'b"}))
			}
			scripts := []*profparser.Script{script}
			sers := []string{c13pSer(sels)}
			for k, ns := 0, rng.Range(1, 3); k < ns; k++ {
				s2 := c13pSel{h.Pick(rng, append(append([]string{}, c17Names...), "service_name")), h.Pick(rng, []string{"=", "!=", "=~"}), h.Pick(rng, c17Regex)}
				scripts = append(scripts, &profparser.Script{Selectors: []profparser.Selector{{Name: s2.Name, Op: s2.Op, Val: profparser.Str{Str: strconv.Quote(s2.Val)}}}})
				sers = append(sers, c13pSer([]c13pSel{s2}))
			}
			sel, err = prof.PlanSeries(bg, scripts, ls, f, t, db)
			op = fmt.Sprintf("c13profplan seriesunion %s %s %s", ctxS, c13pHexList(ls), strings.Join(sers, "|"))
		case 9:
			kind = "analyze-query"
			sel, err = prof.PlanAnalyzeQuery(bg, script, f, t, db)
			op = fmt.Sprintf("c13profplan analyze %s %s", ctxS, c13pSer(sels))
		case 4:
			kind = "label-names"
			sel, err = prof.PlanLabelNames(bg, nil, f, t, db)
			op = fmt.Sprintf("c13profplan labelnames %s", ctxS)
		default:
			kind = "label-values"
			l := h.Pick(rng, []string{"job", "a'b", "", "service_name"})
			sel, err = prof.PlanLabelValues(bg, nil, l, f, t, db)
			op = fmt.Sprintf("c13profplan labelvalues %s %s", ctxS, hx(l))
		}
		if err != nil || sel == nil {
			r.Count("model-prof-plans:impl-error:" + kind)
			continue
		}
		text, err := sel.String(&sql.Ctx{Params: map[string]sql.SQLObject{}, Result: map[string]sql.SQLObject{}})
		if err != nil {
			r.Count("model-prof-plans:render-error:" + kind)
			continue
		}
		ops = append(ops, op)
		impl = append(impl, h.Hex([]byte(text))+" true true")
		c := map[string]any{"stream": "model-prof-plans", "kind": kind, "from": from, "to": to, "zone": z.String(), "cluster": cluster, "selectors": sels, "type_id": tidS, "sql": text}
		cases = append(cases, c)
		r.Case(fmt.Sprintf("model-prof-plans:%s:%d:%d:%v:%v:%s", kind, from, to, sels, cluster, z), true)
		r.Count("model-prof-plans:" + kind)
		// which of the two shapes of the fp sub-select the case's own selector list asks for (Pyroscope's reading, written
		// down independently of the planner: c17ProfAcceptsEmpty)
		if kind != "label-names" && kind != "label-values" {
			kv, inverted := 0, 0
			for _, s := range sels {
				pseudo := false
				for _, p := range c17Pseudo {
					pseudo = pseudo || p == s.Name
				}
				if !pseudo {
					kv++
					if c17ProfAcceptsEmpty(s.Op, s.Val) {
						inverted++
					}
				}
			}
			switch {
			case kv == 0:
				r.Count("model-prof-plans:fp:no-key-value-selector")
			case inverted == 0:
				r.Count("model-prof-plans:fp:every-bit-required")
			case inverted == kv:
				r.Count("model-prof-plans:fp:no-bit-required(no-OR-filter)")
			default:
				r.Count("model-prof-plans:fp:mixed-mask")
			}
		}
		tight.add("prof-"+kind, from, to, 0, false, 0, sel, kind, c)
		if i < 6 {
			r.Sample(map[string]any{"stream": "model-prof-plans", "kind": kind, "sql": truncS(text, 600)})
		}
	}
	if err := r.Compare("model-prof-plans", ops, impl, cases); err != nil {
		return err
	}
	return tight.judge(r)
}
