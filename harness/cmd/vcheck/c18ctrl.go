package main

// The REAL ctrl.Init / ctrl.Rotate over the fake clusters, through a build overlay (nothing is written into the
// repository): vcheck builds harness/cmd/c18ctrl with `go build -overlay`, the overlay replacing the repository's
// ctrl/maintenance/shared.go by ITS OWN TEXT plus a hook at the top of ConnectV2, and talks to it over a pipe.
// What this ties (and the in-process streams do not): ctrl/main.go Init/Rotate (init of the database, panic on its
// error, then upgrade/rotate), maintain.go InitDB (the skip for ""/default, the overwritten error of InitDBTry, SHOW
// CREATE DATABASE), UpgradeAll/upgradeDB (mode computation, the arguments of Update), RotateAll/rotateDB (duration
// parsing, `distributed = ClusterName != ""`).

import (
	"bufio"
	"encoding/json"
	"fmt"
	"io"
	"os"
	"os/exec"
	"path/filepath"
	"strconv"
	"strings"

	"verif/harness/ddl"
	"verif/harness/fakes"
	"verif/harness/h"
)

type ctrlHelper struct {
	dir string
	cmd *exec.Cmd
	in  io.WriteCloser
	out *bufio.Reader
}

var ctrlHelperOne *ctrlHelper

const ctrlHookSig = "func ConnectV2(dbObject *config.ClokiBaseDataBase, database bool) (clickhouse_v2.Conn, error) {\n"

func ctrlHelperStart() (*ctrlHelper, error) {
	if ctrlHelperOne != nil {
		return ctrlHelperOne, nil
	}
	repoDir, err := filepath.Abs(c20RepoDir())
	if err != nil {
		return nil, err
	}
	shared := filepath.Join(repoDir, "ctrl/maintenance/shared.go")
	src, err := os.ReadFile(shared)
	if err != nil {
		return nil, err
	}
	if strings.Count(string(src), ctrlHookSig) != 1 {
		return nil, fmt.Errorf("ctrl/maintenance/shared.go: the signature of ConnectV2 is not the expected one (the overlay hook cannot be placed)")
	}
	patched := strings.Replace(string(src), ctrlHookSig, ctrlHookSig+"\tif VerifConnect != nil {\n\t\treturn VerifConnect(dbObject, database)\n\t}\n", 1) +
		"\n// VerifConnect: build-overlay hook of the verification harness (not part of the repository)\nvar VerifConnect func(dbObject *config.ClokiBaseDataBase, database bool) (clickhouse_v2.Conn, error)\n"
	dir, err := os.MkdirTemp("", "c18ctrl")
	if err != nil {
		return nil, err
	}
	ps := filepath.Join(dir, "shared.go")
	if err := os.WriteFile(ps, []byte(patched), 0o644); err != nil {
		return nil, err
	}
	ov, _ := json.Marshal(map[string]any{"Replace": map[string]string{shared: ps}})
	ovPath := filepath.Join(dir, "overlay.json")
	if err := os.WriteFile(ovPath, ov, 0o644); err != nil {
		return nil, err
	}
	bin := filepath.Join(dir, "c18ctrl")
	build := exec.Command("go", "build", "-tags", "verif c18overlay", "-overlay", ovPath, "-o", bin, "./cmd/c18ctrl")
	if out, err := build.CombinedOutput(); err != nil {
		os.RemoveAll(dir)
		return nil, fmt.Errorf("building cmd/c18ctrl with the ConnectV2 overlay: %v\n%s", err, out)
	}
	cmd := exec.Command(bin)
	in, err := cmd.StdinPipe()
	if err != nil {
		return nil, err
	}
	outp, err := cmd.StdoutPipe()
	if err != nil {
		return nil, err
	}
	cmd.Stderr = os.Stderr
	if err := cmd.Start(); err != nil {
		return nil, err
	}
	ctrlHelperOne = &ctrlHelper{dir: dir, cmd: cmd, in: in, out: bufio.NewReaderSize(outp, 1<<22)}
	return ctrlHelperOne, nil
}

func ctrlHelperStop() {
	if x := ctrlHelperOne; x != nil {
		x.in.Close()
		x.cmd.Wait()
		os.RemoveAll(x.dir)
		ctrlHelperOne = nil
	}
}

func (x *ctrlHelper) call(req any, resp any) error {
	b, err := json.Marshal(req)
	if err != nil {
		return err
	}
	if _, err := x.in.Write(append(b, '\n')); err != nil {
		return fmt.Errorf("c18ctrl helper: %v", err)
	}
	line, err := x.out.ReadBytes('\n')
	if err != nil {
		return fmt.Errorf("c18ctrl helper died: %v", err)
	}
	var e struct {
		Error string `json:"error"`
	}
	if json.Unmarshal(line, &e) == nil && e.Error != "" {
		return fmt.Errorf("c18ctrl helper: %s", e.Error)
	}
	return json.Unmarshal(line, resp)
}

// ---- C18: ctrl.Init

func c18CtrlInit(r *h.Result, rng *h.Rng, tier string) error {
	x, err := ctrlHelperStart()
	if err != nil {
		return err
	}
	defer ctrlHelperStop()
	n := 120
	if tier != "quick" {
		n = 2500
	}
	r.Stream(fmt.Sprintf("ctrl-init: the REAL ctrl.Init (InitDB → InitDBTry/SHOW CREATE DATABASE, UpgradeAll → upgradeDB → Update; maintenance.ConnectV2 hooked through a build overlay, repository untouched) on the fake cluster vs the Lean cluster model: all failure points of InitDB's two calls × sets of nodes × {kill, error} for N = 1..3, and %d random schedules (modes, N, connections, failure points, parameter instances incl. database `default`, older releases)", n))
	var scheds []c18CSched
	for _, m := range ddl.Modes {
		for nn := 1; nn <= 3; nn++ {
			for call := 0; call < 3; call++ {
				for _, sel := range c18cSubsets(nn) {
					for _, kill := range []bool{false, true} {
						scheds = append(scheds, c18CSched{Kind: "cluster", Mode: m.Name, N: nn, Params: ddl.DefaultParams, Final: (nn - 1),
							Starts: []c18CStart{{Conn: 0, Fault: &fakes.ClusterFault{N: call, Sel: sel, Kill: kill}}}})
					}
				}
			}
		}
	}
	lens := make([]int, len(c18Streams))
	for i, st := range c18Streams {
		pp, _ := ddl.Split(c18Full[st.file], ddl.PinnedRule)
		lens[i] = len(pp)
	}
	for i := 0; i < n; i++ {
		m := h.Pick(rng, ddl.Modes)
		nn := rng.Range(1, 3)
		s := c18CSched{Kind: "cluster", Mode: m.Name, N: nn, Params: c18cRandParams(rng), Final: rng.Intn(nn)}
		if rng.Intn(4) == 0 {
			s.Prefix = make([]int, len(lens))
			for j := range lens {
				s.Prefix[j] = rng.Intn(lens[j] + 1)
			}
		}
		for j := rng.Range(1, 3); j > 0; j-- {
			st := c18CStart{Conn: rng.Intn(nn)}
			if !rng.Chance(20) {
				st.Fault = c18cRandFault(rng, 175, nn)
			}
			s.Starts = append(s.Starts, st)
		}
		scheds = append(scheds, s)
	}
	var ops, impl []string
	var cases []any
	for _, s := range scheds {
		type st struct {
			Conn  int                 `json:"conn"`
			Fault *fakes.ClusterFault `json:"fault,omitempty"`
		}
		q := map[string]any{"mode": s.Mode, "n": s.N, "params": s.Params, "prefix": s.Prefix}
		var starts []st
		for _, a := range s.Starts {
			starts = append(starts, st{a.Conn, a.Fault})
		}
		starts = append(starts, st{s.Final, nil}, st{s.Final, nil})
		q["starts"] = starts
		var resp struct {
			Init []struct {
				Status string `json:"status"`
				Calls  int    `json:"calls"`
				State  string `json:"state"`
			} `json:"init"`
		}
		if err := x.call(map[string]any{"init": q}, &resp); err != nil {
			return err
		}
		var ans []string
		for _, o := range resp.Init {
			ans = append(ans, fmt.Sprintf("%s/%d/%s", o.Status, o.Calls, strconv.FormatUint(fnv64(o.State), 10)))
		}
		// the oracle on the real entry point: the closing uninterrupted start completes
		if k := len(resp.Init); k >= 2 && resp.Init[k-2].Status != "done" {
			r.Violate("C18/ctrl-init-does-not-complete", fmt.Sprintf("ctrl.Init, mode %s, %d nodes: after the starts %s an uninterrupted ctrl.Init connected to node %d ends %s", s.Mode, s.N, c18cStartsStr(s.Starts), s.Final, resp.Init[k-2].Status), s)
		}
		ops = append(ops, s.op("d"))
		impl = append(impl, strings.Join(ans, " ; "))
		cases = append(cases, s)
		key, _ := json.Marshal(s)
		r.Case("ctrl-init:"+string(key), len(s.Starts) > 0)
		r.Count("ctrl-init")
	}
	return r.Compare("ctrl-init", ops, impl, cases)
}

// ---- C19: ctrl.Rotate

func c19CtrlRotate(r *h.Result, rng *h.Rng, tier string, keys c19Keys) error {
	x, err := ctrlHelperStart()
	if err != nil {
		return err
	}
	defer ctrlHelperStop()
	n := 150
	if tier != "quick" {
		n = 3000
	}
	r.Stream(fmt.Sprintf("ctrl-rotate: the REAL ctrl.Rotate (InitDB, RotateAll → rotateDB → Rotate; ConnectV2 hooked through a build overlay) on the fake cluster vs the Lean cluster model with `distributed = (cluster != \"\")`: %d chains of 1–4 runs, N = 1..3, random connections, failure points and node sets", n))
	var ops, impl []string
	var cases []any
	for i := 0; i < n; i++ {
		nn := rng.Range(1, 3)
		ch := c19CChain{Kind: "cluster:ctrl-rotate", N: nn}
		base := c19GenCfg(rng)
		cur := base
		for j := rng.Range(1, 4); j > 0; j-- {
			if rng.Intn(3) == 0 {
				cur = c19Mutate(rng, cur)
				cur.Cluster = base.Cluster
			}
			c := cur
			c.Dist = c.Cluster != "" // what rotateDB derives; the helper has no way to pass anything else
			if c.Days == 0 {
				c.Days = 1
			}
			for k := range c.Tiers { // durations go through time.ParseDuration("<n>ns")
				if c.Tiers[k].Ns == -9223372036854775808 {
					c.Tiers[k].Ns++
				}
			}
			st := c19CStep{Cfg: c, Conn: rng.Intn(nn)}
			if rng.Chance(50) {
				st.Fault = &fakes.C19CFault{At: rng.Intn(46), Sel: h.Pick(rng, c19cSubsets(rng, nn, true))}
			}
			ch.Steps = append(ch.Steps, st)
		}
		var resp struct {
			Rotate []struct {
				Ok    bool              `json:"ok"`
				Panic string            `json:"panic"`
				Log   []fakes.C19Stmt   `json:"log"`
				State *fakes.C19Cluster `json:"state"`
			} `json:"rotate"`
		}
		if err := x.call(map[string]any{"rotate": map[string]any{"n": nn, "tables": c19Tables, "init": [2]string{c19InitTTL, c19InitPolicy}, "steps": ch.Steps}}, &resp); err != nil {
			return err
		}
		var d []string
		for _, o := range resp.Rotate {
			if o.Panic != "" {
				r.Violate("C19/panic", "ctrl.Rotate panicked: "+o.Panic, ch)
			}
			d = append(d, c19StepOut{o.Ok, len(o.Log), c19LogText(o.Log), c19cStateText(o.State, keys)}.digest())
		}
		ops = append(ops, ch.op(false))
		impl = append(impl, strings.Join(d, " "))
		cases = append(cases, ch)
		key, _ := json.Marshal(ch)
		r.Case("ctrl-rotate:"+string(key), len(ch.Steps) > 1)
		r.Count("ctrl-rotate")
	}
	return r.Compare("ctrl-rotate", ops, impl, cases)
}
