package main

// C12 child process: `vcheck C12-child` (hidden subcommand, re-exec of os.Args[0]).
// Reads one JSON case per line on stdin, serves it through the REAL read routers (fakes.NewReaderRouter) over a
// real loopback HTTP server with a scripted database, and writes one JSON outcome per line on fd 3.
// A process-killing fault (un-recovered goroutine) kills THIS process; the parent sees EOF + the panic on stderr.

import (
	"strconv"
	"bufio"
	"bytes"
	"context"
	"database/sql/driver"
	"encoding/json"
	"errors"
	"fmt"
	"io"
	"log"
	"net"
	"net/http"
	"net/http/httptest"
	"os"
	"regexp"
	"runtime"
	"sort"
	"strings"
	"sync"
	"sync/atomic"
	"syscall"
	"time"

	"github.com/metrico/qryn/reader/logql/logql_parser"
	"github.com/metrico/qryn/reader/logql/logql_transpiler_v2"
	"github.com/metrico/qryn/reader/utils/logger"
	fakes "verif/harness/fakes12"
	"verif/harness/h"
)

func init() { props["C12-child"] = c12ChildMain }

// ---- wire format (parent → child)
type c12Answer struct {
	Shape    string `json:"shape"` // auto | logs | matrix | strings | … (see c12Rows); "auto" = chosen from endpoint + SQL text
	N        int    `json:"n"`     // number of rows
	Seed     uint64 `json:"seed"`
	FailAt   int    `json:"fail_at,omitempty"`  // 1-based Next call that fails (mid-stream error)
	BlockAt  int    `json:"block_at,omitempty"` // 1-based Next call that blocks until cancelled
	QueryErr bool   `json:"query_err,omitempty"`
	Block    bool   `json:"block,omitempty"`
	Corrupt  string `json:"corrupt,omitempty"` // "", "type", "null", "short"  applied to row Seed%N
}
type c12Case struct {
	ID       int               `json:"id"`
	Kind     string            `json:"kind"` // "http" (default) or a direct-stage kind, see c12stage.go
	Endpoint string            `json:"endpoint"`
	Method   string            `json:"method"`
	Path     string            `json:"path"` // path?query, already escaped
	Header   map[string]string `json:"header,omitempty"`
	Body     []byte            `json:"body,omitempty"`
	Answers  []c12Answer       `json:"answers"`
	Cluster  bool              `json:"cluster,omitempty"`
	Abort    int               `json:"abort"` // -1: read the whole response; n ≥ 0: close the connection after n response bytes
	From, To int64             // window the row timestamps are biased to (ns)
	Query    string            `json:"query,omitempty"` // the query text (for shape selection)
	Stage    *c12StageCase     `json:"stage,omitempty"`
	Class    string            `json:"class,omitempty"` // parameter class label for the distribution
	// kinds "gone" / "tail" (c12gone.go): the client goes away at the (GoneAfter+1)-th chunk (-1: before the handler starts);
	// WriteErr: the handler's writes fail from then on (tail: the TCP connection is dropped instead of a close frame)
	GoneAfter int  `json:"gone_after,omitempty"`
	WriteErr  bool `json:"write_err,omitempty"`
	// kind "cold" (c12cold.go): K concurrent requests against a cold schema-version cache
	Cold *c12ColdCase `json:"cold,omitempty"`
}

// ---- outcome (child → parent)
type c12Outcome struct {
	ID        int      `json:"id"`
	Status    int      `json:"status"`              // HTTP status, 0 = no response
	Outcome   string   `json:"outcome"`             // answered | aborted-by-client | no-response | hang | memory
	HandlerPanic string `json:"handler_panic,omitempty"` // "http: panic serving …" first line
	Leaked    []string `json:"leaked,omitempty"`    // top qryn frame of every goroutine that did not terminate
	OpenRows  int64    `json:"open_rows,omitempty"` // result sets still open after settling
	Queries   int      `json:"queries"`
	BodyBytes int      `json:"body_bytes"`
	BodyHead  string   `json:"body_head,omitempty"`
	SettleMs  int64    `json:"settle_ms"`
	AfterAbortMs int64 `json:"after_abort_ms,omitempty"` // how long the handler kept running after the client had gone
	Slow      bool     `json:"slow,omitempty"` // answered, but later than the idle deadline (body kept flowing)
	StageOut  string   `json:"stage_out,omitempty"`
	Chunks    int      `json:"chunks,omitempty"` // kinds gone/tail: Write calls of the handler / websocket messages read
	Dump      string   `json:"dump,omitempty"`
}

// ---- goroutine census: goroutines that have a qryn reader frame on their stack
var goroutineHdr = regexp.MustCompile(`^goroutine (\d+) \[`)

func c12Census() map[string]string {
	buf := make([]byte, 1<<20)
	for {
		n := runtime.Stack(buf, true)
		if n < len(buf) {
			buf = buf[:n]
			break
		}
		buf = make([]byte, 2*len(buf))
	}
	res := map[string]string{}
	for _, g := range strings.Split(string(buf), "\n\n") {
		if !strings.Contains(g, "github.com/metrico/qryn/") {
			continue
		}
		if strings.Contains(g, "dbVersion.throttle") || strings.Contains(g, "verif/harness/cmd/vcheck.c12Census") {
			continue // the 10 s cache-expiry sleeper of dbVersion; the census taker itself
		}
		m := goroutineHdr.FindStringSubmatch(g)
		if m == nil {
			continue
		}
		top := ""
		for _, l := range strings.Split(g, "\n") {
			if strings.HasPrefix(l, "github.com/metrico/qryn/") {
				top = l
				if i := strings.LastIndex(top, "("); i > 0 {
					top = top[:i]
				}
				top = strings.TrimPrefix(top, "github.com/metrico/qryn/")
				break
			}
		}
		res[m[1]] = top
	}
	return res
}

// c12Slow stretches every wall-clock allowance of the child (C12_SLOW, set by the parent for confirmation runs)
var c12Slow = time.Duration(1)

var goroutineState = regexp.MustCompile(`^goroutine \d+ \[([^\],]*)`)

// c12PendingStates: the goroutines with a qryn frame that were not there `before`, and whether EVERY one of them is parked
// in a wait that only another goroutine can end (channel operation, select, lock, condition). A goroutine that is
// runnable, running, in a syscall or sleeping can still make progress by itself: on a busy machine "still there after
// 500 ms" must not be read as "blocked".
func c12PendingStates(before map[string]string) (n int, allParked bool) {
	buf := make([]byte, 1<<20)
	for {
		k := runtime.Stack(buf, true)
		if k < len(buf) {
			buf = buf[:k]
			break
		}
		buf = make([]byte, 2*len(buf))
	}
	allParked = true
	for _, g := range strings.Split(string(buf), "\n\n") {
		if !strings.Contains(g, "github.com/metrico/qryn/") || strings.Contains(g, "dbVersion.throttle") || strings.Contains(g, "verif/harness/cmd/vcheck.c12PendingStates") {
			continue
		}
		m := goroutineHdr.FindStringSubmatch(g)
		if m == nil {
			continue
		}
		if _, ok := before[m[1]]; ok {
			continue
		}
		n++
		st := ""
		if sm := goroutineState.FindStringSubmatch(g); sm != nil {
			st = sm[1]
		}
		switch {
		case strings.HasPrefix(st, "chan "), strings.HasPrefix(st, "select"), strings.HasPrefix(st, "semacquire"), strings.HasPrefix(st, "sync."):
		default:
			allParked = false
		}
	}
	return n, allParked
}

type progressReader struct {
	r io.Reader
	n *int64
}

func (p *progressReader) Read(b []byte) (int, error) {
	n, err := p.r.Read(b)
	atomic.AddInt64(p.n, int64(n))
	return n, err
}

type lockedBuf struct {
	mtx sync.Mutex
	b   bytes.Buffer
}

func (l *lockedBuf) Write(p []byte) (int, error) {
	l.mtx.Lock()
	defer l.mtx.Unlock()
	return l.b.Write(p)
}
func (l *lockedBuf) take() string {
	l.mtx.Lock()
	defer l.mtx.Unlock()
	s := l.b.String()
	l.b.Reset()
	return s
}

type c12Child struct {
	db, dbCl   *fakes.ReaderDB
	srv, srvCl *httptest.Server
	errlog     *lockedBuf
	known      map[string]bool // goroutines already reported as leaked
	out        *json.Encoder
	deadline   time.Duration
	settle     time.Duration
	current    *c12Case
	curMtx     sync.Mutex
}

func c12ChildMain(r *h.Result, rng *h.Rng, tier, replay string) error {
	logger.Logger.SetOutput(io.Discard)
	// address-space limit: a request that tries to allocate tens of GB fails inside this process
	// ("fatal error: runtime: out of memory") instead of endangering the machine
	lim := syscall.Rlimit{Cur: 6 << 30, Max: 6 << 30}
	syscall.Setrlimit(syscall.RLIMIT_AS, &lim)
	outf := os.NewFile(3, "c12-results")
	if outf == nil {
		return fmt.Errorf("C12-child: fd 3 missing")
	}
	c := &c12Child{errlog: &lockedBuf{}, known: map[string]bool{}, out: json.NewEncoder(outf),
		deadline: 2500 * time.Millisecond, settle: 1500 * time.Millisecond}
	if tier == "thorough" {
		c.deadline = 4 * time.Second
	}
	if f, _ := strconv.Atoi(os.Getenv("C12_SLOW")); f > 1 { // confirmation run: see c12ConfirmSlow
		c.deadline *= time.Duration(f)
		c.settle *= time.Duration(f)
		c12Slow = time.Duration(f)
	}
	c.db, c.dbCl = fakes.NewReaderDB(), fakes.NewReaderDB()
	mk := func(db *fakes.ReaderDB, cluster bool) *httptest.Server {
		s := httptest.NewUnstartedServer(fakes.NewReaderRouter(db.Registry(cluster)))
		s.Config.ErrorLog = log.New(c.errlog, "", 0)
		s.Start()
		return s
	}
	c.srv, c.srvCl = mk(c.db, false), mk(c.dbCl, true)
	go c.memoryWatchdog()
	sc := bufio.NewScanner(os.Stdin)
	sc.Buffer(make([]byte, 1<<20), 1<<26)
	for sc.Scan() {
		var cs c12Case
		if err := json.Unmarshal(sc.Bytes(), &cs); err != nil {
			return fmt.Errorf("C12-child: bad case: %v", err)
		}
		c.curMtx.Lock()
		c.current = &cs
		c.curMtx.Unlock()
		o := c.run(&cs)
		if err := c.out.Encode(o); err != nil {
			return err
		}
		if o.Outcome == "hang" || o.Outcome == "memory" {
			os.Exit(3) // the stuck request may still be spinning; the parent starts a fresh child
		}
	}
	os.Exit(0)
	return nil
}

func (c *c12Child) memoryWatchdog() {
	var ms runtime.MemStats
	for {
		time.Sleep(100 * time.Millisecond)
		runtime.ReadMemStats(&ms)
		if ms.HeapAlloc > 3000<<20 {
			runtime.GC() // garbage of earlier requests does not count
			runtime.ReadMemStats(&ms)
		}
		if ms.HeapAlloc > 3000<<20 {
			c.curMtx.Lock()
			id := -1
			if c.current != nil {
				id = c.current.ID
			}
			c.curMtx.Unlock()
			c.out.Encode(c12Outcome{ID: id, Outcome: "memory", Dump: fmt.Sprintf("heap %d MiB while serving the request", ms.HeapAlloc>>20)})
			os.Exit(3)
		}
	}
}

func qrynDump() string {
	var sb strings.Builder
	if os.Getenv("C12_FULLDUMP") != "" {
		buf := make([]byte, 1<<20)
		n := runtime.Stack(buf, true)
		for _, g := range strings.Split(string(buf[:n]), "\n\n") {
			if strings.Contains(g, "github.com/metrico/qryn/") {
				sb.WriteString(g + "\n\n")
			}
		}
		return sb.String()
	}
	cs := c12Census()
	var ks []string
	for _, v := range cs {
		ks = append(ks, v)
	}
	sort.Strings(ks)
	for _, k := range ks {
		sb.WriteString(k + "; ")
	}
	return sb.String()
}

func (c *c12Child) run(cs *c12Case) c12Outcome {
	switch cs.Kind {
	case "gone":
		return c.runGone(cs)
	case "tail":
		return c.runTail(cs)
	case "cold":
		return c.runCold(cs)
	}
	if cs.Kind != "" && cs.Kind != "http" {
		return c.runStage(cs)
	}
	db, srv := c.db, c.srv
	if cs.Cluster {
		db, srv = c.dbCl, c.srvCl
	}
	db.ResetLog()
	db.SetScript(c12Script(cs))
	c.errlog.take()
	before := c12Census()
	o := c12Outcome{ID: cs.ID}

	// one fresh connection per request so that "client goes away" is a real connection close
	type result struct {
		status int
		n      int
		head   string
		state  string
	}
	done := make(chan result, 1)
	var progress int64
	ctx, cancel := context.WithCancel(context.Background())
	go func() {
		res := result{state: "no-response"}
		defer func() { done <- res }()
		conn, err := net.Dial("tcp", srv.Listener.Addr().String())
		if err != nil {
			return
		}
		defer conn.Close()
		go func() { <-ctx.Done(); conn.Close() }()
		req, err := http.NewRequest(cs.Method, "http://"+srv.Listener.Addr().String()+cs.Path, bytes.NewReader(cs.Body))
		if err != nil {
			res.state = "bad-request-line"
			return
		}
		for k, v := range cs.Header {
			req.Header.Set(k, v)
		}
		req.Close = true
		if err := req.Write(conn); err != nil {
			return
		}
		if cs.Abort == 0 {
			res.state = "aborted-by-client"
			return
		}
		resp, err := http.ReadResponse(bufio.NewReader(conn), req)
		if err != nil {
			return
		}
		res.status = resp.StatusCode
		defer resp.Body.Close()
		var body []byte
		if cs.Abort > 0 {
			body = make([]byte, cs.Abort)
			n, err := io.ReadFull(&progressReader{resp.Body, &progress}, body)
			conn.Close() // the client goes away NOW (Body.Close below would otherwise read the rest of the body)
			body = body[:n]
			if err == nil {
				res.state = "aborted-by-client"
			} else if errors.Is(err, io.EOF) || errors.Is(err, io.ErrUnexpectedEOF) {
				res.state = "answered" // body shorter than the abort point
			} else {
				res.state = "truncated"
			}
		} else {
			body, err = io.ReadAll(&progressReader{resp.Body, &progress})
			if err != nil {
				res.state = "truncated"
			} else {
				res.state = "answered"
			}
		}
		res.n = len(body)
		if len(body) > 160 {
			body = body[:160]
		}
		res.head = string(body)
	}()
	// deadline: no response byte for c.deadline (a long body that keeps flowing is slow, not stuck), hard cap 8×
	start, last, lastN := time.Now(), time.Now(), int64(0)
wait:
	for {
		select {
		case res := <-done:
			o.Status, o.BodyBytes, o.BodyHead, o.Outcome = res.status, res.n, res.head, res.state
			break wait
		case <-time.After(50 * time.Millisecond):
			if n := atomic.LoadInt64(&progress); n != lastN {
				last, lastN = time.Now(), n
			}
			if time.Since(last) > c.deadline || time.Since(start) > 8*c.deadline {
				o.Outcome = "hang"
				o.Dump = fmt.Sprintf("%d body bytes so far; ", lastN) + qrynDump()
				cancel()
				o.Queries = len(db.Log())
				return o
			}
		}
	}
	if time.Since(start) > c.deadline {
		o.Slow = true
	}
	cancel()
	// settle: every goroutine the request started must terminate, every result set must be closed
	// (after a client abort the handler keeps writing into the void until the pipeline is exhausted: that is work
	// still running, not work leaked — the settling clock starts when the handler has returned, hard cap 8 deadlines)
	t0 := time.Now()
	tHandler := time.Now()
	for {
		now := c12Census()
		var leaked []string
		handlerRunning := false
		for id, top := range now {
			if _, ok := before[id]; !ok && !c.known[id] {
				leaked = append(leaked, top)
				if strings.HasPrefix(top, "reader/controller.") {
					handlerRunning = true
				}
			}
		}
		open := db.OpenRows()
		if len(leaked) == 0 && open == 0 {
			break
		}
		if handlerRunning && time.Since(t0) < 8*c.deadline {
			tHandler = time.Now()
			o.AfterAbortMs = time.Since(t0).Milliseconds()
			time.Sleep(5 * time.Millisecond)
			continue
		}
		if time.Since(tHandler) > c.settle {
			sort.Strings(leaked)
			o.Leaked, o.OpenRows = leaked, open
			for id := range now {
				c.known[id] = true
			}
			break
		}
		time.Sleep(2 * time.Millisecond)
	}
	o.SettleMs = time.Since(t0).Milliseconds()
	o.Queries = len(db.Log())
	if l := c.errlog.take(); strings.Contains(l, "http: panic serving") {
		first := l
		if i := strings.Index(first, "\n"); i > 0 {
			first = first[:i]
		}
		if i := strings.Index(first, ": "); i > 0 { // drop the "http: panic serving 127.0.0.1:port" prefix (keeps the keys stable)
			first = first[strings.Index(first, "panic serving"):]
			if j := strings.Index(first, ": "); j > 0 {
				first = first[j+2:]
			}
		}
		o.HandlerPanic = first
		for _, fl := range strings.Split(l, "\n") {
			if strings.HasPrefix(fl, "github.com/metrico/qryn/") {
				o.Dump = strings.TrimPrefix(fl, "github.com/metrico/qryn/")
				break
			}
		}
	}
	return o
}

// ---- scripted rows
func c12Script(cs *c12Case) fakes.Script {
	s := fakes.Script{Tables: []string{"samples_v3", "time_series", "time_series_gin", "tempo_traces"}}
	idx := 0
	var mtx sync.Mutex
	s.Match = func(q string) (fakes.Answer, bool) {
		mtx.Lock()
		i := idx
		idx++
		mtx.Unlock()
		if len(cs.Answers) == 0 {
			return fakes.Rows(nil), true
		}
		if i >= len(cs.Answers) {
			i = len(cs.Answers) - 1
		}
		a := cs.Answers[i]
		shape := a.Shape
		if shape == "" || shape == "auto" {
			shape = c12AutoShape(cs, q)
		}
		ans := fakes.Answer{Rows: c12Rows(shape, a, cs), FailAt: a.FailAt, BlockAt: a.BlockAt, Block: a.Block}
		if a.QueryErr {
			ans.QueryErr = fakes.ErrQuery
		}
		return ans, true
	}
	return s
}

// c12AutoShape picks the result-set shape the code under test expects for this query, from the endpoint and
// the SQL text (so that most rows scan successfully and the post-scan code is exercised).
func c12AutoShape(cs *c12Case, q string) string {
	switch {
	case strings.HasPrefix(cs.Endpoint, "loki/query"):
		script, err := logql_parser.Parse(cs.Query)
		if err != nil {
			return "logs"
		}
		bp, _ := logql_transpiler_v2.GetBreakpoint(script)
		if script.StrSelector != nil || bp != logql_transpiler_v2.BreakpointNo {
			return "logs"
		}
		return "matrix"
	case strings.Contains(q, "JSONExtractKeysAndValues"):
		return "prom-labels"
	case strings.HasPrefix(cs.Endpoint, "prom/query"):
		return "prom-samples"
	case strings.Contains(q, "COUNT(1)") || strings.Contains(q, "count()") && strings.HasPrefix(cs.Endpoint, "tempo/search"):
		return "count"
	case cs.Endpoint == "tempo/trace":
		return "spans"
	case cs.Endpoint == "tempo/search":
		if strings.Contains(cs.Path, "q=") {
			return "traceql"
		}
		return "trace-search"
	case cs.Endpoint == "prof/ProfileTypes":
		return "prof-types"
	case cs.Endpoint == "prof/SelectMergeStacktraces" || cs.Endpoint == "prof/render-diff":
		return "prof-tree"
	case cs.Endpoint == "prof/SelectMergeProfile":
		return "prof-payload"
	case cs.Endpoint == "prof/GetProfileStats":
		return "prof-stats"
	case cs.Endpoint == "prof/AnalyzeQuery":
		return "two-ints"
	case cs.Endpoint == "prof/SelectSeries":
		return "prof-series"
	case cs.Endpoint == "prof/Series":
		return "prof-labels"
	}
	return "strings"
}

func c12Ts(r *h.Rng, cs *c12Case) int64 {
	from, to := cs.From, cs.To
	if to <= from {
		to = from + 1
	}
	switch r.Intn(12) {
	case 0:
		return from
	case 1:
		return to
	case 2:
		return from - 1
	case 3:
		return to + 1
	case 4:
		return to - 1
	case 5:
		return 0
	case 6:
		return h.Pick(r, []int64{-1, 1 << 62, -(1 << 62), 9223372036854775807, -9223372036854775808})
	default:
		return from + int64(r.U64()%uint64(to-from))
	}
}

var c12Labels = []map[string]string{{"a": "b"}, {"a": "b", "job": "x"}, {"app": "y"}, {}, {"a": "b", "level": "info", "x_1": "1.5"}}

func c12Rows(shape string, a c12Answer, cs *c12Case) [][]driver.Value {
	r := h.NewRng(a.Seed)
	rows := make([][]driver.Value, 0, a.N)
	nfp := 1 + r.Intn(3)
	for i := 0; i < a.N; i++ {
		fp := uint64(1 + (i*nfp)/(a.N+1)) // grouped by fingerprint like ORDER BY fingerprint
		if r.Chance(3) {
			fp = uint64(r.Intn(3))
		}
		lbl := map[string]string{}
		for k, v := range c12Labels[int(fp)%len(c12Labels)] {
			lbl[k] = v
		}
		var row []driver.Value
		switch shape {
		case "logs":
			msg := h.Pick(r, []string{"hello", `{"a":"bc","v":5}`, `a=b v=3 msg="x y"`, "", "{", `{"v":"1e309"}`, "\x00\xff", `{"a":{"b":[1,2]}}`})
			row = []driver.Value{fp, lbl, msg, c12Ts(r, cs)}
		case "logs-at-end":
			row = []driver.Value{uint64(1), lbl, `{"v":1}`, cs.To}
		case "spans-empty-otlp":
			row = []driver.Value{strings.Repeat("\x01", 16), strings.Repeat("\x02", 8), "", cs.From, int64(5), int8(2), ""}
		case "spans-otlp-novalue":
			// an OTLP span (protobuf) whose attribute "a" has no value: legal protobuf, stored as received
			row = []driver.Value{strings.Repeat("\x01", 16), strings.Repeat("\x02", 8), "", cs.From + int64(i), int64(5), int8(2),
				"\x0a\x10" + strings.Repeat("\x01", 16) + "\x12\x08" + strings.Repeat("\x02", 8) + "\x2a\x01n" + "\x4a\x03\x0a\x01a"}
		case "matrix-zero-ts":
			row = []driver.Value{uint64(7), lbl, float64(1), int64(0)}
		case "matrix":
			row = []driver.Value{fp, lbl, h.Pick(r, []float64{0, 1, 2.5, -1, 1e300}), c12Ts(r, cs)}
		case "prom-samples":
			row = []driver.Value{fp, h.Pick(r, []float64{0, 1, 2.5, -1}), c12Ts(r, cs) / 1000000}
		case "prom-labels":
			row = []driver.Value{uint64(1 + i), [][]any{{"__name__", "m"}, {"a", fmt.Sprint("b", i)}}}
		case "count":
			row = []driver.Value{h.Pick(r, []int64{0, 1, 10, 10001, 100000000})}
		case "spans":
			pt := int8(h.Pick(r, []int{1, 1, 2, 2, 2}))
			payload := h.Pick(r, []string{`{"traceId":"0123456789abcdef0123456789abcdef","id":"0123456789abcdef","name":"x","tags":{"a":"b"},"localEndpoint":{"serviceName":"s"}}`,
				`{"traceId":"AAAAAAAAAAAAAAAAAAAAAA==","spanId":"AAAAAAAAAAA=","name":"n","attributes":[{"key":"service.name","value":{"stringValue":"svc"}}]}`,
				"\x0a\x10" + strings.Repeat("\x01", 16) + "\x12\x08" + strings.Repeat("\x02", 8) + "\x2a\x01n", "{", "", "\xff\xff", `{"parentId":"zz","annotations":[{"timestamp":1,"value":"v"}]}`,
				`{"attributes":[{"key":1}]}`, `{"events":[{}],"attributes":[{"key":"a"}]}`, `{"attributes":[{"key":"service.name","value":{"stringValue":"s"}},{"key":"a","value":5}]}`, `{"events":[{"timeUnixNano":"1"},{"timeUnixNano":2}]}`, `[]`, `{"attributes":{}}`, `null`})
			row = []driver.Value{strings.Repeat("\x01", 16), strings.Repeat("\x02", 8), h.Pick(r, []string{"", strings.Repeat("\x03", 8)}), c12Ts(r, cs), int64(r.Intn(1000)), pt, payload}
		case "trace-search":
			row = []driver.Value{"0123456789abcdef0123456789abcdef", "svc", "name", c12Ts(r, cs), int64(r.Intn(100))}
		case "traceql":
			k := r.Intn(4)
			ids, durs, tss := make([]string, k), make([]int64, k), make([]int64, k)
			for j := 0; j < k; j++ {
				ids[j], durs[j], tss[j] = fmt.Sprintf("%016x", j), int64(r.Intn(1000)), c12Ts(r, cs)
			}
			row = []driver.Value{"0123456789abcdef0123456789abcdef", ids, durs, tss, c12Ts(r, cs), float64(r.Intn(100)), "svc", "root"}
		case "prof-types":
			row = []driver.Value{h.Pick(r, []string{"process_cpu:cpu:nanoseconds", "memory:space:bytes", "a:b:c"}), []any{"cpu", "nanoseconds"}}
		case "prof-tree":
			k := r.Intn(5)
			nodes, fns := make([][]any, 0, k), make([][]any, 0, k)
			for j := 0; j < k; j++ {
				self := int64(r.Intn(10))
				nodes = append(nodes, []any{uint64(j), uint64(10 + j), uint64(j + 1), self, self + int64(r.Intn(10))})
				fns = append(fns, []any{uint64(10 + j), fmt.Sprint("fn", j)})
			}
			row = []driver.Value{nodes, fns}
		case "prof-series":
			row = []driver.Value{c12Ts(r, cs) / 1000000, uint64(fp), [][]any{{"a", "b"}}, float64(r.Intn(10))}
		case "prof-labels":
			row = []driver.Value{[][]any{{"a", "b"}, {"service_name", "s"}}, h.Pick(r, []string{"process_cpu:cpu:nanoseconds", "a:b:c", "x"}), []any{"cpu", "nanoseconds"}}
		case "prof-payload":
			row = []driver.Value{h.Pick(r, [][]byte{{}, {0x0a, 0x00}, {0xff}, {0x08, 0x01}})}
		case "prof-stats":
			row = []driver.Value{int8(r.Intn(2)), c12Ts(r, cs), c12Ts(r, cs)}
		case "two-ints":
			row = []driver.Value{int64(r.Intn(1000)), int64(r.Intn(10))}
		default: // strings
			row = []driver.Value{h.Pick(r, []string{"a", "job", "", "x\"y", "é", `{"a":"b"}`, "\x00"})}
		}
		rows = append(rows, row)
	}
	if a.Corrupt != "" && len(rows) > 0 {
		i := int(a.Seed % uint64(len(rows)))
		row := rows[i]
		switch a.Corrupt {
		case "type":
			for j := range row {
				if shape == "spans" && j < 2 {
					continue // trace_id FixedString(16) and span_id FixedString(8): the column types fix their lengths
				}
				if r.Bool() {
					row[j] = h.Pick(r, []driver.Value{"not-a-number", int64(-1), 1.5, []byte{0xff}, true, []string{"x"}})
				}
			}
		case "null":
			row[r.Intn(len(row))] = nil
		case "short":
			rows[i] = row[:len(row)-1]
		}
	}
	return rows
}
