package main

// C12 generators: read requests for every read endpoint (Loki, Prometheus, Tempo, Pyroscope) with
// grammar-generated / mutated / random query strings and boundary-biased parameters, plus scripted result sets.

import (
	"encoding/json"
	"fmt"
	"net/url"
	"strings"

	"verif/harness/h"
)

const c12Base = int64(1700000000) // seconds; all windows are placed relative to this instant

// ---- query strings
func c12Dur(r *h.Rng) string {
	return h.Pick(r, []string{"1m", "5m", "1s", "15s", "1h", "0s", "1ns", "1ms", "90s", "2h", "0ms", "7s"})
}

// c12LogQL: log queries (logqlgen.go), internal-pipeline stages, metric queries over them
func c12LogQL(r *h.Rng) string {
	log := genLogQuery(r, 3, 3)
	if r.Chance(35) {
		log += h.Pick(r, []string{" | json", " | logfmt", ` | line_format "{{.a}} x"`, ` | json | level = "info"`, ` | json a="a"`,
			` | regexp "(?P<x>[a-z]+)"`, ` | json | label_format z=a`, ` | logfmt | drop a`, ` | json | line_format "{{.v}}"`})
	}
	switch r.Intn(10) {
	case 0, 1, 2, 3:
		return log
	case 4, 5:
		fn := h.Pick(r, []string{"rate", "count_over_time", "bytes_rate", "bytes_over_time", "absent_over_time"})
		return fmt.Sprintf("%s(%s[%s])", fn, log, c12Dur(r))
	case 6:
		fn := h.Pick(r, []string{"sum", "min", "max", "avg", "count", "stddev", "topk(2, ", "bottomk(1, "})
		by := h.Pick(r, []string{"", " by (a)", " without (job)", " by (a, job)"})
		inner := fmt.Sprintf("%s(%s[%s])", h.Pick(r, []string{"rate", "count_over_time"}), log, c12Dur(r))
		if strings.HasSuffix(fn, ", ") {
			return fn + inner + ")"
		}
		return fmt.Sprintf("%s%s (%s)", fn, by, inner)
	case 7:
		fn := h.Pick(r, []string{"sum_over_time", "avg_over_time", "max_over_time", "min_over_time", "first_over_time", "last_over_time", "rate"})
		p := h.Pick(r, []string{" | json", " | logfmt", ` | regexp "(?P<v>[0-9]+)"`, ""})
		return fmt.Sprintf("%s(%s%s | unwrap %s [%s])%s", fn, genLogQuery(r, 2, 1), p, h.Pick(r, []string{"v", "x_1", "_entry"}), c12Dur(r),
			h.Pick(r, []string{"", " by (a)"}))
	case 8:
		return fmt.Sprintf("quantile_over_time(0.9, %s | json | unwrap v [%s]) by (a)", genLogQuery(r, 2, 0), c12Dur(r))
	default:
		return fmt.Sprintf("%s(%s[%s]) %s %d", h.Pick(r, []string{"rate", "count_over_time"}), log, c12Dur(r),
			h.Pick(r, []string{">", "<", "==", "!=", ">=", "<="}), r.Intn(5))
	}
}

func c12PromQL(r *h.Rng) string {
	sel := func() string {
		m := h.Pick(r, []string{"up", "m", "http_requests_total", "a:b", ""})
		if r.Chance(60) || m == "" {
			var ms []string
			for i := r.Range(1, 3); i > 0; i-- {
				ms = append(ms, h.Pick(r, lblNames)+h.Pick(r, []string{"=", "!=", "=~", "!~"})+q(genStr(r)))
			}
			m += "{" + strings.Join(ms, ",") + "}"
		}
		return m
	}
	switch r.Intn(9) {
	case 0, 1:
		return sel()
	case 2:
		return fmt.Sprintf("%s(%s[%s])", h.Pick(r, []string{"rate", "irate", "increase", "avg_over_time", "count_over_time", "last_over_time", "absent_over_time", "stddev_over_time"}), sel(), c12Dur(r))
	case 3:
		return fmt.Sprintf("%s%s (%s)", h.Pick(r, []string{"sum", "avg", "min", "max", "count", "topk(3,"}), h.Pick(r, []string{"", " by (a)", " without (a)"}), sel())
	case 4:
		return fmt.Sprintf("%s %s %s", sel(), h.Pick(r, []string{"+", "/", "%", ">", "== bool", "and", "or", "unless", "^"}), h.Pick(r, []string{"1", "0", sel(), "vector(0)"}))
	case 5:
		return fmt.Sprintf("%s[%s:%s]", sel(), c12Dur(r), c12Dur(r))
	case 6:
		return h.Pick(r, []string{"vector(1)", "scalar(vector(1e-9))", "time()", "1/0", "vector(1)+vector(1)", "absent(nonexistent)", "histogram_quantile(0.9, m)", "label_replace(up, \"a\", \"$1\", \"b\", \"(.*)\")"})
	case 7:
		return fmt.Sprintf("%s offset %s", sel(), c12Dur(r))
	default:
		return fmt.Sprintf("%s(%s)", h.Pick(r, []string{"abs", "ceil", "sort", "timestamp", "ln", "absent"}), sel())
	}
}

func c12TraceQL(r *h.Rng) string {
	term := func() string {
		l := h.Pick(r, []string{".a", "name", "duration", ".http.status", "span.x", "resource.service.name", "status", "kind"})
		switch r.Intn(3) {
		case 0:
			return l + h.Pick(r, []string{"=", "!=", "=~", "!~"}) + q(genStr(r))
		case 1:
			return l + h.Pick(r, []string{">", "<", ">=", "<=", "="}) + h.Pick(r, []string{"1s", "0ns", "100ms", "5", "-1", "1.5", "2d"})
		default:
			return l + "=" + "`" + r.Ident(4) + "`"
		}
	}
	sel := func() string {
		n := r.Intn(4)
		var ts []string
		for i := 0; i < n; i++ {
			ts = append(ts, term())
		}
		s := "{" + strings.Join(ts, h.Pick(r, []string{" && ", " || "})) + "}"
		if r.Chance(25) {
			s += " | " + h.Pick(r, []string{"count()", "avg(duration)", "max(duration)", "sum(.x)", "min(duration)"}) + h.Pick(r, []string{" > ", " = ", " < ", " >= "}) + h.Pick(r, []string{"1", "0", "1s", "-2", "1.5ms"})
		}
		return s
	}
	s := sel()
	for i := r.Intn(3); i > 0; i-- {
		s += h.Pick(r, []string{" && ", " || "}) + sel()
	}
	return s
}

func c12ProfSel(r *h.Rng) string {
	n := r.Intn(3)
	var ts []string
	for i := 0; i < n; i++ {
		ts = append(ts, h.Pick(r, []string{"service_name", "a", "x_1"})+h.Pick(r, []string{"=", "!=", "=~", "!~"})+q(genStr(r)))
	}
	return "{" + strings.Join(ts, ", ") + "}"
}

// c12Mutate: byte-level mutation of a well-formed query; c12Random: random bytes
func c12Mutate(r *h.Rng, s string) string {
	b := []byte(s)
	for k := r.Range(1, 3); k > 0; k-- {
		if len(b) == 0 {
			b = append(b, r.Bytes(3)...)
			continue
		}
		i := r.Intn(len(b))
		switch r.Intn(5) {
		case 0:
			b = append(b[:i], b[i+1:]...)
		case 1:
			b[i] = byte(r.Intn(256))
		case 2:
			ins := h.Pick(r, []string{"(", ")", "{", "}", "[", "]", "\"", "|", "0", "[0s]", " by ", ",", "=", "\\", "`", "/*", "\x00"})
			b = append(b[:i], append([]byte(ins), b[i:]...)...)
		case 3:
			b = b[:i]
		default:
			j := r.Intn(len(b))
			b[i], b[j] = b[j], b[i]
		}
	}
	return string(b)
}

func c12QueryText(r *h.Rng, gen func(*h.Rng) string) (string, string) {
	switch k := r.Intn(10); {
	case k < 6:
		return gen(r), "grammar"
	case k < 9:
		return c12Mutate(r, gen(r)), "mutated"
	default:
		return string(r.Bytes(20)), "random"
	}
}

// ---- parameters
type c12Win struct {
	from, to int64 // seconds
	class    string
}

func c12Window(r *h.Rng) c12Win {
	span := h.Pick(r, []int64{0, 1, 59, 60, 61, 300, 3600, 6 * 3600, 86400})
	w := c12Win{from: c12Base, to: c12Base + span, class: "normal"}
	switch r.Intn(12) {
	case 0:
		w.from, w.to, w.class = w.to, w.from, "reversed"
	case 1:
		w.from, w.to, w.class = 0, 0, "zero"
	case 2:
		w.from, w.to, w.class = -span-5, -5, "negative"
	case 3:
		w.from, w.class = w.to, "empty"
	case 4:
		w.from, w.to, w.class = c12Base, c12Base+h.Pick(r, []int64{30 * 86400, 365 * 86400}), "wide"
	case 5:
		w.from, w.to, w.class = h.Pick(r, []int64{0, -9223372036, 1}), h.Pick(r, []int64{9223372036, c12Base, 253402300800}), "huge"
	}
	return w
}

// secs renders a time in the given unit with assorted spellings
func c12TimeStr(r *h.Rng, sec int64, unit int64, win string) string {
	if r.Chance(6) {
		return h.Pick(r, []string{"", "abc", "NaN", "Inf", "-Inf", "1e30", "-1e30", "9223372036854775807", "-9223372036854775808", "99999999999999999999", "0x10", " 1", "1.5.2", "2023-11-14T22:13:20Z", "2023-11-14T22:13:20+25:00", "-0"})
	}
	v := sec * unit
	if unit > 1 && (sec > 9223372036 || sec < -9223372036) {
		return fmt.Sprintf("%d000000000", sec)
	}
	switch r.Intn(6) {
	case 0:
		if unit == 1 {
			return fmt.Sprintf("%d.%03d", sec, r.Intn(1000))
		}
		return fmt.Sprintf("%d", v+int64(r.Intn(1000)))
	case 1:
		return fmt.Sprintf("%g", float64(v))
	default:
		return fmt.Sprintf("%d", v)
	}
}

func c12Step(r *h.Rng) (string, string) {
	switch r.Intn(14) {
	case 0:
		return "", "absent"
	case 1:
		return h.Pick(r, []string{"0", "0s", "0.0", "0ms", "-0"}), "zero"
	case 2:
		return h.Pick(r, []string{"-1", "-5s", "-0.001", "-1m"}), "negative"
	case 3:
		return h.Pick(r, []string{"0.0001", "1e-9", "0.0009", "1ns", "999us"}), "sub-ms"
	case 4:
		return h.Pick(r, []string{"1e18", "9223372036", "1e300", "292y", "9223372036854775807", "1e10"}), "huge"
	case 5:
		return h.Pick(r, []string{"abc", "NaN", "Inf", "1x", "1m1", " "}), "invalid"
	case 6:
		return h.Pick(r, []string{"0.001", "1ms", "0.01"}), "tiny"
	default:
		return h.Pick(r, []string{"1", "15", "60", "1m", "5s", "300", "2.5", "1h"}), "normal"
	}
}

func c12Limit(r *h.Rng) string {
	return h.Pick(r, []string{"", "", "0", "1", "2", "99", "100", "101", "5000", "-1", "abc", "1e3", "9223372036854775807", "-9223372036854775808", "99999999999999999999"})
}

func c12Answers(r *h.Rng, tier string) ([]c12Answer, string) {
	n := h.Pick(r, []int{0, 1, 2, 3, 50, 99, 100, 101, 199, 200, 201, 300})
	a := c12Answer{Shape: "auto", N: n, Seed: r.U64()}
	class := "rows"
	k := r.Intn(12)
	if tier == "search" {
		k = r.Intn(6) // two thirds of the scripts fail somewhere
	}
	switch k {
	case 0:
		a.QueryErr, class = true, "query-error"
	case 1, 2:
		a.FailAt, class = h.Pick(r, []int{1, 2, n/2 + 1, n, n + 1, 100, 101}), "mid-stream-error"
		if a.FailAt < 1 {
			a.FailAt = 1
		}
	case 3, 4:
		a.Corrupt, class = h.Pick(r, []string{"type", "null", "short"}), "corrupt-row"
	}
	as := []c12Answer{a}
	// later queries of the same request (label fetch, second portion …) get their own answer
	b := c12Answer{Shape: "auto", N: h.Pick(r, []int{0, 1, 3, 100, 101}), Seed: r.U64()}
	if r.Chance(8) {
		b.QueryErr = true
		class += "+2nd-query-error"
	} else if r.Chance(8) {
		b.FailAt = 1 + r.Intn(b.N+1)
		class += "+2nd-mid-stream-error"
	}
	return append(as, b), class
}

// ---- requests per endpoint
type c12EndpointGen struct {
	name string
	gen  func(r *h.Rng, c *c12Case)
}

func c12Q(vals url.Values) string { return vals.Encode() }

func setIf(v url.Values, k, s string, absentPct int, r *h.Rng) {
	if r.Chance(absentPct) {
		return
	}
	v.Set(k, s)
}

func c12FormOrQuery(r *h.Rng, c *c12Case, path string, v url.Values) {
	if (c.Method == "POST") && r.Bool() {
		c.Path = path
		c.Header = map[string]string{"Content-Type": "application/x-www-form-urlencoded"}
		c.Body = []byte(v.Encode())
		return
	}
	c.Path = path + "?" + v.Encode()
}

var c12Endpoints = []c12EndpointGen{
	{"loki/query_range", func(r *h.Rng, c *c12Case) {
		w := c12Window(r)
		query, qc := c12QueryText(r, c12LogQL)
		step, sc := c12Step(r)
		v := url.Values{}
		setIf(v, "query", query, 2, r)
		setIf(v, "start", c12TimeStr(r, w.from, 1e9, w.class), 3, r)
		setIf(v, "end", c12TimeStr(r, w.to, 1e9, w.class), 3, r)
		if sc != "absent" {
			v.Set("step", step)
		}
		if l := c12Limit(r); l != "" {
			v.Set("limit", l)
		}
		setIf(v, "direction", h.Pick(r, []string{"forward", "backward", "FORWARD", "x"}), 40, r)
		c.Method, c.Path, c.Query = "GET", "/loki/api/v1/query_range?"+c12Q(v), query
		c.From, c.To, c.Class = w.from*1e9, w.to*1e9, "q="+qc+" win="+w.class+" step="+sc
	}},
	{"loki/query", func(r *h.Rng, c *c12Case) {
		query, qc := c12QueryText(r, c12LogQL)
		step, sc := c12Step(r)
		v := url.Values{}
		setIf(v, "query", query, 2, r)
		t := c12Base
		tc := "normal"
		if r.Chance(30) {
			t, tc = h.Pick(r, []int64{0, -1, 1, 299, 300, 301, 9223372036, -9223372036}), "edge"
		}
		setIf(v, "time", c12TimeStr(r, t, 1e9, tc), 10, r)
		if sc != "absent" {
			v.Set("step", step)
		}
		if l := c12Limit(r); l != "" {
			v.Set("limit", l)
		}
		c.Method, c.Path, c.Query = "GET", "/loki/api/v1/query?"+c12Q(v), query
		c.From, c.To, c.Class = (t-300)*1e9, t*1e9, "q="+qc+" time="+tc+" step="+sc
	}},
	{"loki/labels", func(r *h.Rng, c *c12Case) {
		w := c12Window(r)
		v := url.Values{}
		setIf(v, "start", c12TimeStr(r, w.from, 1e9, w.class), 20, r)
		setIf(v, "end", c12TimeStr(r, w.to, 1e9, w.class), 20, r)
		c.Method = h.Pick(r, []string{"GET", "POST"})
		c12FormOrQuery(r, c, h.Pick(r, []string{"/loki/api/v1/label", "/loki/api/v1/labels"}), v)
		c.From, c.To, c.Class = w.from*1e9, w.to*1e9, "win="+w.class
	}},
	{"loki/label_values", func(r *h.Rng, c *c12Case) {
		w := c12Window(r)
		v := url.Values{}
		setIf(v, "start", c12TimeStr(r, w.from, 1e9, w.class), 20, r)
		setIf(v, "end", c12TimeStr(r, w.to, 1e9, w.class), 20, r)
		qc := "none"
		for i := r.Intn(3); i > 0; i-- {
			var m string
			m, qc = c12QueryText(r, func(r *h.Rng) string { return genLogQuery(r, 3, 0) })
			v.Add("match[]", m)
		}
		c.Method = h.Pick(r, []string{"GET", "POST"})
		name := h.Pick(r, []string{"a", "job", "x%20y", "%27", "%00", "a%2Fb", "é"})
		c12FormOrQuery(r, c, "/loki/api/v1/label/"+name+"/values", v)
		c.From, c.To, c.Class = w.from*1e9, w.to*1e9, "match="+qc+" win="+w.class
	}},
	{"loki/series", func(r *h.Rng, c *c12Case) {
		w := c12Window(r)
		v := url.Values{}
		setIf(v, "start", c12TimeStr(r, w.from, 1e9, w.class), 20, r)
		setIf(v, "end", c12TimeStr(r, w.to, 1e9, w.class), 20, r)
		qc := "none"
		for i := r.Intn(4); i > 0; i-- {
			var m string
			m, qc = c12QueryText(r, func(r *h.Rng) string { return genLogQuery(r, 3, 0) })
			v.Add("match[]", m)
		}
		c.Method = h.Pick(r, []string{"GET", "POST"})
		c12FormOrQuery(r, c, "/loki/api/v1/series", v)
		c.From, c.To, c.Class = w.from*1e9, w.to*1e9, "match="+qc+" win="+w.class
	}},
	{"prom/query_range", func(r *h.Rng, c *c12Case) {
		w := c12Window(r)
		query, qc := c12QueryText(r, c12PromQL)
		step, sc := c12Step(r)
		v := url.Values{}
		setIf(v, "query", query, 2, r)
		setIf(v, "start", c12TimeStr(r, w.from, 1, w.class), 5, r)
		setIf(v, "end", c12TimeStr(r, w.to, 1, w.class), 5, r)
		if sc != "absent" {
			v.Set("step", step)
		}
		c.Method, c.Query = h.Pick(r, []string{"GET", "POST"}), query
		c12FormOrQuery(r, c, "/api/v1/query_range", v)
		c.From, c.To, c.Class = w.from*1e9, w.to*1e9, "q="+qc+" win="+w.class+" step="+sc
	}},
	{"prom/query", func(r *h.Rng, c *c12Case) {
		query, qc := c12QueryText(r, c12PromQL)
		v := url.Values{}
		setIf(v, "query", query, 2, r)
		t, tc := c12Base, "normal"
		if r.Chance(30) {
			t, tc = h.Pick(r, []int64{0, -1, 1, 9223372036, -9223372036, 253402300800}), "edge"
		}
		setIf(v, "time", c12TimeStr(r, t, 1, tc), 20, r)
		c.Method, c.Query = h.Pick(r, []string{"GET", "POST"}), query
		c12FormOrQuery(r, c, "/api/v1/query", v)
		c.From, c.To, c.Class = (t-300)*1e9, t*1e9, "q="+qc+" time="+tc
	}},
	{"prom/labels", func(r *h.Rng, c *c12Case) {
		w := c12Window(r)
		v := url.Values{}
		setIf(v, "start", c12TimeStr(r, w.from, 1, w.class), 20, r)
		setIf(v, "end", c12TimeStr(r, w.to, 1, w.class), 20, r)
		c.Method = h.Pick(r, []string{"GET", "POST"})
		c12FormOrQuery(r, c, "/api/v1/labels", v)
		c.From, c.To, c.Class = w.from*1e9, w.to*1e9, "win="+w.class
	}},
	{"prom/label_values", func(r *h.Rng, c *c12Case) {
		w := c12Window(r)
		v := url.Values{}
		setIf(v, "start", c12TimeStr(r, w.from, 1, w.class), 20, r)
		setIf(v, "end", c12TimeStr(r, w.to, 1, w.class), 20, r)
		qc := "none"
		for i := r.Intn(3); i > 0; i-- {
			var m string
			m, qc = c12QueryText(r, c12PromQL)
			v.Add("match[]", m)
		}
		c.Method = "GET"
		c.Path = "/api/v1/label/" + h.Pick(r, []string{"a", "__name__", "x%20y", "%27"}) + "/values?" + v.Encode()
		c.From, c.To, c.Class = w.from*1e9, w.to*1e9, "match="+qc+" win="+w.class
	}},
	{"prom/series", func(r *h.Rng, c *c12Case) {
		w := c12Window(r)
		v := url.Values{}
		setIf(v, "start", c12TimeStr(r, w.from, 1, w.class), 20, r)
		setIf(v, "end", c12TimeStr(r, w.to, 1, w.class), 20, r)
		qc := "none"
		for i := r.Intn(4); i > 0; i-- {
			var m string
			m, qc = c12QueryText(r, func(r *h.Rng) string { return genLogQuery(r, 3, 0) })
			v.Add("match[]", m)
		}
		c.Method = h.Pick(r, []string{"GET", "POST"})
		c12FormOrQuery(r, c, "/api/v1/series", v)
		c.From, c.To, c.Class = w.from*1e9, w.to*1e9, "match="+qc+" win="+w.class
	}},
	{"prom/misc", func(r *h.Rng, c *c12Case) {
		c.Method, c.Path = "GET", h.Pick(r, []string{"/api/v1/metadata", "/api/v1/status/buildinfo", "/api/v1/query_exemplars", "/api/v1/rules"})
		c.Class = "static"
	}},
	{"tempo/trace", func(r *h.Rng, c *c12Case) {
		w := c12Window(r)
		id := h.Pick(r, []string{"0123456789abcdef0123456789abcdef", "0123456789abcdef", "1", "zz", strings.Repeat("a", 63), strings.Repeat("a", 64),
			strings.Repeat("a", 65), strings.Repeat("a", 66), strings.Repeat("0", 200), "%27", "abc%00", "0123456789ABCDEF0123456789ABCDEF"})
		idc := "len=" + fmt.Sprint(len(id))
		v := url.Values{}
		setIf(v, "start", c12TimeStr(r, w.from, 1, w.class), 50, r)
		setIf(v, "end", c12TimeStr(r, w.to, 1, w.class), 50, r)
		p := h.Pick(r, []string{"/tempo/api/traces/", "/api/traces/"}) + id
		if r.Chance(20) {
			p = "/api/traces/" + id + "/json"
		}
		c.Method, c.Path = "GET", p+"?"+v.Encode()
		if r.Chance(35) {
			c.Header = map[string]string{"Accept": h.Pick(r, []string{"application/protobuf", "application/json", "*/*"})}
		}
		c.From, c.To, c.Class = w.from*1e9, w.to*1e9, "id="+idc+" win="+w.class
	}},
	{"tempo/search", func(r *h.Rng, c *c12Case) {
		w := c12Window(r)
		v := url.Values{}
		qc := "tags"
		if r.Chance(60) {
			var qs string
			qs, qc = c12QueryText(r, c12TraceQL)
			v.Set("q", qs)
			c.Query = qs
		} else {
			setIf(v, "tags", h.Pick(r, []string{"a=b", "a=b c=d", "service.name=x", "a", "=", "a=\"b c\"", "name=x duration=1", "'"}), 30, r)
			setIf(v, "minDuration", h.Pick(r, []string{"1s", "0", "-1s", "abc", "1", "9999999h"}), 60, r)
			setIf(v, "maxDuration", h.Pick(r, []string{"1s", "0", "-1s", "abc", "100ms"}), 60, r)
		}
		if l := c12Limit(r); l != "" {
			v.Set("limit", l)
		}
		setIf(v, "start", c12TimeStr(r, w.from, 1, w.class), 30, r)
		setIf(v, "end", c12TimeStr(r, w.to, 1, w.class), 30, r)
		c.Method, c.Path = "GET", h.Pick(r, []string{"/tempo/api/search", "/api/search"})+"?"+v.Encode()
		c.From, c.To, c.Class = w.from*1e9, w.to*1e9, "q="+qc+" win="+w.class
	}},
	{"tempo/tags", func(r *h.Rng, c *c12Case) {
		w := c12Window(r)
		v := url.Values{}
		p := h.Pick(r, []string{"/tempo/api/search/tags", "/api/search/tags", "/api/v2/search/tags", "/api/v2/search/tags"})
		qc := "none"
		if strings.Contains(p, "v2") {
			if r.Chance(50) {
				var qs string
				qs, qc = c12QueryText(r, c12TraceQL)
				v.Set("q", qs)
			}
			setIf(v, "start", c12TimeStr(r, w.from, 1, w.class), 30, r)
			setIf(v, "end", c12TimeStr(r, w.to, 1, w.class), 30, r)
			if l := c12Limit(r); l != "" {
				v.Set("limit", l)
			}
		}
		c.Method, c.Path = "GET", p+"?"+v.Encode()
		c.From, c.To, c.Class = w.from*1e9, w.to*1e9, "q="+qc+" win="+w.class
	}},
	{"tempo/values", func(r *h.Rng, c *c12Case) {
		w := c12Window(r)
		v := url.Values{}
		tag := h.Pick(r, []string{"a", "span.a", ".a", "resource.x", "resource.", "span.", ".", "name", "%27", "service.name", "x%20y"})
		p := h.Pick(r, []string{"/tempo/api/search/tag/", "/api/search/tag/", "/api/v2/search/tag/", "/api/v2/search/tag/"}) + tag + "/values"
		qc := "none"
		if strings.Contains(p, "v2") {
			if r.Chance(50) {
				var qs string
				qs, qc = c12QueryText(r, c12TraceQL)
				v.Set("q", qs)
			}
			setIf(v, "start", c12TimeStr(r, w.from, 1, w.class), 30, r)
			setIf(v, "end", c12TimeStr(r, w.to, 1, w.class), 30, r)
			if l := c12Limit(r); l != "" {
				v.Set("limit", l)
			}
		}
		c.Method, c.Path = "GET", p+"?"+v.Encode()
		c.From, c.To, c.Class = w.from*1e9, w.to*1e9, "q="+qc+" win="+w.class
	}},
	{"tempo/echo", func(r *h.Rng, c *c12Case) {
		c.Method, c.Path, c.Class = "GET", h.Pick(r, []string{"/tempo/api/echo", "/api/echo"}), "static"
	}},
}

func c12ProfBody(r *h.Rng, c *c12Case, path string, fields map[string]any) {
	c.Method, c.Path = "POST", path
	switch r.Intn(10) {
	case 0:
		c.Header = map[string]string{"Content-Type": "application/json"}
		c.Body = r.Bytes(30)
		c.Class += " body=random"
	case 1:
		c.Header = map[string]string{"Content-Type": "application/proto"}
		c.Body = r.Bytes(30)
		c.Class += " body=random-proto"
	default:
		c.Header = map[string]string{"Content-Type": "application/json"}
		// the handlers decode with encoding/json into the generated structs, whose json tags are the proto field names
		// (label_selector, profile_typeID, group_by, label_names): with the camelCase names a Connect client sends, the
		// selector never arrives. Mostly the names the code reads, sometimes the client's.
		if !r.Chance(25) {
			for from, to := range map[string]string{"labelSelector": "label_selector", "profileTypeID": "profile_typeID", "groupBy": "group_by", "labelNames": "label_names"} {
				if v, ok := fields[from]; ok {
					delete(fields, from)
					fields[to] = v
				}
			}
		}
		b, _ := json.Marshal(fields)
		c.Body = b
		c.Class += " body=json"
	}
}

func c12ProfWin(r *h.Rng) (c12Win, any, any) {
	w := c12Window(r)
	s, e := any(w.from*1000), any(w.to*1000)
	if r.Chance(8) {
		s = h.Pick(r, []any{"abc", -1, 9223372036854775807, nil, 1.5, "9223372036854775807"})
		w.class = "edge"
	}
	return w, s, e
}

func init() {
	typeID := func(r *h.Rng) string {
		return h.Pick(r, []string{"process_cpu:cpu:nanoseconds:cpu:nanoseconds", "memory:inuse_space:bytes:space:bytes", "a:b:c:d:e", "a:b:c", "", ":", "a:b:c:d:e:f", "x"})
	}
	prof := func(name string, f func(r *h.Rng, w c12Win, s, e any) map[string]any) c12EndpointGen {
		return c12EndpointGen{"prof/" + name, func(r *h.Rng, c *c12Case) {
			w, s, e := c12ProfWin(r)
			c.From, c.To, c.Class = w.from*1e9, w.to*1e9, "win="+w.class
			svc := "/querier.v1.QuerierService/"
			if name == "Settings" {
				svc, name = "/settings.v1.SettingsService/", "Get"
			}
			c12ProfBody(r, c, svc+name, f(r, w, s, e))
		}}
	}
	sel := func(r *h.Rng) string { s, _ := c12QueryText(r, c12ProfSel); return s }
	c12Endpoints = append(c12Endpoints,
		prof("ProfileTypes", func(r *h.Rng, w c12Win, s, e any) map[string]any { return map[string]any{"start": s, "end": e} }),
		prof("LabelNames", func(r *h.Rng, w c12Win, s, e any) map[string]any {
			return map[string]any{"start": s, "end": e, "matchers": []string{sel(r)}}
		}),
		prof("LabelValues", func(r *h.Rng, w c12Win, s, e any) map[string]any {
			return map[string]any{"start": s, "end": e, "matchers": []string{sel(r)}, "name": h.Pick(r, []string{"a", "", "service_name", "'"})}
		}),
		prof("SelectMergeStacktraces", func(r *h.Rng, w c12Win, s, e any) map[string]any {
			return map[string]any{"start": s, "end": e, "labelSelector": sel(r), "profileTypeID": typeID(r)}
		}),
		prof("SelectSeries", func(r *h.Rng, w c12Win, s, e any) map[string]any {
			return map[string]any{"start": s, "end": e, "labelSelector": sel(r), "profileTypeID": typeID(r),
				"groupBy": h.Pick(r, [][]string{nil, {"a"}, {"a", "'"}}), "step": h.Pick(r, []any{15, 0, -1, 1e-9, 1e18, 0.5, "x"})}
		}),
		prof("SelectMergeProfile", func(r *h.Rng, w c12Win, s, e any) map[string]any {
			return map[string]any{"start": s, "end": e, "labelSelector": sel(r), "profileTypeID": typeID(r)}
		}),
		prof("Series", func(r *h.Rng, w c12Win, s, e any) map[string]any {
			return map[string]any{"start": s, "end": e, "matchers": []string{sel(r)}, "labelNames": h.Pick(r, [][]string{nil, {"a"}, {"__name__", "b"}})}
		}),
		prof("GetProfileStats", func(r *h.Rng, w c12Win, s, e any) map[string]any { return map[string]any{} }),
		prof("Settings", func(r *h.Rng, w c12Win, s, e any) map[string]any { return map[string]any{} }),
		prof("AnalyzeQuery", func(r *h.Rng, w c12Win, s, e any) map[string]any {
			return map[string]any{"start": s, "end": e, "query": h.Pick(r, []string{typeID(r) + sel(r), sel(r), "x", ""})}
		}),
		c12EndpointGen{"prof/render-diff", func(r *h.Rng, c *c12Case) {
			w := c12Window(r)
			v := url.Values{}
			for _, side := range []string{"left", "right"} {
				setIf(v, side+"Query", typeID(r)+sel(r), 5, r)
				setIf(v, side+"From", c12TimeStr(r, w.from, 1000, w.class), 5, r)
				setIf(v, side+"Until", c12TimeStr(r, w.to, 1000, w.class), 5, r)
			}
			c.Method, c.Path = "GET", "/pyroscope/render-diff?"+v.Encode()
			c.From, c.To, c.Class = w.from*1e9, w.to*1e9, "win="+w.class
		}},
	)
}
