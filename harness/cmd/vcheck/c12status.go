package main

// C12 stream `status-all`: the remaining read handlers (Loki labels / values / series / tail up to the upgrade, Prometheus
// labels / values / series / metadata / instant query, Tempo search / tags / values / echo, Pyroscope, static answers)
// through the REAL routers in the child, HTTP status class vs the controller models of ReadSide/Controllers.lean.
// The model is fed with
//   * what the stdlib parsers make of each parameter string (strconv.ParseInt / Atoi, time.ParseDuration, the
//     RFC3339-or-seconds rule, url form parsing and gorilla/schema decoding into a struct of the same shape:
//     replicated here) → absent | rejected | value;
//   * for the service step: whether the REAL parsers accept the query / selector / matcher texts
//     (logql_parser, traceql parser, Prometheus' parser, the profile selector parser and type-id splitter) and whether the
//     scripted database fails the first query.

import (
	"encoding/json"
	"fmt"
	"net/url"
	"strconv"
	"strings"
	"time"

	"github.com/gorilla/schema"
	"github.com/metrico/qryn/reader/logql/logql_parser"
	profpb "github.com/metrico/qryn/reader/prof"
	profparser "github.com/metrico/qryn/reader/prof/parser"
	proftypes "github.com/metrico/qryn/reader/prof/types/v1"
	traceql_parser "github.com/metrico/qryn/reader/traceql/parser"
	promparser "github.com/prometheus/prometheus/promql/parser"
	"verif/harness/h"
)

func c12PInt(s string) string {
	if s == "" {
		return "a"
	}
	n, err := strconv.ParseInt(s, 10, 64)
	if err != nil {
		return "i"
	}
	return fmt.Sprint(n)
}

func c12PDur(s string) string {
	if s == "" {
		return "a"
	}
	d, err := time.ParseDuration(s)
	if err != nil {
		return "i"
	}
	return fmt.Sprint(int64(d))
}

func c12Out(bad bool) string {
	if bad {
		return "e"
	}
	return "o"
}

var c12IntStrs = []string{"", "", "0", "1700000000", "1700003600", "1700000000000000000", "abc", "1.5", "-1", "9223372036854775808", " 5", "0x10"}

// a request either as GET with a query string or as a form POST; badForm: a body that url.ParseQuery rejects
func c12StatusReq(r *h.Rng, c *c12Case, path string, v url.Values, allowPost bool) (post bool, formErr bool) {
	c.Abort = -1
	if allowPost && r.Chance(30) {
		c.Method, c.Path = "POST", path
		c.Header = map[string]string{"Content-Type": "application/x-www-form-urlencoded"}
		if r.Chance(15) {
			c.Body = []byte("start=%zz&x")
			return true, true
		}
		c.Body = []byte(v.Encode())
		return true, false
	}
	c.Method = "GET"
	c.Path = path
	if len(v) > 0 {
		c.Path += "?" + v.Encode()
	}
	return false, false
}

// gorilla/schema into a struct of the shape the controller uses: unknown keys are an error
func c12SchemaErr(dst any, v url.Values) bool {
	return schema.NewDecoder().Decode(dst, v) != nil
}

// c12SchemaErrLoose: getLabelsParams (Prometheus labels / series) ignores keys it does not know since the form also
// carries match[] (fix 15777af)
func c12SchemaErrLoose(dst any, v url.Values) bool {
	dec := schema.NewDecoder()
	dec.IgnoreUnknownKeys(true)
	return dec.Decode(dst, v) != nil
}

func c12LogQLOk(q string) bool { _, err := logql_parser.Parse(q); return err == nil }

var c12Matches = []string{`{a="b"}`, `{a="b", c=~"d.*"}`, `{a="b"} |= "x"`, `{a=`, `bad(`, `{}`, `a`}
var c12PromMatches = []string{`up`, `{a="b"}`, `up{a=~"x.*"}`, `{a=`, `(`, `rate(up[1m])`}
var c12ProfSels = []string{`{service_name="x"}`, `{}`, `{a=~"b.*", c!="d"}`, `{`, `x`, `{a=}`}
var c12TypeIDs = []string{"process_cpu:cpu:nanoseconds:cpu:nanoseconds", "memory:inuse_space:bytes:space:bytes", "a:b:c", "x", ""}
var c12TraceQLs = []string{`{.a="b"}`, `{name="x" && duration>1s}`, `{}`, `{.a=`, `x`, `{.a="b"} | count() > 1`}

type c12StatusGen struct {
	name string
	gen  func(r *h.Rng) (*c12Case, string)
}

func c12StatusGens() []c12StatusGen {
	dbAns := func(r *h.Rng, n int) ([]c12Answer, bool) {
		fails := r.Chance(25)
		_ = n // no rows: the status class is decided by the parameters, the texts and the query error; row shapes are the exploration's business
		return []c12Answer{{Shape: "auto", N: 0, Seed: r.U64(), QueryErr: fails}}, fails
	}
	timeVals := func(r *h.Rng, v url.Values) (string, string) {
		s, e := h.Pick(r, c12IntStrs), h.Pick(r, c12IntStrs)
		if s != "" {
			v.Set("start", s)
		}
		if e != "" {
			v.Set("end", e)
		}
		return s, e
	}
	// ParseTimeParamsV2: on a form post the two values come from the decoded form; unknown keys make the decoder fail
	lokiTime := func(post, formErr bool, v url.Values, s, e string) (string, string, string) {
		form := "o"
		if post {
			var raw struct {
				Start string `query:"start"`
				End   string `query:"end"`
			}
			if formErr || c12SchemaErr(&raw, v) {
				form = "e"
			}
		}
		return form, c12PInt(s), c12PInt(e)
	}
	gens := []c12StatusGen{
		{"loki/labels", func(r *h.Rng) (*c12Case, string) {
			c := &c12Case{Endpoint: "loki/labels"}
			v := url.Values{}
			s, e := timeVals(r, v)
			post, ferr := c12StatusReq(r, c, "/loki/api/v1/labels", v, true)
			var fails bool
			c.Answers, fails = dbAns(r, 3)
			form, ps, pe := lokiTime(post, ferr, v, s, e)
			return c, fmt.Sprintf("c12ctl lokiLabels o %s %s %s %s", form, ps, pe, c12Out(fails))
		}},
		{"loki/label_values", func(r *h.Rng) (*c12Case, string) {
			c := &c12Case{Endpoint: "loki/label_values"}
			v := url.Values{}
			s, e := timeVals(r, v)
			bad := false
			for i := r.Intn(3); i > 0; i-- {
				m := h.Pick(r, c12Matches)
				v.Add("match[]", m)
				bad = bad || !c12LogQLOk(m)
			}
			post, ferr := c12StatusReq(r, c, "/loki/api/v1/label/a/values", v, true)
			var fails bool
			c.Answers, fails = dbAns(r, 3)
			form, ps, pe := lokiTime(post, ferr, v, s, e)
			return c, fmt.Sprintf("c12ctl lokiValues o %s %s %s 0 %s", form, ps, pe, c12Out(fails || bad))
		}},
		{"loki/series", func(r *h.Rng) (*c12Case, string) {
			c := &c12Case{Endpoint: "loki/series"}
			v := url.Values{}
			s, e := timeVals(r, v)
			bad := false
			n := r.Intn(3)
			for i := n; i > 0; i-- {
				m := h.Pick(r, c12Matches)
				v.Add("match[]", m)
				bad = bad || !c12SeriesOk(m)
			}
			post, ferr := c12StatusReq(r, c, "/loki/api/v1/series", v, true)
			var fails bool
			c.Answers, fails = dbAns(r, 3)
			form, ps, pe := lokiTime(post, ferr, v, s, e)
			return c, fmt.Sprintf("c12ctl lokiSeries o %s %s %s %s %s", form, ps, pe, c12b01(n == 0), c12Out(fails || bad))
		}},
		{"loki/tail", func(r *h.Rng) (*c12Case, string) {
			// a plain GET (no websocket handshake): the upgrader refuses with 400 when the handler gets that far
			c := &c12Case{Endpoint: "loki/tail"}
			q := h.Pick(r, []string{"", `{a="b"}`, `{a="b"} | json`, `{a=`, `rate({a="b"}[1m])`})
			v := url.Values{}
			if q != "" {
				v.Set("query", q)
			}
			c12StatusReq(r, c, "/loki/api/v1/tail", v, false)
			c.Answers, _ = dbAns(r, 2)
			c.Answers[0].QueryErr = false
			return c, fmt.Sprintf("c12ctl lokiTail o %s %s 0", c12b01(q == ""), c12Out(q != "" && !c12TranspileOk(q)))
		}},
		{"prom/labels", func(r *h.Rng) (*c12Case, string) {
			c := &c12Case{Endpoint: "prom/labels"}
			v := url.Values{}
			timeVals(r, v)
			if r.Chance(10) {
				v.Set("zzz", "1") // an unknown key: the schema decoder rejects it on a form post
			}
			post, ferr := c12StatusReq(r, c, "/api/v1/labels", v, true)
			var fails bool
			c.Answers, fails = dbAns(r, 3)
			form := "o"
			if post {
				var raw struct {
					Start string `form:"start"`
					End   string `form:"end"`
				}
				if ferr || c12SchemaErrLoose(&raw, v) {
					form = "e"
				}
			}
			return c, fmt.Sprintf("c12ctl promLabels o %s o %s", form, c12Out(fails))
		}},
		{"prom/label_values", func(r *h.Rng) (*c12Case, string) {
			c := &c12Case{Endpoint: "prom/label_values"}
			v := url.Values{}
			timeVals(r, v)
			bad := false
			for i := r.Intn(3); i > 0; i-- {
				m := h.Pick(r, c12PromMatches)
				v.Add("match[]", m)
				// the service turns each match[] into matchers with the Prometheus parser's ParseMetricSelector (since the fix that
				// gave series / label values the PromQL matcher semantics): an expression that is not a selector — rate(up[1m]) —
				// is refused by the service step (500), like a text that does not parse at all
				_, err := promparser.ParseMetricSelector(m)
				bad = bad || err != nil
			}
			c12StatusReq(r, c, "/api/v1/label/a/values", v, false)
			var fails bool
			c.Answers, fails = dbAns(r, 3)
			pOut := "o"
			if c12PInt(v.Get("start")) == "i" || c12PInt(v.Get("end")) == "i" {
				pOut = "e"
			}
			return c, fmt.Sprintf("c12ctl promLabelValues o %s 0 %s %s", pOut, c12Out(fails || bad), c12Out(fails))
		}},
		{"prom/series", func(r *h.Rng) (*c12Case, string) {
			c := &c12Case{Endpoint: "prom/series"}
			v := url.Values{}
			timeVals(r, v)
			bad := false
			n := r.Intn(3)
			for i := n; i > 0; i-- {
				m := h.Pick(r, c12Matches)
				v.Add("match[]", m)
				// PromSeries parses each match[] with the Prometheus parser's ParseMetricSelector (PromQL matcher semantics
				// since the C17 fix): `{}` and a bare metric name are selectors, a LogQL pipeline is not
				_, merr := promparser.ParseMetricSelector(m)
				bad = bad || merr != nil
			}
			post, ferr := c12StatusReq(r, c, "/api/v1/series", v, true)
			var fails bool
			c.Answers, fails = dbAns(r, 3)
			form := "o"
			if post {
				var raw struct {
					Start string `form:"start"`
					End   string `form:"end"`
				}
				if ferr || c12SchemaErrLoose(&raw, v) {
					form = "e"
				}
			}
			// without a match[] the service answers the empty list without touching the database
			return c, fmt.Sprintf("c12ctl promSeries o %s o %s", form, c12Out(n > 0 && (fails || bad)))
		}},
		{"prom/misc", func(r *h.Rng) (*c12Case, string) {
			c := &c12Case{Endpoint: "prom/misc", Method: "GET", Abort: -1}
			c.Path = h.Pick(r, []string{"/api/v1/metadata", "/api/v1/query_exemplars", "/api/v1/rules", "/api/v1/status/buildinfo"})
			if strings.HasSuffix(c.Path, "buildinfo") {
				return c, "c12ctl static"
			}
			return c, "c12ctl promMetadata o"
		}},
		{"prom/query", func(r *h.Rng) (*c12Case, string) {
			c := &c12Case{Endpoint: "prom/query", Query: "up"}
			v := url.Values{}
			q := h.Pick(r, []string{"up", "up", "vector(1)", ""})
			if q != "" {
				v.Set("query", q)
			}
			t := h.Pick(r, []string{"", "1700000000", "1700000000.5", "2023-11-14T22:13:20Z", "abc", "1.2.3", "-1", "2023-13-45T00:00:00Z"})
			if t != "" {
				v.Set("time", t)
			}
			post, ferr := c12StatusReq(r, c, "/api/v1/query", v, true)
			c.Answers = []c12Answer{{Shape: "auto", N: 2, Seed: r.U64()}, {Shape: "auto", N: 1, Seed: r.U64()}}
			c.From, c.To = (c12Base-300)*1e9, c12Base*1e9
			form := "o"
			if post {
				var raw struct {
					Time  string `form:"time"`
					Query string `form:"query"`
				}
				if ferr || c12SchemaErr(&raw, v) {
					form = "e"
				}
			}
			tp := "a"
			if t != "" {
				if _, ok := c12PromTime(t, time.Now()); ok {
					tp = "0"
				} else {
					tp = "i"
				}
			}
			return c, fmt.Sprintf("c12ctl promInstant o %s %s %s o o o", form, tp, c12b01(q == ""))
		}},
		{"tempo/tags", func(r *h.Rng) (*c12Case, string) {
			c := &c12Case{Endpoint: "tempo/tags"}
			v2 := r.Bool()
			var fails bool
			c.Answers, fails = dbAns(r, 3)
			if !v2 {
				c12StatusReq(r, c, h.Pick(r, []string{"/api/search/tags", "/tempo/api/search/tags"}), url.Values{}, false)
				return c, fmt.Sprintf("c12ctl tempoTagsV1 o %s", c12Out(fails))
			}
			v := url.Values{}
			s, e := timeVals(r, v)
			q := h.Pick(r, append([]string{"", ""}, c12TraceQLs...))
			if q != "" {
				v.Set("q", q)
			}
			if r.Chance(30) {
				v.Set("limit", h.Pick(r, []string{"0", "-1", "5", "abc", "99999"}))
			}
			c12StatusReq(r, c, "/api/v2/search/tags", v, false)
			qbad := false
			if q != "" {
				_, err := traceql_parser.Parse(q)
				qbad = err != nil
			}
			// (until the merged TraceQL fixes the empty selector `{}` made the v2 tags planner dereference a nil attribute selector
			// — recovered by tamePanic, 500; it is now planned like any other selector)
			v2out := c12Out(fails || qbad)
			return c, fmt.Sprintf("c12ctl tempoTagsV2 o %s %s %s %s o", c12PInt(s), c12PInt(e), c12Out(fails), v2out)
		}},
		{"tempo/values", func(r *h.Rng) (*c12Case, string) {
			c := &c12Case{Endpoint: "tempo/values"}
			v2 := r.Bool()
			var fails bool
			c.Answers, fails = dbAns(r, 3)
			tag := h.Pick(r, []string{"a", "span.a", "resource.x", "name"})
			if !v2 {
				c12StatusReq(r, c, "/api/search/tag/"+tag+"/values", url.Values{}, false)
				return c, fmt.Sprintf("c12ctl tempoTagsV1 o %s", c12Out(fails))
			}
			v := url.Values{}
			s, e := timeVals(r, v)
			q := h.Pick(r, append([]string{"", ""}, c12TraceQLs...))
			if q != "" {
				v.Set("q", q)
			}
			c12StatusReq(r, c, "/api/v2/search/tag/"+tag+"/values", v, false)
			qbad := false
			if q != "" {
				_, err := traceql_parser.Parse(q)
				qbad = err != nil
			}
			v2out := c12Out(fails || qbad)
			return c, fmt.Sprintf("c12ctl tempoTagsV2 o %s %s %s %s o", c12PInt(s), c12PInt(e), c12Out(fails), v2out)
		}},
		{"tempo/search", func(r *h.Rng) (*c12Case, string) {
			c := &c12Case{Endpoint: "tempo/search"}
			v := url.Values{}
			s, e := timeVals(r, v)
			mi := h.Pick(r, []string{"", "", "1s", "0", "abc", "-5ms", "1"})
			ma := h.Pick(r, []string{"", "", "1s", "100ms", "x"})
			li := h.Pick(r, []string{"", "", "10", "0", "-1", "abc", "1.5"})
			for k, x := range map[string]string{"minDuration": mi, "maxDuration": ma, "limit": li} {
				if x != "" {
					v.Set(k, x)
				}
			}
			q := h.Pick(r, append([]string{"", "", ""}, c12TraceQLs...))
			qbad := false
			if q != "" {
				v.Set("q", q)
				c.Query = q
				_, err := traceql_parser.Parse(q)
				qbad = err != nil
			} else if r.Bool() {
				v.Set("tags", h.Pick(r, []string{"a=b", "service.name=x", "a", "="}))
			}
			c12StatusReq(r, c, "/api/search", v, false)
			var fails bool
			c.Answers, fails = dbAns(r, 3)
			c.From, c.To = (c12Base-300)*1e9, c12Base*1e9
			return c, fmt.Sprintf("c12ctl tempoSearch o %s %s %s %s %s %s %s %s", c12PDur(mi), c12PDur(ma), c12PInt(li), c12PInt(s), c12PInt(e),
				c12b01(q != ""), c12Out(fails || qbad), c12Out(fails))
		}},
		{"tempo/echo", func(r *h.Rng) (*c12Case, string) {
			return &c12Case{Endpoint: "tempo/echo", Method: "GET", Abort: -1, Path: h.Pick(r, []string{"/api/echo", "/tempo/api/echo"})}, "c12ctl static"
		}},
	}
	// ---- Pyroscope: JSON bodies
	profBody := func(r *h.Rng, c *c12Case, path string, fields map[string]any, dst any) bool {
		c.Method, c.Path, c.Abort = "POST", path, -1
		c.Header = map[string]string{"Content-Type": "application/json"}
		switch r.Intn(8) {
		case 0:
			c.Body = []byte(`{"start": "abc"`)
		case 1:
			c.Body = []byte(`[1]`)
		case 2:
			fields["start"] = "x1"
			c.Body, _ = json.Marshal(fields)
		default:
			c.Body, _ = json.Marshal(fields)
		}
		return json.Unmarshal(c.Body, dst) != nil
	}
	selOk := func(s string) bool { _, err := profparser.Parse(s); return err == nil }
	typeOk := func(s string) bool { return len(strings.Split(s, ":")) == 5 }
	prof := func(name string, dbMatters bool, dst func() any, f func(r *h.Rng) (map[string]any, bool)) c12StatusGen {
		return c12StatusGen{"prof/" + name, func(r *h.Rng) (*c12Case, string) {
			c := &c12Case{Endpoint: "prof/" + name}
			fields, textBad := f(r)
			fields["start"], fields["end"] = (c12Base-3600)*1000, c12Base*1000
			parseBad := profBody(r, c, "/querier.v1.QuerierService/"+name, fields, dst())
			var fails bool
			c.Answers, fails = dbAns(r, 2)
			c.From, c.To = (c12Base-3600)*1e9, c12Base*1e9
			return c, fmt.Sprintf("c12ctl prof %s %s o", c12Out(parseBad), c12Out((fails && dbMatters) || textBad))
		}}
	}
	gens = append(gens,
		prof("ProfileTypes", true, func() any { return &profpb.ProfileTypesRequest{} }, func(r *h.Rng) (map[string]any, bool) { return map[string]any{}, false }),
		prof("LabelNames", false /* ProfService.LabelNames drops the error of its query: 200 with an empty list */, func() any { return &proftypes.LabelNamesRequest{} }, func(r *h.Rng) (map[string]any, bool) {
			s := h.Pick(r, c12ProfSels)
			return map[string]any{"matchers": []string{s}}, !selOk(s)
		}),
		prof("LabelValues", true, func() any { return &proftypes.LabelValuesRequest{} }, func(r *h.Rng) (map[string]any, bool) {
			s := h.Pick(r, c12ProfSels)
			return map[string]any{"matchers": []string{s}, "name": "a"}, !selOk(s)
		}),
		prof("SelectMergeStacktraces", true, func() any { return &profpb.SelectMergeStacktracesRequest{} }, func(r *h.Rng) (map[string]any, bool) {
			s, t := h.Pick(r, c12ProfSels), h.Pick(r, c12TypeIDs)
			return map[string]any{"label_selector": s, "profile_typeID": t}, !selOk(s) || !typeOk(t)
		}),
		prof("SelectSeries", true, func() any { return &profpb.SelectSeriesRequest{} }, func(r *h.Rng) (map[string]any, bool) {
			s, t := h.Pick(r, c12ProfSels), h.Pick(r, c12TypeIDs)
			return map[string]any{"label_selector": s, "profile_typeID": t, "step": h.Pick(r, []any{15, 0, -1, 0.5})}, !selOk(s) || !typeOk(t)
		}),
		prof("SelectMergeProfile", true, func() any { return &profpb.SelectMergeProfileRequest{} }, func(r *h.Rng) (map[string]any, bool) {
			s, t := h.Pick(r, c12ProfSels), h.Pick(r, c12TypeIDs)
			return map[string]any{"label_selector": s, "profile_typeID": t}, !selOk(s) || !typeOk(t)
		}),
		prof("Series", true, func() any { return &profpb.SeriesRequest{} }, func(r *h.Rng) (map[string]any, bool) {
			s := h.Pick(r, c12ProfSels)
			return map[string]any{"matchers": []string{s}, "label_names": []string{"a"}}, !selOk(s)
		}),
		prof("AnalyzeQuery", true, func() any { return &profpb.AnalyzeQueryRequest{} }, func(r *h.Rng) (map[string]any, bool) {
			// ProfService.AnalyzeQuery hands the whole text to the selector parser (no type id in front)
			q := h.Pick(r, c12ProfSels)
			if r.Chance(25) {
				q = h.Pick(r, c12TypeIDs) + q
			}
			return map[string]any{"query": q}, !selOk(q)
		}),
		c12StatusGen{"prof/GetProfileStats", func(r *h.Rng) (*c12Case, string) {
			c := &c12Case{Endpoint: "prof/GetProfileStats", Method: "POST", Abort: -1, Path: "/querier.v1.QuerierService/GetProfileStats",
				Header: map[string]string{"Content-Type": "application/json"}, Body: []byte("{}")}
			var fails bool
			c.Answers, fails = dbAns(r, 1)
			return c, fmt.Sprintf("c12ctl profNoBody %s o", c12Out(fails))
		}},
		c12StatusGen{"prof/Settings", func(r *h.Rng) (*c12Case, string) {
			c := &c12Case{Endpoint: "prof/Settings", Method: "POST", Abort: -1, Path: "/settings.v1.SettingsService/Get",
				Header: map[string]string{"Content-Type": "application/json"}, Body: []byte("{}")}
			c.Answers, _ = dbAns(r, 1)
			return c, "c12ctl profNoBody o o"
		}},
		c12StatusGen{"prof/render-diff", func(r *h.Rng) (*c12Case, string) {
			c := &c12Case{Endpoint: "prof/render-diff"}
			v := url.Values{}
			missing, textBad := false, false
			var ts []string
			var types []string
			for _, side := range []string{"left", "right"} {
				t, s := h.Pick(r, c12TypeIDs[:3]), h.Pick(r, c12ProfSels)
				types = append(types, t)
				q := t + s
				if r.Chance(8) {
					q = ""
				}
				if q == "" {
					missing = true
				} else {
					v.Set(side+"Query", q)
				}
				textBad = textBad || !selOk(s) || !typeOk(t)
				for _, k := range []string{"From", "Until"} {
					x := h.Pick(r, []string{"1700000000000", "1700003600000", "1700000000000", "abc", "", "1.5", "-1"})
					if x == "" {
						missing = true
					} else {
						v.Set(side+k, x)
					}
					ts = append(ts, x)
				}
			}
			textBad = textBad || types[0] != types[1] // "left and right queries must have the same type ID"
			c12StatusReq(r, c, "/pyroscope/render-diff", v, false)
			var fails bool
			c.Answers, fails = dbAns(r, 2)
			c.From, c.To = (c12Base-3600)*1e9, c12Base*1e9
			return c, fmt.Sprintf("c12ctl profRenderDiff %s %s %s %s %s %s", c12b01(missing), c12PInt(ts[0]), c12PInt(ts[1]), c12PInt(ts[2]), c12PInt(ts[3]),
				c12Out(fails || textBad))
		}},
	)
	return gens
}

// what `logql_parser.ParseSeries` (the series endpoints' parser) makes of a matcher
func c12SeriesOk(m string) bool { _, err := logql_parser.ParseSeries(m); return err == nil }

// does logql_transpiler_v2.Transpile accept the query (parser + planner construction)?
func c12TranspileOk(q string) bool { return c12Plan(q).parseOk }
