package main

// C08 ext: metric queries of the labelled path — range aggregations whose selector carries `| json l="path"`, `| regexp`,
// `| drop` and filters after them (the ClickHouse planner runs them), and `quantile_over_time`.

import (
	"fmt"
	"math"
	"os"
	"regexp"
	"strconv"
	"strings"
	"time"

	"github.com/metrico/qryn/reader/logql/logql_parser"
	lt "github.com/metrico/qryn/reader/logql/logql_transpiler_v2"
	"github.com/metrico/qryn/reader/logql/logql_transpiler_v2/clickhouse_planner"
	sql "github.com/metrico/qryn/reader/utils/sql_select"
	"verif/harness/h"
)

// ---- generator

var c08xPhis = []string{"0.5", "0.9", "0.99", "0.95", "0", "1", "0.25", "0.999999", "0.000001", "0.50", "2"}

type c08xGen struct {
	mgen
	changer  func(r *h.Rng) string // a label-rewriting stage
	filter   func(r *h.Rng) string // a filter placed after one
	selector func(r *h.Rng) string // stream selector and plain stages (nil: genSelector)
}

func c08xDefaultGen(g mgen) c08xGen {
	return c08xGen{mgen: g, changer: c07xGenChanger, filter: c07xGenFilter}
}

// c08xGenRange: a range aggregation whose selector has at least one label-rewriting stage, or a quantile_over_time
func c08xGenRange(r *h.Rng, g c08xGen) string {
	kind := h.Pick(r, []string{"lra", "lra", "unwrap", "unwrap", "quantile"})
	withStages := kind != "quantile" || r.Chance(65)
	sel := ""
	if g.selector != nil {
		sel = g.selector(r)
	} else {
		sel = genSelector(r, g.mgen, false)
	}
	if withStages {
		m := r.Range(1, 4)
		pc := 60
		if g.simple {
			m, pc = r.Range(1, 3), 72
		}
		hasChanger := false
		for i := 0; i < m; i++ {
			if r.Chance(pc) || (i == m-1 && !hasChanger) {
				sel += " " + g.changer(r)
				hasChanger = true
			} else {
				sel += " " + g.filter(r)
			}
		}
	}
	pos := genPos(r)
	var fn string
	switch kind {
	case "lra":
		fn = h.Pick(r, lraFns)
		if r.Chance(75) {
			pos = 0
		}
	case "unwrap":
		fn = h.Pick(r, unwrapFns)
		if g.extraFns && r.Chance(10) {
			fn = h.Pick(r, unwrapFnsExtra)
		}
	default:
		fn = "quantile_over_time"
	}
	if kind != "lra" {
		lbl := h.Pick(r, []string{"x", "a", "app", "level", "_entry", "lvl", "n1"})
		if g.simple {
			lbl = h.Pick(r, []string{"x", "x", "n", "a", "_entry"})
		}
		sel += " | unwrap " + lbl
	}
	s := fn
	if pos&1 != 0 {
		s += " " + genGrouping(r, g.mgen)
	}
	dur := genDur(r, g.mgen)
	if kind == "quantile" {
		s += " (" + h.Pick(r, c08xPhis) + ", " + sel + " [" + dur + "])"
	} else {
		s += " (" + sel + " [" + dur + "])"
	}
	if pos&2 != 0 {
		s += " " + genGrouping(r, g.mgen)
	}
	if r.Chance(g.cmpPct()) {
		s += genCmp(r, g.mgen)
	}
	return s
}

func c08xIsQuantile(rangeText string) bool { return strings.HasPrefix(rangeText, "quantile_over_time") }

func c08xGenQuery(r *h.Rng, g c08xGen) string {
	rg := c08xGenRange(r, g)
	inner := rg
	shape := r.Intn(10)
	if !c08xIsQuantile(rg) && shape >= 3 && (shape <= 6 || r.Chance(60)) {
		fn := h.Pick(r, aggFns)
		if g.extraFns && r.Chance(10) {
			fn = h.Pick(r, aggFnsExtra)
		}
		pos := genPos(r)
		s := fn
		if pos&1 != 0 {
			s += " " + genGrouping(r, g.mgen)
		}
		s += " (" + rg + ")"
		if pos&2 != 0 {
			s += " " + genGrouping(r, g.mgen)
		}
		if r.Chance(g.cmpPct()) {
			s += genCmp(r, g.mgen)
		}
		inner = s
	}
	if shape <= 6 {
		return inner
	}
	k := r.Intn(6)
	if g.simple && k == 0 && r.Chance(70) {
		k = r.Range(1, 3)
	}
	s := h.Pick(r, []string{"topk", "bottomk"}) + "(" + fmt.Sprint(k) + ", " + inner + ")"
	if r.Chance(g.cmpPct()) {
		s += genCmp(r, g.mgen)
	}
	return s
}

// ---- serialisation of the REAL parsed AST for Driver.C08X.queryX?

type c08xRange struct {
	fn, param  string
	sel        *logql_parser.StrSelector
	time, unit string
	bp, bs     *logql_parser.ByOrWithout
	cmp        *logql_parser.Comparison
	quantile   bool
}

func c08xRangeOf(s *logql_parser.LogQLScript) (*c08xRange, *logql_parser.AggOperator, *logql_parser.TopK) {
	fromL := func(l *logql_parser.LRAOrUnwrap) *c08xRange {
		return &c08xRange{fn: l.Fn, sel: &l.StrSel, time: l.Time, unit: l.TimeUnit, bp: l.ByOrWithoutPrefix, bs: l.ByOrWithoutSuffix, cmp: l.Comparison}
	}
	fromQ := func(q *logql_parser.QuantileOverTime) *c08xRange {
		return &c08xRange{fn: q.Fn, param: q.Param, sel: &q.StrSel, time: q.Time, unit: q.TimeUnit, bp: q.ByOrWithoutPrefix, bs: q.ByOrWithoutSuffix, cmp: q.Comparison, quantile: true}
	}
	switch {
	case s.LRAOrUnwrap != nil:
		return fromL(s.LRAOrUnwrap), nil, nil
	case s.QuantileOverTime != nil:
		return fromQ(s.QuantileOverTime), nil, nil
	case s.AggOperator != nil:
		return fromL(&s.AggOperator.LRAOrUnwrap), s.AggOperator, nil
	case s.TopK != nil:
		switch {
		case s.TopK.LRAOrUnwrap != nil:
			return fromL(s.TopK.LRAOrUnwrap), nil, s.TopK
		case s.TopK.QuantileOverTime != nil:
			return fromQ(s.TopK.QuantileOverTime), nil, s.TopK
		case s.TopK.AggOperator != nil:
			return fromL(&s.TopK.AggOperator.LRAOrUnwrap), s.TopK.AggOperator, s.TopK
		}
	}
	return nil, nil, nil
}

// c08xSer: the model's view of a metric script of the labelled path, or an error when it is outside the modelled fragment
// (also: the plain fragment of serMetric, which has its own stream)
func c08xSer(s *logql_parser.LogQLScript) (string, error) {
	ra, agg, top := c08xRangeOf(s)
	if ra == nil {
		return "", fmt.Errorf("not a metric query")
	}
	ppl := ra.sel.Pipelines
	kind, fn, lbl := "L", ra.fn, "-"
	if n := len(ppl); n > 0 && ppl[n-1].Unwrap != nil {
		if ppl[n-1].Unwrap.Fn != "unwrap" || ppl[n-1].Unwrap.Label.Name == "" {
			return "", fmt.Errorf("unwrap form outside the fragment")
		}
		kind, lbl = "U", hx(ppl[n-1].Unwrap.Label.Name)
		ppl = ppl[:n-1]
	}
	switch {
	case ra.quantile:
		if kind != "U" {
			return "", fmt.Errorf("quantile_over_time without unwrap")
		}
		ip, fp, _ := strings.Cut(ra.param, ".")
		if fp == "" {
			fp = "-"
		}
		if len(fp) > 6 || len(ip) > 9 {
			return "", fmt.Errorf("φ outside the exactly-rendered range")
		}
		kind, fn = "Q", ip+":"+fp
	case kind == "L" && !isIn(ra.fn, lraFns):
		return "", fmt.Errorf("range function %s without unwrap", ra.fn)
	case kind == "U" && !isIn(ra.fn, unwrapFns) && !isIn(ra.fn, unwrapFnsExtra):
		return "", fmt.Errorf("range function %s with unwrap", ra.fn)
	}
	var ms, st []string
	for _, c := range ra.sel.StrSelCmds {
		v, err := c.Val.Unquote()
		if err != nil {
			return "", err
		}
		ms = append(ms, hx(c.Label.Name)+":"+matchOps[c.Op]+":"+hx(v))
	}
	if len(ms) == 0 {
		return "", fmt.Errorf("no matchers")
	}
	changers := 0
	for i := range ppl {
		x, err := c07xSerStage(&ppl[i])
		if err != nil {
			return "", err
		}
		if strings.HasPrefix(x, "I:") {
			return "", fmt.Errorf("stage of the in-process engine")
		}
		if ppl[i].Unwrap != nil {
			return "", fmt.Errorf("unwrap not last")
		}
		if ppl[i].Parser != nil || ppl[i].Drop != nil {
			changers++
		}
		st = append(st, x)
	}
	if changers == 0 && !ra.quantile {
		return "", fmt.Errorf("plain fragment (stream `text`)")
	}
	d, err := time.ParseDuration(ra.time + ra.unit)
	if err != nil || d <= 0 {
		return "", fmt.Errorf("duration")
	}
	bp, err := serGrouping(ra.bp)
	if err != nil {
		return "", err
	}
	bs, err := serGrouping(ra.bs)
	if err != nil {
		return "", err
	}
	cm, err := serCmp(ra.cmp)
	if err != nil {
		return "", err
	}
	res := fmt.Sprintf("%s %s %s %d %s %s %s %s %s", kind, fn, lbl, d.Nanoseconds(), bp, bs, cm, strings.Join(ms, ";"), joinOrDash(st, ";"))
	if agg != nil {
		abp, err := serGrouping(agg.ByOrWithoutPrefix)
		if err != nil {
			return "", err
		}
		abs, err := serGrouping(agg.ByOrWithoutSuffix)
		if err != nil {
			return "", err
		}
		acm, err := serCmp(agg.Comparison)
		if err != nil {
			return "", err
		}
		res += fmt.Sprintf(" %s %s %s %s", agg.Fn, abp, abs, acm)
	} else {
		res += " - - - -"
	}
	if top != nil {
		k, err := strconv.Atoi(top.Param)
		if err != nil || k < 0 {
			return "", fmt.Errorf("k")
		}
		tcm, err := serCmp(top.Comparison)
		if err != nil {
			return "", err
		}
		res += fmt.Sprintf(" %d %d %s", b2i(top.Fn == "topk"), k, tcm)
	} else {
		res += " - 0 -"
	}
	return res, nil
}

// ---- the real path: logql_transpiler_v2.Plan (GetBreakpoint says "no hand-over": the whole script goes to ClickHouse)
// → the ClickHouse request planner of the chain → Process → String

func c08xImplSQL(query string, c mctx) (text string, script *logql_parser.LogQLScript, err error) {
	script, err = logql_parser.Parse(query)
	if err != nil {
		return "", nil, fmt.Errorf("parse: %w", err)
	}
	fresh, _ := logql_parser.Parse(query)
	defer func() {
		if e := recover(); e != nil {
			err = fmt.Errorf("panic: %v", e)
		}
	}()
	bp, berr := lt.GetBreakpoint(script)
	if berr != nil {
		return "", fresh, fmt.Errorf("breakpoint: %w", berr)
	}
	if bp != lt.BreakpointNo {
		return "", fresh, fmt.Errorf("handover: breakpoint %d", bp)
	}
	chain, perr := lt.Plan(script)
	if perr != nil {
		return "", fresh, fmt.Errorf("plan: %w", perr)
	}
	if len(chain) != 1 {
		return "", fresh, fmt.Errorf("plan: chain of %d", len(chain))
	}
	g := c07xFindGetter(chain[0])
	if g == nil {
		return "", fresh, fmt.Errorf("plan: no ClickHouse getter in the chain")
	}
	if !g.Matrix {
		return "", fresh, fmt.Errorf("plan: the getter is not a matrix getter")
	}
	sel, perr := g.ClickhouseRequestPlanner.Process(c.planner())
	if perr != nil {
		return "", fresh, fmt.Errorf("process: %w", perr)
	}
	text, perr = sel.String(sql.DefaultCtx())
	if perr != nil {
		return "", fresh, fmt.Errorf("string: %w", perr)
	}
	return text, fresh, nil
}

func c08xCount(r *h.Result, stream string, script *logql_parser.LogQLScript) {
	ra, agg, top := c08xRangeOf(script)
	if ra == nil {
		return
	}
	r.Count(stream + ":fn:" + ra.fn)
	shape := "range"
	if agg != nil {
		shape = "agg"
		r.Count(stream + ":agg:" + agg.Fn)
	}
	if top != nil {
		shape = "topk(" + shape + ")"
	}
	r.Count(stream + ":shape:" + shape)
	for _, p := range ra.sel.Pipelines {
		switch {
		case p.LineFilter != nil:
			r.Count(stream + ":stage:line")
		case p.LabelFilter != nil:
			r.Count(stream + ":stage:label-filter")
		case p.Parser != nil && p.Parser.Fn == "json":
			r.Count(stream + ":stage:json-params")
		case p.Parser != nil && p.Parser.Fn == "regexp":
			r.Count(stream + ":stage:regexp")
		case p.Drop != nil:
			r.Count(stream + ":stage:drop")
		case p.Unwrap != nil:
			r.Count(stream + ":stage:unwrap")
		}
	}
}

// c08TextX: the text tie for the labelled path — byte-equal SQL between the real path and LogQL.planMetricX
func c08TextX(r *h.Result, rng *h.Rng, n int, g mgen) error {
	r.Stream("textx: metric queries over selectors with `| json l=\"p\"` / `| regexp` / `| drop` / filters after them, and quantile_over_time: logql_parser.Parse → logql_transpiler_v2.Plan (GetBreakpoint: no hand-over) → the ClickHouse request planner of the chain → Process → String vs LogQL.planMetricX/Sql.renderSel (byte-equal SQL)")
	var ops, impl []string
	var cases []any
	for i := 0; i < n; i++ {
		query := c08xGenQuery(rng, c08xDefaultGen(g))
		probe, err := logql_parser.Parse(query)
		if err != nil {
			r.Count("textx:parse-error")
			r.Sample(map[string]string{"stream": "textx", "query": query, "error": err.Error()})
			continue
		}
		d := scriptDuration(probe)
		c := genMCtx(rng, d)
		ser, serr := c08xSer(probe)
		sqlText, script, err := c08xImplSQL(query, c)
		if err != nil {
			cls := err.Error()
			if j := strings.Index(cls, ":"); j > 0 {
				cls = cls[:j]
			}
			r.Count("textx:impl-error:" + cls)
			if os.Getenv("C08X_DEBUG") != "" {
				fmt.Fprintln(os.Stderr, "impl-error:", query, "=>", err, "ser:", serr)
			}
			if serr == nil && cls != "handover" {
				// the fragment is planned without error: an error here is a finding of its own
				r.Violate("C08/fragment-query-not-planned", "a metric query of the modelled fragment is rejected by the planner: "+err.Error(),
					map[string]any{"query": query, "ctx": c, "error": err.Error()})
			}
			continue
		}
		if serr != nil {
			r.Count("textx:outside-fragment")
			continue
		}
		_ = script
		if err := c08xOracle(r, rng, query, c, sqlText); err != nil {
			return err
		}
		ops = append(ops, "c08planx "+c.ser()+" "+ser)
		impl = append(impl, h.Hex([]byte(sqlText)))
		cases = append(cases, map[string]any{"query": query, "ctx": c})
		r.Case("textx:"+query+fmt.Sprint(c), true)
		c08xCount(r, "textx", probe)
		switch {
		case c.Step < d:
			r.Count("textx:step<range")
		case c.Step == d:
			r.Count("textx:step=range")
		default:
			r.Count("textx:step>range")
		}
		if clickhouse_planner.AnalyzeMetrics15sShortcut(probe) {
			r.Count("textx:metrics_15s-shortcut") // never: a parser / drop / unwrap excludes it
		}
		if i%97 == 0 {
			r.Sample(map[string]any{"stream": "textx", "query": query, "ctx": c, "sql": sqlText})
		}
	}
	return r.Compare("textx", ops, impl, cases)
}

// ---------------------------------------------------------------- semantic stream for the labelled path

var c08xTokVals = map[string][]string{
	"x":   {"1", "2.5", "10", "0", "n", "7"},
	"lvl": {"e", "w"},
	"n":   {"1", "2", "3", "4.5"},
	"a":   {"b", "z"},
	"m.k": {"5", "q"},
}

func c08xSemChanger(r *h.Rng) string {
	switch r.Intn(10) {
	case 0, 1, 2, 3:
		n := r.Range(1, 2)
		var ps []string
		for i := 0; i < n; i++ {
			lbl := h.Pick(r, []string{"x", "lvl", "n", "a", "app"})
			path := h.Pick(r, []string{"x", "lvl", "n", "a", "m.k", "nope"})
			if r.Chance(60) {
				path = lbl
			}
			ps = append(ps, lbl+"="+q(path))
		}
		return "| json " + strings.Join(ps, ", ")
	case 4, 5:
		return "| regexp " + q(h.Pick(r, []string{"(?P<x>\\d+)", "(?P<lvl>[a-z]+) (?P<n>\\d+)", "(?P<n>.) (.*) (?P<x>\\w+)", "(?P<a>[a-z]+)"}))
	default:
		return "| drop " + h.Pick(r, []string{"a", "lvl", "x", "app, x", "a=\"b\"", "lvl=\"e\", job", "n", "level"})
	}
}

func c08xSemFilter(r *h.Rng) string {
	switch r.Intn(5) {
	case 0:
		return h.Pick(r, []string{"|=", "!=", "|~", "!~"}) + " " + q(h.Pick(r, []string{"e", "1", "x=", "lvl=e", "", "5", "="}))
	case 1, 2:
		k := h.Pick(r, []string{"lvl", "a", "app", "x", "n"})
		vals := c08xTokVals[k]
		if vals == nil {
			vals = semLabelVals[k]
		}
		return "| " + k + h.Pick(r, []string{"=", "!=", "!=", "=~", "!~"}) + q(h.Pick(r, vals))
	default:
		return "| " + h.Pick(r, []string{"x", "n"}) + " " + h.Pick(r, []string{">", ">=", "<", "<=", "==", "!="}) + " " + h.Pick(r, []string{"1", "2", "2.5", "5"}) +
			h.Pick(r, []string{"", "", " or lvl=\"e\"", " or a!=\"\""})
	}
}

// genSemDBX: the databases of genSemDB with lines made of blank-separated name=value tokens (what the driver's toy
// "document" and "capture" oracles read), sometimes a bare number (for `| unwrap _entry`) or plain text
func genSemDBX(r *h.Rng, streams []semStream, c mctx, d int64) semDB {
	db := genSemDB(r, streams, c, d)
	db.Samples = nil
	for i := range db.Rows {
		switch k := r.Intn(10); {
		case k < 8:
			names := []string{"x", "lvl", "n", "a", "m.k"}
			for j := len(names) - 1; j > 0; j-- {
				m := r.Intn(j + 1)
				names[j], names[m] = names[m], names[j]
			}
			var toks []string
			for _, nm := range names[:r.Range(1, 4)] {
				toks = append(toks, nm+"="+h.Pick(r, c08xTokVals[nm]))
			}
			db.Rows[i].Str = strings.Join(toks, " ")
		case k == 8:
			db.Rows[i].Str = h.Pick(r, []string{"5", "2.5", "0", "12"})
		}
		s := db.Rows[i]
		db.Samples = append(db.Samples, fmt.Sprintf("%d:%d:%s:%d", s.FP, s.TS, hx(s.Str), s.Type))
	}
	return db
}

// c08xSemSelector: matchers satisfied by one of the streams (mostly), at most one plain stage
func c08xSemSelector(streams []semStream) func(r *h.Rng) string {
	return func(r *h.Rng) string {
		st := h.Pick(r, streams)
		var ms []string
		for i, n := 0, r.Range(1, 2); i < n; i++ {
			kv := h.Pick(r, st.Labels)
			k, v, op := kv[0], kv[1], h.Pick(r, []string{"=", "=", "=~"})
			if r.Chance(15) {
				k = h.Pick(r, []string{"a", "app", "job", "level"})
				v = h.Pick(r, semLabelVals[k])
				op = h.Pick(r, []string{"=", "!=", "=~", "!~"})
			}
			ms = append(ms, k+op+q(v))
		}
		s := "{" + strings.Join(ms, ", ") + "}"
		if r.Chance(35) {
			switch r.Intn(3) {
			case 0:
				s += " " + h.Pick(r, []string{"|=", "!=", "|~", "!~"}) + " " + q(h.Pick(r, []string{"=", "e", "1", "x", "", "5", "lvl"}))
			case 1:
				k := h.Pick(r, []string{"app", "level", "job", "a"})
				s += " | " + k + h.Pick(r, []string{"=", "!=", "!=", "=~"}) + q(h.Pick(r, semLabelVals[k]))
			default:
				s += " | x " + h.Pick(r, []string{">", ">=", "<", "<=", "==", "!="}) + " " + h.Pick(r, []string{"1", "2", "2.5", "5"})
			}
		}
		return s
	}
}

func c08xFeatures(s *logql_parser.LogQLScript) []string {
	ra, agg, top := c08xRangeOf(s)
	var f []string
	kind := "lra"
	if n := len(ra.sel.Pipelines); n > 0 && ra.sel.Pipelines[n-1].Unwrap != nil {
		kind = "unwrap"
	}
	f = append(f, kind+":"+ra.fn)
	for _, p := range ra.sel.Pipelines {
		switch {
		case p.Parser != nil:
			f = append(f, p.Parser.Fn)
		case p.Drop != nil:
			f = append(f, "drop")
		}
	}
	if top != nil {
		f = append(f, top.Fn)
	}
	if agg != nil {
		f = append(f, "agg:"+agg.Fn)
		if agg.ByOrWithoutPrefix == nil && agg.ByOrWithoutSuffix == nil {
			f = append(f, "agg-without-grouping")
		}
	}
	seen := map[string]bool{}
	var res []string
	for _, x := range f {
		if !seen[x] {
			seen[x] = true
			res = append(res, x)
		}
	}
	return res
}

// c08SemX: Sql.evalSelA of the model plan (= the real planner's text, compared again for the very same case) against the
// direct reading LogQL.evalMetricX, for the labelled path
func c08SemX(r *h.Result, rng *h.Rng, n int) error {
	r.Stream("semx: (query of the labelled path, context, small database with name=value lines) → Sql.evalSelA (LogQL.planMetricX) vs LogQL.evalMetricX in the Lean driver; the SQL text of the same case is compared with the real planner's; cases labelled by LogQL.supportedX (the class predicate of plan_metric_correct_ext)")
	var ops, textOps, impl []string
	var cases []map[string]any
	var feats [][]string
	for i := 0; i < n; i++ {
		streams := genSemStreams(rng)
		g := c08xGen{mgen: mgen{simple: true, streams: streams, extraFns: true}, changer: c08xSemChanger, filter: c08xSemFilter, selector: c08xSemSelector(streams)}
		query := c08xGenQuery(rng, g)
		probe, err := logql_parser.Parse(query)
		if err != nil {
			r.Count("semx:parse-error")
			continue
		}
		ser, err := c08xSer(probe)
		if err != nil {
			r.Count("semx:outside-fragment")
			continue
		}
		d := scriptDuration(probe)
		c := genMCtx(rng, d)
		c.Limit, c.Cluster = 0, false
		if rng.Chance(92) {
			c.Type = uint8(rng.Intn(2))
		}
		nb := int64(rng.Range(1, 4))
		c.To = c.From + nb*d + int64(rng.Intn(3))*d/2
		if rng.Chance(50) {
			c.From = c.From / d * d
			c.To = c.To/d*d + d
		}
		if c.Step > 16*d {
			c.Step = 2 * d
		}
		sqlText, _, err := c08xImplSQL(query, c)
		if err != nil {
			r.Count("semx:impl-error")
			continue
		}
		db := genSemDBX(rng, streams, c, d)
		ops = append(ops, "c08semx "+c.ser()+" "+ser+" "+db.ser())
		textOps = append(textOps, "c08planx "+c.ser()+" "+ser)
		impl = append(impl, h.Hex([]byte(sqlText)))
		cases = append(cases, map[string]any{"query": query, "ctx": c, "db": db, "sql": sqlText, "model_op": ops[len(ops)-1], "dur": d})
		feats = append(feats, c08xFeatures(probe))
	}
	if err := r.Compare("semx-text", textOps, impl, nil); err != nil {
		return err
	}
	ans, err := h.Model(ops)
	if err != nil {
		return err
	}
	for i, a := range ans {
		f := feats[i]
		fields := strings.Fields(a)
		if len(fields) < 4 {
			return fmt.Errorf("c08semx: model answered %q for %v", a, ops[i])
		}
		class, stages := fields[len(fields)-2], fields[len(fields)-1]
		r.Count("semx:class:" + class)
		proved := strings.HasPrefix(class, "proved-ext:")
		if proved {
			r.Count("semx:proved")
			if ns, _ := strconv.Atoi(stages); ns >= 3 {
				r.Count("semx:proved:stages>=3")
			}
			if c := cases[i]["ctx"].(mctx); c.Step > scriptDurationOf(cases[i]) {
				r.Count("semx:proved:step>range")
			}
			for _, x := range f {
				r.Count("semx:proved:" + x)
			}
		} else {
			r.Count("semx:searched")
		}
		switch {
		case fields[0] == "ok" && len(fields) == 4:
			rows := fields[1]
			r.Case("semx:"+fmt.Sprint(cases[i]["query"], cases[i]["ctx"], i), rows != "0")
			if rows == "0" {
				r.Count("semx:empty-result")
			} else {
				r.Count("semx:non-empty-result")
				if proved {
					r.Count("semx:proved:non-empty-result")
				}
			}
		case fields[0] == "diff" && len(fields) == 5:
			cases[i]["sql_rows"] = string(h.UnHex(fields[1]))
			cases[i]["direct_reading"] = string(h.UnHex(fields[2]))
			cases[i]["class"] = class
			r.Case("semx:"+fmt.Sprint(cases[i]["query"], cases[i]["ctx"], i), true)
			key := "C08/sql-differs-from-direct-reading-x:" + strings.Join(f, ",")
			if proved {
				// cannot happen while the theorem and the driver are built from the same definitions
				key = "C08/proved-class-differs:" + class
			}
			r.Violate(key, "rows of the generated SQL (Sql.evalSelA of the model plan = the real planner's text) differ from the direct reading of "+fmt.Sprint(cases[i]["query"]), cases[i])
			r.Count("semx:mismatch")
		default:
			return fmt.Errorf("c08semx: model answered %q for %v", a, ops[i])
		}
	}
	// the stream has to exercise every class plan_metric_correct_ext covers (fail closed when the generator stops doing so)
	for _, need := range []string{
		"semx:class:proved-ext:lra+stages:range", "semx:class:proved-ext:lra+stages:agg", "semx:class:proved-ext:lra+stages:topk(agg)",
		"semx:class:proved-ext:unwrap+stages:range", "semx:class:proved-ext:unwrap+stages:agg",
		"semx:class:proved-ext:quantile:range", "semx:class:proved-ext:quantile+stages:range", "semx:class:proved-ext:quantile+stages:topk(range)",
		"semx:proved:json", "semx:proved:regexp", "semx:proved:drop", "semx:proved:stages>=3", "semx:proved:step>range",
		"semx:proved:non-empty-result",
	} {
		if r.Distribution[need] == 0 {
			return fmt.Errorf("c08semx: no case of %s among %d (the stream no longer exercises a class plan_metric_correct_ext covers)", need, len(ans))
		}
	}
	return nil
}

// ---------------------------------------------------------------- oracles on the real planner (no model involved)

var c08xPipelinePlanners = map[string]bool{"LineFilterPlanner": true, "LabelFilterPlanner": true, "ParserPlanner": true,
	"PlannerDrop": true, "UnwrapPlanner": true}
var c08xMatrixPlanners = map[string]bool{"LRAPlanner": true, "UnwrapFunctionPlanner": true, "QuantilePlanner": true,
	"ComparisonPlanner": true, "ByWithoutPlanner": true, "AggOpPlanner": true, "TopKPlanner": true}

var c08xQuantileRe = regexp.MustCompile(`^quantile\(([0-9.]+)\)\(value\)$`)

// c08xOracle: (1) chain — every pipeline stage written in the query (read off the real AST) has its planner in the chain
// clickhouse_planner.Plan returns, in pipeline order (label filters before the first parser / drop: on the fingerprint side),
// and the matrix planners are those written, in the order of the text, quantile_over_time with the written φ;
// (2) text — the range stage of the real SQL: bucket column, GROUP BY keys, the value expression interpreted on random groups
// against the definition of the written function; `quantile(φ)(value)` carries the written φ
func c08xOracle(r *h.Result, rng *h.Rng, query string, c mctx, sqlText string) error {
	script, err := logql_parser.Parse(query)
	if err != nil {
		return nil
	}
	ra, agg, top := c08xRangeOf(script)
	rep := func(extra map[string]any) map[string]any {
		m := map[string]any{"query": query, "ctx": c, "sql": sqlText}
		for k, v := range extra {
			m[k] = v
		}
		return m
	}
	// ---- (1) the planner chain
	p, err := clickhouse_planner.Plan(script, true)
	if err != nil {
		return nil // reported by the text stream
	}
	names, fp, err := chainOf(p)
	if err != nil {
		return fmt.Errorf("chain of %q: %w", query, err)
	}
	nLabel, err := fpChainOf(fp)
	if err != nil {
		return fmt.Errorf("fingerprint chain of %q: %w", query, err)
	}
	var wantPipe []string
	wantSimple, joined, unwrapped := 0, false, false
	for _, st := range ra.sel.Pipelines {
		switch {
		case st.Parser != nil:
			joined = true
			wantPipe = append(wantPipe, "ParserPlanner("+st.Parser.Fn+")")
		case st.Drop != nil:
			joined = true
			var ls []string
			for _, dp := range st.Drop.Params {
				ls = append(ls, dp.Label.Name)
			}
			wantPipe = append(wantPipe, "PlannerDrop("+strings.Join(ls, ",")+")")
		case st.LineFilter != nil:
			wantPipe = append(wantPipe, "LineFilterPlanner("+st.LineFilter.Fn+")")
		case st.LabelFilter != nil && !joined:
			wantSimple++
		case st.LabelFilter != nil:
			wantPipe = append(wantPipe, "LabelFilterPlanner")
		case st.Unwrap != nil:
			unwrapped = true
			wantPipe = append(wantPipe, "UnwrapPlanner("+st.Unwrap.Label.Name+")")
		}
	}
	var wantMatrix []string
	cmp := func(cm *logql_parser.Comparison) {
		if cm != nil {
			wantMatrix = append(wantMatrix, "ComparisonPlanner("+cm.Fn+")")
		}
	}
	switch {
	case ra.quantile:
		if g := groupingName(ra.bp, ra.bs); g != "" {
			wantMatrix = append(wantMatrix, g)
		}
		phi, _ := strconv.ParseFloat(ra.param, 64)
		wantMatrix = append(wantMatrix, "QuantilePlanner("+strconv.FormatFloat(phi, 'g', -1, 64)+")")
	case unwrapped:
		if g := groupingName(ra.bp, ra.bs); g != "" {
			wantMatrix = append(wantMatrix, g)
		}
		wantMatrix = append(wantMatrix, "UnwrapFunctionPlanner("+ra.fn+")")
	default:
		wantMatrix = append(wantMatrix, "LRAPlanner("+ra.fn+")")
	}
	cmp(ra.cmp)
	if agg != nil {
		if g := groupingName(agg.ByOrWithoutPrefix, agg.ByOrWithoutSuffix); g != "" {
			wantMatrix = append(wantMatrix, g)
		} else {
			wantMatrix = append(wantMatrix, "ByWithoutPlanner(true:)")
		}
		wantMatrix = append(wantMatrix, "AggOpPlanner("+agg.Fn+")")
		cmp(agg.Comparison)
	}
	if top != nil {
		k, _ := strconv.Atoi(top.Param)
		wantMatrix = append(wantMatrix, fmt.Sprintf("TopKPlanner(%v,%d)", top.Fn == "topk", k))
		cmp(top.Comparison)
	}
	var gotPipe, gotMatrix []string
	for _, nm := range names {
		switch {
		case c08xPipelinePlanners[baseName(nm)]:
			gotPipe = append(gotPipe, nm)
		case c08xMatrixPlanners[baseName(nm)]:
			gotMatrix = append(gotMatrix, nm)
		}
	}
	chainRep := rep(map[string]any{"planned": names, "label_filters_planned": nLabel})
	if strings.Join(gotPipe, " ") != strings.Join(wantPipe, " ") {
		r.Violate("C08/pipeline-stage-not-planned", fmt.Sprintf("pipeline stages written: %v, planned: %v", wantPipe, gotPipe), chainRep)
	}
	if nLabel != wantSimple {
		r.Violate("C08/label-filter-not-planned", fmt.Sprintf("%d label filters written before the first parser / drop, %d planned on the fingerprint side", wantSimple, nLabel), chainRep)
	}
	if strings.Join(gotMatrix, " ") != strings.Join(wantMatrix, " ") {
		r.Violate("C08/matrix-stages-not-planned-in-query-order", fmt.Sprintf("written: %v, planned: %v", wantMatrix, gotMatrix), chainRep)
	}
	// ---- (2) the range stage of the SQL text
	ctes, final, err := splitCTEs(sqlText)
	if err != nil {
		return err
	}
	ctes = append(ctes, cte{"", final})
	d := scriptDuration(script)
	trueSecs := float64(d) / 1e9
	seenRange := false
	for _, ct := range ctes {
		sp, err := parseSelect(ct.body)
		if err != nil {
			return fmt.Errorf("x stage oracle: %w in %s", err, sqlText)
		}
		checkBucket := func(src, what string) {
			e, ok := sp.cols["timestamp_ns"]
			if !ok {
				r.Violate("C08/stage-without-bucket-column", what+" has no timestamp_ns column", rep(nil))
				return
			}
			for k := 0; k < 3; k++ {
				ts := int64(rng.Intn(1<<31)) * int64(1+rng.Intn(1<<20))
				got, err := evalText(e, srow{src: float64(ts)}, nil)
				want := float64(ts / d * d)
				if err != nil || got != want {
					r.Violate("C08/bucket-start-wrong:"+what, fmt.Sprintf("%s: `%s` gives %v for ts=%d, the window of width %d containing it starts at %v (%v)", what, e, got, ts, d, want, err),
						rep(map[string]any{"expr": e, "ts": ts, "width": d}))
					return
				}
			}
		}
		switch {
		case strings.HasPrefix(sp.from, "agg_a as time_series"):
			seenRange = true
			checkBucket("time_series.timestamp_ns", "range stage")
			if !sameSet(sp.groupBy, []string{"fingerprint", "timestamp_ns"}) {
				r.Violate("C08/range-stage-group-by", fmt.Sprintf("range stage groups by %v", sp.groupBy), rep(nil))
			}
			var lines []string
			var grp []srow
			for k, m := 0, rng.Range(1, 6); k < m; k++ {
				l := strings.Repeat("x", rng.Intn(9))
				lines = append(lines, l)
				grp = append(grp, srow{"_string": l, "fingerprint": 1.0})
			}
			got, err := evalText(sp.cols["value"], nil, grp)
			want := defRange(ra.fn, trueSecs, lines)
			if err != nil || !near(got, want) {
				r.Violate("C08/range-value-differs:"+ra.fn, fmt.Sprintf("%s over lines %q: the SQL value `%s` gives %v, the definition %v (%v)", ra.fn, lines, sp.cols["value"], got, want, err),
					rep(map[string]any{"expr": sp.cols["value"], "lines": lines, "got": got, "want": want}))
			}
			if sp.cols["labels"] != "any(labels)" {
				r.Violate("C08/range-stage-loses-labels", "the range stage over a selector with label-rewriting stages does not carry the labels: "+sp.cols["labels"], rep(nil))
			}
		case strings.HasPrefix(sp.from, "unwrap_1"):
			seenRange = true
			checkBucket("timestamp_ns", "unwrap range stage")
			if !sameSet(sp.groupBy, []string{"fingerprint", "timestamp_ns"}) {
				r.Violate("C08/range-stage-group-by", fmt.Sprintf("unwrap range stage groups by %v", sp.groupBy), rep(nil))
			}
			var grp []srow
			var ts, vs []float64
			for k, m := 0, rng.Range(1, 6); k < m; k++ {
				t, v := float64(1000+7*k+rng.Intn(5)), float64(rng.Intn(21)-10)/2
				ts, vs = append(ts, t), append(vs, v)
				grp = append(grp, srow{"unwrap_1.value": v, "unwrap_1.timestamp_ns": t})
			}
			got, err := evalText(sp.cols["value"], nil, grp)
			want := defUnwrap(ra.fn, trueSecs, ts, vs)
			if err != nil || !near(got, want) {
				r.Violate("C08/range-value-differs:unwrap:"+ra.fn, fmt.Sprintf("%s over (ts, value) %v %v: the SQL value `%s` gives %v, the definition %v (%v)", ra.fn, ts, vs, sp.cols["value"], got, want, err),
					rep(map[string]any{"expr": sp.cols["value"], "ts": ts, "values": vs, "got": got, "want": want}))
			}
		case strings.HasPrefix(sp.from, "quant_a"):
			seenRange = true
			checkBucket("quant_a.timestamp_ns", "quantile stage")
			if !sameSet(sp.groupBy, []string{"fingerprint", "timestamp_ns"}) {
				r.Violate("C08/range-stage-group-by", fmt.Sprintf("quantile stage groups by %v", sp.groupBy), rep(nil))
			}
			m := c08xQuantileRe.FindStringSubmatch(sp.cols["value"])
			want, _ := strconv.ParseFloat(ra.param, 64)
			if !ra.quantile || m == nil {
				r.Violate("C08/quantile-value-shape", "the quantile stage's value column is `"+sp.cols["value"]+"`", rep(nil))
			} else if got, _ := strconv.ParseFloat(m[1], 64); math.Abs(got-want) > 5e-7 {
				r.Violate("C08/quantile-parameter-differs", fmt.Sprintf("quantile_over_time(%s, …): the SQL computes `%s`", ra.param, sp.cols["value"]),
					rep(map[string]any{"written": ra.param, "sql": sp.cols["value"]}))
			}
			if sp.cols["fingerprint"] != "quant_a.fingerprint" || sp.cols["labels"] != "any(quant_a.labels)" {
				r.Violate("C08/quantile-series-identity", fmt.Sprintf("the quantile stage's series columns are fingerprint=`%s`, labels=`%s`", sp.cols["fingerprint"], sp.cols["labels"]), rep(nil))
			}
		}
		// the samples scan is confined to the window
		if strings.Contains(sp.from, " as samples") && sp.prew != "" {
			lo, hi := fmt.Sprint(c.From), fmt.Sprint(c.To)
			if !strings.Contains(sp.prew, "((samples.timestamp_ns) >= ("+lo+"))") || !strings.Contains(sp.prew, "((samples.timestamp_ns) < ("+hi+"))") {
				r.Violate("C08/samples-window", "the samples scan is not confined to [from, to): "+sp.prew, rep(nil))
			}
		}
	}
	if !seenRange {
		r.Violate("C08/range-stage-missing", "no SELECT of the statement computes the range function", rep(nil))
	}
	// the pipeline stages leave their mark in the text as well
	nJSON, nRe, nDrop := 0, 0, 0
	for _, st := range ra.sel.Pipelines {
		switch {
		case st.Parser != nil && st.Parser.Fn == "json":
			nJSON++
		case st.Parser != nil && st.Parser.Fn == "regexp":
			nRe++
		case st.Drop != nil:
			nDrop++
		}
	}
	if got := strings.Count(sqlText, "mapFromArrays(["); got != nJSON {
		r.Violate("C08/pipeline-stage-not-planned", fmt.Sprintf("%d `| json` stages written, %d extraction maps in the SQL", nJSON, got), rep(nil))
	}
	if got := strings.Count(sqlText, "extractAllGroupsHorizontal("); got != nRe {
		r.Violate("C08/pipeline-stage-not-planned", fmt.Sprintf("%d `| regexp` stages written, %d in the SQL", nRe, got), rep(nil))
	}
	if got := strings.Count(sqlText, "mapFilter((k,v) -> k!=") + strings.Count(sqlText, "mapFilter((k,v) -> (k, v)!="); got != nDrop {
		r.Violate("C08/pipeline-stage-not-planned", fmt.Sprintf("%d `| drop` stages written, %d in the SQL", nDrop, got), rep(nil))
	}
	return nil
}
