package main

// C06 — a stored span reads back as the span that was pushed.
// Correspondence: the exported span parsers (UnmarshalOTLPV2, UnmarshalZipkinJSONV2, UnmarshalZipkinNDJSONV2) →
// TempoSamples/TempoTag → ProcessRequest of the two trace insert services (columns) → rows replayed through a
// scripted database/sql driver into TempoService.Query/OutputQuery, each stage compared with the Lean model.
// Oracle (independent of the model): field-wise comparison pushed span ↔ stored rows ↔ returned span.

import (
	"bytes"
	"encoding/hex"
	"encoding/json"
	"fmt"
	"math"
	"os"
	"sort"
	"strconv"
	"strings"

	"github.com/metrico/qryn/writer/utils/unmarshal"
	v11 "go.opentelemetry.io/proto/otlp/common/v1"
	trace "go.opentelemetry.io/proto/otlp/trace/v1"
	"google.golang.org/protobuf/proto"
	"verif/harness/h"
)

func init() { props["C06"] = c06 }

// ---------------------------------------------------------------- oracle helpers

// c06PadHex: the id a Zipkin hex string denotes: `want` hex digits, shorter strings padded with zeros on
// the left, longer ones cut after `want` digits.
func c06PadHex(s string, want int) []byte {
	if len(s) < want {
		s = strings.Repeat("0", want-len(s)) + s
	}
	b, err := hex.DecodeString(s[:want])
	if err != nil {
		return nil
	}
	return b
}

type c06MapWrite struct {
	k, v string
}

// c06Flatten: the oracle's own reading of "flattened attribute": a scalar is one entry under its dotted
// path; list elements are addressed by index, map members by key; bytes and unset values have no entry.
func c06Flatten(prefix string, kvs []*v11.KeyValue, out []c06MapWrite) []c06MapWrite {
	for _, kv := range kvs {
		out = c06FlattenVal(prefix+kv.Key, kv.Value, out)
	}
	return out
}

func c06FlattenVal(path string, v *v11.AnyValue, out []c06MapWrite) []c06MapWrite {
	switch x := v.GetValue().(type) {
	case *v11.AnyValue_StringValue:
		return append(out, c06MapWrite{path, x.StringValue})
	case *v11.AnyValue_BoolValue:
		return append(out, c06MapWrite{path, strconv.FormatBool(x.BoolValue)})
	case *v11.AnyValue_IntValue:
		return append(out, c06MapWrite{path, strconv.FormatInt(x.IntValue, 10)})
	case *v11.AnyValue_DoubleValue:
		return append(out, c06MapWrite{path, strconv.FormatFloat(x.DoubleValue, 'f', 6, 64)})
	case *v11.AnyValue_ArrayValue:
		for i, e := range x.ArrayValue.GetValues() {
			out = c06FlattenVal(path+"."+strconv.Itoa(i), e, out)
		}
	case *v11.AnyValue_KvlistValue:
		out = c06Flatten(path+".", x.KvlistValue.GetValues(), out)
	}
	return out
}

func c06CountKey(kvs []*v11.KeyValue, key string) (n int, last *v11.KeyValue) {
	for _, kv := range kvs {
		if kv.Key == key {
			n++
			last = kv
		}
	}
	return
}

type c06OtlpCase struct {
	td   *trace.TracesData
	body []byte
	op   string
	w    *c06Written
}

func (c *c06OtlpCase) replay(what string) map[string]any {
	return map[string]any{"stream": "otlp", "what": what, "body_hex": hex.EncodeToString(c.body), "model_op": c.op}
}

type c06FlatSpan struct {
	res  []*v11.KeyValue
	span *trace.Span
}

func c06FlatSpans(td *trace.TracesData) []c06FlatSpan {
	var out []c06FlatSpan
	for _, rs := range td.ResourceSpans {
		for _, sc := range rs.ScopeSpans {
			for _, s := range sc.Spans {
				out = append(out, c06FlatSpan{rs.Resource.GetAttributes(), s})
			}
		}
	}
	return out
}

// c06OtlpFaults: the writer reads the value of the service-name attributes it reaches without a nil check; a KeyValue
// without a value there makes the parser fault (the request is answered with an error, nothing is stored)
func c06OtlpFaults(merged []*v11.KeyValue) bool {
	for _, n := range []string{"service.name", "peer.service", "faas.name", "k8s.deployment.name", "process.executable.name"} {
		_, kv := c06CountKey(merged, n)
		if kv == nil {
			continue
		}
		if kv.Value == nil {
			return true
		}
		if kv.Value.GetStringValue() != "" {
			break
		}
	}
	for _, n := range []string{"service.name", "faas.name", "k8s.deployment.name", "process.executable.name"} {
		if _, kv := c06CountKey(merged, n); kv != nil && kv.Value == nil {
			return true
		}
	}
	return false
}

func c06OtlpAccepted(spans []c06FlatSpan) bool {
	for _, s := range spans {
		if len(s.span.TraceId) != 16 || len(s.span.SpanId) != 8 {
			return false
		}
		if c06OtlpFaults(append(append([]*v11.KeyValue{}, s.span.Attributes...), s.res...)) {
			return false
		}
	}
	return true
}

func c06StripSpan(s *trace.Span) *trace.Span {
	c := proto.Clone(s).(*trace.Span)
	c.Attributes = nil
	c.Status = nil
	return c
}

// c06OracleOtlp judges one accepted OTLP request: rows, tag rows, payload, read-back.
func c06OracleOtlp(r *h.Result, c *c06OtlpCase, rd *c06ReadResult) {
	spans := c06FlatSpans(c.td)
	w := c.w
	V := func(key, what string) { r.Violate(key, what, c.replay(what)) }
	for _, n := range w.Notes {
		V("C06/otlp-columns", "OTLP: "+n)
	}
	if w.Rej {
		V("C06/otlp-accepted-request-rejected", "OTLP request whose spans all have 16/8-byte ids is rejected: "+w.Err)
		return
	}
	if len(w.Rows) != len(spans) {
		V("C06/otlp-row-count", fmt.Sprintf("OTLP request with %d spans produced %d trace rows", len(spans), len(w.Rows)))
		return
	}
	ti := 0
	for i, fs := range spans {
		s, row := fs.span, w.Rows[i]
		merged := append(append([]*v11.KeyValue{}, s.Attributes...), fs.res...)
		switch {
		case !bytes.Equal(row.Tid, s.TraceId) || len(row.Tid) != 16:
			V("C06/otlp-row-trace-id", fmt.Sprintf("span %d: trace_id %x, pushed %x", i, row.Tid, s.TraceId))
		case !bytes.Equal(row.Sid, s.SpanId) || len(row.Sid) != 8:
			V("C06/otlp-row-span-id", fmt.Sprintf("span %d: span_id %x, pushed %x", i, row.Sid, s.SpanId))
		case !bytes.Equal(row.Pid, s.ParentSpanId):
			V("C06/otlp-row-parent", fmt.Sprintf("span %d: parent_id %x, pushed %x", i, row.Pid, s.ParentSpanId))
		case row.Name != s.Name:
			V("C06/otlp-row-name", fmt.Sprintf("span %d: name %q, pushed %q", i, row.Name, s.Name))
		case row.Ts != int64(s.StartTimeUnixNano):
			V("C06/otlp-row-start", fmt.Sprintf("span %d: timestamp_ns %d, pushed start %d", i, row.Ts, s.StartTimeUnixNano))
		case row.Dur != int64(s.EndTimeUnixNano-s.StartTimeUnixNano):
			V("C06/otlp-row-duration", fmt.Sprintf("span %d: duration_ns %d, pushed %d..%d", i, row.Dur, s.StartTimeUnixNano, s.EndTimeUnixNano))
		case row.Ptype != 2:
			V("C06/otlp-row-payload-type", fmt.Sprintf("span %d: payload_type %d", i, row.Ptype))
		}
		if n, last := c06CountKey(merged, "service.name"); n == 1 && last.Value.GetStringValue() != "" && row.Svc != last.Value.GetStringValue() {
			V("C06/otlp-row-service-name", fmt.Sprintf("span %d: service_name %q but its only service.name attribute is %q", i, row.Svc, last.Value.GetStringValue()))
		}
		if row.Svc == "" {
			V("C06/otlp-row-service-name-empty", fmt.Sprintf("span %d: empty service_name", i))
		}
		// payload: the pushed span, attributes = span attributes then resource attributes (+ service names)
		stored := &trace.Span{}
		if err := proto.Unmarshal(row.Payload, stored); err != nil || len(row.Payload) == 0 {
			V("C06/otlp-payload-undecodable", fmt.Sprintf("span %d: payload of %d bytes does not decode as a span: %v", i, len(row.Payload), err))
			continue
		}
		if !proto.Equal(c06StripSpan(stored), c06StripSpan(s)) || !proto.Equal(stored.Status, s.Status) {
			V("C06/otlp-payload-fields", fmt.Sprintf("span %d: the stored span differs from the pushed one outside its attributes", i))
		}
		if len(stored.Attributes) < len(merged) {
			V("C06/otlp-payload-attributes", fmt.Sprintf("span %d: stored span has %d attributes, pushed span+resource %d", i, len(stored.Attributes), len(merged)))
		} else {
			for j, kv := range merged {
				if kv.Key == "service.name" {
					continue
				}
				if !proto.Equal(stored.Attributes[j], kv) {
					V("C06/otlp-payload-attributes", fmt.Sprintf("span %d: stored attribute %d (%q) differs from the pushed one", i, j, kv.Key))
					break
				}
			}
		}
		// tag rows: one per flattened attribute of the stored span, plus name; all with the span's ids and times
		writes := c06Flatten("", stored.Attributes, nil)
		count := map[string]int{}
		lastv := map[string]string{}
		for _, wr := range writes {
			count[wr.k]++
			lastv[wr.k] = wr.v
		}
		count["name"] += 0
		count["service.name"] += 0
		want := len(count)
		if ti+want > len(w.Tags) {
			V("C06/otlp-tag-count", fmt.Sprintf("span %d: %d flattened attributes, only %d tag rows left", i, want, len(w.Tags)-ti))
			return
		}
		seen := map[string]bool{}
		for _, t := range w.Tags[ti : ti+want] {
			switch {
			case !bytes.Equal(t.Tid, row.Tid) || !bytes.Equal(t.Sid, row.Sid) || t.Ts != row.Ts || t.Dur != row.Dur:
				V("C06/otlp-tag-ids-times", fmt.Sprintf("span %d: tag row %q carries %x/%x/%d/%d, the span %x/%x/%d/%d", i, t.Key, t.Tid, t.Sid, t.Ts, t.Dur, row.Tid, row.Sid, row.Ts, row.Dur))
			case t.Date != row.Ts/1000000000:
				V("C06/otlp-tag-date", fmt.Sprintf("span %d: tag row %q dated %d, span starts at %d ns", i, t.Key, t.Date, row.Ts))
			}
			if _, ok := count[t.Key]; !ok {
				V("C06/otlp-tag-unexpected", fmt.Sprintf("span %d: tag row %q is not a flattened attribute of the span", i, t.Key))
			}
			if seen[t.Key] {
				V("C06/otlp-tag-duplicate", fmt.Sprintf("span %d: two tag rows for %q", i, t.Key))
			}
			seen[t.Key] = true
			switch {
			case t.Key == "name":
				if t.Val != s.Name {
					V("C06/otlp-tag-name", fmt.Sprintf("span %d: tag name=%q, span name %q", i, t.Val, s.Name))
				}
			case t.Key == "service.name":
				if t.Val != row.Svc {
					V("C06/otlp-tag-service-name", fmt.Sprintf("span %d: tag service.name=%q, service_name column %q", i, t.Val, row.Svc))
				}
			case count[t.Key] == 1 && t.Val != lastv[t.Key]:
				V("C06/otlp-tag-value", fmt.Sprintf("span %d: tag %q=%q, attribute value %q", i, t.Key, t.Val, lastv[t.Key]))
			}
		}
		for k := range count {
			if !seen[k] {
				V("C06/otlp-tag-missing", fmt.Sprintf("span %d: flattened attribute %q has no tag row", i, k))
				break
			}
		}
		ti += want
	}
	if ti != len(w.Tags) {
		V("C06/otlp-tag-count", fmt.Sprintf("%d tag rows, %d flattened attributes", len(w.Tags), ti))
	}
	// read-back
	if rd == nil {
		V("C06/read-crash", "the reader process died while decoding the rows of an OTLP request")
		return
	}
	if rd.Err != "" {
		V("C06/read-query", "OTLP read: "+rd.Err)
	}
	if !strings.HasPrefix(rd.Canon, "done") || len(rd.Spans) != len(spans) {
		V("C06/otlp-read-incomplete", fmt.Sprintf("%d stored spans, the reader returned %d (%s)", len(spans), len(rd.Spans), strings.SplitN(rd.Canon, "|", 2)[0]))
		return
	}
	for i, fs := range spans {
		s := fs.span
		merged := append(append([]*v11.KeyValue{}, s.Attributes...), fs.res...)
		got := c06SpanOf(rd.Spans[i])
		if got == nil {
			V("C06/otlp-read-nil", fmt.Sprintf("span %d read back as nil", i))
			continue
		}
		switch {
		case !bytes.Equal(got.TraceId, s.TraceId) || !bytes.Equal(got.SpanId, s.SpanId):
			V("C06/otlp-read-ids", fmt.Sprintf("span %d read back with ids %x/%x, pushed %x/%x", i, got.TraceId, got.SpanId, s.TraceId, s.SpanId))
		case !bytes.Equal(got.ParentSpanId, s.ParentSpanId):
			V("C06/otlp-read-parent", fmt.Sprintf("span %d read back with parent %x, pushed %x", i, got.ParentSpanId, s.ParentSpanId))
		case got.Name != s.Name:
			V("C06/otlp-read-name", fmt.Sprintf("span %d read back with name %q, pushed %q", i, got.Name, s.Name))
		case got.StartTimeUnixNano != s.StartTimeUnixNano || got.EndTimeUnixNano != s.EndTimeUnixNano:
			V("C06/otlp-read-times", fmt.Sprintf("span %d read back %d..%d, pushed %d..%d", i, got.StartTimeUnixNano, got.EndTimeUnixNano, s.StartTimeUnixNano, s.EndTimeUnixNano))
		case !proto.Equal(c06StripSpan(got), c06StripSpan(s)):
			V("C06/otlp-read-fields", fmt.Sprintf("span %d read back differs from the pushed span outside attributes and status", i))
		case s.Status != nil && !proto.Equal(got.Status, s.Status):
			V("C06/otlp-read-status", fmt.Sprintf("span %d read back with a different status", i))
		}
		if rd.Svcs[i] != w.Rows[i].Svc {
			V("C06/otlp-read-service-name", fmt.Sprintf("span %d is stored under service %q and read back under %q", i, w.Rows[i].Svc, rd.Svcs[i]))
		}
		keys := map[string]int{}
		for _, kv := range got.Attributes {
			keys[kv.Key]++
			if keys[kv.Key] > 1 {
				V("C06/otlp-read-attr-duplicate", fmt.Sprintf("span %d read back with two attributes %q", i, kv.Key))
			}
		}
		for _, kv := range merged {
			if n, _ := c06CountKey(merged, kv.Key); n != 1 || kv.Key == "service.name" {
				continue
			}
			n, g := c06CountKey(got.Attributes, kv.Key)
			if n != 1 || !proto.Equal(g, kv) {
				V("C06/otlp-read-attribute", fmt.Sprintf("span %d: attribute %q read back changed or missing", i, kv.Key))
				break
			}
		}
		// the tag index and the span read back tell the same story: a scalar attribute read back under a key that no nested
		// path flattens to has a tag row with its text (whichever duplicate the two sides keep, they keep the same one)
		nested := map[string]bool{}
		for _, kv := range merged {
			for _, wr := range c06FlattenVal(kv.Key, kv.Value, nil) {
				if wr.k != kv.Key {
					nested[wr.k] = true
				}
			}
		}
		for _, kv := range got.Attributes {
			if nested[kv.Key] || kv.Key == "service.name" || kv.Key == "name" || kv.Key == "remoteService.name" {
				continue
			}
			wr := c06FlattenVal(kv.Key, kv.Value, nil)
			if len(wr) != 1 || wr[0].k != kv.Key {
				continue
			}
			found := false
			for _, t := range w.Tags {
				if bytes.Equal(t.Sid, w.Rows[i].Sid) && bytes.Equal(t.Tid, w.Rows[i].Tid) && t.Ts == w.Rows[i].Ts && t.Key == kv.Key && t.Val == wr[0].v {
					found = true
					break
				}
			}
			if !found {
				V("C06/otlp-read-vs-tag-index", fmt.Sprintf("span %d: attribute %q read back as %q has no tag row with that value", i, kv.Key, wr[0].v))
				break
			}
		}
		if n, g := c06CountKey(got.Attributes, "service.name"); n != 1 || g.Value.GetStringValue() != rd.Svcs[i] {
			V("C06/otlp-read-service-attr", fmt.Sprintf("span %d read back without a service.name attribute equal to its service name %q", i, rd.Svcs[i]))
		}
	}
}

// ---------------------------------------------------------------- Zipkin oracle

type c06ZipCase struct {
	spans []*c06ZSpan
	eps   []map[string]c06ZEndpointExp
	nd    bool
	body  []byte
	op    string
	w     *c06Written
}

func (c *c06ZipCase) replay(what string) map[string]any {
	fr := "array"
	if c.nd {
		fr = "ndjson"
	}
	return map[string]any{"stream": "zipkin", "framing": fr, "what": what, "body": string(c.body), "model_op": c.op}
}

func (c *c06ZipCase) accepted() bool {
	for _, s := range c.spans {
		if s.Exp.Reject || !s.Exp.HasTrace || !s.Exp.HasID {
			return false
		}
	}
	return true
}

func c06ZipSvc(e *c06ZExpect) string {
	if e.HasLocal && e.Local != "" {
		return e.Local
	}
	if e.HasRem {
		return e.Remote
	}
	return ""
}

var c06Kinds = map[string]trace.Span_SpanKind{"CLIENT": trace.Span_SPAN_KIND_CLIENT, "SERVER": trace.Span_SPAN_KIND_SERVER,
	"PRODUCER": trace.Span_SPAN_KIND_PRODUCER, "CONSUMER": trace.Span_SPAN_KIND_CONSUMER}

func c06OracleZip(r *h.Result, c *c06ZipCase, rd *c06ReadResult) {
	w := c.w
	V := func(key, what string) { r.Violate(key, what, c.replay(what)) }
	fr := "array"
	if c.nd {
		fr = "ndjson"
	}
	for _, n := range w.Notes {
		V("C06/zipkin-columns", "Zipkin: "+n)
	}
	if w.Rej {
		V("C06/zipkin-accepted-request-rejected", "Zipkin ("+fr+") request of well-formed spans is rejected: "+w.Err)
		return
	}
	if len(w.Rows) != len(c.spans) {
		V("C06/zipkin-row-count", fmt.Sprintf("Zipkin (%s) request with %d spans produced %d trace rows", fr, len(c.spans), len(w.Rows)))
		return
	}
	wantTags := map[string]int{}
	for i, s := range c.spans {
		e, row := &s.Exp, w.Rows[i]
		tid, sid := c06PadHex(e.TraceHex, 32), c06PadHex(e.IDHex, 16)
		var pid []byte
		if e.Parent != "" {
			pid = c06PadHex(e.Parent, 16)
		}
		svc := c06ZipSvc(e)
		switch {
		case !bytes.Equal(row.Tid, tid) || len(row.Tid) != 16:
			V("C06/zipkin-row-trace-id", fmt.Sprintf("%s span %d: trace_id %x, pushed %q", fr, i, row.Tid, e.TraceHex))
		case !bytes.Equal(row.Sid, sid) || len(row.Sid) != 8:
			V("C06/zipkin-row-span-id", fmt.Sprintf("%s span %d: span_id %x, pushed %q", fr, i, row.Sid, e.IDHex))
		case !bytes.Equal(row.Pid, pid):
			V("C06/zipkin-row-parent", fmt.Sprintf("%s span %d: parent_id %x, pushed %q", fr, i, row.Pid, e.Parent))
		case row.Name != e.Name:
			V("C06/zipkin-row-name", fmt.Sprintf("%s span %d: name %q, pushed %q", fr, i, row.Name, e.Name))
		case row.Ts != e.TsMicro*1000:
			V("C06/zipkin-row-start", fmt.Sprintf("%s span %d: timestamp_ns %d, pushed %d µs", fr, i, row.Ts, e.TsMicro))
		case row.Dur != e.DurMicro*1000:
			V("C06/zipkin-row-duration", fmt.Sprintf("%s span %d: duration_ns %d, pushed %d µs", fr, i, row.Dur, e.DurMicro))
		case row.Svc != svc:
			V("C06/zipkin-row-service-name", fmt.Sprintf("%s span %d: service_name %q; localEndpoint %q (present %v), remoteEndpoint %q (present %v)", fr, i, row.Svc, e.Local, e.HasLocal, e.Remote, e.HasRem))
		case row.Ptype != 1:
			V("C06/zipkin-row-payload-type", fmt.Sprintf("%s span %d: payload_type %d", fr, i, row.Ptype))
		case string(row.Payload) != s.Text:
			V("C06/zipkin-payload", fmt.Sprintf("%s span %d: stored payload (%d bytes) is not the span text (%d bytes)", fr, i, len(row.Payload), len(s.Text)))
		}
		tag := func(k, v string) {
			wantTags[c06TagText(c06Tag{row.Tid, row.Sid, row.Ts, row.Dur, row.Ts / 1000000000, k, v})]++
		}
		if e.HasName {
			tag("name", e.Name)
		}
		if e.HasLocal {
			tag("local_endpoint_service_name", e.Local)
		}
		if e.HasRem {
			tag("remote_endpoint_service_name", e.Remote)
		}
		for _, t := range e.Tags {
			tag(t[0], t[1])
		}
		tag("service.name", row.Svc)
	}
	for _, t := range w.Tags {
		k := c06TagText(t)
		wantTags[k]--
		if wantTags[k] < 0 {
			V("C06/zipkin-tag-unexpected", fmt.Sprintf("%s: tag row %q=%q of span %x is not an attribute of that span (or carries other ids/times)", fr, t.Key, t.Val, t.Sid))
			break
		}
	}
	for k, n := range wantTags {
		if n > 0 {
			V("C06/zipkin-tag-missing", fmt.Sprintf("%s: attribute without tag row: %s", fr, k))
			break
		}
	}
	if rd == nil {
		V("C06/read-crash", "the reader process died while decoding the rows of a Zipkin request")
		return
	}
	if rd.Err != "" {
		V("C06/read-query", "Zipkin read: "+rd.Err)
	}
	if !strings.HasPrefix(rd.Canon, "done") || len(rd.Spans) != len(c.spans) {
		V("C06/zipkin-read-incomplete", fmt.Sprintf("%s: %d stored spans, the reader returned %d (%s)", fr, len(c.spans), len(rd.Spans), strings.SplitN(rd.Canon, "|", 2)[0]))
		return
	}
	for i, s := range c.spans {
		e, row := &s.Exp, w.Rows[i]
		got := c06SpanOf(rd.Spans[i])
		if got == nil {
			V("C06/zipkin-read-nil", fmt.Sprintf("%s span %d read back as nil", fr, i))
			continue
		}
		switch {
		case !bytes.Equal(got.TraceId, row.Tid) || !bytes.Equal(got.SpanId, row.Sid):
			V("C06/zipkin-read-ids", fmt.Sprintf("%s span %d read back with ids %x/%x, stored %x/%x", fr, i, got.TraceId, got.SpanId, row.Tid, row.Sid))
		case !bytes.Equal(got.ParentSpanId, row.Pid):
			V("C06/zipkin-read-parent", fmt.Sprintf("%s span %d (parentId %q) is stored with parent %x and read back with parent %x", fr, i, e.Parent, row.Pid, got.ParentSpanId))
		case got.Name != e.Name:
			V("C06/zipkin-read-name", fmt.Sprintf("%s span %d read back with name %q, pushed %q", fr, i, got.Name, e.Name))
		case got.StartTimeUnixNano != uint64(row.Ts) || got.EndTimeUnixNano != uint64(row.Ts+row.Dur):
			V("C06/zipkin-read-times", fmt.Sprintf("%s span %d read back %d..%d, stored %d+%d", fr, i, got.StartTimeUnixNano, got.EndTimeUnixNano, row.Ts, row.Dur))
		case got.Kind != c06Kinds[e.Kind]:
			V("C06/zipkin-read-kind", fmt.Sprintf("%s span %d read back with kind %v, pushed %q", fr, i, got.Kind, e.Kind))
		}
		if rd.Svcs[i] != row.Svc {
			V("C06/zipkin-read-service-name", fmt.Sprintf("%s span %d is stored under service %q and read back under %q", fr, i, row.Svc, rd.Svcs[i]))
		}
		// attributes: the string tags in document order, then the endpoint attributes, then service.name
		var want []*v11.KeyValue
		str := func(k, v string) {
			want = append(want, &v11.KeyValue{Key: k, Value: &v11.AnyValue{Value: &v11.AnyValue_StringValue{StringValue: v}}})
		}
		for _, t := range e.Tags {
			str(t[0], t[1])
		}
		for _, ep := range []string{"localEndpoint", "remoteEndpoint"} {
			x, ok := c.eps[i][ep]
			if !ok {
				continue
			}
			if x.Has {
				str(ep+".serviceName", x.Svc)
			}
			for _, a := range x.Attrs {
				str(ep+"."+a[0], a[1])
			}
			if x.Port != 0 {
				want = append(want, &v11.KeyValue{Key: ep + ".port", Value: &v11.AnyValue{Value: &v11.AnyValue_IntValue{IntValue: x.Port}}})
			}
		}
		str("service.name", rd.Svcs[i])
		ok := len(got.Attributes) == len(want)
		for j := 0; ok && j < len(want); j++ {
			ok = proto.Equal(got.Attributes[j], want[j])
		}
		if !ok {
			V("C06/zipkin-read-attributes", fmt.Sprintf("%s span %d read back with attributes %v, pushed tags/endpoints give %v", fr, i, got.Attributes, want))
		}
	}
}

// ---------------------------------------------------------------- streams

func c06RunOtlp(r *h.Result, rng *h.Rng, n int, tier string) error {
	r.Stream("otlp-write: UnmarshalOTLPV2 → TempoSamples/TempoTag → ProcessRequest columns vs Span.writeOTLP (rows, tag rows sorted, payload decoded)")
	r.Stream("otlp-read: those rows → scripted database/sql → TempoService.Query/OutputQuery/parseOTLP vs Span.readRows ∘ writeOTLP")
	var wops, wimpl, rops []string
	var cases []*c06OtlpCase
	var jobs []c06ReadJob
	var jobCase []int
	var anyCases []any
	for i := 0; i < n; i++ {
		wild := i%7 == 3
		td := c06GenTraces(rng, 4, 5, wild)
		body, err := proto.Marshal(td)
		if err != nil {
			return err
		}
		toks := strings.Join(c06TracesTokens(td), " ")
		c := &c06OtlpCase{td: td, body: body, op: "c06otlp " + toks}
		c.w = c06Write(unmarshal.UnmarshalOTLPV2, body)
		cases = append(cases, c)
		wops = append(wops, c.op)
		wimpl = append(wimpl, c06WrittenText(c.w, true, c06OtlpPayloadName))
		anyCases = append(anyCases, map[string]string{"body_hex": hex.EncodeToString(body)})
		spans := c06FlatSpans(td)
		acc := c06OtlpAccepted(spans)
		nattr := 0
		for _, s := range spans {
			nattr += len(s.span.Attributes) + len(s.res)
		}
		r.Case("otlp:"+toks, len(spans) > 0 && nattr > 0)
		r.Count(fmt.Sprintf("otlp:spans=%d", len(spans)))
		if acc {
			r.Count("otlp:accepted")
		} else {
			r.Count("otlp:ids-not-16/8-or-valueless-service-name")
			if !c.w.Rej {
				r.Violate("C06/otlp-bad-ids-stored", "OTLP request with a trace/span id that is not 16/8 bytes (or a service-name attribute without a value) produced storable rows",
					c.replay("ids of a wrong length accepted"))
			}
		}
		if !c.w.Rej {
			jobs = append(jobs, c06ReadJob{Rows: c.w.Rows, Sort: true})
			jobCase = append(jobCase, i)
			rops = append(rops, "c06otlprt "+toks)
		}
		if i%41 == 0 {
			r.Sample(map[string]any{"stream": "otlp-write", "spans": len(spans), "accepted": acc, "impl": c06Trunc(wimpl[i], 600)})
		}
	}
	if err := r.Compare("otlp-write", wops, wimpl, anyCases); err != nil {
		return err
	}
	results, err := c06ReadChunks(jobs)
	if err != nil {
		return err
	}
	rimpl := make([]string, len(jobs))
	rd := map[int]*c06ReadResult{}
	for j, res := range results {
		if res == nil {
			rimpl[j] = "crashed"
		} else {
			rimpl[j] = res.Canon
		}
		rd[jobCase[j]] = res
		r.Case("otlp-read:"+rops[j], len(jobs[j].Rows) > 0)
	}
	if err := r.Compare("otlp-read", rops, rimpl, nil); err != nil {
		return err
	}
	for i, c := range cases {
		if c06OtlpAccepted(c06FlatSpans(c.td)) {
			var res *c06ReadResult
			if !c.w.Rej {
				res = rd[i]
				if res == nil {
					r.Violate("C06/read-crash", "the reader process died while decoding the rows of an OTLP request", c.replay("reader crash"))
					continue
				}
			}
			c06OracleOtlp(r, c, res)
		}
	}
	return nil
}

func c06Trunc(s string, n int) string {
	if len(s) > n {
		return s[:n] + "…"
	}
	return s
}

func c06ReadChunks(jobs []c06ReadJob) ([]*c06ReadResult, error) {
	var out []*c06ReadResult
	for len(jobs) > 0 {
		k := len(jobs)
		if k > 400 {
			k = 400
		}
		res, err := c06ReadAll(jobs[:k])
		if err != nil {
			return nil, err
		}
		out = append(out, res...)
		jobs = jobs[k:]
	}
	return out, nil
}

func c06RunZip(r *h.Result, rng *h.Rng, n int, tier string) error {
	r.Stream("zipkin-write: UnmarshalZipkinJSONV2 and UnmarshalZipkinNDJSONV2 on the same spans (members in random order) → columns vs Span.writeZipkin")
	r.Stream("zipkin-read: those rows → scripted database/sql → TempoService.Query/OutputQuery/parseZipkinJSON vs Span.readRows ∘ writeZipkin")
	maxHex := 40
	var wops, wimpl, rops []string
	var cases []*c06ZipCase
	var jobs []c06ReadJob
	var jobCase []int
	serial := 0
	for i := 0; i < n; i++ {
		wild := i%5 == 2
		k := rng.Intn(6)
		if i == 1 {
			k = 2
		}
		var spans []*c06ZSpan
		var eps []map[string]c06ZEndpointExp
		canon := map[string]int{}
		for j := 0; j < k; j++ {
			serial++
			s, ep := c06GenZSpan(rng, serial, wild && rng.Chance(50), maxHex)
			if i == 1 {
				// a request over the 1 MiB flush threshold: the spans arrive in more than one response
				big := strings.Repeat("x", 600*1024)
				s.Fields = append(s.Fields, c06ZField{Key: "tags", Raw: `{"big":"` + big + `"}`, Tok: []string{"G", "1", c06hex("big"), c06hex(big)}})
				var keep []c06ZField
				for _, f := range s.Fields {
					if f.Key != "tags" || strings.HasPrefix(f.Raw, `{"big"`) {
						keep = append(keep, f)
					}
				}
				s.Fields = keep
				s.Exp.Tags = [][2]string{{"big", big}}
				var ms []string
				for _, f := range s.Fields {
					ms = append(ms, c06JSON(f.Key)+":"+f.Raw)
				}
				s.Text = "{" + strings.Join(ms, ",") + "}"
			}
			// spans with the same document get the same name in the canonical text
			key := strings.Join(s.tokens()[1:], " ")
			if first, ok := canon[key]; ok {
				s.Serial = first
			} else {
				canon[key] = s.Serial
			}
			spans = append(spans, s)
			eps = append(eps, ep)
		}
		for _, nd := range []bool{false, true} {
			c := &c06ZipCase{spans: spans, eps: eps, nd: nd, body: c06ZipBody(nd, spans)}
			c.op = c06ZipOp("c06zip", nd, spans)
			parser := unmarshal.UnmarshalZipkinJSONV2
			if nd {
				parser = unmarshal.UnmarshalZipkinNDJSONV2
			}
			c.w = c06Write(parser, c.body)
			byText := map[string]int{}
			for _, s := range spans {
				if _, ok := byText[s.Text]; !ok {
					byText[s.Text] = s.Serial
				}
			}
			name := func(p []byte) string {
				if len(p) == 0 {
					return "E"
				}
				if n, ok := byText[string(p)]; ok {
					return "Z" + strconv.Itoa(n)
				}
				return "X" + hex.EncodeToString(p)
			}
			ci := len(cases)
			cases = append(cases, c)
			wops = append(wops, c.op)
			wimpl = append(wimpl, c06WrittenText(c.w, false, name))
			fr := "array"
			if nd {
				fr = "ndjson"
			}
			r.Case("zipkin:"+c.op, k >= 2)
			r.Count("zipkin:" + fr)
			r.Count(fmt.Sprintf("zipkin:spans=%d", k))
			if c.accepted() {
				r.Count("zipkin:accepted")
			} else {
				r.Count("zipkin:rejected-by-construction")
				if !c.w.Rej {
					r.Violate("C06/zipkin-bad-span-stored", "Zipkin ("+fr+") request with an ill-formed span (missing/empty/non-hex id, ill-typed member) produced storable rows",
						c.replay("ill-formed span accepted"))
				}
			}
			if !c.w.Rej {
				jobs = append(jobs, c06ReadJob{Rows: c.w.Rows, Sort: false})
				jobCase = append(jobCase, ci)
				rops = append(rops, c06ZipOp("c06ziprt", nd, spans))
			}
			if i%37 == 0 && i != 1 {
				r.Sample(map[string]any{"stream": "zipkin-write", "framing": fr, "body": c06Trunc(string(c.body), 500), "impl": c06Trunc(wimpl[ci], 500)})
			}
		}
		for _, s := range spans {
			r.Count(fmt.Sprintf("zipkin:trace-id-hex-digits=%d", len(s.Exp.TraceHex)))
		}
	}
	if err := r.Compare("zipkin-write", wops, wimpl, nil); err != nil {
		return err
	}
	results, err := c06ReadChunks(jobs)
	if err != nil {
		return err
	}
	rimpl := make([]string, len(jobs))
	rd := map[int]*c06ReadResult{}
	for j, res := range results {
		if res == nil {
			rimpl[j] = "crashed"
		} else {
			rimpl[j] = res.Canon
		}
		rd[jobCase[j]] = res
		r.Case("zipkin-read:"+rops[j], len(jobs[j].Rows) > 0)
	}
	if err := r.Compare("zipkin-read", rops, rimpl, nil); err != nil {
		return err
	}
	for i, c := range cases {
		if !c.accepted() {
			continue
		}
		var res *c06ReadResult
		if !c.w.Rej {
			res = rd[i]
			if res == nil {
				r.Violate("C06/read-crash", "the reader process died while decoding the rows of a Zipkin request", c.replay("reader crash"))
				continue
			}
		}
		c06OracleZip(r, c, res)
	}
	// framing independence judged on the implementation: both framings of the same spans give the same rows
	for i := 0; i+1 < len(cases); i += 2 {
		if wimpl[i] != wimpl[i+1] {
			r.Violate("C06/zipkin-framing", "the JSON-array and the newline-delimited framing of the same spans give different rows",
				map[string]any{"stream": "zipkin", "array_body": c06Trunc(string(cases[i].body), 4000), "array_rows": c06Trunc(wimpl[i], 4000), "ndjson_rows": c06Trunc(wimpl[i+1], 4000)})
		}
	}
	return nil
}

// foreign rows: what the reader does with rows the Go writer would not have produced
func c06RunForeign(r *h.Result, rng *h.Rng) error {
	r.Stream("foreign-rows: hand-made stored rows (empty payload, unknown payload type) → OutputQuery vs Span.readRows; a crash of the reader is a violation")
	tid, sid := bytes.Repeat([]byte{0xab}, 16), bytes.Repeat([]byte{0xcd}, 8)
	sp := &trace.Span{TraceId: tid, SpanId: sid, Name: "n", StartTimeUnixNano: 5, EndTimeUnixNano: 9,
		Attributes: []*v11.KeyValue{{Key: "peer.service", Value: &v11.AnyValue{Value: &v11.AnyValue_StringValue{StringValue: "P"}}},
			{Key: "service.name", Value: &v11.AnyValue{Value: &v11.AnyValue_StringValue{StringValue: "S"}}}}}
	pb, _ := proto.Marshal(sp)
	good := c06Row{Tid: tid, Sid: sid, Ts: 5, Dur: 4, Ptype: 2, Payload: pb}
	goodTok := "2 " + h.Hex(tid) + " " + h.Hex(sid) + " 5 4 O " + strconv.Itoa(int(pb[0])) + " " + strings.Join(c06SpanTokens(sp, nil), " ")
	rowTok := func(pt int, payload string) string {
		return fmt.Sprintf("%d %s %s 5 4 %s", pt, h.Hex(tid), h.Hex(sid), payload)
	}
	type fc struct {
		name string
		rows []c06Row
		op   string
	}
	cs := []fc{
		{"otlp-empty-payload", []c06Row{good, {Tid: tid, Sid: sid, Ts: 5, Dur: 4, Ptype: 2}, good}, "c06readrows 3 " + goodTok + " " + rowTok(2, "E") + " " + goodTok},
		{"zipkin-empty-payload", []c06Row{good, {Tid: tid, Sid: sid, Ts: 5, Dur: 4, Ptype: 1}, good}, "c06readrows 3 " + goodTok + " " + rowTok(1, "E") + " " + goodTok},
		{"unknown-payload-type", []c06Row{{Tid: tid, Sid: sid, Ts: 5, Dur: 4, Ptype: 3, Payload: pb}, good}, "c06readrows 2 " + rowTok(3, "E") + " " + goodTok},
		{"peer-and-service", []c06Row{good}, "c06readrows 1 " + goodTok},
	}
	var jobs []c06ReadJob
	var ops []string
	for _, c := range cs {
		jobs = append(jobs, c06ReadJob{Rows: c.rows, Sort: true})
		ops = append(ops, c.op)
	}
	res, err := c06ReadAll(jobs)
	if err != nil {
		return err
	}
	impl := make([]string, len(cs))
	for i, c := range cs {
		r.Case("foreign:"+c.name, true)
		r.Count("foreign:" + c.name)
		if res[i] == nil {
			impl[i] = "crashed"
			r.Violate("C06/read-crash", "the reader process died on stored rows ("+c.name+")", map[string]any{"stream": "foreign-rows", "case": c.name, "model_op": c.op})
			continue
		}
		impl[i] = res[i].Canon
	}
	return r.Compare("foreign-rows", ops, impl, nil)
}

func c06RunPrims(r *h.Result, rng *h.Rng, n int) error {
	r.Stream("prims: fmt.Sprintf(\"%f\") and strconv.ParseInt(s,10,64) (the library calls of the writer) vs Span.fmtF / Span.parseInt64")
	var ops, impl []string
	for i := 0; i < n; i++ {
		var d float64
		switch {
		case i < len(c06Doubles):
			d = c06Doubles[i]
		case i%3 == 0:
			d = math.Float64frombits(rng.U64())
		case i%3 == 1:
			d = float64(int64(rng.U64()%200000000)-100000000) / float64([]int{1, 2, 8, 64, 128, 1 << 20, 1000, 3, 7}[rng.Intn(9)])
		default:
			d = (float64(rng.Intn(2000001)) + 0.5) / 1e6 * float64([]int{1, -1}[rng.Intn(2)])
		}
		ops = append(ops, "c06fmtf "+strconv.FormatUint(math.Float64bits(d), 10))
		impl = append(impl, c06hex(fmt.Sprintf("%f", d)))
		r.Case("fmtf:"+ops[len(ops)-1], d != 0)
	}
	strs := []string{"", "0", "-0", "+0", "5", "+5", "-5", "0005", " 5", "5 ", "1_000", "0x10", "1.5", "1e3", "9223372036854775807", "9223372036854775808",
		"-9223372036854775808", "-9223372036854775809", "+", "-", "--1", "+-1", "١٢", "12a", "99999999999999999999999999"}
	for i := 0; i < n/4; i++ {
		var s string
		if i < len(strs) {
			s = strs[i]
		} else {
			b := make([]byte, rng.Intn(21))
			for j := range b {
				b[j] = "0123456789+-_ x."[h.Pick(rng, []int{0, 1, 2, 3, 4, 5, 6, 7, 8, 9, 9, 9, 0, 0, 10, 11, 12, 13, 14, 15})]
			}
			s = string(b)
		}
		ops = append(ops, "c06parseint "+c06hex(s))
		v, err := strconv.ParseInt(s, 10, 64)
		if err != nil {
			impl = append(impl, "rej")
		} else {
			impl = append(impl, strconv.FormatInt(v, 10))
		}
		r.Case("parseint:"+s, err == nil)
	}
	return r.Compare("prims", ops, impl, nil)
}

func c06(r *h.Result, rng *h.Rng, tier string, replay string) error {
	if replay != "" {
		// a replay file of ./check carries seed and tier; the case is regenerated from them (generation is deterministic)
		b, err := os.ReadFile(replay)
		if err != nil {
			return err
		}
		var rp struct {
			Seed uint64 `json:"seed"`
			Tier string `json:"tier"`
		}
		if err := json.Unmarshal(b, &rp); err != nil {
			return err
		}
		if rp.Tier != "" {
			tier = rp.Tier
		}
		rng = h.NewRng(rp.Seed)
	}
	nOtlp, nZip, nPrim := 300, 300, 2000
	nTree, nView, nMixed, nPrim2 := 260, 150, 60, 600
	if tier != "quick" {
		nOtlp, nZip, nPrim = 10000, 10000, 60000
		nTree, nView, nMixed, nPrim2 = 6000, 3000, 1500, 20000
	}
	r.Rule = "otlp: ≤4 resources × ≤5 spans in ≤2 scopes, attribute trees of depth ≤4 over all value kinds (duplicate keys at every level), service-name keys over-represented " +
		"(strings, empty strings, other kinds, duplicates between span and resource), 1/7 of the requests with ids of any length; " +
		"zipkin: 0–5 spans with unique member names in random order, ids of 1–40 hex digits (mixed case), string or numeric times, endpoints, " +
		"string and non-string tags, every request through both framings, 1/5 of the requests with ill-formed members; " +
		"zipkin texts (tree level): span texts with duplicate members at every level, optional escapes in names and strings, raw non-UTF-8, lone surrogates, " +
		"numeric strings, nested values to depth 4 (a corpus case to depth 301), all-0/all-f/empty/over-long ids, annotations, tags ≥ 64 KiB, white space and " +
		"other data after the object, broken array framing, CRLF line ends; trees taken from jx and fastjson on the same bytes; mixed traces: 2–4 pushes of " +
		"both protocols sharing a trace id; legacy OTLP/JSON payloads incl. ill-typed ones; " +
		"non-trivial = at least one span with attributes (otlp) / two spans (zipkin) / one text (tree) / two spans of the trace (mixed); distinct by document"
	if err := c06RunOtlp(r, rng.Fork(), nOtlp, tier); err != nil {
		return err
	}
	if err := c06RunZip(r, rng.Fork(), nZip, tier); err != nil {
		return err
	}
	if err := c06RunForeign(r, rng.Fork()); err != nil {
		return err
	}
	if err := c06RunTree(r, rng.Fork(), nTree, tier); err != nil {
		return err
	}
	if err := c06RunOtlpView(r, rng.Fork(), nView); err != nil {
		return err
	}
	if err := c06RunMixed(r, rng.Fork(), nMixed); err != nil {
		return err
	}
	if err := c06RunPrims2(r, rng.Fork(), nPrim2); err != nil {
		return err
	}
	if err := c06RunOJson(r, rng.Fork(), nView); err != nil {
		return err
	}
	if err := c06RunPrims(r, rng.Fork(), nPrim); err != nil {
		return err
	}
	// every hex length 0..40 must have been exercised in the thorough tier
	if tier != "quick" {
		for n := 1; n <= 40; n++ {
			if r.Distribution[fmt.Sprintf("zipkin:trace-id-hex-digits=%d", n)] == 0 {
				r.Notes = append(r.Notes, fmt.Sprintf("no Zipkin trace id of %d hex digits was generated", n))
			}
		}
	}
	return nil
}

var _ = sort.Strings
