package main

// C04 json stream: the model's parser (JsonStr.parseObject — the judge inside labels_json_roundtrip) against
// encoding/json on generated documents, so that "parses" in the theorem means what a JSON library means.

import (
	"fmt"
	"strings"
	"unicode/utf8"

	"verif/harness/h"
)

func c04RandWs(r *h.Rng) string {
	if r.Chance(70) {
		return ""
	}
	return []string{" ", "\n", "\t", "\r", "  ", " \n"}[r.Intn(6)]
}

// c04StyledString: a JSON string literal for s with randomly chosen (valid) escape styles
func c04StyledString(r *h.Rng, s string) (string, bool) {
	var b strings.Builder
	escaped := false
	b.WriteByte('"')
	for _, ru := range s {
		short := map[rune]string{'"': `\"`, '\\': `\\`, '/': `\/`, 8: `\b`, 12: `\f`, 10: `\n`, 13: `\r`, 9: `\t`}
		must := ru == '"' || ru == '\\' || ru < 0x20
		if !must && !r.Chance(25) {
			b.WriteRune(ru)
			continue
		}
		escaped = true
		if e, ok := short[ru]; ok && r.Chance(60) {
			b.WriteString(e)
			continue
		}
		hexf := "\\u%04x"
		if r.Bool() {
			hexf = "\\u%04X"
		}
		if ru >= 0x10000 {
			v := ru - 0x10000
			fmt.Fprintf(&b, hexf, 0xd800+(v>>10))
			fmt.Fprintf(&b, hexf, 0xdc00+(v&0x3ff))
		} else {
			fmt.Fprintf(&b, hexf, ru)
		}
	}
	b.WriteByte('"')
	return b.String(), escaped
}

func c04JSONStream(r *h.Result, rng *h.Rng, n int, onlyHex string) error {
	r.Stream("json: JsonStr.parseObject vs encoding/json (token stream: object of string members, order kept) on styled and mutated documents")
	corpus := []string{`{}`, ` { } `, `{"a":"b"}`, `{"a":"b",}`, `{"a" "b"}`, `{"a":1}`, `{"a":"\x01"}`, `{"a":"😀"}`, `{"a":"\ud83d"}`,
		`{"a":"\ude00x"}`, `{"a":"\ud83dA"}`, `{"a":"b"} x`, `{"a":"b"}{}`, `[]`, `{"a":"` + "\x01" + `"}`, `{"a":"` + "\x7f" + `"}`, `{"a":"é\/"}`,
		`{"a":"b","a":"c"}`, `{"a":""}`, `{"a":"\u12"}`, `{"a":"😀\uD83D"}`, `{"a":nul}`, `{"a":"b"`, `{`, ``, `"a"`}
	var docs [][]byte
	if onlyHex != "" {
		docs = [][]byte{h.UnHex(onlyHex)}
	} else {
		for _, c := range corpus {
			docs = append(docs, []byte(c))
		}
		for len(docs) < n {
			ls := c04GenSet(rng, 4, false)
			var b strings.Builder
			esc := false
			b.WriteString(c04RandWs(rng) + "{" + c04RandWs(rng))
			for i, l := range ls {
				if i > 0 {
					b.WriteString("," + c04RandWs(rng))
				}
				k, e1 := c04StyledString(rng, l.N)
				v, e2 := c04StyledString(rng, l.V)
				esc = esc || e1 || e2
				b.WriteString(k + c04RandWs(rng) + ":" + c04RandWs(rng) + v + c04RandWs(rng))
			}
			b.WriteString("}" + c04RandWs(rng))
			d := []byte(b.String())
			if rng.Chance(40) && len(d) > 0 {
				i := rng.Intn(len(d))
				switch rng.Intn(3) {
				case 0:
					d = append(d[:i:i], d[i+1:]...)
				case 1:
					d[i] = []byte(`"\,:{}u0 x/` + "\x00\x1f")[rng.Intn(13)]
				default:
					d = append(d[:i:i], append([]byte{[]byte(`"\,:{}ud8`)[rng.Intn(9)]}, d[i:]...)...)
				}
			}
			_ = esc
			docs = append(docs, d)
		}
	}
	var ops, impl []string
	var cases []any
	for _, d := range docs {
		if !utf8.Valid(d) {
			// encoding/json replaces invalid UTF-8 by U+FFFD while decoding; the model keeps bytes: not comparable
			r.Count("json:skipped-invalid-utf8")
			continue
		}
		want := "none"
		if ls, err := c04DecodeDoc(d); err == nil {
			want = c04LabelsArg(ls)
			r.Count("json:accepted")
		} else {
			r.Count("json:rejected")
		}
		ops = append(ops, "c04parse "+h.Hex(d))
		impl = append(impl, want)
		cases = append(cases, map[string]string{"stream": "json", "doc_hex": h.Hex(d), "doc": string(d)})
		r.Case("json:"+h.Hex(d), want == "none" || strings.Contains(string(d), `\`))
	}
	return r.Compare("json/parse", ops, impl, cases)
}
