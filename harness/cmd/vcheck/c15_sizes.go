package main

// C15 — result-set SIZES: size classes around every batching constant of the source, and the dense row-count sweep.
//
// The hand-written encoders decide separators with counters; a counter that is also used for something else (a chunk
// fill counter reset at every flush, the getter's 100-entry batch index) goes wrong only past the first batch. Every
// encoder stream therefore runs on result sets of
//   * the size classes 0,1,2,3 and c-1, c, c+1, 2c-1, 2c, 2c+1, 3c, 3c+1 for every batching constant c that the
//     translator finds in the source (Gen.C15Batch, asked from the driver with `c15consts`; 100 = the getter's batch
//     is always included), and 1000, 1001 (plus 1999..2001 for the cheap element lists);
//   * in the search and thorough tiers every row count 0..450.
// Rows are short and distinct; the rows at and next to every multiple of a batching constant carry strings that need
// escaping (a writer that treats the first element of a batch differently shows there).
//
// Every generated body is judged by the independent oracle (encoding/json.Valid + the byte-exact reader + comparison
// with the scripted rows); the modelled encoders are also compared with the Lean model. A violation carries the rows
// (replayable with ./check C15 --replay).

import (
	"bytes"
	"context"
	"database/sql/driver"
	"encoding/json"
	"fmt"
	"hash/fnv"
	"math"
	"net/http/httptest"
	"net/url"
	"sort"
	"strconv"
	"strings"
	"time"

	"github.com/gorilla/mux"
	controllerv1 "github.com/metrico/qryn/reader/controller"
	"github.com/metrico/qryn/reader/model"
	apirouterv1 "github.com/metrico/qryn/reader/router"
	"github.com/metrico/qryn/reader/service"
	"github.com/metrico/qryn/reader/utils/unmarshal"
	"github.com/prometheus/prometheus/promql"
	api_v1 "github.com/prometheus/prometheus/web/api/v1"
	commonv1 "go.opentelemetry.io/proto/otlp/common/v1"
	tracev1 "go.opentelemetry.io/proto/otlp/trace/v1"

	"verif/harness/fakes"
	"verif/harness/h"
)

// batching constants of the source as the Lean side has them (Gen.C15Batch); 100 (ClickhouseGetterPlanner.Scan) is
// always present so that a stale or missing driver does not shrink the classes
func c15BatchConsts() []int {
	set := map[int]bool{100: true}
	if ans, err := h.Model([]string{"c15consts"}); err == nil && len(ans) == 1 && ans[0] != "" && ans[0] != "?" {
		for _, w := range strings.Split(ans[0], ",") {
			if v, err := strconv.Atoi(w); err == nil && v >= 10 && v <= 5000 {
				set[v] = true
			}
		}
	}
	var out []int
	for v := range set {
		out = append(out, v)
	}
	sort.Ints(out)
	return out
}

// entries per batch of ClickhouseGetterPlanner.Scan / ScanMatrix (Gen.C15Batch.getterBatch); 100 without a current driver
func c15GetterBatch() int {
	if ans, err := h.Model([]string{"c15getterbatch"}); err == nil && len(ans) == 1 {
		if v, err := strconv.Atoi(ans[0]); err == nil && v >= 2 && v <= 5000 {
			return v
		}
	}
	return 100
}

// the size classes for a stream whose cases may have up to max rows
func c15SizeClasses(consts []int, max int) []int {
	set := map[int]bool{0: true, 1: true, 2: true, 3: true, 1000: true, 1001: true}
	for _, c := range consts {
		for _, k := range []int{1, 2, 3} {
			for _, d := range []int{-1, 0, 1} {
				if k == 3 && d == -1 {
					continue
				}
				set[k*c+d] = true
			}
		}
	}
	var out []int
	for v := range set {
		if v >= 0 && v <= max {
			out = append(out, v)
		}
	}
	sort.Ints(out)
	return out
}

func c15Sweep(classes []int, dense int) []int {
	set := map[int]bool{}
	for _, v := range classes {
		set[v] = true
	}
	for v := 0; v <= dense; v++ {
		set[v] = true
	}
	var out []int
	for v := range set {
		out = append(out, v)
	}
	sort.Ints(out)
	return out
}

func c15NearBatchEdge(i int, consts []int) bool {
	for _, c := range consts {
		if m := i % c; m == 0 || m == 1 || m == c-1 {
			return true
		}
	}
	return false
}

var c15EdgeHot = [][]byte{[]byte("\""), []byte("\\"), []byte("a\"b"), []byte("\\\""), {1}, []byte("\n"), []byte(","), []byte("]"), []byte("}"), []byte("\",\""),
	{0xff}, {0xe2, 0x80, 0xa8}, []byte("<"), []byte("é")}

// n short, pairwise different rows; escaping-relevant bytes at the batch edges
func c15BigRows(rng *h.Rng, n int, consts []int) [][]byte {
	rows := make([][]byte, n)
	for i := range rows {
		b := []byte("v" + strconv.Itoa(i))
		if (c15NearBatchEdge(i, consts) && rng.Chance(60)) || rng.Chance(4) {
			b = append(b, h.Pick(rng, c15EdgeHot)...)
		}
		rows[i] = b
	}
	return rows
}

func c15RowsKey(kind string, rows [][]byte) string {
	hh := fnv.New64a()
	for _, r := range rows {
		hh.Write(r)
		hh.Write([]byte{0})
	}
	return fmt.Sprintf("sizes:%s:%d:%x", kind, len(rows), hh.Sum64())
}

func c15SizeBucket(n int, consts []int) string {
	switch {
	case n == 0:
		return "0"
	case n < 100:
		return "1-99"
	}
	for _, c := range consts {
		if n == c {
			return "=batch"
		}
		if n == c+1 {
			return "batch+1"
		}
		if n%c == 0 {
			return "k*batch"
		}
	}
	switch {
	case n <= 200:
		return "100-200"
	case n <= 450:
		return "201-450"
	}
	return ">450"
}

// ---------------------------------------------------------------------------------------------------------------
// element lists: one runner for the service level (chunks) and the controller level (body)

type c15ListEnv struct {
	env    *c15Env
	router *mux.Router
}

func newC15ListEnv(env *c15Env) *c15ListEnv {
	router := mux.NewRouter()
	apirouterv1.RouteQueryRangeApis(router, env.reg)
	apirouterv1.RouteSelectLabels(router, env.reg)
	apirouterv1.RouteSelectPrometheusLabels(router, env.reg)
	return &c15ListEnv{env: env, router: router}
}

func c15DriverRows(rows [][]byte) [][]driver.Value {
	d := make([][]driver.Value, len(rows))
	for i, row := range rows {
		d[i] = []driver.Value{string(row)}
	}
	return d
}

// items of the Tempo search / trace endpoints derived from a row
func c15TraceOf(i int, row []byte) *model.TraceResponse {
	return &model.TraceResponse{TraceID: string(row), RootServiceName: "s" + string(row), RootTraceName: string(row) + "t", StartTimeUnixNano: int64(i) * 1000003, DurationMs: int64(i)}
}
func c15TraceInfoOf(i int, row []byte) model.TraceInfo {
	return model.TraceInfo{TraceID: string(row), RootServiceName: "s" + string(row), RootTraceName: string(row) + "t", StartTimeUnixNano: strconv.Itoa(i), DurationMs: float64(i) / 4}
}
func c15SpanOf(i int, row []byte) *model.SpanResponse {
	return &model.SpanResponse{ServiceName: "s", Span: &tracev1.Span{TraceId: []byte{byte(i), byte(i >> 8)}, SpanId: row, Name: string(row), StartTimeUnixNano: uint64(i),
		Attributes: []*commonv1.KeyValue{{Key: "k", Value: &commonv1.AnyValue{Value: &commonv1.AnyValue_StringValue{StringValue: string(row)}}}}}}
}

// cuts n items into batches of the given sizes, going through the size pattern cyclically and at least once
// (size 0 = an empty batch, also for n = 0)
func c15Cut(n int, sizes []int) []int {
	if len(sizes) == 0 {
		return []int{n}
	}
	var out []int
	left := n
	for k := 0; (left > 0 || k < len(sizes)) && k < 100000; k++ {
		s := sizes[k%len(sizes)]
		if s > left {
			s = left
		}
		out = append(out, s)
		left -= s
	}
	return out
}

type c15ListOut struct {
	chunks []string // service level: the chunks; controller level: one element, the body
	items  [][]byte // expected element texts where the elements are marshalled by encoding/json (search, trace); nil for strings
	cuts   []int    // batch sizes used (searchql)
}

// runs the element-list endpoint `kind` over scripted rows
func (le *c15ListEnv) run(kind string, rows [][]byte, batchSizes []int) (*c15ListOut, error) {
	ctx := context.Background()
	env := le.env
	out := &c15ListOut{}
	strs := make([]string, len(rows))
	for i, row := range rows {
		strs[i] = string(row)
	}
	httpGet := func(handler func(w *httptest.ResponseRecorder)) {
		w := httptest.NewRecorder()
		handler(w)
		out.chunks = []string{w.Body.String()}
	}
	route := func(target string) {
		httpGet(func(w *httptest.ResponseRecorder) { le.router.ServeHTTP(w, httptest.NewRequest("GET", target, nil)) })
	}
	switch kind {
	case "labels", "values", "promvalues":
		env.setRows([]string{"key"}, c15DriverRows(rows))
		var ch chan string
		var err error
		switch kind {
		case "labels":
			ch, err = env.lbl.Labels(ctx, 0, 10000, 1)
		case "values":
			ch, err = env.lbl.Values(ctx, "job", nil, 0, 10000, 1)
		default:
			ch, err = env.lbl.PromValues(ctx, "job", []string{`{a="b"}`}, 0, 10000, 2)
		}
		if err != nil {
			return nil, err
		}
		out.chunks = c15CollectStr(ch)
	case "series":
		env.setRows([]string{"labels"}, c15DriverRows(rows))
		ch, err := env.lbl.Series(ctx, []string{`{a="b"}`}, 0, 10000, 1)
		if err != nil {
			return nil, err
		}
		out.chunks = c15CollectStr(ch)
	case "labels-http":
		env.setRows([]string{"key"}, c15DriverRows(rows))
		route("/loki/api/v1/labels")
	case "values-http":
		env.setRows([]string{"key"}, c15DriverRows(rows))
		route("/loki/api/v1/label/job/values")
	case "promlabels-http":
		env.setRows([]string{"key"}, c15DriverRows(rows))
		route("/api/v1/labels")
	case "promvalues-http":
		env.setRows([]string{"key"}, c15DriverRows(rows))
		route("/api/v1/label/job/values")
	case "series-http":
		env.setRows([]string{"labels"}, c15DriverRows(rows))
		route("/loki/api/v1/series?match[]=" + url.QueryEscape(`{a="b"}`))
	case "promseries-http":
		env.setRows([]string{"labels"}, c15DriverRows(rows))
		route("/api/v1/series?match[]=" + url.QueryEscape(`{a="b"}`))
	case "tags", "tagvalues", "tagsv2", "valuesv2":
		ctrl := &controllerv1.TempoController{Service: &fakes.ScriptedTempo{Strings: strs}}
		httpGet(func(w *httptest.ResponseRecorder) {
			switch kind {
			case "tags":
				ctrl.Tags(w, httptest.NewRequest("GET", "/api/search/tags", nil))
			case "tagvalues":
				ctrl.Values(w, httptest.NewRequest("GET", "/api/search/tag/x/values", nil))
			case "tagsv2":
				ctrl.TagsV2(w, httptest.NewRequest("GET", "/api/v2/search/tags", nil))
			default:
				ctrl.ValuesV2(w, httptest.NewRequest("GET", "/api/v2/search/tag/x/values", nil))
			}
		})
	case "search":
		var traces []*model.TraceResponse
		for i, row := range rows {
			t := c15TraceOf(i, row)
			traces = append(traces, t)
			b, _ := json.Marshal(t)
			out.items = append(out.items, b)
		}
		ctrl := &controllerv1.TempoController{Service: &fakes.ScriptedTempo{Traces: traces}}
		httpGet(func(w *httptest.ResponseRecorder) { ctrl.Search(w, httptest.NewRequest("GET", "/api/search?tags=a%3Db", nil)) })
	case "searchql":
		out.cuts = c15Cut(len(rows), batchSizes)
		var tb [][]model.TraceInfo
		k := 0
		for _, s := range out.cuts {
			batch := []model.TraceInfo{}
			for j := 0; j < s; j++ {
				t := c15TraceInfoOf(k, rows[k])
				batch = append(batch, t)
				b, _ := json.Marshal(t)
				out.items = append(out.items, b)
				k++
			}
			tb = append(tb, batch)
		}
		ctrl := &controllerv1.TempoController{Service: &fakes.ScriptedTempo{TraceBatches: tb}}
		httpGet(func(w *httptest.ResponseRecorder) {
			ctrl.Search(w, httptest.NewRequest("GET", "/api/search?q="+url.QueryEscape("{}"), nil))
		})
	case "trace":
		var spans []*model.SpanResponse
		for i, row := range rows {
			s := c15SpanOf(i, row)
			spans = append(spans, s)
			b, _ := json.Marshal(unmarshal.SpanToJSONSpan(s.Span))
			out.items = append(out.items, b)
		}
		ctrl := &controllerv1.TempoController{Service: &fakes.ScriptedTempo{Spans: spans}}
		httpGet(func(w *httptest.ResponseRecorder) {
			req := muxVars(httptest.NewRequest("GET", "/api/traces/00", nil), map[string]string{"traceId": "00"})
			ctrl.Trace(w, req)
		})
	default:
		return nil, fmt.Errorf("c15: unknown element-list kind %q", kind)
	}
	return out, nil
}

// the array of elements inside the documented envelope of `kind`; nil + verdict when the envelope is wrong
func c15ListArray(kind string, doc *jv) (*jv, c15Verdict) {
	bad := func(what string) (*jv, c15Verdict) { return nil, c15Bad(kind, "shape", "%s", what) }
	arrOf := func(v *jv) (*jv, c15Verdict) {
		if v == nil || v.kind != '[' {
			return bad("no element array at the documented place")
		}
		return v, c15Verdict{}
	}
	switch kind {
	case "labels", "values", "promvalues", "series", "labels-http", "values-http", "promlabels-http", "promvalues-http", "series-http", "promseries-http":
		if !c15KeysAre(doc, "status", "data") || doc.get("status").kind != '$' || string(doc.get("status").s) != "success" {
			return bad("envelope is not {status:success,data:[…]}")
		}
		return arrOf(doc.get("data"))
	case "tags":
		if !c15KeysAre(doc, "tagNames") {
			return bad("envelope is not {tagNames:[…]}")
		}
		return arrOf(doc.get("tagNames"))
	case "tagvalues", "valuesv2":
		if !c15KeysAre(doc, "tagValues") {
			return bad("envelope is not {tagValues:[…]}")
		}
		if t := doc.get("tagValues"); kind == "valuesv2" && t.kind == 'n' {
			return &jv{kind: '['}, c15Verdict{} // a nil slice is marshalled as null
		}
		return arrOf(doc.get("tagValues"))
	case "tagsv2":
		sc := doc.get("scopes")
		if !c15KeysAre(doc, "scopes") || sc.kind != '[' || len(sc.arr) != 1 || sc.arr[0].get("name") == nil || string(sc.arr[0].get("name").s) != "unscoped" {
			return bad("envelope is not {scopes:[{name:unscoped,tags:[…]}]}")
		}
		t := sc.arr[0].get("tags")
		if t != nil && t.kind == 'n' {
			return &jv{kind: '['}, c15Verdict{} // a nil slice is marshalled as null
		}
		return arrOf(t)
	case "search", "searchql":
		if !c15KeysAre(doc, "traces") {
			return bad("envelope is not {traces:[…]}")
		}
		return arrOf(doc.get("traces"))
	case "trace":
		rs := doc.get("resourceSpans")
		if !c15KeysAre(doc, "resourceSpans") || rs.kind != '[' || len(rs.arr) != 1 || !c15KeysAre(rs.arr[0], "resource", "instrumentationLibrarySpans") {
			return bad("envelope is not {resourceSpans:[{resource:…,instrumentationLibrarySpans:[{spans:[…]}]}]}")
		}
		ils := rs.arr[0].get("instrumentationLibrarySpans")
		if ils.kind != '[' || len(ils.arr) != 1 || !c15KeysAre(ils.arr[0], "spans") {
			return bad("instrumentationLibrarySpans is not [{spans:[…]}]")
		}
		return arrOf(ils.arr[0].get("spans"))
	}
	return bad("unknown kind")
}

// the oracle of the element lists: validity, envelope, one element per row in order, each element = the row
func c15JudgeList(kind string, body []byte, rows [][]byte, items [][]byte) c15Verdict {
	if !json.Valid(body) {
		return c15Bad(kind, "not-json", "response for %d rows is not valid JSON (encoding/json): %s", len(rows), c15Around(body))
	}
	doc, ok := jdoc(body)
	if !ok {
		return c15Bad(kind, "not-json", "response for %d rows rejected by the byte-exact reader: %s", len(rows), c15Around(body))
	}
	arr, v := c15ListArray(kind, doc)
	if v.key != "" {
		return v
	}
	if len(arr.arr) != len(rows) {
		return c15Bad(kind, "rows", "%d elements for %d rows", len(arr.arr), len(rows))
	}
	for i, row := range rows {
		el := arr.arr[i]
		switch kind {
		case "series", "series-http", "promseries-http":
			want, _ := jdoc(row)
			if want == nil || jdump(want) != jdump(el) {
				return c15Bad(kind, "document", "stored document %d %q arrives as %s", i, row, jdump(el))
			}
		case "valuesv2":
			val := el.get("value")
			if !c15KeysAre(el, "type", "value") || val.kind != '$' || !bytes.Equal(val.s, goSanitize(row)) {
				return c15Bad(kind, "string", "row %d %q arrives as %s", i, row, jdump(el))
			}
		case "search", "searchql", "trace":
			want, _ := jdoc(items[i])
			if want == nil || jdump(want) != jdump(el) {
				return c15Bad(kind, "element", "element %d is not the marshalled item %s", i, items[i])
			}
			id := el.get("traceID")
			if kind != "trace" && (id == nil || !bytes.Equal(id.s, goSanitize(row))) {
				return c15Bad(kind, "element", "traceID of element %d is not row %q", i, row)
			}
			if nm := el.get("name"); kind == "trace" && (nm == nil || !bytes.Equal(nm.s, goSanitize(row))) {
				return c15Bad(kind, "element", "name of span %d is not row %q", i, row)
			}
		default:
			if el.kind != '$' || !bytes.Equal(el.s, goSanitize(row)) {
				return c15Bad(kind, "string", "row %d %q decoded as %q", i, row, el.s)
			}
		}
	}
	return c15Verdict{}
}

// the neighbourhood of the first place where encoding/json stops reading a body
func c15Around(body []byte) string {
	dec := json.NewDecoder(bytes.NewReader(body))
	var x any
	err := dec.Decode(&x)
	off := 0
	if se, ok := err.(*json.SyntaxError); ok {
		off = int(se.Offset)
	} else if err == nil {
		off = int(dec.InputOffset())
	}
	lo, hi := off-40, off+40
	if lo < 0 {
		lo = 0
	}
	if hi > len(body) {
		hi = len(body)
	}
	return fmt.Sprintf("at byte %d of %d: …%q…", off, len(body), body[lo:hi])
}

// the model op for an element-list kind ("" = oracle only)
func c15ListOp(kind string, rows [][]byte, out *c15ListOut) string {
	join := func(op string, items [][]byte) string {
		if len(items) == 0 {
			return op
		}
		return op + " " + c15HexWords(items)
	}
	switch kind {
	case "labels", "values", "promvalues", "labels-http", "values-http", "promlabels-http", "promvalues-http":
		return join("c15labels", rows)
	case "series", "series-http", "promseries-http":
		return join("c15series", rows)
	case "tags":
		return join("c15tags", rows)
	case "tagvalues":
		return join("c15tagvalues", rows)
	case "search":
		return join("c15search", out.items)
	case "trace":
		return join("c15trace", out.items)
	case "searchql":
		ws := []string{"c15searchql"}
		k := 0
		for bi, s := range out.cuts {
			if bi > 0 {
				ws = append(ws, "B")
			}
			for j := 0; j < s; j++ {
				ws = append(ws, h.Hex(out.items[k]))
				k++
			}
		}
		return strings.Join(ws, " ")
	}
	return ""
}

func c15IsChunkLevel(kind string) bool {
	switch kind {
	case "labels", "values", "promvalues", "series":
		return true
	}
	return false
}

// one element-list case: run, judge, queue the model comparison
func (le *c15ListEnv) listCase(r *h.Result, pend *c15Pending, kind string, rows [][]byte, batchSizes []int, consts []int, withModel bool) error {
	out, err := le.run(kind, rows, batchSizes)
	if err != nil {
		return err
	}
	body := []byte(strings.Join(out.chunks, ""))
	rep := c15Replay{Stream: "sizes", Kind: kind, Rows: c15HexWords(rows), Body: h.Hex(body), Note: fmt.Sprintf("%d rows; batch sizes %v", len(rows), out.cuts), Cuts: out.cuts}
	r.Case(c15RowsKey(kind, rows), len(rows) >= 2)
	r.Count("sizes:" + kind)
	r.Count("sizes:rows:" + c15SizeBucket(len(rows), consts))
	if v := c15JudgeList(kind, body, rows, out.items); v.key != "" {
		r.Violate(v.key, v.what, rep)
	}
	if op := c15ListOp(kind, rows, out); withModel && op != "" {
		small := rep
		if len(rows) > 120 {
			small.Body = "" // the disagreement record carries the op (all rows); keep it readable
		}
		if c15IsChunkLevel(kind) {
			pend.add(op, c15HexChunks(out.chunks), small)
		} else {
			pend.add(op, "concat:"+h.Hex(body), small)
		}
	}
	return nil
}

var c15GetterBatchCached = 100

var c15ListKinds = []string{"labels", "values", "promvalues", "series", "labels-http", "values-http", "promlabels-http", "promvalues-http", "series-http", "promseries-http",
	"tags", "tagvalues", "tagsv2", "valuesv2", "search", "searchql", "trace"}

// rows for an element-list kind: strings, or stored label documents for the series endpoints
func c15ListRows(rng *h.Rng, kind string, n int, consts []int) [][]byte {
	rows := c15BigRows(rng, n, consts)
	if strings.HasPrefix(kind, "series") || strings.HasPrefix(kind, "promseries") {
		for i, row := range rows {
			rows[i] = c15GoodDoc([]c15KV{{[]byte("i"), []byte(strconv.Itoa(i))}, {[]byte("v"), row}})
		}
	}
	return rows
}

// ---------------------------------------------------------------------------------------------------------------
// series encoders (streams / matrix / vector / tail) on big result sets

// n rows distributed over series in one of several layouts
func c15BigSet(rng *h.Rng, kind string, n int, layout int, consts []int) []c15Entry {
	rows := make([]c15Entry, 0, n)
	mk := func(i int, fp uint64, lbls []c15KV) c15Entry {
		msg := []byte("m" + strconv.Itoa(i))
		if (c15NearBatchEdge(i, consts) && rng.Chance(60)) || rng.Chance(4) {
			msg = append(msg, h.Pick(rng, c15EdgeHot)...)
		}
		ts := int64(1700000000000+i) * 1000000
		if kind != "matrix" && kind != "vector" {
			ts += int64(i % 7)
		}
		return c15Entry{Kind: 'n', Fp: fp, Labels: lbls, Ts: ts, Msg: msg, Val: float64(i) / 4}
	}
	lblOf := func(s int) []c15KV {
		v := []byte("s" + strconv.Itoa(s))
		if rng.Chance(10) {
			v = append(v, h.Pick(rng, c15EdgeHot)...)
		}
		return []c15KV{{[]byte("series"), v}}
	}
	c := c15GetterBatchCached
	switch layout % 5 {
	case 0: // one series
		l := lblOf(0)
		fp := uint64(rng.Intn(2)) * 77
		for i := 0; i < n; i++ {
			rows = append(rows, mk(i, fp, l))
		}
	case 1: // one row per series, ascending fingerprints (first may be 0)
		base := uint64(rng.Intn(2))
		for i := 0; i < n; i++ {
			rows = append(rows, mk(i, base+uint64(i), lblOf(i)))
		}
	case 2: // a series boundary exactly at the batch size, then series of 1..c/2 rows
		s := 0
		for len(rows) < n {
			ln := c
			if s > 0 {
				ln = 1 + rng.Intn(c/2+1)
			}
			l := lblOf(s)
			for k := 0; k < ln && len(rows) < n; k++ {
				rows = append(rows, mk(len(rows), uint64(s)*3, l))
			}
			s++
		}
	case 3: // boundary one before / one after the batch size
		s := 0
		first := c - 1 + 2*rng.Intn(2)
		for len(rows) < n {
			ln := first
			if s > 0 {
				ln = c
			}
			l := lblOf(s)
			for k := 0; k < ln && len(rows) < n; k++ {
				rows = append(rows, mk(len(rows), uint64(s)+1, l))
			}
			s++
		}
	default: // random runs of 1..7 rows
		s := 0
		for len(rows) < n {
			ln := 1 + rng.Intn(7)
			l := lblOf(s)
			for k := 0; k < ln && len(rows) < n; k++ {
				rows = append(rows, mk(len(rows), uint64(s)*1000003, l))
			}
			s++
		}
	}
	return rows
}

// batchings of a big result set: as ClickhouseGetterPlanner.Scan cuts it (batches of c, the marker in the last one,
// which is the marker alone when n is a multiple of c); one batch; batches of c+1; random cuts
func c15BigBatching(rng *h.Rng, rows []c15Entry, mode int, c int) [][]c15Entry {
	eof := c15Entry{Kind: 'e'}
	var out [][]c15Entry
	cut := func(size func() int, marker bool) {
		i := 0
		for i < len(rows) {
			s := size()
			if s < 1 {
				s = 1
			}
			if i+s > len(rows) {
				s = len(rows) - i
			}
			out = append(out, append([]c15Entry{}, rows[i:i+s]...))
			i += s
		}
		if marker {
			if len(out) > 0 && len(out[len(out)-1]) < c {
				out[len(out)-1] = append(out[len(out)-1], eof)
			} else {
				out = append(out, []c15Entry{eof})
			}
		}
	}
	switch mode % 4 {
	case 0:
		cut(func() int { return c }, true)
	case 1:
		out = [][]c15Entry{append(append([]c15Entry{}, rows...), eof)}
	case 2:
		cut(func() int { return c + 1 }, false)
		out = append(out, []c15Entry{})
	default:
		cut(func() int { return 1 + rng.Intn(2*c) }, rng.Bool())
	}
	if len(out) == 0 {
		out = [][]c15Entry{{}}
	}
	return out
}

// ---------------------------------------------------------------------------------------------------------------
// Prometheus vector / matrix writers on many series and many points (constant expressions, no storage)

type c15PromEnv struct {
	pc *controllerv1.PromQueryRangeController
}

func newC15PromEnv() *c15PromEnv {
	reg := fakes.NewRowScriptRegistry("")
	eng := promql.NewEngine(promql.EngineOpts{MaxSamples: 50000000, Timeout: 60 * time.Second})
	return &c15PromEnv{pc: &controllerv1.PromQueryRangeController{Api: &api_v1.API{QueryEngine: eng},
		Storage: &service.CLokiQueriable{ServiceData: model.ServiceData{Session: reg}}}}
}

// `label_replace(vector(v0),"foo","l0","","") or label_replace(vector(v1),"foo","l1","","") or …`
func c15PromOrChain(lvs []string, vals []float64) string {
	var sb strings.Builder
	for i := range lvs {
		if i > 0 {
			sb.WriteString(" or ")
		}
		fmt.Fprintf(&sb, `label_replace(vector(%s), "foo", %s, "", "")`, strconv.FormatFloat(vals[i], 'g', -1, 64), strconv.Quote(lvs[i]))
	}
	return sb.String()
}

func c15PromTimeTok(ms int64) string { return strconv.FormatFloat(float64(ms)/1000, 'f', -1, 64) }

// n series (instant: vector writer; range: matrix writer with `points` points each)
func (pe *c15PromEnv) seriesCase(r *h.Result, rng *h.Rng, pend *c15Pending, n int, matrix bool, consts []int, withModel bool) {
	rows := c15BigRows(rng, n, consts)
	lvs := make([]string, n)
	vals := make([]float64, n)
	for i, row := range rows {
		// PromQL string literals: valid UTF-8 without U+FFFD (the PromQL lexer refuses it), no `$` (label_replace template)
		lvs[i] = strings.ReplaceAll(strings.ReplaceAll(string(goSanitize(row)), "$", ""), "\ufffd", "?")
		vals[i] = float64(i) / 8
	}
	sec := int64(1699999995 + rng.Intn(1000)*15) // a multiple of 15: QueryRange aligns start and end to 15 s
	kind := "promvector"
	var body []byte
	q := "vector(0) > 1" // an empty vector
	if n > 0 {
		q = c15PromOrChain(lvs, vals)
	}
	points := 1
	form := url.Values{"query": {q}}
	if matrix {
		kind = "prommatrix"
		points = 1 + rng.Intn(3)
		form.Set("start", strconv.FormatInt(sec, 10))
		form.Set("end", strconv.FormatInt(sec+int64(points-1)*15, 10))
		form.Set("step", "15")
	} else {
		form.Set("time", strconv.FormatInt(sec, 10))
	}
	w := httptest.NewRecorder()
	target := "/api/v1/query"
	if matrix {
		target = "/api/v1/query_range"
	}
	req := httptest.NewRequest("GET", target+"?"+form.Encode(), nil)
	if matrix {
		pe.pc.QueryRange(w, req)
	} else {
		pe.pc.QueryInstant(w, req)
	}
	body = w.Body.Bytes()
	rep := c15Replay{Stream: "sizes", Kind: kind, Rows: c15HexWords(rows), Body: h.Hex(body), Note: fmt.Sprintf("%d series, %d points, time %d", n, points, sec)}
	r.Case(c15RowsKey(kind, rows)+fmt.Sprint(sec, points), n >= 2)
	r.Count("sizes:" + kind)
	r.Count("sizes:rows:" + c15SizeBucket(n, consts))
	doc, ok := jdoc(body)
	if !json.Valid(body) || !ok {
		r.Violate("C15/"+kind+"/not-json", fmt.Sprintf("response for %d series is not valid JSON: %s", n, c15Around(body)), rep)
		return
	}
	if w.Code != 200 {
		r.Violate("C15/"+kind+"/status", fmt.Sprintf("status %d for %d series: %.200q", w.Code, n, body), rep)
		return
	}
	rt := "vector"
	vk := "value"
	if matrix {
		rt, vk = "matrix", "values"
	}
	if !c15KeysAre(doc, "status", "data") || !c15KeysAre(doc.get("data"), "resultType", "result") || string(doc.get("data").get("resultType").s) != rt {
		r.Violate("C15/"+kind+"/shape", "envelope", rep)
		return
	}
	res := doc.get("data").get("result")
	if res.kind != '[' || len(res.arr) != n {
		r.Violate("C15/"+kind+"/rows", fmt.Sprintf("%d result objects for %d series", len(res.arr), n), rep)
		return
	}
	idx := map[string]int{}
	for i, lv := range lvs {
		idx[lv] = i
	}
	var words []string
	seen := map[int]bool{}
	for k, o := range res.arr {
		if !c15KeysAre(o, "metric", vk) {
			r.Violate("C15/"+kind+"/shape", fmt.Sprintf("object %d keys", k), rep)
			return
		}
		foo := o.get("metric").get("foo")
		i, found := -1, false
		if foo != nil && foo.kind == '$' {
			i, found = idx[string(foo.s)]
		} else if o.get("metric").kind == '{' && len(o.get("metric").keys) == 0 {
			i, found = idx[""]
		}
		if !found || seen[i] {
			r.Violate("C15/"+kind+"/content", fmt.Sprintf("object %d does not carry the labels of a scripted series (or repeats one)", k), rep)
			return
		}
		seen[i] = true
		var pts []*jv
		if matrix {
			pts = o.get(vk).arr
		} else {
			pts = []*jv{o.get(vk)}
		}
		if len(pts) != points {
			r.Violate("C15/"+kind+"/rows", fmt.Sprintf("%d points for %d steps", len(pts), points), rep)
			return
		}
		var ptw []string
		for pi, p := range pts {
			if p.kind != '[' || len(p.arr) != 2 || p.arr[0].kind != '#' || !c15NumIs(p.arr[0].s, sec+int64(pi)*15, 1) || p.arr[1].kind != '$' || !c15ValMatches(p.arr[1].s, vals[i]) {
				r.Violate("C15/"+kind+"/content", fmt.Sprintf("point %d of object %d is not [%d, %v]", pi, k, sec+int64(pi)*15, vals[i]), rep)
				return
			}
			ptw = append(ptw, h.Hex([]byte(c15PromTimeTok((sec+int64(pi)*15)*1000)))+"="+h.Hex([]byte(fmtVal(vals[i]))))
		}
		lb := "-"
		if lvs[i] != "" {
			lb = h.Hex([]byte("foo")) + "=" + h.Hex([]byte(lvs[i]))
		}
		words = append(words, lb+":"+strings.Join(ptw, ";"))
	}
	if withModel {
		op := "c15" + kind
		if len(words) > 0 {
			op += " " + strings.Join(words, " ")
		}
		small := rep
		if n > 120 {
			small.Body = ""
		}
		pend.add(op, "concat:"+h.Hex(body), small)
	}
}

// a scalar constant over n points: the inner value loop of the matrix writer
func (pe *c15PromEnv) pointsCase(r *h.Result, rng *h.Rng, pend *c15Pending, n int, consts []int, withModel bool) {
	if n == 0 {
		return
	}
	sec := int64(1699999995 + rng.Intn(1000)*15) // a multiple of 15: QueryRange aligns start and end to 15 s
	v := float64(rng.Range(-1000, 1000)) / 8
	w := httptest.NewRecorder()
	pe.pc.QueryRange(w, httptest.NewRequest("GET", fmt.Sprintf("/api/v1/query_range?start=%d&end=%d&step=15&query=%s", sec, sec+int64(n-1)*15,
		url.QueryEscape(strconv.FormatFloat(v, 'g', -1, 64))), nil))
	body := w.Body.Bytes()
	rep := c15Replay{Stream: "sizes", Kind: "prompoints", Body: h.Hex(body), Note: fmt.Sprintf("constant %v over %d points from %d", v, n, sec)}
	r.Case(fmt.Sprintf("sizes:prompoints:%d:%d:%v", n, sec, v), n >= 2)
	r.Count("sizes:prompoints")
	r.Count("sizes:rows:" + c15SizeBucket(n, consts))
	doc, ok := jdoc(body)
	if !json.Valid(body) || !ok {
		r.Violate("C15/prommatrix/not-json", fmt.Sprintf("response for %d points is not valid JSON: %s", n, c15Around(body)), rep)
		return
	}
	var res *jv
	if d := doc.get("data"); d != nil {
		res = d.get("result")
	}
	if w.Code != 200 || res == nil || res.kind != '[' || len(res.arr) != 1 || !c15KeysAre(res.arr[0], "metric", "values") || len(res.arr[0].get("values").arr) != n {
		r.Violate("C15/prommatrix/rows", fmt.Sprintf("status %d; expected one series with %d points", w.Code, n), rep)
		return
	}
	var ptw []string
	for pi, p := range res.arr[0].get("values").arr {
		if p.kind != '[' || len(p.arr) != 2 || !c15NumIs(p.arr[0].s, sec+int64(pi)*15, 1) || !c15ValMatches(p.arr[1].s, v) {
			r.Violate("C15/prommatrix/content", fmt.Sprintf("point %d is not [%d, %v]", pi, sec+int64(pi)*15, v), rep)
			return
		}
		ptw = append(ptw, h.Hex([]byte(c15PromTimeTok((sec+int64(pi)*15)*1000)))+"="+h.Hex([]byte(fmtVal(v))))
	}
	if withModel {
		small := rep
		if n > 120 {
			small.Body = ""
		}
		pend.add("c15prommatrix -:"+strings.Join(ptw, ";"), "concat:"+h.Hex(body), small)
	}
}

// ---------------------------------------------------------------------------------------------------------------
// the stream

func c15SizesStream(r *h.Result, rng *h.Rng, env *c15Env, tier string) error {
	consts := c15BatchConsts()
	classes := c15SizeClasses(consts, 1001)
	listClasses := c15SizeClasses(consts, 5001)
	sizes, listSizes := classes, listClasses
	dense := tier == "search" || tier == "thorough"
	if dense {
		sizes, listSizes = c15Sweep(classes, 450), c15Sweep(listClasses, 450)
	}
	r.Stream(fmt.Sprintf("sizes: every encoder (labels/values/series at service and HTTP level, streams/matrix/vector/tail through the planner plugin and over the scripted SQL driver, Tempo tags/values/V2/search/TraceQL search/trace, Prometheus vector/matrix) on result sets of the size classes %v around the batching constants %v regenerated from the source%s; rows short and distinct, escaping-relevant bytes at the batch edges; oracle on every body: encoding/json.Valid + byte-exact decode = the scripted rows; the modelled encoders also against the Lean model",
		classes, consts, map[bool]string{true: " and of every size 0..450", false: ""}[dense]))
	isClass := map[int]bool{}
	for _, v := range listClasses {
		isClass[v] = true
	}
	// in the dense sweep the model is asked at the classes, next to multiples of a batching constant and at every 4th size
	// (the oracle judges every case)
	useModel := func(n int) bool {
		if !dense || isClass[n] || n%4 == 0 {
			return true
		}
		for _, c := range consts {
			if m := n % c; m <= 2 || m >= c-2 {
				return true
			}
		}
		return false
	}
	pend := &c15Pending{stream: "sizes"}
	le := newC15ListEnv(env)
	c := c15GetterBatch()
	c15GetterBatchCached = c
	// element lists
	for _, n := range listSizes {
		for ki, kind := range c15ListKinds {
			if n > 1001 && !(kind == "labels" || kind == "tags" || kind == "searchql" || kind == "series") {
				continue
			}
			rows := c15ListRows(rng, kind, n, consts)
			var bs []int
			if kind == "searchql" {
				bs = [][]int{{c}, {c, 0}, {1}, {c + 1}, {c - 1, 1, 0}, {7, 0, 93}, {1 + rng.Intn(2 * c)}}[(n+ki)%7]
			}
			if err := le.listCase(r, pend, kind, rows, bs, consts, useModel(n)); err != nil {
				return err
			}
		}
	}
	// series encoders through the planner plugin
	for _, n := range sizes {
		for ki, kind := range []string{"streams", "matrix", "vector"} {
			set := c15BigSet(rng, kind, n, n+ki, consts)
			b := c15BigBatching(rng, set, n/3+ki, c)
			if err := c15EncBig(r, env, pend, kind, b, consts, useModel(n)); err != nil {
				return err
			}
		}
	}
	// … and over the scripted SQL driver through the real planner chain (Scan / ScanMatrix cut the batches)
	if err := c15SQLBig(r, rng, env, pend, sizes, consts, useModel); err != nil {
		return err
	}
	// … and with an in-process stage behind the getter (`| line_format`): LimitPlanner and ResponseOptimizerPlanner sit between
	// Scan and the encoder and re-batch the entries per fingerprint
	if err := c15InprocBig(r, rng, env, listSizes, consts); err != nil {
		return err
	}
	// Tail: one frame per case, concurrently (one-second ticker)
	if err := c15TailBig(r, rng, env, pend, sizes, consts, dense); err != nil {
		return err
	}
	// Prometheus writers
	pe := newC15PromEnv()
	for _, n := range sizes {
		if n > 450 && dense {
			continue
		}
		if n > 1001 {
			continue
		}
		pe.seriesCase(r, rng, pend, n, false, consts, useModel(n))
		if n <= 450 {
			pe.seriesCase(r, rng, pend, n, true, consts, useModel(n))
		}
		pe.pointsCase(r, rng, pend, n, consts, useModel(n))
	}
	c15StraightLine(r, rng, pend, 60)
	return c15ComparePending(r, pend)
}

// straight-line jsoniter documents: PromError, Buildinfo, the constant answer of Query
func c15StraightLine(r *h.Result, rng *h.Rng, pend *c15Pending, n int) {
	qc := &controllerv1.QueryRangeController{}
	for i := 0; i < n; i++ {
		msg := c15Bytes(rng, 10)
		w := httptest.NewRecorder()
		controllerv1.PromError(400+rng.Intn(2)*100, string(msg), w)
		body := w.Body.Bytes()
		rep := c15Replay{Stream: "sizes", Kind: "promerror", Rows: h.Hex(msg), Body: h.Hex(body)}
		r.Case("promerror:"+h.Hex(msg), len(msg) > 0)
		r.Count("sizes:promerror")
		doc, ok := jdoc(body)
		if !json.Valid(body) || !ok || !c15KeysAre(doc, "status", "errorType", "error") || !bytes.Equal(doc.get("error").s, msg) {
			r.Violate("C15/promerror/document", fmt.Sprintf("PromError(%q) = %.200q", msg, body), rep)
		}
		pend.add("c15promerror "+h.Hex(msg), "concat:"+h.Hex(body), rep)
		ver := c15Bytes(rng, 6)
		w = httptest.NewRecorder()
		(&controllerv1.MiscController{Version: string(ver)}).Buildinfo(w, httptest.NewRequest("GET", "/api/v1/status/buildinfo", nil))
		body = w.Body.Bytes()
		rep = c15Replay{Stream: "sizes", Kind: "buildinfo", Rows: h.Hex(ver), Body: h.Hex(body)}
		r.Case("buildinfo:"+h.Hex(ver), len(ver) > 0)
		r.Count("sizes:buildinfo")
		doc, ok = jdoc(body)
		if !json.Valid(body) || !ok || !c15KeysAre(doc, "status", "data") || !c15KeysAre(doc.get("data"), "version") || !bytes.Equal(doc.get("data").get("version").s, ver) {
			r.Violate("C15/buildinfo/document", fmt.Sprintf("Buildinfo(%q) = %.200q", ver, body), rep)
		}
		pend.add("c15buildinfo "+h.Hex(ver), "concat:"+h.Hex(body), rep)
	}
	// the constant answer carries time.Now().Unix(): the model gets the number the response shows
	w := httptest.NewRecorder()
	qc.Query(w, httptest.NewRequest("GET", "/loki/api/v1/query?query="+url.QueryEscape("vector(1)+vector(1)"), nil))
	body := w.Body.Bytes()
	rep := c15Replay{Stream: "sizes", Kind: "queryconst", Body: h.Hex(body)}
	r.Case("queryconst", true)
	r.Count("sizes:queryconst")
	doc, ok := jdoc(body)
	var now []byte
	if ok && json.Valid(body) && doc.get("data") != nil && doc.get("data").get("result") != nil && len(doc.get("data").get("result").arr) == 1 {
		if v := doc.get("data").get("result").arr[0].get("value"); v != nil && v.kind == '[' && len(v.arr) == 2 && v.arr[0].kind == '#' && string(v.arr[1].s) == "2" {
			now = v.arr[0].s
		}
	}
	if now == nil {
		r.Violate("C15/queryconst/document", fmt.Sprintf("%.300q", body), rep)
	} else {
		pend.add("c15queryconst "+string(now), "concat:"+h.Hex(body), rep)
	}
}

// compares queued ops; impl answers prefixed "concat:" are compared with the concatenation of the model's chunks
func c15ComparePending(r *h.Result, pend *c15Pending) error {
	if len(pend.ops) == 0 {
		return nil
	}
	ans, err := h.Model(pend.ops)
	if err != nil {
		return err
	}
	for i := range pend.ops {
		want, got := pend.impl[i], ans[i]
		if strings.HasPrefix(want, "concat:") {
			want = strings.TrimPrefix(want, "concat:")
			got = c15ConcatModel(got)
			if want == "" {
				want = "-"
			}
		}
		if got != want {
			op := pend.ops[i]
			if len(op) > 4000 {
				op = op[:4000] + "…"
			}
			if len(want) > 4000 {
				want = want[:4000] + "…"
			}
			if len(got) > 4000 {
				got = got[:4000] + "…"
			}
			r.Disagree(pend.stream, op, want, got, pend.cases[i])
		}
	}
	return nil
}

// a big case of the series encoders through the planner plugin (oracle + model; the decoded-document ops only for
// moderately sized bodies)
func c15EncBig(r *h.Result, env *c15Env, pend *c15Pending, kind string, batches [][]c15Entry, consts []int, withModel bool) error {
	chunks, err := env.runBatches(kind, batches)
	if err != nil {
		return err
	}
	body := []byte(strings.Join(chunks, ""))
	rows, _ := c15Rows(kind, batches)
	words := c15Words(batches)
	rep := c15Replay{Stream: "enc", Kind: kind, Batches: words, Body: h.Hex(body), Note: fmt.Sprintf("%d rows in %d batches", len(rows), len(batches))}
	hh := fnv.New64a()
	hh.Write([]byte(words))
	r.Case(fmt.Sprintf("sizes:enc:%s:%d:%x", kind, len(rows), hh.Sum64()), len(rows) >= 2)
	r.Count("sizes:enc-" + kind)
	r.Count("sizes:rows:" + c15SizeBucket(len(rows), consts))
	small := rep
	if len(rows) > 120 {
		small.Body = ""
	}
	if kind == "vector" {
		v, doc, visit := c15JudgeVector(body, rows)
		if v.key != "" {
			r.Violate(v.key, v.what, rep)
		}
		if doc != nil && visit != nil && withModel {
			ps := make([]string, len(visit))
			for i, fp := range visit {
				ps[i] = strconv.FormatUint(fp, 10)
			}
			ord := "-"
			if len(ps) > 0 {
				ord = strings.Join(ps, ",")
			}
			pend.add("c15vector "+ord+" "+words, c15HexChunks(chunks), small) // one label per series: no map order to learn
		}
		return nil
	}
	v, doc := c15JudgeSeries(kind, body, rows)
	if v.key != "" {
		r.Violate(v.key, v.what, rep)
	}
	if withModel {
		if kind == "tail" {
			pend.add("c15tail "+words, h.Hex(body), small)
		} else {
			pend.add("c15"+kind+" "+words, c15HexChunks(chunks), small)
		}
		if doc != nil && len(rows) <= 220 {
			pend.add("c15"+kind+"doc "+words, jdump(doc), small)
		}
	}
	return nil
}

func c15SQLBig(r *h.Result, rng *h.Rng, env *c15Env, pend *c15Pending, sizes []int, consts []int, useModel func(int) bool) error {
	ctx := context.Background()
	router := mux.NewRouter()
	apirouterv1.RouteQueryRangeApis(router, env.reg)
	for _, n := range sizes {
		if n > 1001 {
			continue
		}
		set := c15BigSet(rng, "streams", n, n, consts)
		env.setRows([]string{"fingerprint", "labels", "string", "timestamp_ns"}, c15SQLRows(set))
		var body []byte
		var chunks []string
		viaHTTP := n%3 == 1
		if viaHTTP {
			w := httptest.NewRecorder()
			router.ServeHTTP(w, httptest.NewRequest("GET", "/loki/api/v1/query_range?start=0&end=10000000000&limit=100000&direction=forward&query="+url.QueryEscape(`{a="b"}`), nil))
			body = w.Body.Bytes()
		} else {
			ch, err := env.qr.QueryRange(ctx, `{a="b"}`, 0, 10e9, 1000, 100000, true)
			if err != nil {
				return err
			}
			chunks = c15Collect(ch)
			body = []byte(strings.Join(chunks, ""))
		}
		batches := [][]c15Entry{append(append([]c15Entry{}, set...), c15Entry{Kind: 'e'})}
		prow, _ := c15Rows("streams", batches)
		words := c15Words(batches)
		rep := c15Replay{Stream: "sql", Kind: "streams", Batches: words, Body: h.Hex(body), Note: fmt.Sprintf("%d rows (getter batches of %d); http=%v", n, c15GetterBatchCached, viaHTTP)}
		hh := fnv.New64a()
		hh.Write([]byte(words))
		r.Case(fmt.Sprintf("sizes:sql:%d:%x", n, hh.Sum64()), n >= 2)
		r.Count("sizes:sql-streams")
		r.Count("sizes:rows:" + c15SizeBucket(n, consts))
		if v, _ := c15JudgeSeries("streams", body, prow); v.key != "" {
			r.Violate(v.key, v.what, rep)
		}
		if !viaHTTP && useModel(n) {
			small := rep
			if n > 120 {
				small.Body = ""
			}
			pend.add("c15streams "+words, c15HexChunks(chunks), small)
		}
		// matrix and instant end to end over the same number of rows: n series of one sample / one series of n samples
		if n > 450 {
			continue
		}
		var mrows [][]driver.Value
		for i := 0; i < n; i++ {
			fp, lbl := uint64(i+1), "s"+strconv.Itoa(i)
			tsSec := int64(5)
			if n%2 == 1 {
				fp, lbl, tsSec = 7, "s", int64(i%10)
			}
			mrows = append(mrows, []driver.Value{fp, map[string]string{"series": lbl}, float64(i%5) + 1, tsSec * 1000000000})
		}
		env.setRows([]string{"fingerprint", "labels", "value", "timestamp_ns"}, mrows)
		for _, inst := range []bool{false, true} {
			var ch chan model.QueryRangeOutput
			var err error
			kind := "matrix"
			if inst {
				kind = "vector"
				ch, err = env.qr.QueryInstant(ctx, `rate({a="b"}[1s])`, 10e9, 1000, 100000)
			} else {
				ch, err = env.qr.QueryRange(ctx, `rate({a="b"}[1s])`, 0, 10e9, 1000, 100000, true)
			}
			if err != nil {
				return err
			}
			body := []byte(strings.Join(c15Collect(ch), ""))
			rep := c15Replay{Stream: "sql", Kind: kind + "-e2e", Body: h.Hex(body), Note: fmt.Sprintf("%d scripted sample rows", n)}
			r.Case(fmt.Sprintf("sizes:sql-%s:%d", kind, n), n > 0)
			r.Count("sizes:sql-" + kind + "-e2e")
			doc, ok := jdoc(body)
			if !json.Valid(body) || !ok {
				r.Violate("C15/"+kind+"-e2e/not-json", fmt.Sprintf("end-to-end %s response over %d rows is not JSON: %s", kind, n, c15Around(body)), rep)
				continue
			}
			if !c15KeysAre(doc, "status", "data") || string(doc.get("data").get("resultType").s) != kind || doc.get("data").get("result").kind != '[' {
				r.Violate("C15/"+kind+"-e2e/shape", "envelope", rep)
				continue
			}
			want := n
			if n%2 == 1 {
				want = 1
			}
			if got := len(doc.get("data").get("result").arr); got != want {
				r.Violate("C15/"+kind+"-e2e/series-objects", fmt.Sprintf("%d objects for %d series", got, want), rep)
			}
		}
	}
	return nil
}

// log query with an in-process stage over the scripted SQL driver: `{a="b"} | line_format "{{._entry}}"` keeps every line as it
// is; the rows come ordered by time (what the non-final ClickHouse plan delivers), interleaving `ns` streams. Judged by the
// oracle of the property: one object per stream, every row once (the order of the objects is the engine's).
func c15InprocBig(r *h.Result, rng *h.Rng, env *c15Env, sizes []int, consts []int) error {
	// the witness of the recorded finding (Props/C15.lean optimizer_one_object_counterexample on the real threshold) every run
	sizes = append(append([]int{}, sizes...), 3002)
	for _, n := range sizes {
		ns := 1 + (n+1)%3 // 1..3 streams
		rows := make([]c15Entry, 0, n)
		for i := 0; i < n; i++ {
			msg := []byte("m" + strconv.Itoa(i))
			if (c15NearBatchEdge(i, consts) && rng.Chance(30)) || rng.Chance(3) {
				msg = append(msg, h.Pick(rng, c15EdgeHot)...)
			}
			rows = append(rows, c15InprocRow(i, ns, msg))
		}
		// with a limit (the result is bounded by the request): one object per stream must hold; without (limit 0, what
		// /query_range passes when the parameter is absent) the stage sends its portions — recorded finding
		limit := int64(1000000)
		if n%2 == 0 && n > 0 {
			limit = 0
		}
		if err := c15InprocCase(r, env, rows, ns, limit, consts); err != nil {
			return err
		}
	}
	// bursts: whole reader batches of one stream, the stream re-appearing after another one (limited requests: one
	// object per stream must hold)
	for _, burst := range []int{99, 100, 101, 150, 200} {
		for _, ns := range []int{2, 3} {
			n := 3*burst + 7
			rows := make([]c15Entry, 0, n)
			for i := 0; i < n; i++ {
				rows = append(rows, c15InprocRowB(i, ns, burst, []byte("m"+strconv.Itoa(i))))
			}
			r.Count("sizes:inproc-bursts")
			if err := c15InprocCaseB(r, env, rows, ns, 1000000, consts, burst); err != nil {
				return err
			}
		}
	}
	return nil
}

func c15InprocRow(i, ns int, msg []byte) c15Entry { return c15InprocRowB(i, ns, 1, msg) }

// c15InprocRowB: rows come in bursts of `burst` consecutive rows of one stream (burst 1 = interleaved line by line). A
// burst as long as a reader batch makes whole batches single-stream, after which the stream re-appears (seeded C15-6)
func c15InprocRowB(i, ns, burst int, msg []byte) c15Entry {
	s := (i / burst) % ns
	return c15Entry{Kind: 'n', Fp: uint64(s + 1), Labels: []c15KV{{[]byte("series"), []byte("s" + strconv.Itoa(s))}}, Ts: int64(1700000000000000000 + i), Msg: msg}
}

// row i belongs to stream i mod ns
func c15InprocCase(r *h.Result, env *c15Env, rows []c15Entry, ns int, limit int64, consts []int) error {
	return c15InprocCaseB(r, env, rows, ns, limit, consts, 1)
}

func c15InprocCaseB(r *h.Result, env *c15Env, rows []c15Entry, ns int, limit int64, consts []int, burst int) error {
	n := len(rows)
	env.setRows([]string{"fingerprint", "labels", "string", "timestamp_ns"}, c15SQLRows(rows))
	objKey := "C15/inproc/series-objects"
	if limit == 0 {
		objKey = "C15/inproc/unlimited-series-objects"
	}
	ch, err := env.qr.QueryRange(context.Background(), `{a="b"} | line_format "{{._entry}}"`, 0, 10e9, 1000, limit, true)
	if err != nil {
		return err
	}
	body := []byte(strings.Join(c15Collect(ch), ""))
	rep := c15Replay{Stream: "sizes", Kind: "inproc", Batches: c15Words([][]c15Entry{rows}), Body: h.Hex(body), Rows: fmt.Sprintf("n=%d ns=%d limit=%d burst=%d", n, ns, limit, burst),
		Note: fmt.Sprintf("%d rows of %d streams (bursts of %d rows per stream) ordered by time through `| line_format`, limit %d", n, ns, burst, limit)}
	if n > 400 {
		rep.Batches, rep.Body = "", "" // regenerated from n: row i belongs to stream i mod ns, line m<i>
	}
	r.Case(fmt.Sprintf("sizes:inproc:%d:%d:%d:%d", n, ns, limit, burst), n >= 2)
	r.Count("sizes:inproc")
	if limit == 0 {
		r.Count("sizes:inproc-unlimited")
	}
	r.Count("sizes:rows:" + c15SizeBucket(n, consts))
	if !json.Valid(body) {
		r.Violate("C15/inproc/not-json", fmt.Sprintf("response over %d rows is not JSON: %s", n, c15Around(body)), rep)
		return nil
	}
	doc, ok := jdoc(body)
	if !ok || !c15KeysAre(doc, "status", "data") || doc.get("data").get("result") == nil || doc.get("data").get("result").kind != '[' {
		r.Violate("C15/inproc/shape", "envelope", rep)
		return nil
	}
	// every row once, under an object with its stream's labels; rows of a stream in time order
	perStream := map[string][][]byte{}
	objects := map[string]int{}
	total := 0
	bad := ""
	for _, o := range doc.get("data").get("result").arr {
		lb := o.get("stream")
		if lb == nil || lb.get("series") == nil || o.get("values") == nil {
			bad = "series object without stream labels / values"
			break
		}
		k := string(lb.get("series").s)
		objects[k]++
		for _, p := range o.get("values").arr {
			if p.kind != '[' || len(p.arr) != 2 {
				bad = "value is not a pair"
				break
			}
			perStream[k] = append(perStream[k], p.arr[1].s)
			total++
		}
	}
	if bad != "" {
		r.Violate("C15/inproc/shape", bad, rep)
		return nil
	}
	if total != n {
		r.Violate("C15/inproc/rows", fmt.Sprintf("%d values for %d rows", total, n), rep)
		return nil
	}
	for i, e := range rows {
		k := string(e.Labels[0].V)
		if len(perStream[k]) == 0 || !bytes.Equal(perStream[k][0], e.Msg) {
			r.Violate("C15/inproc/line", fmt.Sprintf("row %d (%q) is not the next value of its stream", i, e.Msg), rep)
			break
		}
		perStream[k] = perStream[k][1:]
	}
	var ks []string
	for k := range objects {
		ks = append(ks, k)
	}
	sort.Strings(ks)
	for _, k := range ks {
		if c := objects[k]; c != 1 {
			r.Violate(objKey, fmt.Sprintf("%d series objects for the stream %s (%d rows of %d streams interleaved by time, limit %d; ResponseOptimizerPlanner sends one batch per fingerprint every 3000 entries when the request has no limit)", c, k, n, ns, limit), rep)
			break
		}
	}
	return nil
}

func c15TailBig(r *h.Result, rng *h.Rng, env *c15Env, pend *c15Pending, sizes []int, consts []int, dense bool) error {
	type tc struct {
		batches [][]c15Entry
	}
	var tcs []tc
	for _, n := range sizes {
		if n > 1001 || (dense && n > 210 && n%10 != 0 && !c15NearBatchEdge(n, consts)) {
			continue
		}
		set := c15BigSet(rng, "tail", n, n+3, consts)
		tcs = append(tcs, tc{c15BigBatching(rng, set, n, c15GetterBatchCached)})
	}
	type res struct {
		lr *h.Result
		lp *c15Pending
		e  error
	}
	out := make([]res, len(tcs))
	sem := make(chan struct{}, 64)
	done := make(chan int)
	for i := range tcs {
		go func(i int) {
			sem <- struct{}{}
			defer func() { <-sem; done <- i }()
			lr := h.NewResult("C15", "", 0)
			lp := &c15Pending{stream: "sizes"}
			e := c15EncBig(lr, env, lp, "tail", tcs[i].batches, consts, true)
			out[i] = res{lr, lp, e}
		}(i)
	}
	for range tcs {
		<-done
	}
	for _, o := range out {
		if o.e != nil {
			return o.e
		}
		pend.ops = append(pend.ops, o.lp.ops...)
		pend.impl = append(pend.impl, o.lp.impl...)
		pend.cases = append(pend.cases, o.lp.cases...)
		r.Evaluations += o.lr.Evaluations
		for k, v := range o.lr.Nontrivial {
			r.Nontrivial[k] += v
		}
		for k, v := range o.lr.Distribution {
			r.Distribution[k] += v
		}
		for _, v := range o.lr.Violations {
			r.Violate(v.Key, v.What, v.Replay)
		}
	}
	return nil
}

// replay of an element-list case
func c15ReplayList(r *h.Result, rep c15Replay) error {
	var rows [][]byte
	if s, ok := rep.Rows.(string); ok {
		for _, w := range strings.Fields(s) {
			rows = append(rows, h.UnHex(w))
		}
	}
	consts := c15BatchConsts()
	pend := &c15Pending{stream: "sizes"}
	switch rep.Kind {
	case "promvector", "prommatrix", "prompoints":
		r.Notes = append(r.Notes, "Prometheus cases are regenerated from the seed (the query is derived from the rows and a random evaluation time); body_hex holds the response")
		return nil
	}
	if rep.Kind == "inproc" {
		var n, ns int
		var limit int64
		burst := 1
		if s, ok := rep.Rows.(string); !ok || func() bool {
			k, _ := fmt.Sscanf(s, "n=%d ns=%d limit=%d burst=%d", &n, &ns, &limit, &burst)
			return k < 3
		}() {
			return fmt.Errorf("inproc replay without n/ns/limit")
		}
		if burst < 1 {
			burst = 1
		}
		var erows []c15Entry
		if rep.Batches != "" {
			bs, err := c15ParseWords(rep.Batches)
			if err != nil {
				return err
			}
			erows = bs[0]
		} else {
			for i := 0; i < n; i++ {
				erows = append(erows, c15InprocRowB(i, ns, burst, []byte("m"+strconv.Itoa(i))))
			}
		}
		return c15InprocCaseB(r, newC15Env(), erows, ns, limit, consts, burst)
	}
	le := newC15ListEnv(newC15Env())
	var bs []int
	if rep.Kind == "searchql" {
		bs = rep.Cuts
		if len(bs) == 0 {
			bs = []int{c15GetterBatch()}
		}
	}
	if err := le.listCase(r, pend, rep.Kind, rows, bs, consts, true); err != nil {
		return err
	}
	return c15ComparePending(r, pend)
}

var _ = math.Inf
