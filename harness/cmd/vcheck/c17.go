package main

import (
	"encoding/json"
	"fmt"
	"os"
	"strconv"
	"strings"

	"github.com/metrico/qryn/reader/model"
	"verif/harness/h"
)

func init() { props["C17"] = c17 }

// ---------------------------------------------------------------------------------------------------
// Stream 1: the series cursor. Real code: (&model.Series{Samples: …}).Iterator() → Next/Seek/At.
// Sample values are the slice index, so At() tells the oracle where the cursor stands.

type c17CursorCase struct {
	Stream  string `json:"stream"`
	Samples string `json:"samples"` // ts:v,ts:v… ("-" = empty)
	Ops     string `json:"ops"`     // n | a | s<t>, comma separated ("a" after a true advance is added by the harness)
	Impl    string `json:"impl,omitempty"`
}

func c17Samples(rng *h.Rng) []model.Sample {
	n := 0
	switch rng.Intn(10) {
	case 0:
		n = 0
	case 1:
		n = 1
	case 2:
		n = 2
	default:
		n = rng.Range(0, 40)
	}
	ts := int64(rng.Range(-5, 5))
	if rng.Chance(30) {
		ts = int64(1700000000000) + int64(rng.Intn(1000))
	}
	dups := rng.Chance(35)
	res := make([]model.Sample, n)
	for i := range res {
		if i > 0 {
			switch k := rng.Intn(10); {
			case k < 2 && dups:
				// same millisecond
			case k < 6:
				ts++
			case k < 8:
				ts += 2
			case k < 9:
				ts += int64(rng.Range(3, 20))
			default:
				ts += 15000
			}
			if !dups && ts == res[i-1].TimestampMs {
				ts++
			}
		}
		res[i] = model.Sample{TimestampMs: ts, Value: float64(i)}
	}
	return res
}

func c17Target(rng *h.Rng, ss []model.Sample) int64 {
	if len(ss) == 0 {
		return int64(rng.Range(-3, 3))
	}
	first, last := ss[0].TimestampMs, ss[len(ss)-1].TimestampMs
	switch rng.Intn(12) {
	case 0:
		return first - 1
	case 1:
		return first
	case 2:
		return last + 1
	case 3:
		return last
	case 4:
		return first + int64(rng.Intn(int(last-first)+1))
	default:
		return ss[rng.Intn(len(ss))].TimestampMs + int64(rng.Range(-1, 1))
	}
}

func c17SamplesStr(ss []model.Sample) string {
	if len(ss) == 0 {
		return "-"
	}
	parts := make([]string, len(ss))
	for i, s := range ss {
		parts[i] = fmt.Sprintf("%d:%d", s.TimestampMs, int64(s.Value))
	}
	return strings.Join(parts, ",")
}

func c17ParseSamples(s string) ([]model.Sample, error) {
	if s == "-" || s == "" {
		return nil, nil
	}
	var res []model.Sample
	for _, p := range strings.Split(s, ",") {
		ab := strings.Split(p, ":")
		if len(ab) != 2 {
			return nil, fmt.Errorf("bad sample %q", p)
		}
		t, err1 := strconv.ParseInt(ab[0], 10, 64)
		v, err2 := strconv.ParseInt(ab[1], 10, 64)
		if err1 != nil || err2 != nil {
			return nil, fmt.Errorf("bad sample %q", p)
		}
		res = append(res, model.Sample{TimestampMs: t, Value: float64(v)})
	}
	return res, nil
}

// one call on the real iterator; a panic is the output "!"
func c17Call(f func() string) (out string) {
	defer func() {
		if e := recover(); e != nil {
			out = "!"
		}
	}()
	return f()
}

// c17RunCursor drives the real iterator through ops (n / s<t> / a). After every advancing call that
// returned true it calls At() (recorded as an extra "a" op) and judges the contract. Returns the
// instrumented op list and the outputs.
func c17RunCursor(r *h.Result, ss []model.Sample, ops []string, judge bool) (iops []string, outs []string) {
	it := (&model.Series{Samples: ss}).Iterator()
	n := len(ss)
	p := 0             // reference position: first index a conforming Seek may land on
	cur := -1          // index of the sample under the cursor as told by At(), -1 = unknown/none
	exhausted := false // an advance returned false
	viol := func(key, what string) {
		if judge {
			r.Violate(key, what, c17CursorCase{Stream: "cursor", Samples: c17SamplesStr(ss), Ops: strings.Join(ops, ",")})
		}
	}
	for _, op := range ops {
		iops = append(iops, op)
		switch {
		case op == "a":
			out := c17Call(func() string { t, v := it.At(); return fmt.Sprintf("%d:%d", t, int64(v)) })
			outs = append(outs, out)
			if cur >= 0 && cur < n && out != fmt.Sprintf("%d:%d", ss[cur].TimestampMs, int64(ss[cur].Value)) {
				viol("C17/at-wrong-sample", fmt.Sprintf("At() = %s with the cursor on sample #%d", out, cur))
			}
			continue
		case op == "n" || op[0] == 's':
		default:
			panic("bad op " + op)
		}
		var t int64
		isSeek := op[0] == 's'
		var out string
		if isSeek {
			t, _ = strconv.ParseInt(op[1:], 10, 64)
			out = c17Call(func() string { return tf(it.Seek(t)) })
		} else {
			out = c17Call(func() string { return tf(it.Next()) })
		}
		outs = append(outs, out)
		name := "next"
		if isSeek {
			name = "seek"
		}
		if out == "!" {
			viol("C17/"+name+"-faults", fmt.Sprintf("%s panics (index out of range) on a slice of %d samples", op, n))
			return
		}
		if exhausted && out == "T" {
			viol("C17/exhaustion-not-sticky", fmt.Sprintf("%s returns true after an earlier advance reported the end", op))
		}
		if out == "F" {
			if isSeek {
				for k := p; k < n; k++ {
					if ss[k].TimestampMs >= t {
						viol("C17/seek-false-but-sample-remains", fmt.Sprintf("Seek(%d) = false but unread sample #%d has timestamp %d", t, k, ss[k].TimestampMs))
						break
					}
				}
			} else if cur+1 < n && (cur >= 0 || p == 0) {
				viol("C17/next-false-but-sample-remains", fmt.Sprintf("Next() = false with the cursor on #%d of %d", cur, n))
			}
			exhausted = true
			p, cur = n, -1
			continue
		}
		// true: look under the cursor
		at := c17Call(func() string { t, v := it.At(); return fmt.Sprintf("%d:%d", t, int64(v)) })
		iops = append(iops, "a")
		outs = append(outs, at)
		if at == "!" {
			viol("C17/"+name+"-true-off-slice", fmt.Sprintf("%s = true but At() panics", op))
			return
		}
		ab := strings.Split(at, ":")
		ats, _ := strconv.ParseInt(ab[0], 10, 64)
		idx64, _ := strconv.ParseInt(ab[1], 10, 64)
		idx := int(idx64)
		if idx < 0 || idx >= n || ss[idx].TimestampMs != ats {
			viol("C17/at-wrong-sample", fmt.Sprintf("At() = %s is not a sample of the series", at))
			return
		}
		if isSeek {
			qualifies := -1
			for k := p; k < n; k++ {
				if ss[k].TimestampMs >= t {
					qualifies = k
					break
				}
			}
			switch {
			case ats < t && qualifies < 0:
				viol("C17/seek-true-but-none-qualifies", fmt.Sprintf("Seek(%d) = true on sample #%d (t=%d) although no unread sample is ≥ %d", t, idx, ats, t))
			case ats < t:
				viol("C17/seek-lands-before-target", fmt.Sprintf("Seek(%d) lands on sample #%d with timestamp %d < %d", t, idx, ats, t))
			case idx < p:
				viol("C17/seek-moves-backwards", fmt.Sprintf("Seek(%d) moved the cursor back from #%d to #%d", t, p, idx))
			case qualifies >= 0 && idx > qualifies:
				viol("C17/seek-skips-qualifying-sample", fmt.Sprintf("Seek(%d) lands on #%d but unread sample #%d (t=%d) already qualifies", t, idx, qualifies, ss[qualifies].TimestampMs))
			}
		} else {
			want := cur + 1
			if cur < 0 {
				want = p
			}
			if idx != want {
				viol("C17/next-not-by-one", fmt.Sprintf("Next() moved the cursor to #%d, expected #%d", idx, want))
			}
		}
		cur, p = idx, idx
	}
	return
}

// VERIF_C17_ASWRITTEN=1 compares against the model of the code as it was written in the pinned tree
// (used once to validate `stepW`, the subject of the decide-checked counterexamples).
func c17CursorOp() string {
	if os.Getenv("VERIF_C17_ASWRITTEN") == "1" {
		return "c17cursorw"
	}
	return "c17cursor"
}

func tf(b bool) string {
	if b {
		return "T"
	}
	return "F"
}

func c17Cursor(r *h.Result, rng *h.Rng, arrays, seqs int) error {
	r.Stream("cursor: model.Series.Iterator() Next/Seek/At under generated call sequences vs Read.Cursor.run; oracle judges the chunkenc.Iterator contract on the real cursor (values = slice index)")
	var ops, impl []string
	var cases []any
	flush := func() error {
		if len(ops) == 0 {
			return nil
		}
		err := r.Compare("cursor", ops, impl, cases)
		ops, impl, cases = ops[:0], impl[:0], cases[:0]
		return err
	}
	for a := 0; a < arrays; a++ {
		ss := c17Samples(rng)
		sstr := c17SamplesStr(ss)
		hasDup := false
		for i := 1; i < len(ss); i++ {
			if ss[i].TimestampMs == ss[i-1].TimestampMs {
				hasDup = true
			}
		}
		for q := 0; q < seqs; q++ {
			nops := rng.Range(1, 30)
			var seq []string
			nSeek := 0
			for i := 0; i < nops; i++ {
				switch k := rng.Intn(20); {
				case k < 9:
					seq = append(seq, "n")
				case k < 19:
					seq = append(seq, "s"+strconv.FormatInt(c17Target(rng, ss), 10))
					nSeek++
				default:
					seq = append(seq, "a") // possibly off the slice: unspecified by the contract, compared with the model only
				}
			}
			iops, outs := c17RunCursor(r, ss, seq, true)
			line := c17CursorOp() + " " + sstr + " " + strings.Join(iops, ",")
			ops = append(ops, line)
			impl = append(impl, strings.Join(outs, ","))
			cases = append(cases, c17CursorCase{Stream: "cursor", Samples: sstr, Ops: strings.Join(seq, ",")})
			r.Case("cursor:"+sstr+"|"+strings.Join(seq, ","), nSeek > 0 && len(ss) > 1)
			switch {
			case len(ss) == 0:
				r.Count("cursor:empty-slice")
			case hasDup:
				r.Count("cursor:with-equal-timestamps")
			default:
				r.Count("cursor:strictly-ascending")
			}
			r.CountN("cursor:seek-calls", nSeek)
			for _, o := range outs {
				if o == "F" {
					r.Count("cursor:advance-false")
				} else if o == "!" {
					r.Count("cursor:fault")
				}
			}
			if (a*seqs+q)%997 == 0 {
				r.Sample(c17CursorCase{Stream: "cursor", Samples: sstr, Ops: strings.Join(iops, ","), Impl: strings.Join(outs, ",")})
			}
			if len(ops) >= 20000 {
				if err := flush(); err != nil {
					return err
				}
			}
		}
	}
	return flush()
}

// ---------------------------------------------------------------------------------------------------

func c17Replay(r *h.Result, path string) error {
	b, err := os.ReadFile(path)
	if err != nil {
		return err
	}
	var outer struct {
		Replay json.RawMessage `json:"replay"`
	}
	var c struct {
		Stream string `json:"stream"`
	}
	raw := json.RawMessage(b)
	if json.Unmarshal(b, &outer) == nil && len(outer.Replay) > 0 {
		raw = outer.Replay
	}
	if err := json.Unmarshal(raw, &c); err != nil {
		return err
	}
	switch c.Stream {
	case "cursor":
		var cc c17CursorCase
		if err := json.Unmarshal(raw, &cc); err != nil {
			return err
		}
		ss, err := c17ParseSamples(cc.Samples)
		if err != nil {
			return err
		}
		seq := strings.Split(cc.Ops, ",")
		iops, outs := c17RunCursor(r, ss, seq, true)
		r.Case("replay", true)
		return r.Compare("cursor", []string{"c17cursor " + cc.Samples + " " + strings.Join(iops, ",")}, []string{strings.Join(outs, ",")}, []any{cc})
	}
	if fn, ok := c17ReplayMore[c.Stream]; ok {
		return fn(r, raw)
	}
	return fmt.Errorf("replay: unknown stream %q", c.Stream)
}

var c17ReplayMore = map[string]func(r *h.Result, raw json.RawMessage) error{}

// further streams register themselves here (c17_*.go)
var c17Streams []func(r *h.Result, rng *h.Rng, tier string) error

func c17(r *h.Result, rng *h.Rng, tier string, replay string) error {
	if replay != "" {
		return c17Replay(r, replay)
	}
	arrays, seqs := 300, 20
	switch tier {
	case "thorough", "search":
		arrays, seqs = 10000, 100
	}
	r.Rule = "cursor: sorted sample slices of 0..40 samples (gaps 0/1/2/3..20/15000 ms, 35% of slices with equal neighbours), call sequences of 1..30 ops (45% Next, 50% Seek with targets at first-1, first, last, last+1, ts-1/ts/ts+1 of a random sample, 5% At anywhere); non-trivial = ≥ 1 Seek on ≥ 2 samples; distinct by (slice, sequence)"
	if err := c17Cursor(r, rng.Fork(), arrays, seqs); err != nil {
		return err
	}
	for _, f := range c17Streams {
		if err := f(r, rng.Fork(), tier); err != nil {
			return err
		}
	}
	return nil
}
