package main

// C10 taint run — infrastructure.
//
// The real reader routes (reader/router/*.go) are registered on a mux router over a scripted database/sql
// driver (harness/fakes): every SQL text the code sends is captured. For each position where a request
// string can reach SQL (c10_positions.go) a distinct marker  Head ++ hostile bytes ++ Tail  is planted, the
// request is sent through the real controller, and every captured statement is lexed with the MODEL lexer
// (driver ops `lex`, `kinds`). Oracle (c10Judge): no error token; every occurrence of Head lies inside one
// string-literal token whose decoded value contains the intended bytes; the token-kind sequence equals the one
// of the same request with the harmless marker Head ++ "abc" ++ Tail.

import (
	"bytes"
	"context"
	"database/sql/driver"
	"encoding/json"
	"fmt"
	"io"
	"net/http"
	"net/http/httptest"
	"net/url"
	"os"
	"regexp"
	"sort"
	"strings"
	"syscall"
	"time"
	"unicode/utf8"

	"github.com/gorilla/mux"
	"github.com/gorilla/websocket"
	rconfig "github.com/metrico/qryn/reader/config"
	rmodel "github.com/metrico/qryn/reader/model"
	rrouter "github.com/metrico/qryn/reader/router"

	"verif/harness/fakes"
	"verif/harness/h"
)

// ---------------------------------------------------------------------------------------------------
// markers

type c10Marker struct {
	Head, Mid, Tail string
	// Pre: hostile bytes in FRONT of the marker head — code that looks at the first byte of a request string
	// (a digit → "array index", a quote, a sign …) takes the same path as for a value consisting of them
	Pre string
}

func (m c10Marker) Val() string { return m.Pre + m.Head + m.Mid + m.Tail }

// leading fragments: what a first-byte test could key on. The first group (digits) is used for the second marker
// of every position, so that every position sees a value that begins like a number.
var c10LeadDigits = []string{"0", "9", "1'", "0')", "7\\", "00", "1e9", "0x27", "3--", "2/*", "5 ", "8,", "4]", "6\""}
var c10Leads = []string{"'", "\\", "-", "--", "-1", "+", " ", "(", ")", "_", ".", "[", "]", "`", "\"", "$", "%", "#", "/*", "*/", "@", ":", ";", ",",
	"{", "}", "!", "~", "=", "|", "\x00", "\n", "\t", "é", "\xff", "A", "z", "''", "\\'", "NULL", "true", "0", "9'"}

// c10Lead: a leading fragment admissible at the class (empty when the class admits none of the candidates)
func c10Lead(rng *h.Rng, cl c10Class, digits bool) string {
	set := c10Leads
	if digits {
		set = c10LeadDigits
	}
	switch cl {
	case clIdent, clIdentEdge:
		if digits {
			return h.Pick(rng, []string{"0", "9", "00", "1e9"})
		}
		return h.Pick(rng, []string{"_", "A", "z", "__", "x0"})
	case clTrIdent:
		if digits {
			return h.Pick(rng, []string{"0", "9", "0-", "1.", "3--"})
		}
		return h.Pick(rng, []string{"_", ".", "A", "z", "-", "--", ".-"})
	case clHex:
		return h.Pick(rng, []string{"0", "9", "27", "00", "a", "F"})
	}
	for try := 0; try < 8; try++ {
		if s := c10Narrow(cl, h.Pick(rng, set)); s != "" {
			return s
		}
	}
	return ""
}

// hostile fragments: every byte (sequence) that has a meaning for the ClickHouse lexer, for LIKE, for the
// query languages in front of it, or for the transports
var c10Frags = []string{"'", "\\", "\\'", "''", "\x00", "\n", "\r", "--", "/*", "*/", "%", "_", "\"", "`", ";",
	"\xff", "\xc3\x28", "$", "{", "}", "(", ")", "\\x27", "' OR 1=1 --", "\x1a", "\t", "\b", "é", "\\\\", "'--", "\\''",
	" ", ",", "=", "|", "[", "]", "\\n", "\\0", "%27", "+", "&", "#", "?", "\x7f", "\xe2\x80\xa8", "'); DROP TABLE x; --"}

// c10Class: which bytes a position's transport/grammar can carry at a given level
type c10Class int

const (
	clFull    c10Class = iota // any byte string
	clNoSlash                 // any byte but '/' (one URL path segment); no "." / ".." segments arise because of Head
	clText                    // valid UTF-8, no NUL (for transports that would otherwise coerce; used as a second level)
	clIdent                   // [a-zA-Z0-9_]  (LogQL / profile-selector label names)
	clTrIdent                 // [.a-zA-Z0-9_-] (TraceQL label names)
	clTagLit                  // tempo tags literal: anything but blank ! = ~ "
	clHex                     // hex digits
	clNoBrace                 // any byte but '{' (render-diff type id part)
	clNoColon                 // any byte but ':' and '{'
	clIdentEdge               // identifier characters plus a few near-identifier ones (\ . - : $): what a loosened lexer class
	// would plausibly admit into a name — the pinned lexers refuse such names (the level is Loose), a changed one must not let
	// them alter a literal (seeded C10-5)
)

func c10Mid(rng *h.Rng, cl c10Class) string {
	var b strings.Builder
	switch cl {
	case clIdentEdge:
		for i, n := 0, rng.Range(1, 6); i < n; i++ {
			b.WriteByte("abcXYZ019_"[rng.Intn(10)])
		}
		b.WriteString(h.Pick(rng, []string{"\\", ".", "-", ":", "$", "\\\\", ".\\"}))
		if rng.Chance(50) {
			b.WriteByte("abcXYZ019_"[rng.Intn(10)])
		}
		return b.String()
	case clIdent:
		for i, n := 0, rng.Range(1, 10); i < n; i++ {
			b.WriteByte("abcXYZ019_"[rng.Intn(10)])
		}
		return b.String()
	case clTrIdent:
		for i, n := 0, rng.Range(1, 10); i < n; i++ {
			b.WriteString(h.Pick(rng, []string{"a", "Z", "0", "_", "-", "--", ".", "-.-", "x9"}))
		}
		return b.String()
	case clHex:
		for i, n := 0, rng.Range(1, 6); i < n; i++ {
			b.WriteString(h.Pick(rng, []string{"27", "5c", "00", "2d2d", "ff", "0a", "a", "F"}))
		}
		return b.String()
	}
	n := rng.Range(1, 7)
	for i := 0; i < n; i++ {
		switch {
		case rng.Chance(70):
			b.WriteString(h.Pick(rng, c10Frags))
		case rng.Chance(50):
			b.Write(rng.Bytes(4))
		default:
			b.WriteString(rng.Ident(4))
		}
	}
	s := c10Narrow(cl, b.String())
	if s == "" {
		s = "'"
	}
	return s
}

// c10Narrow: drop from s what the class cannot carry
func c10Narrow(cl c10Class, s string) string {
	drop := func(set string) {
		s = strings.Map(func(r rune) rune {
			if r < 0x80 && strings.IndexByte(set, byte(r)) >= 0 {
				return -1
			}
			return r
		}, s)
	}
	switch cl {
	case clNoSlash:
		s = strings.ReplaceAll(s, "/", "")
	case clText:
		s = strings.ReplaceAll(strings.ToValidUTF8(s, "é"), "\x00", "")
	case clTagLit:
		s = strings.NewReplacer(" ", "", "!", "", "=", "", "~", "", "\"", "", "\t", "", "\n", "", "\r", "", "\x0b", "", "\x0c", "").Replace(s)
	case clNoBrace:
		s = strings.ReplaceAll(s, "{", "")
	case clNoColon:
		drop("{:")
	}
	return s
}

func c10Heads(cl c10Class, n int) (string, string) {
	if cl == clHex {
		return fmt.Sprintf("c0ffee%08d", n), "e0e0"
	}
	return fmt.Sprintf("ZQ%d", n), "QZ"
}

// c10JSONCoerce: what encoding/json makes of the bytes of a string value (each invalid UTF-8 byte → U+FFFD)
func c10JSONCoerce(s string) string {
	var b strings.Builder
	for i := 0; i < len(s); {
		r, w := utf8.DecodeRuneInString(s[i:])
		if r == utf8.RuneError && w == 1 {
			b.WriteString("�")
		} else {
			b.WriteString(s[i : i+w])
		}
		i += w
	}
	return b.String()
}

// ---------------------------------------------------------------------------------------------------
// requests

type kv struct{ K, V string }

type c10Req struct {
	Method string
	Path   string // decoded path
	Query  []kv
	Form   []kv // non-nil: x-www-form-urlencoded body
	Body   []byte
	CT     string
	Hdr    []kv
	WS     bool // websocket upgrade (tail): SQL appears on the first 1 s tick
}

func (q *c10Req) clone() *c10Req {
	c := *q
	c.Query = append([]kv(nil), q.Query...)
	c.Form = append([]kv(nil), q.Form...)
	c.Hdr = append([]kv(nil), q.Hdr...)
	c.Body = append([]byte(nil), q.Body...)
	return &c
}

func setKV(l []kv, k, v string) []kv {
	for i := range l {
		if l[i].K == k {
			l[i].V = v
			return l
		}
	}
	return append(l, kv{k, v})
}

func encKV(l []kv) string {
	v := url.Values{}
	for _, x := range l {
		v.Add(x.K, x.V)
	}
	return v.Encode()
}

func (q *c10Req) replay() map[string]any {
	m := map[string]any{"method": q.Method, "path_hex": h.Hex([]byte(q.Path)), "query": encKV(q.Query)}
	if q.Form != nil {
		m["form"] = encKV(q.Form)
	}
	if q.Body != nil {
		m["body_hex"] = h.Hex(q.Body)
		m["content_type"] = q.CT
	}
	if len(q.Hdr) > 0 {
		m["headers"] = fmt.Sprint(q.Hdr)
	}
	return m
}

func (q *c10Req) http() *http.Request {
	var body io.Reader
	ct := q.CT
	if q.Form != nil {
		body = strings.NewReader(encKV(q.Form))
		ct = "application/x-www-form-urlencoded"
	} else if q.Body != nil {
		body = bytes.NewReader(q.Body)
	}
	rq := httptest.NewRequest(q.Method, "/", body)
	rq.URL = &url.URL{Path: q.Path, RawQuery: encKV(q.Query)}
	rq.RequestURI = rq.URL.RequestURI()
	if ct != "" {
		rq.Header.Set("Content-Type", ct)
	}
	for _, x := range q.Hdr {
		rq.Header[http.CanonicalHeaderKey(x.K)] = []string{x.V}
	}
	return rq
}

// ---------------------------------------------------------------------------------------------------
// router over the scripted database. cfg: "v" = settings table lists the schema versions, "n" = none and
// a metrics_15s table exists (old layout), "c" = versions + cluster (distributed tables, INLINE_WITH) and the
// TraceQL complexity estimate is large (the planners then take the partitioned path).

type c10Named struct {
	*fakes.DB
	name string
}

func (d *c10Named) GetName() string { return d.name }

type c10Rt struct {
	cfg string
	app *mux.Router
	log *fakes.CallLog
}

var c10DBSeq int

func c10IsVersionQuery(q string) bool {
	return strings.HasPrefix(q, "SELECT argMax(name, inserted_at)") || q == "SHOW TABLES"
}

func c10Assemble(cfg string) *c10Rt {
	c20Setup()
	log := &fakes.CallLog{}
	resp := func(q string) ([]string, [][]driver.Value, error) {
		switch {
		case strings.HasPrefix(q, "SELECT argMax(name, inserted_at)"):
			if cfg == "n" {
				return []string{"_name", "_value"}, nil, nil
			}
			return []string{"_name", "_value"}, [][]driver.Value{{"tempo_v2", "0"}, {"v3_1", "0"}, {"v5", "0"}}, nil
		case q == "SHOW TABLES":
			if cfg == "n" {
				return []string{"name"}, [][]driver.Value{{"metrics_15s"}}, nil
			}
			return []string{"name"}, nil, nil
		case cfg == "c" && strings.Contains(q, "evaluate_complexity") || cfg == "c" && strings.Contains(q, "as complexity"):
			return []string{"c"}, [][]driver.Value{{int64(25000000)}}, nil
		}
		return nil, nil, nil
	}
	reg := fakes.NewDBRegistry(log, resp)
	c10DBSeq++
	reg.M.Session = &c10Named{DB: reg.M.Session.(*fakes.DB), name: fmt.Sprintf("c10-%s-%d", cfg, c10DBSeq)}
	if cfg == "c" {
		reg.M.Config.ClusterName = "c1"
	}
	var ireg rmodel.IDBRegistry = reg
	app := mux.NewRouter()
	rrouter.RouteQueryRangeApis(app, ireg)
	rrouter.RouteSelectLabels(app, ireg)
	rrouter.RouteSelectPrometheusLabels(app, ireg)
	rrouter.RoutePrometheusQueryRange(app, ireg, rconfig.Cloki.Setting.SYSTEM_SETTINGS.QueryStats)
	rrouter.RouteTempo(app, ireg)
	rrouter.RouteMiscApis(app)
	rrouter.RouteProf(app, ireg)
	rrouter.PluggableRoutes(app, ireg)
	return &c10Rt{cfg: cfg, app: app, log: log}
}

type c10Out struct {
	Status int
	Body   string
	SQL    []string // statements with request relevance (version probes removed), in order
	Note   string   // "", "panic: …", "hang"
}

func (rt *c10Rt) sqls() []string {
	var res []string
	for _, c := range rt.log.Take() {
		for _, p := range []string{"db:query:", "db:exec:"} {
			if strings.HasPrefix(c, p) {
				if q := c[len(p):]; !c10IsVersionQuery(q) {
					res = append(res, q)
				}
			}
		}
	}
	return res
}

func (rt *c10Rt) do(q *c10Req) c10Out {
	if q.WS {
		// a router of its own: the watcher goroutine of a tail keeps ticking for a while after the socket is closed
		return c10Assemble(rt.cfg).doWS(q)
	}
	rq := q.http()
	ctx, cancel := context.WithTimeout(context.Background(), 4*time.Second)
	defer cancel()
	rq = rq.WithContext(ctx)
	rec := httptest.NewRecorder()
	done := make(chan string, 1)
	go func() {
		defer func() {
			if e := recover(); e != nil {
				done <- fmt.Sprintf("panic: %v", e)
				return
			}
			done <- ""
		}()
		rt.app.ServeHTTP(rec, rq)
	}()
	out := c10Out{}
	select {
	case out.Note = <-done:
	case <-time.After(8 * time.Second):
		out.Note = "hang"
		out.SQL = rt.sqls()
		return out
	}
	out.Status = rec.Code
	b := rec.Body.String()
	if len(b) > 300 {
		b = b[:300]
	}
	out.Body = b
	out.SQL = rt.sqls()
	return out
}

// doWS: the tail endpoint needs a websocket client; the plan is processed on a 1 s ticker.
func (rt *c10Rt) doWS(q *c10Req) c10Out {
	srv := httptest.NewServer(rt.app)
	defer srv.Close()
	u := "ws" + strings.TrimPrefix(srv.URL, "http") + (&url.URL{Path: q.Path, RawQuery: encKV(q.Query)}).RequestURI()
	out := c10Out{}
	con, resp, err := websocket.DefaultDialer.Dial(u, nil)
	if resp != nil {
		out.Status = resp.StatusCode
	}
	if err != nil {
		out.Note = "dial: " + err.Error()
		out.SQL = rt.sqls()
		return out
	}
	deadline := time.Now().Add(5 * time.Second)
	for time.Now().Before(deadline) {
		time.Sleep(100 * time.Millisecond)
		out.SQL = append(out.SQL, rt.sqls()...)
		if len(out.SQL) > 0 {
			break
		}
	}
	con.Close()
	time.Sleep(50 * time.Millisecond)
	rt.sqls()
	if len(out.SQL) > 1 {
		out.SQL = out.SQL[:1] // one rendering of the plan; how many ticks were seen is timing
	}
	return out
}

// ---------------------------------------------------------------------------------------------------
// positions

type c10Reach int

const (
	reachMust  c10Reach = iota // at least one level must put the marker into SQL (else the case is vacuous: harness error)
	reachMay                   // no requirement
	reachNever                 // the marker must not occur in any SQL text (numeric / enumerated / unused parameters)
)

type c10Level struct {
	Class c10Class
	// Expect: the byte strings one of which the decoded literal must contain for marker value v
	// (nil: the value itself)
	Expect func(v string) []string
	// Ident: the position is restricted to identifier bytes by a lexer rule — the marker may then also occur in a
	// word / quoted-identifier token (theorem ident_safe covers the raw embedding)
	Ident bool
	// Loose: at this level the query-language grammar may itself split the hostile text into several of ITS tokens
	// (a label name followed by `|`, `,` …) — that is a different request, not SQL injection. Judged: the statement
	// lexes, the marker head occurs only inside string literals (or identifier-only words), never in a comment;
	// no comparison with the harmless statement and no intended value.
	Loose bool
	// Fold: the intended bytes are matched case-insensitively (a `(?i)` literal regex is rendered case-folded)
	Fold bool
}

type c10Pos struct {
	Endpoint string // violation key component, e.g. "loki/query_range"
	Pos      string // e.g. "logql/matcher-value"
	Inv      []string
	Mk       func(v string) *c10Req // request carrying marker value v
	Levels   []c10Level
	Reach    c10Reach
	Cfgs     string // router configurations to run under ("" = all)
	NumNorm  bool   // compare kinds with all-digit words normalised (statements containing the current time)
	// for the structural stream (c10_leaves.go): the query-language text carrying the marker and which planner takes it
	Lang string
	Text func(v string) string
}

func (p *c10Pos) key() string { return "C10/taint/" + p.Endpoint + "/" + p.Pos }

// ---------------------------------------------------------------------------------------------------
// observations and judgement

type c10Obs struct {
	pos     *c10Pos
	cfg     string
	lvl     int
	m       c10Marker
	req     *c10Req
	hostile c10Out
	base    c10Out
}

type c10Tok struct {
	Kind string // S W Q P E
	Q    string // quote byte for Q
	Val  []byte
}

func c10ParseToks(line string) []c10Tok {
	if line == "" {
		return nil
	}
	var res []c10Tok
	for _, f := range strings.Split(line, " ") {
		switch {
		case f == "E":
			res = append(res, c10Tok{Kind: "E"})
		case strings.HasPrefix(f, "S:"):
			res = append(res, c10Tok{Kind: "S", Val: unhexDash(f[2:])})
		case strings.HasPrefix(f, "W:"):
			res = append(res, c10Tok{Kind: "W", Val: unhexDash(f[2:])})
		case strings.HasPrefix(f, "P:"):
			res = append(res, c10Tok{Kind: "P", Val: unhexDash(f[2:])})
		case strings.HasPrefix(f, "Q"):
			i := strings.IndexByte(f, ':')
			res = append(res, c10Tok{Kind: "Q", Q: f[1:i], Val: unhexDash(f[i+1:])})
		}
	}
	return res
}

func unhexDash(s string) []byte {
	if s == "-" {
		return nil
	}
	return h.UnHex(s)
}

var c10DigitsRe = regexp.MustCompile(`^[0-9.]+$`)

// c10KindsCanon: the kinds line, optionally with the marker value inside word/quoted tokens replaced by the
// baseline value (identifier positions) and all-digit words normalised (time-dependent statements)
func c10KindsCanon(line string, from, to string, numNorm bool) string {
	if from == "" && !numNorm {
		return line
	}
	fs := strings.Split(line, " ")
	for i, f := range fs {
		if !(strings.HasPrefix(f, "W:") || strings.HasPrefix(f, "Q")) {
			continue
		}
		k := strings.IndexByte(f, ':')
		v := string(unhexDash(f[k+1:]))
		if from != "" {
			v = strings.ReplaceAll(v, from, to)
		}
		if numNorm && f[0] == 'W' && c10DigitsRe.MatchString(v) {
			v = "#"
		}
		fs[i] = f[:k+1] + h.Hex([]byte(v))
	}
	return strings.Join(fs, " ")
}

type c10Lexed struct {
	lex, kinds map[string]string // by SQL text
}

func c10LexAll(texts map[string]bool) (*c10Lexed, error) {
	var list []string
	for t := range texts {
		list = append(list, t)
	}
	sort.Strings(list)
	res := &c10Lexed{lex: map[string]string{}, kinds: map[string]string{}}
	const chunk = 4000
	for i := 0; i < len(list); i += chunk {
		j := i + chunk
		if j > len(list) {
			j = len(list)
		}
		var ops []string
		for _, t := range list[i:j] {
			hx := h.Hex([]byte(t))
			if t == "" {
				hx = "-"
			}
			ops = append(ops, "lex "+hx, "kinds "+hx)
		}
		ans, err := h.Model(ops)
		if err != nil {
			return nil, err
		}
		for k, t := range list[i:j] {
			res.lex[t] = ans[2*k]
			res.kinds[t] = ans[2*k+1]
		}
	}
	return res, nil
}

// c10Judge applies the oracle to one observation whose hostile run reached SQL. Returns "" or what failed.
func c10Judge(o *c10Obs, lx *c10Lexed) (string, map[string]any) {
	lv := o.pos.Levels[o.lvl]
	head := []byte(o.m.Head)
	val := o.m.Val()
	want := []string{val}
	if lv.Expect != nil {
		want = lv.Expect(val)
	}
	want = c10ScopeStripped(lv, want)
	rep := func(sqlText, toks string) map[string]any {
		m := map[string]any{"stream": "taint", "endpoint": o.pos.Endpoint, "position": o.pos.Pos, "cfg": o.cfg,
			"marker_hex": h.Hex([]byte(val)), "request": o.req.replay(), "sql": sqlText, "tokens": toks}
		return m
	}
	for _, s := range o.hostile.SQL {
		toks := c10ParseToks(lx.lex[s])
		rawCount := bytes.Count([]byte(s), head)
		inLit := 0
		for _, t := range toks {
			switch t.Kind {
			case "E":
				return "the statement does not lex (error token: unterminated literal, identifier or comment)", rep(s, lx.lex[s])
			case "S":
				n := bytes.Count(t.Val, head)
				if n == 0 {
					continue
				}
				inLit += n
				ok := lv.Loose
				for _, w := range want {
					if bytes.Contains(t.Val, []byte(w)) || lv.Fold && strings.Contains(strings.ToUpper(string(t.Val)), strings.ToUpper(w)) {
						ok = true
					}
				}
				if !ok {
					return fmt.Sprintf("the literal holding the marker decodes to %q, which does not contain the intended bytes %q", t.Val, want), rep(s, lx.lex[s])
				}
			case "W", "Q":
				if n := bytes.Count(t.Val, head); n > 0 {
					if lv.Loose && c10IdentOnly(t.Val) {
						inLit += n
						continue
					}
					if !lv.Ident {
						return fmt.Sprintf("the marker occurs in a %s token %q, outside any string literal", map[string]string{"W": "word", "Q": "quoted-identifier"}[t.Kind], t.Val), rep(s, lx.lex[s])
					}
					if !bytes.Contains(t.Val, []byte(val)) {
						return fmt.Sprintf("the identifier marker is split: token %q", t.Val), rep(s, lx.lex[s])
					}
					inLit += n
				}
			}
		}
		if inLit != rawCount {
			return fmt.Sprintf("the marker occurs %d times in the text but %d times inside literal tokens (comment, or split across tokens)", rawCount, inLit), rep(s, lx.lex[s])
		}
	}
	if lv.Loose {
		return "", nil
	}
	// structure: same statements, same kinds as the harmless marker
	if len(o.hostile.SQL) != len(o.base.SQL) {
		return fmt.Sprintf("%d statements for the hostile marker, %d for the harmless one", len(o.hostile.SQL), len(o.base.SQL)),
			rep(strings.Join(o.hostile.SQL, "\n;;\n"), strings.Join(o.base.SQL, "\n;;\n"))
	}
	baseVal := o.m.Head + c10Harmless(lv.Class) + o.m.Tail
	for i := range o.hostile.SQL {
		from, to := "", ""
		if lv.Ident {
			from, to = val, baseVal
		}
		kh := c10KindsCanon(lx.kinds[o.hostile.SQL[i]], from, to, o.pos.NumNorm)
		kb := c10KindsCanon(lx.kinds[o.base.SQL[i]], "", "", o.pos.NumNorm)
		if kh != kb {
			m := rep(o.hostile.SQL[i], lx.lex[o.hostile.SQL[i]])
			m["baseline_sql"] = o.base.SQL[i]
			return "the token-kind sequence differs from the one for the harmless marker in the same position", m
		}
	}
	return "", nil
}

// c10ScopeStripped: TraceQL attribute names and tempo tag names lose their scope prefix by design (`span.`,
// `resource.`, a leading `.`, applied one after the other: attr_condition.go getTerm, tempoService.GetValuesRequest);
// a marker that begins with such a prefix is intended to arrive without it
func c10ScopeStripped(lv c10Level, want []string) []string {
	res := append([]string{}, want...)
	if lv.Class == clNoBrace || lv.Class == clNoColon {
		// profile type id (render-diff query, profile_typeID): blanks around the query and back-quotes at the ends
		// of a part are trimmed (value-level, recorded in notes/C10.md); the structure is judged as everywhere
		for _, w := range want {
			t := strings.Trim(strings.TrimSpace(w), "`")
			res = append(res, strings.TrimSpace(w), t, strings.TrimSpace(t))
		}
		return res
	}
	if lv.Class != clTrIdent && lv.Class != clNoSlash {
		return want
	}
	for _, w := range want {
		for i := 0; i < 3; i++ {
			t := w
			for _, p := range []string{"span.", "resource.", "."} {
				if strings.HasPrefix(t, p) {
					t = t[len(p):]
					break
				}
			}
			if t == w {
				break
			}
			res = append(res, t)
			w = t
		}
	}
	return res
}

func c10Harmless(cl c10Class) string {
	if cl == clHex {
		return "abcd"
	}
	return "abc"
}

// c10IdentOnly: the token consists of bytes that cannot end a word or open a literal/comment
func c10IdentOnly(b []byte) bool {
	for _, c := range b {
		if !(c >= '0' && c <= '9' || c >= 'a' && c <= 'z' || c >= 'A' && c <= 'Z' || c == '_' || c == '.') {
			return false
		}
	}
	return true
}

func c10HasHead(out c10Out, head string) bool {
	for _, s := range out.SQL {
		if strings.Contains(s, head) {
			return true
		}
	}
	return false
}

// c10Carries: does the request carry the marker head inside the parameter the inventory key names
// (file|handler|kind|name; kinds: query, form, header, path, body)?
func c10Carries(q *c10Req, key, head string) bool {
	f := strings.Split(key, "|")
	if len(f) != 4 {
		return false
	}
	kind, name := f[2], f[3]
	norm := func(s string) string { return strings.ToLower(strings.ReplaceAll(s, "_", "")) }
	inKV := func(l []kv) bool {
		for _, x := range l {
			if (x.K == name || norm(x.K) == norm(name)) && strings.Contains(x.V, head) {
				return true
			}
		}
		return false
	}
	switch kind {
	case "query":
		return inKV(q.Query)
	case "form":
		return q.Form != nil && inKV(q.Form)
	case "header":
		if norm(name) == "content-type" && strings.Contains(q.CT, head) {
			return true
		}
		return inKV(q.Hdr)
	case "path":
		return strings.Contains(q.Path, head)
	case "body":
		if q.Body == nil || !bytes.Contains(q.Body, []byte(head)) {
			return false
		}
		if strings.Contains(q.CT, "json") {
			var m map[string]json.RawMessage
			if json.Unmarshal(q.Body, &m) != nil {
				return true // not a JSON object any more (the marker broke it): the whole body is the parameter
			}
			for k, v := range m {
				if norm(k) == norm(name) && bytes.Contains(v, []byte(head)) {
					return true
				}
			}
			return false
		}
		return true
	}
	return false
}

// ---------------------------------------------------------------------------------------------------
// the run

var c10Stderr = os.Stderr

func c10Silence() func() {
	// the services print every query to stdout; text/scanner (participle lexers) reports to os.Stderr; one
	// processor uses the builtin println, which writes to file descriptor 2 directly
	old, oldErr := os.Stdout, os.Stderr
	null, err := os.OpenFile(os.DevNull, os.O_WRONLY, 0)
	if err != nil {
		return func() {}
	}
	saved2, err2 := syscall.Dup(2)
	if err2 == nil {
		c10Stderr = os.NewFile(uintptr(saved2), "stderr-saved")
		syscall.Dup2(int(null.Fd()), 2)
	}
	os.Stdout, os.Stderr = null, null
	return func() {
		os.Stdout, os.Stderr = old, oldErr
		if err2 == nil {
			syscall.Dup2(saved2, 2)
		}
	}
}

func c10Taint(r *h.Result, rng *h.Rng, perPos int, inventory []string) error {
	r.Stream("taint: hostile markers in every request-string position through the real reader controllers over a scripted driver; every SQL text lexed by the model lexer")
	r.Stream("inventory: Gen.Params (request parameters read by reader/controller/*.go) vs the harness' table position → taint case")
	cfgs := []string{"v", "n", "c"}
	rts := map[string]*c10Rt{}
	for _, c := range cfgs {
		rts[c] = c10Assemble(c)
	}
	positions := c10Positions()
	if err := c10Grammar(r, positions); err != nil {
		return err
	}

	// inventory: every Gen.Params entry must be exercised by a position
	known := map[string]bool{}
	for _, p := range positions {
		for _, k := range p.Inv {
			known[k] = true
		}
	}
	gen := map[string]bool{}
	for _, k := range inventory {
		gen[k] = true
		r.Case("inventory:"+k, true)
		if !known[k] {
			r.Disagree("inventory", "c10params", "no taint case for this position", k, map[string]string{"position": k})
			r.Count("inventory:unknown-to-harness")
		} else {
			r.Count("inventory:covered")
		}
	}
	var stale []string
	for k := range known {
		if !gen[k] {
			stale = append(stale, k)
		}
	}
	sort.Strings(stale)
	for _, k := range stale {
		r.Disagree("inventory", "c10params", k, "not in Gen.Params", map[string]string{"position": k})
		r.Count("inventory:stale-in-harness")
	}

	// a parameter counts as covered only when some position's request really carried a marker IN that parameter
	carried := map[string]bool{}
	var obs []*c10Obs
	var vacuous []string
	texts := map[string]bool{}
	n := 0
	for pi := range positions {
		p := &positions[pi]
		prng := rng.Fork()
		reached := false
		for _, cfg := range cfgs {
			if p.Cfgs != "" && !strings.Contains(p.Cfgs, cfg) {
				continue
			}
			rt := rts[cfg]
			per := perPos
			if p.NumNorm && p.Mk("x").WS {
				per = 1
			}
			for k := 0; k < per; k++ {
				for li, lv := range p.Levels {
					n++
					head, tail := c10Heads(lv.Class, n)
					m := c10Marker{Head: head, Mid: c10Mid(prng, lv.Class), Tail: tail}
					if k == 0 && li == 0 && lv.Class != clHex && lv.Class != clIdent && lv.Class != clTrIdent {
						m.Mid = "'\\" // always: the two bytes the escape is about
					}
					// the second marker of every position begins like a number, the third with some other hostile
					// fragment, later ones with either in half of the cases
					switch {
					case k == 1:
						m.Pre = c10Lead(prng, lv.Class, true)
					case k == 2 || k > 2 && prng.Chance(50):
						m.Pre = c10Lead(prng, lv.Class, prng.Chance(25))
					}
					req := p.Mk(m.Val())
					for _, key := range p.Inv {
						if !carried[key] && c10Carries(req, key, m.Head) {
							carried[key] = true
						}
					}
					out := rt.do(req)
					if d := os.Getenv("C10_DUMP"); d != "" && strings.Contains(p.key(), d) {
						fmt.Fprintf(c10Stderr, "== %s cfg=%s lvl=%d status=%d note=%q\n   req=%v\n   body=%q\n", p.key(), cfg, li, out.Status, out.Note, req.replay(), out.Body)
						for _, s := range out.SQL {
							fmt.Fprintf(c10Stderr, "   SQL: %s\n", s)
						}
					}
					r.Case(fmt.Sprintf("taint:%s/%s:%s:%d:%s:%s", p.Endpoint, p.Pos, cfg, li, h.Hex([]byte(m.Pre)), h.Hex([]byte(m.Mid))), true)
					if m.Pre != "" {
						if m.Pre[0] >= '0' && m.Pre[0] <= '9' {
							r.Count("taint:leading-digit")
						} else {
							r.Count("taint:leading-fragment")
						}
					}
					if out.Note == "hang" {
						r.Violate(p.key()+"/hang", "the request did not return within 8 s", map[string]any{"stream": "taint", "request": req.replay()})
						break
					}
					if !c10HasHead(out, m.Head) {
						// no statement carries the marker: rejected (or the parameter does not reach SQL); statements
						// issued nevertheless must lex
						for _, s := range out.SQL {
							texts[s] = true
						}
						obs = append(obs, &c10Obs{pos: p, cfg: cfg, lvl: li, m: m, req: req, hostile: out})
						if p.Reach == reachNever {
							r.Count("taint:never-reaches-sql")
							break
						}
						if li+1 < len(p.Levels) {
							r.Count("taint:rejected-by-grammar")
						} else {
							r.Count("taint:not-in-sql-at-last-level")
						}
						continue // next level
					}
					if p.Reach == reachNever {
						r.Violate(p.key(), fmt.Sprintf("parameter that is parsed as a number/enum reached SQL as text: %q", out.SQL), map[string]any{"stream": "taint", "request": req.replay(), "sql": out.SQL})
						break
					}
					reached = true
					base := rt.do(p.Mk(m.Head + c10Harmless(lv.Class) + m.Tail))
					o := &c10Obs{pos: p, cfg: cfg, lvl: li, m: m, req: req, hostile: out, base: base}
					obs = append(obs, o)
					for _, s := range out.SQL {
						texts[s] = true
					}
					for _, s := range base.SQL {
						texts[s] = true
					}
					r.Count(fmt.Sprintf("taint:reached-sql:level%d", li))
					if len(r.Samples) < 6 && k == 1 {
						r.Sample(map[string]any{"stream": "taint", "position": p.key(), "marker_hex": h.Hex([]byte(m.Val())), "sql": out.SQL})
					}
					if !lv.Loose {
						break // a strictly judged level that reaches SQL ends the descent
					}
				}
			}
		}
		if p.Reach == reachMust && !reached {
			vacuous = append(vacuous, p.key())
		}
		if os.Getenv("C10_SUMMARY") != "" {
			fmt.Fprintf(c10Stderr, "SUMMARY %v reach=%d %s\n", reached, p.Reach, p.key())
		}
	}
	for _, k := range inventory {
		if known[k] && !carried[k] {
			r.Disagree("inventory", "c10params", "a marker carried in this parameter by some position", k+": named by a position, but no request carried a marker in it", map[string]string{"position": k})
			r.Count("inventory:named-but-never-carried")
		} else if carried[k] {
			r.Count("inventory:carried")
		}
	}
	if len(vacuous) > 0 {
		return fmt.Errorf("%d taint positions never reached SQL at any level — the cases are vacuous (fix the request templates): %s", len(vacuous), strings.Join(vacuous, " "))
	}
	lx, err := c10LexAll(texts)
	if err != nil {
		return err
	}
	for _, o := range obs {
		if o.base.SQL == nil && !c10HasHead(o.hostile, o.m.Head) {
			for _, s := range o.hostile.SQL {
				if strings.Contains(" "+lx.lex[s]+" ", " E ") || lx.lex[s] == "E" {
					r.Violate(o.pos.key(), "a statement issued for a rejected marker does not lex", map[string]any{"stream": "taint", "request": o.req.replay(), "sql": s, "tokens": lx.lex[s]})
				}
			}
			continue
		}
		if what, rep := c10Judge(o, lx); what != "" {
			r.Violate(o.pos.key(), fmt.Sprintf("%s %s: %s", o.pos.Endpoint, o.pos.Pos, what), rep)
		}
	}
	return nil
}
