package main

import (
	"database/sql/driver"
	"encoding/json"
	"fmt"
	"net/http"
	"net/http/httptest"
	"net/url"
	"sort"
	"strconv"
	"strings"
	"time"

	"github.com/gorilla/mux"
	apirouterv1 "github.com/metrico/qryn/reader/router"
	"github.com/prometheus/prometheus/model/labels"
	promparser "github.com/prometheus/prometheus/promql/parser"
	fakes "verif/harness/fakes17"
	"verif/harness/h"
)

// ---------------------------------------------------------------------------------------------------
// Stream 10: the Prometheus metadata endpoints /api/v1/labels, /api/v1/label/<name>/values, /api/v1/series. The real
// router (RouteSelectPrometheusLabels), controllers and QueryLabelsService run over the scripted driver; every statement
// they emit is executed by the reference interpreter over a generated label index / series table; the JSON response is
// decoded. Ties: the statement text vs Prom.Labels.*Render (c17lblsql, byte-equal after collapsing blanks) and the
// returned list vs Prom.Labels.*Eval over the same rows (c17lbleval). Oracle (no model): Prometheus' reading — the label
// names / the values of the label / the label sets of the stored series of the metrics type inside the date window that
// satisfy one of the match[] selectors (parser.ParseMetricSelector + labels.Matcher.Matches, absent label = "").

type c17LblSeries struct {
	Fp     uint64      `json:"fp"`
	Type   int         `json:"type"`
	Date   string      `json:"date"`
	Labels [][2]string `json:"labels"`
}

type c17LblCase struct {
	Stream   string         `json:"stream"`
	Endpoint string         `json:"endpoint"` // labels | values | series
	Post     bool           `json:"post"`
	Name     string         `json:"name,omitempty"`
	Start    int64          `json:"start"` // unix seconds
	End      int64          `json:"end"`
	Match    []string       `json:"match"`
	Series   []c17LblSeries `json:"series"`
	SQL      string         `json:"sql,omitempty"`
	Got      string         `json:"got,omitempty"`
	Want     string         `json:"want,omitempty"`
}

func c17LblDoc(ls [][2]string) string {
	m := map[string]string{}
	for _, kv := range ls {
		m[kv[0]] = kv[1]
	}
	b, _ := json.Marshal(m) // keys sorted
	return string(b)
}

func c17LblDB(c *c17LblCase) *fakes.DB {
	db := &fakes.DB{Tables: map[string][]fakes.Row{"time_series_gin": {}, "time_series": {}}, Funcs: map[string]func([]fakes.Value) (fakes.Value, error){}}
	for _, s := range c.Series {
		for _, kv := range s.Labels {
			db.Tables["time_series_gin"] = append(db.Tables["time_series_gin"], fakes.Row{
				"date": fakes.Str(s.Date), "key": fakes.Str(kv[0]), "val": fakes.Str(kv[1]),
				"fingerprint": fakes.Uint(s.Fp), "type": fakes.Int(int64(s.Type))})
		}
		db.Tables["time_series"] = append(db.Tables["time_series"], fakes.Row{
			"date": fakes.Str(s.Date), "fingerprint": fakes.Uint(s.Fp), "labels": fakes.Str(c17LblDoc(s.Labels)), "type": fakes.Int(int64(s.Type))})
	}
	return db
}

// c17LblWant: Prometheus' reading of the request on the stored series
func c17LblWant(c *c17LblCase, sels [][]*labels.Matcher) []string {
	dFrom := time.Unix(c.Start, 0).UTC().Add(-30 * time.Minute).Format("2006-01-02")
	dTo := time.Unix(c.End, 0).UTC().Format("2006-01-02")
	set := map[string]bool{}
	for _, s := range c.Series {
		if (s.Type != 2 && s.Type != 0) || s.Date < dFrom || s.Date > dTo {
			continue
		}
		ok := len(sels) == 0 && c.Endpoint != "series"
		for _, ms := range sels {
			if c17PromSel(c17E2ESeries{Labels: s.Labels}, ms) {
				ok = true
			}
		}
		if !ok {
			continue
		}
		switch c.Endpoint {
		case "labels":
			for _, kv := range s.Labels {
				set[kv[0]] = true
			}
		case "values":
			for _, kv := range s.Labels {
				if kv[0] == c.Name {
					set[kv[1]] = true
				}
			}
		default:
			set[c17LblDoc(s.Labels)] = true
		}
	}
	var res []string
	for k := range set {
		res = append(res, k)
	}
	sort.Strings(res)
	return res
}

type c17LblHarness struct {
	sc     *fakes.Script
	router *mux.Router
}

func c17NewLblHarness(name string) *c17LblHarness {
	sc := fakes.NewScript(nil)
	app := mux.NewRouter()
	apirouterv1.RouteSelectPrometheusLabels(app, sc.Registry(name, ""))
	return &c17LblHarness{sc: sc, router: app}
}

func c17RunLbl(r *h.Result, hn *c17LblHarness, c *c17LblCase) (ops, impl []string, err error) {
	db := c17LblDB(c)
	var execErr error
	stmt := ""
	var stmtRows [][]fakes.Value
	hn.sc.SetResponder(func(qs string) ([]string, [][]driver.Value, error) {
		if strings.Contains(qs, "FROM settings") || strings.HasPrefix(strings.TrimSpace(qs), "SHOW TABLES") {
			return []string{"a", "b"}, nil, nil
		}
		cols, rows, err := db.Exec(qs)
		if err != nil {
			execErr = fmt.Errorf("%v in: %s", err, qs)
			return nil, nil, err
		}
		stmt, stmtRows = qs, rows
		return cols, fakes.DriverRows(rows), nil
	})
	form := url.Values{}
	form.Set("start", strconv.FormatInt(c.Start, 10))
	form.Set("end", strconv.FormatInt(c.End, 10))
	for _, m := range c.Match {
		form.Add("match[]", m)
	}
	path := map[string]string{"labels": "/api/v1/labels", "series": "/api/v1/series", "values": "/api/v1/label/" + url.PathEscape(c.Name) + "/values"}[c.Endpoint]
	var req *http.Request
	if c.Post && c.Endpoint != "values" {
		req = httptest.NewRequest("POST", path, strings.NewReader(form.Encode()))
		req.Header.Set("Content-Type", "application/x-www-form-urlencoded")
	} else {
		req = httptest.NewRequest("GET", path+"?"+form.Encode(), nil)
	}
	w := httptest.NewRecorder()
	hn.router.ServeHTTP(w, req)
	if execErr != nil {
		return nil, nil, fmt.Errorf("reference interpreter: %v", execErr)
	}
	c.SQL = stmt
	var sels [][]*labels.Matcher
	var selArgs []string
	for _, m := range c.Match {
		ms, err := promparser.ParseMetricSelector(m)
		if err != nil {
			return nil, nil, fmt.Errorf("generator made an invalid selector %q: %v", m, err)
		}
		sels = append(sels, ms)
		selArgs = append(selArgs, c17MatcherArgs(ms))
	}
	if w.Code != 200 {
		r.Violate("C17/labels-request-fails", fmt.Sprintf("%s match[]=%q: status %d %s", path, c.Match, w.Code, strings.TrimSpace(w.Body.String())), *c)
		return nil, nil, nil
	}
	var body struct {
		Status string            `json:"status"`
		Data   []json.RawMessage `json:"data"`
	}
	if err := json.Unmarshal(w.Body.Bytes(), &body); err != nil || body.Status != "success" {
		r.Violate("C17/labels-response-malformed", fmt.Sprintf("%s: response %q is not a success document: %v", path, w.Body.String(), err), *c)
		return nil, nil, nil
	}
	var got []string
	for _, d := range body.Data {
		if c.Endpoint == "series" {
			var m map[string]string
			if err := json.Unmarshal(d, &m); err != nil {
				r.Violate("C17/labels-response-malformed", fmt.Sprintf("%s: series entry %s is not a label set", path, d), *c)
				return nil, nil, nil
			}
			b, _ := json.Marshal(m)
			got = append(got, string(b))
		} else {
			var s string
			if err := json.Unmarshal(d, &s); err != nil {
				r.Violate("C17/labels-response-malformed", fmt.Sprintf("%s: entry %s is not a string", path, d), *c)
				return nil, nil, nil
			}
			got = append(got, s)
		}
	}
	sort.Strings(got)
	want := c17LblWant(c, sels)
	if fmt.Sprint(got) != fmt.Sprint(want) {
		c.Got, c.Want = fmt.Sprint(got), fmt.Sprint(want)
		// classify: the pinned tree planned match[] with the LogQL stream selector
		key := "C17/labels-result-differs"
		if len(sels) > 0 {
			alt := func(anchored, absent bool) []string {
				saved := c.Series
				defer func() { c.Series = saved }()
				var keep []c17LblSeries
				for _, s := range saved {
					ok := false
					for _, ms := range sels {
						es := c17E2ESeries{Labels: s.Labels}
						if absent && c17PromSel(es, ms) || !absent && c17IdxSel(es, ms, anchored) {
							ok = true
						}
					}
					if ok {
						keep = append(keep, s)
					}
				}
				c.Series = keep
				return c17LblWant(c, [][]*labels.Matcher{{}})
			}
			switch fmt.Sprint(got) {
			case fmt.Sprint(alt(true, false)):
				key = "C17/labels-matcher-on-absent-label"
			case fmt.Sprint(alt(false, false)):
				key = "C17/labels-regex-not-anchored"
			case fmt.Sprint(c17LblWant(c, nil)):
				if c.Endpoint == "labels" {
					key = "C17/labels-match-ignored"
				}
			}
		}
		r.Violate(key, fmt.Sprintf("%s match[]=%q start=%d end=%d: returns %v, the stored series selected by the matchers inside the window give %v", path, c.Match, c.Start, c.End, got, want), *c)
	}
	if stmt == "" {
		return nil, nil, nil // no statement (series without match[])
	}
	// ---- ties
	hx := func(s string) string { return h.Hex([]byte(s)) }
	dFrom := time.Unix(c.Start, 0).UTC().Add(-30 * time.Minute).Format("2006-01-02")
	dTo := time.Unix(c.End, 0).UTC().Format("2006-01-02")
	sa := "-"
	if len(selArgs) > 0 {
		sa = strings.Join(selArgs, ";")
	}
	kind := map[string]string{"labels": "names", "values": "values", "series": "series"}[c.Endpoint]
	table, limit, name := "time_series_gin", "0", "-"
	switch kind {
	case "values":
		limit, name = "10000", hx(c.Name)
	case "series":
		table, limit = "time_series", "10000"
	}
	ops = append(ops, fmt.Sprintf("c17lblsql %s %s %s %s 2 %s %s %s", kind, table, hx(dFrom), hx(dTo), limit, name, sa))
	impl = append(impl, "text:"+hx(c17Collapse(stmt)))
	var idx, ts, tbl []string
	values := map[string]bool{"": true}
	for _, s := range c.Series {
		for _, kv := range s.Labels {
			values[kv[1]] = true
			idx = append(idx, strings.Join([]string{hx(s.Date), hx(kv[0]), hx(kv[1]), strconv.FormatUint(s.Fp, 10), strconv.Itoa(s.Type)}, "~"))
		}
		ts = append(ts, strings.Join([]string{hx(s.Date), strconv.FormatUint(s.Fp, 10), hx(c17LblDoc(s.Labels)), strconv.Itoa(s.Type)}, "~"))
	}
	for _, ms := range sels {
		for _, m := range ms {
			if m.Type != labels.MatchRegexp && m.Type != labels.MatchNotRegexp {
				continue
			}
			pat := "^(?:" + m.Value + ")$"
			for v := range values {
				if lm, err := labels.NewMatcher(labels.MatchRegexp, "x", m.Value); err == nil && lm.Matches(v) {
					tbl = append(tbl, hx(pat)+"~"+hx(v))
				}
			}
		}
	}
	sort.Strings(tbl)
	join := func(x []string) string {
		if len(x) == 0 {
			return "_"
		}
		return strings.Join(x, ",")
	}
	var outs []string
	for _, rw := range stmtRows {
		outs = append(outs, hx(rw[0].S))
	}
	o := "-"
	if len(outs) > 0 {
		o = strings.Join(outs, ",")
	}
	ops = append(ops, fmt.Sprintf("c17lbleval %s %s %s 2 %s %s %s %s %s %s", kind, hx(dFrom), hx(dTo), limit, name, sa, join(idx), join(ts), join(tbl)))
	impl = append(impl, o)
	return ops, impl, nil
}

func c17LblSelector(rng *h.Rng) string {
	var parts []string
	metric := ""
	nm := rng.Range(1, 3)
	positive := false
	for i := 0; i < nm; i++ {
		n := h.Pick(rng, c17Names)
		var m c17E2EMatcher
		switch rng.Intn(4) {
		case 0:
			m = c17E2EMatcher{"=", n, h.Pick(rng, c17Vals[n])}
		case 1:
			m = c17E2EMatcher{"!=", n, h.Pick(rng, append([]string{""}, c17Vals[n]...))}
		case 2:
			m = c17E2EMatcher{"=~", n, h.Pick(rng, c17Regex)}
		default:
			m = c17E2EMatcher{"!~", n, h.Pick(rng, c17Regex)}
		}
		lm, err := labels.NewMatcher(c17MatchType(m.Type), m.Name, m.Value)
		if err != nil {
			continue
		}
		if !lm.Matches("") {
			positive = true
		}
		parts = append(parts, m.Name+m.Type+strconv.Quote(m.Value))
	}
	if !positive {
		// a selector needs a matcher that rejects the empty value (the PromQL parser insists)
		if rng.Bool() {
			metric = h.Pick(rng, c17Vals["__name__"])
		} else {
			parts = append(parts, `__name__=~".+"`)
		}
	}
	if metric != "" && len(parts) == 0 {
		return metric
	}
	return metric + "{" + strings.Join(parts, ",") + "}"
}

func c17GenLbl(rng *h.Rng) c17LblCase {
	c := c17LblCase{Stream: "promlabels", Endpoint: h.Pick(rng, []string{"labels", "values", "series"}), Post: rng.Bool()}
	c.Start = c17Base/1000 + int64(rng.Intn(3600))
	c.End = c.Start + int64(rng.Range(1, 7200))
	if rng.Chance(10) {
		c.End = c.Start + 86400 // the window reaches the next day
	}
	c.Name = h.Pick(rng, c17Names)
	nser := rng.Range(1, 8)
	seen := map[string]bool{}
	fp := uint64(rng.Range(1, 50))
	for i := 0; i < nser; i++ {
		s := c17LblSeries{Fp: fp, Type: 2, Date: c17Day}
		fp += uint64(rng.Range(1, 1000))
		switch rng.Intn(12) {
		case 0:
			s.Type = 0
		case 1:
			s.Type = 1
		}
		switch rng.Intn(12) {
		case 0:
			s.Date = "2023-11-13"
		case 1:
			s.Date = "2023-11-15"
		case 2:
			s.Date = "2023-11-16"
		}
		for _, n := range c17Names {
			if n == "__name__" || rng.Chance(50) {
				s.Labels = append(s.Labels, [2]string{n, h.Pick(rng, c17Vals[n])})
			}
		}
		if key := c17LblDoc(s.Labels); !seen[key] {
			seen[key] = true
			c.Series = append(c.Series, s)
		}
	}
	nsel := rng.Intn(3)
	if c.Endpoint == "series" && nsel == 0 {
		nsel = 1
	}
	for i := 0; i < nsel; i++ {
		c.Match = append(c.Match, c17LblSelector(rng))
	}
	return c
}

func c17LblStream(r *h.Result, rng *h.Rng, n int) error {
	r.Stream("promlabels: the real router + PromQueryLabelsController + QueryLabelsService (/api/v1/labels, /label/<name>/values, /series; GET and POST forms, start/end, 0..2 match[] selectors) → SQL text → reference interpreter over a generated label index / series table → real response → decoded; ties: statement text vs Prom.Labels.*Render (c17lblsql) and returned list vs Prom.Labels.*Eval (c17lbleval); oracle: Prometheus' reading of the match[] selectors (ParseMetricSelector, Matcher.Matches, absent label = \"\") on the stored series of the metrics type inside the date window")
	hn := c17NewLblHarness("c17-labels")
	defer hn.sc.Close()
	var ops, impl []string
	var cases []any
	for i := 0; i < n; i++ {
		c := c17GenLbl(rng)
		o, im, err := c17RunLbl(r, hn, &c)
		if err != nil {
			return err
		}
		for range o {
			cases = append(cases, c)
		}
		ops, impl = append(ops, o...), append(impl, im...)
		b, _ := json.Marshal(struct {
			E string
			N string
			M []string
			S []c17LblSeries
		}{c.Endpoint, c.Name, c.Match, c.Series})
		r.Case("promlabels:"+strconv.FormatInt(c.Start, 10)+":"+strconv.FormatInt(c.End, 10)+string(b), len(c.Match) > 0 && len(c.Series) >= 2)
		r.Count(fmt.Sprintf("promlabels:%s match=%d", c.Endpoint, len(c.Match)))
		if i%97 == 0 {
			r.Sample(c)
		}
	}
	return c17CompareMixed(r, "promlabels", ops, impl, cases)
}

// c17CompareMixed: `text:<hex>` answers are SQL texts (blanks collapsed on the model side too), the others are compared as is
func c17CompareMixed(r *h.Result, stream string, ops, impl []string, cases []any) error {
	model, err := h.Model(ops)
	if err != nil {
		return err
	}
	for i := range ops {
		m, im := model[i], impl[i]
		if strings.HasPrefix(im, "text:") {
			im = strings.TrimPrefix(im, "text:")
			if m != "unsupported" && m != "bad-op" {
				m = h.Hex([]byte(c17Collapse(string(h.UnHex(m)))))
			}
			if m != im {
				mm := m
				if mm != "unsupported" && mm != "bad-op" {
					mm = string(h.UnHex(mm))
				}
				r.Disagree(stream, ops[i], string(h.UnHex(im)), mm, cases[i])
			}
			continue
		}
		if m != im {
			r.Disagree(stream, ops[i], im, m, cases[i])
		}
	}
	return nil
}

func init() {
	c17Streams = append(c17Streams, func(r *h.Result, rng *h.Rng, tier string) error {
		n := 500
		if tier != "quick" {
			n = 15000
		}
		r.Rule += "; promlabels: 1..8 series over the label pool (types 2/0/1; index dates inside, before and after the window), the three endpoints, GET / POST, start/end in seconds (10 %: a window into the next day), 0..2 match[] selectors of 1..3 matchers of all four types on present and absent labels (metric-name form and {…} form); non-trivial = a match[] and ≥ 2 series"
		return c17LblStream(r, rng, n)
	})
	c17ReplayMore["promlabels"] = func(r *h.Result, raw json.RawMessage) error {
		var c c17LblCase
		if err := json.Unmarshal(raw, &c); err != nil {
			return err
		}
		hn := c17NewLblHarness("c17-labels-replay")
		defer hn.sc.Close()
		r.Case("replay", true)
		o, im, err := c17RunLbl(r, hn, &c)
		if err != nil {
			return err
		}
		cases := make([]any, len(o))
		for i := range cases {
			cases[i] = c
		}
		return c17CompareMixed(r, "promlabels", o, im, cases)
	}
}
