package main

import (
	"encoding/json"
	"fmt"
	"regexp/syntax"
	"strings"
	"time"

	"github.com/metrico/qryn/reader/logql/logql_parser"
	"github.com/metrico/qryn/reader/logql/logql_transpiler_v2/shared"
	sql "github.com/metrico/qryn/reader/utils/sql_select"
	"verif/harness/h"
)

// ---- generator of LogQL log queries in the modelled fragment (text form, parsed by the real parser)

var lblNames = []string{"a", "app", "job", "level", "x_1", "_y", "Host", "z9"}

func genStr(r *h.Rng) string {
	// request strings: mostly short words, sometimes hostile bytes (kept valid UTF-8: LogQL literals are JSON strings)
	switch r.Intn(6) {
	case 0:
		return ""
	case 1:
		return h.Pick(r, []string{"'", "\\", "%", "_", "a'b", "x\\y", "100%", "a_b", "\"q\"", "it's'", "\\'", "';--", "/*", "\n", "\x00", "é", " "})
	case 2:
		n := r.Range(1, 6)
		var sb strings.Builder
		for i := 0; i < n; i++ {
			sb.WriteString(h.Pick(r, []string{"'", "\\", "%", "_", "a", "b", ".", "*", "(", ")", " ", "-", "\t", "é"}))
		}
		return sb.String()
	default:
		return r.Ident(5)
	}
}

func genRegex(r *h.Rng) string {
	return h.Pick(r, []string{"a.*", "^x", "(?i)abc", "abc", "a\\.b", "[0-9]+", "x|y", "(?i)Hello", "foo bar", "a'b", "\\d+", "%", "_", "a\\\\b"})
}

func q(s string) string {
	b, _ := json.Marshal(s)
	return string(b)
}

func genLabelCond(r *h.Rng, depth int) string {
	if depth > 0 && r.Chance(35) {
		op := h.Pick(r, []string{"and", "or"})
		l := genLabelCond(r, depth-1)
		if r.Chance(40) {
			l = "(" + genLabelCond(r, depth-1) + ")"
		}
		return l + " " + op + " " + genLabelCond(r, depth-1)
	}
	lbl := h.Pick(r, lblNames)
	if r.Chance(40) {
		op := h.Pick(r, []string{"==", ">", ">=", "<", "<=", "!="})
		num := fmt.Sprint(r.Intn(1000))
		if r.Chance(40) {
			num += "." + fmt.Sprint(r.Intn(1000))
		}
		return lbl + " " + op + " " + num
	}
	op := h.Pick(r, []string{"=", "!=", "=~", "!~"})
	v := genStr(r)
	if op == "=~" || op == "!~" {
		v = genRegex(r)
	}
	return lbl + " " + op + " " + q(v)
}

// genLogQuery: stream selector, then line filters and (pre-parser) label filters in random order
func genLogQuery(r *h.Rng, maxMatchers, maxStages int) string {
	var sb strings.Builder
	sb.WriteString("{")
	n := r.Range(1, maxMatchers)
	for i := 0; i < n; i++ {
		if i > 0 {
			sb.WriteString(", ")
		}
		op := h.Pick(r, []string{"=", "=", "!=", "=~", "!~"})
		v := genStr(r)
		if op == "=~" || op == "!~" {
			v = genRegex(r)
		}
		sb.WriteString(h.Pick(r, lblNames) + op + q(v))
	}
	sb.WriteString("}")
	m := r.Intn(maxStages + 1)
	for i := 0; i < m; i++ {
		if r.Chance(65) {
			op := h.Pick(r, []string{"|=", "!=", "|~", "!~"})
			v := genStr(r)
			if op == "|~" || op == "!~" {
				v = genRegex(r)
			}
			sb.WriteString(" " + op + " " + q(v))
		} else {
			sb.WriteString(" | " + genLabelCond(r, 2))
		}
	}
	return sb.String()
}

// ---- serialisation of the REAL parsed AST for the model's line protocol

func hx(s string) string { return h.Hex([]byte(s)) }

var matchOps = map[string]string{"=": "eq", "!=": "neq", "=~": "re", "!~": "nre"}
var lineOps = map[string]string{"|=": "contains", "!=": "notContains", "|~": "re", "!~": "nre"}
var cmpOps = map[string]string{"==": "eq", "!=": "neq", ">": "gt", ">=": "ge", "<": "lt", "<=": "le"}

// re2Like: the environment function of the model = what LineFilterPlanner.re2Like computes
func re2Like(val string) (string, bool, bool) {
	exp, err := syntax.Parse(val, syntax.PerlX)
	if err != nil {
		return "", false, false
	}
	if exp.Op != syntax.OpLiteral || exp.Flags&^(syntax.PerlX|syntax.FoldCase) != 0 {
		return "", false, false
	}
	return string(exp.Rune), exp.Flags&syntax.FoldCase != 0, true
}

func serLabelFilter(lf *logql_parser.LabelFilter) (string, error) {
	var head string
	var err error
	if lf.Head.ComplexHead != nil {
		head, err = serLabelFilter(lf.Head.ComplexHead)
	} else {
		s := lf.Head.SimpleHead
		numeric := s.Fn == "==" || s.Fn == ">" || s.Fn == ">=" || s.Fn == "<" || s.Fn == "<=" || (s.Fn == "!=" && s.StrVal == nil)
		if numeric {
			if s.NumVal == "" {
				return "", fmt.Errorf("numeric op with string")
			}
			ip, fp, _ := strings.Cut(s.NumVal, ".")
			if fp == "" {
				fp = "-"
			}
			if len(fp) > 6 || len(ip) > 9 {
				return "", fmt.Errorf("number outside the exactly-rendered range")
			}
			head = "N," + hx(s.Label.Name) + "," + cmpOps[s.Fn] + "," + ip + "," + fp
		} else {
			if s.StrVal == nil {
				return "", fmt.Errorf("string op with number")
			}
			v, e := s.StrVal.Unquote()
			if e != nil {
				return "", e
			}
			head = "S," + hx(s.Label.Name) + "," + matchOps[s.Fn] + "," + hx(v)
		}
	}
	if err != nil {
		return "", err
	}
	if lf.Tail == nil {
		return head, nil
	}
	tail, err := serLabelFilter(lf.Tail)
	if err != nil {
		return "", err
	}
	switch lf.Op {
	case "and":
		return "A," + head + "," + tail, nil
	case "or":
		return "O," + head + "," + tail, nil
	}
	return "", fmt.Errorf("bad op")
}

// serLogQuery returns "<matchers> <stages>" or an error when the script is outside the modelled fragment
func serLogQuery(s *logql_parser.LogQLScript) (string, error) {
	if s.StrSelector == nil {
		return "", fmt.Errorf("not a log query")
	}
	var ms, st []string
	for _, c := range s.StrSelector.StrSelCmds {
		v, err := c.Val.Unquote()
		if err != nil {
			return "", err
		}
		ms = append(ms, hx(c.Label.Name)+":"+matchOps[c.Op]+":"+hx(v))
	}
	for _, p := range s.StrSelector.Pipelines {
		switch {
		case p.LineFilter != nil:
			v, err := p.LineFilter.Val.Unquote()
			if err != nil {
				return "", err
			}
			lk, ins := "~", "0"
			if p.LineFilter.Fn == "|~" || p.LineFilter.Fn == "!~" {
				if lit, insens, ok := re2Like(v); ok {
					lk = hx(lit)
					if insens {
						ins = "1"
					}
				}
			}
			st = append(st, "L:"+lineOps[p.LineFilter.Fn]+":"+hx(v)+":"+lk+":"+ins)
		case p.LabelFilter != nil:
			e, err := serLabelFilter(p.LabelFilter)
			if err != nil {
				return "", err
			}
			st = append(st, "F:"+e)
		default:
			return "", fmt.Errorf("stage outside the fragment")
		}
	}
	if len(ms) == 0 {
		return "", fmt.Errorf("no matchers")
	}
	stages := "-"
	if len(st) > 0 {
		stages = strings.Join(st, ";")
	}
	return strings.Join(ms, ";") + " " + stages, nil
}

// ---- planner contexts
type qctx struct {
	From, To int64
	Limit    int64
	Asc      bool
	Type     uint8
	Cluster  bool
}

func genCtx(r *h.Rng) qctx {
	base := int64(1700000000) + int64(r.Intn(400))*86400 + int64(r.Intn(86400))
	from := base*1e9 + int64(r.Intn(3))*int64(r.Intn(1e9))
	span := []int64{1, 1e9, 60e9, 3600e9, 86400e9 * 3}[r.Intn(5)]
	c := qctx{From: from, To: from + span, Limit: []int64{0, 1, 100, 5000}[r.Intn(4)], Asc: r.Bool(), Type: uint8(r.Intn(3)), Cluster: r.Chance(25)}
	if r.Chance(10) {
		// around midnight UTC: the date lower bound is (from − 30 min)
		c.From = (base - base%86400 + int64(h.Pick(r, []int{0, 1799, 1800, 1801, 86399}))) * 1e9
		c.To = c.From + span
	}
	return c
}

func (c qctx) planner() *shared.PlannerContext {
	ctx := &shared.PlannerContext{
		From: time.Unix(0, c.From), To: time.Unix(0, c.To), Limit: c.Limit, OrderASC: c.Asc, Type: c.Type, IsCluster: c.Cluster,
		TimeSeriesGinTableName: "time_series_gin", SamplesTableName: "samples_v3", TimeSeriesTableName: "time_series",
		TimeSeriesDistTableName: "time_series", Metrics15sTableName: "metrics_15s", Step: 5 * time.Second,
		CHSqlCtx: sql.DefaultCtx(), CHFinalize: true,
	}
	if c.Cluster {
		ctx.SamplesTableName, ctx.TimeSeriesDistTableName, ctx.TimeSeriesGinTableName = "`db`.samples_v3_dist", "`db`.time_series_dist", "`db`.time_series_gin"
		ctx.TimeSeriesTableName = "`db`.time_series"
	}
	return ctx
}

func b2i(b bool) int {
	if b {
		return 1
	}
	return 0
}

func (c qctx) ser() string {
	p := c.planner()
	return fmt.Sprintf("%d %d %d %d %d %d %s %s %s %s", c.From, c.To, c.Limit, b2i(c.Asc), c.Type, b2i(c.Cluster),
		hx(p.TimeSeriesGinTableName), hx(p.SamplesTableName), hx(p.TimeSeriesTableName), hx(p.TimeSeriesDistTableName))
}
