// empty: lets package main declare the go:linkname function of c04_pipe.go without a body
