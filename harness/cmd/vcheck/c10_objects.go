package main

// C10 — streams added with the closed-fragment models of the remaining SQL objects:
//
//   format     the `| line_format` / `| label_format` objects of clickhouse_planner (sqlFormat, sqlMapInit inside sqlMapUpdate),
//              built by the REAL planners (clickhouse_planner.Plan on a script with `| line_format`, the exported
//              LabelFormatPlanner on a parsed `| label_format`), rendered by their own String methods, vs the model text
//              (LogQL.lineFormatText / labelFormatText, proved closed: line_format_closed / label_format_closed);
//              oracle: the real text has the token structure of the same object with harmless text
//   tempo      legacy Tempo: tempo.SQLIndexQuery + tempo.GetTracesQuery (search by `tags=`), TempoService.GetQueryRequest
//              (trace by id), GetValuesRequest (tag values) vs Tempo.searchText / traceSel / tagValuesSel
//              (tempo_search_closed, tempo_trace_closed, tempo_tag_values_closed)
//   shape      two requests of the same shape: a LogQL query and a copy whose string leaves were all replaced, planned by
//              the real logql_transpiler_v2.Plan; the model's relation `sameShapeX` must hold of the two serialised
//              ASTs and the two real statements must have the same token kinds (same_shape_logx on the real code)
//   census     the numbers of the reviewed raw-SQL site table (evidence only; the comparison is the theorem raw_sql_census)

import (
	"context"
	"fmt"
	"os"
	"reflect"
	"regexp"
	"strconv"
	"strings"
	"text/template"
	"text/template/parse"

	"github.com/metrico/qryn/reader/logql/logql_parser"
	lt "github.com/metrico/qryn/reader/logql/logql_transpiler_v2"
	"github.com/metrico/qryn/reader/logql/logql_transpiler_v2/clickhouse_planner"
	"github.com/metrico/qryn/reader/logql/logql_transpiler_v2/shared"
	rmodel "github.com/metrico/qryn/reader/model"
	"github.com/metrico/qryn/reader/service"
	"github.com/metrico/qryn/reader/tempo"
	"github.com/metrico/qryn/reader/utils/dbVersion"
	sql "github.com/metrico/qryn/reader/utils/sql_select"
	"github.com/metrico/qryn/reader/utils/tables"
	clconfig "github.com/metrico/cloki-config/config"

	"verif/harness/h"
)

// ---------------------------------------------------------------------------------------------------- hostile text

func c10Hostile(rng *h.Rng, valid bool) string {
	var b strings.Builder
	for i, n := 0, rng.Range(0, 5); i < n; i++ {
		switch {
		case rng.Chance(65):
			b.WriteString(h.Pick(rng, c10Frags))
		case rng.Chance(50):
			b.WriteString(rng.Ident(3))
		default:
			b.WriteString(h.Pick(rng, []string{"{0}", "{1}", "{", "}", "{{", "0", "9'", "1e9"}))
		}
	}
	s := b.String()
	if valid {
		s = strings.ReplaceAll(strings.ToValidUTF8(s, "é"), "\x00", "")
	}
	return s
}

// ---------------------------------------------------------------------------------------------------- format

// c10TplNodes: the nodes LineFormatPlanner.visitNodes hands to `node`, in order (list → children; action → the arguments of
// every command of its pipe), as the model's node list `T<hex>` / `F<hex>`
func c10TplNodes(tpl string) (string, string, bool) {
	t, err := template.New("x").Parse(tpl)
	if err != nil || t.Root == nil {
		return "", "", false
	}
	var ser, harmless []string
	var visit func(n parse.Node)
	visit = func(n parse.Node) {
		switch n.Type() {
		case parse.NodeText:
			ser = append(ser, "T"+hx(string(n.(*parse.TextNode).Text)))
			harmless = append(harmless, "T"+hx("abc"))
		case parse.NodeField:
			ser = append(ser, "F"+hx(n.(*parse.FieldNode).Ident[0]))
			harmless = append(harmless, "F"+hx("x"))
		case parse.NodeList:
			for _, c := range n.(*parse.ListNode).Nodes {
				visit(c)
			}
		case parse.NodeAction:
			for _, cmd := range n.(*parse.ActionNode).Pipe.Cmds {
				for _, a := range cmd.Args {
					visit(a)
				}
			}
		}
	}
	visit(t.Root)
	if len(ser) == 0 {
		return "~", "~", true
	}
	return strings.Join(ser, ","), strings.Join(harmless, ","), true
}

func c10GenTemplate(rng *h.Rng) string {
	var b strings.Builder
	for i, n := 0, rng.Range(0, 5); i < n; i++ {
		switch rng.Intn(5) {
		case 0, 1:
			b.WriteString(strings.ReplaceAll(c10Hostile(rng, true), "{{", "{ {"))
		case 2:
			b.WriteString("{{." + h.Pick(rng, lblNames) + "}}")
		case 3:
			b.WriteString("{{ ." + h.Pick(rng, lblNames) + "." + rng.Ident(2) + " }}")
		default:
			b.WriteString(h.Pick(rng, []string{"{{\"s'\"}}", "{0}", "'{1}'", "{{.a}}{{.b}}", "\\", "'"}))
		}
	}
	return b.String()
}

type c10StubPlanner struct{}

func (c10StubPlanner) Process(ctx *shared.PlannerContext) (sql.ISelect, error) {
	return sql.NewSelect().Select(sql.NewSimpleCol("samples.string", "string"), sql.NewSimpleCol("labels", "labels")).
		From(sql.NewRawObject("samples")), nil
}

func c10ColExpr(sel sql.ISelect, alias string) sql.SQLObject {
	for _, c := range sel.GetSelect() {
		if a, ok := c.(sql.Aliased); ok && a.GetAlias() == alias {
			return a.GetExpr()
		}
	}
	return nil
}

func c10Format(r *h.Result, rng *h.Rng, n int) error {
	r.Stream("format: the sqlFormat / sqlMapInit objects built by the real LineFormatPlanner (through clickhouse_planner.Plan) and LabelFormatPlanner, rendered by their String methods, vs LogQL.lineFormatText / labelFormatText; oracle: same token kinds as the object with harmless text")
	var ops, impl []string
	var cases []any
	type twin struct{ key, hostile, harmlessOp string }
	var twins []twin
	pctx := func() *shared.PlannerContext { return genCtx(rng).planner() }
	for i := 0; i < n; i++ {
		if i%2 == 0 {
			// ---- line_format through the real planner
			tpl := c10GenTemplate(rng)
			nodes, harmless, ok := c10TplNodes(tpl)
			query := `{a="b"} | line_format ` + q(tpl)
			script, err := logql_parser.Parse(query)
			if err != nil {
				r.Count("format:line:parse-error")
				continue
			}
			var text string
			var perr error
			func() {
				defer func() {
					if e := recover(); e != nil {
						perr = fmt.Errorf("panic: %v", e)
					}
				}()
				p, err := clickhouse_planner.Plan(script, true)
				if err != nil {
					perr = err
					return
				}
				sel, err := p.Process(pctx())
				if err != nil {
					perr = err
					return
				}
				objs := c10FindObjects(sel, "sqlFormat")
				if len(objs) != 1 {
					perr = fmt.Errorf("%d sqlFormat objects in the plan", len(objs))
					return
				}
				text, perr = objs[0].String(sql.DefaultCtx())
			}()
			if perr != nil {
				if ok {
					r.Disagree("format", "c10linefmt "+nodes, "a rendered sqlFormat", "impl error: "+perr.Error(), map[string]string{"query": query})
				} else {
					r.Count("format:line:template-refused")
				}
				continue
			}
			if !ok {
				r.Disagree("format", "template", "template refused by text/template", "the planner rendered "+text, map[string]string{"query": query})
				continue
			}
			ops = append(ops, "c10linefmt "+nodes)
			impl = append(impl, h.Hex([]byte(text)))
			cases = append(cases, map[string]string{"stream": "format", "query": query})
			twins = append(twins, twin{"C10/format/line_format", text, "c10linefmt " + harmless})
			r.Case("format:line:"+tpl, strings.ContainsAny(tpl, "'\\"))
			r.Count("format:line_format")
			if i%61 == 0 {
				r.Sample(map[string]string{"stream": "format", "query": query, "sql": text})
			}
			continue
		}
		// ---- label_format: the exported planner type on a parsed stage
		var parts, ser, harm []string
		for k, m := 0, rng.Range(1, 3); k < m; k++ {
			name := h.Pick(rng, lblNames)
			if rng.Bool() {
				src := h.Pick(rng, lblNames)
				parts = append(parts, name+"="+src)
				ser = append(ser, "R:"+hx(name)+":"+hx(src))
				harm = append(harm, "R:"+hx("x")+":"+hx("y"))
			} else {
				tpl := c10GenTemplate(rng)
				nodes, harmless, ok := c10TplNodes(tpl)
				if !ok {
					tpl, nodes, harmless = "x", "T"+hx("x"), "T"+hx("abc")
				}
				parts = append(parts, name+"="+q(tpl))
				ser = append(ser, "T:"+hx(name)+":"+nodes)
				harm = append(harm, "T:"+hx("x")+":"+harmless)
			}
		}
		query := `{a="b"} | label_format ` + strings.Join(parts, ", ")
		script, err := logql_parser.Parse(query)
		if err != nil || script.StrSelector == nil || len(script.StrSelector.Pipelines) != 1 || script.StrSelector.Pipelines[0].LabelFormat == nil {
			r.Count("format:label:parse-error")
			continue
		}
		var text string
		var perr error
		func() {
			defer func() {
				if e := recover(); e != nil {
					perr = fmt.Errorf("panic: %v", e)
				}
			}()
			pl := &clickhouse_planner.LabelFormatPlanner{Main: c10StubPlanner{}, Expr: script.StrSelector.Pipelines[0].LabelFormat}
			sel, err := pl.Process(pctx())
			if err != nil {
				perr = err
				return
			}
			e := c10ColExpr(sel, "labels")
			if e == nil {
				perr = fmt.Errorf("no labels column")
				return
			}
			text, perr = e.String(sql.DefaultCtx())
		}()
		if perr != nil {
			r.Disagree("format", "c10labelfmt", "a rendered label_format object", "impl error: "+perr.Error(), map[string]string{"query": query})
			continue
		}
		ops = append(ops, "c10labelfmt "+hx("labels")+" "+strings.Join(ser, ";"))
		impl = append(impl, h.Hex([]byte(text)))
		cases = append(cases, map[string]string{"stream": "format", "query": query})
		twins = append(twins, twin{"C10/format/label_format", text, "c10labelfmt " + hx("labels") + " " + strings.Join(harm, ";")})
		r.Case("format:label:"+query, strings.ContainsAny(query, "'\\"))
		r.Count("format:label_format")
		if i%61 == 1 {
			r.Sample(map[string]string{"stream": "format", "query": query, "sql": text})
		}
	}
	if err := r.Compare("format", ops, impl, cases); err != nil {
		return err
	}
	// oracle on the REAL text: no error token, token kinds = those of the harmless twin (model text of the same structure)
	var q1 []string
	for _, t := range twins {
		q1 = append(q1, t.harmlessOp)
	}
	harmlessTexts, err := h.Model(q1)
	if err != nil {
		return err
	}
	var q2 []string
	for i, t := range twins {
		q2 = append(q2, "kinds "+h.Hex([]byte(t.hostile)), "kinds "+harmlessTexts[i], "lex "+h.Hex([]byte(t.hostile)))
	}
	ans, err := h.Model(q2)
	if err != nil {
		return err
	}
	for i, t := range twins {
		kh, kb, lx := ans[3*i], ans[3*i+1], ans[3*i+2]
		if strings.Contains(" "+lx+" ", " E ") {
			r.Violate(t.key, "the rendered object does not lex (error token)", map[string]any{"stream": "format", "case": cases[i], "sql": t.hostile, "tokens": lx})
			continue
		}
		if kh != kb {
			r.Violate(t.key, "the token-kind sequence of the rendered object differs from the one with harmless text in the same places",
				map[string]any{"stream": "format", "case": cases[i], "sql": t.hostile, "tokens": lx, "harmless_kinds": kb})
		}
	}
	return nil
}

// ---------------------------------------------------------------------------------------------------- tempo

type c10Tag struct{ name, op, val string }

var c10TagOps = map[string]string{"=": "eq", "!=": "neq", "=~": "re", "!~": "nre"}

var c10TagLitRe = regexp.MustCompile(`^[^ !=~"\s]+$`)

// c10TagText: a name or value in the syntax of reader/tempo/tags.go — a literal when its bytes allow it (sometimes quoted
// anyway), else a quoted string in Go syntax (what LiteralOrQString.Parse undoes with strconv.Unquote)
func c10TagText(rng *h.Rng, s string) string {
	if s != "" && c10TagLitRe.MatchString(s) && rng.Chance(60) {
		return s
	}
	return strconv.Quote(s)
}

func c10TempoModel(r *h.Result, rng *h.Rng, n int) error {
	r.Stream("tempo: tempo.SQLIndexQuery / tempo.GetTracesQuery (search by tags=), TempoService.GetQueryRequest (trace by id), GetValuesRequest (tag values) rendered by the real code vs Tempo.searchText / traceSel / tagValuesSel (byte-equal)")
	var ops, impl []string
	var cases []any
	svc := &service.TempoService{}
	for i := 0; i < n; i++ {
		switch i % 4 {
		case 0, 1, 2:
			var tags []c10Tag
			for k, m := 0, rng.Intn(4); k < m; k++ {
				t := c10Tag{name: h.Pick(rng, []string{"service.name", "http.status", "a", "x'y", c10Hostile(rng, true)}), op: h.Pick(rng, []string{"=", "!=", "=~", "!~"}), val: c10Hostile(rng, true)}
				if t.name == "" {
					t.name = "n"
				}
				tags = append(tags, t)
			}
			var parts, ser []string
			for _, t := range tags {
				parts = append(parts, c10TagText(rng, t.name)+t.op+c10TagText(rng, t.val))
				ser = append(ser, c10HexDot(t.name)+":"+c10TagOps[t.op]+":"+c10HexDot(t.val))
			}
			tagStr := strings.Join(parts, " ")
			from := int64(h.Pick(rng, []int{0, 1, 1700000000, 1700086399})) * 1e9
			to := int64(0)
			if rng.Chance(70) {
				to = from + int64(rng.Range(1, 100000))*1e9
			}
			minD := int64(h.Pick(rng, []int{0, 0, 1000000, 2500000}))
			maxD := int64(h.Pick(rng, []int{0, 0, 5000000000}))
			limit := h.Pick(rng, []int{0, 1, 20})
			ver := dbVersion.VersionInfo{}
			v2 := false
			if rng.Chance(60) {
				since := int64(h.Pick(rng, []int{0, 1700000000, 1800000000}))
				ver["tempo_v2"] = since
				v2 = from >= since*1e9
			}
			dist := rng.Chance(30)
			db := h.Pick(rng, []string{"qryn", "cloki", "d_1"})
			var idx *tempo.SQLIndexQuery
			if len(tags) > 0 {
				idx = &tempo.SQLIndexQuery{Tags: tagStr, Ctx: context.Background(), FromNS: from, ToNS: to, MinDurationNS: minD, MaxDurationNS: maxD,
					Distributed: false, Database: db, Ver: ver, Limit: int64(limit)}
			}
			var text string
			var perr error
			func() {
				defer func() {
					if e := recover(); e != nil {
						perr = fmt.Errorf("panic: %v", e)
					}
				}()
				req, err := tempo.GetTracesQuery(context.Background(), idx, limit, from, to, dist, minD, maxD)
				if err != nil {
					perr = err
					return
				}
				text, perr = req.String(&sql.Ctx{})
			}()
			c := map[string]any{"stream": "tempo", "tags": tagStr, "from": from, "to": to, "min": minD, "max": maxD, "limit": limit, "v2": v2}
			if perr != nil {
				r.Count("tempo:search:impl-error")
				r.Disagree("tempo", "c10tempo", "a rendered statement", "impl error: "+perr.Error(), c)
				continue
			}
			tt := tables.GetTableName("tempo_traces")
			if dist {
				tt = tables.GetTableName("tempo_traces_dist")
			}
			ops = append(ops, fmt.Sprintf("c10tempo %d %d %d %d %d %d %s %s %s", from, to, minD, maxD, limit, b2i(v2),
				hx("`"+db+"`.tempo_traces_attrs_gin"), hx(tt), joinOrDash(ser, ";")))
			impl = append(impl, h.Hex([]byte(text)))
			cases = append(cases, c)
			r.Case(fmt.Sprintf("tempo:search:%s:%d:%d:%d:%d:%d:%v", tagStr, from, to, minD, maxD, limit, v2), strings.ContainsAny(tagStr, "'\\"))
			r.Count(fmt.Sprintf("tempo:search:%d-tags", len(tags)))
			if i%53 == 0 {
				r.Sample(map[string]any{"stream": "tempo", "tags": tagStr, "sql": text})
			}
		default:
			conn := &rmodel.DataDatabasesMap{Config: &clconfig.ClokiBaseDataBase{}}
			if rng.Chance(30) {
				conn.Config.ClusterName = "c1"
			}
			id := c10Hostile(rng, false)
			s, e := int64(h.Pick(rng, []int{0, 5, 1700000000})), int64(h.Pick(rng, []int{0, 9, 1700003600}))
			var text string
			var perr error
			func() {
				defer func() {
					if ex := recover(); ex != nil {
						perr = fmt.Errorf("panic: %v", ex)
					}
				}()
				text, perr = svc.GetQueryRequest(context.Background(), s, e, []byte(id), conn).String(&sql.Ctx{})
			}()
			tt := tables.GetTableName("tempo_traces")
			kv := tables.GetTableName("tempo_traces_kv")
			if conn.Config.ClusterName != "" {
				tt, kv = tables.GetTableName("tempo_traces_dist"), tables.GetTableName("tempo_traces_kv_dist")
			}
			if perr == nil {
				ops = append(ops, fmt.Sprintf("c10tempotrace %s %s %d %d", hx(tt), c10HexDot(id), s, e))
				impl = append(impl, h.Hex([]byte(text)))
				cases = append(cases, map[string]any{"stream": "tempo", "trace_id_hex": h.Hex([]byte(id)), "start": s, "end": e})
				r.Case("tempo:trace:"+h.Hex([]byte(id))+fmt.Sprint(s, e), true)
				r.Count("tempo:trace-by-id")
			} else {
				r.Disagree("tempo", "c10tempotrace", "a rendered statement", "impl error: "+perr.Error(), map[string]string{"id_hex": h.Hex([]byte(id))})
			}
			tag := c10Hostile(rng, false)
			func() {
				defer func() {
					if ex := recover(); ex != nil {
						perr = fmt.Errorf("panic: %v", ex)
					}
				}()
				text, perr = svc.GetValuesRequest(context.Background(), tag, conn).String(&sql.Ctx{})
			}()
			if perr == nil {
				ops = append(ops, fmt.Sprintf("c10tempovalues %s %s", hx(kv), c10HexDot(tag)))
				impl = append(impl, h.Hex([]byte(text)))
				cases = append(cases, map[string]any{"stream": "tempo", "tag_hex": h.Hex([]byte(tag))})
				r.Case("tempo:values:"+h.Hex([]byte(tag)), true)
				r.Count("tempo:tag-values")
			} else {
				r.Disagree("tempo", "c10tempovalues", "a rendered statement", "impl error: "+perr.Error(), map[string]string{"tag_hex": h.Hex([]byte(tag))})
			}
		}
	}
	return r.Compare("tempo", ops, impl, cases)
}

func c10HexDot(s string) string {
	if s == "" {
		return "."
	}
	return hx(s)
}

// ---------------------------------------------------------------------------------------------------- shape

var c10GroupNameRe = regexp.MustCompile(`\(\?P<[a-zA-Z_][0-9a-zA-Z_]*>`)

// c10Reshape replaces EVERY string leaf of a parsed log query by other text, keeping what the relation sameShapeX keeps:
// operators, stage kinds, label-filter names and numbers, the index parts of json paths, literal-ness (and fold-case) of
// `|~` / `!~` patterns, the group structure of a `| regexp` pattern, whether a drop entry has a value.
func c10Reshape(s *logql_parser.LogQLScript, rng *h.Rng) {
	str := func() string { return c10Hostile(rng, true) }
	setQ := func(qs *logql_parser.QuotedString, v string) { qs.Str = q(v) }
	ident := func() string { return h.Pick(rng, []string{"k", "lbl_2", "_q", "Zz", "n0"}) + rng.Ident(2) }
	for i := range s.StrSelector.StrSelCmds {
		c := &s.StrSelector.StrSelCmds[i]
		c.Label.Name = ident()
		setQ(&c.Val, str())
	}
	var labelFilter func(lf *logql_parser.LabelFilter)
	labelFilter = func(lf *logql_parser.LabelFilter) {
		if lf == nil {
			return
		}
		if lf.Head.ComplexHead != nil {
			labelFilter(lf.Head.ComplexHead)
		} else if lf.Head.SimpleHead != nil && lf.Head.SimpleHead.StrVal != nil {
			setQ(lf.Head.SimpleHead.StrVal, str())
		}
		labelFilter(lf.Tail)
	}
	for i := range s.StrSelector.Pipelines {
		p := &s.StrSelector.Pipelines[i]
		switch {
		case p.LineFilter != nil:
			old, err := p.LineFilter.Val.Unquote()
			if err != nil {
				continue
			}
			if old == "" {
				continue // an empty needle stays empty: it decides the metrics_15s shortcut of a metric query
			}
			if p.LineFilter.Fn == "|=" || p.LineFilter.Fn == "!=" {
				v := str()
				if v == "" {
					v = "'"
				}
				setQ(&p.LineFilter.Val, v)
				continue
			}
			_, ins, isLike := re2Like(old)
			cand := ""
			if isLike {
				cand = regexp.QuoteMeta(str())
				if cand == "" {
					cand = "x"
				}
				if ins {
					cand = "(?i)" + cand
				}
			} else {
				cand = regexp.QuoteMeta(str()) + "[0-9]+.*"
			}
			if _, ins2, like2 := re2Like(cand); like2 == isLike && ins2 == ins {
				setQ(&p.LineFilter.Val, cand)
			}
		case p.LabelFilter != nil:
			labelFilter(p.LabelFilter)
		case p.Parser != nil && p.Parser.Fn == "json" && len(p.Parser.ParserParams) > 0:
			for j := range p.Parser.ParserParams {
				pp := &p.Parser.ParserParams[j]
				if pp.Label != nil {
					pp.Label.Name = ident()
				}
				old, err := pp.Val.Unquote()
				if err != nil {
					continue
				}
				parts, err := shared.JsonPathParamToTypedArray(old)
				if err != nil {
					continue
				}
				var sb strings.Builder
				for _, part := range parts {
					switch v := part.(type) {
					case int:
						sb.WriteString("[" + strconv.Itoa(v) + "]")
					default:
						sb.WriteString("[" + q(str()) + "]")
					}
				}
				if np, err := shared.JsonPathParamToTypedArray(sb.String()); err == nil && len(np) == len(parts) {
					setQ(&pp.Val, sb.String())
				}
			}
		case p.Parser != nil && p.Parser.Fn == "regexp" && len(p.Parser.ParserParams) > 0:
			pp := &p.Parser.ParserParams[0]
			old, err := pp.Val.Unquote()
			if err != nil {
				continue
			}
			names0, _, ok0 := c07xParseRe(old)
			cand := c10GroupNameRe.ReplaceAllStringFunc(old, func(string) string { return "(?P<" + ident() + ">" })
			tail := strings.NewReplacer("(", "", ")", "", "\\", "").Replace(str())
			cand += tail
			if names1, _, ok1 := c07xParseRe(cand); ok0 && ok1 && len(names0) == len(names1) {
				setQ(&pp.Val, cand)
			}
		case p.Unwrap != nil:
			if p.Unwrap.Label.Name != "_entry" && p.Unwrap.Label.Name != "" {
				p.Unwrap.Label.Name = ident()
			}
		case p.Drop != nil:
			for j := range p.Drop.Params {
				dp := &p.Drop.Params[j]
				dp.Label.Name = ident()
				if dp.Val != nil {
					if old, err := dp.Val.Unquote(); err == nil && old != "" {
						v := str()
						if v == "" {
							v = "'"
						}
						setQ(dp.Val, v)
					}
				}
			}
		}
	}
}

// c10PlanScript: logql_transpiler_v2.Plan on a parsed script → the ClickHouse request of the chain → text
func c10PlanScript(script *logql_parser.LogQLScript, c qctx) (string, error) {
	var text string
	var perr error
	func() {
		defer func() {
			if e := recover(); e != nil {
				perr = fmt.Errorf("panic: %v", e)
			}
		}()
		chain, err := lt.Plan(script)
		if err != nil {
			perr = err
			return
		}
		if len(chain) != 1 {
			perr = fmt.Errorf("chain of %d", len(chain))
			return
		}
		g := c07xFindGetter(chain[0])
		if g == nil {
			perr = fmt.Errorf("no ClickHouse getter in the chain")
			return
		}
		sel, err := g.ClickhouseRequestPlanner.Process(c.planner())
		if err != nil {
			perr = err
			return
		}
		text, perr = sel.String(sql.DefaultCtx())
	}()
	return text, perr
}

func c10Shape(r *h.Result, rng *h.Rng, n int) error {
	r.Stream("shape: a LogQL log query and a copy with EVERY string leaf replaced (real AST rewritten in place), both planned by the real logql_transpiler_v2.Plan; model: sameShapeX of the two serialised ASTs (must hold); oracle: equal token kinds of the two real statements")
	type pair struct {
		q1, q2 string
		t1, t2 string
		ctx    qctx
	}
	var pairs []pair
	var ops []string
	for i := 0; i < n; i++ {
		query := c07xGenQuery(rng, 5)
		mk := func() *logql_parser.LogQLScript {
			s, err := logql_parser.Parse(query)
			if err != nil || s.StrSelector == nil {
				return nil
			}
			return s
		}
		a := mk()
		if a == nil {
			r.Count("shape:parse-error")
			continue
		}
		serA, err := c07xSer(a)
		if err != nil {
			r.Count("shape:outside-fragment")
			continue
		}
		seed := rng.Fork()
		mut := func() *logql_parser.LogQLScript {
			s := mk()
			f := *seed
			c10Reshape(s, &f)
			return s
		}
		b := mut()
		serB, err := c07xSer(b)
		if err != nil {
			r.Count("shape:mutant-outside-fragment")
			if os.Getenv("C10_DUMP") == "shape" {
				fmt.Fprintln(c10Stderr, "MUTANT", err, "|", query, "|", b.StrSelector.String())
			}
			continue
		}
		c := genCtx(rng)
		t1, err1 := c10PlanScript(mk(), c)
		t2, err2 := c10PlanScript(mut(), c)
		if err1 != nil || err2 != nil {
			r.Count("shape:impl-error")
			if (err1 == nil) != (err2 == nil) {
				r.Count("shape:impl-error-one-side")
			}
			continue
		}
		ops = append(ops, "c10sameshape "+serA+" "+serB)
		pairs = append(pairs, pair{query, strings.TrimSpace(b.StrSelector.String()), t1, t2, c})
		r.Case("shape:"+query+"|"+serB, true)
		c07xStageKinds(r, "shape", a)
		if i%71 == 0 {
			r.Sample(map[string]any{"stream": "shape", "query": query, "same_shape_as": serB, "sql": t1, "sql_other": t2})
		}
	}
	ans, err := h.Model(ops)
	if err != nil {
		return err
	}
	var kops []string
	for _, p := range pairs {
		kops = append(kops, "kinds "+h.Hex([]byte(p.t1)), "kinds "+h.Hex([]byte(p.t2)))
	}
	kinds, err := h.Model(kops)
	if err != nil {
		return err
	}
	for i, p := range pairs {
		c := map[string]any{"stream": "shape", "query": p.q1, "other": p.q2, "ctx": p.ctx}
		if ans[i] != "1" {
			r.Disagree("shape", ops[i], "1 (the harness replaced string leaves only)", ans[i], c)
			r.Count("shape:relation-refused")
			continue
		}
		r.Count("shape:same-shape")
		if kinds[2*i] != kinds[2*i+1] {
			c["sql"], c["sql_other"] = p.t1, p.t2
			r.Violate("C10/shape/logql", "two queries that differ only in string leaves are planned to statements with different token structure", c)
		}
	}
	return nil
}

// c10ShapeMetric: the same for metric queries (C08's generator): selector leaves, by/without label names and the unwrap label
// are replaced; both queries planned by the real clickhouse_planner.Plan
func c10ShapeMetric(r *h.Result, rng *h.Rng, n int) error {
	r.Stream("shape-metric: a LogQL metric query and a copy with every string leaf replaced (selector leaves, by/without label names, unwrap label), both planned by the real clickhouse_planner.Plan; model: sameShapeM of the two serialised ASTs (must hold); oracle: equal token kinds of the two real statements")
	type pair struct {
		q1, q2, t1, t2 string
		ctx    mctx
	}
	var pairs []pair
	var ops []string
	g := mgen{extraFns: true, ms: true}
	for i := 0; i < n; i++ {
		query := genMetricQuery(rng, g)
		mk := func() *logql_parser.LogQLScript {
			s, err := logql_parser.Parse(query)
			if err != nil {
				return nil
			}
			return s
		}
		a := mk()
		if a == nil {
			r.Count("shape-metric:parse-error")
			continue
		}
		serA, err := serMetric(a)
		if err != nil {
			r.Count("shape-metric:outside-fragment")
			continue
		}
		seed := rng.Fork()
		mut := func() *logql_parser.LogQLScript {
			s := mk()
			f := *seed
			ra := rangeOf(s)
			c10Reshape(&logql_parser.LogQLScript{StrSelector: &ra.StrSel}, &f)
			ident := func() string { return h.Pick(&f, []string{"g", "by_1", "_w", "Lbl"}) + f.Ident(2) }
			for _, bw := range []*logql_parser.ByOrWithout{ra.ByOrWithoutPrefix, ra.ByOrWithoutSuffix} {
				if bw != nil {
					for j := range bw.Labels {
						bw.Labels[j].Name = ident()
					}
				}
			}
			ag := s.AggOperator
			if s.TopK != nil && s.TopK.AggOperator != nil {
				ag = s.TopK.AggOperator
			}
			if ag != nil {
				for _, bw := range []*logql_parser.ByOrWithout{ag.ByOrWithoutPrefix, ag.ByOrWithoutSuffix} {
					if bw != nil {
						for j := range bw.Labels {
							bw.Labels[j].Name = ident()
						}
					}
				}
			}
			return s
		}
		b := mut()
		serB, err := serMetric(b)
		if err != nil {
			r.Count("shape-metric:mutant-outside-fragment")
			if os.Getenv("C10_DUMP") == "shape" {
				fmt.Fprintln(c10Stderr, "MUTANT-M", err, "|", query)
			}
			continue
		}
		c := genMCtx(rng, scriptDuration(a))
		t1, err1 := implMetricSQL(mk(), c)
		t2, err2 := implMetricSQL(mut(), c)
		if err1 != nil || err2 != nil {
			r.Count("shape-metric:impl-error")
			continue
		}
		ops = append(ops, "c10sameshapem "+serA+" | "+serB)
		pairs = append(pairs, pair{query, serB, t1, t2, c})
		r.Case("shape-metric:"+query+"|"+serB, true)
		r.Count("shape-metric:" + metricShape(a))
		if clickhouse_planner.AnalyzeMetrics15sShortcut(a) {
			r.Count("shape-metric:metrics_15s-shortcut")
		}
		if i%71 == 0 {
			r.Sample(map[string]any{"stream": "shape-metric", "query": query, "same_shape_as": serB, "sql": t1, "sql_other": t2})
		}
	}
	ans, err := h.Model(ops)
	if err != nil {
		return err
	}
	var kops []string
	for _, p := range pairs {
		kops = append(kops, "kinds "+h.Hex([]byte(p.t1)), "kinds "+h.Hex([]byte(p.t2)))
	}
	kinds, err := h.Model(kops)
	if err != nil {
		return err
	}
	for i, p := range pairs {
		c := map[string]any{"stream": "shape-metric", "query": p.q1, "other": p.q2, "ctx": p.ctx}
		if ans[i] != "1" {
			r.Disagree("shape-metric", ops[i], "1 (the harness replaced string leaves only)", ans[i], c)
			r.Count("shape-metric:relation-refused")
			continue
		}
		r.Count("shape-metric:same-shape")
		if kinds[2*i] != kinds[2*i+1] {
			c["sql"], c["sql_other"] = p.t1, p.t2
			r.Violate("C10/shape/logql-metric", "two metric queries that differ only in string leaves are planned to statements with different token structure", c)
		}
	}
	return nil
}

func c10Census(r *h.Result) error {
	r.Stream("census: numbers of the reviewed raw-SQL site table (Gen.RawSqlSites vs Read/RawSqlTable: theorem raw_sql_census)")
	ans, err := h.Model([]string{"c10census"})
	if err != nil {
		return err
	}
	for _, f := range strings.Fields(ans[0]) {
		if kv := strings.SplitN(f, "=", 2); len(kv) == 2 {
			if n, err := strconv.Atoi(kv[1]); err == nil {
				for j := 0; j < 1; j++ {
					r.Count("census:" + kv[0] + "=" + strconv.Itoa(n))
				}
			}
		}
	}
	return nil
}

var _ = reflect.TypeOf
