package main

// C12 — no query can crash, hang or leak work on the read side.
// Parent side: generates cases, drives child processes (vcheck C12-child), judges liveness + census, and runs the
// model/implementation correspondence streams for the bookkeeping the Lean theorems are about (c12stage.go).

import (
	"bufio"
	"encoding/json"
	"fmt"
	"io"
	"os"
	"os/exec"
	"regexp"
	"strings"
	"sync"
	"time"

	"verif/harness/h"
)

func init() { props["C12"] = c12 }

// ---- child process handle
type c12Proc struct {
	cmd    *exec.Cmd
	stdin  io.WriteCloser
	lines  chan string
	stderr *headTail
	tier   string
	slow   int // deadline stretch factor of the child (1 = normal)
}

// headTail keeps the first and the last 24 KiB written (a Go panic report starts with the message and may be
// followed by a long goroutine dump)
type headTail struct {
	mtx        sync.Mutex
	head, tail []byte
}

func (b *headTail) Write(p []byte) (int, error) {
	b.mtx.Lock()
	defer b.mtx.Unlock()
	const lim = 24 << 10
	if len(b.head) < lim {
		k := lim - len(b.head)
		if k > len(p) {
			k = len(p)
		}
		b.head = append(b.head, p[:k]...)
		p2 := p[k:]
		b.tail = append(b.tail, p2...)
	} else {
		b.tail = append(b.tail, p...)
	}
	if len(b.tail) > lim {
		b.tail = b.tail[len(b.tail)-lim:]
	}
	return len(p), nil
}
func (b *headTail) String() string {
	b.mtx.Lock()
	defer b.mtx.Unlock()
	return string(b.head) + string(b.tail)
}

// c12Start starts a child; slow > 1 stretches every deadline of the child by that factor (used to confirm a verdict that
// depends on wall-clock time: on a loaded machine a slow request is not a hung one)
func c12Start(tier string) (*c12Proc, error) { return c12StartSlow(tier, 1) }

func c12StartSlow(tier string, slow int) (*c12Proc, error) {
	pr, pw, err := os.Pipe()
	if err != nil {
		return nil, err
	}
	cmd := exec.Command(os.Args[0], "C12-child", "-tier", tier)
	cmd.ExtraFiles = []*os.File{pw}
	p := &c12Proc{cmd: cmd, stderr: &headTail{}, lines: make(chan string, 16), tier: tier, slow: slow}
	cmd.Stderr = p.stderr
	cmd.Stdout = nil // the code under test prints SQL texts to stdout
	cmd.Env = append(os.Environ(), "GOTRACEBACK=all", fmt.Sprintf("C12_SLOW=%d", slow))
	if p.stdin, err = cmd.StdinPipe(); err != nil {
		return nil, err
	}
	if err := cmd.Start(); err != nil {
		return nil, err
	}
	pw.Close()
	go func() {
		sc := bufio.NewScanner(pr)
		sc.Buffer(make([]byte, 1<<20), 1<<26)
		for sc.Scan() {
			p.lines <- sc.Text()
		}
		close(p.lines)
		pr.Close()
	}()
	return p, nil
}

func (p *c12Proc) stop() {
	p.stdin.Close()
	done := make(chan struct{})
	go func() { p.cmd.Wait(); close(done) }()
	select {
	case <-done:
	case <-time.After(3 * time.Second):
		p.cmd.Process.Kill()
		<-done
	}
}

type c12Crash struct {
	Class  string `json:"class"`
	Panic  string `json:"panic"`
	Frame  string `json:"frame"`
	Exit   string `json:"exit"`
	Stderr string `json:"stderr_head"`
}

var c12PanicLine = regexp.MustCompile(`(?m)^(panic: .*|fatal error: .*)$`)
var c12FrameLine = regexp.MustCompile(`(?m)^github\.com/metrico/qryn/([^\s(]+(?:\([^)]*\))?[^\s(]*)\(`)

func c12ClassOf(msg string) string {
	switch {
	case strings.Contains(msg, "divide by zero"):
		return "div-by-zero"
	case strings.Contains(msg, "index out of range"):
		return "index"
	case strings.Contains(msg, "slice bounds out of range"):
		return "slice-bounds"
	case strings.Contains(msg, "makeslice"):
		return "makeslice"
	case strings.Contains(msg, "nil pointer") || strings.Contains(msg, "nil map"):
		return "nil-deref"
	case strings.Contains(msg, "out of memory"):
		return "oom"
	case strings.Contains(msg, "interface conversion"):
		return "type-assert"
	case strings.Contains(msg, "closed channel"):
		return "closed-channel"
	case msg == "":
		return "killed"
	}
	return "other"
}

// do runs one case; exactly one of the results is non-nil
func (p *c12Proc) do(cs *c12Case) (*c12Outcome, *c12Crash, error) {
	b, err := json.Marshal(cs)
	if err != nil {
		return nil, nil, err
	}
	if _, err := p.stdin.Write(append(b, '\n')); err != nil {
		// the child died earlier (delayed crash of a leaked goroutine): report as crash of this slot
		return nil, p.crashInfo(), nil
	}
	select {
	case l, ok := <-p.lines:
		if !ok {
			return nil, p.crashInfo(), nil
		}
		var o c12Outcome
		if err := json.Unmarshal([]byte(l), &o); err != nil {
			return nil, nil, fmt.Errorf("bad child line %q: %v", l, err)
		}
		if o.Outcome == "hang" || o.Outcome == "memory" {
			p.cmd.Wait() // the child exits by itself after reporting
		}
		return &o, nil, nil
	case <-time.After(time.Duration(max(p.slow, 1)) * 90 * time.Second):
		p.cmd.Process.Kill()
		p.cmd.Wait()
		return &c12Outcome{ID: cs.ID, Outcome: "hang", Dump: fmt.Sprintf("child did not report within %d s (its own deadlines add up to at most %d s); killed", 90*max(p.slow, 1), 64*max(p.slow, 1))}, nil, nil
	}
}

func (p *c12Proc) crashInfo() *c12Crash {
	err := p.cmd.Wait()
	time.Sleep(5 * time.Millisecond)
	se := p.stderr.String()
	c := &c12Crash{Exit: fmt.Sprint(err)}
	if m := c12PanicLine.FindString(se); m != "" {
		c.Panic = m
		rest := se[strings.Index(se, m):]
		if i := strings.Index(rest, "[running]"); i >= 0 {
			rest = rest[i:]
		}
		if f := c12FrameLine.FindStringSubmatch(rest); f != nil {
			c.Frame = f[1]
		}
	}
	c.Class = c12ClassOf(c.Panic)
	if len(se) > 1500 {
		se = se[:1500]
	}
	c.Stderr = se
	return c
}

// ---- case generation
func c12GenCase(r *h.Rng, id int, ep c12EndpointGen, tier string) *c12Case {
	c := &c12Case{ID: id, Endpoint: ep.name, Abort: -1}
	ep.gen(r, c)
	var ac string
	c.Answers, ac = c12Answers(r, tier)
	c.Cluster = r.Chance(15)
	if r.Chance(12) {
		c.Abort = h.Pick(r, []int{0, 1, 10, 60, 200, 1000, 5000})
		ac += " client-abort"
	}
	c.Class += " db=" + ac
	return c
}

type c12Judged struct {
	cs *c12Case
	o  *c12Outcome
	cr *c12Crash
}

// runCases distributes cases over W children; a crashed/hung child is replaced. Returns outcomes by case index.
func c12RunCases(cases []*c12Case, tier string, W int) ([]c12Judged, error) {
	res := make([]c12Judged, len(cases))
	var wg sync.WaitGroup
	// an endpoint that hung/crashed 4 times is not explored further in this run (each hang costs a deadline)
	var bmtx sync.Mutex
	bad := map[string]int{}
	errs := make(chan error, W)
	for w := 0; w < W; w++ {
		wg.Add(1)
		go func(w int) {
			defer wg.Done()
			var p *c12Proc
			defer func() {
				if p != nil {
					p.stop()
				}
			}()
			for i := w; i < len(cases); i += W {
				if p == nil {
					var err error
					if p, err = c12Start(tier); err != nil {
						errs <- err
						return
					}
				}
				bmtx.Lock()
				skip := bad[cases[i].Endpoint] >= 4 && cases[i].Class != "tie"
				bmtx.Unlock()
				if skip {
					res[i] = c12Judged{cs: cases[i]}
					continue
				}
				o, cr, err := p.do(cases[i])
				if err != nil {
					errs <- err
					return
				}
				res[i] = c12Judged{cases[i], o, cr}
				if cr != nil || o.Outcome == "hang" || o.Outcome == "memory" {
					p = nil
					bmtx.Lock()
					bad[cases[i].Endpoint]++
					bmtx.Unlock()
				}
			}
		}(w)
	}
	wg.Wait()
	select {
	case err := <-errs:
		return nil, err
	default:
	}
	return res, nil
}

// c12Confirm re-runs one case alone in a fresh child (attribution of a crash / leak to the request)
func c12Confirm(cs *c12Case, tier string) c12Judged { return c12ConfirmSlow(cs, tier, 1) }

// c12ConfirmSlow: the same with every deadline of the child stretched by `slow`. A verdict that rests on a clock ("no
// answer within the deadline", "goroutines still there after the settle time") is only reported when the request ALONE,
// in a fresh child with 10x the time, shows it again: a hung request stays hung whatever the deadline, a request that was
// merely slow because the machine is busy does not.
func c12ConfirmSlow(cs *c12Case, tier string, slow int) c12Judged {
	p, err := c12StartSlow(tier, slow)
	if err != nil {
		return c12Judged{cs: cs}
	}
	o, cr, _ := p.do(cs)
	if cr == nil && o != nil && (o.Outcome == "hang" || o.Outcome == "memory") {
		return c12Judged{cs, o, nil} // the child has exited by itself after reporting
	}
	if cr == nil {
		// a detached goroutine may fault just after the response: give it a moment, then ask for a no-op
		time.Sleep(50 * time.Millisecond)
		_, cr2, _ := p.do(&c12Case{ID: -1, Endpoint: "tempo/echo", Method: "GET", Path: "/api/echo", Abort: -1})
		if cr2 != nil {
			cr = cr2
		} else {
			p.stop()
		}
	}
	return c12Judged{cs, o, cr}
}

func c12Judge(r *h.Result, j c12Judged, tier string, confirm bool) {
	cs := j.cs
	replay := func(extra map[string]any) map[string]any {
		m := map[string]any{"case": cs, "how": "vcheck C12 -replay <this file>  (runs the request through the real routers in a child process)"}
		for k, v := range extra {
			m[k] = v
		}
		return m
	}
	switch {
	case j.cr != nil:
		cr := j.cr
		if confirm {
			if j2 := c12Confirm(cs, tier); j2.cr != nil {
				cr = j2.cr
			} else if cr.Class == "oom" {
				// memory exhaustion of the child (6 GiB address space) with what earlier requests left on the heap: the request
				// alone stays below the limit. Memory is outside the model (partial): the memory family, like a reproduced one
				r.Count("crash-not-reproduced-alone")
				r.Count("outcome:process-crash")
				r.Violate("C12/memory/"+cs.Endpoint, fmt.Sprintf("%s %s exhausts memory together with what earlier requests of the same child left allocated: %s at %s (address space of the child limited to 6 GiB; alone the request stays below the limit)", cs.Method, c12Short(cs.Path), cr.Panic, cr.Frame),
					replay(map[string]any{"crash": cr}))
				return
			} else {
				r.Count("crash-not-reproduced-alone")
				r.Violate("C12/crash/"+cs.Endpoint+"/"+cr.Class+"/delayed", fmt.Sprintf("child process died (%s at %s) while %s %s was in flight; the request alone does not reproduce it (delayed fault of an earlier request's goroutine)", cr.Panic, cr.Frame, cs.Method, cs.Path),
					replay(map[string]any{"crash": cr}))
				return
			}
		}
		r.Count("outcome:process-crash")
		if cr.Class == "oom" {
			r.Violate("C12/memory/"+cs.Endpoint, fmt.Sprintf("%s %s exhausts memory: %s at %s (address space of the child limited to 6 GiB)", cs.Method, c12Short(cs.Path), cr.Panic, cr.Frame),
				replay(map[string]any{"crash": cr}))
			return
		}
		r.Violate("C12/crash/"+cs.Endpoint+"/"+cr.Class, fmt.Sprintf("%s %s kills the process: %s at %s (%s)", cs.Method, c12Short(cs.Path), cr.Panic, cr.Frame, cr.Exit),
			replay(map[string]any{"crash": cr}))
	case j.o == nil:
		r.Count("outcome:skipped-after-repeated-failures")
	case j.o.Outcome == "hang" && confirm && !c12HangConfirmed(&j, tier):
		r.Count("outcome:deadline-missed-but-answered-alone-with-10x-time")
	case j.o.Outcome == "hang" || j.o.Outcome == "memory":
		r.Count("outcome:" + j.o.Outcome)
		fam := "hang"
		if j.o.Outcome == "memory" {
			fam = "memory" // resource exhaustion: outside the modelled part (partial), reported under its own key
		} else if b := c12AggBuckets(cs); b >= 10000000 && strings.Contains(j.o.Dump, "internal_planner.(*AggregatorPlanner).process") {
			// the request is still inside the in-process aggregator, which allocates and walks window/range buckets per
			// series (tens of millions here): the same call site and input class as the recorded resource-exhaustion
			// finding — whether it shows as an OOM kill or as a missed deadline depends on the machine's load
			fam = "memory"
			r.Count("outcome:aggregator-over-10M-buckets-missed-deadline")
		}
		r.Violate("C12/"+fam+"/"+cs.Endpoint, fmt.Sprintf("%s %s is not answered within the deadline (%s); goroutines: %s", cs.Method, c12Short(cs.Path), j.o.Outcome, j.o.Dump),
			replay(map[string]any{"outcome": j.o}))
	default:
		o := j.o
		r.Count("outcome:" + o.Outcome)
		if o.Slow {
			r.Count("outcome:slow-but-flowing")
		}
		if o.AfterAbortMs > 1000 {
			r.Count("outcome:handler-ran-more-than-1s-after-client-left")
		}
		if o.Status != 0 {
			r.Count(fmt.Sprintf("status:%dxx", o.Status/100))
		}
		if o.Outcome == "flood" {
			r.Violate("C12/hang/"+cs.Endpoint+"/closed-channel-spin", fmt.Sprintf("%s %s: the service side has ended (query refused) but the request never ends: %s", cs.Method, c12Short(cs.Path), o.Dump),
				replay(map[string]any{"outcome": o}))
		}
		if o.HandlerPanic != "" {
			r.Count("outcome:handler-panic")
			r.Violate("C12/crash/"+cs.Endpoint+"/handler-"+c12ClassOf(o.HandlerPanic), fmt.Sprintf("%s %s: the handler panics (%s at %s) and is only caught by net/http: the connection is dropped without an HTTP response", cs.Method, c12Short(cs.Path), o.HandlerPanic, o.Dump),
				replay(map[string]any{"outcome": o}))
		} else if (o.Outcome == "no-response" || o.Outcome == "truncated") && cs.Abort != 0 {
			r.Violate("C12/crash/"+cs.Endpoint+"/no-response", fmt.Sprintf("%s %s: connection closed without a complete HTTP response", cs.Method, c12Short(cs.Path)), replay(map[string]any{"outcome": o}))
		}
		if (len(o.Leaked) > 0 || o.OpenRows > 0) && confirm {
			if j2 := c12ConfirmSlow(cs, tier, 10); j2.cr == nil && j2.o != nil && j2.o.Outcome != "hang" && len(j2.o.Leaked) == 0 && j2.o.OpenRows == 0 {
				r.Count("outcome:late-goroutines-gone-alone-with-10x-time")
				o.Leaked, o.OpenRows = nil, 0
			}
		}
		if len(o.Leaked) > 0 || o.OpenRows > 0 {
			r.Count("outcome:leak")
			r.Violate("C12/leak/"+cs.Endpoint, fmt.Sprintf("%s %s: after the request ended %d goroutine(s) never terminate (%s), %d result set(s) stay open", cs.Method, c12Short(cs.Path), len(o.Leaked), strings.Join(o.Leaked, ", "), o.OpenRows),
				replay(map[string]any{"outcome": o}))
		}
	}
}

// c12HangConfirmed re-runs a request that missed its deadline alone with 10x the time; on confirmation j carries the
// confirming outcome (or crash)
func c12HangConfirmed(j *c12Judged, tier string) bool {
	j2 := c12ConfirmSlow(j.cs, tier, 10)
	if j2.cr != nil {
		return true // the request alone kills the child: certainly not "answered"
	}
	if j2.o == nil {
		return true
	}
	if j2.o.Outcome == "hang" || j2.o.Outcome == "memory" {
		j.o = j2.o
		return true
	}
	return false
}

var c12RangeRe = regexp.MustCompile(`\[([0-9a-zµ.]+)\]`)

// c12AggBuckets: window / range of a LogQL metric request (0 when the request has no range or no window)
func c12AggBuckets(cs *c12Case) int64 {
	if cs.To <= cs.From || cs.Query == "" {
		return 0
	}
	m := c12RangeRe.FindAllStringSubmatch(cs.Query, -1)
	if len(m) == 0 {
		return 0
	}
	d, err := time.ParseDuration(m[len(m)-1][1])
	if err != nil || d <= 0 {
		return 0
	}
	return (cs.To - cs.From) / int64(d)
}

func c12Short(s string) string {
	if len(s) > 220 {
		return s[:220] + "…"
	}
	return s
}

func c12(r *h.Result, rng *h.Rng, tier string, replay string) error {
	if replay != "" {
		return c12Replay(r, replay, tier)
	}
	perEndpoint := 400
	W := 4
	switch tier {
	case "thorough":
		perEndpoint = 8000
		W = 6
	case "search":
		perEndpoint = 1500
		W = 6
	}
	r.Rule = "explore: per read endpoint, requests with grammar-generated (60 %) / byte-mutated (30 %) / random (10 %) query strings; start/end/step/limit/time drawn from {absent, invalid, zero, negative, reversed, empty, sub-ms, huge, normal}; result sets of 0–300 rows in the shape the endpoint scans, row timestamps at/around the window edges and int64 extremes, one in four scripts with a query error, a mid-stream error (Next call 1..n+1) or a corrupt row (wrong type, NULL, missing column); 12 % client aborts after 0–5000 response bytes; 15 % cluster mode. " +
		"non-trivial = the request reached the database (≥ 1 scripted query beyond the version bookkeeping); distinct by (endpoint, parameter class, db class). " +
		"stage streams: see streams."
	r.Stream("explore: every read endpoint through fakes.NewReaderRouter (real apirouterv1 routes) over loopback HTTP in child processes; oracle = child alive, response within the deadline, goroutine census and open result sets back to baseline (exploration of the runtime part: support, not an obligation)")

	if os.Getenv("C12_ONLY") == "status-all" { // development aid: only the controller status stream
		return c12Stages(r, rng.Fork(), tier)
	}
	if os.Getenv("C12_ONLY") == "cold" { // development aid: only the concurrent-cold stream (c12cold.go)
		return c12Cold(r, rng.Fork(), tier)
	}
	// known witnesses first (the corpus of this property), then the tier's quota
	var cases []*c12Case
	for _, c := range c12Corpus() {
		c.ID = len(cases)
		cases = append(cases, c)
	}
	for _, ep := range c12Endpoints {
		er := rng.Fork()
		if only := os.Getenv("C12_ONLY"); only != "" && !strings.HasPrefix(ep.name, only) {
			continue // development aid: explore one endpoint family
		}
		n := perEndpoint
		if strings.HasSuffix(ep.name, "/echo") || strings.HasSuffix(ep.name, "/misc") || strings.HasSuffix(ep.name, "Settings") || strings.HasSuffix(ep.name, "GetProfileStats") {
			n = perEndpoint / 10
		}
		if tier == "search" && strings.HasPrefix(ep.name, "loki/query") {
			n *= 4 // the pipelines live here: after a broken obligation look hardest where goroutines and arithmetic are
		}
		for i := 0; i < n; i++ {
			cases = append(cases, c12GenCase(er, len(cases), ep, tier))
		}
	}
	if tier != "quick" {
		// the client goes away at every chunk boundary class: one request in 40 is repeated with each abort point
		base := len(cases)
		for i := 0; i < base; i += 40 {
			if cases[i].Abort >= 0 {
				continue
			}
			for _, ab := range []int{0, 1, 10, 60, 200, 1000, 5000, 20000} {
				c := *cases[i]
				c.ID, c.Abort = len(cases), ab
				c.Class += " client-abort-sweep"
				cases = append(cases, &c)
			}
		}
	}
	js, err := c12RunCases(cases, tier, W)
	if err != nil {
		return err
	}
	for _, j := range js {
		nontrivial := j.o != nil && j.o.Queries > 0
		r.Case(j.cs.Endpoint+" "+j.cs.Class, nontrivial)
		r.Count("endpoint:" + j.cs.Endpoint)
		for _, f := range strings.Fields(j.cs.Class) {
			if strings.HasPrefix(f, "q=") || strings.HasPrefix(f, "win=") || strings.HasPrefix(f, "step=") || strings.HasPrefix(f, "db=") {
				r.Count("class:" + f)
			}
		}
		if strings.Contains(j.cs.Class, "client-abort") {
			r.Count("class:client-abort")
		}
		c12Judge(r, j, tier, true)
		if j.o != nil && j.cs.ID%211 == 0 {
			r.Sample(map[string]any{"stream": "explore", "endpoint": j.cs.Endpoint, "request": j.cs.Method + " " + c12Short(j.cs.Path), "class": j.cs.Class,
				"status": j.o.Status, "outcome": j.o.Outcome, "queries": j.o.Queries, "body_head": j.o.BodyHead})
		}
	}
	// the client goes away after k chunks, every endpoint (c12gone.go)
	if os.Getenv("C12_ONLY") == "" || os.Getenv("C12_ONLY") == "gone" {
		if err := c12Gone(r, rng.Fork(), tier); err != nil {
			return err
		}
	}
	// model/implementation correspondence for the bookkeeping (FixPeriodPlanner, aggregator, limit, parameters)
	if err := c12Stages(r, rng.Fork(), tier); err != nil {
		return err
	}
	// concurrent requests against a cold schema-version cache, the leader's lookup failing (c12cold.go); forked after
	// the older streams so that their cases are unchanged
	if os.Getenv("C12_ONLY") == "" {
		if err := c12Cold(r, rng.Fork(), tier); err != nil {
			return err
		}
	}
	r.Notes = append(r.Notes, "C12 is PARTIAL: the theorems cover parameter totality, fault-freedom of the detached goroutines and termination of the channel protocol in the model; scheduler, memory, context propagation inside database/sql and Prometheus' engine are only explored (child processes), not proved.")
	return nil
}

func c12Replay(r *h.Result, file, tier string) error {
	b, err := os.ReadFile(file)
	if err != nil {
		return err
	}
	var rep struct {
		Replay struct {
			Case *c12Case `json:"case"`
		} `json:"replay"`
		Case *c12Case `json:"case"`
	}
	if err := json.Unmarshal(b, &rep); err != nil {
		return err
	}
	cs := rep.Replay.Case
	if cs == nil {
		cs = rep.Case
	}
	if cs == nil {
		return fmt.Errorf("replay file has no case")
	}
	r.Stream("replay of one recorded request")
	j := c12Confirm(cs, tier)
	r.Case("replay", true)
	c12Judge(r, j, tier, false)
	if cs.Stage != nil && cs.Stage.Kind == "stagedrain" && j.o != nil && j.o.StageOut == "blocked" {
		r.Violate("C12/leak/stage-drain", "the in-process stage stops at the error entry and never reads its input again: the upstream sender stays blocked in its send for ever",
			map[string]any{"case": cs})
	}
	if j.o != nil {
		r.Sample(map[string]any{"replayed": cs.Method + " " + cs.Path, "outcome": j.o})
	}
	return nil
}

// c12Corpus: minimised witnesses of the defects found on the pinned tree (kept so that a regression meets its
// witness in the quick tier)
func c12Corpus() []*c12Case {
	one := func(n int) []c12Answer { return []c12Answer{{Shape: "auto", N: n, Seed: 7}} }
	win := func(c *c12Case) *c12Case { c.From, c.To = c12Base*1e9, (c12Base+3600)*1e9; c.Abort = -1; return c }
	start, end := fmt.Sprintf("%d", c12Base*1e9), fmt.Sprintf("%d", (c12Base+3600)*1e9)
	return []*c12Case{
		// A24
		win(&c12Case{Endpoint: "loki/query_range", Method: "GET", Query: `rate({a="b"}[1m])`, Class: "corpus A24 step=0",
			Path: "/loki/api/v1/query_range?query=rate%28%7Ba%3D%22b%22%7D%5B1m%5D%29&step=0&start=" + start + "&end=" + end, Answers: one(1)}),
		win(&c12Case{Endpoint: "loki/query_range", Method: "GET", Query: `rate({a="b"}[1m])`, Class: "corpus A24 reversed",
			Path: "/loki/api/v1/query_range?query=rate%28%7Ba%3D%22b%22%7D%5B1m%5D%29&step=1&start=" + end + "&end=" + start, Answers: one(1)}),
		win(&c12Case{Endpoint: "loki/query_range", Method: "GET", Query: `rate({a="b"}[0s])`, Class: "corpus A24 zero range",
			Path: "/loki/api/v1/query_range?query=rate%28%7Ba%3D%22b%22%7D%5B0s%5D%29&step=1&start=" + start + "&end=" + end, Answers: one(1)}),
		win(&c12Case{Endpoint: "loki/query", Method: "GET", Query: `rate({a="b"}[1m])`, Class: "corpus A24 instant negative step",
			Path: "/loki/api/v1/query?query=rate%28%7Ba%3D%22b%22%7D%5B1m%5D%29&step=-1&time=" + end, Answers: one(1)}),
		// A12
		win(&c12Case{Endpoint: "tempo/trace", Method: "GET", Class: "corpus A12 empty payload",
			Path: "/api/traces/0123456789abcdef0123456789abcdef", Answers: []c12Answer{{Shape: "spans-empty-otlp", N: 1, Seed: 1}}}),
		// a stored OTLP attribute without a value: the JSON rendering dereferences it inside the handler's receive loop
		win(&c12Case{Endpoint: "tempo/trace", Method: "GET", Class: "corpus attribute without value",
			Path: "/api/traces/0123456789abcdef0123456789abcdef", Answers: []c12Answer{{Shape: "spans-otlp-novalue", N: 3, Seed: 1}}}),
		// A35
		win(&c12Case{Endpoint: "tempo/trace", Method: "GET", Class: "corpus A35 long id",
			Path: "/api/traces/" + strings.Repeat("a", 66), Answers: one(1)}),
		// fp 0 first, int64 overflow (both found by this check)
		win(&c12Case{Endpoint: "loki/query_range", Method: "GET", Query: `rate({a="b"}[9223372036854775807ns])`, Class: "corpus overflow inversion",
			Path: "/loki/api/v1/query_range?query=rate%28%7Ba%3D%22b%22%7D%5B9223372036854775807ns%5D%29&start=-9223372036000000000&end=0&step=9223372036", Answers: []c12Answer{{Shape: "matrix-zero-ts", N: 1, Seed: 5}}}),
		// known finding: memory (outside the model)
		win(&c12Case{Endpoint: "loki/query_range", Method: "GET", Query: `last_over_time({a="b"} | logfmt | unwrap v [1s]) by (a)`, Class: "corpus memory finding",
			Path: "/loki/api/v1/query_range?query=last_over_time%28%7Ba%3D%22b%22%7D+%7C+logfmt+%7C+unwrap+v+%5B1s%5D%29+by+%28a%29&start=0&end=1700000000000000000&step=3600", Answers: one(3)}),
		// Tempo v2 values: failing fallback query (nil channel)
		win(&c12Case{Endpoint: "tempo/values", Method: "GET", Class: "corpus nil channel",
			Path: "/api/v2/search/tag/service.name/values", Answers: []c12Answer{{Shape: "auto", N: 1, Seed: 1, QueryErr: true}}}),
		// any fault in a pipeline stage killed the process (TamePanic deferred in the nested form); witness from the C09 agent
		win(&c12Case{Endpoint: "loki/query_range", Method: "GET", Query: `{a="b"} | json | label_format x="y"`, Class: "corpus TamePanic",
			Path: "/loki/api/v1/query_range?query=%7Ba%3D%22b%22%7D+%7C+json+%7C+label_format+x%3D%22y%22&step=1&start=" + start + "&end=" + end, Answers: one(3)}),
		// round 3: the tail's service goroutine ran the planner chain without a recover (`| regexp` without a parameter faults in it)
		win(&c12Case{Kind: "tail", Endpoint: "loki/tail", Method: "GET", Query: `{a="b"} | regexp `, Class: "corpus tail planner fault", GoneAfter: 2,
			Path: "/loki/api/v1/tail?query=%7Ba%3D%22b%22%7D+%7C+regexp+", Answers: []c12Answer{{Shape: "logs", N: 5, Seed: 3}}}),
		// round 3: recursion depth of the participle parsers grows with the text: stack overflow (fatal, not recoverable)
		win(&c12Case{Endpoint: "loki/query_range", Method: "GET", Query: "deep", Class: "corpus deep nesting LogQL",
			Path: "/loki/api/v1/query_range?query=%7Ba%3D%22b%22%7D%20%7C%20" + strings.Repeat("(", 300000) + "a%3D%22b%22" + strings.Repeat(")", 300000) + "&start=" + start + "&end=" + end + "&step=15", Answers: one(1)}),
		win(&c12Case{Endpoint: "tempo/search", Method: "GET", Query: "deep", Class: "corpus deep nesting TraceQL",
			Path: "/api/search?q=%7B" + strings.Repeat("(", 450000) + ".a%3D%22b%22" + strings.Repeat(")", 450000) + "%7D&start=1700000000&end=1700003600", Answers: one(1)}),
		// A21
		win(&c12Case{Endpoint: "loki/query_range", Method: "GET", Query: `count_over_time({a="b"} | json [1m])`, Class: "corpus A21 bucket index",
			Path: "/loki/api/v1/query_range?query=count_over_time%28%7Ba%3D%22b%22%7D+%7C+json+%5B1m%5D%29&step=60&start=" + start + "&end=" + end, Answers: []c12Answer{{Shape: "logs-at-end", N: 150, Seed: 3}}}),
	}
}
