package main

// C05 — stream `rect`: the oracle of `parser_rect_*` on what the REAL parsers emit.
//
// Every request object a parser hands to an insert service is inspected in the child (c05CheckSvc: `len` of every
// per-row array field must be equal) on EVERY C05 stream. This stream adds bodies built to exercise the row
// bookkeeping of every decoder: entries of every arity and kind, several streams / series / spans per body, series
// crossing the 1000-point flush of the remote-write decoder at every offset, bodies above the 1 MiB builder threshold
// (so that requests are flushed while the decoder is still running) and an ill-formed element AFTER them (so that
// what was flushed before the error is what reaches the services). No model comparison: oracle only (ragged request,
// ragged block, liveness, allocation).

import (
	"bytes"
	"fmt"
	"strings"

	"github.com/golang/snappy"
	"github.com/metrico/qryn/writer/utils/proto/logproto"
	"github.com/metrico/qryn/writer/utils/proto/prompb"
	v11 "go.opentelemetry.io/proto/otlp/common/v1"
	otlpLogs "go.opentelemetry.io/proto/otlp/logs/v1"
	resv1 "go.opentelemetry.io/proto/otlp/resource/v1"
	trace "go.opentelemetry.io/proto/otlp/trace/v1"
	"google.golang.org/protobuf/proto"

	"verif/harness/h"
)

func c05Pad(rng *h.Rng, n int) string {
	if n <= 0 {
		return ""
	}
	return strings.Repeat(string(rune('a'+rng.Intn(26))), n)
}

// one element of a Loki `values` array, of every arity and kind
func c05RectValue(rng *h.Rng, i int, pad int) string {
	ts := fmt.Sprintf(`"%d"`, c05Ts+int64(i))
	line := fmt.Sprintf(`"l%d%s"`, i, c05Pad(rng, pad))
	switch rng.Intn(12) {
	case 0:
		return `[]`
	case 1:
		return `[` + ts + `]`
	case 2:
		return `[` + ts + `,` + line + `,` + fmt.Sprint(rng.Intn(100)) + `]`
	case 3:
		return `[` + ts + `,` + line + `,{"a":"b"}]`
	case 4:
		return `[` + ts + `,` + line + `,"7"]`
	case 5:
		return `[` + ts + `,` + line + `,null,4]`
	case 6:
		return `[` + ts + `,` + line + `,1.5,"x",[1]]`
	default:
		return `[` + ts + `,` + line + `]`
	}
}

func c05RectEntry(rng *h.Rng, i int, pad int) string {
	ts := fmt.Sprintf(`"ts":"%d"`, c05Ts+int64(i))
	switch rng.Intn(8) {
	case 0:
		return `{}`
	case 1:
		return `{` + ts + `}`
	case 2:
		return `{` + ts + `,"line":"x` + c05Pad(rng, pad) + `","value":2.5}`
	case 3:
		return `{"value":1,` + ts + `,"value":2}`
	case 4:
		return `{"timestamp":"2023-11-14T22:13:20Z","line":"y"}`
	default:
		return `{` + ts + `,"line":"e` + c05Pad(rng, pad) + `"}`
	}
}

var c05RectBadLoki = []string{`{"stream":{"a":"b"},"values":[["x","l"]]}`, `{"stream":{"a":1},"values":[]}`, `{"stream":{"a":"b"},"values":[["1","l",1e999999]]}`,
	`{"stream":{"a":"b"},"values":[["1",5]]}`, `{"labels":"{a=}","entries":[]}`, `{"stream":{"a":"b"},"entries":[{"ts":5}]}`,
	`{"stream":{"a":"b"},"values":[["1","l"],7]}`, `7`, `{"stream":{"a":"b"},"values":{"0":["1","l"]}}`, `{"stream":{"a":"b"},"entries":[{"line":3}]}`}

func c05RectLokiJson(rng *h.Rng, big, bad bool) []byte {
	var b bytes.Buffer
	b.WriteString(`{"streams":[`)
	ns := 1 + rng.Intn(4)
	perStream := 1 + rng.Intn(30)
	pad := rng.Intn(20)
	if big {
		ns, perStream, pad = 3, 300, 1500 // ≈ 1.35 MB: the builder flushes while the decoder runs
	}
	for s := 0; s < ns; s++ {
		if s > 0 {
			b.WriteByte(',')
		}
		fmt.Fprintf(&b, `{"stream":{"job":"rect%d","s":"%d"},`, rng.Intn(1000), s)
		if rng.Bool() {
			b.WriteString(`"values":[`)
			for i := 0; i < perStream; i++ {
				if i > 0 {
					b.WriteByte(',')
				}
				b.WriteString(c05RectValue(rng, i, pad))
			}
			b.WriteString(`]`)
		} else {
			b.WriteString(`"entries":[`)
			for i := 0; i < perStream; i++ {
				if i > 0 {
					b.WriteByte(',')
				}
				b.WriteString(c05RectEntry(rng, i, pad))
			}
			b.WriteString(`]`)
		}
		if rng.Chance(20) {
			// a second source of entries in the same stream object
			b.WriteString(`,"values":[["1700000000000000001","again"]]`)
		}
		b.WriteByte('}')
	}
	if bad {
		b.WriteByte(',')
		b.WriteString(h.Pick(rng, c05RectBadLoki))
	}
	b.WriteString(`]`)
	if rng.Chance(15) {
		b.WriteString(`,"streams":[{"stream":{"x":"y"},"values":[["1700000000000000002","second member"]]}]`)
	}
	if bad && rng.Chance(30) {
		return b.Bytes() // truncated: no closing brace
	}
	b.WriteString(`}`)
	return b.Bytes()
}

func c05RectLokiProto(rng *h.Rng, big, bad bool) []byte {
	req := &logproto.PushRequest{}
	ns, per, pad := 1+rng.Intn(4), rng.Intn(20), rng.Intn(20)
	if big {
		ns, per, pad = 3, 300, 1500
	}
	for s := 0; s < ns; s++ {
		st := &logproto.StreamAdapter{Labels: fmt.Sprintf(`{job="rect%d",s="%d"}`, rng.Intn(1000), s)}
		for i := 0; i < per; i++ {
			e := &logproto.EntryAdapter{Line: fmt.Sprintf("l%d%s", i, c05Pad(rng, pad))}
			if !rng.Chance(10) {
				e.Timestamp = &logproto.Timestamp{Seconds: 1700000000, Nanos: int32(i)}
			}
			st.Entries = append(st.Entries, e)
		}
		req.Streams = append(req.Streams, st)
	}
	if bad {
		req.Streams = append(req.Streams, &logproto.StreamAdapter{Labels: h.Pick(rng, []string{`{a=}`, `{`, `a="b"`, `{a="\xZZ"}`, `{a="b",}`, ``}),
			Entries: []*logproto.EntryAdapter{{Line: "x"}}})
	}
	raw, _ := proto.Marshal(req)
	return snappy.Encode(nil, raw)
}

func c05RectProm(rng *h.Rng, big bool) []byte {
	req := &prompb.WriteRequest{}
	// the point counter runs across series: put the 1000th point at every kind of place
	sizes := [][]int{{999, 3}, {1000, 1}, {1001}, {400, 400, 400}, {1, 999, 1}, {2500}, {333, 333, 333, 2}, {1000, 1000, 1}, {999, 1, 1}, {1, 1, 1998, 5}}
	sz := h.Pick(rng, sizes)
	if rng.Bool() {
		sz = nil
		for n := 1 + rng.Intn(5); n > 0; n-- {
			sz = append(sz, rng.Intn(700))
		}
	}
	for si, n := range sz {
		ts := &prompb.TimeSeries{Labels: []*prompb.Label{{Name: "__name__", Value: fmt.Sprintf("rect_%d", si)}, {Name: "i", Value: fmt.Sprint(rng.Intn(100))}}}
		for i := 0; i < n; i++ {
			ts.Samples = append(ts.Samples, &prompb.Sample{Timestamp: 1700000000000 + int64(i), Value: float64(i)})
		}
		req.Timeseries = append(req.Timeseries, ts)
	}
	_ = big
	raw, _ := proto.Marshal(req)
	return snappy.Encode(nil, raw)
}

func c05RectInflux(rng *h.Rng, big, bad bool) []byte {
	var b bytes.Buffer
	n, pad := 1+rng.Intn(30), rng.Intn(10)
	if big {
		n, pad = 700, 1600
	}
	for i := 0; i < n; i++ {
		switch rng.Intn(5) {
		case 0:
			fmt.Fprintf(&b, "m%d,host=h%d message=\"x%s\" %d\n", rng.Intn(5), rng.Intn(9), c05Pad(rng, pad), c05Ts+int64(i))
		case 1:
			fmt.Fprintf(&b, "m,host=a a=1i,b=2.5,c=\"s\",d=true,e=7u %d\n", c05Ts+int64(i))
		case 2:
			fmt.Fprintf(&b, "m,host=a message=\"x\",other=3i %d\n", c05Ts+int64(i))
		case 3:
			fmt.Fprintf(&b, "m message=5i %d\n", c05Ts+int64(i))
		default:
			fmt.Fprintf(&b, "cpu,host=h%d usage=%d.5 %d\n", rng.Intn(9), rng.Intn(100), c05Ts+int64(i))
		}
	}
	if bad {
		b.WriteString(h.Pick(rng, []string{"m,=x a=1\n", "m a=\n", "m a=1 notatime\n", ",,,\n", "m a=\"unterminated\n", "m\\"}))
	}
	return b.Bytes()
}

func c05RectOtlpLogs(rng *h.Rng, big bool) []byte {
	ld := &otlpLogs.LogsData{}
	nr, per, pad := 1+rng.Intn(3), 1+rng.Intn(10), rng.Intn(10)
	if big {
		nr, per, pad = 2, 400, 1500
	}
	for r := 0; r < nr; r++ {
		rl := &otlpLogs.ResourceLogs{Resource: &resv1.Resource{Attributes: []*v11.KeyValue{{Key: "service.name", Value: &v11.AnyValue{Value: &v11.AnyValue_StringValue{StringValue: "svc"}}}}}}
		sl := &otlpLogs.ScopeLogs{}
		for i := 0; i < per; i++ {
			lr := &otlpLogs.LogRecord{TimeUnixNano: uint64(c05Ts + int64(i)), Body: &v11.AnyValue{Value: &v11.AnyValue_StringValue{StringValue: "b" + c05Pad(rng, pad)}}}
			if rng.Chance(20) {
				lr.Body = nil
			}
			if rng.Chance(30) {
				lr.Attributes = []*v11.KeyValue{{Key: "k", Value: nil}, {Key: "k", Value: &v11.AnyValue{}}}
			}
			sl.LogRecords = append(sl.LogRecords, lr)
		}
		rl.ScopeLogs = append(rl.ScopeLogs, sl)
		ld.ResourceLogs = append(ld.ResourceLogs, rl)
	}
	raw, _ := proto.Marshal(ld)
	return raw
}

func c05RectDDLogs(rng *h.Rng, bad bool) []byte {
	var parts []string
	for i, n := 0, 1+rng.Intn(20); i < n; i++ {
		switch rng.Intn(5) {
		case 0:
			parts = append(parts, `{}`)
		case 1:
			parts = append(parts, `{"message":"a","message":"b","ddtags":"x:y","ddtags":"z:w"}`)
		default:
			parts = append(parts, fmt.Sprintf(`{"ddsource":"s","ddtags":"env:p,v:%d","hostname":"h","message":"m%d","service":"x","timestamp":%d}`, i, i, 1700000000000+int64(i)))
		}
	}
	if bad {
		parts = append(parts, h.Pick(rng, []string{`{"message":5}`, `{"timestamp":"x"}`, `7`, `{"timestamp":1.5}`, `[]`}))
	}
	return []byte(`[` + strings.Join(parts, ",") + `]`)
}

func c05RectDDSeries(rng *h.Rng, bad bool) []byte {
	var items []string
	for i, n := 0, 1+rng.Intn(8); i < n; i++ {
		var pts []string
		for p, m := 0, rng.Intn(12); p < m; p++ {
			switch rng.Intn(5) {
			case 0:
				pts = append(pts, `{}`)
			case 1:
				pts = append(pts, fmt.Sprintf(`{"timestamp":%d}`, 1700000000+p))
			case 2:
				pts = append(pts, fmt.Sprintf(`{"value":%d.5}`, p))
			default:
				pts = append(pts, fmt.Sprintf(`{"timestamp":%d,"value":%d}`, 1700000000+p, p))
			}
		}
		it := fmt.Sprintf(`{"metric":"m%d","points":[%s],"resources":[{"name":"h","type":"host"}],"tags":["a:b"]`, i, strings.Join(pts, ","))
		if rng.Chance(25) {
			it += `,"points":[{"timestamp":1700000001,"value":9}]` // a second points member
		}
		items = append(items, it+`}`)
	}
	if bad {
		items = append(items, h.Pick(rng, []string{`{"metric":"m","points":[{"timestamp":"x","value":1}]}`, `{"metric":"m","points":[{"timestamp":1700000000},{"value":"x"}]}`,
			`{"metric":"m","points":[7]}`, `{"metric":5,"points":[]}`, `7`, `{"metric":"m","points":[{"timestamp":1700000000,"value":1},{"timestamp":1700000001,"value":{}}]}`}))
	}
	return []byte(`{"series":[` + strings.Join(items, ",") + `]}`)
}

func c05RectDDCF(rng *h.Rng, bad bool) []byte {
	var b bytes.Buffer
	for i, n := 0, 1+rng.Intn(20); i < n; i++ {
		fmt.Fprintf(&b, `{"ScriptName":"s%d","Outcome":"ok","EventType":"fetch","EventTimestampMs":%d,"ActionResult":%v}`+"\n", i, 1700000000000+int64(i), rng.Bool())
	}
	if bad {
		b.WriteString(h.Pick(rng, []string{`{"ScriptName":5}` + "\n", "7\n", `{"EventTimestampMs":1.5}` + "\n", "{"}))
	}
	return b.Bytes()
}

func c05RectBulk(rng *h.Rng, bad bool) []byte {
	var b bytes.Buffer
	for i, n := 0, 1+rng.Intn(20); i < n; i++ {
		switch rng.Intn(5) {
		case 0:
			b.WriteString(`{"delete":{"_index":"x"}}` + "\n")
		case 1:
			b.WriteString("\n")
		case 2:
			b.WriteString(`{"index":{"_index":"i","_id":"1","n":5}}` + "\n" + `{"f":"v"}` + "\n" + `{"g":"w"}` + "\n")
		default:
			fmt.Fprintf(&b, `{"create":{"_index":"idx%d"}}`+"\n"+`{"field":"value%d"}`+"\n", i, i)
		}
	}
	if bad {
		b.WriteString(h.Pick(rng, []string{`{"create":{"_index":5}}` + "\n{}\n", `{"create":7}` + "\n", "[1]\n", `{"create":{"a":"\ud800"}}` + "\n"}))
	}
	return b.Bytes()
}

func c05RectZipkinSpan(rng *h.Rng, i int, pad int) string {
	tags := []string{`"http.method":"GET"`}
	for k, n := 0, rng.Intn(5); k < n; k++ {
		switch rng.Intn(4) {
		case 0:
			tags = append(tags, fmt.Sprintf(`"n%d":%d`, k, k)) // a non-string tag value is skipped
		case 1:
			tags = append(tags, fmt.Sprintf(`"o%d":{"a":"b"}`, k))
		default:
			tags = append(tags, fmt.Sprintf(`"t%d":"v%s"`, k, c05Pad(rng, pad)))
		}
	}
	s := fmt.Sprintf(`{"traceId":"%s","id":"%s","name":"op%d","timestamp":%d,"duration":%d,"tags":{%s}`, c05HexN(rng, 32), c05HexN(rng, 16), i, 1700000000000000+int64(i), 10+i, strings.Join(tags, ","))
	if rng.Bool() {
		s += `,"localEndpoint":{"serviceName":"local","ipv4":"1.2.3.4"}`
	}
	if rng.Chance(30) {
		s += `,"remoteEndpoint":{"serviceName":"remote"},"tags":{"second":"member"}`
	}
	if rng.Chance(15) {
		s += `,"parentId":"` + c05HexN(rng, 16) + `"`
	}
	return s + `}`
}

var c05RectBadSpans = []string{`{"traceId":"zz","id":"0000000000000001"}`, `{"traceId":"00000000000000000000000000000001","id":"0000000000000001","tags":{"a":"b","c":"\ud800"}}`,
	`{"traceId":"00000000000000000000000000000001","id":"0000000000000001","name":5}`, `7`, `{"name":"noids"}`,
	`{"traceId":"00000000000000000000000000000001","id":"0000000000000001","localEndpoint":{"serviceName":5}}`,
	`{"traceId":"00000000000000000000000000000001","id":"0000000000000001","timestamp":"x"}`}

func c05RectZipkin(rng *h.Rng, nd, big, bad bool) []byte {
	n, pad := 1+rng.Intn(15), rng.Intn(10)
	if big {
		n, pad = 500, 800 // ≈ 1.3 MB of tag values: onSpan flushes while the decoder runs
	}
	var spans []string
	for i := 0; i < n; i++ {
		spans = append(spans, c05RectZipkinSpan(rng, i, pad))
	}
	if bad {
		spans = append(spans, h.Pick(rng, c05RectBadSpans))
	}
	if nd {
		return []byte(strings.Join(spans, "\n") + "\n")
	}
	return []byte(`[` + strings.Join(spans, ",") + `]`)
}

func c05RectOtlpTraces(rng *h.Rng, big, bad bool) []byte {
	td := &trace.TracesData{}
	nr, per, pad := 1+rng.Intn(3), 1+rng.Intn(8), rng.Intn(10)
	if big {
		nr, per, pad = 2, 300, 1200
	}
	str := func(s string) *v11.AnyValue { return &v11.AnyValue{Value: &v11.AnyValue_StringValue{StringValue: s}} }
	for r := 0; r < nr; r++ {
		rs := &trace.ResourceSpans{Resource: &resv1.Resource{Attributes: []*v11.KeyValue{{Key: "service.name", Value: str("svc")}, {Key: "dup", Value: str("1")}, {Key: "dup", Value: str("2")}}}}
		ss := &trace.ScopeSpans{}
		for i := 0; i < per; i++ {
			sp := &trace.Span{TraceId: bytes.Repeat([]byte{byte(1 + i%200)}, 16), SpanId: bytes.Repeat([]byte{byte(1 + i%200)}, 8), Name: fmt.Sprintf("op%d", i),
				StartTimeUnixNano: uint64(c05Ts + int64(i)), EndTimeUnixNano: uint64(c05Ts + int64(i) + 5)}
			for k, n := 0, rng.Intn(6); k < n; k++ {
				var v *v11.AnyValue
				switch rng.Intn(6) {
				case 0:
					v = &v11.AnyValue{Value: &v11.AnyValue_ArrayValue{ArrayValue: &v11.ArrayValue{Values: []*v11.AnyValue{str("a"), nil, {Value: &v11.AnyValue_IntValue{IntValue: 3}}}}}}
				case 1:
					v = &v11.AnyValue{Value: &v11.AnyValue_KvlistValue{KvlistValue: &v11.KeyValueList{Values: []*v11.KeyValue{{Key: "in", Value: str("x")}, {Key: "nil"}}}}}
				case 2:
					v = &v11.AnyValue{}
				default:
					v = str("v" + c05Pad(rng, pad))
				}
				sp.Attributes = append(sp.Attributes, &v11.KeyValue{Key: fmt.Sprintf("k%d", k%4), Value: v})
			}
			ss.Spans = append(ss.Spans, sp)
		}
		rs.ScopeSpans = append(rs.ScopeSpans, ss)
		td.ResourceSpans = append(td.ResourceSpans, rs)
	}
	if bad {
		td.ResourceSpans = append(td.ResourceSpans, &trace.ResourceSpans{ScopeSpans: []*trace.ScopeSpans{{Spans: []*trace.Span{{TraceId: []byte{1, 2, 3}, SpanId: bytes.Repeat([]byte{1}, 8), Name: "short-id"}}}}})
	}
	raw, _ := proto.Marshal(td)
	return raw
}

type c05RectCase struct {
	route, shape string
	req          c05Request
}

func c05RectGen(rng *h.Rng, i int, big bool) c05RectCase {
	bad := rng.Chance(45)
	if big {
		bad = rng.Chance(70)
	}
	sh := func(n string) string {
		s := n
		if big {
			s += "+above-flush-threshold"
		}
		if bad {
			s += "+bad-tail"
		}
		return s
	}
	json := map[string]string{"Content-Type": "application/json"}
	pb := map[string]string{"Content-Type": "application/x-protobuf"}
	kinds := 13
	if big {
		kinds = 6
	}
	switch i % kinds {
	case 0:
		return c05RectCase{"loki-json", sh("loki-json"), c05Request{"POST", "/loki/api/v1/push", json, c05RectLokiJson(rng, big, bad)}}
	case 1:
		return c05RectCase{"loki-proto", sh("loki-proto"), c05Request{"POST", "/loki/api/v1/push", pb, c05RectLokiProto(rng, big, bad)}}
	case 2:
		return c05RectCase{"influx", sh("influx"), c05Request{"POST", "/influx/api/v2/write", map[string]string{"Content-Type": "text/plain"}, c05RectInflux(rng, big, bad)}}
	case 3:
		return c05RectCase{"tempo-spans", sh("zipkin"), c05Request{"POST", "/tempo/spans", json, c05RectZipkin(rng, false, big, bad)}}
	case 4:
		return c05RectCase{"tempo-spans-ndjson", sh("zipkin-nd"), c05Request{"POST", "/api/v2/spans", map[string]string{"Content-Type": "ndjson"}, c05RectZipkin(rng, true, big, bad)}}
	case 5:
		return c05RectCase{"otlp-traces", sh("otlp-traces"), c05Request{"POST", "/v1/traces", pb, c05RectOtlpTraces(rng, big, bad)}}
	case 6:
		return c05RectCase{"prom-write", "prom-flush-offsets", c05Request{"POST", "/api/v1/prom/remote/write", pb, c05RectProm(rng, big)}}
	case 7:
		return c05RectCase{"otlp-logs", "otlp-logs", c05Request{"POST", "/v1/logs", pb, c05RectOtlpLogs(rng, big)}}
	case 8:
		return c05RectCase{"datadog-logs", sh("dd-logs"), c05Request{"POST", "/api/v2/logs", json, c05RectDDLogs(rng, bad)}}
	case 9:
		return c05RectCase{"datadog-series", sh("dd-series"), c05Request{"POST", "/api/v2/series", json, c05RectDDSeries(rng, bad)}}
	case 10:
		return c05RectCase{"datadog-cf", sh("dd-cf"), c05Request{"POST", "/cf/v1/insert", json, c05RectDDCF(rng, bad)}}
	case 11:
		return c05RectCase{"elastic-bulk", sh("bulk"), c05Request{"POST", "/_bulk", map[string]string{"Content-Type": "application/x-ndjson"}, c05RectBulk(rng, bad)}}
	default:
		vc := c05GenStructured(rng, c05RProfile, rng.Chance(30))
		return c05RectCase{"ingest-profile", "profile:" + vc.Shape, vc.Req}
	}
}

func (c *c05Run) rectStream(rng *h.Rng, n, nBig int, batchSize int) error {
	c.r.Stream("rect (ORACLE ONLY): bodies exercising the row bookkeeping of every decoder — entries of every arity, several streams / series / spans, the 1000-point flush at every offset, bodies above the 1 MiB builder threshold with an ill-formed tail — every request object handed to an insert service must have per-row arrays of one length (parser_rect_*), every block must be rectangular")
	for i := 0; i < n+nBig; i++ {
		cs := c05RectGen(rng, i, i >= n)
		out, err := c.send("rect", cs.route, cs.shape, cs.req, "")
		if err != nil {
			return err
		}
		c.r.Case(fmt.Sprintf("rect:%s:%s:%s", cs.route, cs.shape, out), true)
		c.r.Count("rect:" + cs.route)
		if i%29 == 0 {
			c.r.Sample(map[string]any{"stream": "rect", "route": cs.route, "shape": cs.shape, "impl": out, "bytes": len(cs.req.Body)})
		}
		if (i+1)%batchSize == 0 || i >= n {
			// after every big body: what it flushed before its error must already be judged with its own request
			if err := c.postBatch(); err != nil {
				return err
			}
		}
	}
	return c.postBatch()
}
