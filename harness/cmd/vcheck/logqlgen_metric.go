package main

import (
	"fmt"
	"strconv"
	"strings"
	"time"

	"github.com/metrico/qryn/reader/logql/logql_parser"
	"github.com/metrico/qryn/reader/logql/logql_transpiler_v2/shared"
	"verif/harness/h"
)

// ---- generator of LogQL metric queries (text form, parsed by the real parser)

var lraFns = []string{"rate", "count_over_time", "bytes_rate", "bytes_over_time"}
var unwrapFns = []string{"rate", "sum_over_time", "avg_over_time", "max_over_time", "min_over_time", "first_over_time", "last_over_time"}
var unwrapFnsExtra = []string{"stdvar_over_time", "stddev_over_time"}
var aggFns = []string{"sum", "min", "max", "avg", "count"}
var aggFnsExtra = []string{"stddev", "stdvar"}

// durations around the 15 s shortcut, multiples and non-multiples of 15 s, whole and fractional seconds
var durs = []string{"1s", "1500ms", "2s", "5s", "7s", "10s", "14s", "15s", "16s", "20s", "30s", "45s", "1m", "100s", "2m", "5m", "7m", "15m", "1h", "3600s", "60000ms", "15000ms"}
var dursMs = []string{"1ms", "500ms", "1500ms", "999ms", "14999ms", "15001ms", "30000ms"}

type mgen struct {
	extraFns bool // stddev/stdvar (text tie only)
	ms       bool // millisecond durations
	simple   bool // small label/value universe for the semantic search
	streams  []semStream
}

func (g mgen) cmpPct() int {
	if g.simple {
		return 10
	}
	return 25
}

func genGrouping(r *h.Rng, g mgen) string {
	n := r.Range(1, 3)
	var ls []string
	names := lblNames
	if g.simple {
		names = []string{"a", "app", "job", "x"}
	}
	for i := 0; i < n; i++ {
		ls = append(ls, h.Pick(r, names))
	}
	return h.Pick(r, []string{"by", "without"}) + " (" + strings.Join(ls, ",") + ")"
}

func genCmp(r *h.Rng, g mgen) string {
	op := h.Pick(r, []string{"==", "!=", ">", ">=", "<", "<="})
	num := fmt.Sprint(r.Intn(6))
	if r.Chance(30) {
		num = fmt.Sprint(r.Intn(1000))
	}
	if r.Chance(30) {
		num += "." + h.Pick(r, []string{"5", "25", "0", "125", "000001", "2"})
	}
	return " " + op + " " + num
}

// ranges with a part below one millisecond (the grammar admits us and ns): the rate divisor must still be the range
var dursSub = []string{"1500us", "500us", "2500000ns", "1ns", "999999ns", "1001us", "15000001us"}

func genDur(r *h.Rng, g mgen) string {
	if g.ms && r.Chance(20) {
		return h.Pick(r, dursMs)
	}
	if !g.simple && r.Chance(5) {
		return h.Pick(r, dursSub)
	}
	return h.Pick(r, durs)
}

// where a grouping clause goes: 0 none, 1 prefix, 2 suffix, 3 both
func genPos(r *h.Rng) int {
	switch r.Intn(10) {
	case 0, 1, 2:
		return 0
	case 3, 4, 5:
		return 1
	case 6, 7, 8:
		return 2
	}
	return 3
}

// trivialOnly: only stages the metrics_15s shortcut admits (label filters, |= "" and |~ "")
func genSelector(r *h.Rng, g mgen, trivialOnly bool) string {
	if g.simple {
		return genSemSelector(r, g.streams, trivialOnly)
	}
	if trivialOnly {
		s := genLogQuery(r, 3, 0)
		for i, m := 0, r.Intn(3); i < m; i++ {
			if r.Chance(50) {
				s += " | " + genLabelCond(r, 1)
			} else {
				s += " " + h.Pick(r, []string{"|=", "|~", "!=", "!~"}) + ` ""`
			}
		}
		return s
	}
	return genLogQuery(r, 3, 3)
}

func genRange(r *h.Rng, g mgen) string {
	unwrap := r.Chance(45)
	var fn string
	if unwrap {
		fn = h.Pick(r, unwrapFns)
		if g.extraFns && r.Chance(10) {
			fn = h.Pick(r, unwrapFnsExtra)
		}
	} else {
		fn = h.Pick(r, lraFns)
	}
	pos := genPos(r)
	if !unwrap && r.Chance(70) {
		pos = 0 // grouping on a plain range aggregation parses but is ignored by the planner: keep it rarer
	}
	shortcutLike := !unwrap && (fn == "rate" || fn == "count_over_time") && r.Chance(60)
	sel := genSelector(r, g, shortcutLike)
	if unwrap {
		lbl := h.Pick(r, []string{"x", "a", "app", "level", "_entry", "z9"})
		if g.simple {
			lbl = h.Pick(r, []string{"x", "x", "a", "_entry"})
		}
		sel += " | unwrap " + lbl
	}
	s := fn
	if pos&1 != 0 {
		s += " " + genGrouping(r, g)
	}
	dur := genDur(r, g)
	if shortcutLike && r.Chance(60) {
		dur = h.Pick(r, []string{"15s", "30s", "45s", "1m", "5m", "15m", "1h", "15000ms"})
	}
	s += " (" + sel + " [" + dur + "])"
	if pos&2 != 0 {
		s += " " + genGrouping(r, g)
	}
	if r.Chance(g.cmpPct()) {
		s += genCmp(r, g)
	}
	return s
}

func genAgg(r *h.Rng, g mgen) string {
	fn := h.Pick(r, aggFns)
	if g.extraFns && r.Chance(10) {
		fn = h.Pick(r, aggFnsExtra)
	}
	pos := genPos(r)
	s := fn
	if pos&1 != 0 {
		s += " " + genGrouping(r, g)
	}
	s += " (" + genRange(r, g) + ")"
	if pos&2 != 0 {
		s += " " + genGrouping(r, g)
	}
	if r.Chance(g.cmpPct()) {
		s += genCmp(r, g)
	}
	return s
}

func genMetricQuery(r *h.Rng, g mgen) string {
	switch r.Intn(10) {
	case 0, 1, 2:
		return genRange(r, g)
	case 3, 4, 5, 6:
		return genAgg(r, g)
	}
	inner := genRange(r, g)
	if r.Chance(60) {
		inner = genAgg(r, g)
	}
	k := r.Intn(6)
	if g.simple && k == 0 && r.Chance(70) {
		k = r.Range(1, 3)
	}
	s := h.Pick(r, []string{"topk", "bottomk"}) + "(" + fmt.Sprint(k) + ", " + inner + ")"
	if r.Chance(g.cmpPct()) {
		s += genCmp(r, g)
	}
	return s
}

// ---- serialisation of the REAL parsed AST for the model (Driver.C08.query?)

func serGrouping(b *logql_parser.ByOrWithout) (string, error) {
	if b == nil {
		return "-", nil
	}
	fn := strings.ToLower(b.Fn)
	if fn != "by" {
		// `strings.ToLower(fn) == "by"`, anything else is `without`; the grammar only admits these two spellings
		if fn != "without" {
			return "", fmt.Errorf("grouping %q", b.Fn)
		}
	}
	if b.Fn != fn {
		return "", fmt.Errorf("grouping keyword case")
	}
	var ls []string
	for _, l := range b.Labels {
		ls = append(ls, hx(l.Name))
	}
	if len(ls) == 0 {
		return "", fmt.Errorf("empty grouping")
	}
	return fn + ":" + strings.Join(ls, ","), nil
}

func serCmp(c *logql_parser.Comparison) (string, error) {
	if c == nil {
		return "-", nil
	}
	ip, fp, _ := strings.Cut(c.Val, ".")
	if fp == "" {
		fp = "-"
	}
	if len(fp) > 6 || len(ip) > 9 {
		return "", fmt.Errorf("number outside the exactly-rendered range")
	}
	op, ok := cmpOps[c.Fn]
	if !ok {
		return "", fmt.Errorf("comparison %q", c.Fn)
	}
	return op + ":" + ip + ":" + fp, nil
}

func isIn(s string, xs []string) bool {
	for _, x := range xs {
		if x == s {
			return true
		}
	}
	return false
}

func serRange(l *logql_parser.LRAOrUnwrap) (string, error) {
	sel := l.StrSel
	kind, lbl := "L", "-"
	ppl := sel.Pipelines
	if n := len(ppl); n > 0 && ppl[n-1].Unwrap != nil {
		if ppl[n-1].Unwrap.Fn != "unwrap" || ppl[n-1].Unwrap.Label.Name == "" {
			return "", fmt.Errorf("unwrap form outside the fragment")
		}
		kind, lbl = "U", hx(ppl[n-1].Unwrap.Label.Name)
		ppl = ppl[:n-1]
	}
	if kind == "L" && !isIn(l.Fn, lraFns) {
		return "", fmt.Errorf("range function %s without unwrap", l.Fn)
	}
	if kind == "U" && !isIn(l.Fn, unwrapFns) && !isIn(l.Fn, unwrapFnsExtra) {
		return "", fmt.Errorf("range function %s with unwrap", l.Fn)
	}
	q, err := serLogQuery(&logql_parser.LogQLScript{StrSelector: &logql_parser.StrSelector{StrSelCmds: sel.StrSelCmds, Pipelines: ppl}})
	if err != nil {
		return "", err
	}
	d, err := time.ParseDuration(l.Time + l.TimeUnit)
	if err != nil || d <= 0 {
		return "", fmt.Errorf("duration")
	}
	bp, err := serGrouping(l.ByOrWithoutPrefix)
	if err != nil {
		return "", err
	}
	bs, err := serGrouping(l.ByOrWithoutSuffix)
	if err != nil {
		return "", err
	}
	cm, err := serCmp(l.Comparison)
	if err != nil {
		return "", err
	}
	return fmt.Sprintf("%s %s %s %d %s %s %s %s", kind, l.Fn, lbl, d.Nanoseconds(), bp, bs, cm, q), nil
}

func serAgg(a *logql_parser.AggOperator) (string, error) {
	bp, err := serGrouping(a.ByOrWithoutPrefix)
	if err != nil {
		return "", err
	}
	bs, err := serGrouping(a.ByOrWithoutSuffix)
	if err != nil {
		return "", err
	}
	cm, err := serCmp(a.Comparison)
	if err != nil {
		return "", err
	}
	r, err := serRange(&a.LRAOrUnwrap)
	if err != nil {
		return "", err
	}
	return fmt.Sprintf("%s %s %s %s %s", a.Fn, bp, bs, cm, r), nil
}

// serMetric: the model's view of a parsed metric script, or an error when it is outside the modelled fragment
func serMetric(s *logql_parser.LogQLScript) (string, error) {
	switch {
	case s.LRAOrUnwrap != nil:
		r, err := serRange(s.LRAOrUnwrap)
		return "R " + r, err
	case s.AggOperator != nil:
		a, err := serAgg(s.AggOperator)
		return "A " + a, err
	case s.TopK != nil:
		t := s.TopK
		k, err := strconv.Atoi(t.Param)
		if err != nil || k < 0 {
			return "", fmt.Errorf("k")
		}
		cm, err := serCmp(t.Comparison)
		if err != nil {
			return "", err
		}
		head := fmt.Sprintf("T %d %d %s ", b2i(t.Fn == "topk"), k, cm)
		switch {
		case t.LRAOrUnwrap != nil:
			r, err := serRange(t.LRAOrUnwrap)
			return head + "R " + r, err
		case t.AggOperator != nil:
			a, err := serAgg(t.AggOperator)
			return head + "A " + a, err
		}
	}
	return "", fmt.Errorf("not a metric query of the fragment")
}

// ---- planner contexts for metric queries: C07's context + step + metrics_15s table
type mctx struct {
	qctx
	Step int64
}

func (c mctx) planner() *shared.PlannerContext {
	p := c.qctx.planner()
	p.Step = time.Duration(c.Step)
	if c.Cluster {
		p.Metrics15sTableName = "`db`.metrics_15s_dist"
	}
	return p
}

func (c mctx) ser() string {
	return c.qctx.ser() + fmt.Sprintf(" %d %s", c.Step, hx(c.planner().Metrics15sTableName))
}

// genMCtx: a context whose step is below, equal to, or above the range duration d (ns)
func genMCtx(r *h.Rng, d int64) mctx {
	c := mctx{qctx: genCtx(r)}
	switch r.Intn(5) {
	case 0:
		c.Step = d
	case 1:
		c.Step = d * int64(r.Range(2, 4))
	case 2:
		c.Step = d / int64(r.Range(2, 4))
		if c.Step <= 0 {
			c.Step = 1
		}
	default:
		c.Step = int64(h.Pick(r, []int{1, 5, 10, 15, 60, 300})) * 1e9
	}
	return c
}

// the one range duration of a script (shared.GetDuration)
func scriptDuration(s *logql_parser.LogQLScript) int64 {
	d, err := shared.GetDuration(s)
	if err != nil {
		return 0
	}
	return d.Nanoseconds()
}

