package main

// C01 — the answer of a push whose INSERTs fail: error value -> status.
// Streams (all against Qryn.Ingest.ErrorHandler through the driver):
//   retrytext       the text of the error retry-go hands back (real retry.Do with the options doPush passes, the
//                   retried function failing with generated texts) vs retryText
//   classify        the real controllerv1.ErrorHandler on constructed error values (untyped, *UnMarshalError,
//                   *QrynError — bare and wrapped with %w —, retry.Error, "panic: …") with a ResponseWriter that
//                   records whether anything was written, vs classify
//   handler-errtext the real PushStreamV2 chain (Build/doParse/doPush/retry-go, real insert services) over a fake
//                   ClickHouse client whose k-th INSERT fails with the k-th generated text, vs handlerT
// Texts come from a grammar around what a ClickHouse connection can say: "connection reset by peer" (bare, inside a
// net.OpError text, first, last), "broken pipe", "EOF", context errors, ClickHouse exceptions, texts that START with
// the classification prefixes of ErrorHandler/watchErr, texts that look like retry-go's own output, empty, newlines.
// Oracle (no model): if some row of the push was in no INSERT that returned nil, the status the client reads is
// >= 400; a handler that wrote nothing counts as 200.

import (
	"bytes"
	"encoding/json"
	"errors"
	"fmt"
	"net"
	"net/http"
	"net/http/httptest"
	"os"
	"path/filepath"
	"strings"
	"syscall"
	"time"

	retry "github.com/avast/retry-go"
	"github.com/metrico/qryn/writer/config"
	controllerv1 "github.com/metrico/qryn/writer/controller"
	"github.com/metrico/qryn/writer/service"
	"github.com/metrico/qryn/writer/service/registry"
	custom_errors "github.com/metrico/qryn/writer/utils/errors"
	"github.com/metrico/qryn/writer/utils/helpers"
	"github.com/metrico/qryn/writer/utils/promise"
	"verif/harness/h"
)

var c01ErrAtoms = []string{
	"connection reset by peer",
	"write tcp 10.0.0.7:51234->10.0.0.9:9000: write: connection reset by peer",
	"read tcp 10.0.0.7:51234->10.0.0.9:9000: read: connection reset by peer",
	"write: broken pipe",
	"EOF",
	"unexpected EOF",
	"context deadline exceeded",
	"context canceled",
	"code: 241, message: Memory limit (total) exceeded: would use 9.31 GiB",
	"code: 60, message: Table qryn.samples_v3 doesn't exist",
	"dial tcp: lookup clickhouse: i/o timeout",
	"dial tcp 10.0.0.9:9000: connect: connection refused",
	"json parse error",
	"All attempts fail:\n#1: EOF",
	"panic: runtime error: index out of range [0] with length 0",
	"service stopped",
	"internal server error",
	"",
}

// c01GenErrText: one error text from the grammar
func c01GenErrText(rng *h.Rng) string {
	atom := func() string { return h.Pick(rng, c01ErrAtoms) }
	switch x := rng.Intn(100); {
	case x < 30:
		return atom()
	case x < 45: // the reset text somewhere inside
		return h.Pick(rng, []string{"write: ", "handshake: ", "#1: ", "\n", "x"}) + "connection reset by peer" + h.Pick(rng, []string{"", " (retry)", "\n", ": EOF"})
	case x < 55: // starts with a classification prefix
		return h.Pick(rng, []string{"connection reset by peer", "json parse error", "connection reset by pee", "Connection reset by peer"}) + h.Pick(rng, []string{"", ": " + atom(), "\n" + atom()})
	case x < 75:
		return atom() + h.Pick(rng, []string{": ", "\n", " ", ""}) + atom()
	case x < 85:
		return string(rng.Bytes(24))
	default:
		return h.Pick(rng, []string{"read: ", "ch-go: ", "insert: "}) + atom()
	}
}

// c01MkErr: an error value with this text; sometimes a real net.OpError / wrapped value (same text by construction)
func c01MkErr(rng *h.Rng, text string) error {
	if text == "write tcp 10.0.0.7:51234->10.0.0.9:9000: write: connection reset by peer" && rng.Bool() {
		return &net.OpError{Op: "write", Net: "tcp",
			Source: &net.TCPAddr{IP: net.IPv4(10, 0, 0, 7), Port: 51234}, Addr: &net.TCPAddr{IP: net.IPv4(10, 0, 0, 9), Port: 9000},
			Err: os.NewSyscallError("write", syscall.ECONNRESET)}
	}
	return errors.New(text)
}

func c01HexList(ts []string) string {
	if len(ts) == 0 {
		return "none"
	}
	hs := make([]string, len(ts))
	for i, t := range ts {
		hs[i] = h.Hex([]byte(t))
	}
	return strings.Join(hs, ",")
}

// c01Recorder tells a handler that wrote nothing from one that wrote a status
type c01Recorder struct {
	*httptest.ResponseRecorder
	touched bool
}

func (r *c01Recorder) WriteHeader(c int) { r.touched = true; r.ResponseRecorder.WriteHeader(c) }
func (r *c01Recorder) Write(b []byte) (int, error) {
	r.touched = true
	return r.ResponseRecorder.Write(b)
}

// answer as the model prints it, and the status the client reads
func (r *c01Recorder) answer() (string, int) {
	if !r.touched {
		return "silent", 200
	}
	return fmt.Sprintf("status %d", r.Code), r.Code
}

func c01RetryText(r *h.Result, rng *h.Rng, n int) error {
	r.Stream("retrytext: text of the error avast/retry-go Do returns (Attempts(n), Delay(0), FixedDelay; every attempt fails with a generated text) vs ErrorHandler.retryText; n = 0..4")
	var ops, impl []string
	var cases []any
	for i := 0; i < n; i++ {
		attempts := rng.Intn(5)
		texts := make([]string, attempts)
		for j := range texts {
			texts[j] = c01GenErrText(rng)
		}
		k := 0
		err := retry.Do(func() error {
			e := c01MkErr(rng, texts[k])
			k++
			return e
		}, retry.Attempts(uint(attempts)), retry.Delay(0), retry.DelayType(retry.FixedDelay))
		got := "nil"
		if err != nil {
			got = h.Hex([]byte(err.Error()))
		}
		ops = append(ops, "c01retrytext "+c01HexList(texts))
		impl = append(impl, got)
		cases = append(cases, map[string]any{"attempt_texts": texts})
		r.Case("retrytext:"+strings.Join(texts, "\x00"), attempts > 0)
		r.Count(fmt.Sprintf("retrytext:attempts=%d", attempts))
	}
	return r.Compare("retrytext", ops, impl, cases)
}

// c01RunErrorHandler runs the real ErrorHandler on one error value
func c01RunErrorHandler(err error) (answer string, status int) {
	w := &c01Recorder{ResponseRecorder: httptest.NewRecorder()}
	req := httptest.NewRequest("POST", "/loki/api/v1/push", nil)
	func() {
		defer func() {
			if rec := recover(); rec != nil {
				answer, status = "fault", -1
			}
		}()
		controllerv1.ErrorHandler(w, req, err)
		answer, status = w.answer()
	}()
	return
}

func c01Classify(r *h.Result, rng *h.Rng, n int) error {
	r.Stream("classify: real controllerv1.ErrorHandler on error values (untyped with grammar texts, retry.Error of grammar texts — also holding typed errors —, panic texts, *UnMarshalError / *QrynError with codes {400,401,404,429,501} and invalid ones, bare and wrapped with %w) vs ErrorHandler.classify")
	c0102Setup()
	var ops, impl []string
	var cases []any
	codes := []int{400, 401, 404, 429, 501, 400, 400, 200, 0, 99, 1000, 599}
	for i := 0; i < n; i++ {
		text := c01GenErrText(rng)
		var err error
		var ev string
		kind := ""
		switch x := rng.Intn(100); {
		case x < 35:
			kind = "untyped"
			err = c01MkErr(rng, text)
			ev = "u/" + h.Hex([]byte(text))
		case x < 60:
			kind = "retry.Error"
			nAtt := rng.Intn(4)
			re := retry.Error{}
			texts := []string{}
			for j := 0; j < nAtt; j++ {
				t := c01GenErrText(rng)
				texts = append(texts, t)
				if rng.Chance(15) {
					re = append(re, custom_errors.New400Error(t)) // a typed error inside the log stays invisible to errors.As
				} else {
					re = append(re, c01MkErr(rng, t))
				}
			}
			err = re
			text = re.Error()
			ev = "u/" + h.Hex([]byte(text))
		case x < 68:
			kind = "panic"
			err = fmt.Errorf("panic: %v", text)
			ev = "u/" + h.Hex([]byte("panic: "+text))
		case x < 84:
			kind = "UnMarshalError"
			c := h.Pick(rng, codes)
			var base error = &custom_errors.UnMarshalError{Message: text, Code: c}
			err = base
			if rng.Chance(30) {
				kind = "wrapped UnMarshalError"
				err = fmt.Errorf("decode: %w", base)
				text = "decode: " + text
			}
			ev = fmt.Sprintf("m%d/%s", c, h.Hex([]byte(text)))
		default:
			kind = "QrynError"
			c := h.Pick(rng, codes)
			var base error = &custom_errors.QrynError{Code: c, Message: text}
			err = base
			if rng.Chance(30) {
				kind = "wrapped QrynError"
				err = fmt.Errorf("pre: %w", base)
				text = "pre: " + text
			}
			ev = fmt.Sprintf("q%d/%s", c, h.Hex([]byte(text)))
		}
		ans, _ := c01RunErrorHandler(err)
		ops = append(ops, "c01classify "+ev)
		impl = append(impl, ans)
		cases = append(cases, map[string]any{"kind": kind, "text": text})
		r.Case("classify:"+ev, true)
		r.Count("classify:" + kind)
		r.Count("classify:answer=" + strings.Fields(ans)[0])
	}
	return r.Compare("classify", ops, impl, cases)
}

// panicSvc: an insert service whose Request panics (the recover of doPush's goroutine turns it into "panic: …")
type panicSvc struct {
	service.IInsertServiceV2
	msg string
}

func (p *panicSvc) Request(req helpers.SizeGetter, insertMode int) *promise.Promise[uint32] { panic(p.msg) }
func (p *panicSvc) Stop()                                                                    {}

type errTextSpec struct {
	Attempts int      `json:"attempts"`
	Mode     int      `json:"mode"` // 0..5 both tables fail to the end; 6 samples' last attempt succeeds; 7 series ok, samples fail; 8 all ok; 9 samples service panics
	TsTexts  []string `json:"time_series_insert_error_texts"`
	SplTexts []string `json:"samples_insert_error_texts"`
	TsOuts   []bool   `json:"time_series_insert_outcomes"`
	SplOuts  []bool   `json:"samples_insert_outcomes"`
	PanicMsg string   `json:"samples_service_panics_with"`
}

func c01GenErrTextSpec(rng *h.Rng) errTextSpec {
	sp := errTextSpec{Attempts: rng.Intn(4)}
	if rng.Chance(70) {
		sp.Attempts = 1 + rng.Intn(3)
	}
	sp.Mode = rng.Intn(10)
	mkTexts := func() []string {
		ts := make([]string, sp.Attempts)
		for j := range ts {
			ts[j] = c01GenErrText(rng)
		}
		// most cases carry the reset text in at least one attempt: the class of fault ErrorHandler has a branch for
		if sp.Attempts > 0 && rng.Chance(60) {
			ts[rng.Intn(sp.Attempts)] = h.Pick(rng, c01ErrAtoms[1:3])
		}
		return ts
	}
	sp.TsTexts, sp.SplTexts = mkTexts(), mkTexts()
	sp.TsOuts, sp.SplOuts = make([]bool, sp.Attempts), make([]bool, sp.Attempts)
	switch sp.Mode {
	case 6:
		for j := range sp.TsOuts {
			sp.TsOuts[j] = true
		}
		if sp.Attempts > 0 {
			sp.SplOuts[sp.Attempts-1] = true
		}
	case 7, 9:
		for j := range sp.TsOuts {
			sp.TsOuts[j] = true
		}
	case 8:
		for j := range sp.TsOuts {
			sp.TsOuts[j], sp.SplOuts[j] = true, true
		}
	}
	if sp.Mode == 9 {
		sp.PanicMsg = c01GenErrText(rng)
	}
	return sp
}

// c01RunErrTextCase: one push through the real chain; the k-th INSERT of a table fails with the k-th text. Returns the
// model line, the implementation's answer and the case description; judges the property on the way.
func c01RunErrTextCase(r *h.Result, rng *h.Rng, i int, sp errTextSpec) (string, string, map[string]any) {
	attempts := sp.Attempts
	atts := func(outs []bool, texts []string) string {
		var parts []string
		for j, ok := range outs {
			if ok {
				parts = append(parts, "o")
				break // the loop ends at the first success
			}
			t := ""
			if j < len(texts) {
				t = texts[j]
			}
			parts = append(parts, "f"+h.Hex([]byte(t)))
		}
		return strings.Join(parts, ".")
	}
	splModel := "1,1," + atts(sp.SplOuts, sp.SplTexts)
	if sp.Mode == 9 {
		splModel = "1,1,p" + h.Hex([]byte(sp.PanicMsg))
		if attempts == 0 {
			splModel = "1,1,"
		}
	}
	rig := newHandlerRig(rng.Fork(), attempts, time.Millisecond, 0, 1, 0, 0, 0, map[string][]bool{"timeSeries": sp.TsOuts, "samples": sp.SplOuts})
	for k, texts := range map[string][]string{"timeSeries": sp.TsTexts, "samples": sp.SplTexts} {
		env, texts := rig.envs[k], texts
		env.mu.Lock()
		env.errFn = func(j int) error {
			if j < len(texts) {
				return c01MkErr(h.NewRng(uint64(j)), texts[j])
			}
			return errScripted
		}
		env.mu.Unlock()
	}
	if sp.Mode == 9 {
		maps := map[string]map[string]service.IInsertServiceV2{}
		for _, k := range kinds {
			maps[k] = map[string]service.IInsertServiceV2{"n1": rig.svcs[k]}
		}
		maps["samples"] = map[string]service.IInsertServiceV2{"n1": &panicSvc{msg: sp.PanicMsg}}
		controllerv1.Registry = registry.NewStaticServiceRegistry(maps["timeSeries"], maps["samples"], maps["metrics"],
			maps["tempoSamples"], maps["tempoTags"], maps["profile"])
	}
	tok0, tok1 := uint64(7000000+i*8), uint64(7000001+i*8)
	body := lokiBody(uint64(5000000+i), []uint64{tok0, tok1})
	w := &c01Recorder{ResponseRecorder: httptest.NewRecorder()}
	done := make(chan struct{})
	go func() {
		defer close(done)
		req := httptest.NewRequest("POST", "/loki/api/v1/push", bytes.NewReader(body))
		req.Header.Set("Content-Type", "application/json")
		rig.handler(w, req)
	}()
	ans, status := "hang", -1
	doneCode := make(chan int, 1)
	go func() { <-done; doneCode <- 0 }()
	if code, _ := rig.await(doneCode, 20*time.Second); code >= 0 {
		ans, status = w.answer()
	}
	rig.stop()
	// what the fake database accepted
	splEnv, tsEnv := rig.envs["samples"], rig.envs["timeSeries"]
	splEnv.mu.Lock()
	have := map[uint64]bool{}
	for _, lb := range splEnv.okBlocks {
		for _, v := range lb.blk.Data["string"] {
			have[v] = true
		}
	}
	splDo, splErr := splEnv.nDo, splEnv.nDoErr
	splEnv.mu.Unlock()
	tsEnv.mu.Lock()
	tsOk, tsDo, tsErr := len(tsEnv.okBlocks), tsEnv.nDo, tsEnv.nDoErr
	tsEnv.mu.Unlock()
	chunk := fmt.Sprintf("1,1,%s|%s|0,0,|0,0,|0,1,", atts(sp.TsOuts, sp.TsTexts), splModel)
	replay := map[string]any{"stream": "handler-errtext", "attempts": attempts, "mode": sp.Mode,
		"time_series_insert_outcomes": sp.TsOuts, "time_series_insert_error_texts": sp.TsTexts,
		"samples_insert_outcomes": sp.SplOuts, "samples_insert_error_texts": sp.SplTexts, "samples_service_panics_with": sp.PanicMsg,
		"answer": ans, "status_read_by_client": status,
		"do_calls": map[string]int{"time_series": tsDo, "time_series_failed": tsErr, "samples": splDo, "samples_failed": splErr}}
	r.Case(fmt.Sprintf("handler-errtext:%d:%d:%s", attempts, sp.Mode, chunk), attempts > 0)
	r.Count(fmt.Sprintf("handler-errtext:mode=%d", sp.Mode))
	r.Count("handler-errtext:answer=" + ans)
	allIn := have[tok0] && have[tok1] && tsOk > 0
	if !allIn {
		r.Count("handler-errtext:rows-not-inserted")
		if status < 0 {
			r.Violate("C01/no-answer", fmt.Sprintf("push with attempts=%d whose INSERTs fail got no answer within 20 s", attempts), replay)
		} else if status < 400 {
			why := "wrote status " + fmt.Sprint(status)
			if ans == "silent" {
				why = "wrote nothing, so net/http answers 200"
			}
			r.Violate("C01/insert-failed-but-success-status",
				fmt.Sprintf("one push (1 series, 2 lines), attempts=%d: time_series INSERTs %d/%d failed, samples INSERTs %d/%d failed (texts %q / %q), the lines are in no accepted block, yet the handler %s",
					attempts, tsErr, tsDo, splErr, splDo, sp.TsTexts, sp.SplTexts, why), replay)
		}
	} else if status >= 400 {
		r.Count("handler-errtext:inserted-but-error-status")
	}
	return fmt.Sprintf("c01answer %d 204 - %s", attempts, chunk), ans, replay
}

func c01HandlerErrText(r *h.Result, rng *h.Rng, n int, only *errTextSpec) error {
	r.Stream("handler-errtext: real PushStreamV2 (Build/doParse/doPush/retry-go/ErrorHandler, real services with Run loops), attempts 0..3, the k-th INSERT of time_series / samples_v3 fails with the k-th generated text (or the last one succeeds, or the samples service panics) vs ErrorHandler.handlerT; oracle: rows in no accepted INSERT ⇒ status read by the client >= 400 (nothing written = 200)")
	var ops, impl []string
	var cases []any
	for i := 0; i < n; i++ {
		sp := c01GenErrTextSpec(rng)
		if only != nil {
			sp = *only
		}
		op, ans, c := c01RunErrTextCase(r, rng, i, sp)
		ops, impl, cases = append(ops, op), append(impl, ans), append(cases, c)
		if i < 2 {
			r.Sample(c)
		}
	}
	return r.Compare("handler-errtext", ops, impl, cases)
}

// loadReplayDoc returns the "replay" object of a replay file written by ./check (nil if there is none)
func loadReplayDoc(path string) map[string]any {
	b, err := os.ReadFile(path)
	if err != nil {
		b, err = os.ReadFile(filepath.Join("..", path))
	}
	if err != nil {
		return nil
	}
	var doc struct {
		Replay map[string]any `json:"replay"`
	}
	if json.Unmarshal(b, &doc) != nil {
		return nil
	}
	return doc.Replay
}

// c01ReplayErrText re-runs one recorded handler-errtext case on implementation and model
func c01ReplayErrText(r *h.Result, rng *h.Rng, doc map[string]any) error {
	b, _ := json.Marshal(doc)
	var sp errTextSpec
	if err := json.Unmarshal(b, &sp); err != nil {
		return err
	}
	return c01HandlerErrText(r, rng, 1, &sp)
}

// keep the config import used even if the rig changes
var _ = config.Cloki
var _ http.Handler
