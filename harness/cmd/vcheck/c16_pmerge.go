package main

// C16, pprof payload merge — reader/service/profMerge_v2.go ProfileMergeV2.Merge / Profile (with sanitizeProfile,
// combineHeaders and the key functions of profMerge_v1.go), the merge behind ProfService.MergeProfiles
// (/querier.v1.QuerierService/SelectMergeProfile). Real code: the exported NewProfileMergeV2().Merge on decoded
// prof.Profile structs, and ProfService.MergeProfiles over a scripted database on payloads the real writer produced.
// Model: Qryn.Prof.Pprof (lean/Qryn/Prof/PprofMerge.lean) through the driver op `c16pmerge`.
// Oracle (implementation output only): no fault; every location / mapping / function / string reference of the merged
// profile resolves; per sample type the merged values add up to the inputs'; the merged samples, resolved to
// (function names, lines, addresses, mapping identity, string labels), are the per-key sums of the resolved inputs.

import (
	"bytes"
	"context"
	"database/sql/driver"
	"encoding/hex"
	"fmt"
	"sort"
	"strconv"
	"strings"
	"time"

	"github.com/go-faster/city"
	"github.com/metrico/qryn/reader/prof"
	rsvc "github.com/metrico/qryn/reader/service"
	wmodel "github.com/metrico/qryn/writer/model"
	"github.com/metrico/qryn/writer/utils/unmarshal"
	"google.golang.org/protobuf/proto"
	fakes "verif/harness/fakes17"
	"verif/harness/h"
)

type c16PVT struct {
	T int64 `json:"t"`
	U int64 `json:"u"`
}
type c16PLabel struct {
	K  int64 `json:"k"`
	S  int64 `json:"s"`
	N  int64 `json:"n"`
	NU int64 `json:"nu"`
}
type c16PSample struct {
	Locs   []uint64    `json:"locs"`
	Vals   []int64     `json:"vals"`
	Labels []c16PLabel `json:"labels"`
}
type c16PMapping struct {
	ID, Start, Limit, Offset uint64
	Filename, BuildID        int64
	Flags                    int
}
type c16PLine struct {
	Fn   uint64
	Line int64
	Col  int64
}
type c16PLocation struct {
	ID, Mapping, Address uint64
	Lines                []c16PLine
	Folded               bool
}
type c16PFunction struct {
	ID                                  uint64
	Name, SysName, Filename, StartLine int64
}
type c16PProfile struct {
	Strings     []string       `json:"strings"`
	SampleTypes []c16PVT       `json:"sample_types"`
	PeriodType  *c16PVT        `json:"period_type"`
	Samples     []c16PSample   `json:"samples"`
	Mappings    []c16PMapping  `json:"mappings"`
	Locations   []c16PLocation `json:"locations"`
	Functions   []c16PFunction `json:"functions"`
	DropFrames  int64          `json:"drop_frames"`
	KeepFrames  int64          `json:"keep_frames"`
	TimeNanos   int64          `json:"time_nanos"`
	Duration    int64          `json:"duration_nanos"`
	Period      int64          `json:"period"`
	Comments    []int64        `json:"comments"`
	DefaultST   int64          `json:"default_sample_type"`
}

type c16PMergeCase struct {
	Profiles   []c16PProfile `json:"profiles"`
	WellFormed bool          `json:"well_formed"` // every reference of every profile resolves, ids unique: the semantic oracle applies
}

func (p c16PProfile) toProto() *prof.Profile {
	o := &prof.Profile{StringTable: append([]string{}, p.Strings...), DropFrames: p.DropFrames, KeepFrames: p.KeepFrames,
		TimeNanos: p.TimeNanos, DurationNanos: p.Duration, Period: p.Period, DefaultSampleType: p.DefaultST,
		Comment: append([]int64{}, p.Comments...)}
	for _, s := range p.SampleTypes {
		o.SampleType = append(o.SampleType, &prof.ValueType{Type: s.T, Unit: s.U})
	}
	if p.PeriodType != nil {
		o.PeriodType = &prof.ValueType{Type: p.PeriodType.T, Unit: p.PeriodType.U}
	}
	for _, s := range p.Samples {
		ps := &prof.Sample{LocationId: append([]uint64{}, s.Locs...), Value: append([]int64{}, s.Vals...)}
		for _, l := range s.Labels {
			ps.Label = append(ps.Label, &prof.Label{Key: l.K, Str: l.S, Num: l.N, NumUnit: l.NU})
		}
		o.Sample = append(o.Sample, ps)
	}
	for _, m := range p.Mappings {
		o.Mapping = append(o.Mapping, &prof.Mapping{Id: m.ID, MemoryStart: m.Start, MemoryLimit: m.Limit, FileOffset: m.Offset,
			Filename: m.Filename, BuildId: m.BuildID, HasFunctions: m.Flags&1 != 0, HasFilenames: m.Flags&2 != 0,
			HasLineNumbers: m.Flags&4 != 0, HasInlineFrames: m.Flags&8 != 0})
	}
	for _, l := range p.Locations {
		pl := &prof.Location{Id: l.ID, MappingId: l.Mapping, Address: l.Address, IsFolded: l.Folded}
		for _, ln := range l.Lines {
			pl.Line = append(pl.Line, &prof.Line{FunctionId: ln.Fn, Line: ln.Line, Column: ln.Col})
		}
		o.Location = append(o.Location, pl)
	}
	for _, f := range p.Functions {
		o.Function = append(o.Function, &prof.Function{Id: f.ID, Name: f.Name, SystemName: f.SysName, Filename: f.Filename, StartLine: f.StartLine})
	}
	return o
}

func c16PFromProto(o *prof.Profile) c16PProfile {
	p := c16PProfile{Strings: append([]string{}, o.StringTable...), DropFrames: o.DropFrames, KeepFrames: o.KeepFrames,
		TimeNanos: o.TimeNanos, Duration: o.DurationNanos, Period: o.Period, DefaultST: o.DefaultSampleType,
		Comments: append([]int64{}, o.Comment...)}
	for _, s := range o.SampleType {
		p.SampleTypes = append(p.SampleTypes, c16PVT{s.Type, s.Unit})
	}
	if o.PeriodType != nil {
		p.PeriodType = &c16PVT{o.PeriodType.Type, o.PeriodType.Unit}
	}
	for _, s := range o.Sample {
		ps := c16PSample{Locs: append([]uint64{}, s.LocationId...), Vals: append([]int64{}, s.Value...)}
		for _, l := range s.Label {
			ps.Labels = append(ps.Labels, c16PLabel{l.Key, l.Str, l.Num, l.NumUnit})
		}
		p.Samples = append(p.Samples, ps)
	}
	for _, m := range o.Mapping {
		fl := 0
		for i, b := range []bool{m.HasFunctions, m.HasFilenames, m.HasLineNumbers, m.HasInlineFrames} {
			if b {
				fl |= 1 << i
			}
		}
		p.Mappings = append(p.Mappings, c16PMapping{m.Id, m.MemoryStart, m.MemoryLimit, m.FileOffset, m.Filename, m.BuildId, fl})
	}
	for _, l := range o.Location {
		pl := c16PLocation{ID: l.Id, Mapping: l.MappingId, Address: l.Address, Folded: l.IsFolded}
		for _, ln := range l.Line {
			pl.Lines = append(pl.Lines, c16PLine{ln.FunctionId, ln.Line, ln.Column})
		}
		p.Locations = append(p.Locations, pl)
	}
	for _, f := range o.Function {
		p.Functions = append(p.Functions, c16PFunction{f.Id, f.Name, f.SystemName, f.Filename, f.StartLine})
	}
	return p
}

// ---- the line-protocol encoding (see lean/Driver/C16Pprof.lean)

func c16PWord(p c16PProfile) string {
	i := func(v int64) string { return strconv.FormatInt(v, 10) }
	u := func(v uint64) string { return strconv.FormatUint(v, 10) }
	jo := func(sep, empty string, xs []string) string {
		if len(xs) == 0 {
			return empty
		}
		return strings.Join(xs, sep)
	}
	var ss, sts, sams, maps, locs, fns, cm []string
	for _, s := range p.Strings {
		if s == "" {
			ss = append(ss, "-")
		} else {
			ss = append(ss, hex.EncodeToString([]byte(s)))
		}
	}
	for _, s := range p.SampleTypes {
		sts = append(sts, i(s.T)+"."+i(s.U))
	}
	pt := "~"
	if p.PeriodType != nil {
		pt = i(p.PeriodType.T) + "." + i(p.PeriodType.U)
	}
	for _, s := range p.Samples {
		var l, v, lb []string
		for _, x := range s.Locs {
			l = append(l, u(x))
		}
		for _, x := range s.Vals {
			v = append(v, i(x))
		}
		for _, x := range s.Labels {
			lb = append(lb, i(x.K)+":"+i(x.S)+":"+i(x.N)+":"+i(x.NU))
		}
		sams = append(sams, jo(":", "_", l)+"."+jo(":", "_", v)+"."+jo("+", "_", lb))
	}
	for _, m := range p.Mappings {
		maps = append(maps, strings.Join([]string{u(m.ID), u(m.Start), u(m.Limit), u(m.Offset), i(m.Filename), i(m.BuildID), strconv.Itoa(m.Flags)}, "."))
	}
	for _, l := range p.Locations {
		var ln []string
		for _, x := range l.Lines {
			ln = append(ln, u(x.Fn)+":"+u(uint64(x.Line))+":"+i(x.Col))
		}
		fo := "0"
		if l.Folded {
			fo = "1"
		}
		locs = append(locs, strings.Join([]string{u(l.ID), u(l.Mapping), u(l.Address), fo, jo("+", "_", ln)}, "."))
	}
	for _, f := range p.Functions {
		fns = append(fns, strings.Join([]string{u(f.ID), i(f.Name), i(f.SysName), i(f.Filename), i(f.StartLine)}, "."))
	}
	for _, c := range p.Comments {
		cm = append(cm, i(c))
	}
	hd := strings.Join([]string{i(p.DropFrames), i(p.KeepFrames), i(p.TimeNanos), i(p.Duration), i(p.Period), i(p.DefaultST), jo(":", "_", cm)}, ".")
	return strings.Join([]string{jo(",", "~", ss), jo(",", "~", sts), pt, jo("/", "~", sams), jo("/", "~", maps), jo("/", "~", locs), jo("/", "~", fns), hd}, "|")
}

// ---- running the real merge

// returns the canonical answer and the merged profile (nil on error / fault)
func c16PRun(ps []c16PProfile) (string, *prof.Profile) {
	var out *prof.Profile
	var res string
	func() {
		defer func() {
			if e := recover(); e != nil {
				res = fmt.Sprintf("panic:%v", e)
			}
		}()
		m := rsvc.NewProfileMergeV2()
		for _, p := range ps {
			if err := m.Merge(p.toProto()); err != nil {
				if strings.HasPrefix(err.Error(), "incompatible") {
					res = "err:incompatible"
				} else {
					res = "err:" + err.Error()
				}
				return
			}
		}
		out = m.Profile()
	}()
	if res != "" {
		return res, nil
	}
	return c16PWord(c16PFromProto(out)), out
}

// ---- oracle

type c16PResolved struct {
	key  string  // resolved stack and string labels
	vals []int64 // per sample type
}

// resolves the samples of a profile whose references are taken as they stand (ids looked up in the tables;
// ok=false when something does not resolve)
func c16PResolve(p *prof.Profile) (out []c16PResolved, ok bool, why string) {
	str := func(i int64) (string, bool) {
		if i < 0 || int(i) >= len(p.StringTable) {
			return "", false
		}
		return p.StringTable[i], true
	}
	fns := map[uint64]*prof.Function{}
	for _, f := range p.Function {
		fns[f.Id] = f
	}
	maps := map[uint64]*prof.Mapping{}
	for _, m := range p.Mapping {
		maps[m.Id] = m
	}
	locs := map[uint64]*prof.Location{}
	for _, l := range p.Location {
		locs[l.Id] = l
	}
	for si, s := range p.Sample {
		var parts []string
		for _, lid := range s.LocationId {
			l := locs[lid]
			if l == nil {
				return nil, false, fmt.Sprintf("sample %d names location %d which the profile lacks", si, lid)
			}
			mk := "nomap"
			if l.MappingId != 0 {
				m := maps[l.MappingId]
				if m == nil {
					return nil, false, fmt.Sprintf("location %d names mapping %d which the profile lacks", l.Id, l.MappingId)
				}
				size := m.MemoryLimit - m.MemoryStart
				size = size + 0x1000 - 1
				size = size - size%0x1000
				b, ok1 := str(m.BuildId)
				f, ok2 := str(m.Filename)
				if !ok1 || !ok2 {
					return nil, false, fmt.Sprintf("mapping %d has a string index outside the table", m.Id)
				}
				if b == "" {
					b = f
				}
				mk = fmt.Sprintf("map(%d,%d,%q)", size, m.FileOffset, b)
				if size == 0 && m.FileOffset == 0 && b == "" {
					mk = "nomap" // indistinguishable from the mapping the merger invents for locations without one
				}
			}
			var lines []string
			for _, ln := range l.Line {
				f := fns[ln.FunctionId]
				if f == nil {
					return nil, false, fmt.Sprintf("location %d names function %d which the profile lacks", l.Id, ln.FunctionId)
				}
				n, ok1 := str(f.Name)
				sn, ok2 := str(f.SystemName)
				fn, ok3 := str(f.Filename)
				if !ok1 || !ok2 || !ok3 {
					return nil, false, fmt.Sprintf("function %d has a string index outside the table", f.Id)
				}
				lines = append(lines, fmt.Sprintf("fn(%d,%q,%q,%q)@%d", f.StartLine, n, sn, fn, ln.Line))
			}
			parts = append(parts, fmt.Sprintf("loc(%d,%s,[%s])", l.Address, mk, strings.Join(lines, ";")))
		}
		var labels []string
		for _, lb := range s.Label {
			k, ok1 := str(lb.Key)
			v, ok2 := str(lb.Str)
			if _, ok3 := str(lb.NumUnit); !ok1 || !ok2 || !ok3 {
				return nil, false, fmt.Sprintf("a label of sample %d has a string index outside the table", si)
			}
			labels = append(labels, fmt.Sprintf("%q=%q", k, v))
		}
		sort.Strings(labels)
		out = append(out, c16PResolved{strings.Join(parts, " < ") + " {" + strings.Join(labels, ",") + "}", s.Value})
	}
	return out, true, ""
}

func c16PAggregate(rs []c16PResolved, nt int) map[string][]int64 {
	agg := map[string][]int64{}
	for _, r := range rs {
		a := agg[r.key]
		if a == nil {
			a = make([]int64, nt)
			agg[r.key] = a
		}
		for j := 0; j < nt && j < len(r.vals); j++ {
			a[j] += r.vals[j]
		}
	}
	return agg
}

func c16POracle(r *h.Result, c c16PMergeCase, got string, out *prof.Profile, key string) {
	viol := func(k, what string) {
		r.Violate("C16/"+k, what, map[string]any{"stream": "pmerge", "pmerge": c})
	}
	hasNilPeriod := false
	merged := 0
	for _, p := range c.Profiles {
		if len(p.Samples) == 0 || len(p.Strings) < 2 {
			continue
		}
		merged++
		if p.PeriodType == nil {
			hasNilPeriod = true
		}
	}
	if strings.HasPrefix(got, "panic:") {
		if hasNilPeriod && strings.Contains(got, "nil pointer") {
			r.Count("pmerge:nil-period-type")
			return // outside: the pinned writer cannot store a payload without period type (see notes)
		}
		viol("pmerge-fault", "ProfileMergeV2.Merge faulted ("+strings.TrimPrefix(got, "panic:")+"): SelectMergeProfile answers 500 for every time range holding this profile")
		return
	}
	if out == nil {
		if c.WellFormed && got != "err:incompatible" {
			viol("pmerge-error", "ProfileMergeV2.Merge refused well-formed profiles: "+got)
		}
		return
	}
	// every reference of the merged profile resolves
	res, ok, why := c16PResolve(out)
	if !ok {
		viol("pmerge-dangling-reference", "the merged profile has a reference that does not resolve: "+why)
		return
	}
	nstr := int64(len(out.StringTable))
	chk := func(what string, i int64) {
		if i < 0 || (i >= nstr && !(nstr == 0 && i == 0)) {
			viol("pmerge-dangling-string", fmt.Sprintf("the merged profile's %s is string index %d of %d strings", what, i, nstr))
		}
	}
	chk("drop_frames", out.DropFrames)
	chk("keep_frames", out.KeepFrames)
	chk("default_sample_type", out.DefaultSampleType)
	for _, st := range out.SampleType {
		chk("sample type", st.Type)
		chk("sample unit", st.Unit)
	}
	if out.PeriodType != nil {
		chk("period type", out.PeriodType.Type)
		chk("period unit", out.PeriodType.Unit)
	}
	for i, l := range out.Location {
		if l.Id != uint64(i+1) {
			viol("pmerge-ids", fmt.Sprintf("merged location %d has id %d", i, l.Id))
		}
	}
	if !c.WellFormed {
		return
	}
	// the semantic laws, from the inputs resolved in their own tables
	nt := len(out.SampleType)
	var all []c16PResolved
	for _, p := range c.Profiles {
		if len(p.Samples) == 0 || len(p.Strings) < 2 {
			continue
		}
		rs, ok, why := c16PResolve(p.toProto())
		if !ok {
			viol("pmerge-harness", "a profile generated as well-formed does not resolve: "+why)
			return
		}
		all = append(all, rs...)
	}
	want := c16PAggregate(all, nt)
	have := c16PAggregate(res, nt)
	for j := 0; j < nt; j++ {
		var a, b int64
		for _, v := range want {
			a += v[j]
		}
		for _, s := range out.Sample {
			if j < len(s.Value) {
				b += s.Value[j]
			}
		}
		if a != b {
			viol("pmerge-values", fmt.Sprintf("sample type %d: the merged samples add up to %d, the inputs' samples to %d", j, b, a))
		}
	}
	if len(res) != len(have) {
		viol("pmerge-not-aggregated", fmt.Sprintf("the merged profile has %d samples for %d distinct (stack, labels)", len(res), len(have)))
	}
	for k, w := range want {
		g, ok := have[k]
		if !ok {
			viol("pmerge-sample-lost", "the merged profile has no sample for "+k)
			continue
		}
		for j := range w {
			if g[j] != w[j] {
				viol("pmerge-sample-values", fmt.Sprintf("%s: merged value %d of type %d, the inputs add up to %d", k, g[j], j, w[j]))
			}
		}
	}
	for k := range have {
		if _, ok := want[k]; !ok {
			viol("pmerge-sample-invented", "the merged profile has a sample no input has: "+k)
		}
	}
	// labels' units, header strings: resolved in the output = resolved in the profile they came from
	unit := map[string]bool{}
	for _, p := range c.Profiles {
		for _, s := range p.Samples {
			for _, l := range s.Labels {
				if l.NU >= 0 && int(l.NU) < len(p.Strings) {
					unit[p.Strings[l.K]+"\x00"+p.Strings[l.NU]] = true
				}
			}
		}
	}
	for _, s := range out.Sample {
		for _, l := range s.Label {
			if l.NumUnit != 0 && !unit[out.StringTable[l.Key]+"\x00"+out.StringTable[l.NumUnit]] {
				viol("pmerge-label-unit", fmt.Sprintf("a merged label %q has the unit %q, which no input gives it", out.StringTable[l.Key], out.StringTable[l.NumUnit]))
			}
		}
	}
	first := -1
	for i, p := range c.Profiles {
		if len(p.Samples) > 0 && len(p.Strings) >= 2 {
			first = i
			break
		}
	}
	if first >= 0 {
		p := c.Profiles[first]
		if int(out.DropFrames) < len(out.StringTable) && p.DropFrames >= 0 && int(p.DropFrames) < len(p.Strings) && out.StringTable[out.DropFrames] != p.Strings[p.DropFrames] {
			viol("pmerge-header-string", fmt.Sprintf("drop_frames of the merged profile reads %q, the first profile's reads %q", out.StringTable[out.DropFrames], p.Strings[p.DropFrames]))
		}
		if int(out.KeepFrames) < len(out.StringTable) && p.KeepFrames >= 0 && int(p.KeepFrames) < len(p.Strings) && out.StringTable[out.KeepFrames] != p.Strings[p.KeepFrames] {
			viol("pmerge-header-string", fmt.Sprintf("keep_frames of the merged profile reads %q, the first profile's reads %q", out.StringTable[out.KeepFrames], p.Strings[p.KeepFrames]))
		}
		wantDst := ""
		for _, p := range c.Profiles {
			if len(p.Samples) > 0 && len(p.Strings) >= 2 && p.DefaultST >= 0 && int(p.DefaultST) < len(p.Strings) && p.Strings[p.DefaultST] != "" {
				wantDst = p.Strings[p.DefaultST]
				break
			}
		}
		if int(out.DefaultSampleType) < len(out.StringTable) && out.StringTable[out.DefaultSampleType] != wantDst {
			viol("pmerge-header-string", fmt.Sprintf("default_sample_type of the merged profile reads %q, the first input naming one says %q", out.StringTable[out.DefaultSampleType], wantDst))
		}
	}
}

// ---- generators

type c16PWorld struct {
	fnNames  []string
	files    []string
	labelK   []string
	labelV   []string
	units    []string
	types    [][2]string
	period   [2]string
	mapFiles []string
}

func c16PGenWorld(rng *h.Rng) c16PWorld {
	w := c16PWorld{period: [2]string{"cpu", "nanoseconds"}}
	for i := 0; i < rng.Range(1, 6); i++ {
		w.fnNames = append(w.fnNames, "pkg.fn"+strconv.Itoa(i))
	}
	w.files = []string{"a.go", "b.go"}
	w.labelK = []string{"thread", "bytes", "span"}
	w.labelV = []string{"main", "worker", ""}
	w.units = []string{"bytes", "requests", ""}
	n := rng.Range(1, 3)
	pool := [][2]string{{"samples", "count"}, {"cpu", "nanoseconds"}, {"alloc_space", "bytes"}}
	for i := 0; i < n; i++ {
		w.types = append(w.types, pool[i])
	}
	if rng.Chance(10) && n >= 2 {
		w.types[1] = w.types[0] // two sample types with the same type:unit
	}
	w.mapFiles = []string{"/bin/app", "/lib/libc.so", "[vdso]"}
	return w
}

// a well-formed profile over the world: its own string table (own order, sometimes with repeated strings, the empty
// string sometimes not first or missing), its own ids
func c16PGenProfile(rng *h.Rng, w c16PWorld, disjoint int) c16PProfile {
	var p c16PProfile
	// the layout of the string table is decided last: collect references symbolically
	type ref = *int64
	var fix []struct {
		r ref
		s string
	}
	use := func(r ref, s string) { fix = append(fix, struct {
		r ref
		s string
	}{r, s}) }
	p.SampleTypes = make([]c16PVT, len(w.types))
	for i, t := range w.types {
		use(&p.SampleTypes[i].T, t[0])
		use(&p.SampleTypes[i].U, t[1])
	}
	p.PeriodType = &c16PVT{}
	use(&p.PeriodType.T, w.period[0])
	use(&p.PeriodType.U, w.period[1])
	p.Period = int64(rng.Intn(3)) * 10
	p.TimeNanos = int64(rng.Intn(4)) * 1000
	p.Duration = int64(rng.Intn(100))
	if rng.Chance(40) {
		use(&p.DropFrames, h.Pick(rng, []string{"runtime\\..*", "drop"}))
	}
	if rng.Chance(30) {
		use(&p.KeepFrames, "keep")
	}
	if rng.Chance(40) {
		use(&p.DefaultST, h.Pick(rng, w.types)[0])
	}
	// functions
	nf := rng.Range(1, len(w.fnNames))
	perm := c16Shuffle(rng, len(w.fnNames))
	idBase := uint64(rng.Range(1, 50))
	p.Functions = make([]c16PFunction, nf)
	for i := 0; i < nf; i++ {
		name := w.fnNames[perm[i]]
		p.Functions[i] = c16PFunction{ID: idBase + uint64(i)*uint64(rng.Range(1, 3)), StartLine: int64(perm[i] * 10)}
		if i > 0 && p.Functions[i].ID <= p.Functions[i-1].ID {
			p.Functions[i].ID = p.Functions[i-1].ID + 1
		}
		use(&p.Functions[i].Name, name)
		use(&p.Functions[i].SysName, name)
		use(&p.Functions[i].Filename, w.files[perm[i]%2])
	}
	// mappings
	nm := rng.Range(0, 2)
	p.Mappings = make([]c16PMapping, nm)
	for i := 0; i < nm; i++ {
		start := uint64(0x400000 * (i + 1))
		p.Mappings[i] = c16PMapping{ID: uint64(i*3 + 7), Start: start, Limit: start + uint64(rng.Range(1, 3))*0x1000 - uint64(rng.Intn(0x800)), Offset: uint64(i) * 0x1000, Flags: rng.Intn(16)}
		use(&p.Mappings[i].Filename, w.mapFiles[i])
		if rng.Chance(50) {
			use(&p.Mappings[i].BuildID, "build-"+strconv.Itoa(i))
		}
	}
	// locations
	nl := rng.Range(1, 8)
	p.Locations = make([]c16PLocation, nl)
	for i := 0; i < nl; i++ {
		l := c16PLocation{ID: uint64(100 + i*2), Address: uint64(rng.Intn(4)) * 0x10}
		if nm > 0 && rng.Chance(70) {
			l.Mapping = p.Mappings[rng.Intn(nm)].ID
		}
		switch {
		case rng.Chance(12):
			// no lines (unsymbolised)
		default:
			for k := 0; k < rng.Range(1, 2); k++ {
				l.Lines = append(l.Lines, c16PLine{Fn: p.Functions[rng.Intn(nf)].ID, Line: int64(rng.Range(1, 40)), Col: int64(rng.Intn(3))})
			}
		}
		p.Locations[i] = l
	}
	// samples
	ns := rng.Range(1, 12)
	p.Samples = make([]c16PSample, ns)
	for i := 0; i < ns; i++ {
		s := c16PSample{}
		if !rng.Chance(8) {
			for k := 0; k < rng.Range(1, 5); k++ {
				s.Locs = append(s.Locs, p.Locations[rng.Intn(nl)].ID)
			}
		}
		for range w.types {
			s.Vals = append(s.Vals, int64(rng.Intn(100)))
		}
		for k := 0; k < rng.Intn(3); k++ {
			s.Labels = append(s.Labels, c16PLabel{})
		}
		p.Samples[i] = s
	}
	for i := range p.Samples {
		for k := range p.Samples[i].Labels {
			lb := &p.Samples[i].Labels[k]
			key := h.Pick(rng, w.labelK)
			use(&lb.K, key)
			if key == "bytes" {
				lb.N = int64(rng.Range(1, 4)) * 64
				use(&lb.NU, h.Pick(rng, w.units))
			} else {
				use(&lb.S, h.Pick(rng, w.labelV))
			}
		}
	}
	// string table: collect, lay out
	seen := map[string]bool{}
	var strs []string
	for _, f := range fix {
		s := f.s
		if disjoint > 0 && s != "" {
			isType := false
			for _, t := range w.types {
				if s == t[0] || s == t[1] {
					isType = true
				}
			}
			if s == w.period[0] || s == w.period[1] {
				isType = true
			}
			if !isType {
				s = s + "#" + strconv.Itoa(disjoint)
			}
		}
		if !seen[s] && s != "" {
			seen[s] = true
			strs = append(strs, s)
		}
	}
	for _, extra := range []string{"unused", "x"} {
		if rng.Chance(30) && !seen[extra] {
			seen[extra] = true
			strs = append(strs, extra)
		}
	}
	order := c16Shuffle(rng, len(strs))
	table := []string{}
	emptyAt := 0
	switch {
	case rng.Chance(15):
		emptyAt = rng.Range(0, len(strs)) // the empty string somewhere else
	case rng.Chance(8):
		emptyAt = -1 // no empty string at all
	}
	pos := map[string][]int64{}
	for i, k := range order {
		if i == emptyAt {
			pos[""] = append(pos[""], int64(len(table)))
			table = append(table, "")
		}
		pos[strs[k]] = append(pos[strs[k]], int64(len(table)))
		table = append(table, strs[k])
		if rng.Chance(10) { // the same string twice in the table
			pos[strs[k]] = append(pos[strs[k]], int64(len(table)))
			table = append(table, strs[k])
		}
	}
	if emptyAt >= len(order) {
		pos[""] = append(pos[""], int64(len(table)))
		table = append(table, "")
	}
	for _, f := range fix {
		s := f.s
		if s == "" {
			*f.r = 0 // "unset" is index 0 whatever sits there; sanitizeProfile reads 0 as the empty string
			if len(pos[""]) > 0 && rng.Chance(30) {
				*f.r = pos[""][0]
			}
			continue
		}
		if disjoint > 0 {
			if _, ok := pos[s]; !ok {
				s = s + "#" + strconv.Itoa(disjoint)
			}
		}
		cands := pos[s]
		*f.r = cands[rng.Intn(len(cands))]
	}
	p.Strings = table
	return p
}

// damage: references that do not resolve, repeated ids, wrong arity, wild string indices
func c16PDamage(rng *h.Rng, p c16PProfile) c16PProfile {
	for k := 0; k < rng.Range(1, 3); k++ {
		switch rng.Intn(9) {
		case 0:
			if len(p.Samples) > 0 {
				s := &p.Samples[rng.Intn(len(p.Samples))]
				s.Locs = append(s.Locs, 9999)
			}
		case 1:
			if len(p.Samples) > 0 {
				s := &p.Samples[rng.Intn(len(p.Samples))]
				s.Vals = append(s.Vals, 1)
			}
		case 2:
			if len(p.Locations) > 0 {
				p.Locations[rng.Intn(len(p.Locations))].Mapping = 4242
			}
		case 3:
			if len(p.Locations) > 0 {
				l := &p.Locations[rng.Intn(len(p.Locations))]
				l.Lines = append(l.Lines, c16PLine{Fn: 777, Line: 1})
			}
		case 4:
			if len(p.Functions) > 1 {
				p.Functions[1].ID = p.Functions[0].ID
			}
		case 5:
			if len(p.Locations) > 1 {
				p.Locations[1].ID = p.Locations[0].ID
			}
		case 6:
			if len(p.Functions) > 0 {
				p.Functions[rng.Intn(len(p.Functions))].Name = h.Pick(rng, []int64{-1, int64(len(p.Strings)), int64(len(p.Strings)) + 5, 1 << 40})
			}
		case 7:
			if len(p.Samples) > 0 && len(p.Samples[0].Labels) > 0 {
				p.Samples[0].Labels[0].NU = h.Pick(rng, []int64{-3, int64(len(p.Strings)) + 1})
			}
		case 8:
			if len(p.Mappings) > 1 {
				p.Mappings[1].ID = p.Mappings[0].ID
			}
		}
	}
	return p
}

func c16PGenCase(rng *h.Rng) c16PMergeCase {
	w := c16PGenWorld(rng)
	n := rng.Range(1, 4)
	c := c16PMergeCase{WellFormed: true}
	mode := rng.Intn(10)
	for i := 0; i < n; i++ {
		d := 0
		if mode == 0 || (mode == 1 && i%2 == 1) {
			d = i + 1 // string tables disjoint (apart from the type names)
		}
		p := c16PGenProfile(rng, w, d)
		if mode == 2 && i > 0 && rng.Chance(50) {
			p = c.Profiles[0] // the same profile twice
		}
		c.Profiles = append(c.Profiles, p)
	}
	switch {
	case rng.Chance(12):
		i := rng.Intn(n)
		c.Profiles[i] = c16PDamage(rng, c.Profiles[i])
		c.WellFormed = false
	case rng.Chance(4):
		c.Profiles[rng.Intn(n)].Samples = nil // skipped by Merge
	case rng.Chance(3) && n >= 2:
		// incompatible: another period type
		p := &c.Profiles[n-1]
		p.Strings = append(p.Strings, "wall")
		p.PeriodType = &c16PVT{int64(len(p.Strings) - 1), p.PeriodType.U}
	}
	return c
}

func c16PMergeRun(r *h.Result, c c16PMergeCase, ops, impl *[]string, cases *[]any) {
	var words []string
	for _, p := range c.Profiles {
		words = append(words, c16PWord(p))
	}
	op := "c16pmerge " + strings.Join(words, " ")
	got, out := c16PRun(c.Profiles)
	key := fmt.Sprintf("pmerge:%016x", city.CH64([]byte(op)))
	nsamples := 0
	for _, p := range c.Profiles {
		nsamples += len(p.Samples)
	}
	r.Case(key, nsamples >= 2)
	r.Count(fmt.Sprintf("pmerge:profiles=%d", len(c.Profiles)))
	if c.WellFormed {
		r.Count("pmerge:well-formed")
	} else {
		r.Count("pmerge:damaged")
	}
	if strings.HasPrefix(got, "err:") {
		r.Count("pmerge:" + got)
	}
	model := got
	if strings.HasPrefix(got, "panic:") && strings.Contains(got, "nil pointer") {
		model = "err:nil-period-type"
	}
	*ops = append(*ops, op)
	*impl = append(*impl, model)
	*cases = append(*cases, map[string]any{"stream": "pmerge", "pmerge": c})
	c16POracle(r, c, got, out, key)
}

// end to end: pprof profiles through the real writer, the stored payloads through ProfService.MergeProfiles
func c16PEndToEnd(r *h.Result, rng *h.Rng, ps []c16Profile) {
	var payloads [][]byte
	var want []int64
	for _, p := range ps {
		body, _, err := c16Encode(p, rng)
		if err != nil {
			return
		}
		fn := unmarshal.UnmarshalBinaryStreamProfileProtoV2
		if p.Mode == "mime" {
			fn = unmarshal.UnmarshalProfileProtoV2
		}
		ctx := context.WithValue(context.Background(), "from", "1700000000")
		ctx = context.WithValue(ctx, "until", "1700000010")
		ctx = context.WithValue(ctx, "name", "app{a=b}")
		for resp := range fn(ctx, bytes.NewReader(body), nil) {
			if resp.Error != nil {
				continue
			}
			if pd, ok := resp.ProfileRequest.(*wmodel.ProfileData); ok && pd != nil {
				payloads = append(payloads, pd.Payload...)
			}
		}
		if want == nil {
			want = make([]int64, len(p.Types))
		}
		for _, s := range p.Samples {
			for j := range p.Types {
				want[j] += s.Vals[j]
			}
		}
	}
	sc := fakes.NewScript(func(q string) ([]string, [][]driver.Value, error) {
		var rows [][]driver.Value
		for _, b := range payloads {
			rows = append(rows, []driver.Value{b})
		}
		return []string{"payload"}, rows, nil
	})
	defer sc.Close()
	svc := &rsvc.ProfService{DataSession: sc.Registry("qryn", "")}
	replay := map[string]any{"stream": "pmerge-e2e", "profiles": ps}
	var out *prof.Profile
	var err error
	func() {
		defer func() {
			if e := recover(); e != nil {
				err = fmt.Errorf("panic: %v", e)
			}
		}()
		out, err = svc.MergeProfiles(context.Background(), `{service_name="a"}`, "process_cpu:cpu:nanoseconds:cpu:nanoseconds", time.Unix(1000, 0), time.Unix(2000, 0))
	}()
	r.Case(fmt.Sprintf("pmerge-e2e:%d:%d", len(ps), len(payloads)), len(payloads) >= 1)
	r.Count("pmerge:end-to-end")
	if err != nil {
		r.Violate("C16/pmerge-fault", "ProfService.MergeProfiles failed on payloads stored by the writer: "+err.Error(), replay)
		return
	}
	if len(payloads) == 0 {
		return
	}
	// the merged payload must still be a profile pprof tools accept, and carry all the weight
	if _, ok, why := c16PResolve(out); !ok {
		r.Violate("C16/pmerge-dangling-reference", "merged payloads: "+why, replay)
		return
	}
	for j := range want {
		var got int64
		for _, s := range out.Sample {
			if j < len(s.Value) {
				got += s.Value[j]
			}
		}
		anySamples := false
		for _, p := range ps {
			if len(p.Samples) > 0 {
				anySamples = true
			}
		}
		if got != want[j] && anySamples {
			r.Violate("C16/pmerge-values", fmt.Sprintf("sample type %d: merged payloads add up to %d, the pushed profiles to %d", j, got, want[j]), replay)
		}
	}
	if b, err := proto.Marshal(out); err != nil || len(b) == 0 && len(out.Sample) > 0 {
		r.Violate("C16/pmerge-encode", "the merged profile does not encode", replay)
	}
}

func c16PMergeStream(r *h.Result, rng *h.Rng, n, ne2e int, withCorpus bool, ops, impl *[]string, cases *[]any) {
	base := func() c16PProfile {
		return c16PProfile{Strings: []string{"", "samples", "count", "cpu", "nanoseconds", "main", "main.go"},
			SampleTypes: []c16PVT{{1, 2}}, PeriodType: &c16PVT{3, 4},
			Functions: []c16PFunction{{ID: 1, Name: 5, SysName: 5, Filename: 6}},
			Locations: []c16PLocation{{ID: 1, Lines: []c16PLine{{Fn: 1, Line: 10}}}},
			Samples:   []c16PSample{{Locs: []uint64{1}, Vals: []int64{7}}}}
	}
	stackless := base()
	stackless.Samples = append(stackless.Samples, c16PSample{Vals: []int64{5}})
	nolines := base()
	nolines.Locations = append(nolines.Locations, c16PLocation{ID: 2})
	nolines.Samples = append(nolines.Samples, c16PSample{Locs: []uint64{2}, Vals: []int64{5}})
	numunit := base()
	numunit.Strings = []string{"", "samples", "count", "cpu", "nanoseconds", "main", "main.go", "main", "main", "bytes", "kilobytes"}
	numunit.Samples[0].Labels = []c16PLabel{{K: 9, N: 100, NU: 10}}
	hdr := base()
	hdr.Strings = []string{"", "samples", "count", "cpu", "nanoseconds", "main", "main.go", "main", "main", "drop", "samples"}
	hdr.DropFrames, hdr.DefaultST = 9, 10
	second := base()
	second.Strings = []string{"", "cpu", "nanoseconds", "samples", "count", "main.go", "main", "requests", "size"}
	second.SampleTypes = []c16PVT{{3, 4}}
	second.PeriodType = &c16PVT{1, 2}
	second.Functions = []c16PFunction{{ID: 1, Name: 6, SysName: 6, Filename: 5}}
	second.Samples = []c16PSample{{Locs: []uint64{1, 1}, Vals: []int64{3}, Labels: []c16PLabel{{K: 8, N: 5, NU: 7}}}}
	second.DefaultST = 3
	noperiod := base()
	noperiod.PeriodType = nil
	corpus := []c16PMergeCase{
		{Profiles: []c16PProfile{base()}, WellFormed: true},
		{Profiles: []c16PProfile{stackless}, WellFormed: true},
		{Profiles: []c16PProfile{nolines}, WellFormed: true},
		{Profiles: []c16PProfile{numunit}, WellFormed: true},
		{Profiles: []c16PProfile{hdr}, WellFormed: true},
		{Profiles: []c16PProfile{base(), second}, WellFormed: true},
		{Profiles: []c16PProfile{second, base(), stackless, nolines}, WellFormed: true},
		{Profiles: []c16PProfile{noperiod}, WellFormed: false},
		{},
	}
	if withCorpus {
		for _, c := range corpus {
			c16PMergeRun(r, c, ops, impl, cases)
		}
	}
	for i := 0; i < n; i++ {
		c := c16PGenCase(rng)
		c16PMergeRun(r, c, ops, impl, cases)
		// the same profiles in another order: the resolved result is the same (the oracle compares each with the inputs)
		if c.WellFormed && len(c.Profiles) >= 2 && i%3 == 0 {
			perm := c16Shuffle(rng, len(c.Profiles))
			c2 := c16PMergeCase{WellFormed: true}
			for _, k := range perm {
				c2.Profiles = append(c2.Profiles, c.Profiles[k])
			}
			c16PMergeRun(r, c2, ops, impl, cases)
		}
		if i%60 == 0 {
			r.Sample(map[string]any{"stream": "pmerge", "profiles": len(c.Profiles), "well_formed": c.WellFormed, "strings": len(c.Profiles[0].Strings)})
		}
	}
	for i := 0; i < ne2e; i++ {
		types := c16Types(rng)
		pool := c16FnPool(rng)
		k := rng.Range(1, 4)
		var ps []c16Profile
		for j := 0; j < k; j++ {
			ps = append(ps, c16GenProfile(rng, types, pool, 12, 6, 0, 10))
		}
		c16PEndToEnd(r, rng, ps)
	}
}
