package main

// C16 — streams added by the extension (diff view, pprof payload merge, caps); called from c16() after the two
// original streams so that those keep their random sequence.

import (
	"strings"

	"verif/harness/h"
)

func c16Ext(r *h.Result, rng *h.Rng, tier string, ops, impl *[]string, cases *[]any) {
	nDiff := 400
	switch tier {
	case "thorough":
		nDiff = 12000
	case "search":
		nDiff = 3000
	}
	r.Stream("diff: ProfService.RenderDiff (getTree ×2 over a scripted database → synchronizeNames, mergeNodes, computeFlameGraphDiff) vs Prof.renderDiff; oracle: both sides' values per node, every node of either tree once, contiguous layout and nesting on both sides, names table")
	dr := rng.Fork()
	c16DiffStream(r, dr, nDiff, ops, impl, cases)
}

func c16ExtStream(op string) string {
	switch {
	case strings.HasPrefix(op, "c16diff"):
		return "diff"
	}
	return ""
}

func c16ReplayExt(r *h.Result, rng *h.Rng, stream string, raw []byte, ops, impl *[]string, cases *[]any) bool {
	return false
}
