package main

// C16 — streams added by the extension (diff view, pprof payload merge, caps); called from c16() after the two
// original streams so that those keep their random sequence.

import (
	"encoding/json"
	"strings"

	"verif/harness/h"
)

func c16Ext(r *h.Result, rng *h.Rng, tier string, ops, impl *[]string, cases *[]any) error {
	nDiff, nPM, nE2E := 400, 400, 40
	switch tier {
	case "thorough":
		nDiff, nPM, nE2E = 6000, 6000, 600
	case "search":
		nDiff, nPM, nE2E = 3000, 3000, 300
	}
	r.Stream("diff: ProfService.RenderDiff (getTree ×2 over a scripted database → synchronizeNames, mergeNodes, computeFlameGraphDiff) vs Prof.renderDiff; oracle: both sides' values per node, every node of either tree once, contiguous layout and nesting on both sides, names table")
	dr := rng.Fork()
	for done := 0; done < nDiff; done += 2000 {
		c16DiffStream(r, dr, min(2000, nDiff-done), done == 0, ops, impl, cases)
		if err := c16Flush(r, ops, impl, cases); err != nil {
			return err
		}
	}
	r.Stream("pmerge: service.NewProfileMergeV2().Merge / Profile on decoded prof.Profile structs (shared and disjoint string tables, repeated strings, the empty string elsewhere or missing, stackless samples, locations without lines or mapping, numeric labels with units, damaged references) vs Prof.Pprof.mergeAll / result; ProfService.MergeProfiles on payloads stored by the real writer; oracle: no fault, no dangling reference, value sums, resolved samples = per-key sums of the resolved inputs, in any order")
	pr := rng.Fork()
	for done := 0; done < nPM; done += 2000 {
		e2e := 0
		if done == 0 {
			e2e = nE2E
		}
		c16PMergeStream(r, pr, min(2000, nPM-done), e2e, done == 0, ops, impl, cases)
		if err := c16Flush(r, ops, impl, cases); err != nil {
			return err
		}
	}
	r.Stream("cap: a Go reference of the cut (capped merge = plain merge of the row prefix before the first row that would add node cap+1) vs Prof.mergeTrieCap at small caps, and vs the real MergeTrie at the real cap on 2 020 101 rows; the real name cap on 2 000 003 functions; oracle: what the cut does to conservation and nesting (recorded finding)")
	cr := rng.Fork()
	c16CapModelCases(r, cr, nDiff/2, ops, impl, cases)
	c16CapReal(r)
	r.Stream("dup-types: profiles with two sample types of one type:unit name through the writer and the reader's first-by-name projection vs Prof.firstIdx; the merge oracle with the FIRST type's values")
	tr := rng.Fork()
	c16DupTypes(r, tr, nDiff/8, ops, impl, cases)
	return nil
}

func c16ExtStream(op string) string {
	switch {
	case strings.HasPrefix(op, "c16diff"):
		return "diff"
	case strings.HasPrefix(op, "c16pmerge"):
		return "pmerge"
	case strings.HasPrefix(op, "c16capflame"):
		return "cap"
	case strings.HasPrefix(op, "c16first"):
		return "dup-types"
	}
	return ""
}

func c16ReplayExt(r *h.Result, rng *h.Rng, stream string, raw []byte, ops, impl *[]string, cases *[]any) bool {
	switch stream {
	case "pmerge":
		var f struct {
			Replay struct {
				PMerge c16PMergeCase `json:"pmerge"`
			} `json:"replay"`
		}
		if json.Unmarshal(raw, &f) != nil {
			return false
		}
		c16PMergeRun(r, f.Replay.PMerge, ops, impl, cases)
		return true
	case "pmerge-e2e":
		var f struct {
			Replay struct {
				Profiles []c16Profile `json:"profiles"`
			} `json:"replay"`
		}
		if json.Unmarshal(raw, &f) != nil {
			return false
		}
		c16PEndToEnd(r, rng, f.Replay.Profiles)
		return true
	case "cap-real":
		c16CapReal(r)
		return true
	}
	return false
}
