package main

// C01 — a push is acknowledged only after ClickHouse accepted all of its rows.
// Streams:
//   svc          the six real insert services driven step by step (verif hook) vs the Lean batcher machine
//   retry        retry-go's Do under the options doPush uses vs the model's retryFrom
//   handler-seq  the real PushStreamV2 handler, one client, scripted Do outcomes per service vs the model's
//                doPush/doParse/handler (status and attempts made)
//   handler-soak concurrent pushes through the real handler with real Run loops, timers and random
//                Do/connect outcomes; oracle only (thorough: 16 goroutines, built and run with -race)
// Oracle: a promise completed without error / a 2xx answer implies that every row of the request was in a
// Do call that had returned nil before; every promise completes within the final fair schedule.

import (
	"bytes"
	"encoding/json"
	"fmt"
	"net/http"
	"net/http/httptest"
	"os"
	"os/exec"
	"path/filepath"
	"sort"
	"strings"
	"sync"
	"sync/atomic"
	"time"

	retry "github.com/avast/retry-go"
	clconfig "github.com/metrico/cloki-config"
	"github.com/metrico/qryn/writer/config"
	controllerv1 "github.com/metrico/qryn/writer/controller"
	"github.com/metrico/qryn/writer/service"
	"github.com/metrico/qryn/writer/service/registry"
	"verif/harness/h"
)

func init() { props["C01"] = c01 }

func containsSub(hay, needle []uint64) bool {
	if len(needle) == 0 {
		return true
	}
	for i := 0; i+len(needle) <= len(hay); i++ {
		ok := true
		for j := range needle {
			if hay[i+j] != needle[j] {
				ok = false
				break
			}
		}
		if ok {
			return true
		}
	}
	return false
}

// judgeC01 looks at the event log of one step-by-step run, without the model.
func judgeC01(r *h.Result, sc *scenario, res *scenResult) {
	var okBlocks []*block
	for _, ev := range res.events {
		switch ev.Kind {
		case "insert":
			if ev.Ok {
				okBlocks = append(okBlocks, ev.Blk)
			}
		case "resolved":
			if !ev.Ok {
				continue
			}
			req := res.reqs[ev.ID]
			n := req.nrows(sc.Kind)
			if n < 0 {
				continue // malformed request (non-rectangular / wrong type): it has no rows to speak of
			}
			if n == 0 {
				r.Count("svc:ack-empty-request")
				continue
			}
			found := false
			for _, b := range okBlocks {
				all := true
				for _, c := range b.Cols {
					if !containsSub(b.Data[c], req.colCells(sc.Kind, c)) {
						all = false
						break
					}
				}
				if all {
					found = true
					break
				}
			}
			r.Count("svc:ack-checked")
			if !found {
				r.Violate("C01/ack-without-successful-insert",
					fmt.Sprintf("%s service: promise of request %d (%d rows) completed without error but no earlier Do that returned nil contains its rows", sc.Kind, ev.ID, n),
					map[string]any{"stream": "svc", "scenario": sc, "impl": res.implOut})
			}
		}
	}
	if len(res.hung) > 0 {
		r.Violate("C01/promise-never-completed",
			fmt.Sprintf("%s service: promises %v are still open after a complete flush round (Do completion, trigger, successful connect, swap, Do completion)", sc.Kind, res.hung),
			map[string]any{"stream": "svc", "scenario": sc, "impl": res.implOut})
	}
	if len(res.hungZero) > 0 {
		r.Count("svc:zero-size-request-left-queued")
	}
}

// runSvcStream runs corpus + generated scenarios (in parallel workers: a failed connect sleeps 1 s in the
// service), compares with the model and hands every run to judge.
func runSvcStream(r *h.Result, rng *h.Rng, n, maxOps, connFailBudget int, big bool, replay *scenario,
	judge func(*h.Result, *scenario, *scenResult)) error {
	var scs []*scenario
	if replay != nil {
		scs = []*scenario{replay}
	} else {
		scs = corpusScenarios()
		for len(scs) < n {
			allow := connFailBudget > 0 && rng.Chance(10)
			sc := genScenario(rng.Fork(), maxOps, allow, big)
			for _, op := range sc.Ops {
				if op.Kind == "iter" && !op.Ok {
					connFailBudget--
				}
			}
			scs = append(scs, sc)
		}
	}
	// in chunks: results hold decoded blocks and are dropped as soon as they are compared and judged
	const chunk = 120
	for base := 0; base < len(scs); base += chunk {
		end := base + chunk
		if end > len(scs) {
			end = len(scs)
		}
		if err := runSvcChunk(r, scs[base:end], base, judge); err != nil {
			return err
		}
	}
	return nil
}

func runSvcChunk(r *h.Result, scs []*scenario, base int, judge func(*h.Result, *scenario, *scenResult)) error {
	results := make([]*scenResult, len(scs))
	var wg sync.WaitGroup
	sem := make(chan struct{}, 12)
	for i := range scs {
		wg.Add(1)
		sem <- struct{}{}
		go func(i int) {
			defer wg.Done()
			defer func() { <-sem }()
			results[i] = runScenario(scs[i])
		}(i)
	}
	wg.Wait()
	var ops, impl []string
	var cases []any
	for i, res := range results {
		sc := scs[i]
		if res.err != nil && res.timedOut {
			// a deadline passed: clock-based. The op sequence ALONE, with 10× the time, decides (c0102_wait.go)
			first := res
			c0102Confirm(func(scale int) bool {
				cp := *sc
				cp.scale = scale
				res = runScenario(&cp)
				return res.err != nil && res.timedOut
			})
			if res.err != nil && res.timedOut {
				r.Count("svc:deadline-missed-confirmed")
				r.Violate("C01/service-call-never-returned",
					fmt.Sprintf("%s service: %v (shown again by the op sequence alone with %d× the deadline); ops played: %s", sc.Kind, res.err,
						c0102ConfirmScale, trunc(strings.Join(res.opsSoFar, ";"), 300)),
					map[string]any{"stream": "svc", "scenario": sc, "ops_played": res.opsSoFar, "first_run": first.err.Error()})
				continue
			}
			r.Count("svc:deadline-missed-not-confirmed")
			results[i] = res
		}
		if res.err != nil {
			return fmt.Errorf("scenario %d: %v", base+i, res.err)
		}
		nreq, nonRect := 0, false
		for _, id := range sortedKeys(res.reqs) {
			nreq++
			if res.reqs[id].nrows(sc.Kind) < 0 {
				nonRect = true
			}
		}
		nDo := res.stats["do-ok"] + res.stats["do-err"]
		key := fmt.Sprintf("svc:%s:%s", sc.Kind, res.implOut)
		r.Case(key, nDo > 0 && nreq > 0)
		r.Count("svc:kind:" + sc.Kind)
		r.Count(fmt.Sprintf("svc:subservices:%d", sc.SvcNum))
		r.CountN("svc:requests", nreq)
		r.CountN("svc:do-ok", res.stats["do-ok"])
		r.CountN("svc:do-err", res.stats["do-err"])
		r.CountN("svc:connect-fail", res.stats["connect-fail"])
		r.CountN("svc:silent-iteration", res.stats["silent-iteration"])
		r.CountN("svc:stop", res.stats["stop"])
		r.CountN("svc:watchdog-ping", res.stats["ping"])
		r.CountN("svc:watchdog-ping-failed-client-dropped", res.stats["ping-fail"])
		if nonRect {
			r.Count("svc:with-malformed-request")
		}
		if strings.Contains(res.implOut, "x") && strings.HasSuffix(res.implOut, "#crashed") {
			r.Count("svc:crash")
		}
		if (base+i)%53 == 0 {
			r.Sample(map[string]any{"stream": "svc", "model_line": trunc(res.modelOps, 400), "impl": trunc(res.implOut, 400)})
		}
		judge(r, sc, res)
		if res.skip {
			r.Count("svc:tie-skipped")
			continue
		}
		ops = append(ops, res.modelOps)
		impl = append(impl, res.implOut)
		cases = append(cases, sc)
	}
	return r.Compare("svc", ops, impl, cases)
}

func trunc(s string, n int) string {
	if len(s) > n {
		return s[:n] + "…"
	}
	return s
}

// ---------------------------------------------------------------- retry-go tie

func c01Retry(r *h.Result, rng *h.Rng, n int) error {
	r.Stream("retry: avast/retry-go Do(Attempts(n), Delay(0), FixedDelay) as doPush calls it vs Batcher.doPush; attempts 0..4, outcome strings ≤ 6")
	var ops, impl []string
	for i := 0; i < n; i++ {
		attempts := rng.Intn(5)
		outs := make([]bool, rng.Intn(7))
		s := ""
		for j := range outs {
			outs[j] = rng.Chance(35)
			s += b01(outs[j])
		}
		if s == "" {
			s = "0"
		}
		k := 0
		err := retry.Do(func() error {
			ok := k < len(outs) && outs[k]
			k++
			if ok {
				return nil
			}
			return fmt.Errorf("attempt failed")
		}, retry.Attempts(uint(attempts)), retry.Delay(0), retry.DelayType(retry.FixedDelay))
		ops = append(ops, fmt.Sprintf("c01push %d 1 1 %s", attempts, s))
		impl = append(impl, fmt.Sprintf("%s %d", okStr(err == nil), k))
		r.Case(fmt.Sprintf("retry:%d:%s", attempts, s), attempts > 0)
		r.Count(fmt.Sprintf("retry:attempts=%d", attempts))
	}
	return r.Compare("retry", ops, impl, nil)
}

// ---------------------------------------------------------------- the real handler

var cfgOnce sync.Once

func initWriterConfig() { config.Cloki = clconfig.New(clconfig.CLOKI_WRITER, nil, "", "") }

type handlerRig struct {
	envs    map[string]*fakeEnv
	svcs    map[string]*service.InsertServiceV2Multimodal
	handler func(w http.ResponseWriter, r *http.Request)
}

func newHandlerRig(rng *h.Rng, attempts int, interval time.Duration, maxQueue int64, par int, failDo, failConn, connBudget int,
	scripts map[string][]bool) *handlerRig {
	c0102Setup()
	cfgOnce.Do(initWriterConfig)
	config.Cloki.Setting.SYSTEM_SETTINGS.RetryAttempts = attempts
	config.Cloki.Setting.SYSTEM_SETTINGS.RetryTimeoutS = 0
	rig := &handlerRig{envs: map[string]*fakeEnv{}, svcs: map[string]*service.InsertServiceV2Multimodal{}}
	maps := map[string]map[string]service.IInsertServiceV2{}
	for _, k := range kinds {
		env := &fakeEnv{rng: rng.Fork(), failDo: failDo, failConn: failConn, connBudget: connBudget, script: scripts[k]}
		mq := int64(0)
		if k == "samples" {
			mq = maxQueue
		}
		s := newService(k, env, mq, par, interval)
		s.Init()
		go s.Run()
		rig.envs[k], rig.svcs[k] = env, s
		maps[k] = map[string]service.IInsertServiceV2{"n1": s}
	}
	controllerv1.Registry = registry.NewStaticServiceRegistry(maps["timeSeries"], maps["samples"], maps["metrics"],
		maps["tempoSamples"], maps["tempoTags"], maps["profile"])
	controllerv1.FPCache = fpCache()
	rig.handler = controllerv1.PushStreamV2(controllerv1.NewMiddlewareConfig(controllerv1.WithOverallContextMiddleware))
	return rig
}

// await: the answer of one push through this rig's handler, or the verdict that none will come (c0102AwaitAnswer: the
// deadline passed, or every insert service is idle while the handler still waits)
func (rig *handlerRig) await(done <-chan int, limit time.Duration) (code int, quiescent bool) {
	var subs []*service.InsertServiceV2
	for _, k := range kinds {
		ss, as := rig.svcs[k].VerifSubServices()
		subs = append(append(subs, ss...), as...)
	}
	code, _, quiescent = c0102AwaitAnswer(done, limit, subs, func() int {
		n := 0
		for _, k := range kinds {
			rig.envs[k].mu.Lock()
			n += rig.envs[k].nDo + rig.envs[k].nConn
			rig.envs[k].mu.Unlock()
		}
		return n
	})
	return code, quiescent
}

// pushes that got no answer in this run, per stream: after two the stream has given its verdict and its remaining cases
// are skipped (each would cost its deadline again)
var c01NoAnswer = map[string]int{}

func (rig *handlerRig) stop() {
	for _, s := range rig.svcs {
		s.Stop()
	}
}

// lokiBody: one stream with a unique label set and the given message tokens
func lokiBody(streamTag uint64, toks []uint64) []byte {
	type stream struct {
		Stream map[string]string `json:"stream"`
		Values [][]string        `json:"values"`
	}
	st := stream{Stream: map[string]string{"job": fmt.Sprintf("j%d", streamTag)}}
	for _, t := range toks {
		st.Values = append(st.Values, []string{fmt.Sprintf("%d", 1700000000000000000+int64(t)), tokStr("s", t)})
	}
	b, _ := json.Marshal(map[string]any{"streams": []stream{st}})
	return b
}

func (rig *handlerRig) push(body []byte) int {
	req := httptest.NewRequest("POST", "/loki/api/v1/push", bytes.NewReader(body))
	req.Header.Set("Content-Type", "application/json")
	w := httptest.NewRecorder()
	rig.handler(w, req)
	return w.Code
}

// c01HandlerSeq: one client, pushes one after the other; the k-th Do of a service is the k-th attempt of
// the current push, so scripted Do outcomes determine the model's attempt outcomes.
func c01HandlerSeq(r *h.Result, rng *h.Rng, n int) error {
	r.Stream("handler-seq: real PushStreamV2 (Build/doParse/doPush/retry-go, real services with Run loops, 1 ms flush timer), one client, scripted Do outcomes vs Batcher.handler; status and Do calls made per service")
	var ops, impl []string
	var cases []any
	for i := 0; i < n; i++ {
		attempts := rng.Intn(4)
		if rng.Chance(60) {
			attempts = 1 + rng.Intn(3)
		}
		mk := func() ([]bool, string) {
			outs := make([]bool, attempts)
			s := ""
			for j := range outs {
				outs[j] = rng.Chance(55)
				s += b01(outs[j])
			}
			if s == "" {
				s = "0"
			}
			return outs, s
		}
		tsOuts, tsS := mk()
		splOuts, splS := mk()
		badBody := rng.Chance(8)
		rig := newHandlerRig(rng.Fork(), attempts, time.Millisecond, 0, 1, 0, 0, 0, map[string][]bool{"timeSeries": tsOuts, "samples": splOuts})
		body := lokiBody(uint64(1000000+i), []uint64{uint64(5000 + i*8), uint64(5001 + i*8)})
		chunks := fmt.Sprintf("1,1,%s|1,1,%s|0,0,0|0,0,0|0,1,0", tsS, splS)
		if badBody {
			body = []byte(`{"streams":[{"stream":{"a":"b"},"values":[["1"`)
			chunks = "E"
		}
		if c01NoAnswer["handler-seq"] >= 2 {
			r.Count("handler-seq:skipped-after-two-unanswered-pushes")
			rig.stop()
			continue
		}
		done := make(chan int, 1)
		go func() { done <- rig.push(body) }()
		code, _ := rig.await(done, 20*time.Second)
		if code < 0 {
			c01NoAnswer["handler-seq"]++
		}
		rig.stop()
		status := "failure"
		if code >= 200 && code < 300 {
			status = "success"
		} else if code < 0 {
			status = "hang"
		}
		rig.envs["timeSeries"].mu.Lock()
		tsDo := rig.envs["timeSeries"].nDo
		rig.envs["timeSeries"].mu.Unlock()
		rig.envs["samples"].mu.Lock()
		splDo := rig.envs["samples"].nDo
		rig.envs["samples"].mu.Unlock()
		ops = append(ops, fmt.Sprintf("c01parse %d 1 %s", attempts, chunks))
		impl = append(impl, status)
		cases = append(cases, map[string]any{"attempts": attempts, "ts": tsS, "spl": splS, "bad_body": badBody, "code": code})
		if !badBody {
			// attempts made = Do calls seen by each service
			ops = append(ops, fmt.Sprintf("c01push %d 1 1 %s", attempts, tsS))
			impl = append(impl, fmt.Sprintf("%s %d", pushResultFromDo(tsOuts, tsDo), tsDo))
			cases = append(cases, nil)
			if pushResultFromDo(tsOuts, tsDo) == "ok" {
				// doParse awaits the promises in order and returns at the first error: only when the series
				// push succeeded has the samples push certainly finished when the answer is written
				ops = append(ops, fmt.Sprintf("c01push %d 1 1 %s", attempts, splS))
				impl = append(impl, fmt.Sprintf("%s %d", pushResultFromDo(splOuts, splDo), splDo))
				cases = append(cases, nil)
			}
		}
		r.Case(fmt.Sprintf("handler-seq:%d:%s:%s:%v", attempts, tsS, splS, badBody), attempts > 0 && !badBody)
		r.Count(fmt.Sprintf("handler-seq:attempts=%d", attempts))
		r.Count("handler-seq:status=" + status)
		if status == "success" && !badBody {
			// oracle with a concrete witness: both lines in an accepted samples block, the series row in an accepted series block
			splEnv, tsEnv := rig.envs["samples"], rig.envs["timeSeries"]
			splEnv.mu.Lock()
			have := map[uint64]bool{}
			for _, lb := range splEnv.okBlocks {
				for _, v := range lb.blk.Data["string"] {
					have[v] = true
				}
			}
			splEnv.mu.Unlock()
			tsEnv.mu.Lock()
			tsOk := len(tsEnv.okBlocks)
			tsEnv.mu.Unlock()
			if !have[uint64(5000+i*8)] || !have[uint64(5001+i*8)] || tsOk == 0 {
				r.Violate("C01/2xx-without-successful-insert",
					fmt.Sprintf("one push (1 new series, 2 lines), attempts=%d, Do outcomes series=%s samples=%s (1 = nil): answered %d but accepted blocks hold lines %v and %d series block(s)",
						attempts, tsS, splS, code, have, tsOk),
					map[string]any{"stream": "handler-seq", "attempts": attempts, "series_do_outcomes": tsS, "samples_do_outcomes": splS, "code": code})
			}
		}
		if status == "hang" {
			r.Violate("C01/no-answer", fmt.Sprintf("push with attempts=%d, series outcomes %s, samples outcomes %s got no answer (within 20 s, or while every insert service was idle with nothing queued)", attempts, tsS, splS),
				map[string]any{"stream": "handler-seq", "attempts": attempts, "ts": tsS, "spl": splS})
		}
	}
	return r.Compare("handler-seq", ops, impl, cases)
}

// c01HandlerChunks: one push whose body the parser splits into several chunks (it crosses the 1 MiB chunk
// threshold), with the INSERTs of the samples table failing first and succeeding later (or the other way
// round). Oracle only: a 2xx answer means EVERY line of the body is in an INSERT that returned nil.
func c01HandlerChunks(r *h.Result, rng *h.Rng, n int) {
	r.Stream("handler-chunks: real PushStreamV2 with a body of ~70 000 lines (several parser chunks), scripted per-INSERT outcomes of samples_v3 (fail-then-succeed, succeed-then-fail, random); oracle: 2xx ⇒ every line in an accepted block")
	for i := 0; i < n; i++ {
		attempts := 1 + rng.Intn(2)
		var script []bool
		switch rng.Intn(3) {
		case 0:
			script = []bool{false, true, true, true, true, true, true, true}
		case 1:
			script = []bool{true, false, false, false, false, false, false, false}
		default:
			for j := 0; j < 8; j++ {
				script = append(script, rng.Chance(50))
			}
		}
		lines := 70000 + rng.Intn(5000)
		toks := make([]uint64, lines)
		base := uint64(2000000000) + uint64(i)*1000000
		for j := range toks {
			toks[j] = base + uint64(j)
		}
		rig := newHandlerRig(rng.Fork(), attempts, time.Millisecond, 0, 1, 0, 0, 0, map[string][]bool{"samples": script})
		body := lokiBody(uint64(3000000+i), toks)
		if c01NoAnswer["handler-chunks"] >= 2 {
			r.Count("handler-chunks:skipped-after-two-unanswered-pushes")
			rig.stop()
			continue
		}
		done := make(chan int, 1)
		go func() { done <- rig.push(body) }()
		code, _ := rig.await(done, 60*time.Second)
		if code < 0 {
			c01NoAnswer["handler-chunks"]++
		}
		rig.stop()
		splEnv := rig.envs["samples"]
		splEnv.mu.Lock()
		have := map[uint64]bool{}
		for _, lb := range splEnv.okBlocks {
			for _, v := range lb.blk.Data["string"] {
				have[v] = true
			}
		}
		nDo := splEnv.nDo
		splEnv.mu.Unlock()
		missing := 0
		for _, t := range toks {
			if !have[t] {
				missing++
			}
		}
		sc := ""
		for _, b := range script {
			sc += b01(b)
		}
		r.Case(fmt.Sprintf("handler-chunks:%d:%s:%d", attempts, sc, lines), nDo >= 2)
		r.Count(fmt.Sprintf("handler-chunks:do-calls=%d", nDo))
		r.Count(fmt.Sprintf("handler-chunks:status=%d", code))
		if code >= 200 && code < 300 && missing > 0 {
			r.Violate("C01/2xx-without-successful-insert/multi-chunk",
				fmt.Sprintf("one push of %d lines (several parser chunks), attempts=%d, samples INSERT outcomes %s (1 = nil): answered %d but %d lines are in no accepted block", lines, attempts, sc, code, missing),
				map[string]any{"stream": "handler-chunks", "attempts": attempts, "samples_do_outcomes": sc, "lines": lines, "code": code, "missing": missing})
		}
		if code < 0 {
			r.Violate("C01/no-answer/multi-chunk", fmt.Sprintf("push of %d lines, attempts=%d, outcomes %s got no answer (within 60 s, or while every insert service was idle with nothing queued)", lines, attempts, sc),
				map[string]any{"stream": "handler-chunks", "attempts": attempts, "samples_do_outcomes": sc, "lines": lines})
		}
		if i == 0 {
			r.Sample(map[string]any{"stream": "handler-chunks", "lines": lines, "attempts": attempts, "samples_do_outcomes": sc, "status": code, "do_calls": nDo})
		}
	}
}

// what the observed Do calls say about the push: it succeeded iff the last Do it caused returned nil
func pushResultFromDo(outs []bool, nDo int) string {
	if nDo > 0 && nDo <= len(outs) && outs[nDo-1] {
		return "ok"
	}
	return "err"
}

type soakStats struct {
	pushes, ok2xx, err5xx, other, hang int64
}

// c01HandlerSoak: concurrent clients, random outcomes; oracle only.
func c01HandlerSoak(r *h.Result, rng *h.Rng, goroutines int, dur time.Duration, maxPushes int, label string) {
	attempts := 1 + rng.Intn(3)
	par := 1 + rng.Intn(3)
	interval := time.Duration(1+rng.Intn(20)) * time.Millisecond
	maxQueue := int64([]int{0, 200, 5000}[rng.Intn(3)])
	rig := newHandlerRig(rng.Fork(), attempts, interval, maxQueue, par, 25, 10, 2, nil)
	splEnv := rig.envs["samples"]
	var st soakStats
	var wg sync.WaitGroup
	var serial uint64
	deadline := time.Now().Add(dur)
	type viol struct {
		tag  uint64
		toks []uint64
		code int
	}
	var mu sync.Mutex
	var viols []viol
	for g := 0; g < goroutines; g++ {
		wg.Add(1)
		grng := rng.Fork()
		go func() {
			defer wg.Done()
			for time.Now().Before(deadline) && atomic.LoadInt64(&st.pushes) < int64(maxPushes) {
				tag := atomic.AddUint64(&serial, 1)
				n := 1 + grng.Intn(5)
				toks := make([]uint64, n)
				for i := range toks {
					toks[i] = 100000 + tag*64 + uint64(i)
				}
				atomic.AddInt64(&st.pushes, 1)
				done := make(chan int, 1)
				go func() { done <- rig.push(lokiBody(tag, toks)) }()
				select {
				case code := <-done:
					after := splEnv.tick()
					switch {
					case code >= 200 && code < 300:
						atomic.AddInt64(&st.ok2xx, 1)
						// every line must be in a samples block accepted before the answer
						splEnv.mu.Lock()
						have := map[uint64]bool{}
						for _, lb := range splEnv.okBlocks {
							if lb.seq < after {
								for _, v := range lb.blk.Data["string"] {
									have[v] = true
								}
							}
						}
						splEnv.mu.Unlock()
						for _, t := range toks {
							if !have[t] {
								mu.Lock()
								viols = append(viols, viol{tag, toks, code})
								mu.Unlock()
								break
							}
						}
					case code >= 500:
						atomic.AddInt64(&st.err5xx, 1)
					default:
						atomic.AddInt64(&st.other, 1)
					}
				case <-time.After(30 * time.Second):
					atomic.AddInt64(&st.hang, 1)
					return
				}
			}
		}()
	}
	wg.Wait()
	rig.stop()
	r.CountN(label+":pushes", int(st.pushes))
	r.CountN(label+":2xx", int(st.ok2xx))
	r.CountN(label+":5xx", int(st.err5xx))
	r.CountN(label+":other-status", int(st.other))
	splEnv.mu.Lock()
	r.CountN(label+":samples-do", splEnv.nDo)
	r.CountN(label+":samples-do-err", splEnv.nDoErr)
	r.CountN(label+":connect-fail", splEnv.nConnErr)
	// C02 on the side: every samples block is rectangular
	for _, lb := range splEnv.okBlocks {
		rows := lb.blk.rows()
		for _, n := range rows {
			if n != rows[0] {
				r.Violate("C02/non-rectangular-block", fmt.Sprintf("soak: samples block with per-column row counts %v", rows), map[string]any{"stream": label})
			}
		}
	}
	splEnv.mu.Unlock()
	r.Case(fmt.Sprintf("%s:att=%d:par=%d:int=%s:mq=%d", label, attempts, par, interval, maxQueue), st.ok2xx > 0 && st.err5xx > 0)
	r.Evaluations += int(st.pushes)
	if len(viols) > 0 {
		v := viols[0]
		r.Violate("C01/2xx-without-successful-insert",
			fmt.Sprintf("push of stream j%d answered %d but not all of its %d lines were in a samples INSERT that had returned nil (attempts=%d, %d sub-services, interval %s, maxQueue %d); %d such pushes",
				v.tag, v.code, len(v.toks), attempts, par, interval, maxQueue, len(viols)),
			map[string]any{"stream": label, "attempts": attempts, "parallel": par, "interval_ms": interval.Milliseconds(), "max_queue": maxQueue, "goroutines": goroutines})
	}
	if st.hang > 0 {
		r.Violate("C01/no-answer", fmt.Sprintf("%d pushes got no answer within 30 s while the fake database kept answering", st.hang),
			map[string]any{"stream": label, "attempts": attempts, "parallel": par})
	}
}

// raceSoak builds this harness with -race and runs the soak in that binary (thorough tier).
func raceSoak(r *h.Result, seed uint64, secs int) {
	self, err := os.Executable()
	if err != nil {
		r.Notes = append(r.Notes, "race soak skipped: "+err.Error())
		return
	}
	dir := filepath.Dir(filepath.Dir(self)) // harness/
	if _, err := os.Stat(filepath.Join(dir, "cmd", "vcheck")); err != nil {
		if wd, e := os.Getwd(); e == nil {
			dir = wd
		}
	}
	bin := filepath.Join(dir, "bin", fmt.Sprintf("vcheck-race-%d", os.Getpid()))
	cmd := exec.Command("go", "build", "-race", "-tags", "verif", "-o", bin, "./cmd/vcheck")
	cmd.Dir = dir
	if out, err := cmd.CombinedOutput(); err != nil {
		r.Notes = append(r.Notes, "race soak skipped: build with -race failed: "+trunc(string(out), 300))
		return
	}
	defer os.Remove(bin)
	outFile := bin + ".json"
	defer os.Remove(outFile)
	run := exec.Command(bin, "C01", "-tier", fmt.Sprintf("soak-child:%d", secs), "-seed", fmt.Sprint(seed), "-out", outFile, "-driver", h.DriverPath)
	run.Dir = dir
	run.Env = append(os.Environ(), "GORACE=halt_on_error=0 exitcode=0 log_path="+bin+".race")
	out, err := run.CombinedOutput()
	races, _ := filepath.Glob(bin + ".race*")
	nRaces := 0
	var firstRace string
	for _, f := range races {
		b, _ := os.ReadFile(f)
		nRaces += strings.Count(string(b), "WARNING: DATA RACE")
		if firstRace == "" {
			firstRace = trunc(string(b), 1500)
		}
		os.Remove(f)
	}
	if err != nil {
		r.Notes = append(r.Notes, "race soak child failed: "+trunc(string(out), 300))
		return
	}
	var child h.Result
	if b, err := os.ReadFile(outFile); err == nil && json.Unmarshal(b, &child) == nil {
		for k, v := range child.Distribution {
			r.CountN("race-"+k, v)
		}
		r.Evaluations += child.Evaluations
		for _, v := range child.Violations {
			r.Violate(v.Key, "[-race soak] "+v.What, v.Replay)
		}
	}
	r.CountN("race-soak:data-races-reported", nRaces)
	if nRaces > 0 {
		// reported, not a C01 violation by itself: the property speaks of acknowledgements; see notes
		r.Notes = append(r.Notes, "go -race reported "+fmt.Sprint(nRaces)+" data race(s) in the soak; first: "+firstRace)
	} else {
		r.Notes = append(r.Notes, "go -race soak: no data race reported")
	}
}

func c01(r *h.Result, rng *h.Rng, tier string, replay string) error {
	if strings.HasPrefix(tier, "soak-child:") {
		secs := 20
		fmt.Sscanf(strings.TrimPrefix(tier, "soak-child:"), "%d", &secs)
		for i := 0; i < 3; i++ {
			c01HandlerSoak(r, rng.Fork(), 16, time.Duration(secs)*time.Second/3, 1<<30, "soak")
		}
		return nil
	}
	var rep *scenario
	if replay != "" {
		rep = loadReplayScenario(replay)
		if doc := loadReplayDoc(replay); rep != nil && doc != nil && doc["stream"] == "inflight" {
			return c02Inflight(r, rng.Fork(), 0, rep)
		}
		if rep == nil {
			if doc := loadReplayDoc(replay); doc != nil {
				switch doc["stream"] {
				case "handler-errtext":
					return c01ReplayErrText(r, rng.Fork(), doc)
				case "lock-probe":
					return c02ReplayProbe(r, rng.Fork(), doc, "C01/")
				}
			}
		}
	}
	nScen, maxOps, connFail, nRetry, nSeq := 300, 40, 16, 400, 40
	if tier == "thorough" || tier == "search" {
		nScen, maxOps, connFail, nRetry, nSeq = 2400, 120, 120, 5000, 200
	}
	r.Rule = "svc: op sequences (bursts of 1–4 requests of 0–50 rows, triggers, iterations with connect ok/fail, Do ok 65 %/err, stops) over the six tables, 1–3 sub-services per group, MaxQueueSize ∈ {0,1,60–260,1e5}, 12 % of the sequences may contain malformed requests; non-trivial = at least one request and one Do; distinct by implementation event log. retry/handler-seq: distinct by (attempts, outcome strings). soak: one case per configuration, non-trivial = both 2xx and 5xx answers seen"
	r.Stream("svc: impl.New{Samples,TimeSeries,Metrics,TempoSamples,TempoTags,ProfileSamples}InsertService + fake IChClientFactory, driven through Request/PlanFlush/VerifIterateIfDue/Stop with scripted connect and Do outcomes, vs Batcher.Multi.run (event log with decoded blocks + per-sub-service bookkeeping)")
	if err := runSvcStream(r, rng.Fork(), nScen, maxOps, connFail, tier != "quick", rep, judgeC01); err != nil {
		return err
	}
	if rep != nil {
		return nil
	}
	nFlight := 80
	if tier != "quick" {
		nFlight = 1000
	}
	if err := c02Inflight(r, rng.Fork(), nFlight, nil); err != nil {
		return err
	}
	if err := c01Retry(r, rng.Fork(), nRetry); err != nil {
		return err
	}
	if err := c01HandlerSeq(r, rng.Fork(), nSeq); err != nil {
		return err
	}
	nTxt, nCls, nHE := 300, 800, 40
	if tier != "quick" {
		nTxt, nCls, nHE = 4000, 12000, 400
	}
	if err := c01RetryText(r, rng.Fork(), nTxt); err != nil {
		return err
	}
	if err := c01Classify(r, rng.Fork(), nCls); err != nil {
		return err
	}
	if err := c01HandlerErrText(r, rng.Fork(), nHE, nil); err != nil {
		return err
	}
	nPS, nPC := 300, 400
	if tier != "quick" {
		nPS, nPC = 5000, 20000
	}
	if err := c01PromiseSeq(r, rng.Fork(), nPS); err != nil {
		return err
	}
	c01PromiseConc(r, rng.Fork(), nPC)
	nProbe := 6
	if tier != "quick" {
		nProbe = 48
	}
	if err := c02LockProbe(r, rng.Fork(), nProbe, 120, "C01/"); err != nil {
		return err
	}
	if tier == "quick" {
		c01HandlerChunks(r, rng.Fork(), 4)
	} else {
		c01HandlerChunks(r, rng.Fork(), 30)
	}
	r.Stream("handler-soak: concurrent pushes through the real PushStreamV2 handler, real Run loops and timers, random Do (25 % errors) and connect outcomes; oracle only")
	if tier == "quick" {
		c01HandlerSoak(r, rng.Fork(), 8, 4*time.Second, 1500, "soak")
	} else {
		for i := 0; i < 4; i++ {
			c01HandlerSoak(r, rng.Fork(), 16, 15*time.Second, 1<<30, "soak")
		}
		raceSoak(r, r.Seed, 60)
	}
	r.Notes = append(r.Notes, "partial: real timers and the Go scheduler are not in the model; svc.running is read without the lock (a data race only -race can witness)")
	var ks []string
	for k := range r.Distribution {
		ks = append(ks, k)
	}
	sort.Strings(ks)
	return nil
}

func loadReplayScenario(path string) *scenario {
	b, err := os.ReadFile(path)
	if err != nil {
		b, err = os.ReadFile(filepath.Join("..", path)) // ./check passes the path as given, relative to /verif
	}
	if err != nil {
		return nil
	}
	var doc struct {
		Replay struct {
			Scenario *scenario `json:"scenario"`
		} `json:"replay"`
	}
	if json.Unmarshal(b, &doc) != nil {
		return nil
	}
	return doc.Replay.Scenario
}
